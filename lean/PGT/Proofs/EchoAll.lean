import PGT.Proofs.EchoEmbed
import PGT.Proofs.EchoOneofDeep
/-
C08 (apply echo): ONE judgement – `PlanOKA` / `PlanOKsA` – for everything proved so far: the plain tree, oneof groups at every
position (`PlanOK3`, PGT/Proofs/EchoOneofDeep.lean), children of nullable embedded messages of every kind and custom kinds
(`PlanOKE`, PGT/Proofs/EchoEmbed.lean) – IN THE SAME MESSAGE, recursively through singular nested messages and through message
branches of oneof groups (task P59).  `C08_echo_all` has the conclusion of `C08_echo`; `planOKs3_planOKsA` and
`planOKEs_planOKsA` make `C08_echo_oneof3` and `C08_echo_embed` corollaries (`C08_echo_oneof3_of_all`, `C08_echo_embed_of_all`).

Structure.
 A. `seqFromA`: the field blocks of CopyFrom of ONE message in sequence, where a block is a plain assignment, the block of a
    child of a nullable embedded message (`Blk` of EchoEmbed.lean) or the block of a oneof branch (`BrBlk`: nothing, or the
    holder is assigned the branch's wrapper).  Holder writes and parent-pointer writes touch different Go fields (`SepOK3`);
    of two branches of one group at most one is active (`ExclAll`).  Result per field: `FinA`.
 B. `FieldEchoA` (the echo of one field, semantically: `FieldEcho` of EchoEmbed.lean extended to branches) and `BundleA` (the
    echo of the fields of one message, decoded into a fresh struct); `bundleA_of` composes.
 C. `FieldEchoA` by template: every `FieldEcho` (`fieldEchoA_of_fieldEcho`); a `PlanOK3` field that is not a branch
    (`fieldEcho_of_planOK3`, from `decField3` / `echoField3`); a `PlanOK3` branch (`fieldEchoA_branch`); a nested message whose
    fields echo (`fieldEcho_objectA`); a message branch whose fields echo (`fieldEchoA_msgBranch`).
 D.–F. the judgement, the induction over the IR, `C08_echo_all` / `C08_echo_all_check`, the two embeddings.
 G. non-vacuity (evaluated by `decide +kernel`).  H. what remains open (`echo_all_full`): steps (1) and (3) of the task.
-/
namespace PGT
open PGT.Spec PGT.Props

-- ------------------------------------------------------------------------------------------------------
-- A. sequencing of field blocks: plain fields, children of nullable embedded messages AND oneof branches in one message

/-- the block of a oneof branch in CopyFrom: nothing happens (`Qn`), or – only when the branch is active in the plan
(`Act`) – the holder of the group is assigned the wrapper of the branch with payload `y` (`Qs y`); no diagnostic -/
def BrBlk (ov : List (String × String)) (f : Field) (attrs : Option (List (String × TfVal))) (Act : Prop) (Qn : Prop)
    (Qs : GoVal → Prop) : Prop :=
  ∀ st : FromSt, IsStruct st.obj →
    (copyFromField ov f attrs st = .ok st ∧ Qn) ∨
    (Act ∧ ∃ y hs', copyFromField ov f attrs st =
        .ok { obj := st.obj.setField f.info.oneOfName (wrapOf f.info y), diags := st.diags, hooks := hs' } ∧ Qs y)

/-- the block of any field: outside oneof groups `Blk` (PGT/Proofs/EchoEmbed.lean), a oneof branch `BrBlk` -/
def BlkA (ov : List (String × String)) (f : Field) (attrs : Option (List (String × TfVal))) (Act : Prop) (Qn : Prop)
    (Qs : GoVal → Prop) : Prop :=
  (f.info.oneOfName = "" ∧ Blk ov f attrs Qn Qs) ∨
  (f.info.oneOfName ≠ "" ∧ f.info.parentIsOptionalEmbed = false ∧ BrBlk ov f attrs Act Qn Qs)

/-- the state of field `c` in a decoded struct: outside oneof groups `Fin`; a branch whose block did nothing is not the
active one, a branch whose block assigned the holder is the active one -/
def FinA (c : FieldInfo) (Act : Prop) (Qn : Prop) (Qs : GoVal → Prop) (o : GoVal) : Prop :=
  (c.oneOfName = "" → Fin c Qn Qs o) ∧
  (c.oneOfName ≠ "" → (Qn ∧ activePayload c o = none) ∨
    (Act ∧ ∃ y, o.field? c.oneOfName = some (wrapOf c y) ∧ Qs y))

/-- of two branches of one group at most one is active in the plan -/
def ExclAll (Act : Field → Prop) : List Field → Prop
  | [] => True
  | f :: rest =>
    (∀ g ∈ rest, f.info.oneOfName ≠ "" → g.info.oneOfName = f.info.oneOfName → ¬ (Act f ∧ Act g)) ∧ ExclAll Act rest

theorem sep3_branch_types (f g : FieldInfo) (hsep : SepOK3 f g) (hef : f.parentIsOptionalEmbed = false)
    (hof : f.oneOfName ≠ "") (heg : g.parentIsOptionalEmbed = false) (hg : g.oneOfName = f.oneOfName) :
    lastSegment f.oneOfType ≠ lastSegment g.oneOfType := by
  have hog : g.oneOfName ≠ "" := by rw [hg]; exact hof
  rcases hsep (by rw [wkey3_branch f hef hof, wkey3_branch g heg hog, hg]) with h | h
  · exact h.2.2.2.2
  · rw [hef] at h; exact absurd h.1 (by simp)

/-- a later block that assigns the holder of a branch is the block of another branch of the same group -/
theorem sep3_branch_key (f g : FieldInfo) (hsep : SepOK3 f g) (hef : f.parentIsOptionalEmbed = false)
    (hof : f.oneOfName ≠ "") (h : wkey3 g = f.oneOfName) :
    g.parentIsOptionalEmbed = false ∧ g.oneOfName ≠ "" ∧ g.oneOfName = f.oneOfName ∧
      lastSegment f.oneOfType ≠ lastSegment g.oneOfType := by
  rcases hsep (by rw [wkey3_branch f hef hof, h]) with h' | h'
  · exact ⟨h'.2.1, by rw [h'.2.2.2.1]; exact hof, h'.2.2.2.1, h'.2.2.2.2⟩
  · rw [hef] at h'; exact absurd h'.1 (by simp)

/-- a child of a nullable embedded message and a field that is not one assign different Go fields -/
theorem sep3_mixed (f g : FieldInfo) (hsep : SepOK3 f g) (hef : f.parentIsOptionalEmbed = true)
    (heg : g.parentIsOptionalEmbed = false) : wkey3 f ≠ wkey3 g := by
  intro e
  rcases hsep e with h | h
  · rw [hef] at h; exact absurd h.1 (by simp)
  · rw [heg] at h; exact absurd h.2.1 (by simp)

/-- the conclusion of `seqFromA` -/
def SeqConcl (ov : List (String × String)) (attrs : Option (List (String × TfVal))) (Act : Field → Prop)
    (Post : Field → Prop → (GoVal → Prop) → Prop) (fs : List Field) (st : FromSt) : Prop :=
  ∃ o hs', copyFromFields ov fs attrs st = .ok { obj := o, diags := st.diags, hooks := hs' } ∧ IsStruct o ∧
    (∀ f ∈ fs, f.info.isPlaceholder = false → ∃ Qn Qs, FinA f.info (Act f) Qn Qs o ∧ Post f Qn Qs) ∧
    (∀ key, (∀ f ∈ fs, key ≠ wkey3 f.info) → o.field? key = st.obj.field? key) ∧
    (∀ P n, (∀ f ∈ fs, wkey3 f.info = P → f.info.parentIsOptionalEmbed = true ∧ f.info.name ≠ n) →
      cfield P n o = cfield P n st.obj) ∧
    (∀ P, (∀ f ∈ fs, f.info.parentIsOptionalEmbed = false → wkey3 f.info ≠ P) → PShapeP P st.obj → PShapeP P o) ∧
    (∀ g, (∀ f ∈ fs, wkey3 f.info = g → f.info.parentIsOptionalEmbed = false ∧ f.info.oneOfName ≠ "") →
      o.field? g = st.obj.field? g ∨
      ∃ d ∈ fs, d.info.parentIsOptionalEmbed = false ∧ d.info.oneOfName ≠ "" ∧ d.info.oneOfName = g ∧ Act d ∧
        ∃ y, o.field? g = some (wrapOf d.info y))

/-- one step of `seqFromA`: the head block turns the target into `o'` -/
theorem seqA_step (ov : List (String × String)) (attrs : Option (List (String × TfVal))) (Act : Field → Prop)
    (Post : Field → Prop → (GoVal → Prop) → Prop) (f : Field) (rest : List Field) (st : FromSt)
    (Qn : Prop) (Qs : GoVal → Prop) (o' : GoVal) (hs1 : List HookCall)
    (hph : f.info.isPlaceholder = false) (hpost : Post f Qn Qs)
    (hpw : ∀ g ∈ rest, PShape g.info st.obj)
    (hsepf : ∀ g ∈ rest, SepOK3 f.info g.info)
    (hpre : ∀ g ∈ rest, g.info.oneOfName ≠ "" → g.info.parentIsOptionalEmbed = false → activePayload g.info st.obj = none)
    (hrun : copyFromField ov f attrs st = .ok { obj := o', diags := st.diags, hooks := hs1 })
    (hso' : IsStruct o')
    (F1 : ∀ key, key ≠ wkey3 f.info → o'.field? key = st.obj.field? key)
    (F2 : ∀ P n, (wkey3 f.info = P → f.info.parentIsOptionalEmbed = true ∧ f.info.name ≠ n) →
      cfield P n o' = cfield P n st.obj)
    (F3 : ∀ P, (f.info.parentIsOptionalEmbed = false → wkey3 f.info ≠ P) → PShapeP P st.obj → PShapeP P o')
    (F5 : ∀ g ∈ rest, g.info.oneOfName ≠ "" → g.info.parentIsOptionalEmbed = false → g.info.oneOfName = wkey3 f.info →
      activePayload g.info o' = none)
    (F6 : f.info.parentIsOptionalEmbed = false → f.info.oneOfName ≠ "" →
      o'.field? (wkey3 f.info) = st.obj.field? (wkey3 f.info) ∨
        (Act f ∧ ∃ y, o'.field? (wkey3 f.info) = some (wrapOf f.info y)))
    (IH : IsStruct o' → (∀ g ∈ rest, PShape g.info o') →
      (∀ g ∈ rest, g.info.oneOfName ≠ "" → g.info.parentIsOptionalEmbed = false → activePayload g.info o' = none) →
      SeqConcl ov attrs Act Post rest { obj := o', diags := st.diags, hooks := hs1 })
    (hhead : ∀ o : GoVal,
      (∀ key, (∀ g ∈ rest, key ≠ wkey3 g.info) → o.field? key = o'.field? key) →
      (∀ P n, (∀ g ∈ rest, wkey3 g.info = P → g.info.parentIsOptionalEmbed = true ∧ g.info.name ≠ n) →
        cfield P n o = cfield P n o') →
      (∀ g, (∀ f' ∈ rest, wkey3 f'.info = g → f'.info.parentIsOptionalEmbed = false ∧ f'.info.oneOfName ≠ "") →
        o.field? g = o'.field? g ∨
        ∃ d ∈ rest, d.info.parentIsOptionalEmbed = false ∧ d.info.oneOfName ≠ "" ∧ d.info.oneOfName = g ∧ Act d ∧
          ∃ y, o.field? g = some (wrapOf d.info y)) →
      FinA f.info (Act f) Qn Qs o) :
    SeqConcl ov attrs Act Post (f :: rest) st := by
  have hpw1 : ∀ g ∈ rest, PShape g.info o' := by
    intro g hg heg
    refine F3 _ (fun hef e => ?_) (hpw g hg heg)
    have := sep_not_embed _ _ (hsepf g hg) hef heg
    rw [wkey3_embed _ heg] at this
    exact this e
  have hpre1 : ∀ g ∈ rest, g.info.oneOfName ≠ "" → g.info.parentIsOptionalEmbed = false → activePayload g.info o' = none := by
    intro g hg hgo heg
    by_cases e : g.info.oneOfName = wkey3 f.info
    · exact F5 g hg hgo heg e
    · rw [activePayload_congr g.info o' st.obj (F1 _ e)]
      exact hpre g hg hgo heg
  obtain ⟨o, hs', hrun2, hso, hall, hframe, hcf, hps, hhold⟩ := IH hso' hpw1 hpre1
  refine ⟨o, hs', ?_, hso, ?_, ?_, ?_, ?_, ?_⟩
  · simp only [copyFromFields, hph, Bool.false_eq_true, if_false, hrun]
    exact hrun2
  · intro g hg hgp
    simp only [List.mem_cons] at hg
    rcases hg with rfl | hg
    · exact ⟨Qn, Qs, hhead o hframe hcf hhold, hpost⟩
    · exact hall g hg hgp
  · intro key hkey
    rw [hframe key (fun g hg => hkey g (by simp [hg]))]
    exact F1 key (hkey f (by simp))
  · intro P n hPn
    rw [hcf P n (fun g hg => hPn g (by simp [hg]))]
    exact F2 P n (hPn f (by simp))
  · intro P hP hsh
    exact hps P (fun g hg => hP g (by simp [hg])) (F3 P (hP f (by simp)) hsh)
  · intro g hg
    rcases hhold g (fun f' hf' => hg f' (by simp [hf'])) with h | ⟨d, hd, h⟩
    · by_cases e : g = wkey3 f.info
      · obtain ⟨hef, hof⟩ := hg f (by simp) e.symm
        rcases F6 hef hof with h6 | ⟨hact, y, hy⟩
        · left; rw [h, e]; exact h6
        · right
          refine ⟨f, by simp, hef, hof, ?_, hact, y, ?_⟩
          · rw [e, wkey3_branch _ hef hof]
          · rw [h, e]; exact hy
      · left; rw [h]; exact F1 g e
    · exact Or.inr ⟨d, by simp [hd], h⟩

theorem seqFromA (ov : List (String × String)) (attrs : Option (List (String × TfVal))) (Act : Field → Prop)
    (Post : Field → Prop → (GoVal → Prop) → Prop) :
    ∀ (fs : List Field) (st : FromSt), IsStruct st.obj →
      (∀ f ∈ fs, PShape f.info st.obj) → SepAll fs → ExclAll Act fs →
      (∀ f ∈ fs, f.info.oneOfName ≠ "" → f.info.parentIsOptionalEmbed = false → activePayload f.info st.obj = none) →
      (∀ f ∈ fs, f.info.isPlaceholder = false → ∃ Qn Qs, BlkA ov f attrs (Act f) Qn Qs ∧ Post f Qn Qs) →
      SeqConcl ov attrs Act Post fs st
  | [], st, hs, _, _, _, _, _ =>
    ⟨st.obj, st.hooks, by simp [copyFromFields], hs, by simp, by simp, by simp, fun _ _ h => h, fun _ _ => Or.inl rfl⟩
  | f :: rest, st, hs, hpw, hsep, hexcl, hpre, hblk => by
    unfold SepAll at hsep
    obtain ⟨hsepf, hseprest⟩ := hsep
    unfold ExclAll at hexcl
    obtain ⟨hexf, hexrest⟩ := hexcl
    have IH : ∀ (o' : GoVal) (hs1 : List HookCall), IsStruct o' → (∀ g ∈ rest, PShape g.info o') →
        (∀ g ∈ rest, g.info.oneOfName ≠ "" → g.info.parentIsOptionalEmbed = false → activePayload g.info o' = none) →
        SeqConcl ov attrs Act Post rest { obj := o', diags := st.diags, hooks := hs1 } :=
      fun o' hs1 h1 h2 h3 => seqFromA ov attrs Act Post rest { obj := o', diags := st.diags, hooks := hs1 } h1 h2 hseprest hexrest h3
        (fun g hg => hblk g (by simp [hg]))
    by_cases hph : f.info.isPlaceholder = true
    · obtain ⟨o, hs', hrun, hso, hall, hframe, hcf, hps, hhold⟩ := IH st.obj st.hooks hs
        (fun g hg => hpw g (by simp [hg])) (fun g hg => hpre g (by simp [hg]))
      refine ⟨o, hs', ?_, hso, ?_, ?_, ?_, ?_, ?_⟩
      · simp only [copyFromFields, hph, if_true]
        exact hrun
      · intro g hg hgp
        simp only [List.mem_cons] at hg
        rcases hg with rfl | hg
        · rw [hph] at hgp; cases hgp
        · exact hall g hg hgp
      · intro key hkey
        exact hframe key (fun g hg => hkey g (by simp [hg]))
      · intro P n hPn
        exact hcf P n (fun g hg => hPn g (by simp [hg]))
      · intro P hP
        exact hps P (fun g hg => hP g (by simp [hg]))
      · intro g hg
        rcases hhold g (fun f' hf' => hg f' (by simp [hf'])) with h | ⟨d, hd, h⟩
        · exact Or.inl h
        · exact Or.inr ⟨d, by simp [hd], h⟩
    · have hph' : f.info.isPlaceholder = false := by simpa using hph
      obtain ⟨Qn, Qs, hb, hpost⟩ := hblk f (by simp) hph'
      have hpwR : ∀ g ∈ rest, PShape g.info st.obj := fun g hg => hpw g (by simp [hg])
      have hpreR : ∀ g ∈ rest, g.info.oneOfName ≠ "" → g.info.parentIsOptionalEmbed = false →
          activePayload g.info st.obj = none := fun g hg => hpre g (by simp [hg])
      rcases hb with ⟨ho, hb⟩ | ⟨ho, he, hb⟩
      · -- outside oneof groups
        rcases hb st hs (hpw f (by simp)) with ⟨he, y, hs1, hrun, hq⟩ | ⟨he, hE⟩
        · -- a plain field
          have wf := wkey3_plain f.info he ho
          refine seqA_step ov attrs Act Post f rest st Qn Qs (st.obj.setField f.info.name y) hs1 hph' hpost hpwR hsepf hpreR
            hrun (isStruct_setField _ _ _ hs) ?_ ?_ ?_ ?_ ?_ (IH _ hs1) ?_
          · intro key hkey
            rw [wf] at hkey
            exact field?_setField_other _ _ _ _ hkey
          · intro P n hPn
            apply cfield_congr
            refine field?_setField_other _ _ _ _ (fun e => ?_)
            have := (hPn (by rw [wf, e])).1
            rw [he] at this
            cases this
          · intro P hP hsh
            refine pshapeP_congr _ _ _ (field?_setField_other _ _ _ _ ?_) hsh
            have := hP he
            rw [wf] at this
            exact fun e => this e.symm
          · intro g hg hgo heg e
            exfalso
            have := sep_plain _ _ (hsepf g hg) he ho
            rw [wkey3_branch _ heg hgo] at this
            exact this e.symm
          · intro _ hof
            exact absurd ho hof
          · intro o hframe _ _
            refine ⟨fun _ => ⟨fun _ => ⟨y, ?_, hq⟩, fun h => by rw [he] at h; cases h⟩, fun h => absurd ho h⟩
            rw [hframe f.info.name (fun g' hg' => by
                have := sep_plain _ _ (hsepf g' hg') he ho
                rw [wf] at this
                exact this), field?_setField_same _ _ _ hs]
        · -- a child of a nullable embedded message
          have wf := wkey3_embed f.info he
          have hpsf := hpw f (by simp) he
          have hpwf := parentWF_of_pshape _ _ hpsf
          have hsame : ∀ g ∈ rest, wkey3 g.info = f.info.parentIsOptionalEmbedFieldName →
              g.info.parentIsOptionalEmbed = true ∧ g.info.name ≠ f.info.name :=
            fun g hg e => sep_embed _ _ (hsepf g hg) he e
          have hF5 : ∀ g ∈ rest, g.info.oneOfName ≠ "" → g.info.parentIsOptionalEmbed = false →
              g.info.oneOfName = wkey3 f.info → False := by
            intro g hg hgo heg e
            have := sep3_mixed _ _ (hsepf g hg) he heg
            rw [wkey3_branch _ heg hgo] at this
            exact this e.symm
          rcases hE with ⟨hrun, hcn, hq⟩ | ⟨y, hs1, hrun, hq⟩
          · refine seqA_step ov attrs Act Post f rest st Qn Qs st.obj st.hooks hph' hpost hpwR hsepf hpreR
              hrun hs (fun _ _ => rfl) (fun _ _ _ => rfl) (fun _ _ h => h) (fun g hg hgo heg e => (hF5 g hg hgo heg e).elim)
              (fun h => by rw [he] at h; cases h) (IH _ _) ?_
            intro o _ hcf _
            refine ⟨fun _ => ⟨(fun h => by rw [he] at h; cases h), fun _ => Or.inl ⟨?_, hq⟩⟩, fun h => absurd ho h⟩
            rw [hcf _ _ hsame, hcn]
          · refine seqA_step ov attrs Act Post f rest st Qn Qs
              (embedSet f.info.parentIsOptionalEmbedFieldName f.info.name st.obj y) hs1 hph' hpost hpwR hsepf hpreR
              hrun (isStruct_embedSet _ _ _ _ hs) ?_ ?_ ?_ (fun g hg hgo heg e => (hF5 g hg hgo heg e).elim)
              (fun h => by rw [he] at h; cases h) (IH _ hs1) ?_
            · intro key hkey
              rw [wf] at hkey
              exact field?_embedSet_other _ _ _ _ _ hkey
            · intro P n hPn
              by_cases e : P = f.info.parentIsOptionalEmbedFieldName
              · subst e
                have := (hPn wf).2
                exact cfield_embedSet_other _ _ _ _ _ hs (fun e => this e.symm)
              · exact cfield_congr _ _ _ _ (field?_embedSet_other _ _ _ _ _ e)
            · intro P _ hsh
              by_cases e : P = f.info.parentIsOptionalEmbedFieldName
              · subst e; exact pshapeP_embedSet _ _ _ _ hs hsh
              · exact pshapeP_congr _ _ _ (field?_embedSet_other _ _ _ _ _ e) hsh
            · intro o _ hcf _
              refine ⟨fun _ => ⟨(fun h => by rw [he] at h; cases h), fun _ => Or.inr ⟨y, ?_, hq⟩⟩, fun h => absurd ho h⟩
              rw [hcf _ _ hsame, cfield_embedSet_same _ _ _ _ hs hpwf]
      · -- a oneof branch
        have wf := wkey3_branch f.info he ho
        have hkeyR : ∀ f' ∈ rest, wkey3 f'.info = f.info.oneOfName →
            f'.info.parentIsOptionalEmbed = false ∧ f'.info.oneOfName ≠ "" := by
          intro f' hf' e
          obtain ⟨h1, h2, _⟩ := sep3_branch_key _ _ (hsepf f' hf') he ho e
          exact ⟨h1, h2⟩
        rcases hb st hs with ⟨hrun, hq⟩ | ⟨hact, y, hs1, hrun, hq⟩
        · refine seqA_step ov attrs Act Post f rest st Qn Qs st.obj st.hooks hph' hpost hpwR hsepf hpreR
            hrun hs (fun _ _ => rfl) (fun _ _ _ => rfl) (fun _ _ h => h) (fun g hg hgo heg _ => hpreR g hg hgo heg)
            (fun _ _ => Or.inl rfl) (IH _ _) ?_
          intro o _ _ hhold
          refine ⟨fun h => absurd h ho, fun _ => Or.inl ⟨hq, ?_⟩⟩
          rcases hhold f.info.oneOfName hkeyR with h | ⟨d, hd, hed, _, hdg, _, y, hy⟩
          · rw [activePayload_congr f.info o st.obj h]
            exact hpre f (by simp) ho he
          · exact activePayload_wrap_other f.info d.info o y hy
              (sep3_branch_types _ _ (hsepf d hd) he ho hed hdg)
        · refine seqA_step ov attrs Act Post f rest st Qn Qs (st.obj.setField f.info.oneOfName (wrapOf f.info y)) hs1
            hph' hpost hpwR hsepf hpreR hrun (isStruct_setField _ _ _ hs) ?_ ?_ ?_ ?_ ?_ (IH _ hs1) ?_
          · intro key hkey
            rw [wf] at hkey
            exact field?_setField_other _ _ _ _ hkey
          · intro P n hPn
            apply cfield_congr
            refine field?_setField_other _ _ _ _ (fun e => ?_)
            have := (hPn (by rw [wf, e])).1
            rw [he] at this
            cases this
          · intro P hP hsh
            refine pshapeP_congr _ _ _ (field?_setField_other _ _ _ _ ?_) hsh
            have := hP he
            rw [wf] at this
            exact fun e => this e.symm
          · intro g hg hgo heg e
            rw [wf] at e
            refine activePayload_wrap_other g.info f.info _ y ?_
              (fun e' => sep3_branch_types _ _ (hsepf g hg) he ho heg e e'.symm)
            rw [e]
            exact field?_setField_same _ _ _ hs
          · intro _ _
            right
            refine ⟨hact, y, ?_⟩
            rw [wf]
            exact field?_setField_same _ _ _ hs
          · intro o _ _ hhold
            refine ⟨fun h => absurd h ho, fun _ => Or.inr ⟨hact, y, ?_, hq⟩⟩
            rcases hhold f.info.oneOfName hkeyR with h | ⟨d, hd, _, _, hdg, hactd, _⟩
            · rw [h]
              exact field?_setField_same _ _ _ hs
            · exact absurd ⟨hact, hactd⟩ (hexf d hd ho hdg)

-- ------------------------------------------------------------------------------------------------------
-- B. the echo of one field (`FieldEchoA`) and of the fields of one message (`BundleA`)

/-- part 2 of `FieldEchoA` -/
def EPartA (ov : List (String × String)) (skN skE : List String) (Act : Prop) (f : Field) (a : TfVal) (ty : TfTy)
    (Qn : Prop) (Qs : GoVal → Prop) : Prop :=
  ∀ (o : GoVal) (atys : List (String × TfTy)), IsStruct o → PShape f.info o →
    (f.info.isPlaceholder = false → FinA f.info Act Qn Qs o) →
    atys.lookup f.info.nameSnake = some ty →
    ToBlk f o atys a (fun v => EchoW skN skE f.info.nameSnake a v ∧
      (f.info.isPlaceholder = false → ∀ attrs2 : Option (List (String × TfVal)),
        (attrs2.getD []).lookup f.info.nameSnake = some v →
        ∃ (Qn2 : Prop) (Qs2 : GoVal → Prop), BlkA ov f attrs2 Act Qn2 Qs2 ∧
          ∀ o2, FinA f.info Act Qn2 Qs2 o2 → nfEqField f o o2 = true))

/-- **the echo of one field** – `FieldEcho` of PGT/Proofs/EchoEmbed.lean with oneof branches: there is a description
(`Qn`, `Qs`) of what the first decode leaves in the field (for a branch: in the holder of its group) such that (1) the
CopyFrom block on the planned value `a` establishes it, and (2) on every struct in that state the CopyTo block on an object
holding `a` writes a value `v` with nothing unknown, the known parts of `a` kept, and the CopyFrom block on `v` leads to a
state that compares equal (`Spec.nfEqField`).  `Act`: the branch is active in the plan (its attribute is not null). -/
def FieldEchoA (ov : List (String × String)) (skN skE : List String) (Act : Prop) (f : Field) (a : TfVal) (ty : TfTy) : Prop :=
  ∃ (Qn : Prop) (Qs : GoVal → Prop),
    (f.info.isPlaceholder = false → ∀ attrs : Option (List (String × TfVal)),
      (attrs.getD []).lookup f.info.nameSnake = some a → BlkA ov f attrs Act Qn Qs) ∧
    EPartA ov skN skE Act f a ty Qn Qs

/-- **the echo of the fields of one message** whose oneof groups are `names`: decode the attribute map `A` into a fresh
struct (as `Copy<T>FromTerraform` and the blocks of nested messages / elements do), encode the result into `A`, decode
again into a fresh struct -/
def BundleA (ov : List (String × String)) (skN skE : List String) (names : List String) (fs : List Field)
    (A : List (String × TfVal)) (atys : List (String × TfTy)) : Prop :=
  ∀ (attrs : Option (List (String × TfVal))), attrs.getD [] = A →
    ∀ (ds : List Diag) (hs : List HookCall),
    ∃ o1 hs1, copyFromFields ov fs attrs { obj := resetOneOfs names (.struct []), diags := ds, hooks := hs } =
        .ok { obj := o1, diags := ds, hooks := hs1 } ∧
      IsStruct o1 ∧
      ∀ (tds : List Diag) (ths : List HookCall),
        ∃ A' hs2, copyToFields fs o1 (some atys) { attrs := A, diags := tds, hooks := ths } =
            .ok { attrs := A', diags := tds, hooks := ths ++ hs2 } ∧
          A'.map (·.1) = A.map (·.1) ∧
          noUnknownAs skN A' = true ∧ echoKeepsAs skE A A' = true ∧
          ∀ (attrs2 : Option (List (String × TfVal))), attrs2.getD [] = A' →
            ∀ (ds3 : List Diag) (hs3 : List HookCall),
            ∃ o2 hs3', copyFromFields ov fs attrs2 { obj := resetOneOfs names (.struct []), diags := ds3, hooks := hs3 } =
                .ok { obj := o2, diags := ds3, hooks := hs3' } ∧
              IsStruct o2 ∧ nfEqFields fs o1 o2 = true

theorem bundleA_of (X : String → TfVal → Prop) (ov : List (String × String)) (skN skE : List String)
    (hX : ExtraOK X skN skE) (names : List String) (fs : List Field) (A : List (String × TfVal))
    (atys : List (String × TfTy))
    (hecho : ∀ f ∈ fs, ∃ a ty, A.lookup f.info.nameSnake = some a ∧ atys.lookup f.info.nameSnake = some ty ∧
      FieldEchoA ov skN skE (notNullAt A f = true) f a ty)
    (hsep : SepAll fs) (hexcl : ExclAll (fun f => notNullAt A f = true) fs)
    (hphk : ∀ f ∈ fs, f.info.isPlaceholder = true → f.info.kind = .primitive ∧ f.info.oneOfName = "")
    (hnd : (fs.map (·.info.nameSnake)).Nodup) (hkeys : KeysOK X fs A)
    (hnames : ∀ g ∈ fs, g.info.parentIsOptionalEmbed = true → g.info.parentIsOptionalEmbedFieldName ∉ names) :
    BundleA ov skN skE names fs A atys := by
  intro attrs hattrs ds hs
  subst hattrs
  have hso0 : IsStruct (resetOneOfs names (.struct [])) := isStruct_resetOneOfs _ _ trivial
  have hpw0 : ∀ f ∈ fs, PShape f.info (resetOneOfs names (.struct [])) := fun g hg => pshape_fresh g.info names (hnames g hg)
  have hpre0 : ∀ f ∈ fs, f.info.oneOfName ≠ "" → f.info.parentIsOptionalEmbed = false →
      activePayload f.info (resetOneOfs names (.struct [])) = none :=
    fun f _ _ _ => activePayload_init f.info _ (initNone_reset _ _ (.struct []) trivial (initNone_empty _))
  -- first decode
  obtain ⟨o1, hs1, hrun1, hso1, hall1, _, _, hps1, _⟩ := seqFromA ov attrs (fun f => notNullAt (attrs.getD []) f = true)
    (fun f Qn Qs => ∃ a ty, (attrs.getD []).lookup f.info.nameSnake = some a ∧ atys.lookup f.info.nameSnake = some ty ∧
      EPartA ov skN skE (notNullAt (attrs.getD []) f = true) f a ty Qn Qs)
    fs { obj := resetOneOfs names (.struct []), diags := ds, hooks := hs } hso0 hpw0 hsep hexcl hpre0
    (fun f hf hph => by
      obtain ⟨a, ty, hla, hlt, Qn, Qs, hD, hE⟩ := hecho f hf
      exact ⟨Qn, Qs, hD hph attrs hla, a, ty, hla, hlt, hE⟩)
  refine ⟨o1, hs1, hrun1, hso1, ?_⟩
  have hpw1 : ∀ f ∈ fs, PShape f.info o1 := by
    intro f hf he
    exact hps1 _ (fun g hg heg => by
      have := sepAll_plain_embed fs hsep g hg f hf heg he
      rw [wkey3_embed _ he] at this
      exact this) (hpw0 f hf he)
  intro tds ths
  -- echo
  obtain ⟨st', hrun2, hd2, ⟨hs2, hh2⟩, hk', hframe', hall2⟩ := seqTo o1 atys
    (fun f a v => EchoW skN skE f.info.nameSnake a v ∧
      (f.info.isPlaceholder = false → ∀ attrs2 : Option (List (String × TfVal)),
        (attrs2.getD []).lookup f.info.nameSnake = some v →
        ∃ (Qn2 : Prop) (Qs2 : GoVal → Prop), BlkA ov f attrs2 (notNullAt (attrs.getD []) f = true) Qn2 Qs2 ∧
          ∀ o2, FinA f.info (notNullAt (attrs.getD []) f = true) Qn2 Qs2 o2 → nfEqField f o1 o2 = true))
    fs { attrs := attrs.getD [], diags := tds, hooks := ths } hnd
    (fun f hf => by
      by_cases hph : f.info.isPlaceholder = true
      · obtain ⟨a, ty, hla, hlt, Qn, Qs, hD, hE⟩ := hecho f hf
        exact ⟨a, hla, hE o1 atys hso1 (hpw1 f hf) (fun h => by rw [hph] at h; cases h) hlt⟩
      · have hph' : f.info.isPlaceholder = false := by simpa using hph
        obtain ⟨Qn, Qs, hfin, a, ty, hla, hlt, hE⟩ := hall1 f hf hph'
        exact ⟨a, hla, hE o1 atys hso1 (hpw1 f hf) (fun _ => hfin) hlt⟩)
  obtain ⟨hkn, hkeep⟩ := echo_attrsE X skN skE hX fs (attrs.getD []) st'.attrs hkeys hk' hframe'
    (fun f hf => by
      obtain ⟨a, v, hla, hlv, hev, _⟩ := hall2 f hf
      exact ⟨a, v, hla, hlv, hev⟩)
  refine ⟨st'.attrs, hs2, ?_, hk', hkn, hkeep, ?_⟩
  · rw [hrun2]
    cases st'
    simp_all
  -- second decode
  intro attrs2 hattrs2 ds3 hs3
  obtain ⟨o2, hs3', hrun3, hso2, hall3, _, _, _, _⟩ := seqFromA ov attrs2 (fun f => notNullAt (attrs.getD []) f = true)
    (fun f Qn Qs => ∀ o2, FinA f.info (notNullAt (attrs.getD []) f = true) Qn Qs o2 → nfEqField f o1 o2 = true)
    fs { obj := resetOneOfs names (.struct []), diags := ds3, hooks := hs3 } hso0 hpw0 hsep hexcl hpre0
    (fun f hf hph => by
      obtain ⟨a, v, _, hlv, _, hsd⟩ := hall2 f hf
      exact hsd hph attrs2 (by rw [hattrs2]; exact hlv))
  refine ⟨o2, hs3', hrun3, hso2, ?_⟩
  apply nfEqFields_of_forall
  intro f hf
  by_cases hph : f.info.isPlaceholder = true
  · obtain ⟨hk, ho⟩ := hphk f hf hph
    rw [nfEqField_eq_valNfEq f o1 o2 ho]
    obtain ⟨info, mv, msg, sub⟩ := f
    simp only at hph hk
    unfold valNfEq
    simp [hk, hph]
  · have hph' : f.info.isPlaceholder = false := by simpa using hph
    obtain ⟨Qn, Qs, hfin, hpost⟩ := hall3 f hf hph'
    exact hpost o2 hfin

-- ------------------------------------------------------------------------------------------------------
-- C. `FieldEchoA` by template

/-- a field outside oneof groups that echoes in the sense of PGT/Proofs/EchoEmbed.lean -/
theorem fieldEchoA_of_fieldEcho (ov : List (String × String)) (skN skE : List String) (Act : Prop) (f : Field) (a : TfVal)
    (ty : TfTy) (ho : f.info.oneOfName = "") (h : FieldEcho ov skN skE f a ty) : FieldEchoA ov skN skE Act f a ty := by
  obtain ⟨Qn, Qs, hD, hE⟩ := h
  refine ⟨Qn, Qs, fun hph attrs hl => Or.inl ⟨ho, hD hph attrs hl⟩, ?_⟩
  intro o atys hso hps hfin hty st hcur
  obtain ⟨v, hs, hrun, hev, hsd⟩ := hE o atys hso hps (fun hph => (hfin hph).1 ho) hty st hcur
  refine ⟨v, hs, hrun, hev, ?_⟩
  intro hph attrs2 hl2
  refine ⟨_, _, Or.inl ⟨ho, hsd hph attrs2 hl2⟩, ?_⟩
  intro o2 hfin2
  rw [nfEqField_eq_valNfEq f o o2 ho]
  rcases getVal_of_fin f.info _ _ o2 ho (hfin2.1 ho) with ⟨_, y, hy, hq⟩ | ⟨_, ⟨hy, hq⟩ | ⟨y, hy, hq⟩⟩
  · rw [hy]; exact hq
  · rw [hy]; exact hq
  · rw [hy]; exact hq

theorem planOK3_facts (X : String → TfVal → Prop) (f : Field) (a : TfVal) (ty : TfTy) (hp : PlanOK3 X f a ty) :
    f.info.parentIsOptionalEmbed = false ∧ (PlanOK X f a ty ∨ f.info.isPlaceholder = false) := by
  obtain ⟨info, mv, msg, sub⟩ := f
  unfold PlanOK3 at hp
  rcases hp with hp | ⟨he, hph, _⟩ | ⟨_, he, hph, _⟩ | ⟨_, he, hph, _⟩ | ⟨_, he, hph, _⟩
  · exact ⟨(planOK_facts X _ a ty hp).2.1, Or.inl hp⟩
  all_goals exact ⟨he, Or.inr hph⟩

/-- **a field of the judgement with oneof groups (`PlanOK3`) that is not itself a branch** – the plain tree, nested messages
with groups below (known, or held by value and null / unknown: the zero struct), lists / maps of messages with groups in
the element message: `decField3` and `echoField3` of PGT/Proofs/EchoOneofDeep.lean -/
theorem fieldEcho_of_planOK3 (X : String → TfVal → Prop) (ov : List (String × String)) (skN skE : List String)
    (hX : ExtraOK X skN skE) (f : Field) (a : TfVal) (ty : TfTy) (hp : PlanOK3 X f a ty) (ho : f.info.oneOfName = "") :
    FieldEcho ov skN skE f a ty := by
  obtain ⟨he, hcase⟩ := planOK3_facts X f a ty hp
  rcases hcase with hpl | hph
  · exact fieldEcho_plain X ov skN skE hX f a ty hpl
  have wf : wkey f.info = f.info.name := wkey_plain _ ho
  refine ⟨True, fun y => ∀ o, o.field? f.info.name = some y → Ech3 X f a ty o, ?_, ?_⟩
  · intro _ attrs hl st hs _
    left
    refine ⟨he, ?_⟩
    rcases decField3 X ov f attrs st a ty hl hp hph hs with ⟨x, hrun, _, hEf⟩ | ⟨hne, _⟩
    · rw [wf] at hrun hEf
      exact ⟨x, st.hooks, hrun, hEf⟩
    · exact absurd ho hne
  · intro o atys hso _ hfin hty st hcur
    obtain ⟨y, hy, hq⟩ := (hfin hph).1 he
    have hE := hq o hy
    obtain ⟨v, hs, hrun, hkn, hkeep, _, h2⟩ := echoField3 X ov skN skE hX f o atys st a ty hty hcur hE
    refine ⟨v, hs, hrun, ⟨hkn, Or.inr hkeep⟩, ?_⟩
    intro _ attrs2 hl2 st2 hs2 _
    left
    refine ⟨he, ?_⟩
    rcases h2 with ⟨_, hsd⟩ | ⟨hne, _⟩
    · rcases hsd with hsd | hsd
      · rw [hph] at hsd; cases hsd
      obtain ⟨y2, hrun2, hv⟩ := hsd attrs2 st2 hl2
      exact ⟨y2, st2.hooks, hrun2, hv⟩
    · exact absurd ho hne

/-- **a oneof branch** (scalar held by value or by pointer, message held by pointer with groups below; `PlanOK3`) -/
theorem fieldEchoA_branch (X : String → TfVal → Prop) (ov : List (String × String)) (skN skE : List String)
    (hX : ExtraOK X skN skE) (Act : Prop) (f : Field) (a : TfVal) (ty : TfTy) (hp : PlanOK3 X f a ty)
    (ho : f.info.oneOfName ≠ "") (hact : isNull a = false → Act) : FieldEchoA ov skN skE Act f a ty := by
  obtain ⟨he, hcase⟩ := planOK3_facts X f a ty hp
  have hph : f.info.isPlaceholder = false := by
    rcases hcase with hpl | h
    · exact absurd (planOK_facts X f a ty hpl).1 ho
    · exact h
  have wf : wkey f.info = f.info.oneOfName := wkey_branch _ ho
  refine ⟨∀ o, activePayload f.info o = none → Ech3 X f a ty o,
    fun y => ∀ o, o.field? f.info.oneOfName = some (wrapOf f.info y) → Ech3 X f a ty o, ?_, ?_⟩
  · intro _ attrs hl
    refine Or.inr ⟨ho, he, ?_⟩
    intro st hs
    rcases decField3 X ov f attrs st a ty hl hp hph hs with ⟨x, hrun, hbr, hEf⟩ | ⟨_, hrun, hEf⟩
    · obtain ⟨hnn, y, rfl⟩ := hbr ho
      rw [wf] at hrun hEf
      exact Or.inr ⟨hact hnn, y, st.hooks, hrun, hEf⟩
    · exact Or.inl ⟨hrun, hEf⟩
  · intro o atys hso _ hfin hty st hcur
    have hE : Ech3 X f a ty o := by
      rcases (hfin hph).2 ho with ⟨hq, hap⟩ | ⟨_, y, hy, hq⟩
      · exact hq o hap
      · exact hq o hy
    obtain ⟨_, _, hbr⟩ := ech3_facts X f a ty o hE
    obtain ⟨_, hsh, x, hst, _⟩ := hbr ho
    obtain ⟨v, hs, hrun, hkn, hkeep, _, h2⟩ := echoField3 X ov skN skE hX f o atys st a ty hty hcur hE
    refine ⟨v, hs, hrun, ⟨hkn, Or.inr hkeep⟩, ?_⟩
    intro _ attrs2 hl2
    rcases h2 with ⟨h0, _⟩ | ⟨_, hsb⟩
    · exact absurd h0 ho
    refine ⟨Idle3 f o, fun y => PayNf3 f (getVal f.info o) y, Or.inr ⟨ho, he, ?_⟩, ?_⟩
    · intro st2 _
      rcases hsb attrs2 st2 hl2 with ⟨hrun2, hidle⟩ | ⟨hnn, y, hrun2, hpay⟩
      · exact Or.inl ⟨hrun2, hidle⟩
      · exact Or.inr ⟨hact hnn, y, st2.hooks, hrun2, hpay⟩
    · intro o2 hfin2
      rcases hfin2.2 ho with ⟨hidle, hap⟩ | ⟨_, y, hy, hpay⟩
      · exact nfEq_branch_idle3 f o o2 ho he hsh x hst hidle hap
      · exact nfEq_branch_set3 f o o2 ho he hsh x hst y hy hpay

/-- **a nested message** (outside oneof groups and embedded messages, with fields; a null / unknown value only when the
field is a pointer) **whose fields echo** (`BundleA`: oneof groups, children of nullable embedded messages and custom
kinds below) – `fieldEcho_object` of PGT/Proofs/EchoEmbed.lean for `BundleA` -/
theorem fieldEcho_objectA (ov : List (String × String)) (skN skE : List String) (info : FieldInfo) (mv : Option FieldInfo)
    (msg : Option MsgInfo) (sub : List Field) (u n : Bool) (as : Option (List (String × TfVal))) (tys : List (String × TfTy))
    (hk : info.kind = .object) (ho : info.oneOfName = "") (he : info.parentIsOptionalEmbed = false)
    (hph : info.isPlaceholder = false) (hem : isEmptyMsg msg = false) (hvt : vkindOf info.tf.valueType = .obj) (hsub : sub ≠ [])
    (hkn : known u n = true → BundleA ov skN skE ((msg.map (·.oneOfNames)).getD []) sub (as.getD []) tys)
    (hunk : known u n = false → as.getD [] = [] ∧ info.isNullable = true) :
    FieldEcho ov skN skE ⟨info, mv, msg, sub⟩ (.obj u n as (some tys)) (.obj (some tys)) := by
  have hse : sub.isEmpty = false := by cases sub <;> simp_all
  refine ⟨True, fun y =>
    (known u n = true → ∃ o' ds hs hs', IsStruct o' ∧ y = (if info.isNullable then GoVal.ptr (some o') else o') ∧
      copyFromFields ov sub as { obj := resetOneOfs ((msg.map (·.oneOfNames)).getD []) (.struct []), diags := ds, hooks := hs } =
        .ok { obj := o', diags := ds, hooks := hs' }) ∧
    (known u n = false → y = .ptr none), ?_, ?_⟩
  · intro _ attrs hl st hs _
    left
    refine ⟨he, ?_⟩
    simp only [copyFromField]
    by_cases hknown : known u n = true
    · have hB := hkn hknown
      obtain ⟨o1, hs1, hrun1, hso1, _⟩ := hB as rfl st.diags st.hooks
      refine ⟨_, hs1, fromFieldWith_obj_runE _ ov info mv msg attrs st u n as (some tys) o1 hs1 hk ho he hvt hem hknown hl hrun1, ?_, ?_⟩
      · intro _
        exact ⟨o1, st.diags, st.hooks, hs1, hso1, rfl, hrun1⟩
      · intro h; rw [hknown] at h; cases h
    · have hknown' : known u n = false := by simpa using hknown
      obtain ⟨_, hn⟩ := hunk hknown'
      have hrun := fromFieldWith_unknown_run
        (fun as s => copyFromFields ov sub as { s with obj := resetOneOfs ((msg.map (·.oneOfNames)).getD []) s.obj })
        ov info mv msg attrs st _ ho he hl (Or.inl ⟨hk, u, n, as, some tys, rfl, hknown', hvt⟩)
      have hzw : zeroWrite info = GoVal.ptr none := by simp [zeroWrite, hk, hn]
      rw [hzw] at hrun
      refine ⟨_, st.hooks, hrun, ?_, fun _ => rfl⟩
      intro h; rw [hknown'] at h; cases h
  · intro o atys hso _ hfin hty st hcur
    simp only at hty hcur hfin
    obtain ⟨y, hy, hq1, hq2⟩ := (hfin hph).1 he
    have hg : getVal info o = y := by rw [getVal_plain info o ho he, hy]; rfl
    by_cases hknown : known u n = true
    · have hB := hkn hknown
      obtain ⟨o', ds, hs, hs', hso', hyo, hrun0⟩ := hq1 hknown
      have hun : u = false ∧ n = false := by cases u <;> cases n <;> simp [known] at hknown ⊢
      obtain ⟨rfl, rfl⟩ := hun
      obtain ⟨o1, hs1, hrun1, hso1, hrest⟩ := hB as rfl ds hs
      rw [hrun0] at hrun1
      injection hrun1 with hrun1
      injection hrun1 with e1 _ _
      subst e1
      obtain ⟨A', hs2, hrunTo, _, hknA, hkeepA, hsecond⟩ := hrest st.diags st.hooks
      cases o' with
      | struct fs =>
        have hxx : (info.isNullable = true ∧ getVal info o = .ptr (some (.struct fs))) ∨
            (info.isNullable = false ∧ getVal info o = .struct fs) := by
          rw [hg, hyo]
          cases hn : info.isNullable <;> simp
        have hob := objBody_echo (fun o a s => copyToFields sub o a s) info msg (some tys) false false as tys (getVal info o) fs
          st.diags st.hooks A' (st.hooks ++ hs2) (fun h => by rw [hem] at h; cases h) hxx hrunTo
        refine ⟨.obj false false (some A') (some tys), hs2, ?_, ⟨?_, Or.inr ?_⟩, ?_⟩
        · apply copyToField_obj_run info mv msg sub o atys st tys _ _ _ hk ho he hty
          rw [hcur, hse]
          exact hob
        · simp only [noUnknownDeep, Bool.not_false, Bool.true_and]
          exact hknA
        · cases as with
          | none => simp [echoKeeps]
          | some l =>
            simp only [echoKeeps, Bool.false_eq_true, if_false, beq_self_eq_true, Bool.true_and, Bool.false_or, Option.getD_some]
            exact hkeepA
        · intro _ attrs2 hl2 st2 _ _
          left
          refine ⟨he, ?_⟩
          simp only [copyFromField]
          obtain ⟨o2, hs3', hrun3, hso2, hnf⟩ := hsecond (some A') rfl st2.diags st2.hooks
          refine ⟨_, hs3', fromFieldWith_obj_runE _ ov info mv msg attrs2 st2 false false (some A') (some tys) o2 hs3' hk ho he hvt hem
            rfl hl2 hrun3, ?_⟩
          simp only
          rw [hg, hyo]
          unfold valNfEq
          simp only [hk]
          unfold msgNfEq
          cases hn : info.isNullable
          · simp only [Bool.false_eq_true, if_false, structOf_of_isStruct o2 hso2]
            exact hnf
          · simp [isNilPtr, structOf, hnf]
      | sc _ => cases hso'
      | ptr _ => cases hso'
      | slice _ => cases hso'
      | map _ => cases hso'
      | iface _ => cases hso'
    · have hknown' : known u n = false := by simpa using hknown
      obtain ⟨has, hn⟩ := hunk hknown'
      have hyn := hq2 hknown'
      rw [hyn] at hg
      have hnu : u = false → n = true := fun hu => known_false_of u n hknown' hu
      refine ⟨.obj false true (some (as.getD [])) (some tys), [], ?_, ⟨?_, Or.inr ?_⟩, ?_⟩
      · have hob := objBody_echo_nil (fun o a s => copyToFields sub o a s) info msg (some tys) u n as tys st.diags st.hooks hn
        rw [copyToField_obj_run info mv msg sub o atys st tys _ _ _ hk ho he hty (by rw [hcur, hse, hg]; exact hob)]
        simp
      · simp [noUnknownDeep, has, noUnknownAs]
      · cases u with
        | true => cases as <;> simp [echoKeeps]
        | false =>
          have := hnu rfl
          subst this
          cases as <;> simp [echoKeeps]
      · intro _ attrs2 hl2 st2 _ _
        left
        refine ⟨he, .ptr none, st2.hooks, ?_, ?_⟩
        · simp only [copyFromField]
          have := fromFieldWith_unknown_run
            (fun as s => copyFromFields ov sub as { s with obj := resetOneOfs ((msg.map (·.oneOfNames)).getD []) s.obj })
            ov info mv msg attrs2 st2 _ ho he hl2 (Or.inl ⟨hk, false, true, some (as.getD []), some tys, rfl, rfl, hvt⟩)
          have hzw : zeroWrite info = GoVal.ptr none := by simp [zeroWrite, hk, hn]
          rw [hzw] at this
          exact this
        · simp only
          rw [hg]
          unfold valNfEq
          simp [hk, msgNfEq, hn, isNilPtr]

theorem fromFieldWith_objBranch_knownE (rec : FromRec) (ov : List (String × String)) (info : FieldInfo) (mv : Option FieldInfo)
    (msg : Option MsgInfo) (attrs : Option (List (String × TfVal))) (st : FromSt) (u n : Bool)
    (as : Option (List (String × TfVal))) (tys : Option (List (String × TfTy))) (o : GoVal) (hs' : List HookCall)
    (hk : info.kind = .object) (ho : info.oneOfName ≠ "") (he : info.parentIsOptionalEmbed = false)
    (hvt : vkindOf info.tf.valueType = .obj) (hem : isEmptyMsg msg = false) (hkn : known u n = true)
    (hl : (attrs.getD []).lookup info.nameSnake = some (.obj u n as tys))
    (hrec : rec as { st with obj := .struct [] } = .ok { obj := o, diags := st.diags, hooks := hs' }) :
    copyFromFieldWith rec ov info mv msg attrs st =
      .ok { obj := st.obj.setField info.oneOfName (wrapOf info (.ptr (some o))), diags := st.diags, hooks := hs' } := by
  have hoe : (info.oneOfName == "") = false := by simpa using ho
  unfold copyFromFieldWith
  simp [hk, hl, TfVal.vkind, hvt, embedGuard_plain info _ _ he, hoe, hkn, hem, hrec, wrapOf]

/-- **a message branch of a oneof group** (held by pointer, with fields) **whose fields echo** (`BundleA`: oneof groups,
children of nullable embedded messages and custom kinds below) -/
theorem fieldEchoA_msgBranch (ov : List (String × String)) (skN skE : List String) (Act : Prop) (info : FieldInfo)
    (mv : Option FieldInfo) (msg : Option MsgInfo) (sub : List Field) (u n : Bool) (as : Option (List (String × TfVal)))
    (tys : List (String × TfTy))
    (hk : info.kind = .object) (ho : info.oneOfName ≠ "") (he : info.parentIsOptionalEmbed = false)
    (hn : info.isNullable = true) (hph : info.isPlaceholder = false) (hem : isEmptyMsg msg = false)
    (hvt : vkindOf info.tf.valueType = .obj) (hsub : sub ≠ [])
    (hact : known u n = true → Act)
    (hkn : known u n = true → BundleA ov skN skE ((msg.map (·.oneOfNames)).getD []) sub (as.getD []) tys)
    (hunk : known u n = false → as.getD [] = []) :
    FieldEchoA ov skN skE Act ⟨info, mv, msg, sub⟩ (.obj u n as (some tys)) (.obj (some tys)) := by
  have hse : sub.isEmpty = false := by cases sub <;> simp_all
  have hsh : BranchShape3 ⟨info, mv, msg, sub⟩ := Or.inr ⟨hk, hn⟩
  refine ⟨known u n = false, fun y => known u n = true ∧ ∃ o' ds hs hs', IsStruct o' ∧ y = GoVal.ptr (some o') ∧
      copyFromFields ov sub as { obj := resetOneOfs ((msg.map (·.oneOfNames)).getD []) (.struct []), diags := ds, hooks := hs } =
        .ok { obj := o', diags := ds, hooks := hs' }, ?_, ?_⟩
  · intro _ attrs hl
    refine Or.inr ⟨ho, he, ?_⟩
    intro st _
    simp only [copyFromField]
    by_cases hknown : known u n = true
    · obtain ⟨o1, hs1, hrun1, hso1, _⟩ := hkn hknown as rfl st.diags st.hooks
      exact Or.inr ⟨hact hknown, .ptr (some o1), hs1,
        fromFieldWith_objBranch_knownE _ ov info mv msg attrs st u n as (some tys) o1 hs1 hk ho he hvt hem hknown hl hrun1,
        hknown, o1, st.diags, st.hooks, hs1, hso1, rfl, hrun1⟩
    · have hknown' : known u n = false := by simpa using hknown
      exact Or.inl ⟨fromFieldWith_objBranch_unknown _ ov info mv msg attrs st u n as (some tys) hk ho he hvt hknown' hl, hknown'⟩
  · intro o atys hso _ hfin hty st hcur
    simp only at hty hcur hfin
    rcases (hfin hph).2 ho with ⟨hknown', hap⟩ | ⟨_, y, hy, hknown, o', ds, hs, hs', hso', rfl, hrun0⟩
    · -- the branch is not the active one
      obtain has := hunk hknown'
      have hg : getVal info o = .ptr none := by
        rw [ToOneof.inactive_reads_zero info o ho he hap]
        simp [zeroGoOf, hk, hn]
      have hnu : u = false → n = true := fun hu => known_false_of u n hknown' hu
      refine ⟨.obj false true (some (as.getD [])) (some tys), [], ?_, ⟨?_, Or.inr ?_⟩, ?_⟩
      · have hob := objBody_echo_nil (fun o a s => copyToFields sub o a s) info msg (some tys) u n as tys st.diags st.hooks hn
        rw [copyToField_obj_run2 info mv msg sub o atys st tys _ _ _ hk he hty (by rw [hcur, hse, hg]; exact hob)]
        simp
      · simp [noUnknownDeep, has, noUnknownAs]
      · cases u with
        | true => cases as <;> simp [echoKeeps]
        | false =>
          have := hnu rfl
          subst this
          cases as <;> simp [echoKeeps]
      · intro _ attrs2 hl2
        refine ⟨Idle3 ⟨info, mv, msg, sub⟩ o, fun y => PayNf3 ⟨info, mv, msg, sub⟩ (getVal info o) y, Or.inr ⟨ho, he, ?_⟩, ?_⟩
        · intro st2 _
          left
          refine ⟨?_, ?_⟩
          · simp only [copyFromField]
            exact fromFieldWith_objBranch_unknown _ ov info mv msg attrs2 st2 false true (some (as.getD [])) (some tys) hk ho he hvt rfl hl2
          · unfold Idle3
            simp only [hk]
            exact hg
        · intro o2 hfin2
          rcases hfin2.2 ho with ⟨hidle, hap2⟩ | ⟨_, y2, hy2, hpay⟩
          · exact nfEq_branch_idle3 _ o o2 ho he hsh none hap hidle hap2
          · exact nfEq_branch_set3 _ o o2 ho he hsh none hap y2 hy2 hpay
    · -- the branch is the active one
      have hun : u = false ∧ n = false := by cases u <;> cases n <;> simp [known] at hknown ⊢
      obtain ⟨rfl, rfl⟩ := hun
      have hst : BrState info o (some (.ptr (some o'))) := hy
      have hg : getVal info o = .ptr (some o') := (brState_some info o _ ho he hst).1
      obtain ⟨o1, hs1, hrun1, hso1, hrest⟩ := hkn hknown as rfl ds hs
      rw [hrun0] at hrun1
      injection hrun1 with hrun1
      injection hrun1 with e1 _ _
      subst e1
      obtain ⟨A', hs2, hrunTo, _, hknA, hkeepA, hsecond⟩ := hrest st.diags st.hooks
      cases o' with
      | struct fs =>
        have hob := objBody_echo (fun o a s => copyToFields sub o a s) info msg (some tys) false false as tys (getVal info o) fs
          st.diags st.hooks A' (st.hooks ++ hs2) (fun h => by rw [hem] at h; cases h) (Or.inl ⟨hn, hg⟩) hrunTo
        refine ⟨.obj false false (some A') (some tys), hs2, ?_, ⟨?_, Or.inr ?_⟩, ?_⟩
        · apply copyToField_obj_run2 info mv msg sub o atys st tys _ _ _ hk he hty
          rw [hcur, hse]
          exact hob
        · simp only [noUnknownDeep, Bool.not_false, Bool.true_and]
          exact hknA
        · cases as with
          | none => simp [echoKeeps]
          | some l =>
            simp only [echoKeeps, Bool.false_eq_true, if_false, beq_self_eq_true, Bool.true_and, Bool.false_or, Option.getD_some]
            exact hkeepA
        · intro _ attrs2 hl2
          refine ⟨False, fun y => PayNf3 ⟨info, mv, msg, sub⟩ (getVal info o) y, Or.inr ⟨ho, he, ?_⟩, ?_⟩
          · intro st2 _
            right
            simp only [copyFromField]
            obtain ⟨o2, hs3', hrun3, hso2, hnf⟩ := hsecond (some A') rfl st2.diags st2.hooks
            refine ⟨hact hknown, .ptr (some o2), hs3',
              fromFieldWith_objBranch_knownE _ ov info mv msg attrs2 st2 false false (some A') (some tys) o2 hs3' hk ho he hvt hem
                rfl hl2 hrun3, ?_⟩
            unfold PayNf3
            simp only [hk]
            exact ⟨fs, o2, hg, rfl, hnf⟩
          · intro o2 hfin2
            rcases hfin2.2 ho with ⟨hf, _⟩ | ⟨_, y2, hy2, hpay⟩
            · exact hf.elim
            · exact nfEq_branch_set3 _ o o2 ho he hsh _ hst y2 hy2 hpay
      | sc _ => cases hso'
      | ptr _ => cases hso'
      | slice _ => cases hso'
      | map _ => cases hso'
      | iface _ => cases hso'

-- ------------------------------------------------------------------------------------------------------
-- D. the judgement

mutual
/-- `a` is a planned value of field `f` (attribute type `ty`). One of:
* **(3)** a field of the judgement with oneof groups, `PlanOK3` of PGT/Proofs/EchoOneofDeep.lean: the plain tree (P), nested
  messages with groups below (M1 known, M2 held by value and null / unknown, M3 message branches), scalar branches (S),
  lists / maps of messages with groups in the element message (L / Mp) – closed under these clauses below;
* **(a)** a child of a nullable embedded message (any kind, plain below): `PlanOK` of the same field without the flag;
* **(b)** a custom-type field (child of a nullable embedded message or not);
* **(c)** a nested message (outside oneof groups, with fields; itself a child of a nullable embedded message or not) whose
  fields satisfy `PlanOKsA` – ALL clauses again, in the same message: oneof groups next to children of nullable embedded
  messages and custom kinds, recursively; the parent pointer of a nullable embedded message is not the holder of a group;
* **(d)** a message branch of a oneof group (held by pointer, with fields) whose fields satisfy `PlanOKsA` – as (c). -/
def PlanOKA (X : String → TfVal → Prop) (skE : List String) : Field → TfVal → TfTy → Prop
  | ⟨info, mv, msg, sub⟩, a, ty =>
    PlanOK3 X ⟨info, mv, msg, sub⟩ a ty ∨
    (info.parentIsOptionalEmbed = true ∧ info.isPlaceholder = false ∧ PlanOK X ⟨unembed info, mv, msg, sub⟩ a ty) ∨
    (info.kind = .custom ∧ info.oneOfName = "" ∧ info.isPlaceholder = false ∧
      (skE.contains info.nameSnake = true ∨ CustomPlan info.isRepeated a)) ∨
    (info.kind = .object ∧ info.oneOfName = "" ∧ info.isPlaceholder = false ∧
      isEmptyMsg msg = false ∧
      ∃ u n as tys, a = .obj u n as (some tys) ∧ ty = .obj (some tys) ∧ vkindOf info.tf.valueType = .obj ∧ sub ≠ [] ∧
        (known u n = true → PlanOKsA X skE sub (as.getD []) tys ∧ KeysOK X sub (as.getD []) ∧
          ∀ g ∈ sub, g.info.parentIsOptionalEmbed = true →
            g.info.parentIsOptionalEmbedFieldName ∉ (msg.map (·.oneOfNames)).getD []) ∧
        (known u n = false → as.getD [] = [] ∧ info.isNullable = true)) ∨
    (info.kind = .object ∧ info.oneOfName ≠ "" ∧ info.parentIsOptionalEmbed = false ∧ info.isNullable = true ∧
      info.isPlaceholder = false ∧ isEmptyMsg msg = false ∧
      ∃ u n as tys, a = .obj u n as (some tys) ∧ ty = .obj (some tys) ∧ vkindOf info.tf.valueType = .obj ∧ sub ≠ [] ∧
        (known u n = true → PlanOKsA X skE sub (as.getD []) tys ∧ KeysOK X sub (as.getD []) ∧
          ∀ g ∈ sub, g.info.parentIsOptionalEmbed = true →
            g.info.parentIsOptionalEmbedFieldName ∉ (msg.map (·.oneOfNames)).getD []) ∧
        (known u n = false → as.getD [] = []))

/-- every field of the message has a planned value in `attrs` and a type in `atys`; attribute names are pairwise distinct;
the field blocks do not interfere (`SepOK3`: different Go fields, or branches of one group with different wrapper types, or
children of the same nullable embedded message with different names); of two branches of one group at most one attribute
is not null -/
def PlanOKsA (X : String → TfVal → Prop) (skE : List String) : List Field → List (String × TfVal) → List (String × TfTy) → Prop
  | [], _, _ => True
  | f :: rest, attrs, atys =>
    (∃ a ty, attrs.lookup f.info.nameSnake = some a ∧ atys.lookup f.info.nameSnake = some ty ∧ PlanOKA X skE f a ty) ∧
    f.info.nameSnake ∉ rest.map (·.info.nameSnake) ∧ (∀ g ∈ rest, SepOK3 f.info g.info) ∧
    (∀ g ∈ rest, f.info.oneOfName ≠ "" → g.info.oneOfName = f.info.oneOfName →
        notNullAt attrs f = false ∨ notNullAt attrs g = false) ∧
    PlanOKsA X skE rest attrs atys
end

theorem planOKA_facts (X : String → TfVal → Prop) (skE : List String) (f : Field) (a : TfVal) (ty : TfTy)
    (hp : PlanOKA X skE f a ty) : f.info.isPlaceholder = true → f.info.kind = .primitive ∧ f.info.oneOfName = "" := by
  obtain ⟨info, mv, msg, sub⟩ := f
  unfold PlanOKA at hp
  intro hpl
  simp only at hpl
  rcases hp with hp | ⟨_, hph, _⟩ | ⟨_, _, hph, _⟩ | ⟨_, _, hph, _⟩ | ⟨_, _, _, _, hph, _⟩
  · rcases (planOK3_facts X _ a ty hp).2 with h | h
    · obtain ⟨h1, _, h3⟩ := planOK_facts X _ a ty h
      exact ⟨h3 hpl, h1⟩
    · simp only at h; rw [hpl] at h; cases h
  all_goals (rw [hpl] at hph; cases hph)

theorem planOKsA_facts (X : String → TfVal → Prop) (skE : List String) : ∀ (fs : List Field) (attrs : List (String × TfVal))
    (atys : List (String × TfTy)), PlanOKsA X skE fs attrs atys →
    SepAll fs ∧ ExclAll (fun f => notNullAt attrs f = true) fs ∧
    (∀ f ∈ fs, f.info.isPlaceholder = true → f.info.kind = .primitive ∧ f.info.oneOfName = "") ∧
    (fs.map (·.info.nameSnake)).Nodup
  | [], _, _, _ => ⟨trivial, trivial, by simp, by simp⟩
  | f :: rest, attrs, atys, h => by
    unfold PlanOKsA at h
    obtain ⟨⟨a, ty, _, _, hp⟩, hn, hsep, hex, hrest⟩ := h
    obtain ⟨h1, h2, h3, h4⟩ := planOKsA_facts X skE rest attrs atys hrest
    refine ⟨⟨hsep, h1⟩, ⟨?_, h2⟩, ?_, by simp only [List.map_cons, List.nodup_cons]; exact ⟨hn, h4⟩⟩
    · intro g hg hne hsame hboth
      rcases hex g hg hne hsame with h | h
      · rw [hboth.1] at h; cases h
      · rw [hboth.2] at h; cases h
    · intro g hg
      simp only [List.mem_cons] at hg
      rcases hg with rfl | hg
      · exact planOKA_facts X skE g a ty hp
      · exact h3 g hg

mutual

/-- **the echo of one field** under the judgement -/
theorem planOKA_fieldEchoA (X : String → TfVal → Prop) (ov : List (String × String)) (skN skE : List String)
    (hX : ExtraOK X skN skE) : ∀ (f : Field) (a : TfVal) (ty : TfTy), PlanOKA X skE f a ty →
    ∀ Act : Prop, (isNull a = false → Act) → FieldEchoA ov skN skE Act f a ty
  | ⟨info, mv, msg, sub⟩, a, ty, hp, Act, hact => by
    unfold PlanOKA at hp
    rcases hp with hp | ⟨he, hph, hp⟩ | ⟨hk, ho, hph, hkeep⟩ | ⟨hk, ho, hph, hem, u, n, as, tys, rfl, rfl, hvt, hsub, hkn, hunk⟩ |
      ⟨hk, ho, he, hn, hph, hem, u, n, as, tys, rfl, rfl, hvt, hsub, hkn, hunk⟩
    · by_cases ho : info.oneOfName = ""
      · exact fieldEchoA_of_fieldEcho ov skN skE Act _ a ty ho (fieldEcho_of_planOK3 X ov skN skE hX _ a ty hp ho)
      · exact fieldEchoA_branch X ov skN skE hX Act _ a ty hp ho hact
    · have ho : info.oneOfName = "" := (planOK_facts X _ a ty hp).1
      refine fieldEchoA_of_fieldEcho ov skN skE Act _ a ty ho ?_
      by_cases hk : info.kind = .primitive
      · exact fieldEcho_prim_embed X ov skN skE info mv msg sub a ty hk he hph hp
      · exact fieldEcho_nonprim_embed X ov skN skE hX info mv msg sub a ty hk he hph hp
    · exact fieldEchoA_of_fieldEcho ov skN skE Act _ a ty ho (fieldEcho_custom ov skN skE info mv msg sub a ty hk ho hph hkeep)
    · refine fieldEchoA_of_fieldEcho ov skN skE Act _ _ _ ho ?_
      have hB : known u n = true → BundleA ov skN skE ((msg.map (·.oneOfNames)).getD []) sub (as.getD []) tys := by
        intro hknown
        obtain ⟨hP, hkeys, hnames⟩ := hkn hknown
        obtain ⟨hsep, hexcl, hphk, hnd⟩ := planOKsA_facts X skE sub (as.getD []) tys hP
        exact bundleA_of X ov skN skE hX _ sub (as.getD []) tys
          (planOKsA_echos X ov skN skE hX sub (as.getD []) tys hP) hsep hexcl hphk hnd hkeys hnames
      by_cases he : info.parentIsOptionalEmbed = true
      · -- the nested message is itself a child of a nullable embedded message
        refine fieldEcho_embed_transfer ov skN skE info mv msg sub _ _ (by simp [hk]) he hph ho ?_
          (fieldEcho_objectA ov skN skE (unembed info) mv msg sub u n as tys hk ho rfl hph hem hvt hsub hB hunk)
        have hk' : (unembed info).kind = .object := hk
        have hvt' : vkindOf (unembed info).tf.valueType = .obj := hvt
        unfold NonPrimShape
        refine ⟨by simp [hk'], ⟨by simp [TfVal.vkind, hvt'], by simp [TfVal.vkind]⟩, by simp [hk', TfVal.vkind],
          by simp [hk'], by simp [hk']⟩
      · exact fieldEcho_objectA ov skN skE info mv msg sub u n as tys hk ho (by simpa using he) hph hem hvt hsub hB hunk
    · have hB : known u n = true → BundleA ov skN skE ((msg.map (·.oneOfNames)).getD []) sub (as.getD []) tys := by
        intro hknown
        obtain ⟨hP, hkeys, hnames⟩ := hkn hknown
        obtain ⟨hsep, hexcl, hphk, hnd⟩ := planOKsA_facts X skE sub (as.getD []) tys hP
        exact bundleA_of X ov skN skE hX _ sub (as.getD []) tys
          (planOKsA_echos X ov skN skE hX sub (as.getD []) tys hP) hsep hexcl hphk hnd hkeys hnames
      exact fieldEchoA_msgBranch ov skN skE Act info mv msg sub u n as tys hk ho he hn hph hem hvt hsub
        (fun hknown => hact (by cases u <;> cases n <;> simp_all [known, isNull])) hB hunk

theorem planOKsA_echos (X : String → TfVal → Prop) (ov : List (String × String)) (skN skE : List String)
    (hX : ExtraOK X skN skE) : ∀ (fs : List Field) (A : List (String × TfVal)) (atys : List (String × TfTy)),
    PlanOKsA X skE fs A atys →
    ∀ f ∈ fs, ∃ a ty, A.lookup f.info.nameSnake = some a ∧ atys.lookup f.info.nameSnake = some ty ∧
      FieldEchoA ov skN skE (notNullAt A f = true) f a ty
  | [], _, _, _ => by simp
  | f :: rest, A, atys, h => by
    unfold PlanOKsA at h
    obtain ⟨⟨a, ty, hla, hlt, hp⟩, _, _, _, hrest⟩ := h
    intro g hg
    simp only [List.mem_cons] at hg
    rcases hg with rfl | hg
    · exact ⟨a, ty, hla, hlt, planOKA_fieldEchoA X ov skN skE hX g a ty hp _ (fun hnn => notNullAt_of A g a hla hnn)⟩
    · exact planOKsA_echos X ov skN skE hX rest A atys hrest g hg

end

/-- **the echo of the fields of one message** under the judgement -/
theorem planOKsA_bundleA (X : String → TfVal → Prop) (ov : List (String × String)) (skN skE : List String)
    (hX : ExtraOK X skN skE) (names : List String) (fs : List Field) (A : List (String × TfVal)) (atys : List (String × TfTy))
    (h : PlanOKsA X skE fs A atys) (hkeys : KeysOK X fs A)
    (hnames : ∀ g ∈ fs, g.info.parentIsOptionalEmbed = true → g.info.parentIsOptionalEmbedFieldName ∉ names) :
    BundleA ov skN skE names fs A atys := by
  obtain ⟨hsep, hexcl, hphk, hnd⟩ := planOKsA_facts X skE fs A atys h
  exact bundleA_of X ov skN skE hX names fs A atys (planOKsA_echos X ov skN skE hX fs A atys h) hsep hexcl hphk hnd hkeys hnames

-- ------------------------------------------------------------------------------------------------------
-- E. C08, the whole object

/-- the judgement for a whole plan object of message `m`: as `PlanObj3` / `PlanObjE`, with `PlanOKsA`; the parent pointer of
a nullable embedded message is not the holder of a oneof group -/
def PlanObjA (X : String → TfVal → Prop) (skE : List String) (m : Msg) (plan : TfVal) : Prop :=
  ∃ u n as atys, plan = .obj u n as (some atys) ∧ (u = false → n = false) ∧
    PlanOKsA X skE m.fields (as.getD []) atys ∧ KeysOK X m.fields (as.getD []) ∧
    ∀ g ∈ m.fields, g.info.parentIsOptionalEmbed = true → g.info.parentIsOptionalEmbedFieldName ∉ m.info.oneOfNames

/-- **C08, apply echo, ONE judgement**: the plain tree, oneof groups at every position (`PlanOK3`), children of nullable
embedded messages of every kind and custom kinds – in the SAME message as oneof groups, at the top level and in nested
messages reached through singular message fields at every depth.  Conclusion exactly as in `C08_echo`. -/
theorem C08_echo_all (X : String → TfVal → Prop) (ov : List (String × String)) (m : Msg) (plan : TfVal) (skN skE : List String)
    (hX : ExtraOK X skN skE) (hp : PlanObjA X skE m plan) :
    ∃ s1 e s2, copyFrom ov m plan (.struct []) = .ok s1 ∧ s1.diags = [] ∧
      copyTo m s1.obj plan = .ok e ∧ e.diags = [] ∧
      copyFrom ov m e.tf (.struct []) = .ok s2 ∧ s2.diags = [] ∧
      noUnknownDeep skN e.tf = true ∧ echoKeeps skE plan e.tf = true ∧ nfEqFields m.fields s1.obj s2.obj = true := by
  obtain ⟨u, n, as, atys, rfl, hun, hP, hkeys, hnames⟩ := hp
  have hB := planOKsA_bundleA X ov skN skE hX m.info.oneOfNames m.fields (as.getD []) atys hP hkeys hnames
  obtain ⟨o1, hs1, hrun1, _, hrest⟩ := hB as rfl [] []
  obtain ⟨A', hs2, hrun2, _, hkn, hkeep, hsecond⟩ := hrest [] []
  obtain ⟨o2, hs3, hrun3, _, hnf⟩ := hsecond (some A') rfl [] []
  refine ⟨{ obj := o1, diags := [], hooks := hs1 },
    { tf := .obj false false (some A') (some atys), diags := [], hooks := [] ++ hs2 },
    { obj := o2, diags := [], hooks := hs3 }, ?_, rfl, ?_, rfl, ?_, rfl, ?_, ?_, hnf⟩
  · simp [copyFrom, hrun1]
  · simp [copyTo, hrun2]
  · simp [copyFrom, hrun3]
  · simp only [noUnknownDeep, Bool.not_false, Bool.true_and]
    exact hkn
  · cases u with
    | true => cases as <;> simp [echoKeeps]
    | false =>
      have := hun rfl
      subst this
      cases as with
      | none => simp [echoKeeps]
      | some l =>
        simp only [echoKeeps, Bool.false_eq_true, if_false, beq_self_eq_true, Bool.true_and, Bool.false_or, Option.getD_some]
        exact hkeep

/-- **C08 in the shape of `PGT.Props.C08.C08_full`** with the skip lists of `Spec.c08Check`: whatever the three calls return,
they return no diagnostic and `c08Check` holds -/
theorem C08_echo_all_check (X : String → TfVal → Prop) (ov : List (String × String)) (m : Msg) (plan : TfVal)
    (s1 : FromResult) (e : ToResult) (s2 : FromResult)
    (hX : ExtraOK X (injectedNames m.fields m.info.injected ++ customNames m.fields) (customNames m.fields))
    (hp : PlanObjA X (customNames m.fields) m plan)
    (h1 : copyFrom ov m plan (.struct []) = .ok s1) (h2 : copyTo m s1.obj plan = .ok e)
    (h3 : copyFrom ov m e.tf (.struct []) = .ok s2) :
    s1.diags = [] ∧ e.diags = [] ∧ s2.diags = [] ∧ c08Check m plan s1.obj e.tf s2.obj = true := by
  obtain ⟨s1', e', s2', h1', hd1, h2', hd2, h3', hd3, hkn, hkeep, hnf⟩ :=
    C08_echo_all X ov m plan (injectedNames m.fields m.info.injected ++ customNames m.fields) (customNames m.fields) hX hp
  rw [h1] at h1'
  injection h1' with h1'
  subst h1'
  rw [h2] at h2'
  injection h2' with h2'
  subst h2'
  rw [h3] at h3'
  injection h3' with h3'
  subst h3'
  refine ⟨hd1, hd2, hd3, ?_⟩
  simp [c08Check, hkn, hkeep, hnf]

-- ------------------------------------------------------------------------------------------------------
-- F. the two earlier judgements are special cases

theorem sepOK3_of_sepOK (f g : FieldInfo) (hef : f.parentIsOptionalEmbed = false) (heg : g.parentIsOptionalEmbed = false)
    (h : SepOK f g) : SepOK3 f g := by
  intro e
  have e' : wkey f = wkey g := by simpa [wkey3, hef, heg] using e
  obtain ⟨h1, h2, h3⟩ := h e'
  exact Or.inl ⟨hef, heg, h1, h2, h3⟩

theorem planOKs3_embed (X : String → TfVal → Prop) : ∀ (fs : List Field) (A : List (String × TfVal)) (atys : List (String × TfTy)),
    PlanOKs3 X fs A atys → ∀ f ∈ fs, f.info.parentIsOptionalEmbed = false
  | [], _, _, _, f, hf => by simp at hf
  | x :: rest, A, atys, h, f, hf => by
    unfold PlanOKs3 at h
    obtain ⟨⟨a, ty, _, _, hp⟩, _, _, _, hrest⟩ := h
    simp only [List.mem_cons] at hf
    rcases hf with rfl | hf
    · exact (planOK3_facts X f a ty hp).1
    · exact planOKs3_embed X rest A atys hrest f hf

/-- **`PlanOKs3` (oneof groups at every position) is a special case** -/
theorem planOKs3_planOKsA (X : String → TfVal → Prop) (skE : List String) : ∀ (fs : List Field) (A : List (String × TfVal))
    (atys : List (String × TfTy)), PlanOKs3 X fs A atys → PlanOKsA X skE fs A atys
  | [], _, _, _ => trivial
  | f :: rest, A, atys, h => by
    have hemb := planOKs3_embed X (f :: rest) A atys h
    unfold PlanOKs3 at h
    obtain ⟨⟨a, ty, hla, hlt, hp⟩, hnS, hsep, hex, hrest⟩ := h
    unfold PlanOKsA
    refine ⟨⟨a, ty, hla, hlt, ?_⟩, hnS, ?_, hex, planOKs3_planOKsA X skE rest A atys hrest⟩
    · obtain ⟨info, mv, msg, sub⟩ := f
      unfold PlanOKA
      exact Or.inl hp
    · intro g hg
      exact sepOK3_of_sepOK _ _ (hemb f (by simp)) (hemb g (by simp [hg])) (hsep g hg)

theorem planObj3_planObjA (X : String → TfVal → Prop) (skE : List String) (m : Msg) (plan : TfVal) (h : PlanObj3 X m plan) :
    PlanObjA X skE m plan := by
  obtain ⟨u, n, as, atys, rfl, hun, hP, hkeys⟩ := h
  refine ⟨u, n, as, atys, rfl, hun, planOKs3_planOKsA X skE _ _ _ hP, hkeys, ?_⟩
  intro g hg he
  rw [planOKs3_embed X m.fields _ atys hP g hg] at he
  cases he

mutual
theorem planOKE_planOKA (X : String → TfVal → Prop) (skE : List String) : ∀ (f : Field) (a : TfVal) (ty : TfTy),
    PlanOKE X skE f a ty → PlanOKA X skE f a ty
  | ⟨info, mv, msg, sub⟩, a, ty, h => by
    unfold PlanOKE at h
    unfold PlanOKA
    rcases h with hp | hp | hp | ⟨hk, ho, hph, hem, u, n, as, tys, ha, hty, hvt, hsub, hkn, hunk⟩
    · left
      unfold PlanOK3
      exact Or.inl hp
    · exact Or.inr (Or.inl hp)
    · exact Or.inr (Or.inr (Or.inl hp))
    · refine Or.inr (Or.inr (Or.inr (Or.inl ⟨hk, ho, hph, hem, u, n, as, tys, ha, hty, hvt, hsub, ?_, hunk⟩)))
      intro hknown
      obtain ⟨hP, hkeys, hnames⟩ := hkn hknown
      exact ⟨planOKEs_planOKsA X skE sub _ _ hP, hkeys, hnames⟩

/-- **`PlanOKEs` (children of nullable embedded messages, custom kinds) is a special case** -/
theorem planOKEs_planOKsA (X : String → TfVal → Prop) (skE : List String) : ∀ (fs : List Field) (A : List (String × TfVal))
    (atys : List (String × TfTy)), PlanOKEs X skE fs A atys → PlanOKsA X skE fs A atys
  | [], _, _, _ => trivial
  | f :: rest, A, atys, h => by
    unfold PlanOKEs at h
    obtain ⟨⟨a, ty, hla, hlt, hp⟩, hnS, hsep, hrest⟩ := h
    unfold PlanOKsA
    refine ⟨⟨a, ty, hla, hlt, planOKE_planOKA X skE f a ty hp⟩, hnS, hsep, ?_, planOKEs_planOKsA X skE rest A atys hrest⟩
    intro g _ hne
    exact absurd (planOKE_facts X skE f a ty hp).1 hne
end

theorem planObjE_planObjA (X : String → TfVal → Prop) (skE : List String) (m : Msg) (plan : TfVal) (h : PlanObjE X skE m plan) :
    PlanObjA X skE m plan := by
  obtain ⟨u, n, as, atys, rfl, hun, hP, hkeys, hnames⟩ := h
  exact ⟨u, n, as, atys, rfl, hun, planOKEs_planOKsA X skE _ _ _ hP, hkeys, hnames⟩

/-- `C08_echo_oneof3` is a corollary of `C08_echo_all` -/
theorem C08_echo_oneof3_of_all (X : String → TfVal → Prop) (ov : List (String × String)) (m : Msg) (plan : TfVal)
    (skN skE : List String) (hX : ExtraOK X skN skE) (hp : PlanObj3 X m plan) :
    ∃ s1 e s2, copyFrom ov m plan (.struct []) = .ok s1 ∧ s1.diags = [] ∧
      copyTo m s1.obj plan = .ok e ∧ e.diags = [] ∧
      copyFrom ov m e.tf (.struct []) = .ok s2 ∧ s2.diags = [] ∧
      noUnknownDeep skN e.tf = true ∧ echoKeeps skE plan e.tf = true ∧ nfEqFields m.fields s1.obj s2.obj = true :=
  C08_echo_all X ov m plan skN skE hX (planObj3_planObjA X skE m plan hp)

/-- `C08_echo_embed` is a corollary of `C08_echo_all` -/
theorem C08_echo_embed_of_all (X : String → TfVal → Prop) (ov : List (String × String)) (m : Msg) (plan : TfVal)
    (skN skE : List String) (hX : ExtraOK X skN skE) (hp : PlanObjE X skE m plan) :
    ∃ s1 e s2, copyFrom ov m plan (.struct []) = .ok s1 ∧ s1.diags = [] ∧
      copyTo m s1.obj plan = .ok e ∧ e.diags = [] ∧
      copyFrom ov m e.tf (.struct []) = .ok s2 ∧ s2.diags = [] ∧
      noUnknownDeep skN e.tf = true ∧ echoKeeps skE plan e.tf = true ∧ nfEqFields m.fields s1.obj s2.obj = true :=
  C08_echo_all X ov m plan skN skE hX (planObjE_planObjA X skE m plan hp)

-- ------------------------------------------------------------------------------------------------------
-- G. non-vacuity: ONE message with a nullable embedded message `Meta` (two string children), a custom string field and a
-- oneof group `Choice` of two string branches – at the top level (`msgA1`) and as a nested message (`msgA2`)

namespace EchoAllExample
open EchoExample EchoOneofExample EchoEmbedExample

def fA : Field := ⟨child "A" "a", none, none, []⟩
def fB : Field := ⟨child "B" "b", none, none, []⟩
def fC : Field := ⟨custom, none, none, []⟩
def fT : Field := ⟨brStr "T" "t" "Choice" "types.X_T", none, none, []⟩
def fU : Field := ⟨brStr "U" "u" "Choice" "types.X_U", none, none, []⟩

def mixFields : List Field := [fA, fB, fC, fT, fU]

def mixTys : List (String × TfTy) :=
  [("a", .prim .string), ("b", .prim .string), ("c", .prim .string), ("t", .prim .string), ("u", .prim .string)]

def mixAttrs (a b c t u : TfVal) : List (String × TfVal) := [("a", a), ("b", b), ("c", c), ("t", t), ("u", u)]

theorem branch_plan (name snake g t : String) (hg : g ≠ "") (u n : Bool) (v : List UInt8)
    (hnull : u = false → n = true → v = []) :
    PlanOKA NoExtra [] ⟨brStr name snake g t, none, none, []⟩ (.prim .string u n (.str v)) (.prim .string) := by
  unfold PlanOKA
  left
  unfold PlanOK3
  exact Or.inr (Or.inr (Or.inl ⟨hg, rfl, rfl, rfl, .string, u, n, .str v, rfl, rfl, vk_string,
    brStr_ir _ _ _ _, brStr_leaf _ _ _ _ u n v hnull⟩))

theorem mix_ok (a b c : TfVal) (ut nt uu nu : Bool) (vt vu : List UInt8)
    (ha : PlanOK NoExtra ⟨unembed (child "A" "a"), none, none, []⟩ a (.prim .string))
    (hb : PlanOK NoExtra ⟨unembed (child "B" "b"), none, none, []⟩ b (.prim .string))
    (hc : CustomPlan false c)
    (ht : ut = false → nt = true → vt = []) (hu : uu = false → nu = true → vu = [])
    (hex : nt = true ∨ nu = true) :
    PlanOKsA NoExtra [] mixFields (mixAttrs a b c (.prim .string ut nt (.str vt)) (.prim .string uu nu (.str vu))) mixTys ∧
    KeysOK NoExtra mixFields (mixAttrs a b c (.prim .string ut nt (.str vt)) (.prim .string uu nu (.str vu))) := by
  refine ⟨?_, by simp [mixAttrs], ?_⟩
  · unfold mixFields PlanOKsA
    refine ⟨⟨a, .prim .string, by rfl, by rfl, ?_⟩, by decide, ?_, fun g _ h => absurd rfl h, ?_⟩
    · unfold fA PlanOKA
      exact Or.inr (Or.inl ⟨rfl, rfl, ha⟩)
    · intro g hg
      simp only [List.mem_cons, List.mem_nil_iff, or_false] at hg
      rcases hg with rfl | rfl | rfl | rfl
      · intro _
        exact Or.inr ⟨rfl, rfl, by decide⟩
      all_goals exact sep_example _ _ (by decide)
    unfold PlanOKsA
    refine ⟨⟨b, .prim .string, by rfl, by rfl, ?_⟩, by decide, ?_, fun g _ h => absurd rfl h, ?_⟩
    · unfold fB PlanOKA
      exact Or.inr (Or.inl ⟨rfl, rfl, hb⟩)
    · intro g hg
      simp only [List.mem_cons, List.mem_nil_iff, or_false] at hg
      rcases hg with rfl | rfl | rfl <;> exact sep_example _ _ (by decide)
    unfold PlanOKsA
    refine ⟨⟨c, .prim .string, by rfl, by rfl, ?_⟩, by decide, ?_, fun g _ h => absurd rfl h, ?_⟩
    · unfold fC PlanOKA
      exact Or.inr (Or.inr (Or.inl ⟨rfl, rfl, rfl, Or.inr hc⟩))
    · intro g hg
      simp only [List.mem_cons, List.mem_nil_iff, or_false] at hg
      rcases hg with rfl | rfl <;> exact sep_example _ _ (by decide)
    unfold PlanOKsA
    refine ⟨⟨_, .prim .string, by rfl, by rfl, branch_plan "T" "t" "Choice" "types.X_T" (by decide) ut nt vt ht⟩, by decide, ?_, ?_, ?_⟩
    · intro g hg
      simp only [List.mem_cons, List.mem_nil_iff, or_false] at hg
      subst hg
      intro _
      exact Or.inl ⟨rfl, rfl, by decide, rfl, by decide⟩
    · intro g hg _ _
      simp only [List.mem_cons, List.mem_nil_iff, or_false] at hg
      subst hg
      rcases hex with h | h
      · left; subst h; simp [notNullAt, mixAttrs, fT, brStr, strField, List.lookup, isNull]
      · right; subst h; simp [notNullAt, mixAttrs, fU, brStr, strField, List.lookup, isNull]
    unfold PlanOKsA
    exact ⟨⟨_, .prim .string, by rfl, by rfl, branch_plan "U" "u" "Choice" "types.X_U" (by decide) uu nu vu hu⟩, by decide, by simp, by simp, trivial⟩
  · intro kv hkv
    simp only [mixAttrs, List.mem_cons, List.mem_nil_iff, or_false] at hkv
    rcases hkv with rfl | rfl | rfl | rfl | rfl <;>
      exact Or.inl (by simp [mixFields, fA, fB, fC, fT, fU, child, custom, brStr, strField])

theorem mix_names (names : List String) (h : "Meta" ∉ names) :
    ∀ g ∈ mixFields, g.info.parentIsOptionalEmbed = true → g.info.parentIsOptionalEmbedFieldName ∉ names := by
  intro g hg
  simp only [mixFields, List.mem_cons, List.mem_nil_iff, or_false] at hg
  rcases hg with rfl | rfl | rfl | rfl | rfl
  · intro _; exact h
  · intro _; exact h
  all_goals (intro h'; cases h')

/-- the mix at the top level -/
def msgA1 : Msg := { info := { name := "M", oneOfNames := ["Choice"] }, fields := mixFields }

def planA1 (a b c t u : TfVal) : TfVal := .obj false false (some (mixAttrs a b c t u)) (some mixTys)

/-- plan 1: child `a` known ("hi"), `b` unknown, `c` what the hook writes for "x", branch `t` known ("q"), `u` null -/
def attrs1 : List (String × TfVal) :=
  mixAttrs (.prim .string false false (.str [104, 105])) (.prim .string true false (.str []))
    (.prim .string false false (.str (hWrap [120]))) (.prim .string false false (.str [113])) (.prim .string false true (.str []))

/-- plan 2: both children unknown / null (the embedded message stays nil unless the custom hook allocates it), `c` unknown,
branch `t` null, `u` unknown -/
def attrs2 : List (String × TfVal) :=
  mixAttrs (.prim .string true false (.str [])) (.prim .string false true (.str []))
    (.prim .string true false (.str [])) (.prim .string false true (.str [])) (.prim .string true false (.str []))

theorem attrs1_ok : PlanOKsA NoExtra [] mixFields attrs1 mixTys ∧ KeysOK NoExtra mixFields attrs1 :=
  mix_ok _ _ _ false false false true [113] []
    (child_plan NoExtra "A" "a" false false [104, 105] (by intro _ h; cases h))
    (child_plan NoExtra "B" "b" true false [] (by intro h; cases h))
    ⟨false, false, hWrap [120], rfl, fun _ => ⟨rfl, [120], rfl⟩⟩
    (by intro _ h; cases h) (fun _ _ => rfl) (Or.inr rfl)

theorem attrs2_ok : PlanOKsA NoExtra [] mixFields attrs2 mixTys ∧ KeysOK NoExtra mixFields attrs2 :=
  mix_ok _ _ _ false true true false [] []
    (child_plan NoExtra "A" "a" true false [] (by intro h; cases h))
    (child_plan NoExtra "B" "b" false true [] (fun _ _ => rfl))
    ⟨true, false, [], rfl, fun h => by cases h⟩
    (fun _ _ => rfl) (by intro h; cases h) (Or.inl rfl)

theorem planA1_ok (A : List (String × TfVal)) (h : PlanOKsA NoExtra [] mixFields A mixTys ∧ KeysOK NoExtra mixFields A) :
    PlanObjA NoExtra [] msgA1 (.obj false false (some A) (some mixTys)) :=
  ⟨false, false, some A, mixTys, rfl, fun _ => rfl, h.1, h.2, mix_names _ (by decide)⟩

/-- `C08_echo_all` applies to both plans of the mixed message -/
example (A : List (String × TfVal)) (hA : A = attrs1 ∨ A = attrs2) :
    ∃ s1 e s2, copyFrom [] msgA1 (.obj false false (some A) (some mixTys)) (.struct []) = .ok s1 ∧ s1.diags = [] ∧
      copyTo msgA1 s1.obj (.obj false false (some A) (some mixTys)) = .ok e ∧ e.diags = [] ∧
      copyFrom [] msgA1 e.tf (.struct []) = .ok s2 ∧ s2.diags = [] ∧
      noUnknownDeep [] e.tf = true ∧ echoKeeps [] (.obj false false (some A) (some mixTys)) e.tf = true ∧
      nfEqFields msgA1.fields s1.obj s2.obj = true := by
  rcases hA with rfl | rfl
  · exact C08_echo_all NoExtra [] msgA1 _ [] [] (extraOK_none [] []) (planA1_ok _ attrs1_ok)
  · exact C08_echo_all NoExtra [] msgA1 _ [] [] (extraOK_none [] []) (planA1_ok _ attrs2_ok)

/-- … evaluated: no diagnostics, nothing unknown, second decode equal -/
example : run3 msgA1 (.obj false false (some attrs1) (some mixTys)) = some (true, true, true) := by decide +kernel
example : run3 msgA1 (.obj false false (some attrs2) (some mixTys)) = some (true, true, true) := by decide +kernel

/-- the mix as a nested message (held by pointer) next to a plain string field -/
def msgA2 : Msg :=
  { info := { name := "D" },
    fields := [⟨strField "S" "s", none, none, []⟩, ⟨nested, none, some { name := "N", oneOfNames := ["Choice"] }, mixFields⟩] }

def atysA2 : List (String × TfTy) := [("s", .prim .string), ("n", .obj (some mixTys))]

def planA2 (n : TfVal) : TfVal :=
  .obj false false (some [("s", .prim .string false false (.str [115])), ("n", n)]) (some atysA2)

theorem nestedA_known (A : List (String × TfVal)) (h : PlanOKsA NoExtra [] mixFields A mixTys ∧ KeysOK NoExtra mixFields A) :
    PlanOKA NoExtra [] ⟨nested, none, some { name := "N", oneOfNames := ["Choice"] }, mixFields⟩
      (.obj false false (some A) (some mixTys)) (.obj (some mixTys)) := by
  unfold PlanOKA
  refine Or.inr (Or.inr (Or.inr (Or.inl ⟨rfl, rfl, rfl, rfl, false, false, some A, mixTys, rfl, rfl, vk_object, by decide, ?_,
    by intro h; cases h⟩)))
  intro _
  exact ⟨h.1, h.2, mix_names _ (by decide)⟩

theorem planA2_ok (n : TfVal)
    (hn : PlanOKA NoExtra [] ⟨nested, none, some { name := "N", oneOfNames := ["Choice"] }, mixFields⟩ n (.obj (some mixTys))) :
    PlanObjA NoExtra [] msgA2 (planA2 n) := by
  refine ⟨false, false, _, atysA2, rfl, fun _ => rfl, ?_, ?_, ?_⟩
  · unfold msgA2
    simp only [Option.getD_some]
    unfold PlanOKsA
    refine ⟨⟨_, .prim .string, by rfl, by rfl, ?_⟩, by decide, ?_, fun g _ h => absurd rfl h, ?_⟩
    · unfold PlanOKA
      left
      unfold PlanOK3
      exact Or.inl (strField_plan NoExtra "S" "s" none false false [115] (by intro _ h; cases h))
    · intro g hg
      simp only [List.mem_cons, List.mem_nil_iff, or_false] at hg
      subst hg
      exact sep_example _ _ (by decide)
    unfold PlanOKsA
    exact ⟨⟨n, .obj (some mixTys), by rfl, by rfl, hn⟩, by decide, by simp, by simp, trivial⟩
  · refine ⟨by simp, ?_⟩
    intro kv hkv
    simp only [Option.getD_some, List.mem_cons, List.mem_nil_iff, or_false] at hkv
    rcases hkv with rfl | rfl <;> exact Or.inl (by simp [msgA2, strField, nested])
  · intro g hg
    simp only [msgA2, List.mem_cons, List.mem_nil_iff, or_false] at hg
    rcases hg with rfl | rfl <;> (intro h; cases h)

/-- `C08_echo_all` applies: the nested message known with either attribute map, or unknown -/
example (n : TfVal) (hn : n = .obj false false (some attrs1) (some mixTys) ∨ n = .obj false false (some attrs2) (some mixTys) ∨
      n = .obj true false none (some mixTys)) :
    ∃ s1 e s2, copyFrom [] msgA2 (planA2 n) (.struct []) = .ok s1 ∧ s1.diags = [] ∧
      copyTo msgA2 s1.obj (planA2 n) = .ok e ∧ e.diags = [] ∧
      copyFrom [] msgA2 e.tf (.struct []) = .ok s2 ∧ s2.diags = [] ∧
      noUnknownDeep [] e.tf = true ∧ echoKeeps [] (planA2 n) e.tf = true ∧ nfEqFields msgA2.fields s1.obj s2.obj = true := by
  rcases hn with rfl | rfl | rfl
  · exact C08_echo_all NoExtra [] msgA2 _ [] [] (extraOK_none [] []) (planA2_ok _ (nestedA_known _ attrs1_ok))
  · exact C08_echo_all NoExtra [] msgA2 _ [] [] (extraOK_none [] []) (planA2_ok _ (nestedA_known _ attrs2_ok))
  · refine C08_echo_all NoExtra [] msgA2 _ [] [] (extraOK_none [] []) (planA2_ok _ ?_)
    unfold PlanOKA
    exact Or.inr (Or.inr (Or.inr (Or.inl ⟨rfl, rfl, rfl, rfl, true, false, none, mixTys, rfl, rfl, vk_object, by decide,
      (by intro h; cases h), fun _ => ⟨rfl, rfl⟩⟩)))

example : run3 msgA2 (planA2 (.obj false false (some attrs1) (some mixTys))) = some (true, true, true) := by decide +kernel
example : run3 msgA2 (planA2 (.obj false false (some attrs2) (some mixTys))) = some (true, true, true) := by decide +kernel
example : run3 msgA2 (planA2 (.obj true false none (some mixTys))) = some (true, true, true) := by decide +kernel

/-- a MESSAGE BRANCH of the group `Pick` whose message is the mix, next to a string branch of the same group -/
def brMix : FieldInfo := { brMsg with oneOfName := "Pick", oneOfType := "types.P_M" }
def fMB : Field := ⟨brMix, none, some { name := "Inner", oneOfNames := ["Choice"] }, mixFields⟩
def fPS : Field := ⟨brStr "S" "s" "Pick" "types.P_S", none, none, []⟩

def msgA4 : Msg := { info := { name := "P", oneOfNames := ["Pick"] }, fields := [fPS, fMB] }

def atysA4 : List (String × TfTy) := [("s", .prim .string), ("m", .obj (some mixTys))]

def planA4 (s m : TfVal) : TfVal := .obj false false (some [("s", s), ("m", m)]) (some atysA4)

theorem msgBranch_known (A : List (String × TfVal)) (h : PlanOKsA NoExtra [] mixFields A mixTys ∧ KeysOK NoExtra mixFields A) :
    PlanOKA NoExtra [] fMB (.obj false false (some A) (some mixTys)) (.obj (some mixTys)) := by
  unfold fMB PlanOKA
  refine Or.inr (Or.inr (Or.inr (Or.inr ⟨rfl, by decide, rfl, rfl, rfl, rfl, false, false, some A, mixTys, rfl, rfl, vk_object,
    by decide, ?_, by intro h; cases h⟩)))
  intro _
  exact ⟨h.1, h.2, mix_names _ (by decide)⟩

theorem msgBranch_null : PlanOKA NoExtra [] fMB (.obj false true none (some mixTys)) (.obj (some mixTys)) := by
  unfold fMB PlanOKA
  exact Or.inr (Or.inr (Or.inr (Or.inr ⟨rfl, by decide, rfl, rfl, rfl, rfl, false, true, none, mixTys, rfl, rfl, vk_object,
    by decide, (by intro h; cases h), fun _ => rfl⟩)))

theorem planA4_ok (us ns : Bool) (vs : List UInt8) (m : TfVal) (hs : us = false → ns = true → vs = [])
    (hm : PlanOKA NoExtra [] fMB m (.obj (some mixTys))) (hex : ns = true ∨ isNull m = true) :
    PlanObjA NoExtra [] msgA4 (planA4 (.prim .string us ns (.str vs)) m) := by
  refine ⟨false, false, _, atysA4, rfl, fun _ => rfl, ?_, ?_, ?_⟩
  · unfold msgA4
    simp only [Option.getD_some]
    unfold PlanOKsA
    refine ⟨⟨_, .prim .string, by rfl, by rfl, branch_plan "S" "s" "Pick" "types.P_S" (by decide) us ns vs hs⟩, by decide, ?_, ?_, ?_⟩
    · intro g hg
      simp only [List.mem_cons, List.mem_nil_iff, or_false] at hg
      subst hg
      intro _
      exact Or.inl ⟨rfl, rfl, by decide, rfl, by decide⟩
    · intro g hg _ _
      simp only [List.mem_cons, List.mem_nil_iff, or_false] at hg
      subst hg
      rcases hex with h | h
      · left; subst h; simp [notNullAt, fPS, brStr, strField, List.lookup, isNull]
      · right; simp [notNullAt, fMB, brMix, brMsg, List.lookup, h]
    unfold PlanOKsA
    exact ⟨⟨m, .obj (some mixTys), by rfl, by rfl, hm⟩, by decide, by simp, by simp, trivial⟩
  · refine ⟨by simp, ?_⟩
    intro kv hkv
    simp only [Option.getD_some, List.mem_cons, List.mem_nil_iff, or_false] at hkv
    rcases hkv with rfl | rfl <;> exact Or.inl (by simp [msgA4, fPS, fMB, brMix, brMsg, brStr, strField])
  · intro g hg
    simp only [msgA4, List.mem_cons, List.mem_nil_iff, or_false] at hg
    rcases hg with rfl | rfl <;> (intro h; cases h)

/-- `C08_echo_all` applies: the string branch null and the message branch known (either attribute map), or the string
branch known and the message branch null -/
example (s m : TfVal)
    (h : (s = .prim .string false true (.str []) ∧ (m = .obj false false (some attrs1) (some mixTys) ∨
            m = .obj false false (some attrs2) (some mixTys))) ∨
         (s = .prim .string false false (.str [122]) ∧ m = .obj false true none (some mixTys))) :
    ∃ s1 e s2, copyFrom [] msgA4 (planA4 s m) (.struct []) = .ok s1 ∧ s1.diags = [] ∧
      copyTo msgA4 s1.obj (planA4 s m) = .ok e ∧ e.diags = [] ∧
      copyFrom [] msgA4 e.tf (.struct []) = .ok s2 ∧ s2.diags = [] ∧
      noUnknownDeep [] e.tf = true ∧ echoKeeps [] (planA4 s m) e.tf = true ∧ nfEqFields msgA4.fields s1.obj s2.obj = true := by
  rcases h with ⟨rfl, rfl | rfl⟩ | ⟨rfl, rfl⟩
  · exact C08_echo_all NoExtra [] msgA4 _ [] [] (extraOK_none [] [])
      (planA4_ok false true [] _ (fun _ _ => rfl) (msgBranch_known _ attrs1_ok) (Or.inl rfl))
  · exact C08_echo_all NoExtra [] msgA4 _ [] [] (extraOK_none [] [])
      (planA4_ok false true [] _ (fun _ _ => rfl) (msgBranch_known _ attrs2_ok) (Or.inl rfl))
  · exact C08_echo_all NoExtra [] msgA4 _ [] [] (extraOK_none [] [])
      (planA4_ok false false [122] _ (by intro _ h; cases h) msgBranch_null (Or.inr rfl))

example : run3 msgA4 (planA4 (.prim .string false true (.str [])) (.obj false false (some attrs1) (some mixTys))) =
    some (true, true, true) := by decide +kernel
example : run3 msgA4 (planA4 (.prim .string false true (.str [])) (.obj false false (some attrs2) (some mixTys))) =
    some (true, true, true) := by decide +kernel
example : run3 msgA4 (planA4 (.prim .string false false (.str [122])) (.obj false true none (some mixTys))) =
    some (true, true, true) := by decide +kernel

/-- … the decoded struct of the first plan holds the wrapper of the message branch, whose struct holds the embedded
message `Meta` (allocated by the known child) and the wrapper of the inner group -/
example :
    (match copyFrom [] msgA4 (planA4 (.prim .string false true (.str [])) (.obj false false (some attrs1) (some mixTys))) (.struct []) with
     | .ok s1 =>
       (match s1.obj.field? "Pick" with
        | some (.iface (some (w, _, .ptr (some inner)))) => some (w, (inner.field? "Meta").isSome, (inner.field? "Choice").isSome)
        | _ => none)
     | _ => none) = some ("P_M", true, true) := by decide +kernel

end EchoAllExample

-- ------------------------------------------------------------------------------------------------------
-- H. what remains open

/-- The full statement of C08 (= `PGT.Props.C08.C08_full` = `echo_embed_full` of PGT/Proofs/EchoEmbed.lean = `echo_full` of
PGT/Proofs/Echo.lean): every IR, every plan.  `C08_echo_all_check` proves it – with "no diagnostics" in addition – for plan
objects satisfying `PlanObjA`.

Steps of the task:
* step (2), **oneof groups and children of nullable embedded messages / custom kinds in the SAME message: DONE** (`seqFromA`,
  `bundleA_of`; IR conditions: `SepOK3` pairwise – in particular the parent pointer is not the Go field of another block – and
  "the parent pointer is not listed as a holder of the message" (`PlanObjA`, clauses (c) / (d))); recursively through singular
  nested messages outside groups (clause (c), also as a child of a nullable embedded message) and through MESSAGE BRANCHES of
  oneof groups (clause (d), `fieldEchoA_msgBranch`).
* step (1), children of nullable embedded messages / custom kinds **inside the ELEMENT messages of lists / maps: OPEN.**
  Lists / maps of messages are covered by clause (3) only (`PlanOK3`, clauses L / Mp: the element message carries groups but
  no embedded children / custom kinds) and, as a child of a nullable embedded message, by clause (a) (plain below).  Missing:
  the typing of a decoded element struct for CopyTo from scratch and the read-back (`ToOKs` ∧ `RT3OKs` of
  PGT/Proofs/RoundTripEmbed.lean) from a judgement on the planned element, the statement "the rendering from scratch
  (`rendersFields3`) leaves nothing unknown", and the list / map templates over `RT3OKs` (the analogues of `objElems_spec2` /
  `secondDec_list2` of PGT/Proofs/EchoOneofDeep.lean, which are stated for `RT4OKs`).  `ToOK` demands a non-nil parent
  (`Reachable`) for message / list / map / custom children; after a decode the parent is nil exactly when no child attribute is
  known and no child is of a custom kind (the custom block always allocates the parent), and then only scalar children are
  typed (`ToOK`, second alternative).  The instance asked for in the task (`EchoAllOpen.list_example_runs`) evaluates to
  "no diagnostics, nothing unknown, second decode equal", i.e. the open statement HOLDS on it; it is not derived from a theorem.
* step (3), such fields inside the zero struct of a null / unknown BY-VALUE nested message: **OPEN** (clause (c) asks for a
  pointer when the planned value is null / unknown; clause (3) / M2 covers the zero struct with groups only).
Also outside `PlanOKsA`: everything `echo_embed_full` and `C08_echo_oneof_full_false` list for the two earlier judgements (plans
outside the judgements, the scalar branch held by value without a zero literal below list / map elements – the statement is
FALSE there –, a custom attribute that is known but not what the hook writes and not skipped by `echoKeeps`, a parent pointer
that is also a holder, nested messages without fields next to clauses (c) / (d)). -/
def echo_all_full : Prop :=
  ∀ (ov : List (String × String)) (m : Msg) (plan : TfVal) (s1 : FromResult) (e : ToResult) (s2 : FromResult),
    copyFrom ov m plan (.struct []) = .ok s1 → copyTo m s1.obj plan = .ok e → copyFrom ov m e.tf (.struct []) = .ok s2 →
    c08Check m plan s1.obj e.tf s2.obj = true

theorem echo_all_full_eq : echo_all_full = echo_embed_full := rfl

namespace EchoAllOpen
open EchoExample EchoOneofExample EchoEmbedExample EchoAllExample

/-- the instance of step (1) asked for in the task: a list of messages whose element message is the mix (nullable embedded
message with two string children, custom string field, oneof group) -/
def fItems : Field := ⟨EchoOneofDeepWitness.listInfo, none, some { name := "Item", oneOfNames := ["Choice"] }, mixFields⟩

def msgA3 : Msg := { info := { name := "W" }, fields := [fItems] }

def atysA3 : List (String × TfTy) := [("items", .list (some (.obj (some mixTys))))]

/-- two elements: one with a known child (`attrs1`), one with all children unknown / null (`attrs2`) -/
def planA3 : TfVal :=
  .obj false false
    (some [("items", .list false false
      (some [.obj false false (some attrs1) (some mixTys), .obj false false (some attrs2) (some mixTys)])
      (some (.obj (some mixTys))))])
    (some atysA3)

/-- NOT covered by `C08_echo_all`; evaluated: no diagnostics, nothing unknown, second decode equal -/
theorem list_example_runs : run3 msgA3 planA3 = some (true, true, true) := by decide +kernel

end EchoAllOpen

end PGT
