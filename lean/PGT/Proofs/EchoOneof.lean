import PGT.Proofs.Echo
import PGT.Proofs.RoundTripOneof
import PGT.Proofs.ToOneof
/-
C08 (apply echo) with oneof groups: decode a plan, encode the struct back INTO the same plan, decode again – for messages
whose fields are the templates of the plain tree (`PlanOK`, PGT/Proofs/EchoDecode.lean) *and* branches of oneof groups
(scalar branches held by value, message branches held by pointer), the groups occurring at the top level, inside known
nested messages and inside message branches, recursively.

What the model does with an *inactive* scalar branch whose attribute exists in the plan as `prim k u n p`
(`primBody` / `primStart` / `assignPrim`): the existing `Null` flag is KEPT, the payload becomes the cast of the Go zero
value, `Unknown` is cleared: the result is `prim k false n (castTo zero)`. So
* a null attribute (known or unknown) stays null;
* an attribute that is unknown with `Null = false` (what `ValueFromTerraform` produces for an unknown value) comes back
  KNOWN and NOT NULL with the zero payload. `noUnknownDeep` and `echoKeeps` hold for it, but the second decode now reads
  this branch into the holder; if the branch follows the known branch of the group in field order the holder switches
  and `nfEqFields` FAILS (`EchoOneofWitness.witness_fails`, by `decide`).
The hypothesis of the judgement is therefore the literal quantifier of C08, "at most one branch per oneof group that is
not null": of two branches of one group at most one has `Null = false` (`PlanOKs2`, clause `notNullAt`); that branch may
be known or unknown.
-/
namespace PGT
open PGT.Spec PGT.Props

-- ------------------------------------------------------------------------------------------------------
-- holders

/-- the value the holder of the group carries when branch `info` is set with payload `p` -/
def wrapOf (info : FieldInfo) (p : GoVal) : GoVal := .iface (some (lastSegment info.oneOfType, info.name, p))

/-- the state of branch `info` in struct `o`: the holder carries its wrapper with payload `p`, or the branch is not the
active one -/
def BrState (info : FieldInfo) (o : GoVal) : Option GoVal → Prop
  | some p => o.field? info.oneOfName = some (wrapOf info p)
  | none => activePayload info o = none

/-- the attribute of `f` is present and its `Null` flag is not set (known or unknown) -/
def notNullAt (attrs : List (String × TfVal)) (f : Field) : Bool :=
  match attrs.lookup f.info.nameSnake with
  | some a => !isNull a
  | none => false

theorem brState_some (info : FieldInfo) (o p : GoVal) (ho : info.oneOfName ≠ "") (he : info.parentIsOptionalEmbed = false)
    (h : BrState info o (some p)) : getVal info o = p ∧ activePayload info o = some p := by
  refine ⟨ToOneof.active_reads_payload info o ho he p h, ?_⟩
  rw [activePayload_field info o _ _ _ h]
  simp

theorem brState_none (info : FieldInfo) (o : GoVal) (ho : info.oneOfName ≠ "") (he : info.parentIsOptionalEmbed = false)
    (h : BrState info o none) : getVal info o = zeroGoOf info :=
  ToOneof.inactive_reads_zero info o ho he h

-- ------------------------------------------------------------------------------------------------------
-- the judgement for plan objects with oneof groups

mutual
/-- `a` is a planned value of field `f` (attribute type `ty`):
* a field of the plain tree (`PlanOK`: any template outside oneof groups, plain below), or
* a **known** nested message (outside oneof groups, with fields) whose attributes satisfy `PlanOKs2` – groups below –, or
* a **message branch** of a oneof group (held by pointer, message with fields): any flags; known ⇒ its attributes satisfy
  `PlanOKs2`; null / unknown ⇒ it carries no attributes, or
* a **scalar branch** of a oneof group (held by value): any flags, the leaf hypotheses of the plain tree (`LeafOK`:
  a known value is within the range of the Go field, a known null value carries the zero payload). -/
def PlanOK2 (X : String → TfVal → Prop) : Field → TfVal → TfTy → Prop
  | ⟨info, mapVal, msg, sub⟩, a, ty =>
    PlanOK X ⟨info, mapVal, msg, sub⟩ a ty ∨
    (info.parentIsOptionalEmbed = false ∧ info.isPlaceholder = false ∧ info.kind = .object ∧ isEmptyMsg msg = false ∧
      vkindOf info.tf.valueType = .obj ∧ sub ≠ [] ∧
      ((info.oneOfName = "" ∧ ∃ as tys, a = .obj false false as (some tys) ∧ ty = .obj (some tys) ∧
          PlanOKs2 X sub (as.getD []) tys ∧ KeysOK X sub (as.getD [])) ∨
       (info.oneOfName ≠ "" ∧ info.isNullable = true ∧ ∃ u n as tys, a = .obj u n as (some tys) ∧ ty = .obj (some tys) ∧
          (known u n = true → PlanOKs2 X sub (as.getD []) tys ∧ KeysOK X sub (as.getD [])) ∧
          (known u n = false → as.getD [] = [])))) ∨
    (info.oneOfName ≠ "" ∧ info.parentIsOptionalEmbed = false ∧ info.isPlaceholder = false ∧ info.kind = .primitive ∧
      info.isNullable = false ∧
      ∃ k u n p, a = .prim k u n p ∧ ty = .prim k ∧ vkindOf info.tf.valueType = .prim k ∧ ScalarIR info k ∧
        LeafOK info k u n p)

/-- every field has a planned value and a type; attribute names are pairwise distinct; two fields assign different Go
fields unless they are branches of one group with different wrapper types (`SepOK`); **of two branches of one group at
most one is not null** -/
def PlanOKs2 (X : String → TfVal → Prop) : List Field → List (String × TfVal) → List (String × TfTy) → Prop
  | [], _, _ => True
  | f :: rest, attrs, atys =>
    (∃ a ty, attrs.lookup f.info.nameSnake = some a ∧ atys.lookup f.info.nameSnake = some ty ∧ PlanOK2 X f a ty) ∧
    f.info.nameSnake ∉ rest.map (·.info.nameSnake) ∧
    (∀ g ∈ rest, SepOK f.info g.info) ∧
    (∀ g ∈ rest, f.info.oneOfName ≠ "" → g.info.oneOfName = f.info.oneOfName →
        notNullAt attrs f = false ∨ notNullAt attrs g = false) ∧
    PlanOKs2 X rest attrs atys
end

mutual
/-- the planned value `a` of field `f` together with what CopyFrom decoded from it into struct `o` (everything the echo
needs: the judgement, the typing of the struct, the relation between the two) -/
def Ech2 (X : String → TfVal → Prop) : Field → TfVal → TfTy → GoVal → Prop
  | ⟨info, mapVal, msg, sub⟩, a, ty, o =>
    (PlanOK X ⟨info, mapVal, msg, sub⟩ a ty ∧ ToOK ⟨info, mapVal, msg, sub⟩ o ty ∧ RTOK ⟨info, mapVal, msg, sub⟩ o ∧
      DecRel ⟨info, mapVal, msg, sub⟩ a (getVal info o)) ∨
    (info.parentIsOptionalEmbed = false ∧ info.isPlaceholder = false ∧ info.kind = .object ∧ isEmptyMsg msg = false ∧
      vkindOf info.tf.valueType = .obj ∧ sub ≠ [] ∧
      ((info.oneOfName = "" ∧ ∃ as tys fs, a = .obj false false as (some tys) ∧ ty = .obj (some tys) ∧
          getVal info o = (if info.isNullable then .ptr (some (.struct fs)) else .struct fs) ∧
          Ech2s X sub (as.getD []) tys (.struct fs) ∧ KeysOK X sub (as.getD [])) ∨
       (info.oneOfName ≠ "" ∧ info.isNullable = true ∧ ∃ u n as tys, a = .obj u n as (some tys) ∧ ty = .obj (some tys) ∧
          (known u n = true → ∃ fs, BrState info o (some (.ptr (some (.struct fs)))) ∧
              Ech2s X sub (as.getD []) tys (.struct fs) ∧ KeysOK X sub (as.getD [])) ∧
          (known u n = false → as.getD [] = [] ∧ BrState info o none)))) ∨
    (info.oneOfName ≠ "" ∧ info.parentIsOptionalEmbed = false ∧ info.isPlaceholder = false ∧ info.kind = .primitive ∧
      info.isNullable = false ∧
      ∃ k u n p, a = .prim k u n p ∧ ty = .prim k ∧ vkindOf info.tf.valueType = .prim k ∧ ScalarIR info k ∧
        LeafOK info k u n p ∧
        ∃ x, primDecode info k u n p = .ok x ∧ BrState info o (if known u n then some x else none))

def Ech2s (X : String → TfVal → Prop) : List Field → List (String × TfVal) → List (String × TfTy) → GoVal → Prop
  | [], _, _, _ => True
  | f :: rest, attrs, atys, o =>
    (∃ a ty, attrs.lookup f.info.nameSnake = some a ∧ atys.lookup f.info.nameSnake = some ty ∧ Ech2 X f a ty o) ∧
    f.info.nameSnake ∉ rest.map (·.info.nameSnake) ∧
    (∀ g ∈ rest, SepOK f.info g.info) ∧
    (∀ g ∈ rest, f.info.oneOfName ≠ "" → g.info.oneOfName = f.info.oneOfName →
        notNullAt attrs f = false ∨ notNullAt attrs g = false) ∧
    Ech2s X rest attrs atys o
end

-- ------------------------------------------------------------------------------------------------------
-- the branch blocks of CopyFrom, as equations

theorem fromFieldWith_primBranch_run (rec : FromRec) (ov : List (String × String)) (info : FieldInfo) (mv : Option FieldInfo)
    (msg : Option MsgInfo) (attrs : Option (List (String × TfVal))) (st : FromSt) (k : PrimK) (u n : Bool) (p : Sc) (y : GoVal)
    (hk : info.kind = .primitive) (ho : info.oneOfName ≠ "") (he : info.parentIsOptionalEmbed = false)
    (hvt : vkindOf info.tf.valueType = .prim k)
    (hl : (attrs.getD []).lookup info.nameSnake = some (.prim k u n p))
    (hd : primDecode info k u n p = .ok y) :
    copyFromFieldWith rec ov info mv msg attrs st =
      .ok (if known u n then { st with obj := st.obj.setField info.oneOfName (wrapOf info y) } else st) := by
  have hob : (info.oneOfName != "") = true := by simpa using ho
  unfold copyFromFieldWith
  cases hkn : known u n <;>
    simp [hk, hl, TfVal.vkind, hvt, embedGuard_plain info _ _ he, hd, hob, hkn, wrapOf]

theorem fromFieldWith_objBranch_known (rec : FromRec) (ov : List (String × String)) (info : FieldInfo) (mv : Option FieldInfo)
    (msg : Option MsgInfo) (attrs : Option (List (String × TfVal))) (st : FromSt) (u n : Bool)
    (as : Option (List (String × TfVal))) (tys : Option (List (String × TfTy))) (o : GoVal)
    (hk : info.kind = .object) (ho : info.oneOfName ≠ "") (he : info.parentIsOptionalEmbed = false)
    (hvt : vkindOf info.tf.valueType = .obj) (hem : isEmptyMsg msg = false) (hkn : known u n = true)
    (hl : (attrs.getD []).lookup info.nameSnake = some (.obj u n as tys))
    (hrec : rec as { st with obj := .struct [] } = .ok { obj := o, diags := st.diags, hooks := st.hooks }) :
    copyFromFieldWith rec ov info mv msg attrs st =
      .ok { st with obj := st.obj.setField info.oneOfName (wrapOf info (.ptr (some o))) } := by
  have hoe : (info.oneOfName == "") = false := by simpa using ho
  unfold copyFromFieldWith
  simp [hk, hl, TfVal.vkind, hvt, embedGuard_plain info _ _ he, hoe, hkn, hem, hrec, wrapOf]

theorem fromFieldWith_objBranch_unknown (rec : FromRec) (ov : List (String × String)) (info : FieldInfo) (mv : Option FieldInfo)
    (msg : Option MsgInfo) (attrs : Option (List (String × TfVal))) (st : FromSt) (u n : Bool)
    (as : Option (List (String × TfVal))) (tys : Option (List (String × TfTy)))
    (hk : info.kind = .object) (ho : info.oneOfName ≠ "") (he : info.parentIsOptionalEmbed = false)
    (hvt : vkindOf info.tf.valueType = .obj) (hkn : known u n = false)
    (hl : (attrs.getD []).lookup info.nameSnake = some (.obj u n as tys)) :
    copyFromFieldWith rec ov info mv msg attrs st = .ok st := by
  have hoe : (info.oneOfName == "") = false := by simpa using ho
  unfold copyFromFieldWith
  simp [hk, hl, TfVal.vkind, hvt, embedGuard_plain info _ _ he, hoe, hkn]

-- ------------------------------------------------------------------------------------------------------
-- small facts about write keys and holders

theorem wkey_plain (info : FieldInfo) (h : info.oneOfName = "") : wkey info = info.name := by simp [wkey, h]

theorem wkey_branch (info : FieldInfo) (h : info.oneOfName ≠ "") : wkey info = info.oneOfName := by simp [wkey, h]

theorem activePayload_congr (info : FieldInfo) (a b : GoVal) (h : a.field? info.oneOfName = b.field? info.oneOfName) :
    activePayload info a = activePayload info b := by
  unfold activePayload
  rw [h]

theorem activePayload_wrap_other (info d : FieldInfo) (o y : GoVal)
    (h : o.field? info.oneOfName = some (wrapOf d y)) (hne : lastSegment info.oneOfType ≠ lastSegment d.oneOfType) :
    activePayload info o = none := by
  rw [activePayload_field info o _ _ _ h]
  have : (lastSegment d.oneOfType == lastSegment info.oneOfType) = false := by simpa using fun e => hne e.symm
  simp [this]

theorem sep_branch (f g : FieldInfo) (h : SepOK f g) (hf : f.oneOfName ≠ "") (hg : g.oneOfName = f.oneOfName) :
    lastSegment f.oneOfType ≠ lastSegment g.oneOfType := by
  have hg' : g.oneOfName ≠ "" := by rw [hg]; exact hf
  exact (h (by rw [wkey_branch f hf, wkey_branch g hg', hg])).2.2

theorem sep_plain_left (f g : FieldInfo) (h : SepOK f g) (hf : f.oneOfName = "") : wkey g ≠ wkey f :=
  fun e => (h e.symm).1 hf

theorem sep_plain_right (f g : FieldInfo) (h : SepOK f g) (hg : g.oneOfName = "") : wkey g ≠ wkey f := by
  intro e
  obtain ⟨h1, h2, _⟩ := h e.symm
  exact h1 (by rw [← h2]; exact hg)

theorem notNullAt_of (attrs : List (String × TfVal)) (f : Field) (a : TfVal) (hl : attrs.lookup f.info.nameSnake = some a)
    (h : isNull a = false) : notNullAt attrs f = true := by
  simp [notNullAt, hl, h]

-- ------------------------------------------------------------------------------------------------------
-- C08 with oneof groups, step 1: decode

mutual

/-- one field block of the first CopyFrom: it assigns the Go field `wkey f` (the field itself, or the holder of the
group – only when the branch attribute is known and non-null) or, for a null / unknown branch, nothing; no diagnostic;
in every struct that holds the assigned value (resp. in which the branch is not active) the field is described by `Ech2` -/
theorem decField2 (X : String → TfVal → Prop) (ov : List (String × String)) : ∀ (f : Field)
    (attrs : Option (List (String × TfVal))) (st : FromSt) (a : TfVal) (ty : TfTy),
    (attrs.getD []).lookup f.info.nameSnake = some a → PlanOK2 X f a ty → f.info.isPlaceholder = false → IsStruct st.obj →
    (∃ x, copyFromField ov f attrs st = .ok { st with obj := st.obj.setField (wkey f.info) x } ∧
      (f.info.oneOfName ≠ "" → isNull a = false ∧ ∃ y, x = wrapOf f.info y) ∧
      (∀ o, o.field? (wkey f.info) = some x → Ech2 X f a ty o)) ∨
    (f.info.oneOfName ≠ "" ∧ copyFromField ov f attrs st = .ok st ∧
      (∀ o, activePayload f.info o = none → Ech2 X f a ty o))
  | ⟨info, mv, msg, sub⟩, attrs, st, a, ty, hl, hp, hph, hs => by
    simp only at hl hph
    unfold PlanOK2 at hp
    simp only [copyFromField]
    have hrecD : ∀ (as : Option (List (String × TfVal))) (tys : List (String × TfTy)), PlanOKs2 X sub (as.getD []) tys →
        ∃ fs, (fun as s => copyFromFields ov sub as { s with obj := resetOneOfs ((msg.map (·.oneOfNames)).getD []) s.obj })
            as { st with obj := .struct [] } = .ok { obj := .struct fs, diags := st.diags, hooks := st.hooks } ∧
          Ech2s X sub (as.getD []) tys (.struct fs) := by
      intro as tys hP
      obtain ⟨o', hrun', hso', _, _, hE'⟩ := decFields2 X ov sub as
        { obj := resetOneOfs ((msg.map (·.oneOfNames)).getD []) (.struct []), diags := st.diags, hooks := st.hooks } tys hP
        (isStruct_resetOneOfs _ _ trivial)
        (fun g _ _ => activePayload_init g.info _ (initNone_reset _ _ (.struct []) trivial (initNone_empty _)))
      cases o' with
      | struct fs => exact ⟨fs, hrun', hE'⟩
      | sc _ => cases hso'
      | ptr _ => cases hso'
      | slice _ => cases hso'
      | map _ => cases hso'
      | iface _ => cases hso'
    rcases hp with hp | ⟨he, _, hk, hem, hvt, hsub, hcase⟩ | ⟨ho, he, _, hk, hn, k, u, n, p, rfl, rfl, hvt, hir, hleaf⟩
    · -- a field of the plain tree
      have ho : info.oneOfName = "" := by unfold PlanOK at hp; exact hp.1
      have he : info.parentIsOptionalEmbed = false := by unfold PlanOK at hp; exact hp.2.1
      obtain ⟨x, hrun, htyped, hdec⟩ := decField X ov ⟨info, mv, msg, sub⟩ attrs st a ty hl hp hph
      simp only [copyFromField] at hrun
      left
      refine ⟨x, ?_, fun h => absurd ho h, ?_⟩
      · rw [wkey_plain info ho]; exact hrun
      · intro o hox
        rw [wkey_plain info ho] at hox
        have hgx : getVal info o = x := by rw [getVal_plain info o ho he, hox]; rfl
        obtain ⟨hT, hR⟩ := htyped o hgx
        unfold Ech2
        exact Or.inl ⟨hp, hT, hR, by rw [hgx]; exact hdec⟩
    · rcases hcase with ⟨ho, as, tys, rfl, rfl, hP, hkeys⟩ | ⟨ho, hn, u, n, as, tys, rfl, rfl, hkn, hunk⟩
      · -- a known nested message with groups below
        obtain ⟨fs, hrun', hE'⟩ := hrecD as tys hP
        left
        refine ⟨if info.isNullable then .ptr (some (.struct fs)) else .struct fs, ?_, fun h => absurd ho h, ?_⟩
        · rw [wkey_plain info ho]
          exact fromFieldWith_obj_run _ ov info mv msg attrs st false false as (some tys) (.struct fs) hk ho he hvt hem rfl hl hrun'
        · intro o hox
          rw [wkey_plain info ho] at hox
          have hgx : getVal info o = (if info.isNullable then GoVal.ptr (some (.struct fs)) else .struct fs) := by
            rw [getVal_plain info o ho he, hox]; rfl
          unfold Ech2
          exact Or.inr (Or.inl ⟨he, hph, hk, hem, hvt, hsub, Or.inl ⟨ho, as, tys, fs, rfl, rfl, hgx, hE', hkeys⟩⟩)
      · -- a message branch
        by_cases hknown : known u n = true
        · obtain ⟨hP, hkeys⟩ := hkn hknown
          obtain ⟨fs, hrun', hE'⟩ := hrecD as tys hP
          left
          refine ⟨wrapOf info (.ptr (some (.struct fs))), ?_, ?_, ?_⟩
          · rw [wkey_branch info ho]
            exact fromFieldWith_objBranch_known _ ov info mv msg attrs st u n as (some tys) (.struct fs) hk ho he hvt hem hknown hl hrun'
          · intro _
            refine ⟨?_, _, rfl⟩
            cases u <;> cases n <;> simp [known, isNull] at hknown ⊢
          · intro o hox
            rw [wkey_branch info ho] at hox
            unfold Ech2
            refine Or.inr (Or.inl ⟨he, hph, hk, hem, hvt, hsub, Or.inr ⟨ho, hn, u, n, as, tys, rfl, rfl, ?_, ?_⟩⟩)
            · intro _
              exact ⟨fs, hox, hE', hkeys⟩
            · intro h; rw [hknown] at h; cases h
        · have hknown' : known u n = false := by simpa using hknown
          right
          refine ⟨ho, fromFieldWith_objBranch_unknown _ ov info mv msg attrs st u n as (some tys) hk ho he hvt hknown' hl, ?_⟩
          intro o hap
          unfold Ech2
          refine Or.inr (Or.inl ⟨he, hph, hk, hem, hvt, hsub, Or.inr ⟨ho, hn, u, n, as, tys, rfl, rfl, ?_, ?_⟩⟩)
          · intro h; rw [hknown'] at h; cases h
          · intro _
            exact ⟨hunk hknown', hap⟩
    · -- a scalar branch
      obtain ⟨y, hd, _, _⟩ := primDecode_typed info k hir u n p hleaf.castable
      have hrun := fromFieldWith_primBranch_run
        (fun as s => copyFromFields ov sub as { s with obj := resetOneOfs ((msg.map (·.oneOfNames)).getD []) s.obj })
        ov info mv msg attrs st k u n p y hk ho he hvt hl hd
      by_cases hknown : known u n = true
      · left
        refine ⟨wrapOf info y, ?_, ?_, ?_⟩
        · rw [wkey_branch info ho, hrun]; simp [hknown]
        · intro _
          refine ⟨?_, _, rfl⟩
          cases u <;> cases n <;> simp [known, isNull] at hknown ⊢
        · intro o hox
          rw [wkey_branch info ho] at hox
          unfold Ech2
          refine Or.inr (Or.inr ⟨ho, he, hph, hk, hn, k, u, n, p, rfl, rfl, hvt, hir, hleaf, y, hd, ?_⟩)
          rw [hknown]
          exact hox
      · have hknown' : known u n = false := by simpa using hknown
        right
        refine ⟨ho, by rw [hrun]; simp [hknown'], ?_⟩
        intro o hap
        unfold Ech2
        refine Or.inr (Or.inr ⟨ho, he, hph, hk, hn, k, u, n, p, rfl, rfl, hvt, hir, hleaf, y, hd, ?_⟩)
        rw [hknown']
        exact hap

/-- **decode with oneof groups, a whole message**: on a plan satisfying `PlanOKs2` the field blocks succeed and append
no diagnostic; Go fields no block can assign are untouched; the holder of a group is what it was or the wrapper of a
branch whose attribute is not null; the struct is described by `Ech2s`. -/
theorem decFields2 (X : String → TfVal → Prop) (ov : List (String × String)) : ∀ (fs : List Field)
    (attrs : Option (List (String × TfVal))) (st : FromSt) (atys : List (String × TfTy)),
    PlanOKs2 X fs (attrs.getD []) atys → IsStruct st.obj →
    (∀ f ∈ fs, f.info.oneOfName ≠ "" → activePayload f.info st.obj = none) →
    ∃ o, copyFromFields ov fs attrs st = .ok { st with obj := o } ∧ IsStruct o ∧
      (∀ key, (∀ f ∈ fs, wkey f.info ≠ key) → o.field? key = st.obj.field? key) ∧
      (∀ g, (∀ f ∈ fs, f.info.oneOfName = "" → f.info.name ≠ g) →
        o.field? g = st.obj.field? g ∨
        ∃ d ∈ fs, d.info.oneOfName = g ∧ notNullAt (attrs.getD []) d = true ∧ ∃ y, o.field? g = some (wrapOf d.info y)) ∧
      Ech2s X fs (attrs.getD []) atys o
  | [], _, st, _, _, hs, _ => ⟨st.obj, by simp [copyFromFields], hs, by simp, fun _ _ => Or.inl rfl, trivial⟩
  | f :: rest, attrs, st, atys, hP, hs, hpre => by
    unfold PlanOKs2 at hP
    obtain ⟨⟨a, ty, hla, hlt, hpf⟩, hnS, hsep, hexcl, hrest⟩ := hP
    by_cases hph : f.info.isPlaceholder = true
    · -- the placeholder of a message without fields is skipped
      obtain ⟨o, hrun2, hso, hframe, hhold, hE⟩ := decFields2 X ov rest attrs st atys hrest hs
        (fun g hg => hpre g (by simp [hg]))
      obtain ⟨info, mv, msg, sub⟩ := f
      simp only at hph hla hlt hnS
      unfold PlanOK2 at hpf
      rcases hpf with hp | ⟨_, h, _⟩ | ⟨_, _, h, _⟩
      · have hp0 := hp
        unfold PlanOK at hp
        obtain ⟨ho, he, hphk, hEm, hp⟩ := hp
        have hk := hphk hph
        simp only [hk] at hp
        obtain ⟨k, u, n, p, rfl, rfl, hvk, _⟩ := hp
        refine ⟨o, ?_, hso, ?_, ?_, ?_⟩
        · simp only [copyFromFields, hph, if_true]
          exact hrun2
        · intro key hkey
          exact hframe key (fun g hg => hkey g (by simp [hg]))
        · intro g hg
          rcases hhold g (fun f' hf' => hg f' (by simp [hf'])) with h | ⟨d, hd, h⟩
          · exact Or.inl h
          · exact Or.inr ⟨d, by simp [hd], h⟩
        · unfold Ech2s
          refine ⟨⟨_, _, hla, hlt, ?_⟩, hnS, hsep, hexcl, hE⟩
          unfold Ech2
          refine Or.inl ⟨hp0, ?_, ?_, ?_⟩
          · unfold ToOK
            simp only [hk]
            exact ⟨⟨k, hvk, rfl⟩, Or.inl hph⟩
          · unfold RTOK
            simp only [hk]
            exact ⟨ho, he, hEm, fun _ => trivial, Or.inl hph⟩
          · unfold DecRel
            simp only [hk]
            exact Or.inl hph
      · rw [hph] at h; cases h
      · rw [hph] at h; cases h
    · have hph' : f.info.isPlaceholder = false := by simpa using hph
      have hplainNames : ∀ f' ∈ rest, f'.info.oneOfName = "" → f.info.oneOfName ≠ "" → f'.info.name ≠ f.info.oneOfName := by
        intro f' hf' hp' hb e
        have := sep_plain_right f.info f'.info (hsep f' hf') hp'
        rw [wkey_plain _ hp', wkey_branch _ hb] at this
        exact this e
      rcases decField2 X ov f attrs st a ty hla hpf hph' hs with ⟨x, hrun, hbr, hEf⟩ | ⟨ho, hrun, hEf⟩
      · -- the block assigns `wkey f`
        have hpre1 : ∀ g ∈ rest, g.info.oneOfName ≠ "" →
            activePayload g.info (st.obj.setField (wkey f.info) x) = none := by
          intro g hg hgo
          by_cases e : wkey f.info = g.info.oneOfName
          · have hsg := hsep g hg (by rw [e, wkey_branch _ hgo])
            obtain ⟨_, y, rfl⟩ := hbr hsg.1
            refine activePayload_wrap_other g.info f.info _ y ?_ (fun e' => hsg.2.2 e'.symm)
            rw [← e]
            exact field?_setField_same _ _ _ hs
          · rw [activePayload_congr g.info _ st.obj (field?_setField_other _ _ _ _ (fun e' => e e'.symm))]
            exact hpre g (by simp [hg]) hgo
        obtain ⟨o, hrun2, hso, hframe, hhold, hE⟩ := decFields2 X ov rest attrs
          { st with obj := st.obj.setField (wkey f.info) x } atys hrest (isStruct_setField _ _ _ hs) hpre1
        have hfinal : o.field? (wkey f.info) = some x := by
          by_cases ho : f.info.oneOfName = ""
          · rw [hframe (wkey f.info) (fun g hg => sep_plain_left f.info g.info (hsep g hg) ho)]
            exact field?_setField_same _ _ _ hs
          · rcases hhold (wkey f.info) (fun f' hf' hp' => by rw [wkey_branch _ ho]; exact hplainNames f' hf' hp' ho) with
              h | ⟨d, hd, hdg, hdn, _⟩
            · rw [h]; exact field?_setField_same _ _ _ hs
            · exfalso
              rw [wkey_branch _ ho] at hdg
              have hfn := notNullAt_of (attrs.getD []) f a hla (hbr ho).1
              rcases hexcl d hd ho hdg with h | h
              · rw [hfn] at h; cases h
              · rw [hdn] at h; cases h
        refine ⟨o, ?_, hso, ?_, ?_, ?_⟩
        · simp only [copyFromFields, hph', Bool.false_eq_true, if_false, hrun]
          exact hrun2
        · intro key hkey
          rw [hframe key (fun g hg => hkey g (by simp [hg]))]
          exact field?_setField_other _ _ _ _ (fun e => hkey f (by simp) e.symm)
        · intro g hg
          rcases hhold g (fun f' hf' => hg f' (by simp [hf'])) with h | ⟨d, hd, h⟩
          · by_cases e : wkey f.info = g
            · by_cases ho : f.info.oneOfName = ""
              · exact absurd (by rw [← e, wkey_plain _ ho]) (hg f (by simp) ho)
              · obtain ⟨hnn, y, rfl⟩ := hbr ho
                right
                refine ⟨f, by simp, by rw [← e, wkey_branch _ ho], notNullAt_of _ f a hla hnn, y, ?_⟩
                rw [h, ← e]
                exact field?_setField_same _ _ _ hs
            · left
              rw [h]
              exact field?_setField_other _ _ _ _ (fun e' => e e'.symm)
          · exact Or.inr ⟨d, by simp [hd], h⟩
        · unfold Ech2s
          exact ⟨⟨a, ty, hla, hlt, hEf o hfinal⟩, hnS, hsep, hexcl, hE⟩
      · -- a null / unknown branch: nothing happens
        obtain ⟨o, hrun2, hso, hframe, hhold, hE⟩ := decFields2 X ov rest attrs st atys hrest hs
          (fun g hg => hpre g (by simp [hg]))
        have hap : activePayload f.info o = none := by
          rcases hhold f.info.oneOfName (fun f' hf' hp' => hplainNames f' hf' hp' ho) with h | ⟨d, hd, hdg, _, y, hy⟩
          · rw [activePayload_congr f.info o st.obj h]
            exact hpre f (by simp) ho
          · exact activePayload_wrap_other f.info d.info o y hy (sep_branch f.info d.info (hsep d hd) ho hdg)
        refine ⟨o, ?_, hso, ?_, ?_, ?_⟩
        · simp only [copyFromFields, hph', Bool.false_eq_true, if_false, hrun]
          exact hrun2
        · intro key hkey
          exact hframe key (fun g hg => hkey g (by simp [hg]))
        · intro g hg
          rcases hhold g (fun f' hf' => hg f' (by simp [hf'])) with h | ⟨d, hd, h⟩
          · exact Or.inl h
          · exact Or.inr ⟨d, by simp [hd], h⟩
        · unfold Ech2s
          exact ⟨⟨a, ty, hla, hlt, hEf o hap⟩, hnS, hsep, hexcl, hE⟩

end

-- ------------------------------------------------------------------------------------------------------
-- what the judgement says about the fields of one message

/-- separation and exclusivity of the fields of one message (the list-level clauses of `PlanOKs2` / `Ech2s`) -/
def GroupsL (A : List (String × TfVal)) : List Field → Prop
  | [] => True
  | f :: rest =>
    (∀ g ∈ rest, SepOK f.info g.info) ∧
    (∀ g ∈ rest, f.info.oneOfName ≠ "" → g.info.oneOfName = f.info.oneOfName →
        notNullAt A f = false ∨ notNullAt A g = false) ∧
    GroupsL A rest

theorem ech2s_groups (X : String → TfVal → Prop) (A : List (String × TfVal)) (atys : List (String × TfTy)) (o : GoVal) :
    ∀ (fs : List Field), Ech2s X fs A atys o → GroupsL A fs
  | [], _ => trivial
  | f :: rest, h => by
    unfold Ech2s at h
    exact ⟨h.2.2.1, h.2.2.2.1, ech2s_groups X A atys o rest h.2.2.2.2⟩

theorem ech2s_mem (X : String → TfVal → Prop) (A : List (String × TfVal)) (atys : List (String × TfTy)) (o : GoVal) :
    ∀ (fs : List Field), Ech2s X fs A atys o → ∀ f ∈ fs, ∃ a ty, A.lookup f.info.nameSnake = some a ∧
      atys.lookup f.info.nameSnake = some ty ∧ Ech2 X f a ty o
  | [], _, f, hf => by simp at hf
  | x :: rest, h, f, hf => by
    unfold Ech2s at h
    rcases List.mem_cons.1 hf with rfl | hf
    · exact h.1
    · exact ech2s_mem X A atys o rest h.2.2.2.2 f hf

theorem ech2s_nodupSnake (X : String → TfVal → Prop) (A : List (String × TfVal)) (atys : List (String × TfTy)) (o : GoVal) :
    ∀ (fs : List Field), Ech2s X fs A atys o → (fs.map (·.info.nameSnake)).Nodup
  | [], _ => by simp
  | f :: rest, h => by
    unfold Ech2s at h
    simp only [List.map_cons, List.nodup_cons]
    exact ⟨h.2.1, ech2s_nodupSnake X A atys o rest h.2.2.2.2⟩

/-- two members of one group are the same field, or have different wrapper types and are not both not-null -/
theorem groups_mem (A : List (String × TfVal)) : ∀ (fs : List Field), GroupsL A fs → ∀ f ∈ fs, ∀ f0 ∈ fs,
    f.info.oneOfName ≠ "" → f0.info.oneOfName = f.info.oneOfName →
    f = f0 ∨ (lastSegment f.info.oneOfType ≠ lastSegment f0.info.oneOfType ∧
      (notNullAt A f = false ∨ notNullAt A f0 = false))
  | [], _, f, hf, _, _, _, _ => by simp at hf
  | x :: rest, hok, f, hf, f0, hf0, hne, hsame => by
    unfold GroupsL at hok
    obtain ⟨hsep, hexcl, hrest⟩ := hok
    simp only [List.mem_cons] at hf hf0
    have hne0 : f0.info.oneOfName ≠ "" := by rw [hsame]; exact hne
    rcases hf with rfl | hf <;> rcases hf0 with rfl | hf0
    · exact Or.inl rfl
    · exact Or.inr ⟨sep_branch _ _ (hsep f0 hf0) hne hsame, hexcl f0 hf0 hne hsame⟩
    · right
      refine ⟨fun e => sep_branch _ _ (hsep f hf) hne0 hsame.symm e.symm, ?_⟩
      rcases hexcl f hf hne0 hsame.symm with h | h
      · exact Or.inr h
      · exact Or.inl h
    · exact groups_mem A rest hrest f hf f0 hf0 hne hsame

/-- no plain field is named like the holder of a group that has a branch in the list -/
theorem groups_no_plain_named (A : List (String × TfVal)) : ∀ (fs : List Field), GroupsL A fs → ∀ f ∈ fs,
    f.info.oneOfName ≠ "" → ∀ f' ∈ fs, f'.info.oneOfName = "" → f'.info.name ≠ f.info.oneOfName
  | [], _, f, hf, _, _, _, _ => by simp at hf
  | x :: rest, hok, f, hf, hne, f', hf', hp => by
    unfold GroupsL at hok
    obtain ⟨hsep, _, hrest⟩ := hok
    simp only [List.mem_cons] at hf hf'
    rcases hf with rfl | hf <;> rcases hf' with rfl | hf'
    · exact absurd hp hne
    · intro e
      have := sep_plain_right f.info f'.info (hsep f' hf') hp
      rw [wkey_plain _ hp, wkey_branch _ hne] at this
      exact this e
    · intro e
      have := sep_plain_left f'.info f.info (hsep f hf) hp
      rw [wkey_plain _ hp, wkey_branch _ hne] at this
      exact this e.symm
    · exact groups_no_plain_named A rest hrest f hf hne f' hf' hp

/-- the shape of a branch: a scalar held by value, or a message held by pointer -/
def BranchShape (f : Field) : Prop :=
  (f.info.kind = .primitive ∧ f.info.isNullable = false) ∨ (f.info.kind = .object ∧ f.info.isNullable = true)

theorem ech2_facts (X : String → TfVal → Prop) (f : Field) (a : TfVal) (ty : TfTy) (o : GoVal) (h : Ech2 X f a ty o) :
    f.info.parentIsOptionalEmbed = false ∧
    (f.info.oneOfName = "" → (f.info.isPlaceholder = true → f.info.kind = .primitive)) ∧
    (f.info.oneOfName ≠ "" → f.info.isPlaceholder = false ∧ BranchShape f ∧
      ∃ x, BrState f.info o x ∧ (isNull a = true → x = none)) := by
  obtain ⟨info, mv, msg, sub⟩ := f
  unfold Ech2 at h
  rcases h with ⟨hp, _⟩ | ⟨he, hph, hk, _, _, _, hcase⟩ | ⟨ho, he, hph, hk, hn, k, u, n, p, rfl, _, _, _, _, x, _, hst⟩
  · unfold PlanOK at hp
    exact ⟨hp.2.1, fun _ => hp.2.2.1, fun h => absurd hp.1 h⟩
  · refine ⟨he, fun _ h => (by rw [hph] at h; cases h), ?_⟩
    intro ho
    rcases hcase with ⟨ho', _⟩ | ⟨_, hn, u, n, as, tys, rfl, _, hkn, hunk⟩
    · exact absurd ho' ho
    · refine ⟨hph, Or.inr ⟨hk, hn⟩, ?_⟩
      by_cases hknown : known u n = true
      · obtain ⟨fs, hst, _⟩ := hkn hknown
        refine ⟨_, hst, ?_⟩
        intro hnull
        cases u <;> cases n <;> simp [known, isNull] at hknown hnull
      · exact ⟨none, (hunk (by simpa using hknown)).2, fun _ => rfl⟩
  · refine ⟨he, fun h => absurd h ho, fun _ => ⟨hph, Or.inl ⟨hk, hn⟩, _, hst, ?_⟩⟩
    intro hnull
    have : n = true := by simpa [isNull] using hnull
    subst this
    simp [known]

-- ------------------------------------------------------------------------------------------------------
-- the comparison of C04 on a branch, from the states of the two holders

theorem nfEq_branch_none (f : Field) (a b : GoVal) (ho : f.info.oneOfName ≠ "") (hsh : BranchShape f)
    (ha : activePayload f.info a = none) (hb : activePayload f.info b = none) : nfEqField f a b = true := by
  have hob : (f.info.oneOfName != "") = true := by simpa using ho
  obtain ⟨info, mv, msg, sub⟩ := f
  simp only at hob ha hb
  unfold nfEqField
  rcases hsh with ⟨hk, _⟩ | ⟨hk, _⟩ <;> simp only at hk <;> simp [hob, hk, ha, hb, Option.filter]

/-- a branch that reads zero in `a` (inactive, or active with a zero payload) and is not active in `b` -/
theorem nfEq_branch_idle (f : Field) (a b : GoVal) (ho : f.info.oneOfName ≠ "") (he : f.info.parentIsOptionalEmbed = false)
    (hsh : BranchShape f) (x : Option GoVal) (hst : BrState f.info a x) (hidle : BranchIdle f a)
    (hb : activePayload f.info b = none) : nfEqField f a b = true := by
  cases x with
  | none => exact nfEq_branch_none f a b ho hsh hst hb
  | some p =>
    obtain ⟨hg, hap⟩ := brState_some f.info a p ho he hst
    have hob : (f.info.oneOfName != "") = true := by simpa using ho
    unfold BranchIdle at hidle
    obtain ⟨info, mv, msg, sub⟩ := f
    simp only at hob hap hb hg hidle
    unfold nfEqField
    rcases hsh with ⟨hk, _⟩ | ⟨hk, _⟩ <;> simp only at hk
    · simp only [hk] at hidle
      obtain ⟨s, hs, hz⟩ := hidle
      rw [hg] at hs
      subst hs
      simp [hob, hk, hap, hb, Option.filter, primIsZero, hz]
    · simp only [hk] at hidle
      rw [hg] at hidle
      subst hidle
      simp [hob, hk, hap, hb, Option.filter, isNilPtr]

/-- what the second decode put into the holder for branch `f`, compared with what the branch reads in the first struct -/
def PayNf (f : Field) (x y : GoVal) : Prop :=
  match f with
  | ⟨info, _, _, sub⟩ =>
    match info.kind with
    | .primitive => ∃ s, x = .sc s ∧ primNfEq false (.sc s) y = true
    | .object => ∃ fs o', x = .ptr (some (.struct fs)) ∧ y = .ptr (some o') ∧ nfEqFields sub (.struct fs) o' = true
    | _ => False

theorem scIsZero_zeroGoOf (info : FieldInfo) (s : Sc) (hk : info.kind = .primitive) (hn : info.isNullable = false)
    (h : zeroGoOf info = .sc s) : scIsZero s = true := by
  simp only [zeroGoOf, hk, hn, Bool.false_eq_true, if_false] at h
  injection h with h
  subst h
  exact scIsZero_zeroOfRep _

/-- the branch whose wrapper the second holder carries -/
theorem nfEq_branch_set (f : Field) (a b : GoVal) (ho : f.info.oneOfName ≠ "") (he : f.info.parentIsOptionalEmbed = false)
    (hsh : BranchShape f) (x : Option GoVal) (hst : BrState f.info a x) (y : GoVal)
    (hb : b.field? f.info.oneOfName = some (wrapOf f.info y)) (hp : PayNf f (getVal f.info a) y) :
    nfEqField f a b = true := by
  have hob : (f.info.oneOfName != "") = true := by simpa using ho
  have hapb : activePayload f.info b = some y := by
    rw [activePayload_field f.info b _ _ _ hb]; simp
  have hga : getVal f.info a = (activePayload f.info a).getD (zeroGoOf f.info) := by
    cases x with
    | none => rw [brState_none f.info a ho he hst]; simp only [BrState] at hst; rw [hst]; rfl
    | some p => obtain ⟨h1, h2⟩ := brState_some f.info a p ho he hst; rw [h1, h2]; rfl
  obtain ⟨info, mv, msg, sub⟩ := f
  simp only at hob hapb hga hp
  unfold PayNf at hp
  unfold nfEqField
  rcases hsh with ⟨hk, hn⟩ | ⟨hk, hn⟩ <;> simp only at hk hn
  · simp only [hk] at hp
    obtain ⟨s, hs, hnf⟩ := hp
    cases y with
    | sc t =>
      simp only [primNfEq, Bool.false_eq_true, if_false] at hnf
      have hzt := scNfEq_isZero s t hnf
      cases hapa : activePayload info a with
      | none =>
        rw [hapa] at hga
        simp only [Option.getD] at hga
        rw [hga] at hs
        have hz := scIsZero_zeroGoOf info s hk hn hs
        rw [hz] at hzt
        simp [hob, hk, hapb, Option.filter, primIsZero, ← hzt]
      | some p =>
        rw [hapa] at hga
        simp only [Option.getD] at hga
        rw [hga] at hs
        subst hs
        cases hz : scIsZero s with
        | true =>
          rw [hz] at hzt
          simp [hob, hk, hapb, Option.filter, primIsZero, hz, ← hzt]
        | false =>
          rw [hz] at hzt
          simp [hob, hk, hapb, Option.filter, primIsZero, hz, ← hzt, primNfEq, hn, hnf]
    | ptr _ => simp [primNfEq] at hnf
    | struct _ => simp [primNfEq] at hnf
    | slice _ => simp [primNfEq] at hnf
    | map _ => simp [primNfEq] at hnf
    | iface _ => simp [primNfEq] at hnf
  · simp only [hk] at hp
    obtain ⟨fs, o', hs, rfl, hnf⟩ := hp
    cases hapa : activePayload info a with
    | none =>
      rw [hapa] at hga
      simp only [Option.getD, zeroGoOf, hk, hn, if_true] at hga
      rw [hga] at hs
      cases hs
    | some p =>
      rw [hapa] at hga
      simp only [Option.getD] at hga
      rw [hga] at hs
      subst hs
      simp [hob, hk, hapb, Option.filter, isNilPtr, structOf, hnf]

-- ------------------------------------------------------------------------------------------------------
-- the second decode of a whole message from the second decodes of its fields

/-- the block of branch `f` in the second CopyFrom, on the echoed value `v` (`a`: the planned value, `o`: the first
struct): either the block does nothing and the branch reads zero in `o`, or – only if the planned value was not null –
it puts the branch's wrapper into the holder, with a payload equal in normal form to what the branch reads in `o` -/
def SecondBr (ov : List (String × String)) (f : Field) (o : GoVal) (a v : TfVal) : Prop :=
  ∀ (attrs2 : Option (List (String × TfVal))) (st2 : FromSt), (attrs2.getD []).lookup f.info.nameSnake = some v →
    (copyFromField ov f attrs2 st2 = .ok st2 ∧ BranchIdle f o) ∨
    (isNull a = false ∧ ∃ y, copyFromField ov f attrs2 st2 =
        .ok { st2 with obj := st2.obj.setField f.info.oneOfName (wrapOf f.info y) } ∧ PayNf f (getVal f.info o) y)

def Second2 (ov : List (String × String)) (f : Field) (o : GoVal) (a v : TfVal) : Prop :=
  (f.info.oneOfName = "" ∧ (f.info.isPlaceholder = true ∨ SecondDec ov f (getVal f.info o) v)) ∨
  (f.info.oneOfName ≠ "" ∧ SecondBr ov f o a v)

/-- the holder of group `g` after the second decode: the wrapper of a branch whose planned value was not null, with a
payload equal in normal form to what that branch reads in the first struct `o`; or untouched, and every branch of the
group reads zero in `o` -/
def G2 (A : List (String × TfVal)) (o : GoVal) (g : String) (fs : List Field) (o0 o2 : GoVal) : Prop :=
  (∃ f0 ∈ fs, f0.info.oneOfName = g ∧ notNullAt A f0 = true ∧
      ∃ y, o2.field? g = some (wrapOf f0.info y) ∧ PayNf f0 (getVal f0.info o) y) ∨
  (o2.field? g = o0.field? g ∧ ∀ f ∈ fs, f.info.oneOfName = g → BranchIdle f o)

theorem second_fields2 (ov : List (String × String)) (o : GoVal) (A A' : List (String × TfVal)) :
    ∀ (fs : List Field) (st2 : FromSt), IsStruct st2.obj → GroupsL A fs →
    (∀ f ∈ fs, f.info.parentIsOptionalEmbed = false ∧
      (f.info.oneOfName = "" → f.info.isPlaceholder = true → f.info.kind = .primitive) ∧
      (f.info.oneOfName ≠ "" → f.info.isPlaceholder = false)) →
    (∀ f ∈ fs, ∃ a v, A.lookup f.info.nameSnake = some a ∧ A'.lookup f.info.nameSnake = some v ∧ Second2 ov f o a v) →
    ∃ o2, copyFromFields ov fs (some A') st2 = .ok { st2 with obj := o2 } ∧ IsStruct o2 ∧
      (∀ f ∈ fs, f.info.oneOfName = "" → valNfEq f (getVal f.info o) (getVal f.info o2) = true) ∧
      (∀ g, g ≠ "" → (∀ f ∈ fs, f.info.oneOfName = "" → f.info.name ≠ g) → G2 A o g fs st2.obj o2) ∧
      (∀ key, (∀ f ∈ fs, wkey f.info ≠ key) → o2.field? key = st2.obj.field? key)
  | [], st2, hs, _, _, _ =>
    ⟨st2.obj, by simp [copyFromFields], hs, by simp, fun g _ _ => Or.inr ⟨rfl, by simp⟩, by simp⟩
  | f :: rest, st2, hs, hG, hfacts, hall => by
    unfold GroupsL at hG
    obtain ⟨hsep, _, hGrest⟩ := hG
    obtain ⟨he, hphk, hbph⟩ := hfacts f (by simp)
    obtain ⟨a, v, hla, hlv, h2⟩ := hall f (by simp)
    have hfactsR : ∀ g ∈ rest, g.info.parentIsOptionalEmbed = false ∧
        (g.info.oneOfName = "" → g.info.isPlaceholder = true → g.info.kind = .primitive) ∧
        (g.info.oneOfName ≠ "" → g.info.isPlaceholder = false) := fun g hg => hfacts g (by simp [hg])
    have hallR : ∀ g ∈ rest, ∃ a v, A.lookup g.info.nameSnake = some a ∧ A'.lookup g.info.nameSnake = some v ∧
        Second2 ov g o a v := fun g hg => hall g (by simp [hg])
    -- transfer of the holder description from the rest to the whole list when the head does not touch the holder
    have keep : ∀ (g : String) (o0' o2 : GoVal), o0'.field? g = st2.obj.field? g →
        (f.info.oneOfName = g → BranchIdle f o) → G2 A o g rest o0' o2 → G2 A o g (f :: rest) st2.obj o2 := by
      intro g o0' o2 h0 hfi hg2
      rcases hg2 with ⟨f0, hf0, h⟩ | ⟨hun, hidle⟩
      · exact Or.inl ⟨f0, by simp [hf0], h⟩
      · refine Or.inr ⟨hun.trans h0, ?_⟩
        intro f' hf' hg'
        simp only [List.mem_cons] at hf'
        rcases hf' with rfl | hf'
        · exact hfi hg'
        · exact hidle f' hf' hg'
    rcases h2 with ⟨ho, hsd⟩ | ⟨ho, hsb⟩
    · by_cases hph : f.info.isPlaceholder = true
      · obtain ⟨o2, hrun2, hso, hval, hg2, hframe⟩ := second_fields2 ov o A A' rest st2 hs hGrest hfactsR hallR
        refine ⟨o2, ?_, hso, ?_, ?_, ?_⟩
        · simp only [copyFromFields, hph, if_true]
          exact hrun2
        · intro g hg hgo
          simp only [List.mem_cons] at hg
          rcases hg with rfl | hg
          · obtain ⟨info, mv, msg, sub⟩ := g
            simp only at hph hphk ho
            unfold valNfEq
            simp [hphk ho hph, hph]
          · exact hval g hg hgo
        · intro g hg hnp
          exact keep g st2.obj o2 rfl (fun e => absurd (ho.symm.trans e).symm hg)
            (hg2 g hg (fun f' hf' => hnp f' (by simp [hf'])))
        · intro key hkey
          exact hframe key (fun g hg => hkey g (by simp [hg]))
      · have hph' : f.info.isPlaceholder = false := by simpa using hph
        rcases hsd with hsd | hsd
        · exact absurd hsd hph
        obtain ⟨y, hrun, hv⟩ := hsd (some A') st2 hlv
        obtain ⟨o2, hrun2, hso, hval, hg2, hframe⟩ := second_fields2 ov o A A' rest
          { st2 with obj := st2.obj.setField f.info.name y } (isStruct_setField _ _ _ hs) hGrest hfactsR hallR
        refine ⟨o2, ?_, hso, ?_, ?_, ?_⟩
        · simp only [copyFromFields, hph', Bool.false_eq_true, if_false, hrun]
          exact hrun2
        · intro g hg hgo
          simp only [List.mem_cons] at hg
          rcases hg with rfl | hg
          · rw [getVal_plain g.info o2 ho he, hframe g.info.name (fun g' hg' => by
              have := sep_plain_left g.info g'.info (hsep g' hg') ho
              rw [wkey_plain _ ho] at this
              exact this), field?_setField_same _ _ _ hs]
            exact hv
          · exact hval g hg hgo
        · intro g hg hnp
          exact keep g _ o2 (field?_setField_other _ _ _ _ (fun e => hnp f (by simp) ho e.symm))
            (fun e => absurd (ho.symm.trans e).symm hg) (hg2 g hg (fun f' hf' => hnp f' (by simp [hf'])))
        · intro key hkey
          rw [hframe key (fun g hg => hkey g (by simp [hg]))]
          have := hkey f (by simp)
          rw [wkey_plain _ ho] at this
          exact field?_setField_other _ _ _ _ (fun e => this e.symm)
    · have hph' : f.info.isPlaceholder = false := hbph ho
      rcases hsb (some A') st2 hlv with ⟨hrun, hidle⟩ | ⟨hnn, y, hrun, hpay⟩
      · obtain ⟨o2, hrun2, hso, hval, hg2, hframe⟩ := second_fields2 ov o A A' rest st2 hs hGrest hfactsR hallR
        refine ⟨o2, ?_, hso, ?_, ?_, ?_⟩
        · simp only [copyFromFields, hph', Bool.false_eq_true, if_false, hrun]
          exact hrun2
        · intro g hg hgo
          simp only [List.mem_cons] at hg
          rcases hg with rfl | hg
          · exact absurd hgo ho
          · exact hval g hg hgo
        · intro g hg hnp
          exact keep g st2.obj o2 rfl (fun _ => hidle) (hg2 g hg (fun f' hf' => hnp f' (by simp [hf'])))
        · intro key hkey
          exact hframe key (fun g hg => hkey g (by simp [hg]))
      · obtain ⟨o2, hrun2, hso, hval, hg2, hframe⟩ := second_fields2 ov o A A' rest
          { st2 with obj := st2.obj.setField f.info.oneOfName (wrapOf f.info y) } (isStruct_setField _ _ _ hs)
          hGrest hfactsR hallR
        refine ⟨o2, ?_, hso, ?_, ?_, ?_⟩
        · simp only [copyFromFields, hph', Bool.false_eq_true, if_false, hrun]
          exact hrun2
        · intro g hg hgo
          simp only [List.mem_cons] at hg
          rcases hg with rfl | hg
          · exact absurd hgo ho
          · exact hval g hg hgo
        · intro g hg hnp
          have hrest' := hg2 g hg (fun f' hf' => hnp f' (by simp [hf']))
          by_cases e : f.info.oneOfName = g
          · rcases hrest' with ⟨f0, hf0, h⟩ | ⟨hun, _⟩
            · exact Or.inl ⟨f0, by simp [hf0], h⟩
            · refine Or.inl ⟨f, by simp, e, notNullAt_of A f a hla hnn, y, ?_, hpay⟩
              rw [hun, ← e]
              exact field?_setField_same _ _ _ hs
          · exact keep g _ o2 (field?_setField_other _ _ _ _ (fun e' => e e'.symm)) (fun e' => absurd e' e) hrest'
        · intro key hkey
          rw [hframe key (fun g hg => hkey g (by simp [hg]))]
          have := hkey f (by simp)
          rw [wkey_branch _ ho] at this
          exact field?_setField_other _ _ _ _ (fun e => this e.symm)

/-- **the second decode of a whole message with oneof groups**: it succeeds without a diagnostic and gives the first
struct back in normal form -/
theorem secondAll (X : String → TfVal → Prop) (ov : List (String × String)) (fs : List Field) (A : List (String × TfVal))
    (atys : List (String × TfTy)) (o : GoVal) (A' : List (String × TfVal)) (hE : Ech2s X fs A atys o)
    (hall : ∀ f ∈ fs, ∃ a v, A.lookup f.info.nameSnake = some a ∧ A'.lookup f.info.nameSnake = some v ∧ Second2 ov f o a v)
    (st2 : FromSt) (hs : IsStruct st2.obj) (hinit : ∀ g, InitNone st2.obj g) :
    ∃ o2, copyFromFields ov fs (some A') st2 = .ok { st2 with obj := o2 } ∧ IsStruct o2 ∧ nfEqFields fs o o2 = true := by
  have hG := ech2s_groups X A atys o fs hE
  have hfacts : ∀ f ∈ fs, f.info.parentIsOptionalEmbed = false ∧
      (f.info.oneOfName = "" → f.info.isPlaceholder = true → f.info.kind = .primitive) ∧
      (f.info.oneOfName ≠ "" → f.info.isPlaceholder = false) := by
    intro f hf
    obtain ⟨a, ty, _, _, hEf⟩ := ech2s_mem X A atys o fs hE f hf
    obtain ⟨h1, h2, h3⟩ := ech2_facts X f a ty o hEf
    exact ⟨h1, h2, fun h => (h3 h).1⟩
  obtain ⟨o2, hrun, hso, hval, hg2, _⟩ := second_fields2 ov o A A' fs st2 hs hG hfacts hall
  refine ⟨o2, hrun, hso, ?_⟩
  apply nfEqFields_of_forall
  intro f hf
  by_cases ho : f.info.oneOfName = ""
  · rw [nfEqField_eq_valNfEq f o o2 ho]
    exact hval f hf ho
  · obtain ⟨a, ty, hla, _, hEf⟩ := ech2s_mem X A atys o fs hE f hf
    obtain ⟨he, _, hbr⟩ := ech2_facts X f a ty o hEf
    obtain ⟨_, hsh, x, hst, hnullx⟩ := hbr ho
    rcases hg2 f.info.oneOfName ho (fun f' hf' hp' => groups_no_plain_named A fs hG f hf ho f' hf' hp') with
      ⟨f0, hf0, hg0, hnn0, y, hy, hpay⟩ | ⟨hun, hidle⟩
    · rcases groups_mem A fs hG f hf f0 hf0 ho hg0 with rfl | ⟨hne, hex⟩
      · exact nfEq_branch_set f o o2 ho he hsh x hst y hy hpay
      · have hfn : notNullAt A f = false := by
          rcases hex with h | h
          · exact h
          · rw [hnn0] at h; cases h
        have hnull : isNull a = true := by
          simp only [notNullAt, hla] at hfn
          simpa using hfn
        have hx := hnullx hnull
        subst hx
        exact nfEq_branch_none f o o2 ho hsh hst (activePayload_wrap_other f.info f0.info o2 y hy hne)
    · refine nfEq_branch_idle f o o2 ho he hsh x hst (hidle f hf rfl) ?_
      rw [activePayload_congr f.info o2 st2.obj hun]
      exact activePayload_init f.info _ (hinit _)

-- ------------------------------------------------------------------------------------------------------
-- the field blocks of CopyTo on a branch (and on any field that is not a child of an embedded message), as equations

theorem copyToField_prim_run2 (info : FieldInfo) (mv : Option FieldInfo) (msg : Option MsgInfo) (sub : List Field) (obj : GoVal)
    (atys : List (String × TfTy)) (st : ToSt) (k : PrimK) (v : TfVal)
    (hk : info.kind = .primitive) (he : info.parentIsOptionalEmbed = false)
    (hty : atys.lookup info.nameSnake = some (.prim k))
    (hpb : primBody info (oneOfShadow info obj) (st.attrs.lookup info.nameSnake) (some (.prim k)) (.ok (getVal info obj)) =
      .ok (v, [])) :
    copyToField ⟨info, mv, msg, sub⟩ obj (some atys) st =
      .ok { attrs := setKey info.nameSnake v st.attrs, diags := st.diags, hooks := st.hooks } := by
  unfold copyToField copyToFieldWith
  simp only [Option.getD, hty, hk]
  rw [readField_getVal info obj (reachable_plain info obj he) (Or.inl he), hpb]
  simp [ToSt.set]

theorem copyToField_obj_run2 (info : FieldInfo) (mv : Option FieldInfo) (msg : Option MsgInfo) (sub : List Field) (obj : GoVal)
    (atys : List (String × TfTy)) (st : ToSt) (tys : List (String × TfTy)) (v : TfVal) (ds : List Diag) (hs : List HookCall)
    (hk : info.kind = .object) (he : info.parentIsOptionalEmbed = false)
    (hty : atys.lookup info.nameSnake = some (.obj (some tys)))
    (hob : objBody (fun o a s => copyToFields sub o a s) info msg sub.isEmpty (st.attrs.lookup info.nameSnake) (some tys)
        (.ok (getVal info obj)) st.diags st.hooks = .ok (v, ds, hs)) :
    copyToField ⟨info, mv, msg, sub⟩ obj (some atys) st =
      .ok { attrs := setKey info.nameSnake v st.attrs, diags := ds, hooks := hs } := by
  unfold copyToField copyToFieldWith
  simp only [Option.getD, hty, hk]
  rw [readField_getVal info obj (reachable_plain info obj he) (Or.inl he), hob]

-- ------------------------------------------------------------------------------------------------------
-- C08 with oneof groups, steps 2 and 3: the echo of every field

/-- what the echo of one attribute satisfies (`a`: planned value, `v`: echoed value, `o`: the first struct): nothing
unknown at any depth, every known planned value kept, a branch attribute comes back not null only if it was not null in
the plan (so a null branch attribute comes back null), and the behaviour of the second decode on `v` -/
def EchoV2 (ov : List (String × String)) (skN skE : List String) (f : Field) (o : GoVal) (a v : TfVal) : Prop :=
  noUnknownDeep skN v = true ∧ echoKeeps skE a v = true ∧
  (f.info.oneOfName ≠ "" → isNull v = false → isNull a = false) ∧ Second2 ov f o a v

theorem echo_attrs2 (X : String → TfVal → Prop) (ov : List (String × String)) (skN skE : List String)
    (hX : ExtraOK X skN skE) (fs : List Field) (o : GoVal)
    (A A' : List (String × TfVal)) (hkeys : KeysOK X fs A) (hk' : A'.map (·.1) = A.map (·.1))
    (hframe : ∀ key, key ∉ fs.map (·.info.nameSnake) → A'.lookup key = A.lookup key)
    (hall : ∀ f ∈ fs, ∃ a v, A.lookup f.info.nameSnake = some a ∧ A'.lookup f.info.nameSnake = some v ∧
        EchoV2 ov skN skE f o a v) :
    noUnknownAs skN A' = true ∧ echoKeepsAs skE A A' = true := by
  have hndk : (A'.map (·.1)).Nodup := by rw [hk']; exact hkeys.1
  refine ⟨?_, ?_⟩
  · apply noUnknownAs_of_forall'
    intro kv hkv
    have hl' := lookup_of_mem_nodup A' kv.1 kv.2 hndk hkv
    by_cases hin : kv.1 ∈ fs.map (·.info.nameSnake)
    · obtain ⟨g, hg, hgn⟩ := List.mem_map.mp hin
      obtain ⟨a', v', _, hlv, hev⟩ := hall g hg
      rw [← hgn, hlv] at hl'
      injection hl' with hl'
      subst hl'
      exact Or.inr hev.1
    · rw [hframe kv.1 hin] at hl'
      have hmem := mem_of_lookup _ _ _ hl'
      rcases hkeys.2 (kv.1, kv.2) hmem with h | h
      · exact absurd h hin
      · exact (hX _ _ h).1
  · apply echoKeepsAs_of_forall'
    intro kv hkv
    have hl := lookup_of_mem_nodup A kv.1 kv.2 hkeys.1 hkv
    by_cases hin : kv.1 ∈ fs.map (·.info.nameSnake)
    · obtain ⟨g, hg, hgn⟩ := List.mem_map.mp hin
      obtain ⟨a', v', hla, hlv, hev⟩ := hall g hg
      rw [← hgn] at hl
      rw [hla] at hl
      injection hl with hl
      subst hl
      exact Or.inr ⟨v', by rw [← hgn]; exact hlv, hev.2.1⟩
    · rcases hkeys.2 kv hkv with hin' | hx
      · exact absurd hin' hin
      · rcases (hX _ _ hx).2 with hc | hr
        · exact Or.inl hc
        · exact Or.inr ⟨kv.2, by rw [hframe kv.1 hin]; exact hl, hr⟩

theorem zeroGoOf_prim (info : FieldInfo) (hk : info.kind = .primitive) : zeroGoOf info = zeroPrim info := by
  simp [zeroGoOf, hk, zeroPrim]

mutual

theorem echoField2 (X : String → TfVal → Prop) (ov : List (String × String)) (skN skE : List String)
    (hX : ExtraOK X skN skE) : ∀ (f : Field) (o : GoVal)
    (atys : List (String × TfTy)) (st : ToSt) (a : TfVal) (ty : TfTy),
    atys.lookup f.info.nameSnake = some ty → st.attrs.lookup f.info.nameSnake = some a → Ech2 X f a ty o →
    ∃ v hs, copyToField f o (some atys) st =
        .ok { attrs := setKey f.info.nameSnake v st.attrs, diags := st.diags, hooks := st.hooks ++ hs } ∧
      EchoV2 ov skN skE f o a v
  | ⟨info, mv, msg, sub⟩, o, atys, st, a, ty, hty, hcur, hE => by
    simp only at hty hcur
    unfold Ech2 at hE
    unfold EchoV2 Second2
    -- the recursive call on a known nested message / message branch held as `x`
    have hnested : ∀ (as : Option (List (String × TfVal))) (tys : List (String × TfTy)) (fs : List (String × GoVal)) (x : GoVal),
        isEmptyMsg msg = false → Ech2s X sub (as.getD []) tys (.struct fs) → KeysOK X sub (as.getD []) →
        ((info.isNullable = true ∧ x = .ptr (some (.struct fs))) ∨ (info.isNullable = false ∧ x = .struct fs)) →
        ∃ attrs' hs', objBody (fun o a s => copyToFields sub o a s) info msg false (some (.obj false false as (some tys)))
            (some tys) (.ok x) st.diags st.hooks = .ok (.obj false false (some attrs') (some tys), st.diags, st.hooks ++ hs') ∧
          noUnknownDeep skN (.obj false false (some attrs') (some tys)) = true ∧
          echoKeeps skE (.obj false false as (some tys)) (.obj false false (some attrs') (some tys)) = true ∧
          ∀ (ds : List Diag) (hks : List HookCall), ∃ o2,
            copyFromFields ov sub (some attrs')
              { obj := resetOneOfs ((msg.map (·.oneOfNames)).getD []) (.struct []), diags := ds, hooks := hks } =
              .ok { obj := o2, diags := ds, hooks := hks } ∧ IsStruct o2 ∧ nfEqFields sub (.struct fs) o2 = true := by
      intro as tys fs x hem hEs hkeys hxx
      obtain ⟨st', hrun, hd', ⟨hs', hh⟩, hkeys', hframe', hall⟩ := echoFields2 X ov skN skE hX sub (.struct fs) tys (as.getD [])
        { attrs := as.getD [], diags := st.diags, hooks := st.hooks } hEs (fun _ _ => rfl)
      have hrec : (fun o a s => copyToFields sub o a s) (.struct fs) (some tys)
          { attrs := as.getD [], diags := st.diags, hooks := st.hooks } =
          .ok { attrs := st'.attrs, diags := st.diags, hooks := st.hooks ++ hs' } := by
        show copyToFields sub _ _ _ = _
        rw [hrun]
        cases st'
        simp_all
      have hemv : isEmptyMsg msg = true → fs = [] := fun h => by rw [hem] at h; cases h
      have hob := objBody_echo (fun o a s => copyToFields sub o a s) info msg (some tys) false false as tys x fs
        st.diags st.hooks st'.attrs (st.hooks ++ hs') hemv hxx hrec
      obtain ⟨hknA, hkeepA⟩ := echo_attrs2 X ov skN skE hX sub (.struct fs) (as.getD []) st'.attrs hkeys hkeys' hframe' hall
      refine ⟨st'.attrs, hs', hob, ?_, ?_, ?_⟩
      · simp only [noUnknownDeep, Bool.not_false, Bool.true_and]
        exact hknA
      · cases as with
        | none => simp [echoKeeps]
        | some l =>
          simp only [echoKeeps, Bool.false_eq_true, if_false, beq_self_eq_true, Bool.true_and, Bool.false_or, Option.getD_some]
          exact hkeepA
      · intro ds hks
        obtain ⟨o2, hrun2, hso2, hnf⟩ := secondAll X ov sub (as.getD []) tys (.struct fs) st'.attrs hEs
          (fun g hg => by
            obtain ⟨a', v', hla', hlv', hev'⟩ := hall g hg
            exact ⟨a', v', hla', hlv', hev'.2.2.2⟩)
          { obj := resetOneOfs ((msg.map (·.oneOfNames)).getD []) (.struct []), diags := ds, hooks := hks }
          (isStruct_resetOneOfs _ _ trivial)
          (fun g => initNone_reset _ g (.struct []) trivial (initNone_empty g))
        exact ⟨o2, hrun2, hso2, hnf⟩
    rcases hE with ⟨hp, hT, hR, hD⟩ | ⟨he, hph, hk, hem, hvt, hsub, hcase⟩ |
      ⟨ho, he, hph, hk, hn, k, u, n, p, rfl, rfl, hvt, hir, hleaf, x, hd, hst⟩
    · -- a field of the plain tree
      have ho : info.oneOfName = "" := by unfold PlanOK at hp; exact hp.1
      obtain ⟨v, hs, hrun, hev⟩ := echoField X ov skN skE hX ⟨info, mv, msg, sub⟩ o atys st a ty hty hcur hp hT hR hD
      exact ⟨v, hs, hrun, hev.1, hev.2.1, fun h => absurd ho h, Or.inl ⟨ho, hev.2.2⟩⟩
    · have hse : sub.isEmpty = false := by cases sub <;> simp_all
      rcases hcase with ⟨ho, as, tys, fs, rfl, rfl, hgx, hEs, hkeys⟩ | ⟨ho, hn, u, n, as, tys, rfl, rfl, hkn, hunk⟩
      · -- a known nested message with groups below
        have hxx : (info.isNullable = true ∧ getVal info o = .ptr (some (.struct fs))) ∨
            (info.isNullable = false ∧ getVal info o = .struct fs) := by
          cases hn : info.isNullable <;> simp [hn] at hgx ⊢ <;> exact hgx
        obtain ⟨attrs', hs', hob, hkn', hkeep, hsec⟩ := hnested as tys fs (getVal info o) hem hEs hkeys hxx
        refine ⟨.obj false false (some attrs') (some tys), hs', ?_, hkn', hkeep, fun h => absurd ho h, Or.inl ⟨ho, Or.inr ?_⟩⟩
        · apply copyToField_obj_run2 info mv msg sub o atys st tys _ _ _ hk he hty
          rw [hcur, hse]
          exact hob
        · intro attrs2 st2 hl2
          obtain ⟨o2, hrun2, hso2, hnf⟩ := hsec st2.diags st2.hooks
          refine ⟨if info.isNullable then .ptr (some o2) else o2, ?_, ?_⟩
          · simp only [copyFromField]
            exact fromFieldWith_obj_run _ ov info mv msg attrs2 st2 false false (some attrs') (some tys) o2 hk ho he hvt hem
              rfl hl2 hrun2
          · unfold valNfEq
            simp only [hk]
            rw [hgx]
            unfold msgNfEq
            cases hn : info.isNullable
            · simp only [Bool.false_eq_true, if_false, structOf_of_isStruct o2 hso2]
              simp only [structOf]
              exact hnf
            · simp [isNilPtr, structOf, hnf]
      · -- a message branch
        by_cases hknown : known u n = true
        · have hun : u = false ∧ n = false := by cases u <;> cases n <;> simp [known] at hknown ⊢
          obtain ⟨rfl, rfl⟩ := hun
          obtain ⟨fs, hst, hEs, hkeys⟩ := hkn hknown
          have hgx := (brState_some info o _ ho he hst).1
          obtain ⟨attrs', hs', hob, hkn', hkeep, hsec⟩ := hnested as tys fs (getVal info o) hem hEs hkeys (Or.inl ⟨hn, hgx⟩)
          refine ⟨.obj false false (some attrs') (some tys), hs', ?_, hkn', hkeep, fun _ _ => rfl, Or.inr ⟨ho, ?_⟩⟩
          · apply copyToField_obj_run2 info mv msg sub o atys st tys _ _ _ hk he hty
            rw [hcur, hse]
            exact hob
          · intro attrs2 st2 hl2
            obtain ⟨o2, hrun2, hso2, hnf⟩ := hsec st2.diags st2.hooks
            right
            refine ⟨rfl, .ptr (some o2), ?_, ?_⟩
            · simp only [copyFromField]
              exact fromFieldWith_objBranch_known _ ov info mv msg attrs2 st2 false false (some attrs') (some tys) o2 hk ho he
                hvt hem rfl hl2 hrun2
            · unfold PayNf
              simp only [hk]
              exact ⟨fs, o2, hgx, rfl, hnf⟩
        · have hknown' : known u n = false := by simpa using hknown
          obtain ⟨has, hst⟩ := hunk hknown'
          have hgx : getVal info o = .ptr none := by
            rw [brState_none info o ho he hst]; simp [zeroGoOf, hk, hn]
          have hnu : u = false → n = true := by
            intro hu; subst hu; cases n <;> simp [known] at hknown' ⊢
          refine ⟨.obj false true (some (as.getD [])) (some tys), [], ?_, ?_, ?_, fun _ h => by simp [isNull] at h, Or.inr ⟨ho, ?_⟩⟩
          · have hob := objBody_echo_nil (fun o a s => copyToFields sub o a s) info msg (some tys) u n as tys st.diags st.hooks hn
            rw [copyToField_obj_run2 info mv msg sub o atys st tys _ _ _ hk he hty (by rw [hcur, hse, hgx]; exact hob)]
            simp
          · simp [noUnknownDeep, has, noUnknownAs]
          · cases u with
            | true => cases as <;> simp [echoKeeps]
            | false =>
              have := hnu rfl
              subst this
              cases as <;> simp [echoKeeps]
          · intro attrs2 st2 hl2
            left
            refine ⟨?_, ?_⟩
            · simp only [copyFromField]
              exact fromFieldWith_objBranch_unknown _ ov info mv msg attrs2 st2 false true (some (as.getD [])) (some tys) hk ho he
                hvt rfl hl2
            · unfold BranchIdle
              simp only [hk]
              exact hgx
    · -- a scalar branch
      obtain ⟨x', hd', _, hpv⟩ := primDecode_typed info k hir u n p hleaf.castable
      rw [hd] at hd'
      injection hd' with hd'
      subst hd'
      unfold PrimVal at hpv
      simp only [hn, Bool.false_eq_true, if_false] at hpv
      obtain ⟨s, rfl, hrep⟩ := hpv
      have hzero : known u n = false → s = zeroOfRep info.rep := by
        intro hkf
        simp only [primDecode, hkf, Bool.false_eq_true, if_false, zeroPrim, hn] at hd
        injection hd with hd
        injection hd with hd
        exact hd.symm
      have hgx : getVal info o = .sc s := by
        by_cases hknown : known u n = true
        · rw [hknown] at hst
          exact (brState_some info o _ ho he hst).1
        · have hknown' : known u n = false := by simpa using hknown
          rw [hknown'] at hst
          rw [brState_none info o ho he hst, zeroGoOf_prim info hk, hzero hknown']
          simp [zeroPrim, hn]
      obtain ⟨n2, p2, hpb, ⟨y, hd2, hnf⟩, hex⟩ :=
        primEcho info k hir (oneOfShadow info o) u n p (.sc s) (some (.prim k)) hph he hleaf.castable hd
      obtain ⟨c, hc, _⟩ := hir.cast hn s hrep
      have heq : primBody info (oneOfShadow info o) (some (.prim k u n p)) (some (.prim k)) (.ok (.sc s)) =
          .ok (.prim k false n c, []) := by
        rw [primBody_inplace info k (oneOfShadow info o) u n p _ _ hir.rt.ek]
        simp [assignPrim, hph, he, hn, hc]
      have hn2 : n2 = n := by
        rw [heq] at hpb
        injection hpb with hpb
        injection hpb with hpb
        injection hpb with _ _ h3 _
        exact h3.symm
      subst hn2
      refine ⟨.prim k false n2 p2, [], ?_, by simp [noUnknownDeep], ?_, fun _ h => h, Or.inr ⟨ho, ?_⟩⟩
      · rw [copyToField_prim_run2 info mv msg sub o atys st k _ hk he hty (by rw [hcur, hgx]; exact hpb)]
        simp
      · cases u with
        | true => simp [echoKeeps]
        | false =>
          obtain ⟨_, rfl⟩ := hex hleaf rfl
          simp [echoKeeps, TfVal.beq]
      · intro attrs2 st2 hl2
        have hrun := fromFieldWith_primBranch_run
          (fun as s => copyFromFields ov sub as { s with obj := resetOneOfs ((msg.map (·.oneOfNames)).getD []) s.obj })
          ov info mv msg attrs2 st2 k false n2 p2 y hk ho he hvt hl2 hd2
        cases n2 with
        | true =>
          left
          refine ⟨?_, ?_⟩
          · simp only [copyFromField]
            rw [hrun]
            simp [known]
          · have hkf : known u true = false := by simp [known]
            unfold BranchIdle
            simp only [hk]
            exact ⟨s, hgx, by rw [hzero hkf]; exact scIsZero_zeroOfRep _⟩
        | false =>
          right
          refine ⟨by simp [isNull], y, ?_, ?_⟩
          · simp only [copyFromField]
            rw [hrun]
            simp [known]
          · unfold PayNf
            simp only [hk]
            rw [hn] at hnf
            exact ⟨s, hgx, hnf⟩

theorem echoFields2 (X : String → TfVal → Prop) (ov : List (String × String)) (skN skE : List String)
    (hX : ExtraOK X skN skE) : ∀ (fs : List Field) (o : GoVal)
    (atys : List (String × TfTy)) (A : List (String × TfVal)) (st : ToSt),
    Ech2s X fs A atys o → (∀ f ∈ fs, st.attrs.lookup f.info.nameSnake = A.lookup f.info.nameSnake) →
    ∃ st', copyToFields fs o (some atys) st = .ok st' ∧ st'.diags = st.diags ∧ (∃ hs, st'.hooks = st.hooks ++ hs) ∧
      st'.attrs.map (·.1) = st.attrs.map (·.1) ∧
      (∀ key, key ∉ fs.map (·.info.nameSnake) → st'.attrs.lookup key = st.attrs.lookup key) ∧
      (∀ f ∈ fs, ∃ a v, A.lookup f.info.nameSnake = some a ∧ st'.attrs.lookup f.info.nameSnake = some v ∧
          EchoV2 ov skN skE f o a v)
  | [], _, _, _, st, _, _ => ⟨st, by simp [copyToFields], rfl, ⟨[], by simp⟩, rfl, by simp, by simp⟩
  | f :: rest, o, atys, A, st, hE, hinv => by
    unfold Ech2s at hE
    obtain ⟨⟨a, ty, hla, hlt, hEf⟩, hnS, _, _, hErest⟩ := hE
    have hcur : st.attrs.lookup f.info.nameSnake = some a := by rw [hinv f (by simp)]; exact hla
    obtain ⟨v, hs1, hstep, hev⟩ := echoField2 X ov skN skE hX f o atys st a ty hlt hcur hEf
    have hne : ∀ g ∈ rest, g.info.nameSnake ≠ f.info.nameSnake := by
      intro g hg e
      exact hnS (by rw [← e]; exact List.mem_map_of_mem hg)
    obtain ⟨st', hrun, hd, ⟨hs2, hh⟩, hkeys, hframe, hall⟩ := echoFields2 X ov skN skE hX rest o atys A
      { attrs := setKey f.info.nameSnake v st.attrs, diags := st.diags, hooks := st.hooks ++ hs1 } hErest
      (fun g hg => by
        show (setKey f.info.nameSnake v st.attrs).lookup g.info.nameSnake = _
        rw [lookup_setKey_other _ _ _ (hne g hg)]
        exact hinv g (by simp [hg]))
    refine ⟨st', ?_, hd, ⟨hs1 ++ hs2, by simp [hh]⟩, ?_, ?_, ?_⟩
    · simp only [copyToFields, hstep]
      exact hrun
    · rw [hkeys]
      exact keys_setKey_mem _ _ _ (by simp [hcur])
    · intro key hkey
      simp only [List.map_cons, List.mem_cons, not_or] at hkey
      rw [hframe key hkey.2]
      exact lookup_setKey_other _ _ _ hkey.1 _
    · intro g hg
      simp only [List.mem_cons] at hg
      rcases hg with rfl | hg
      · refine ⟨a, v, hla, ?_, hev⟩
        rw [hframe _ hnS]
        exact lookup_setKey_same _ _ _
      · exact hall g hg

end

-- ------------------------------------------------------------------------------------------------------
-- the decoded struct is typed for CopyTo

theorem scalarBranch_getVal (info : FieldInfo) (k : PrimK) (u n : Bool) (p : Sc) (x o : GoVal) (hk : info.kind = .primitive)
    (ho : info.oneOfName ≠ "") (he : info.parentIsOptionalEmbed = false) (hd : primDecode info k u n p = .ok x)
    (hst : BrState info o (if known u n then some x else none)) : getVal info o = x := by
  by_cases hknown : known u n = true
  · rw [hknown] at hst
    exact (brState_some info o _ ho he hst).1
  · have hkf : known u n = false := by simpa using hknown
    rw [hkf] at hst
    simp only [primDecode, hkf, Bool.false_eq_true, if_false] at hd
    injection hd with hd
    rw [brState_none info o ho he hst, zeroGoOf_prim info hk, hd]

mutual
theorem ech2_toOK (X : String → TfVal → Prop) : ∀ (f : Field) (a : TfVal) (ty : TfTy) (o : GoVal), Ech2 X f a ty o → ToOK f o ty
  | ⟨info, mv, msg, sub⟩, a, ty, o, h => by
    unfold Ech2 at h
    rcases h with ⟨_, hT, _, _⟩ | ⟨he, hph, hk, hem, hvt, hsub, hcase⟩ |
      ⟨ho, he, hph, hk, hn, k, u, n, p, rfl, rfl, hvt, hir, hleaf, x, hd, hst⟩
    · exact hT
    · unfold ToOK
      simp only [hk]
      have hE : isEmptyMsg msg = true → ∀ fs, getVal info o = .ptr (some (.struct fs)) ∨ getVal info o = .struct fs → fs = [] :=
        fun h => by rw [hem] at h; cases h
      rcases hcase with ⟨ho, as, tys, fs, rfl, rfl, hgx, hEs, _⟩ | ⟨ho, hn, u, n, as, tys, rfl, rfl, hkn, hunk⟩
      · refine ⟨reachable_plain info o he, tys, rfl, hsub, hE, ?_⟩
        rw [hgx]
        unfold MsgTyped
        cases hn : info.isNullable
        · simp only [Bool.false_eq_true, if_false]
          exact ⟨fs, rfl, ech2s_toOKs X sub _ tys _ hEs⟩
        · simp only [if_true]
          exact Or.inr ⟨fs, rfl, ech2s_toOKs X sub _ tys _ hEs⟩
      · refine ⟨reachable_plain info o he, tys, rfl, hsub, hE, ?_⟩
        unfold MsgTyped
        simp only [hn, if_true]
        by_cases hknown : known u n = true
        · obtain ⟨fs, hst, hEs, _⟩ := hkn hknown
          rw [(brState_some info o _ ho he hst).1]
          exact Or.inr ⟨fs, rfl, ech2s_toOKs X sub _ tys _ hEs⟩
        · obtain ⟨_, hst⟩ := hunk (by simpa using hknown)
          rw [brState_none info o ho he hst]
          left
          simp [zeroGoOf, hk, hn]
    · unfold ToOK
      simp only [hk]
      refine ⟨⟨k, hir.rt.ek, rfl⟩, Or.inr (Or.inr ⟨reachable_plain info o he, ?_⟩)⟩
      rw [scalarBranch_getVal info k u n p x o hk ho he hd hst]
      obtain ⟨y, hd', hty, _⟩ := primDecode_typed info k hir u n p hleaf.castable
      rw [hd] at hd'
      injection hd' with hd'
      subst hd'
      exact hty

theorem ech2s_toOKs (X : String → TfVal → Prop) : ∀ (fs : List Field) (A : List (String × TfVal)) (atys : List (String × TfTy))
    (o : GoVal), Ech2s X fs A atys o → ToOKs fs o atys
  | [], _, _, _, _ => trivial
  | f :: rest, A, atys, o, h => by
    unfold Ech2s at h
    obtain ⟨⟨a, ty, _, hlt, hEf⟩, hnS, _, _, hrest⟩ := h
    unfold ToOKs
    exact ⟨⟨ty, hlt, ech2_toOK X f a ty o hEf⟩, hnS, ech2s_toOKs X rest A atys o hrest⟩
end

theorem holderWF_of_brState (info : FieldInfo) (o : GoVal) (x : Option GoVal) (h : BrState info o x) : HolderWF info o := by
  intro w fn p hf hw
  cases x with
  | some q =>
    simp only [BrState, wrapOf] at h
    rw [h] at hf
    injection hf with hf
    injection hf with hf
    injection hf with hf
    injection hf with _ hf
    injection hf with hf _
    exact hf.symm
  | none =>
    simp only [BrState] at h
    rw [activePayload_field info o w fn p hf] at h
    subst hw
    simp at h

/-- a branch in the decoded struct: its attribute is known and non-null and the holder carries its wrapper, or its
attribute is null / unknown and the branch is not the active one -/
theorem ech2_branch (X : String → TfVal → Prop) (f : Field) (a : TfVal) (ty : TfTy) (o : GoVal) (h : Ech2 X f a ty o)
    (ho : f.info.oneOfName ≠ "") :
    (a.isKnown = true ∧ ∃ p, BrState f.info o (some p)) ∨ (a.isKnown = false ∧ BrState f.info o none) := by
  obtain ⟨info, mv, msg, sub⟩ := f
  unfold Ech2 at h
  rcases h with ⟨hp, _⟩ | ⟨_, _, _, _, _, _, hcase⟩ | ⟨_, _, _, _, _, k, u, n, p, rfl, _, _, _, _, x, _, hst⟩
  · unfold PlanOK at hp
    exact absurd hp.1 ho
  · rcases hcase with ⟨ho', _⟩ | ⟨_, _, u, n, as, tys, rfl, _, hkn, hunk⟩
    · exact absurd ho' ho
    · by_cases hknown : known u n = true
      · obtain ⟨fs, hst, _⟩ := hkn hknown
        exact Or.inl ⟨hknown, _, hst⟩
      · have hkf : known u n = false := by simpa using hknown
        exact Or.inr ⟨hkf, (hunk hkf).2⟩
  · by_cases hknown : known u n = true
    · rw [hknown] at hst
      exact Or.inl ⟨hknown, _, hst⟩
    · have hkf : known u n = false := by simpa using hknown
      rw [hkf] at hst
      exact Or.inr ⟨hkf, hst⟩

-- ------------------------------------------------------------------------------------------------------
-- C08 with oneof groups: the four statements

/-- **Step 1, decode.** CopyFrom of a plan that satisfies `PlanOKs2` into a fresh struct succeeds without a diagnostic;
the struct is typed for CopyTo (`ToOKs`; holders well formed, `HolderWF`) and described by `Ech2s`; per group the holder
carries the wrapper of the one known non-null branch – every branch with a known non-null attribute is the active one
and reads its decoded payload, every other branch is inactive and reads zero – or, when no branch attribute of the group
is known and non-null, the holder is nil. -/
theorem C08_decode_oneof (X : String → TfVal → Prop) (ov : List (String × String)) (fs : List Field) (names : List String)
    (attrs : Option (List (String × TfVal))) (atys : List (String × TfTy)) (h : PlanOKs2 X fs (attrs.getD []) atys) :
    ∃ st', copyFromFields ov fs attrs { obj := resetOneOfs names (.struct []) } = .ok st' ∧ st'.diags = [] ∧
      IsStruct st'.obj ∧ Ech2s X fs (attrs.getD []) atys st'.obj ∧ ToOKs fs st'.obj atys ∧
      (∀ f ∈ fs, f.info.oneOfName ≠ "" → HolderWF f.info st'.obj ∧
        ∃ a, (attrs.getD []).lookup f.info.nameSnake = some a ∧
          ((a.isKnown = true ∧ ∃ p, st'.obj.field? f.info.oneOfName = some (wrapOf f.info p) ∧ getVal f.info st'.obj = p) ∨
           (a.isKnown = false ∧ activePayload f.info st'.obj = none ∧ getVal f.info st'.obj = zeroGoOf f.info))) ∧
      (∀ f ∈ fs, f.info.oneOfName ≠ "" →
        (∀ g ∈ fs, g.info.oneOfName = f.info.oneOfName → ∀ a, (attrs.getD []).lookup g.info.nameSnake = some a →
          a.isKnown = false) →
        InitNone st'.obj f.info.oneOfName) := by
  obtain ⟨o, hrun, hso, _, hhold, hE⟩ := decFields2 X ov fs attrs { obj := resetOneOfs names (.struct []) } atys h
    (isStruct_resetOneOfs _ _ trivial)
    (fun g _ _ => activePayload_init g.info _ (initNone_reset _ _ (.struct []) trivial (initNone_empty _)))
  have hG := ech2s_groups X _ atys o fs hE
  refine ⟨_, hrun, rfl, hso, hE, ech2s_toOKs X fs _ atys o hE, ?_, ?_⟩
  · intro f hf ho
    obtain ⟨a, ty, hla, _, hEf⟩ := ech2s_mem X _ atys o fs hE f hf
    have he := (ech2_facts X f a ty o hEf).1
    rcases ech2_branch X f a ty o hEf ho with ⟨hk, p, hst⟩ | ⟨hk, hst⟩
    · exact ⟨holderWF_of_brState _ _ _ hst, a, hla, Or.inl ⟨hk, p, hst, (brState_some f.info o p ho he hst).1⟩⟩
    · exact ⟨holderWF_of_brState _ _ _ hst, a, hla, Or.inr ⟨hk, hst, brState_none f.info o ho he hst⟩⟩
  · intro f hf ho hnone
    rcases hhold f.info.oneOfName (fun f' hf' hp' => groups_no_plain_named _ fs hG f hf ho f' hf' hp') with
      h | ⟨d, hd, hdg, _, y, hy⟩
    · show InitNone o _
      unfold InitNone
      rw [h]
      exact initNone_reset _ _ (.struct []) trivial (initNone_empty _)
    · exfalso
      obtain ⟨a, ty, hla, _, hEd⟩ := ech2s_mem X _ atys o fs hE d hd
      have hdo : d.info.oneOfName ≠ "" := by rw [hdg]; exact ho
      rcases ech2_branch X d a ty o hEd hdo with ⟨hk, _⟩ | ⟨_, hst⟩
      · rw [hnone d hd hdg a hla] at hk
        cases hk
      · simp only [BrState] at hst
        rw [← hdg] at hy
        rw [activePayload_field d.info o _ _ _ hy] at hst
        simp at hst

theorem noUnknownDeep_isUnknown (sk : List String) (v : TfVal) (h : noUnknownDeep sk v = true) : isUnknown v = false := by
  cases v with
  | prim k u n p => simpa [noUnknownDeep, isUnknown] using h
  | list u n es t => cases es <;> simp_all [noUnknownDeep, isUnknown]
  | map u n es t => cases es <;> simp_all [noUnknownDeep, isUnknown]
  | obj u n as t => cases as <;> simp_all [noUnknownDeep, isUnknown]
  | nilv => simp [noUnknownDeep] at h
  | foreign _ => simp [noUnknownDeep] at h

/-- **Step 2, the in-place CopyTo into the plan.** It succeeds without a diagnostic, keeps the attribute names, touches
only the attributes of the generated fields, leaves nothing unknown at any depth and keeps every known planned value
(`echoKeeps`: the known non-null branch attribute keeps its value); **every branch attribute that is null in the plan
(known or unknown) comes back null and known**. (A scalar branch attribute that is unknown with `Null = false` comes
back known and *not* null, with the zero payload – the `Null` flag of an existing scalar is kept.) -/
theorem C08_copyTo_oneof (X : String → TfVal → Prop) (ov : List (String × String)) (skN skE : List String)
    (hX : ExtraOK X skN skE) (fs : List Field) (o : GoVal) (atys : List (String × TfTy)) (A : List (String × TfVal))
    (hE : Ech2s X fs A atys o) :
    ∃ st', copyToFields fs o (some atys) { attrs := A } = .ok st' ∧ st'.diags = [] ∧
      st'.attrs.map (·.1) = A.map (·.1) ∧
      (∀ key, key ∉ fs.map (·.info.nameSnake) → st'.attrs.lookup key = A.lookup key) ∧
      ∀ f ∈ fs, ∃ a v, A.lookup f.info.nameSnake = some a ∧ st'.attrs.lookup f.info.nameSnake = some v ∧
        noUnknownDeep skN v = true ∧ echoKeeps skE a v = true ∧
        (f.info.oneOfName ≠ "" → isUnknown v = false ∧ (isNull a = true → isNull v = true)) := by
  obtain ⟨st', hrun, hd, _, hk', hframe', hall⟩ := echoFields2 X ov skN skE hX fs o atys A { attrs := A } hE (fun _ _ => rfl)
  refine ⟨st', hrun, by simpa using hd, hk', hframe', ?_⟩
  intro f hf
  obtain ⟨a, v, hla, hlv, hev⟩ := hall f hf
  refine ⟨a, v, hla, hlv, hev.1, hev.2.1, fun ho => ⟨noUnknownDeep_isUnknown skN v hev.1, ?_⟩⟩
  intro hna
  cases hnv : isNull v with
  | true => rfl
  | false =>
    rw [hev.2.2.1 ho hnv] at hna
    cases hna

/-- the judgement for a whole plan object of message `m` -/
def PlanObj2 (X : String → TfVal → Prop) (m : Msg) (plan : TfVal) : Prop :=
  ∃ u n as atys, plan = .obj u n as (some atys) ∧ (u = false → n = false) ∧
    PlanOKs2 X m.fields (as.getD []) atys ∧ KeysOK X m.fields (as.getD [])

/-- **C08, apply echo, with oneof groups** (same conclusion as `C08_echo`): for a plan object satisfying `PlanObj2` – the
plain tree plus scalar and message branches of oneof groups, of each group at most one branch attribute not null –
* `CopyFrom(plan)` into a fresh struct succeeds without diagnostics (`s1`),
* `CopyTo(s1)` into the plan object itself succeeds without diagnostics (`e`),
* a second `CopyFrom(e)` into a fresh struct succeeds without diagnostics (`s2`),
* nothing is unknown in `e` at any depth, every attribute that was known in the plan is unchanged in `e`, and `s2`
  equals `s1` in normal form. -/
theorem C08_echo_oneof (X : String → TfVal → Prop) (ov : List (String × String)) (m : Msg) (plan : TfVal) (skN skE : List String)
    (hX : ExtraOK X skN skE) (hp : PlanObj2 X m plan) :
    ∃ s1 e s2, copyFrom ov m plan (.struct []) = .ok s1 ∧ s1.diags = [] ∧
      copyTo m s1.obj plan = .ok e ∧ e.diags = [] ∧
      copyFrom ov m e.tf (.struct []) = .ok s2 ∧ s2.diags = [] ∧
      noUnknownDeep skN e.tf = true ∧ echoKeeps skE plan e.tf = true ∧ nfEqFields m.fields s1.obj s2.obj = true := by
  obtain ⟨u, n, as, atys, rfl, hun, hP, hkeys⟩ := hp
  -- first decode
  obtain ⟨o, hrun1, hso, _, _, hE⟩ := decFields2 X ov m.fields as { obj := resetOneOfs m.info.oneOfNames (.struct []) } atys hP
    (isStruct_resetOneOfs _ _ trivial)
    (fun g _ _ => activePayload_init g.info _ (initNone_reset _ _ (.struct []) trivial (initNone_empty _)))
  -- echo
  obtain ⟨st', hrun2, hd2, _, hk', hframe', hall⟩ :=
    echoFields2 X ov skN skE hX m.fields o atys (as.getD []) { attrs := as.getD [] } hE (fun _ _ => rfl)
  -- second decode
  obtain ⟨o2, hrun3, _, hnf⟩ := secondAll X ov m.fields (as.getD []) atys o st'.attrs hE
    (fun g hg => by
      obtain ⟨a', v', hla', hlv', hev'⟩ := hall g hg
      exact ⟨a', v', hla', hlv', hev'.2.2.2⟩)
    { obj := resetOneOfs m.info.oneOfNames (.struct []) } (isStruct_resetOneOfs _ _ trivial)
    (fun g => initNone_reset _ g (.struct []) trivial (initNone_empty g))
  obtain ⟨hkn, hkeep⟩ := echo_attrs2 X ov skN skE hX m.fields o (as.getD []) st'.attrs hkeys hk' hframe' hall
  refine ⟨{ obj := o, diags := [], hooks := [] },
    { tf := .obj false false (some st'.attrs) (some atys), diags := st'.diags, hooks := st'.hooks },
    { obj := o2, diags := [], hooks := [] }, ?_, rfl, ?_, ?_, ?_, rfl, ?_, ?_, hnf⟩
  · simp [copyFrom, hrun1]
  · simp [copyTo, hrun2]
  · simpa using hd2
  · simp [copyFrom, hrun3]
  · simp only [noUnknownDeep, Bool.not_false, Bool.true_and]
    exact hkn
  · cases u with
    | true => cases as <;> simp [echoKeeps]
    | false =>
      have := hun rfl
      subst this
      cases as with
      | none => simp [echoKeeps]
      | some l =>
        simp only [echoKeeps, Bool.false_eq_true, if_false, beq_self_eq_true, Bool.true_and, Bool.false_or, Option.getD_some]
        exact hkeep

/-- **C08 with oneof groups in the shape of `PGT.Props.C08.C08_full`**: whatever the three calls return, they return no
diagnostic and the executable statement `Spec.c08Check` holds. -/
theorem C08_echo_oneof_check (X : String → TfVal → Prop) (ov : List (String × String)) (m : Msg) (plan : TfVal)
    (s1 : FromResult) (e : ToResult) (s2 : FromResult)
    (hX : ExtraOK X (injectedNames m.fields m.info.injected ++ customNames m.fields) (customNames m.fields))
    (hp : PlanObj2 X m plan)
    (h1 : copyFrom ov m plan (.struct []) = .ok s1) (h2 : copyTo m s1.obj plan = .ok e)
    (h3 : copyFrom ov m e.tf (.struct []) = .ok s2) :
    s1.diags = [] ∧ e.diags = [] ∧ s2.diags = [] ∧ c08Check m plan s1.obj e.tf s2.obj = true := by
  obtain ⟨s1', e', s2', h1', hd1, h2', hd2, h3', hd3, hkn, hkeep, hnf⟩ :=
    C08_echo_oneof X ov m plan (injectedNames m.fields m.info.injected ++ customNames m.fields) (customNames m.fields) hX hp
  rw [h1] at h1'
  injection h1' with h1'
  subst h1'
  rw [h2] at h2'
  injection h2' with h2'
  subst h2'
  rw [h3] at h3'
  injection h3' with h3'
  subst h3'
  refine ⟨hd1, hd2, hd3, ?_⟩
  simp [c08Check, hkn, hkeep, hnf]

/-- **Step 3, the second decode.** CopyTo of the decoded struct into the plan's attributes, then CopyFrom of the result
into a fresh struct: no diagnostics, and the struct equals the first one in normal form (`Spec.nfEqFields`). -/
theorem C08_second_decode_oneof (X : String → TfVal → Prop) (ov : List (String × String)) (skN skE : List String)
    (hX : ExtraOK X skN skE) (fs : List Field) (names : List String) (o : GoVal) (atys : List (String × TfTy))
    (A : List (String × TfVal)) (hE : Ech2s X fs A atys o) :
    ∃ st' s2, copyToFields fs o (some atys) { attrs := A } = .ok st' ∧ st'.diags = [] ∧
      copyFromFields ov fs (some st'.attrs) { obj := resetOneOfs names (.struct []) } = .ok s2 ∧ s2.diags = [] ∧
      nfEqFields fs o s2.obj = true := by
  obtain ⟨st', hrun, hd, _, _, _, hall⟩ := echoFields2 X ov skN skE hX fs o atys A { attrs := A } hE (fun _ _ => rfl)
  obtain ⟨o2, hrun3, _, hnf⟩ := secondAll X ov fs A atys o st'.attrs hE
    (fun g hg => by
      obtain ⟨a', v', hla', hlv', hev'⟩ := hall g hg
      exact ⟨a', v', hla', hlv', hev'.2.2.2⟩)
    { obj := resetOneOfs names (.struct []) } (isStruct_resetOneOfs _ _ trivial)
    (fun g => initNone_reset _ g (.struct []) trivial (initNone_empty g))
  exact ⟨st', _, hrun, by simpa using hd, hrun3, rfl, hnf⟩

-- ------------------------------------------------------------------------------------------------------
-- the statement at full strength

mutual
/-- the judgement of C08 with oneof groups at **every** position: like `PlanOK`, with `PlanOKsD` (groups allowed) for the
attributes of every nested message – also of list / map elements and of the zero struct of a by-value message –, any
scalar branch (pointer-backed too) and message branches whose message has no fields -/
def PlanOKD (X : String → TfVal → Prop) : Field → TfVal → TfTy → Prop
  | ⟨info, mapVal, msg, sub⟩, a, ty =>
    info.parentIsOptionalEmbed = false ∧ (info.isPlaceholder = true → info.kind = .primitive ∧ info.oneOfName = "") ∧
    EmptyOK msg sub ∧
    match info.kind with
    | .primitive =>
      ∃ k u n p, a = .prim k u n p ∧ ty = .prim k ∧ vkindOf info.tf.elemValueType = .prim k ∧
        (info.isPlaceholder = true ∨ (vkindOf info.tf.valueType = .prim k ∧ ScalarIR info k ∧ LeafOK info k u n p))
    | .object =>
      ∃ u n as tys, a = .obj u n as (some tys) ∧ ty = .obj (some tys) ∧ vkindOf info.tf.valueType = .obj ∧
        sub ≠ [] ∧ (info.oneOfName ≠ "" → info.isNullable = true) ∧
        (known u n = true → PlanOKsD X sub (as.getD []) tys ∧ KeysOK X sub (as.getD [])) ∧
        (known u n = false → as.getD [] = [] ∧
          (info.isNullable = false → ToOKs sub (.struct []) tys ∧ RT2OKs sub (.struct [])))
    | .primitiveList =>
      info.oneOfName = "" ∧
      ∃ u n es et k, a = .list u n es et ∧ ty = .list (some (.prim k)) ∧ vkindOf info.tf.valueType = .list ∧
        info.isRepeated = true ∧ ScalarIR info k ∧
        (known u n = true → ∀ e ∈ es.getD [], PrimElemPlan info k e) ∧
        (u = false → n = true → es.getD [] = [])
    | .objectList =>
      info.oneOfName = "" ∧
      ∃ u n es et tys, a = .list u n es et ∧ ty = .list (some (.obj (some tys))) ∧ vkindOf info.tf.valueType = .list ∧
        vkindOf info.tf.elemValueType = .obj ∧ info.isRepeated = true ∧ sub ≠ [] ∧ isEmptyMsg msg = false ∧
        (known u n = true → ∀ e ∈ es.getD [], ∃ u' n' as tys', e = .obj u' n' as tys' ∧
            (known u' n' = true → PlanOKsD X sub (as.getD []) tys) ∧
            (known u' n' = false → info.isNullable = false → ToOKs sub (.struct []) tys ∧ RT2OKs sub (.struct []))) ∧
        (u = false → n = true → es.getD [] = [])
    | .primitiveMap =>
      info.oneOfName = "" ∧
      ∃ u n es et k, a = .map u n es et ∧ ty = .map (some (.prim k)) ∧ vkindOf info.tf.valueType = .map ∧
        info.isRepeated = false ∧ info.isNullable = false ∧ info.tf.zeroValue = "" ∧
        (mapVal.getD info).tf.elemValueType = info.tf.elemValueType ∧ ScalarIR info k ∧
        ((es.getD []).map (·.1)).Nodup ∧
        (known u n = true → ∀ e ∈ es.getD [], PrimElemPlan info k e.2) ∧
        (u = false → n = true → es.getD [] = [])
    | .objectMap =>
      info.oneOfName = "" ∧
      ∃ u n es et tys, a = .map u n es et ∧ ty = .map (some (.obj (some tys))) ∧ vkindOf info.tf.valueType = .map ∧
        vkindOf info.tf.elemValueType = .obj ∧ vkindOf (mapVal.getD info).tf.elemValueType = .obj ∧
        info.isRepeated = false ∧ sub ≠ [] ∧ isEmptyMsg msg = false ∧
        ((es.getD []).map (·.1)).Nodup ∧
        (known u n = true → ∀ e ∈ es.getD [], ∃ u' n' as tys', e.2 = .obj u' n' as tys' ∧
            (known u' n' = true → PlanOKsD X sub (as.getD []) tys) ∧
            (known u' n' = false → info.isNullable = false → ToOKs sub (.struct []) tys ∧ RT2OKs sub (.struct []))) ∧
        (u = false → n = true → es.getD [] = [])
    | .custom => False

def PlanOKsD (X : String → TfVal → Prop) : List Field → List (String × TfVal) → List (String × TfTy) → Prop
  | [], _, _ => True
  | f :: rest, attrs, atys =>
    (∃ a ty, attrs.lookup f.info.nameSnake = some a ∧ atys.lookup f.info.nameSnake = some ty ∧ PlanOKD X f a ty) ∧
    f.info.nameSnake ∉ rest.map (·.info.nameSnake) ∧
    (∀ g ∈ rest, SepOK f.info g.info) ∧
    (∀ g ∈ rest, f.info.oneOfName ≠ "" → g.info.oneOfName = f.info.oneOfName →
        notNullAt attrs f = false ∨ notNullAt attrs g = false) ∧
    PlanOKsD X rest attrs atys
end

/-- **The statement at full strength** (not proved here): the conclusion of `C08_echo_oneof` for plans satisfying
`PlanOKsD` – oneof groups at every position of the tree. `C08_echo_oneof` proves it for `PlanOKs2`: groups at the top
level, inside *known* nested messages with fields and inside message branches, recursively. Missing: groups inside the
messages of list / map elements and inside the zero struct a null / unknown by-value nested message decodes to (there the
nested message must be a plain tree, `PlanOK`); message branches whose message has no fields; pointer-backed scalar
branches. The exclusivity clause (`notNullAt`) cannot be weakened to "at most one branch known and non-null":
`EchoOneofWitness.witness_fails`. -/
def C08_echo_oneof_full : Prop :=
  ∀ (X : String → TfVal → Prop) (ov : List (String × String)) (m : Msg) (plan : TfVal) (skN skE : List String),
    ExtraOK X skN skE →
    (∃ u n as atys, plan = .obj u n as (some atys) ∧ (u = false → n = false) ∧
      PlanOKsD X m.fields (as.getD []) atys ∧ KeysOK X m.fields (as.getD [])) →
    ∃ s1 e s2, copyFrom ov m plan (.struct []) = .ok s1 ∧ s1.diags = [] ∧
      copyTo m s1.obj plan = .ok e ∧ e.diags = [] ∧
      copyFrom ov m e.tf (.struct []) = .ok s2 ∧ s2.diags = [] ∧
      noUnknownDeep skN e.tf = true ∧ echoKeeps skE plan e.tf = true ∧ nfEqFields m.fields s1.obj s2.obj = true

-- ------------------------------------------------------------------------------------------------------
-- non-vacuity and the witness

namespace EchoOneofExample
open EchoExample

/-- a `string` branch of a oneof group -/
def brStr (name snake g t : String) : FieldInfo := { strField name snake with oneOfName := g, oneOfType := t }

theorem brStr_rep (name snake g t : String) : (brStr name snake g t).rep = .str := by
  simp only [FieldInfo.rep, brStr, strField, rep_string]

theorem brStr_castTo (name snake g t : String) (v : List UInt8) : (brStr name snake g t).castTo (.str v) = some (.str v) := by
  simp only [FieldInfo.castTo, brStr_rep]
  simp only [brStr, strField, rep_string, conv]

theorem brStr_castFrom (name snake g t : String) (v : List UInt8) :
    (brStr name snake g t).castFrom .string (.str v) = some (.str v) := by
  simp only [FieldInfo.castFrom, brStr_rep, PrimK.rep, conv]

theorem brStr_ir (name snake g t : String) : ScalarIR (brStr name snake g t) .string where
  rt := primRT_of_row _ .string vk_string (by rw [brStr_rep]; rfl) (by rw [brStr_rep]; exact rep_string)
    (by rw [brStr_rep]; decide) (by intro h; cases h)
  nullZero := by intro h; cases h
  cast := by
    intro _ s hs
    rw [brStr_rep] at hs
    cases s <;> simp [C19.HasRep] at hs
    rename_i v
    refine ⟨.str v, brStr_castTo name snake g t v, ?_⟩
    intro _
    exact ⟨v.isEmpty, by simp [brStr, strField, eqLiteral], by simp [scIsZero]⟩

theorem brStr_leaf (name snake g t : String) (u n : Bool) (v : List UInt8) (hnull : u = false → n = true → v = []) :
    LeafOK (brStr name snake g t) .string u n (.str v) where
  castable := fun _ => ⟨.str v, brStr_castFrom name snake g t v⟩
  range := by
    intro _ _ c hc
    rw [brStr_castFrom] at hc
    injection hc with hc
    subst hc
    exact brStr_castTo name snake g t v
  rangePtr := by intro _ h; cases h
  nullPayload := by
    intro hu hn _
    rw [hnull hu hn, brStr_rep]
    exact brStr_castTo name snake g t []

/-- a message branch of the group `Choice` -/
def brMsg : FieldInfo :=
  { name := "M", nameSnake := "m", kind := .object, isNullable := true, oneOfName := "Choice", oneOfType := "types.Ex_M",
    tf := { type := "types.ObjectType", valueType := "types.Object", elemType := "types.ObjectType",
            elemValueType := "types.Object", isMessage := true } }

def fName : Field := ⟨strField "Name" "name", none, none, []⟩
def fS : Field := ⟨brStr "S" "s" "Choice" "types.Ex_S", none, none, []⟩
def fM : Field := ⟨brMsg, none, some { name := "Inner" }, inner⟩

/-- a message with a plain field and the group `Choice` of a string branch `S` and a message branch `M` -/
def msg : Msg := { info := { name := "Ex", oneOfNames := ["Choice"] }, fields := [fName, fS, fM] }

def atys : List (String × TfTy) := [("name", .prim .string), ("s", .prim .string), ("m", .obj (some innerTys))]

/-- `name` is known ("n"), the string branch `s` is null, the message branch `m` is known with `c = "x"` -/
def plan : TfVal :=
  .obj false false
    (some [("name", .prim .string false false (.str [110])),
           ("s", .prim .string false true (.str [])),
           ("m", .obj false false (some [("c", .prim .string false false (.str [120]))]) (some innerTys))])
    (some atys)

/-- the three calls on the executable definitions: (no diagnostics at all, `noUnknownDeep`, `nfEqFields`) -/
def run3 (m : Msg) (plan : TfVal) : Option (Bool × Bool × Bool) :=
  match copyFrom [] m plan (.struct []) with
  | .ok s1 =>
    match copyTo m s1.obj plan with
    | .ok e =>
      match copyFrom [] m e.tf (.struct []) with
      | .ok s2 =>
        some (s1.diags.isEmpty && e.diags.isEmpty && s2.diags.isEmpty, noUnknownDeep [] e.tf,
          nfEqFields m.fields s1.obj s2.obj)
      | _ => none
    | _ => none
  | _ => none

/-- the echoed object (`Spec.echoKeeps` is defined by well-founded recursion and does not evaluate under `decide`; it is
checked on the echoed object by `simp`) -/
def echoedTf (m : Msg) (plan : TfVal) : Option TfVal :=
  match copyFrom [] m plan (.struct []) with
  | .ok s1 =>
    match copyTo m s1.obj plan with
    | .ok e => some e.tf
    | _ => none
  | _ => none

/-- the example on the executable definitions: no diagnostics, nothing unknown, second decode equal -/
theorem example_runs : run3 msg plan = some (true, true, true) := by decide

/-- … the echoed object is the plan itself (every attribute of the example's plan is known), so every known value is kept -/
theorem example_echoed : echoedTf msg plan = some plan := by rfl

theorem example_keeps : echoKeeps [] plan plan = true := by
  simp [plan, echoKeeps, echoKeepsAs, TfVal.beq, List.lookup]

/-- the decoded struct of the example holds the wrapper of the message branch -/
theorem example_decodes :
    (match copyFrom [] msg plan (.struct []) with
     | .ok s1 => s1.obj.field? "Choice"
     | _ => none) = some (.iface (some ("Ex_M", "M", .ptr (some (.struct [("C", .sc (.str [120]))]))))) := by rfl

theorem plan_ok : PlanObj2 NoExtra msg plan := by
  refine ⟨false, false, _, atys, rfl, fun _ => rfl, ?_, ?_⟩
  · unfold msg
    simp only [Option.getD_some]
    unfold PlanOKs2
    refine ⟨⟨.prim .string false false (.str [110]), .prim .string, by rfl, by rfl, ?_⟩, by decide, ?_, ?_, ?_⟩
    · unfold fName PlanOK2
      exact Or.inl (strField_plan NoExtra "Name" "name" none false false [110] (by intro _ h; cases h))
    · intro g hg
      simp only [List.mem_cons, List.mem_nil_iff, or_false] at hg
      rcases hg with rfl | rfl <;> (unfold SepOK; decide)
    · intro g hg
      simp only [List.mem_cons, List.mem_nil_iff, or_false] at hg
      rcases hg with rfl | rfl <;> decide
    unfold PlanOKs2
    refine ⟨⟨.prim .string false true (.str []), .prim .string, by rfl, by rfl, ?_⟩, by decide, ?_, ?_, ?_⟩
    · unfold fS PlanOK2
      exact Or.inr (Or.inr ⟨by decide, rfl, rfl, rfl, rfl, .string, false, true, .str [], rfl, rfl, vk_string,
        brStr_ir _ _ _ _, brStr_leaf _ _ _ _ false true [] (fun _ _ => rfl)⟩)
    · intro g hg
      simp only [List.mem_cons, List.mem_nil_iff, or_false] at hg
      subst hg
      unfold SepOK
      decide
    · intro g hg
      simp only [List.mem_cons, List.mem_nil_iff, or_false] at hg
      subst hg
      decide
    unfold PlanOKs2
    refine ⟨⟨.obj false false (some [("c", .prim .string false false (.str [120]))]) (some innerTys), .obj (some innerTys),
      by rfl, by rfl, ?_⟩, by decide, by simp, by simp, trivial⟩
    unfold fM PlanOK2
    refine Or.inr (Or.inl ⟨rfl, rfl, rfl, rfl, vk_object, by decide, Or.inr ⟨by decide, rfl, false, false, _, innerTys, rfl, rfl, ?_,
      by intro h; cases h⟩⟩)
    intro _
    refine ⟨?_, by decide, ?_⟩
    · simp only [Option.getD_some]
      unfold inner PlanOKs2
      refine ⟨⟨.prim .string false false (.str [120]), .prim .string, by rfl, by rfl, ?_⟩, by decide, by simp, by simp, trivial⟩
      unfold PlanOK2
      exact Or.inl (strField_plan NoExtra "C" "c" none false false [120] (by intro _ h; cases h))
    · intro kv hkv
      simp only [Option.getD_some, List.mem_singleton] at hkv
      subst hkv
      exact Or.inl (by decide)
  · refine ⟨by decide, ?_⟩
    intro kv hkv
    simp only [Option.getD_some, List.mem_cons, List.mem_nil_iff, or_false] at hkv
    rcases hkv with rfl | rfl | rfl
    · exact Or.inl (by decide)
    · exact Or.inl (by decide)
    · exact Or.inl (by decide)

/-- the main theorem applies to the example -/
theorem example_applies : ∃ s1 e s2, copyFrom [] msg plan (.struct []) = .ok s1 ∧ s1.diags = [] ∧
    copyTo msg s1.obj plan = .ok e ∧ e.diags = [] ∧
    copyFrom [] msg e.tf (.struct []) = .ok s2 ∧ s2.diags = [] ∧
    noUnknownDeep [] e.tf = true ∧ echoKeeps [] plan e.tf = true ∧ nfEqFields msg.fields s1.obj s2.obj = true :=
  C08_echo_oneof NoExtra [] msg plan [] [] (extraOK_none [] []) plan_ok

end EchoOneofExample

namespace EchoOneofWitness
open EchoOneofExample

/-- the message of the example with the string branch declared *after* the message branch -/
def msgMS : Msg := { info := { name := "Ex", oneOfNames := ["Choice"] }, fields := [fName, fM, fS] }

/-- the message branch `m` is known; the string branch `s` is **unknown with `Null = false`** (what `ValueFromTerraform`
produces for an unknown value) -/
def planUnknown : TfVal :=
  .obj false false
    (some [("name", .prim .string false false (.str [110])),
           ("s", .prim .string true false (.str [])),
           ("m", .obj false false (some [("c", .prim .string false false (.str [120]))]) (some EchoExample.innerTys))])
    (some EchoOneofExample.atys)

/-- … the same with the `Null` flag of the unknown value set -/
def planUnknownNull : TfVal :=
  .obj false false
    (some [("name", .prim .string false false (.str [110])),
           ("s", .prim .string true true (.str [])),
           ("m", .obj false false (some [("c", .prim .string false false (.str [120]))]) (some EchoExample.innerTys))])
    (some EchoOneofExample.atys)

/-- the echoed value of attribute `s` -/
def echoedS (m : Msg) (plan : TfVal) : Option TfVal :=
  match echoedTf m plan with
  | some (.obj _ _ (some as) _) => as.lookup "s"
  | _ => none

/-- what the model does with an inactive scalar branch whose attribute is unknown and not null: it comes back **known
and not null**, with the zero payload -/
theorem unknown_branch_comes_back_nonnull : echoedS msgMS planUnknown = some (.prim .string false false (.str [])) := by rfl

/-- … with the `Null` flag set it comes back null and known -/
theorem unknown_null_branch_comes_back_null :
    echoedS msgMS planUnknownNull = some (.prim .string false true (.str [])) := by rfl

/-- **The witness**: exactly one branch attribute (`m`) is known and non-null, the other (`s`, declared after it) is
unknown with `Null = false`. No diagnostics, `noUnknownDeep` holds (and `echoKeeps`, `witness_keeps`), but the second decode reads the branch
`S` (empty string) instead of `M`: `nfEqFields` is false. Hence "at most one branch known and non-null, the others null or
unknown" is not enough; `PlanOKs2` asks that at most one branch attribute of a group is not null. -/
theorem witness_fails : run3 msgMS planUnknown = some (true, true, false) := by decide

/-- the echoed object of the witness: the plan with `s` known, not null, empty -/
def echoedUnknown : TfVal :=
  .obj false false
    (some [("name", .prim .string false false (.str [110])),
           ("s", .prim .string false false (.str [])),
           ("m", .obj false false (some [("c", .prim .string false false (.str [120]))]) (some EchoExample.innerTys))])
    (some EchoOneofExample.atys)

theorem witness_echoed : echoedTf msgMS planUnknown = some echoedUnknown := by rfl

/-- … `echoKeeps` holds for the witness (the only changed attribute was unknown) -/
theorem witness_keeps : echoKeeps [] planUnknown echoedUnknown = true := by
  simp [planUnknown, echoedUnknown, echoKeeps, echoKeepsAs, TfVal.beq, List.lookup]

/-- the holder after the second decode of the witness: the string branch -/
theorem witness_second_holder :
    (match copyFrom [] msgMS planUnknown (.struct []) with
     | .ok s1 =>
       match copyTo msgMS s1.obj planUnknown with
       | .ok e => match copyFrom [] msgMS e.tf (.struct []) with | .ok s2 => s2.obj.field? "Choice" | _ => none
       | _ => none
     | _ => none) = some (.iface (some ("Ex_S", "S", .sc (.str [])))) := by rfl

/-- with the `Null` flag of the unknown value set (inside the judgement) the echo holds -/
theorem witness_null_ok : run3 msgMS planUnknownNull = some (true, true, true) := by decide

/-- the hypothesis is sufficient, not necessary: with the string branch declared *before* the message branch (`msg`) the
same plan passes – the second decode reads `S` first and `M` overwrites the holder -/
theorem unknown_before_known_ok : run3 msg planUnknown = some (true, true, true) := by decide

end EchoOneofWitness

end PGT
