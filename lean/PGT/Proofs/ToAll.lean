import PGT.Model.CopyTo
import PGT.Model.Spec
import PGT.Proofs.Store
/-
CopyTo into an object that does not hold the attributes yet, for **all** templates:
the typing / well-formedness predicate `ToOK` and the per-template lemmas.
The main theorems (mutual induction over the IR) are in `PGT/Proofs/ToRender.lean`.
-/
namespace PGT
open PGT.Spec

/-- a Go value a primitive field block can render (typed, casts and zero test defined) -/
def PrimTyped (info : FieldInfo) (x : GoVal) : Prop :=
  if info.isNullable then
    info.tf.zeroValue = "" ∧ (x = .ptr none ∨ ∃ s, x = .ptr (some (.sc s)))
  else
    ∃ s c, x = .sc s ∧ info.castTo s = some c ∧
      (info.tf.zeroValue ≠ "" → ∃ b, eqLiteral info.tf.zeroValue c = some b ∧ b = scIsZero s)

/-- reading the field is not blocked by a nil embedded parent, and oneof branches are not embedded children -/
def Reachable (info : FieldInfo) (obj : GoVal) : Prop :=
  (info.parentIsOptionalEmbed = true → parentIsNil info obj = false ∧ info.oneOfName = "" ∧
      ∃ s, obj.field? info.parentIsOptionalEmbedFieldName = some (.ptr (some s)))

/-- a message-typed Go value: nil pointer, pointer to a struct, or a struct (by nullable-ness) -/
def MsgTyped (nullable : Bool) (P : GoVal → Prop) (x : GoVal) : Prop :=
  if nullable then x = .ptr none ∨ ∃ fs, x = .ptr (some (.struct fs)) ∧ P (.struct fs)
  else ∃ fs, x = .struct fs ∧ P (.struct fs)

mutual
/-- hypotheses under which the field block of `f` renders struct `obj` into a fresh attribute of type `ty` -/
def ToOK : Field → GoVal → TfTy → Prop
  | ⟨info, _, msg, sub⟩, obj, ty =>
    match info.kind with
    | .primitive =>
      (∃ k, vkindOf info.tf.elemValueType = .prim k ∧ ty = .prim k) ∧
      (info.isPlaceholder = true ∨
       (info.parentIsOptionalEmbed = true ∧ parentIsNil info obj = true ∧ info.oneOfName = "") ∨
       (Reachable info obj ∧ PrimTyped info (getVal info obj)))
    | .custom => info.oneOfName = "" ∧ Reachable info obj ∧ ∃ v, hookTo info.isRepeated (getVal info obj) = some v
    | .object =>
      Reachable info obj ∧
      ∃ as, ty = .obj (some as) ∧ sub ≠ [] ∧
        ((isEmptyMsg msg) = true → ∀ fs, getVal info obj = .ptr (some (.struct fs)) ∨ getVal info obj = .struct fs → fs = []) ∧
        MsgTyped info.isNullable (fun s => ToOKs sub s as) (getVal info obj)
    | .primitiveList =>
      info.isRepeated = true ∧ info.oneOfName = "" ∧ info.isPlaceholder = false ∧ Reachable info obj ∧
      ∃ k, vkindOf info.tf.elemValueType = .prim k ∧ ty = .list (some (.prim k)) ∧
        (getVal info obj = .slice none ∨ ∃ es, getVal info obj = .slice (some es) ∧ ∀ e ∈ es, PrimTyped info e)
    | .objectList =>
      info.isRepeated = true ∧ info.oneOfName = "" ∧ Reachable info obj ∧ vkindOf info.tf.elemValueType = .obj ∧
      ∃ as, ty = .list (some (.obj (some as))) ∧ sub ≠ [] ∧
        (isEmptyMsg msg) = false ∧
        (getVal info obj = .slice none ∨ ∃ es, getVal info obj = .slice (some es) ∧
          ∀ e ∈ es, MsgTyped info.isNullable (fun s => ToOKs sub s as) e)
    | .primitiveMap =>
      info.isRepeated = false ∧ info.oneOfName = "" ∧ info.isPlaceholder = false ∧ Reachable info obj ∧ info.tf.zeroValue = "" ∧
      ∃ k, vkindOf info.tf.elemValueType = .prim k ∧ ty = .map (some (.prim k)) ∧
        (getVal info obj = .map none ∨ ∃ es, getVal info obj = .map (some es) ∧ (es.map (·.1)).Nodup ∧ ∀ e ∈ es, PrimTyped info e.2)
    | .objectMap =>
      info.isRepeated = false ∧ info.oneOfName = "" ∧ Reachable info obj ∧ vkindOf info.tf.elemValueType = .obj ∧
      ∃ as, ty = .map (some (.obj (some as))) ∧ sub ≠ [] ∧
        (isEmptyMsg msg) = false ∧
        (getVal info obj = .map none ∨ ∃ es, getVal info obj = .map (some es) ∧ (es.map (·.1)).Nodup ∧
          ∀ e ∈ es, MsgTyped info.isNullable (fun s => ToOKs sub s as) e.2)

/-- … for all fields of a message: every attribute has its type in `atys`, attribute names are pairwise distinct -/
def ToOKs : List Field → GoVal → List (String × TfTy) → Prop
  | [], _, _ => True
  | f :: rest, obj, atys =>
    (∃ ty, atys.lookup f.info.nameSnake = some ty ∧ ToOK f obj ty) ∧
    f.info.nameSnake ∉ rest.map (·.info.nameSnake) ∧ ToOKs rest obj atys
end

-- ------------------------------------------------------------------------------------------------------
-- reading

theorem readField_getVal (info : FieldInfo) (obj : GoVal) (hr : Reachable info obj)
    (hne : info.parentIsOptionalEmbed = false ∨ info.oneOfName = "") :
    readField info (oneOfShadow info obj) = .ok (getVal info obj) := by
  unfold readField getVal
  by_cases hp : info.parentIsOptionalEmbed = true
  · obtain ⟨_, hoo, s, hs⟩ := hr hp
    have hsh : oneOfShadow info obj = obj := by simp [oneOfShadow, hoo]
    simp [hp, hsh, hs]
  · have hp' : info.parentIsOptionalEmbed = false := by simpa using hp
    simp only [hp', Bool.false_eq_true, if_false]
    by_cases ho : info.oneOfName = ""
    · have hsh : oneOfShadow info obj = obj := by simp [oneOfShadow, ho]
      simp [hsh, ho]
    · have : (info.oneOfName != "") = true := by simpa using ho
      simp [this]

/-- without a oneof the shadow is the struct itself -/
theorem shadow_id (info : FieldInfo) (obj : GoVal) (h : info.oneOfName = "") : oneOfShadow info obj = obj := by
  simp [oneOfShadow, h]

-- ------------------------------------------------------------------------------------------------------
-- the primitive template on an absent attribute

theorem sc_beq_self (s : Sc) : (s == s) = true := by simp

/-- `genPrimitiveBody` for a typed value read as `x`, no attribute present, attribute / element type `prim k` -/
theorem primBody_fresh_renders (info : FieldInfo) (k : PrimK) (obj : GoVal) (x : GoVal)
    (hk : vkindOf info.tf.elemValueType = .prim k) (hnp : info.isPlaceholder = false)
    (hnil : ¬ (info.parentIsOptionalEmbed = true ∧ parentIsNil info obj = true))
    (ht : PrimTyped info x) :
    ∃ v, primBody info obj none (some (.prim k)) (.ok x) = .ok (v, []) ∧ primRenders info x v = true := by
  have hnil' : (info.parentIsOptionalEmbed && parentIsNil info obj) = false := by
    cases h1 : info.parentIsOptionalEmbed <;> cases h2 : parentIsNil info obj <;> simp_all
  unfold PrimTyped at ht
  by_cases hn : info.isNullable = true
  · simp only [hn, if_true] at ht
    obtain ⟨hz, hx⟩ := ht
    have hzv : (info.tf.zeroValue != "") = false := by simp [hz]
    rcases hx with rfl | ⟨s, rfl⟩
    · refine ⟨.prim k false true k.zeroSc, ?_, ?_⟩
      · unfold primBody
        simp only [hk, primFresh, nullOfTy, hnp, hzv, assignPrim, hn]
        by_cases hpe : info.parentIsOptionalEmbed = true
        · have : parentIsNil info obj = false := by
            cases h2 : parentIsNil info obj
            · rfl
            · exact absurd ⟨hpe, h2⟩ hnil
          simp [hpe, this]
        · simp [hpe]
      · simp [primRenders, primKindOf, hk, hn]
    · refine ⟨.prim k false false s, ?_, ?_⟩
      · unfold primBody
        simp only [hk, primFresh, nullOfTy, hnp, hzv, assignPrim, hn]
        by_cases hpe : info.parentIsOptionalEmbed = true
        · have : parentIsNil info obj = false := by
            cases h2 : parentIsNil info obj
            · rfl
            · exact absurd ⟨hpe, h2⟩ hnil
          simp [hpe, this]
        · simp [hpe]
      · simp [primRenders, primKindOf, hk, hn]
  · have hn' : info.isNullable = false := by simpa using hn
    simp only [hn', Bool.false_eq_true, if_false] at ht
    obtain ⟨s, c, rfl, hc, hz⟩ := ht
    by_cases hzv : info.tf.zeroValue = ""
    · refine ⟨.prim k false false c, ?_, ?_⟩
      · unfold primBody
        have : (info.tf.zeroValue != "") = false := by simp [hzv]
        simp only [hk, primFresh, nullOfTy, hnp, this, assignPrim, hn', hc]
        by_cases hpe : info.parentIsOptionalEmbed = true
        · have : parentIsNil info obj = false := by
            cases h2 : parentIsNil info obj
            · rfl
            · exact absurd ⟨hpe, h2⟩ hnil
          simp [hpe, this]
        · simp [hpe]
      · simp [primRenders, primKindOf, hk, hn', hc, hzv]
    · obtain ⟨b, hb, hbz⟩ := hz hzv
      refine ⟨.prim k false b c, ?_, ?_⟩
      · unfold primBody
        have hzv' : (info.tf.zeroValue != "") = true := by simpa using hzv
        simp only [hk, primFresh, nullOfTy, hnp, hzv', assignPrim, hn', hc, hb, hnil']
        by_cases hpe : info.parentIsOptionalEmbed = true
        · have : parentIsNil info obj = false := by
            cases h2 : parentIsNil info obj
            · rfl
            · exact absurd ⟨hpe, h2⟩ hnil
          simp [hpe, this]
        · simp [hpe]
      · simp [primRenders, primKindOf, hk, hn', hc, hzv, hbz]

end PGT
