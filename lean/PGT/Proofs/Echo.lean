import PGT.Proofs.EchoDecode
import PGT.Proofs.ToAll
/-
C08 (apply echo), second half: decode a plan, encode the struct back INTO the same plan, decode again.
For every plan object satisfying the judgement `PlanOKs` (PGT/Proofs/EchoDecode.lean), at every nesting depth:
* the in-place CopyTo succeeds without diagnostics and leaves nothing unknown at any depth (`Spec.noUnknownDeep`),
* every attribute that was known in the plan comes back unchanged (`Spec.echoKeeps`),
* a second CopyFrom gives the same struct in normal form (`Spec.nfEqFields`).
-/
namespace PGT
open PGT.Spec PGT.Props

-- ------------------------------------------------------------------------------------------------------
-- association lists

theorem noUnknownAs_of_forall (skip : List String) : ∀ (l : List (String × TfVal)),
    (∀ kv ∈ l, noUnknownDeep skip kv.2 = true) → noUnknownAs skip l = true
  | [], _ => by simp [noUnknownAs]
  | (k, v) :: rest, h => by
    simp only [noUnknownAs, Bool.and_eq_true, Bool.or_eq_true]
    exact ⟨Or.inr (h (k, v) (by simp)), noUnknownAs_of_forall skip rest (fun kv hkv => h kv (by simp [hkv]))⟩

theorem noUnknownList_of_forall (skip : List String) : ∀ (l : List TfVal),
    (∀ v ∈ l, noUnknownDeep skip v = true) → noUnknownList skip l = true
  | [], _ => by simp [noUnknownList]
  | v :: rest, h => by
    simp only [noUnknownList, Bool.and_eq_true]
    exact ⟨h v (by simp), noUnknownList_of_forall skip rest (fun w hw => h w (by simp [hw]))⟩

theorem echoKeepsAs_of_forall (skip : List String) (rs : List (String × TfVal)) : ∀ (as : List (String × TfVal)),
    (∀ kv ∈ as, ∃ r, rs.lookup kv.1 = some r ∧ echoKeeps skip kv.2 r = true) → echoKeepsAs skip as rs = true
  | [], _ => by simp [echoKeepsAs]
  | (k, v) :: rest, h => by
    obtain ⟨r, hr, he⟩ := h (k, v) (by simp)
    simp only [echoKeepsAs, Bool.and_eq_true, Bool.or_eq_true]
    refine ⟨Or.inr ?_, echoKeepsAs_of_forall skip rs rest (fun kv hkv => h kv (by simp [hkv]))⟩
    simp only at hr
    simp [hr, he]

theorem noUnknownAs_of_forall' (skip : List String) : ∀ (l : List (String × TfVal)),
    (∀ kv ∈ l, skip.contains kv.1 = true ∨ noUnknownDeep skip kv.2 = true) → noUnknownAs skip l = true
  | [], _ => by simp [noUnknownAs]
  | (k, v) :: rest, h => by
    simp only [noUnknownAs, Bool.and_eq_true, Bool.or_eq_true]
    exact ⟨h (k, v) (by simp), noUnknownAs_of_forall' skip rest (fun kv hkv => h kv (by simp [hkv]))⟩

theorem echoKeepsAs_of_forall' (skip : List String) (rs : List (String × TfVal)) : ∀ (as : List (String × TfVal)),
    (∀ kv ∈ as, skip.contains kv.1 = true ∨ ∃ r, rs.lookup kv.1 = some r ∧ echoKeeps skip kv.2 r = true) →
    echoKeepsAs skip as rs = true
  | [], _ => by simp [echoKeepsAs]
  | (k, v) :: rest, h => by
    simp only [echoKeepsAs, Bool.and_eq_true, Bool.or_eq_true]
    refine ⟨?_, echoKeepsAs_of_forall' skip rs rest (fun kv hkv => h kv (by simp [hkv]))⟩
    rcases h (k, v) (by simp) with hc | ⟨r, hr, he⟩
    · exact Or.inl hc
    · simp only at hr
      exact Or.inr (by simp [hr, he])

theorem keys_setKey {α} (k : String) (v : α) : ∀ (l : List (String × α)),
    (setKey k v l).map (·.1) = if k ∈ l.map (·.1) then l.map (·.1) else l.map (·.1) ++ [k]
  | [] => by simp [setKey]
  | (k', v') :: rest => by
    by_cases h : (k' == k) = true
    · have e : k' = k := by simpa using h
      subst e
      simp [setKey]
    · have hne : k' ≠ k := by simpa using h
      have hne' : ¬ k = k' := fun e => hne e.symm
      have hb : (k' == k) = false := by simpa using h
      simp only [setKey, hb, Bool.false_eq_true, if_false, List.map_cons, List.mem_cons, hne', false_or]
      rw [keys_setKey k v rest]
      split <;> simp

theorem nodup_setKey {α} (k : String) (v : α) (l : List (String × α)) (h : (l.map (·.1)).Nodup) :
    ((setKey k v l).map (·.1)).Nodup := by
  rw [keys_setKey]
  split
  · exact h
  · rename_i hn
    rw [List.nodup_append]
    refine ⟨h, by simp, ?_⟩
    intro a ha b hb
    simp only [List.mem_singleton] at hb
    subst hb
    intro e
    subst e
    exact hn ha

theorem mem_keys_setKey {α} (k : String) (v : α) (l : List (String × α)) (x : String)
    (h : x ∈ (setKey k v l).map (·.1)) : x = k ∨ x ∈ l.map (·.1) := by
  rw [keys_setKey] at h
  split at h
  · exact Or.inr h
  · simp only [List.mem_append, List.mem_singleton] at h
    rcases h with h | h
    · exact Or.inr h
    · exact Or.inl h

-- ------------------------------------------------------------------------------------------------------
-- the field blocks of CopyTo on the plain tree, as equations

theorem readField_plain (info : FieldInfo) (obj : GoVal) (ho : info.oneOfName = "") (he : info.parentIsOptionalEmbed = false) :
    readField info obj = .ok (getVal info obj) := by
  have := readField_getVal info obj (reachable_plain info obj he) (Or.inl he)
  rwa [shadow_id info obj ho] at this

theorem copyToField_prim_run (info : FieldInfo) (mv : Option FieldInfo) (msg : Option MsgInfo) (sub : List Field) (obj : GoVal)
    (atys : List (String × TfTy)) (st : ToSt) (k : PrimK) (v : TfVal)
    (hk : info.kind = .primitive) (ho : info.oneOfName = "") (he : info.parentIsOptionalEmbed = false)
    (hty : atys.lookup info.nameSnake = some (.prim k))
    (hpb : primBody info obj (st.attrs.lookup info.nameSnake) (some (.prim k)) (.ok (getVal info obj)) = .ok (v, [])) :
    copyToField ⟨info, mv, msg, sub⟩ obj (some atys) st =
      .ok { attrs := setKey info.nameSnake v st.attrs, diags := st.diags, hooks := st.hooks } := by
  unfold copyToField copyToFieldWith
  simp only [Option.getD, hty, hk]
  rw [shadow_id info obj ho, readField_plain info obj ho he, hpb]
  simp [ToSt.set]

theorem copyToField_obj_run (info : FieldInfo) (mv : Option FieldInfo) (msg : Option MsgInfo) (sub : List Field) (obj : GoVal)
    (atys : List (String × TfTy)) (st : ToSt) (tys : List (String × TfTy)) (v : TfVal) (ds : List Diag) (hs : List HookCall)
    (hk : info.kind = .object) (ho : info.oneOfName = "") (he : info.parentIsOptionalEmbed = false)
    (hty : atys.lookup info.nameSnake = some (.obj (some tys)))
    (hob : objBody (fun o a s => copyToFields sub o a s) info msg sub.isEmpty (st.attrs.lookup info.nameSnake) (some tys)
        (.ok (getVal info obj)) st.diags st.hooks = .ok (v, ds, hs)) :
    copyToField ⟨info, mv, msg, sub⟩ obj (some atys) st =
      .ok { attrs := setKey info.nameSnake v st.attrs, diags := ds, hooks := hs } := by
  unfold copyToField copyToFieldWith
  simp only [Option.getD, hty, hk]
  rw [shadow_id info obj ho, readField_plain info obj ho he, hob]

theorem copyToField_list_eq_echo (info : FieldInfo) (mv : Option FieldInfo) (msg : Option MsgInfo) (sub : List Field) (obj : GoVal)
    (atys : List (String × TfTy)) (st : ToSt) (ety : Option TfTy)
    (hk : info.kind = .primitiveList ∨ info.kind = .objectList) (ho : info.oneOfName = "")
    (he : info.parentIsOptionalEmbed = false) (hrep : info.isRepeated = true)
    (hty : atys.lookup info.nameSnake = some (.list ety)) :
    copyToField ⟨info, mv, msg, sub⟩ obj (some atys) st =
      listOrMapBody (fun o a s => copyToFields sub o a s) info msg sub.isEmpty obj (st.attrs.lookup info.nameSnake) ety
        (getVal info obj) st := by
  unfold copyToField copyToFieldWith
  rcases hk with hk | hk <;>
    simp only [Option.getD, hty, hk, hrep, if_true, readField_plain info obj ho he]

theorem copyToField_map_eq_echo (info : FieldInfo) (mv : Option FieldInfo) (msg : Option MsgInfo) (sub : List Field) (obj : GoVal)
    (atys : List (String × TfTy)) (st : ToSt) (ety : Option TfTy)
    (hk : info.kind = .primitiveMap ∨ info.kind = .objectMap) (ho : info.oneOfName = "")
    (he : info.parentIsOptionalEmbed = false) (hrep : info.isRepeated = false)
    (hty : atys.lookup info.nameSnake = some (.map ety)) :
    copyToField ⟨info, mv, msg, sub⟩ obj (some atys) st =
      listOrMapBody (fun o a s => copyToFields sub o a s) info msg sub.isEmpty obj (st.attrs.lookup info.nameSnake) ety
        (getVal info obj) st := by
  unfold copyToField copyToFieldWith
  rcases hk with hk | hk <;>
    simp only [Option.getD, hty, hk, hrep, Bool.false_eq_true, if_false, readField_plain info obj ho he]

-- ------------------------------------------------------------------------------------------------------
-- C08 step 2: the echo of one scalar

/-- **Echo of a scalar** (field value; the same computation serves placeholders-free scalar attributes at every depth).
The plan holds `prim k u n p`, CopyFrom decoded it to `x`; CopyTo back into the same value yields `prim k false n' p'`:
* nothing unknown is left;
* decoding the result again gives `x` back in normal form;
* if the planned value was known (`u = false`) and satisfies the leaf hypotheses `LeafOK` – a non-null value within the
  range of the Go field (`castTo (castFrom p) = p`), a null value carrying the payload the converter writes under a kept
  `Null` flag (`castTo zero = p`; pointer-backed: any payload, it is not touched) – the value comes back **unchanged**:
  same `Null`, same payload. -/
theorem primEcho (info : FieldInfo) (k : PrimK) (hir : ScalarIR info k) (obj : GoVal) (u n : Bool) (p : Sc) (x : GoVal)
    (t : Option TfTy) (hph : info.isPlaceholder = false) (he : info.parentIsOptionalEmbed = false)
    (hc : known u n = true → ∃ c, info.castFrom k p = some c)
    (hd : primDecode info k u n p = .ok x) :
    ∃ n' p', primBody info obj (some (.prim k u n p)) t (.ok x) = .ok (.prim k false n' p', []) ∧
      (∃ y, primDecode info k false n' p' = .ok y ∧ primNfEq info.isNullable x y = true) ∧
      (LeafOK info k u n p → u = false → n' = n ∧ p' = p) := by
  rw [primBody_inplace info k obj u n p t _ hir.rt.ek]
  unfold assignPrim
  simp only [hph, he, Bool.false_eq_true, if_false]
  unfold primDecode at hd
  by_cases hknown : known u n = true
  · obtain ⟨c, hcc⟩ := hc hknown
    have hrep := castFrom_hasRep info k p c hcc
    have hun : u = false ∧ n = false := by
      cases u <;> cases n <;> simp [known] at hknown ⊢
    obtain ⟨rfl, rfl⟩ := hun
    by_cases hn : info.isNullable = true
    · simp only [hknown, if_true, hcc, hn] at hd
      injection hd with hd
      subst hd
      obtain ⟨y', hy', hnf⟩ := hir.rt.invPtr hn c hrep
      refine ⟨false, c, by simp [hn], ⟨.ptr (some (.sc y')), by simp [primDecode, known, hy', hn], ?_⟩, ?_⟩
      · simp only [primNfEq, hn, if_true]
        exact scNfEq_symm _ _ hnf
      · intro hleaf _
        have := hleaf.rangePtr hknown hn
        rw [hcc] at this
        injection this with this
        exact ⟨rfl, this⟩
    · have hn' : info.isNullable = false := by simpa using hn
      simp only [hknown, if_true, hcc, hn', Bool.false_eq_true, if_false] at hd
      injection hd with hd
      subst hd
      obtain ⟨c', hc', _⟩ := hir.cast hn' c hrep
      obtain ⟨y', hy', hnf⟩ := hir.rt.inv c c' hrep hc'
      refine ⟨false, c', by simp [hn', hc'], ⟨.sc y', by simp [primDecode, known, hy', hn'], ?_⟩, ?_⟩
      · simp only [primNfEq, hn', Bool.false_eq_true, if_false]
        exact scNfEq_symm _ _ hnf
      · intro hleaf _
        have := hleaf.range hknown hn' c hcc
        rw [hc'] at this
        injection this with this
        exact ⟨rfl, this⟩
  · have hknown' : known u n = false := by simpa using hknown
    by_cases hn : info.isNullable = true
    · simp only [hknown', Bool.false_eq_true, if_false, zeroPrim, hn, if_true] at hd
      injection hd with hd
      subst hd
      refine ⟨true, p, by simp [hn], ⟨.ptr none, by simp [primDecode, known, zeroPrim, hn], by simp [primNfEq, hn]⟩, ?_⟩
      intro _ hu
      subst hu
      cases n <;> simp [known] at hknown' ⊢
    · have hn' : info.isNullable = false := by simpa using hn
      simp only [hknown', Bool.false_eq_true, if_false, zeroPrim, hn'] at hd
      injection hd with hd
      subst hd
      have hrep := hasRep_zero info.rep
      obtain ⟨c0, hc0, _⟩ := hir.cast hn' _ hrep
      refine ⟨n, c0, by simp [hn', hc0], ?_, ?_⟩
      · cases n with
        | true =>
          refine ⟨.sc (zeroOfRep info.rep), by simp [primDecode, known, zeroPrim, hn'], ?_⟩
          simp only [primNfEq, hn', Bool.false_eq_true, if_false]
          exact scNfEq_refl' _
        | false =>
          obtain ⟨y', hy', hnf⟩ := hir.rt.inv _ c0 hrep hc0
          refine ⟨.sc y', by simp [primDecode, known, hy', hn'], ?_⟩
          simp only [primNfEq, hn', Bool.false_eq_true, if_false]
          exact scNfEq_symm _ _ hnf
      · intro hleaf hu
        subst hu
        have hnt : n = true := by cases n <;> simp [known] at hknown' ⊢
        have := hleaf.nullPayload rfl hnt hn'
        rw [hc0] at this
        injection this with this
        exact ⟨rfl, this⟩

-- ------------------------------------------------------------------------------------------------------
-- the object template on an existing object value, with the result of the recursive call made explicit

theorem objBody_echo (rec : ToRec) (info : FieldInfo) (msg : Option MsgInfo) (oty : Option (List (String × TfTy)))
    (u n : Bool) (as : Option (List (String × TfVal))) (tys : List (String × TfTy)) (x : GoVal) (fs : List (String × GoVal))
    (ds : List Diag) (hs : List HookCall) (attrs' : List (String × TfVal)) (hs' : List HookCall)
    (hem : isEmptyMsg msg = true → fs = [])
    (hx : (info.isNullable = true ∧ x = .ptr (some (.struct fs))) ∨ (info.isNullable = false ∧ x = .struct fs))
    (hrec : rec (.struct fs) (some tys) { attrs := as.getD [], diags := ds, hooks := hs } =
        .ok { attrs := attrs', diags := ds, hooks := hs' }) :
    objBody rec info msg false (some (.obj u n as (some tys))) oty (.ok x) ds hs =
      .ok (.obj false n (some attrs') (some tys), ds, hs') := by
  unfold objBody
  rcases hx with ⟨hn, rfl⟩ | ⟨hn, rfl⟩
  · cases hE : isEmptyMsg msg with
    | false => cases as <;> simp only [Option.getD] at hrec <;> simp [hn, hrec]
    | true =>
      have := hem hE
      subst this
      cases as <;> simp only [Option.getD] at hrec <;> simp [hn, hrec]
  · cases hE : isEmptyMsg msg with
    | false => cases as <;> simp only [Option.getD] at hrec <;> simp [hn, hrec]
    | true =>
      have := hem hE
      subst this
      cases as <;> simp only [Option.getD] at hrec <;> simp [hn, hrec]

theorem objBody_echo_nil (rec : ToRec) (info : FieldInfo) (msg : Option MsgInfo) (oty : Option (List (String × TfTy)))
    (u n : Bool) (as : Option (List (String × TfVal))) (tys : List (String × TfTy)) (ds : List Diag) (hs : List HookCall)
    (hn : info.isNullable = true) :
    objBody rec info msg false (some (.obj u n as (some tys))) oty (.ok (.ptr none)) ds hs =
      .ok (.obj false true (some (as.getD [])) (some tys), ds, hs) := by
  unfold objBody
  cases as <;> simp [hn]

-- ------------------------------------------------------------------------------------------------------
-- lists and maps on an existing value, with the flags of the result made explicit

theorem listBody_inplace' (rec : ToRec) (info : FieldInfo) (msg : Option MsgInfo) (se : Bool) (obj0 : GoVal) (ety : Option TfTy)
    (u nl : Bool) (es0 : Option (List TfVal)) (et : Option TfTy)
    (elems : List GoVal) (st : ToSt) (oty : Option (List (String × TfTy))) (Q : GoVal → TfVal → Bool)
    (hrep : info.isRepeated = true) (hek : vkindOf info.tf.elemValueType ≠ .list)
    (hoty : elemObjTy (info.kind == .objectList || info.kind == .objectMap) ety = .ok oty)
    (hb : BodySpec (elemBodyOf rec info msg se obj0 ety oty) Q elems) :
    ∃ es hs, listOrMapBody rec info msg se obj0 (some (.list u nl es0 et)) ety (.slice (some elems)) st =
        .ok { attrs := setKey info.nameSnake (.list false (if elems.length > 0 then false else nl) (some es) et) st.attrs,
              diags := st.diags, hooks := st.hooks ++ hs } ∧
      es.length = elems.length ∧ (elems.zip es).all (fun (e, v) => Q e v) = true := by
  have hlen := reuseList_length (some (.list u nl es0 et)) elems.length ety
  obtain ⟨r, hs, hrun, hlen2, hall⟩ :=
    elemsList_spec (elemBodyOf rec info msg se obj0 ety oty) Q elems [] (reuseList (some (.list u nl es0 et)) elems.length ety).2.1
      st.diags st.hooks hb hlen
  simp only [List.length_nil, List.nil_append] at hrun
  have hcur : curIsElemKind info (some (.list u nl es0 et)) = false := by
    simp only [curIsElemKind, TfVal.vkind, beq_eq_false_iff_ne]
    exact fun h => hek h.symm
  have het : (reuseList (some (.list u nl es0 et)) elems.length ety).2.2 = et := by
    unfold reuseList; cases es0 <;> rfl
  have hnl : (reuseList (some (.list u nl es0 et)) elems.length ety).1 = nl := by
    unfold reuseList; cases es0 <;> rfl
  refine ⟨r, hs, ?_, hlen2, hall⟩
  unfold listOrMapBody
  simp only [hrep, if_true, hoty, hcur, Bool.false_eq_true, if_false, Option.getD, hrun, het, hnl]

theorem mapBody_inplace' (rec : ToRec) (info : FieldInfo) (msg : Option MsgInfo) (se : Bool) (obj0 : GoVal) (ety : Option TfTy)
    (u nl : Bool) (es0 : Option (List (String × TfVal))) (et : Option TfTy)
    (elems : List (String × GoVal)) (st : ToSt) (oty : Option (List (String × TfTy))) (Q : GoVal → TfVal → Bool)
    (hrep : info.isRepeated = false) (hek : vkindOf info.tf.elemValueType ≠ .map)
    (hoty : elemObjTy (info.kind == .objectList || info.kind == .objectMap) ety = .ok oty)
    (hnd : (elems.map (·.1)).Nodup)
    (hb : BodySpec (elemBodyOf rec info msg se obj0 ety oty) Q (elems.map (·.2))) :
    ∃ es hs, listOrMapBody rec info msg se obj0 (some (.map u nl es0 et)) ety (.map (some elems)) st =
        .ok { attrs := setKey info.nameSnake (.map false (if elems.length > 0 then false else nl) (some es) et) st.attrs,
              diags := st.diags, hooks := st.hooks ++ hs } ∧
      es.length = elems.length ∧ (∀ e ∈ elems, ∃ v, es.lookup e.1 = some v ∧ Q e.2 v = true) := by
  obtain ⟨r, hs, hrun, hlen, hall, _⟩ :=
    elemsMap_spec (elemBodyOf rec info msg se obj0 ety oty) Q elems [] st.diags st.hooks hb hnd (by simp [List.lookup])
  have hcur : curIsElemKind info (some (.map u nl es0 et)) = false := by
    simp only [curIsElemKind, TfVal.vkind, beq_eq_false_iff_ne]
    exact fun h => hek h.symm
  refine ⟨r, hs, ?_, by simpa using hlen, hall⟩
  unfold listOrMapBody
  simp only [hrep, Bool.false_eq_true, if_false, hoty, hcur, reuseMap, hrun]

-- ------------------------------------------------------------------------------------------------------
-- element loops: the rendering predicate strengthened by "nothing unknown below"

theorem bodySpec_and (body : ElemBody) (Q : GoVal → TfVal → Bool) (K : TfVal → Bool) (elems : List GoVal)
    (hb : BodySpec body Q elems) (hK : ∀ e v, Q e v = true → K v = true) :
    BodySpec body (fun e v => Q e v && K v) elems := by
  intro a ha ds hs
  obtain ⟨v, hs', hrun, hq⟩ := hb a ha ds hs
  exact ⟨v, hs', hrun, by simp [hq, hK a v hq]⟩

theorem primRenders_known (info : FieldInfo) (e : GoVal) (v : TfVal) (sk : List String) (h : primRenders info e v = true) :
    noUnknownDeep sk v = true := by
  cases v <;> simp [primRenders] at h
  simp [noUnknownDeep, h.1.1]

theorem zip_all_right {α β} (Q : α → β → Bool) : ∀ (xs : List α) (es : List β), es.length = xs.length →
    (xs.zip es).all (fun (e, v) => Q e v) = true → ∀ v ∈ es, ∃ e, Q e v = true
  | [], [], _, _, v, hv => by simp at hv
  | [], _ :: _, hl, _, _, _ => by simp at hl
  | _ :: _, [], hl, _, _, _ => by simp at hl
  | x :: xs, e :: es, hl, hall, v, hv => by
    simp only [List.zip_cons_cons, List.all_cons, Bool.and_eq_true] at hall
    simp only [List.mem_cons] at hv
    rcases hv with rfl | hv
    · exact ⟨x, hall.1⟩
    · exact zip_all_right Q xs es (by simpa using hl) hall.2 v hv

theorem zip_all_left {α β} (Q : α → β → Bool) (K : β → Bool) : ∀ (xs : List α) (es : List β),
    (xs.zip es).all (fun (e, v) => Q e v && K v) = true → (xs.zip es).all (fun (e, v) => Q e v) = true
  | [], _, _ => by simp
  | _ :: _, [], _ => by simp
  | x :: xs, e :: es, hall => by
    simp only [List.zip_cons_cons, List.all_cons, Bool.and_eq_true] at hall ⊢
    exact ⟨hall.1.1, zip_all_left Q K xs es hall.2⟩

theorem msgTyped_and (b : Bool) (P Q : GoVal → Prop) (x : GoVal) (hp : MsgTyped b P x) (hq : MsgTyped b Q x) :
    MsgTyped b (fun s => P s ∧ Q s) x := by
  unfold MsgTyped at *
  cases b
  · simp only [Bool.false_eq_true, if_false] at *
    obtain ⟨fs, rfl, h1⟩ := hp
    obtain ⟨fs', he, h2⟩ := hq
    injection he with he
    subst he
    exact ⟨fs, rfl, h1, h2⟩
  · simp only [if_true] at *
    rcases hp with rfl | ⟨fs, rfl, h1⟩
    · exact Or.inl rfl
    · rcases hq with he | ⟨fs', he, h2⟩
      · cases he
      · injection he with he
        injection he with he
        injection he with he
        subst he
        exact Or.inr ⟨fs, rfl, h1, h2⟩

/-- the object template on an absent value (message field, or element of a list / map): the rendering, and nothing
unknown below -/
theorem objBody_fresh_known (rec : ToRec) (info : FieldInfo) (msg : Option MsgInfo) (oty : Option (List (String × TfTy)))
    (x : GoVal) (diags : List Diag) (hooks : List HookCall) (P : GoVal → Prop) (R : GoVal → List (String × TfVal) → Bool)
    (sk : List String)
    (hrec : RecSpec rec oty P (fun s as => R s as && noUnknownAs sk as))
    (hE : (isEmptyMsg msg) = true → ∀ fs, x = .ptr (some (.struct fs)) ∨ x = .struct fs → fs = [])
    (ht : MsgTyped info.isNullable P x) :
    ∃ v hs, objBody rec info msg false none oty (.ok x) diags hooks = .ok (v, diags, hooks ++ hs) ∧
      objRenders info.isNullable R x v = true ∧ noUnknownDeep sk v = true := by
  unfold MsgTyped at ht
  by_cases hn : info.isNullable = true
  · simp only [hn, if_true] at ht
    rcases ht with rfl | ⟨fs, rfl, hP⟩
    · refine ⟨.obj false true (some []) oty, [], ?_, ?_, ?_⟩
      · simp [objBody, hn]
      · simp [objRenders, hn, isNilPtr]
      · simp [noUnknownDeep, noUnknownAs]
    · obtain ⟨attrs, hs, hrun, hR⟩ := hrec (.struct fs) diags hooks hP
      simp only [Bool.and_eq_true] at hR
      refine ⟨.obj false false (some attrs) oty, hs, ?_, ?_, ?_⟩
      · unfold objBody
        simp only [hn]
        cases hem : isEmptyMsg msg with
        | false => simp [hrun]
        | true =>
          have : fs = [] := hE hem fs (Or.inl rfl)
          subst this
          simp [hrun]
      · simp [objRenders, hn, isNilPtr, structOf, hR.1]
      · simp [noUnknownDeep, hR.2]
  · have hn' : info.isNullable = false := by simpa using hn
    simp only [hn', Bool.false_eq_true, if_false] at ht
    obtain ⟨fs, rfl, hP⟩ := ht
    cases hem : isEmptyMsg msg with
    | false =>
      obtain ⟨attrs, hs, hrun, hR⟩ := hrec (.struct fs) diags hooks hP
      simp only [Bool.and_eq_true] at hR
      refine ⟨.obj false false (some attrs) oty, hs, ?_, ?_, ?_⟩
      · unfold objBody
        simp [hn', hem, hrun]
      · simp [objRenders, hn', structOf, hR.1]
      · simp [noUnknownDeep, hR.2]
    | true =>
      have : fs = [] := hE hem fs (Or.inr rfl)
      subst this
      obtain ⟨attrs, hs, hrun, hR⟩ := hrec (.struct []) diags hooks hP
      simp only [Bool.and_eq_true] at hR
      refine ⟨.obj false false (some attrs) oty, hs, ?_, ?_, ?_⟩
      · unfold objBody
        simp [hn', hem, hrun]
      · simp [objRenders, hn', structOf, hR.1]
      · simp [noUnknownDeep, hR.2]

-- ------------------------------------------------------------------------------------------------------
-- list and map field blocks, in place or fresh, with everything about the result made explicit

theorem listField_run (info : FieldInfo) (mv : Option FieldInfo) (msg : Option MsgInfo) (sub : List Field) (obj : GoVal)
    (atys : List (String × TfTy)) (st : ToSt) (ety : TfTy) (oty : Option (List (String × TfTy)))
    (Q : GoVal → TfVal → Bool) (sk : List String) (elems : List GoVal)
    (hk : info.kind = .primitiveList ∨ info.kind = .objectList) (ho : info.oneOfName = "")
    (he : info.parentIsOptionalEmbed = false) (hrep : info.isRepeated = true)
    (hty : atys.lookup info.nameSnake = some (.list (some ety))) (hek : vkindOf info.tf.elemValueType ≠ .list)
    (hoty : elemObjTy (info.kind == .objectList || info.kind == .objectMap) (some ety) = .ok oty)
    (hx : getVal info obj = .slice (some elems))
    (hb : BodySpec (elemBodyOf (fun o a s => copyToFields sub o a s) info msg sub.isEmpty obj (some ety) oty)
        (fun e v => Q e v && noUnknownDeep sk v) elems)
    (u nl : Bool) (es0 : Option (List TfVal)) (et : Option TfTy)
    (hcur : st.attrs.lookup info.nameSnake = some (.list u nl es0 et) ∨
      (st.attrs.lookup info.nameSnake = none ∧ nl = true ∧ et = some ety)) :
    ∃ r hs, copyToField ⟨info, mv, msg, sub⟩ obj (some atys) st =
        .ok { attrs := setKey info.nameSnake (.list false (if elems.length > 0 then false else nl) (some r) et) st.attrs,
              diags := st.diags, hooks := st.hooks ++ hs } ∧
      r.length = elems.length ∧ (elems.zip r).all (fun (e, v) => Q e v) = true ∧
      noUnknownDeep sk (.list false (if elems.length > 0 then false else nl) (some r) et) = true := by
  rw [copyToField_list_eq_echo info mv msg sub obj atys st (some ety) hk ho he hrep hty, hx]
  have fin : ∀ (r : List TfVal), r.length = elems.length →
      (elems.zip r).all (fun (e, v) => Q e v && noUnknownDeep sk v) = true →
      (elems.zip r).all (fun (e, v) => Q e v) = true ∧
      noUnknownDeep sk (.list false (if elems.length > 0 then false else nl) (some r) et) = true := by
    intro r hlen hall
    refine ⟨zip_all_left Q (noUnknownDeep sk) elems r hall, ?_⟩
    simp only [noUnknownDeep, Bool.not_false, Bool.true_and]
    apply noUnknownList_of_forall
    intro v hv
    obtain ⟨e, hq⟩ := zip_all_right (fun e v => Q e v && noUnknownDeep sk v) elems r hlen hall v hv
    simp only [Bool.and_eq_true] at hq
    exact hq.2
  rcases hcur with hcur | ⟨hcur, rfl, rfl⟩
  · rw [hcur]
    obtain ⟨r, hs, hrun, hlen, hall⟩ := listBody_inplace' (fun o a s => copyToFields sub o a s) info msg sub.isEmpty obj
      (some ety) u nl es0 et elems st oty _ hrep hek hoty hb
    exact ⟨r, hs, hrun, hlen, fin r hlen hall⟩
  · rw [hcur, listBody_none_eq _ _ _ _ _ _ _ _ hrep hek]
    obtain ⟨r, hs, hrun, hlen, hall⟩ := listBody_inplace' (fun o a s => copyToFields sub o a s) info msg sub.isEmpty obj
      (some ety) false true none (some ety) elems st oty _ hrep hek hoty hb
    exact ⟨r, hs, hrun, hlen, fin r hlen hall⟩

theorem listField_run_nil (info : FieldInfo) (mv : Option FieldInfo) (msg : Option MsgInfo) (sub : List Field) (obj : GoVal)
    (atys : List (String × TfTy)) (st : ToSt) (ety : TfTy)
    (hk : info.kind = .primitiveList ∨ info.kind = .objectList) (ho : info.oneOfName = "")
    (he : info.parentIsOptionalEmbed = false) (hrep : info.isRepeated = true)
    (hty : atys.lookup info.nameSnake = some (.list (some ety))) (hek : vkindOf info.tf.elemValueType ≠ .list)
    (hx : getVal info obj = .slice none)
    (u nl : Bool) (es0 : Option (List TfVal)) (et : Option TfTy)
    (hcur : st.attrs.lookup info.nameSnake = some (.list u nl es0 et) ∨
      (st.attrs.lookup info.nameSnake = none ∧ nl = true ∧ et = some ety)) :
    copyToField ⟨info, mv, msg, sub⟩ obj (some atys) st =
        .ok { attrs := setKey info.nameSnake (.list false nl (some []) et) st.attrs, diags := st.diags, hooks := st.hooks } := by
  rw [copyToField_list_eq_echo info mv msg sub obj atys st (some ety) hk ho he hrep hty, hx]
  rcases hcur with hcur | ⟨hcur, rfl, rfl⟩
  · rw [hcur, listBody_inplace_nil _ _ _ _ _ _ _ _ _ _ _ hrep]
  · rw [hcur, listBody_none_eq _ _ _ _ _ _ _ _ hrep hek, listBody_inplace_nil _ _ _ _ _ _ _ _ _ _ _ hrep]

theorem mapField_run (info : FieldInfo) (mv : Option FieldInfo) (msg : Option MsgInfo) (sub : List Field) (obj : GoVal)
    (atys : List (String × TfTy)) (st : ToSt) (ety : TfTy) (oty : Option (List (String × TfTy)))
    (Q : GoVal → TfVal → Bool) (elems : List (String × GoVal))
    (hk : info.kind = .primitiveMap ∨ info.kind = .objectMap) (ho : info.oneOfName = "")
    (he : info.parentIsOptionalEmbed = false) (hrep : info.isRepeated = false)
    (hty : atys.lookup info.nameSnake = some (.map (some ety))) (hek : vkindOf info.tf.elemValueType ≠ .map)
    (hoty : elemObjTy (info.kind == .objectList || info.kind == .objectMap) (some ety) = .ok oty)
    (hx : getVal info obj = .map (some elems)) (hnd : (elems.map (·.1)).Nodup)
    (hb : BodySpec (elemBodyOf (fun o a s => copyToFields sub o a s) info msg sub.isEmpty obj (some ety) oty)
        (fun e v => Q e v && noUnknownDeep [] v) (elems.map (·.2)))
    (u nl : Bool) (es0 : Option (List (String × TfVal))) (et : Option TfTy)
    (hcur : st.attrs.lookup info.nameSnake = some (.map u nl es0 et) ∨
      (st.attrs.lookup info.nameSnake = none ∧ nl = true ∧ et = some ety)) (sk : List String) :
    ∃ r hs, copyToField ⟨info, mv, msg, sub⟩ obj (some atys) st =
        .ok { attrs := setKey info.nameSnake (.map false (if elems.length > 0 then false else nl) (some r) et) st.attrs,
              diags := st.diags, hooks := st.hooks ++ hs } ∧
      r.length = elems.length ∧ (∀ e ∈ elems, ∃ v, r.lookup e.1 = some v ∧ Q e.2 v = true) ∧
      noUnknownDeep sk (.map false (if elems.length > 0 then false else nl) (some r) et) = true := by
  rw [copyToField_map_eq_echo info mv msg sub obj atys st (some ety) hk ho he hrep hty, hx]
  have fin : ∀ (r : List (String × TfVal)), r.length = elems.length →
      (∀ e ∈ elems, ∃ v, r.lookup e.1 = some v ∧ (Q e.2 v && noUnknownDeep [] v) = true) →
      (∀ e ∈ elems, ∃ v, r.lookup e.1 = some v ∧ Q e.2 v = true) ∧
      noUnknownDeep sk (.map false (if elems.length > 0 then false else nl) (some r) et) = true := by
    intro r hlen hall
    refine ⟨?_, ?_⟩
    · intro e hee
      obtain ⟨v, hv, hq⟩ := hall e hee
      simp only [Bool.and_eq_true] at hq
      exact ⟨v, hv, hq.1⟩
    · simp only [noUnknownDeep, Bool.not_false, Bool.true_and]
      apply noUnknownAs_of_forall
      have hsome : ∀ kv ∈ elems, (r.lookup kv.1).isSome = true := by
        intro kv hkv
        obtain ⟨v, hv, _⟩ := hall kv hkv
        simp [hv]
      obtain ⟨hnd2, hkeys⟩ := keys_match elems r hnd hsome hlen
      intro kv hkv
      obtain ⟨xe, hxe, hk1⟩ := List.mem_map.mp (hkeys kv hkv)
      obtain ⟨v, hv, hq⟩ := hall xe hxe
      have hle := lookup_of_mem_nodup r kv.1 kv.2 hnd2 hkv
      rw [hk1, hle] at hv
      injection hv with hv
      subst hv
      simp only [Bool.and_eq_true] at hq
      exact hq.2
  rcases hcur with hcur | ⟨hcur, rfl, rfl⟩
  · rw [hcur]
    obtain ⟨r, hs, hrun, hlen, hall⟩ := mapBody_inplace' (fun o a s => copyToFields sub o a s) info msg sub.isEmpty obj
      (some ety) u nl es0 et elems st oty _ hrep hek hoty hnd hb
    exact ⟨r, hs, hrun, hlen, fin r hlen hall⟩
  · rw [hcur, mapBody_none_eq _ _ _ _ _ _ _ _ hrep hek]
    obtain ⟨r, hs, hrun, hlen, hall⟩ := mapBody_inplace' (fun o a s => copyToFields sub o a s) info msg sub.isEmpty obj
      (some ety) false true none (some ety) elems st oty _ hrep hek hoty hnd hb
    exact ⟨r, hs, hrun, hlen, fin r hlen hall⟩

theorem mapField_run_nil (info : FieldInfo) (mv : Option FieldInfo) (msg : Option MsgInfo) (sub : List Field) (obj : GoVal)
    (atys : List (String × TfTy)) (st : ToSt) (ety : TfTy)
    (hk : info.kind = .primitiveMap ∨ info.kind = .objectMap) (ho : info.oneOfName = "")
    (he : info.parentIsOptionalEmbed = false) (hrep : info.isRepeated = false)
    (hty : atys.lookup info.nameSnake = some (.map (some ety))) (hek : vkindOf info.tf.elemValueType ≠ .map)
    (hx : getVal info obj = .map none)
    (u nl : Bool) (es0 : Option (List (String × TfVal))) (et : Option TfTy)
    (hcur : st.attrs.lookup info.nameSnake = some (.map u nl es0 et) ∨
      (st.attrs.lookup info.nameSnake = none ∧ nl = true ∧ et = some ety)) :
    copyToField ⟨info, mv, msg, sub⟩ obj (some atys) st =
        .ok { attrs := setKey info.nameSnake (.map false nl (some []) et) st.attrs, diags := st.diags, hooks := st.hooks } := by
  rw [copyToField_map_eq_echo info mv msg sub obj atys st (some ety) hk ho he hrep hty, hx]
  rcases hcur with hcur | ⟨hcur, rfl, rfl⟩
  · rw [hcur, mapBody_inplace_nil _ _ _ _ _ _ _ _ _ _ _ hrep]
  · rw [hcur, mapBody_none_eq _ _ _ _ _ _ _ _ hrep hek, mapBody_inplace_nil _ _ _ _ _ _ _ _ _ _ _ hrep]

-- ------------------------------------------------------------------------------------------------------
-- CopyTo into an object that does not hold the attributes yet leaves nothing unknown at any depth

theorem primBody_prim (f : FieldInfo) (obj : GoVal) (cur : Option TfVal) (t : Option TfTy) (rd : Outcome GoVal)
    (v : TfVal) (ds : List Diag) (h : primBody f obj cur t rd = .ok (v, ds)) : ∃ k n p, v = .prim k false n p := by
  unfold primBody at h
  repeat' (first | (split at h) | (dsimp only at h; split at h))
  all_goals (first | (cases h; done) | (injection h with h; injection h with h1 h2; exact ⟨_, _, _, h1.symm⟩))

theorem copyToField_prim_known (info : FieldInfo) (mv : Option FieldInfo) (msg : Option MsgInfo) (sub : List Field) (obj : GoVal)
    (atys : List (String × TfTy)) (st : ToSt) (v : TfVal) (ds : List Diag) (hs : List HookCall) (ty : TfTy)
    (hk : info.kind = .primitive) (hty : atys.lookup info.nameSnake = some ty)
    (h : copyToField ⟨info, mv, msg, sub⟩ obj (some atys) st = .ok { attrs := setKey info.nameSnake v st.attrs, diags := ds, hooks := hs }) :
    ∃ k n p, v = .prim k false n p := by
  unfold copyToField copyToFieldWith at h
  simp only [Option.getD, hty, hk] at h
  split at h
  · rename_i v' ds' hpb
    injection h with h
    have hl := congrArg (fun s : ToSt => s.attrs.lookup info.nameSnake) h
    simp only [ToSt.set, lookup_setKey_same] at hl
    injection hl with hl
    subst hl
    exact primBody_prim _ _ _ _ _ _ _ hpb
  · cases h
  · cases h

theorem decide_pos_length {α} (l : List α) : decide (0 < l.length) = !l.isEmpty := by
  cases l <;> simp

mutual

theorem freshField : ∀ (f : Field) (s : GoVal) (atys : List (String × TfTy)) (st : ToSt) (ty : TfTy) (sk : List String),
    atys.lookup f.info.nameSnake = some ty → ToOK f s ty → RTOK f s → st.attrs.lookup f.info.nameSnake = none →
    ∃ v hs, copyToField f s (some atys) st =
        .ok { attrs := setKey f.info.nameSnake v st.attrs, diags := st.diags, hooks := st.hooks ++ hs } ∧
      rendersVal f s v = true ∧ noUnknownDeep sk v = true
  | ⟨info, mv, msg, sub⟩, obj, atys, st, ty, sk, hty, hok, hrt, hcur => by
    simp only at hty hcur
    unfold RTOK at hrt
    obtain ⟨ho, he, _, _, hrt⟩ := hrt
    have hrecK : ∀ (as : List (String × TfTy)) (sk' : List String),
        RecSpec (fun o a s => copyToFields sub o a s) (some as) (fun s => ToOKs sub s as ∧ RTOKs sub s)
          (fun o as' => rendersFields sub o as' && noUnknownAs sk' as') := by
      intro as sk' s diags hooks hP
      obtain ⟨st', hrun, hd, ⟨hs, hh⟩, hr, _, hkn⟩ :=
        freshFields sub s as { attrs := [], diags := diags, hooks := hooks } sk' hP.1 hP.2 (by intro f _; simp [List.lookup])
      refine ⟨st'.attrs, hs, ?_, ?_⟩
      · show copyToFields sub s (some as) _ = _
        rw [hrun]
        cases st'
        simp_all
      · simp only [Bool.and_eq_true]
        exact ⟨hr, noUnknownAs_of_forall sk' _ (hkn (by simp))⟩
    cases hkind : info.kind with
    | custom => simp only [hkind] at hrt
    | primitive =>
      obtain ⟨v, hs, hstep, hr⟩ := toField_renders ⟨info, mv, msg, sub⟩ obj atys st ty hty hok hcur
      obtain ⟨k, n, p, rfl⟩ := copyToField_prim_known info mv msg sub obj atys st v _ _ ty hkind hty hstep
      exact ⟨_, hs, hstep, hr, by simp [noUnknownDeep]⟩
    | object =>
      unfold ToOK at hok
      simp only [hkind] at hok hrt
      obtain ⟨_, as, rfl, hsub, hE, htyped⟩ := hok
      have hse : sub.isEmpty = false := by cases sub <;> simp_all
      obtain ⟨v, hs, hrun, hr, hkn⟩ :=
        objBody_fresh_known (fun o a s => copyToFields sub o a s) info msg (some as) (getVal info obj) st.diags st.hooks
          (fun s => ToOKs sub s as ∧ RTOKs sub s) (fun o as' => rendersFields sub o as') sk (hrecK as sk) hE
          (msgTyped_and _ _ _ _ htyped hrt.2)
      refine ⟨v, hs, ?_, ?_, hkn⟩
      · apply copyToField_obj_run info mv msg sub obj atys st as v _ _ hkind ho he hty
        rw [hcur, hse]
        exact hrun
      · simp only [rendersVal, hkind]
        exact hr
    | primitiveList =>
      unfold ToOK at hok
      simp only [hkind] at hok hrt
      obtain ⟨hrep, _, hnp, hreach, k, hk, rfl, hval⟩ := hok
      have hek : vkindOf info.tf.elemValueType ≠ .list := by rw [hk]; simp
      rcases hval with hnil | ⟨es, hes, htyped⟩
      · refine ⟨.list false true (some []) (some (.prim k)), [], ?_, ?_, by simp [noUnknownDeep, noUnknownList]⟩
        · rw [listField_run_nil info mv msg sub obj atys st (.prim k) (Or.inl hkind) ho he hrep hty hek hnil false true none
            (some (.prim k)) (Or.inr ⟨hcur, rfl, rfl⟩)]
          simp
        · simp [rendersVal, hkind, hnil, sliceElems]
      · have hoty : elemObjTy (info.kind == .objectList || info.kind == .objectMap) (some (.prim k)) = .ok none := by
          simp [elemObjTy, hkind]
        have hbody : elemBodyOf (fun o a s => copyToFields sub o a s) info msg sub.isEmpty obj (some (.prim k)) none =
            primElemBody info obj (some (.prim k)) := by simp [elemBodyOf, hkind]
        have hb := bodySpec_and _ _ (noUnknownDeep sk) _
          (primElem_spec info k obj es hk hnp (not_nil_of_reachable info obj hreach) htyped)
          (fun e v h => primRenders_known info e v sk h)
        rw [← hbody] at hb
        obtain ⟨r, hs, hrun, hlen, hall, hkn⟩ := listField_run info mv msg sub obj atys st (.prim k) none _ sk es (Or.inl hkind)
          ho he hrep hty hek hoty hes hb false true none (some (.prim k)) (Or.inr ⟨hcur, rfl, rfl⟩)
        refine ⟨_, hs, hrun, ?_, hkn⟩
        simp [rendersVal, hkind, hes, sliceElems, hlen, hall, decide_pos_length]
    | objectList =>
      unfold ToOK at hok
      simp only [hkind] at hok hrt
      obtain ⟨hrep, _, hreach, hevk, as, rfl, hsub, hne, hval⟩ := hok
      have hek : vkindOf info.tf.elemValueType ≠ .list := by rw [hevk]; simp
      have hse : sub.isEmpty = false := by cases sub <;> simp_all
      rcases hval with hnil | ⟨es, hes, htyped⟩
      · refine ⟨.list false true (some []) (some (.obj (some as))), [], ?_, ?_, by simp [noUnknownDeep, noUnknownList]⟩
        · rw [listField_run_nil info mv msg sub obj atys st (.obj (some as)) (Or.inr hkind) ho he hrep hty hek hnil false true none
            (some (.obj (some as))) (Or.inr ⟨hcur, rfl, rfl⟩)]
          simp
        · simp [rendersVal, hkind, hnil, sliceElems]
      · have hoty : elemObjTy (info.kind == .objectList || info.kind == .objectMap) (some (.obj (some as))) = .ok (some as) := by
          simp [elemObjTy, hkind]
        have htR : ∀ e ∈ es, MsgTyped info.isNullable (fun s => RTOKs sub s) e := by
          have := hrt.2.2
          rw [hes] at this
          exact this
        have hb : BodySpec (elemBodyOf (fun o a s => copyToFields sub o a s) info msg sub.isEmpty obj (some (.obj (some as))) (some as))
            (fun e v => objRenders info.isNullable (fun o as' => rendersFields sub o as') e v && noUnknownDeep sk v) es := by
          intro a ha diags hooks
          have hE : isEmptyMsg msg = true → ∀ fs, a = .ptr (some (.struct fs)) ∨ a = .struct fs → fs = [] := by
            intro h; rw [hne] at h; cases h
          obtain ⟨v, hs, hrun, hr, hkn⟩ := objBody_fresh_known (fun o a s => copyToFields sub o a s) info msg (some as) a diags hooks
            (fun s => ToOKs sub s as ∧ RTOKs sub s) (fun o as' => rendersFields sub o as') sk (hrecK as sk) hE
            (msgTyped_and _ _ _ _ (htyped a ha) (htR a ha))
          refine ⟨v, hs, ?_, by simp [hr, hkn]⟩
          simp only [elemBodyOf, hkind, hse]
          simpa using hrun
        obtain ⟨r, hs, hrun, hlen, hall, hkn⟩ := listField_run info mv msg sub obj atys st (.obj (some as)) (some as) _ sk es
          (Or.inr hkind) ho he hrep hty hek hoty hes hb false true none (some (.obj (some as))) (Or.inr ⟨hcur, rfl, rfl⟩)
        refine ⟨_, hs, hrun, ?_, hkn⟩
        simp [rendersVal, hkind, hes, sliceElems, hlen, hall, decide_pos_length]
    | primitiveMap =>
      unfold ToOK at hok
      simp only [hkind] at hok hrt
      obtain ⟨hrep, _, hnp, hreach, hzv, k, hk, rfl, hval⟩ := hok
      have hek : vkindOf info.tf.elemValueType ≠ .map := by rw [hk]; simp
      rcases hval with hnil | ⟨es, hes, hnd, htyped⟩
      · refine ⟨.map false true (some []) (some (.prim k)), [], ?_, ?_, by simp [noUnknownDeep, noUnknownAs]⟩
        · rw [mapField_run_nil info mv msg sub obj atys st (.prim k) (Or.inl hkind) ho he hrep hty hek hnil false true none
            (some (.prim k)) (Or.inr ⟨hcur, rfl, rfl⟩)]
          simp
        · simp [rendersVal, hkind, hnil, mapElems]
      · have hoty : elemObjTy (info.kind == .objectList || info.kind == .objectMap) (some (.prim k)) = .ok none := by
          simp [elemObjTy, hkind]
        have hbody : elemBodyOf (fun o a s => copyToFields sub o a s) info msg sub.isEmpty obj (some (.prim k)) none =
            primElemBody info obj (some (.prim k)) := by simp [elemBodyOf, hkind]
        have hb := bodySpec_and _ _ (noUnknownDeep []) _
          (primElem_spec info k obj (es.map (·.2)) hk hnp (not_nil_of_reachable info obj hreach)
            (by intro e he; simp at he; obtain ⟨a, ha⟩ := he; exact htyped _ ha))
          (fun e v h => primRenders_known info e v [] h)
        rw [← hbody] at hb
        obtain ⟨r, hs, hrun, hlen, hall, hkn⟩ := mapField_run info mv msg sub obj atys st (.prim k) none _ es (Or.inl hkind)
          ho he hrep hty hek hoty hes hnd hb false true none (some (.prim k)) (Or.inr ⟨hcur, rfl, rfl⟩) sk
        refine ⟨_, hs, hrun, ?_, hkn⟩
        simp only [rendersVal, hkind, hes, mapElems, Option.getD]
        simp [hlen, decide_pos_length]
        intro a b hab
        obtain ⟨v, hv, hq⟩ := hall (a, b) hab
        simp [hv, hq]
    | objectMap =>
      unfold ToOK at hok
      simp only [hkind] at hok hrt
      obtain ⟨hrep, _, hreach, hevk, as, rfl, hsub, hne, hval⟩ := hok
      have hek : vkindOf info.tf.elemValueType ≠ .map := by rw [hevk]; simp
      have hse : sub.isEmpty = false := by cases sub <;> simp_all
      rcases hval with hnil | ⟨es, hes, hnd, htyped⟩
      · refine ⟨.map false true (some []) (some (.obj (some as))), [], ?_, ?_, by simp [noUnknownDeep, noUnknownAs]⟩
        · rw [mapField_run_nil info mv msg sub obj atys st (.obj (some as)) (Or.inr hkind) ho he hrep hty hek hnil false true none
            (some (.obj (some as))) (Or.inr ⟨hcur, rfl, rfl⟩)]
          simp
        · simp [rendersVal, hkind, hnil, mapElems]
      · have hoty : elemObjTy (info.kind == .objectList || info.kind == .objectMap) (some (.obj (some as))) = .ok (some as) := by
          simp [elemObjTy, hkind]
        have htR : ∀ e ∈ es, MsgTyped info.isNullable (fun s => RTOKs sub s) e.2 := by
          have := hrt.2.2.2
          rw [hes] at this
          exact this
        have hb : BodySpec (elemBodyOf (fun o a s => copyToFields sub o a s) info msg sub.isEmpty obj (some (.obj (some as))) (some as))
            (fun e v => objRenders info.isNullable (fun o as' => rendersFields sub o as') e v && noUnknownDeep [] v)
            (es.map (·.2)) := by
          intro a ha diags hooks
          simp at ha
          obtain ⟨key, hka⟩ := ha
          have hE : isEmptyMsg msg = true → ∀ fs, a = .ptr (some (.struct fs)) ∨ a = .struct fs → fs = [] := by
            intro h; rw [hne] at h; cases h
          obtain ⟨v, hs, hrun, hr, hkn⟩ := objBody_fresh_known (fun o a s => copyToFields sub o a s) info msg (some as) a diags hooks
            (fun s => ToOKs sub s as ∧ RTOKs sub s) (fun o as' => rendersFields sub o as') [] (hrecK as []) hE
            (msgTyped_and _ _ _ _ (htyped _ hka) (htR _ hka))
          refine ⟨v, hs, ?_, by simp [hr, hkn]⟩
          simp only [elemBodyOf, hkind, hse]
          simpa using hrun
        obtain ⟨r, hs, hrun, hlen, hall, hkn⟩ := mapField_run info mv msg sub obj atys st (.obj (some as)) (some as) _ es
          (Or.inr hkind) ho he hrep hty hek hoty hes hnd hb false true none (some (.obj (some as))) (Or.inr ⟨hcur, rfl, rfl⟩) sk
        refine ⟨_, hs, hrun, ?_, hkn⟩
        simp only [rendersVal, hkind, hes, mapElems, Option.getD]
        simp [hlen, decide_pos_length]
        intro a b hab
        obtain ⟨v, hv, hq⟩ := hall (a, b) hab
        simp [hv, hq]

theorem freshFields : ∀ (fs : List Field) (s : GoVal) (atys : List (String × TfTy)) (st : ToSt) (sk : List String),
    ToOKs fs s atys → RTOKs fs s → (∀ f ∈ fs, st.attrs.lookup f.info.nameSnake = none) →
    ∃ st', copyToFields fs s (some atys) st = .ok st' ∧ st'.diags = st.diags ∧ (∃ hs, st'.hooks = st.hooks ++ hs) ∧
      rendersFields fs s st'.attrs = true ∧
      (∀ key, key ∉ fs.map (·.info.nameSnake) → st'.attrs.lookup key = st.attrs.lookup key) ∧
      ((∀ kv ∈ st.attrs, noUnknownDeep sk kv.2 = true) → ∀ kv ∈ st'.attrs, noUnknownDeep sk kv.2 = true)
  | [], _, _, st, _, _, _, _ => ⟨st, by simp [copyToFields], rfl, ⟨[], by simp⟩, by simp [rendersFields], by simp, fun h => h⟩
  | f :: rest, obj, atys, st, sk, hok, hrt, hnone => by
    unfold ToOKs at hok
    unfold RTOKs at hrt
    obtain ⟨⟨ty, hty, hf⟩, hnotin, hrest⟩ := hok
    obtain ⟨hrf, _, hrrest⟩ := hrt
    obtain ⟨v, hs1, hstep, hr, hkv⟩ := freshField f obj atys st ty sk hty hf hrf (hnone f (by simp))
    have hnone1 : ∀ g ∈ rest, (setKey f.info.nameSnake v st.attrs).lookup g.info.nameSnake = none := by
      intro g hg
      have hne : g.info.nameSnake ≠ f.info.nameSnake := by
        intro e
        exact hnotin (by rw [← e]; exact List.mem_map_of_mem hg)
      rw [lookup_setKey_other _ _ _ hne]
      exact hnone g (by simp [hg])
    obtain ⟨st', hrun, hd, ⟨hs2, hh⟩, hrr, hframe, hkn⟩ :=
      freshFields rest obj atys { attrs := setKey f.info.nameSnake v st.attrs, diags := st.diags, hooks := st.hooks ++ hs1 } sk
        hrest hrrest hnone1
    refine ⟨st', ?_, hd, ⟨hs1 ++ hs2, by simp [hh]⟩, ?_, ?_, ?_⟩
    · simp only [copyToFields, hstep]
      exact hrun
    · simp only [rendersFields]
      have : st'.attrs.lookup f.info.nameSnake = some v := by
        rw [hframe _ hnotin]
        exact lookup_setKey_same _ _ _
      simp [this, hr, hrr]
    · intro key hkey
      simp at hkey
      rw [hframe key (by simpa using hkey.2)]
      exact lookup_setKey_other _ _ _ hkey.1 _
    · intro h0
      apply hkn
      intro kv hkv
      simp only at hkv
      rw [setKey_of_lookup_none _ _ _ (hnone f (by simp))] at hkv
      simp only [List.mem_append, List.mem_singleton] at hkv
      rcases hkv with hkv | rfl
      · exact h0 kv hkv
      · exact hkv

end

theorem recSpec_fresh (sub : List Field) (as : List (String × TfTy)) (sk : List String) :
    RecSpec (fun o a s => copyToFields sub o a s) (some as) (fun s => ToOKs sub s as ∧ RTOKs sub s)
      (fun o as' => rendersFields sub o as' && noUnknownAs sk as') := by
  intro s diags hooks hP
  obtain ⟨st', hrun, hd, ⟨hs, hh⟩, hr, _, hkn⟩ :=
    freshFields sub s as { attrs := [], diags := diags, hooks := hooks } sk hP.1 hP.2 (by intro f _; simp [List.lookup])
  refine ⟨st'.attrs, hs, ?_, ?_⟩
  · show copyToFields sub s (some as) _ = _
    rw [hrun]
    cases st'
    simp_all
  · simp only [Bool.and_eq_true]
    exact ⟨hr, noUnknownAs_of_forall sk _ (hkn (by simp))⟩

/-- the element body of a list / map of messages renders every typed element, leaving nothing unknown below -/
theorem objElems_spec (info : FieldInfo) (msg : Option MsgInfo) (sub : List Field) (obj : GoVal) (as : List (String × TfTy))
    (sk : List String) (elems : List GoVal)
    (hkind : info.kind = .objectList ∨ info.kind = .objectMap) (hsub : sub ≠ []) (hne : isEmptyMsg msg = false)
    (hT : ∀ e ∈ elems, MsgTyped info.isNullable (fun s => ToOKs sub s as) e)
    (hR : ∀ e ∈ elems, MsgTyped info.isNullable (fun s => RTOKs sub s) e) :
    BodySpec (elemBodyOf (fun o a s => copyToFields sub o a s) info msg sub.isEmpty obj (some (.obj (some as))) (some as))
      (fun e v => objRenders info.isNullable (fun o as' => rendersFields sub o as') e v && noUnknownDeep sk v) elems := by
  intro a ha diags hooks
  have hse : sub.isEmpty = false := by cases sub <;> simp_all
  have hE : isEmptyMsg msg = true → ∀ fs, a = .ptr (some (.struct fs)) ∨ a = .struct fs → fs = [] := by
    intro h; rw [hne] at h; cases h
  obtain ⟨v, hs, hrun, hr, hkn⟩ := objBody_fresh_known (fun o a s => copyToFields sub o a s) info msg (some as) a diags hooks
    (fun s => ToOKs sub s as ∧ RTOKs sub s) (fun o as' => rendersFields sub o as') sk (recSpec_fresh sub as sk) hE
    (msgTyped_and _ _ _ _ (hT a ha) (hR a ha))
  refine ⟨v, hs, ?_, by simp [hr, hkn]⟩
  have hkk : (info.kind == .objectList || info.kind == .objectMap) = true := by rcases hkind with h | h <;> simp [h]
  simp only [elemBodyOf, hkk, hse, if_true]
  simpa using hrun

theorem primElems_spec (info : FieldInfo) (msg : Option MsgInfo) (sub : List Field) (obj : GoVal) (k : PrimK)
    (sk : List String) (elems : List GoVal)
    (hkind : info.kind = .primitiveList ∨ info.kind = .primitiveMap) (hk : vkindOf info.tf.elemValueType = .prim k)
    (hnp : info.isPlaceholder = false) (he : info.parentIsOptionalEmbed = false)
    (hT : ∀ e ∈ elems, PrimTyped info e) :
    BodySpec (elemBodyOf (fun o a s => copyToFields sub o a s) info msg sub.isEmpty obj (some (.prim k)) none)
      (fun e v => primRenders info e v && noUnknownDeep sk v) elems := by
  have hbody : elemBodyOf (fun o a s => copyToFields sub o a s) info msg sub.isEmpty obj (some (.prim k)) none =
      primElemBody info obj (some (.prim k)) := by rcases hkind with h | h <;> simp [elemBodyOf, h]
  rw [hbody]
  exact bodySpec_and _ _ (noUnknownDeep sk) _
    (primElem_spec info k obj elems hk hnp (not_nil_of_reachable info obj (reachable_plain info obj he)) hT)
    (fun e v h => primRenders_known info e v sk h)

-- ------------------------------------------------------------------------------------------------------
-- normal-form equality is reflexive on typed structs

theorem zip_self_all {α} (R : α → α → Bool) : ∀ (l : List α), (∀ e ∈ l, R e e = true) →
    (l.zip l).all (fun (p, q) => R p q) = true
  | [], _ => by simp
  | x :: xs, h => by
    simp only [List.zip_cons_cons, List.all_cons, Bool.and_eq_true]
    exact ⟨h x (by simp), zip_self_all R xs (fun e he => h e (by simp [he]))⟩

theorem primNfEq_refl (info : FieldInfo) (x : GoVal) (h : PrimVal info x) : primNfEq info.isNullable x x = true := by
  unfold PrimVal at h
  unfold primNfEq
  by_cases hn : info.isNullable = true
  · simp only [hn, if_true] at h ⊢
    rcases h with rfl | ⟨s, rfl, _⟩
    · rfl
    · exact scNfEq_refl' s
  · have hn' : info.isNullable = false := by simpa using hn
    simp only [hn', Bool.false_eq_true, if_false] at h ⊢
    obtain ⟨s, rfl, _⟩ := h
    exact scNfEq_refl' s

mutual
theorem valNfEq_refl : ∀ (f : Field) (obj : GoVal), RTOK f obj → valNfEq f (getVal f.info obj) (getVal f.info obj) = true
  | ⟨info, mv, msg, sub⟩, obj, h => by
    unfold RTOK at h
    obtain ⟨_, _, _, _, h⟩ := h
    have hmsg : ∀ e, MsgTyped info.isNullable (fun s => RTOKs sub s) e → msgNfEq info.isNullable sub e e = true := by
      intro e he
      unfold MsgTyped at he
      unfold msgNfEq
      by_cases hn : info.isNullable = true
      · simp only [hn, if_true] at he ⊢
        rcases he with rfl | ⟨fs, rfl, hP⟩
        · simp [isNilPtr]
        · simp [isNilPtr, structOf, nfEqFields_refl sub (.struct fs) hP]
      · have hn' : info.isNullable = false := by simpa using hn
        simp only [hn', Bool.false_eq_true, if_false] at he ⊢
        obtain ⟨fs, rfl, hP⟩ := he
        simp [structOf, nfEqFields_refl sub (.struct fs) hP]
    unfold valNfEq
    cases hk : info.kind with
    | custom => simp only [hk] at h
    | primitive =>
      simp only [hk] at h ⊢
      rcases h with hp | ⟨k, _, _, hv⟩
      · simp [hp]
      · split
        · rfl
        · exact primNfEq_refl info _ hv
    | object =>
      simp only [hk] at h ⊢
      exact hmsg _ h.2
    | primitiveList =>
      simp only [hk] at h ⊢
      obtain ⟨_, _, k, _, hv⟩ := h
      simp only [beq_self_eq_true, Bool.true_and]
      exact zip_self_all _ _ (fun e he => primNfEq_refl info e (hv e he))
    | objectList =>
      simp only [hk] at h ⊢
      obtain ⟨_, _, hv⟩ := h
      simp only [beq_self_eq_true, Bool.true_and]
      exact zip_self_all _ _ (fun e he => hmsg e (hv e he))
    | primitiveMap =>
      simp only [hk] at h ⊢
      obtain ⟨_, _, _, hnd, k, _, hv⟩ := h
      simp only [beq_self_eq_true, Bool.true_and, List.all_eq_true]
      intro kv hkv
      have := lookup_of_mem_nodup _ kv.1 kv.2 hnd hkv
      simp only [this]
      exact primNfEq_refl info kv.2 (hv kv hkv)
    | objectMap =>
      simp only [hk] at h ⊢
      obtain ⟨_, _, hnd, hv⟩ := h
      simp only [beq_self_eq_true, Bool.true_and, List.all_eq_true]
      intro kv hkv
      have := lookup_of_mem_nodup _ kv.1 kv.2 hnd hkv
      simp only [this]
      exact hmsg kv.2 (hv kv hkv)

theorem nfEqFields_refl : ∀ (fs : List Field) (obj : GoVal), RTOKs fs obj → nfEqFields fs obj obj = true
  | [], _, _ => by simp [nfEqFields]
  | f :: rest, obj, h => by
    unfold RTOKs at h
    obtain ⟨hf, _, hrest⟩ := h
    have ho : f.info.oneOfName = "" := by
      obtain ⟨info, mv, msg, sub⟩ := f
      unfold RTOK at hf
      exact hf.1
    unfold nfEqFields
    rw [nfEqField_eq_valNfEq f obj obj ho, valNfEq_refl f obj hf, nfEqFields_refl rest obj hrest]
    rfl
end

-- ------------------------------------------------------------------------------------------------------
-- the judgement and the decode relation only look at the attributes of the message's own fields

theorem planOKs_setKey (X : String → TfVal → Prop) (k : String) (v : TfVal) (attrs : List (String × TfVal)) (atys : List (String × TfTy)) :
    ∀ (fs : List Field), (∀ g ∈ fs, g.info.nameSnake ≠ k) → PlanOKs X fs attrs atys → PlanOKs X fs (setKey k v attrs) atys
  | [], _, _ => trivial
  | f :: rest, hne, h => by
    unfold PlanOKs at h ⊢
    obtain ⟨⟨a, ty, hla, hlt, hp⟩, h1, h2, hrest⟩ := h
    refine ⟨⟨a, ty, ?_, hlt, hp⟩, h1, h2, planOKs_setKey X k v attrs atys rest (fun g hg => hne g (by simp [hg])) hrest⟩
    rw [lookup_setKey_other _ _ _ (hne f (by simp))]
    exact hla

theorem decRels_setKey (k : String) (v : TfVal) (attrs : List (String × TfVal)) (o : GoVal) :
    ∀ (fs : List Field), (∀ g ∈ fs, g.info.nameSnake ≠ k) → DecRels fs attrs o → DecRels fs (setKey k v attrs) o
  | [], _, _ => trivial
  | f :: rest, hne, h => by
    unfold DecRels at h ⊢
    obtain ⟨⟨a, hla, hd⟩, hrest⟩ := h
    refine ⟨⟨a, ?_, hd⟩, decRels_setKey k v attrs o rest (fun g hg => hne g (by simp [hg])) hrest⟩
    rw [lookup_setKey_other _ _ _ (hne f (by simp))]
    exact hla

theorem keys_setKey_mem {α} (k : String) (v : α) (l : List (String × α)) (h : (l.lookup k).isSome = true) :
    (setKey k v l).map (·.1) = l.map (·.1) := by
  rw [keys_setKey]
  have : k ∈ l.map (·.1) := by
    cases hl : l.lookup k with
    | none => simp [hl] at h
    | some x => exact mem_keys_of_lookup _ _ _ hl
  simp [this]

-- ------------------------------------------------------------------------------------------------------
-- the second decode of a whole message from the second decodes of its fields

/-- decoding the echoed value `v` of field `f` again gives `x` back, in normal form -/
def SecondDec (ov : List (String × String)) (f : Field) (x : GoVal) (v : TfVal) : Prop :=
  ∀ (attrs2 : Option (List (String × TfVal))) (st2 : FromSt), (attrs2.getD []).lookup f.info.nameSnake = some v →
    ∃ y, copyFromField ov f attrs2 st2 = .ok { st2 with obj := st2.obj.setField f.info.name y } ∧ valNfEq f x y = true

theorem secondDec_fields (ov : List (String × String)) (o : GoVal) (attrs2 : Option (List (String × TfVal))) :
    ∀ (fs : List Field) (st2 : FromSt), IsStruct st2.obj →
      (∀ f ∈ fs, f.info.oneOfName = "" ∧ f.info.parentIsOptionalEmbed = false ∧
        (f.info.isPlaceholder = true → f.info.kind = .primitive)) →
      (fs.map (·.info.name)).Nodup →
      (∀ f ∈ fs, ∃ v, (attrs2.getD []).lookup f.info.nameSnake = some v ∧
        (f.info.isPlaceholder = true ∨ SecondDec ov f (getVal f.info o) v)) →
      ∃ o2, copyFromFields ov fs attrs2 st2 = .ok { st2 with obj := o2 } ∧ IsStruct o2 ∧
        (∀ f ∈ fs, valNfEq f (getVal f.info o) (getVal f.info o2) = true) ∧
        (∀ name, name ∉ fs.map (·.info.name) → o2.field? name = st2.obj.field? name)
  | [], st2, hs, _, _, _ => ⟨st2.obj, by simp [copyFromFields], hs, by simp, by simp⟩
  | f :: rest, st2, hs, hpl, hnd, hsd => by
    obtain ⟨ho, he, hphk⟩ := hpl f (by simp)
    obtain ⟨v, hl, hsdf⟩ := hsd f (by simp)
    simp only [List.map_cons, List.nodup_cons] at hnd
    by_cases hph : f.info.isPlaceholder = true
    · obtain ⟨o2, hrun2, hso, hall, hframe⟩ := secondDec_fields ov o attrs2 rest st2 hs
        (fun g hg => hpl g (by simp [hg])) hnd.2 (fun g hg => hsd g (by simp [hg]))
      refine ⟨o2, ?_, hso, ?_, ?_⟩
      · simp only [copyFromFields, hph, if_true]
        exact hrun2
      · intro g hg
        simp only [List.mem_cons] at hg
        rcases hg with rfl | hg
        · obtain ⟨info, mv, msg, sub⟩ := g
          simp only at hph hphk
          unfold valNfEq
          simp [hphk hph, hph]
        · exact hall g hg
      · intro name hname
        simp only [List.map_cons, List.mem_cons, not_or] at hname
        exact hframe name hname.2
    · have hph' : f.info.isPlaceholder = false := by simpa using hph
      rcases hsdf with hsdf | hsdf
      · exact absurd hsdf hph
      obtain ⟨y, hrun, hv⟩ := hsdf attrs2 st2 hl
      obtain ⟨o2, hrun2, hso, hall, hframe⟩ := secondDec_fields ov o attrs2 rest
        { st2 with obj := st2.obj.setField f.info.name y } (isStruct_setField _ _ _ hs)
        (fun g hg => hpl g (by simp [hg])) hnd.2 (fun g hg => hsd g (by simp [hg]))
      refine ⟨o2, ?_, hso, ?_, ?_⟩
      · simp only [copyFromFields, hph', Bool.false_eq_true, if_false, hrun]
        exact hrun2
      · intro g hg
        simp only [List.mem_cons] at hg
        rcases hg with rfl | hg
        · rw [getVal_plain g.info o2 ho he, hframe g.info.name hnd.1, field?_setField_same _ _ _ hs]
          exact hv
        · exact hall g hg
      · intro name hname
        simp only [List.map_cons, List.mem_cons, not_or] at hname
        rw [hframe name hname.2]
        exact field?_setField_other _ _ _ _ hname.1

-- ------------------------------------------------------------------------------------------------------
-- small facts about the judgement

theorem planOKs_plain (X : String → TfVal → Prop) : ∀ (fs : List Field) (attrs : List (String × TfVal)) (atys : List (String × TfTy)),
    PlanOKs X fs attrs atys →
    (∀ f ∈ fs, f.info.oneOfName = "" ∧ f.info.parentIsOptionalEmbed = false ∧
      (f.info.isPlaceholder = true → f.info.kind = .primitive)) ∧
    (fs.map (·.info.name)).Nodup
  | [], _, _, _ => ⟨by simp, by simp⟩
  | f :: rest, attrs, atys, h => by
    unfold PlanOKs at h
    obtain ⟨⟨a, ty, _, _, hp⟩, _, hn, hrest⟩ := h
    obtain ⟨h1, h2⟩ := planOKs_plain X rest attrs atys hrest
    refine ⟨?_, by simp only [List.map_cons, List.nodup_cons]; exact ⟨hn, h2⟩⟩
    intro g hg
    simp only [List.mem_cons] at hg
    rcases hg with rfl | hg
    · obtain ⟨info, mv, msg, sub⟩ := g
      unfold PlanOK at hp
      exact ⟨hp.1, hp.2.1, hp.2.2.1⟩
    · exact h1 g hg

theorem msgTyped_wrap_inv (b : Bool) (P : GoVal → Prop) (fs : List (String × GoVal))
    (h : MsgTyped b P (if b then .ptr (some (.struct fs)) else .struct fs)) : P (.struct fs) := by
  unfold MsgTyped at h
  cases b
  · simp only [Bool.false_eq_true, if_false] at h
    obtain ⟨fs', he, hP⟩ := h
    injection he with he
    subst he
    exact hP
  · simp only [if_true] at h
    rcases h with he | ⟨fs', he, hP⟩
    · cases he
    · injection he with he
      injection he with he
      injection he with he
      subst he
      exact hP

theorem structOf_of_isStruct (o : GoVal) (h : IsStruct o) : structOf o = o := by
  cases o <;> simp_all [IsStruct, structOf]

/-- decoding a list value again: empty lists directly, non-empty ones through the read-back theorem -/
theorem secondDec_list (ov : List (String × String)) (info : FieldInfo) (mv : Option FieldInfo) (msg : Option MsgInfo)
    (sub : List Field) (o : GoVal) (xs : List GoVal) (r : List TfVal) (nl : Bool) (et : Option TfTy)
    (hk : info.kind = .primitiveList ∨ info.kind = .objectList) (ho : info.oneOfName = "")
    (he : info.parentIsOptionalEmbed = false) (hph : info.isPlaceholder = false)
    (hvt : vkindOf info.tf.valueType = .list)
    (hx : getVal info o = .slice (some xs)) (hlen : r.length = xs.length)
    (hrt : RTOK ⟨info, mv, msg, sub⟩ o)
    (hrend : xs ≠ [] → rendersVal ⟨info, mv, msg, sub⟩ o (.list false false (some r) et) = true) :
    SecondDec ov ⟨info, mv, msg, sub⟩ (getVal info o) (.list false (if xs.length > 0 then false else nl) (some r) et) := by
  intro attrs2 st2 hl2
  cases xs with
  | nil =>
    have hr : r = [] := by simpa using hlen
    subst hr
    simp only [List.length_nil, Nat.lt_irrefl, gt_iff_lt, if_false] at hl2
    refine ⟨.slice (some []), ?_, ?_⟩
    · simp only [copyFromField]
      cases nl with
      | false =>
        exact fromFieldWith_list_run _ ov info mv msg attrs2 st2 false false (some []) et [] hk he hvt rfl hl2
          (by simp [fromElemsList])
      | true =>
        have := fromFieldWith_unknown_run
          (fun as s => copyFromFields ov sub as { s with obj := resetOneOfs ((msg.map (·.oneOfNames)).getD []) s.obj })
          ov info mv msg attrs2 st2 _ ho he hl2 (Or.inr (Or.inl ⟨hk, false, true, some [], et, rfl, rfl, hvt⟩))
        have hzw : zeroWrite info = GoVal.slice (some []) := by rcases hk with hk | hk <;> simp [zeroWrite, hk]
        rw [hzw] at this
        exact this
    · rw [hx]
      unfold valNfEq
      rcases hk with hk | hk <;> simp [hk, sliceElems]
  | cons x xs' =>
    simp only [List.length_cons, gt_iff_lt, Nat.zero_lt_succ, if_true] at hl2
    exact fromField_reads ov ⟨info, mv, msg, sub⟩ o attrs2 st2 _ hl2 (hrend (by simp)) hrt hph

theorem secondDec_map (ov : List (String × String)) (info : FieldInfo) (mv : Option FieldInfo) (msg : Option MsgInfo)
    (sub : List Field) (o : GoVal) (xs : List (String × GoVal)) (r : List (String × TfVal)) (nl : Bool) (et : Option TfTy)
    (hk : info.kind = .primitiveMap ∨ info.kind = .objectMap) (ho : info.oneOfName = "")
    (he : info.parentIsOptionalEmbed = false) (hph : info.isPlaceholder = false)
    (hvt : vkindOf info.tf.valueType = .map)
    (hx : getVal info o = .map (some xs)) (hlen : r.length = xs.length)
    (hrt : RTOK ⟨info, mv, msg, sub⟩ o)
    (hrend : xs ≠ [] → rendersVal ⟨info, mv, msg, sub⟩ o (.map false false (some r) et) = true) :
    SecondDec ov ⟨info, mv, msg, sub⟩ (getVal info o) (.map false (if xs.length > 0 then false else nl) (some r) et) := by
  intro attrs2 st2 hl2
  cases xs with
  | nil =>
    have hr : r = [] := by simpa using hlen
    subst hr
    simp only [List.length_nil, Nat.lt_irrefl, gt_iff_lt, if_false] at hl2
    refine ⟨.map (some []), ?_, ?_⟩
    · simp only [copyFromField]
      cases nl with
      | false =>
        exact fromFieldWith_map_run _ ov info mv msg attrs2 st2 false false (some []) et [] hk he hvt rfl hl2
          (by simp [fromElemsMap])
      | true =>
        have := fromFieldWith_unknown_run
          (fun as s => copyFromFields ov sub as { s with obj := resetOneOfs ((msg.map (·.oneOfNames)).getD []) s.obj })
          ov info mv msg attrs2 st2 _ ho he hl2 (Or.inr (Or.inr ⟨hk, false, true, some [], et, rfl, rfl, hvt⟩))
        have hzw : zeroWrite info = GoVal.map (some []) := by rcases hk with hk | hk <;> simp [zeroWrite, hk]
        rw [hzw] at this
        exact this
    · rw [hx]
      unfold valNfEq
      rcases hk with hk | hk <;> simp [hk, mapElems]
  | cons x xs' =>
    simp only [List.length_cons, gt_iff_lt, Nat.zero_lt_succ, if_true] at hl2
    exact fromField_reads ov ⟨info, mv, msg, sub⟩ o attrs2 st2 _ hl2 (hrend (by simp)) hrt hph

-- ------------------------------------------------------------------------------------------------------
-- C08 steps 3 and 4: the induction over the IR

/-- what the echo of one attribute satisfies (`a`: planned value, `x`: decoded Go value, `v`: echoed value): nothing
unknown at any depth, every known planned value kept, and (placeholders aside, which CopyFrom skips) decoding `v` again
gives `x` back in normal form -/
def EchoV (ov : List (String × String)) (skN skE : List String) (f : Field) (x : GoVal) (a v : TfVal) : Prop :=
  noUnknownDeep skN v = true ∧ echoKeeps skE a v = true ∧ (f.info.isPlaceholder = true ∨ SecondDec ov f x v)

/-- what the echo needs from the attributes of a plan (sub-)object that are not attributes of generated fields (injected
attributes; the converters never touch them): skipped or known, and skipped or kept by `echoKeeps` when compared with
themselves (e.g. any scalar value) -/
def ExtraOK (X : String → TfVal → Prop) (skN skE : List String) : Prop :=
  ∀ k v, X k v → (skN.contains k = true ∨ noUnknownDeep skN v = true) ∧ (skE.contains k = true ∨ echoKeeps skE v v = true)

/-- no attributes besides those of the generated fields -/
def NoExtra : String → TfVal → Prop := fun _ _ => False

theorem extraOK_none (skN skE : List String) : ExtraOK NoExtra skN skE := by
  intro k v h
  cases h

/-- injected attributes: named in the skip list of `noUnknownDeep`, holding any scalar value (any flags, any payload) -/
def InjectedScalar (skN : List String) : String → TfVal → Prop :=
  fun k v => skN.contains k = true ∧ ∃ pk u n p, v = .prim pk u n p

theorem extraOK_injected (skN skE : List String) : ExtraOK (InjectedScalar skN) skN skE := by
  intro k v ⟨hk, pk, u, n, p, hv⟩
  subst hv
  refine ⟨Or.inl hk, Or.inr ?_⟩
  cases u <;> simp [echoKeeps, TfVal.beq]

/-- a whole (sub-)object: from the echoes of the fields to `noUnknownAs` / `echoKeepsAs` -/
theorem echo_attrs (X : String → TfVal → Prop) (ov : List (String × String)) (skN skE : List String)
    (hX : ExtraOK X skN skE) (fs : List Field) (o : GoVal)
    (A A' : List (String × TfVal)) (hkeys : KeysOK X fs A) (hk' : A'.map (·.1) = A.map (·.1))
    (hframe : ∀ key, key ∉ fs.map (·.info.nameSnake) → A'.lookup key = A.lookup key)
    (hall : ∀ f ∈ fs, ∃ a v, A.lookup f.info.nameSnake = some a ∧ A'.lookup f.info.nameSnake = some v ∧
        EchoV ov skN skE f (getVal f.info o) a v) :
    noUnknownAs skN A' = true ∧ echoKeepsAs skE A A' = true := by
  have hndk : (A'.map (·.1)).Nodup := by rw [hk']; exact hkeys.1
  refine ⟨?_, ?_⟩
  · apply noUnknownAs_of_forall'
    intro kv hkv
    have hl' := lookup_of_mem_nodup A' kv.1 kv.2 hndk hkv
    by_cases hin : kv.1 ∈ fs.map (·.info.nameSnake)
    · obtain ⟨g, hg, hgn⟩ := List.mem_map.mp hin
      obtain ⟨a', v', _, hlv, hev⟩ := hall g hg
      rw [← hgn, hlv] at hl'
      injection hl' with hl'
      subst hl'
      exact Or.inr hev.1
    · rw [hframe kv.1 hin] at hl'
      have hmem := mem_of_lookup _ _ _ hl'
      rcases hkeys.2 (kv.1, kv.2) hmem with h | h
      · exact absurd h hin
      · exact (hX _ _ h).1
  · apply echoKeepsAs_of_forall'
    intro kv hkv
    have hl := lookup_of_mem_nodup A kv.1 kv.2 hkeys.1 hkv
    rcases hkeys.2 kv hkv with hin | hx
    · obtain ⟨g, hg, hgn⟩ := List.mem_map.mp hin
      obtain ⟨a', v', hla, hlv, hev⟩ := hall g hg
      rw [← hgn] at hl
      rw [hla] at hl
      injection hl with hl
      subst hl
      exact Or.inr ⟨v', by rw [← hgn]; exact hlv, hev.2.1⟩
    · by_cases hin : kv.1 ∈ fs.map (·.info.nameSnake)
      · obtain ⟨g, hg, hgn⟩ := List.mem_map.mp hin
        obtain ⟨a', v', hla, hlv, hev⟩ := hall g hg
        rw [← hgn] at hl
        rw [hla] at hl
        injection hl with hl
        subst hl
        exact Or.inr ⟨v', by rw [← hgn]; exact hlv, hev.2.1⟩
      · rcases (hX _ _ hx).2 with hc | hr
        · exact Or.inl hc
        · exact Or.inr ⟨kv.2, by rw [hframe kv.1 hin]; exact hl, hr⟩

mutual

theorem echoField (X : String → TfVal → Prop) (ov : List (String × String)) (skN skE : List String)
    (hX : ExtraOK X skN skE) : ∀ (f : Field) (o : GoVal)
    (atys : List (String × TfTy)) (st : ToSt) (a : TfVal) (ty : TfTy),
    atys.lookup f.info.nameSnake = some ty → st.attrs.lookup f.info.nameSnake = some a →
    PlanOK X f a ty → ToOK f o ty → RTOK f o → DecRel f a (getVal f.info o) →
    ∃ v hs, copyToField f o (some atys) st =
        .ok { attrs := setKey f.info.nameSnake v st.attrs, diags := st.diags, hooks := st.hooks ++ hs } ∧
      EchoV ov skN skE f (getVal f.info o) a v
  | ⟨info, mv, msg, sub⟩, o, atys, st, a, ty, hty, hcur, hp, hT, hR, hdec => by
    simp only at hty hcur hdec
    have hRT := hR
    unfold PlanOK at hp
    obtain ⟨ho, he, hphk, hEm, hp⟩ := hp
    unfold DecRel at hdec
    unfold ToOK at hT
    unfold RTOK at hR
    obtain ⟨_, _, _, _, hR⟩ := hR
    unfold EchoV
    cases hk : info.kind with
    | custom => simp only [hk] at hp
    | primitive =>
      simp only [hk] at hp hdec
      obtain ⟨k, u, n, p, rfl, rfl, hvk, hp⟩ := hp
      by_cases hph : info.isPlaceholder = true
      · -- the placeholder of a message without fields: the existing value is kept, Unknown cleared
        have hpb : primBody info o (some (.prim k u n p)) (some (.prim k)) (.ok (getVal info o)) =
            .ok (.prim k false n p, []) := by
          rw [primBody_inplace info k o u n p _ _ hvk]
          simp [assignPrim, hph]
        refine ⟨.prim k false n p, [], ?_, by simp [noUnknownDeep], ?_, Or.inl hph⟩
        · rw [copyToField_prim_run info mv msg sub o atys st k _ hk ho he hty (by rw [hcur]; exact hpb)]
          simp
        · cases u <;> simp [echoKeeps, TfVal.beq]
      · have hph' : info.isPlaceholder = false := by simpa using hph
        rcases hp with hp | ⟨hvt, hir, hleaf⟩
        · exact absurd hp hph
        rcases hdec with hd0 | ⟨k', u', n', p', he', hd⟩
        · exact absurd hd0 hph
        injection he' with e1 e2 e3 e4
        subst e1 e2 e3 e4
        obtain ⟨n2, p2, hpb, ⟨y, hd2, hnf⟩, hex⟩ :=
          primEcho info k hir o u n p (getVal info o) (some (.prim k)) hph' he hleaf.castable hd
        refine ⟨.prim k false n2 p2, [], ?_, by simp [noUnknownDeep], ?_, Or.inr ?_⟩
        · rw [copyToField_prim_run info mv msg sub o atys st k _ hk ho he hty (by rw [hcur]; exact hpb)]
          simp
        · cases u with
          | true => simp [echoKeeps]
          | false =>
            obtain ⟨rfl, rfl⟩ := hex hleaf rfl
            simp [echoKeeps, TfVal.beq]
        · intro attrs2 st2 hl2
          refine ⟨y, ?_, ?_⟩
          · simp only [copyFromField]
            exact fromFieldWith_prim_run _ ov info mv msg attrs2 st2 k false n2 p2 y hk ho he hvt hl2 hd2
          · unfold valNfEq
            simp only [hk, hph', Bool.false_eq_true, if_false]
            exact hnf
    | object =>
      simp only [hk] at hp hdec hT hR
      obtain ⟨u, n, as, tys, rfl, rfl, hvt, hsub, hkn, hunk⟩ := hp
      obtain ⟨u', n', as', tys', he', hdk, hdu⟩ := hdec
      injection he' with e1 e2 e3 e4
      subst e1 e2 e3 e4
      obtain ⟨_, tys2, hty2, _, hE, hmT⟩ := hT
      injection hty2 with hty2
      injection hty2 with hty2
      subst hty2
      have hmR := hR.2
      have hse : sub.isEmpty = false := by cases sub <;> simp_all
      by_cases hknown : known u n = true
      · obtain ⟨hP, hkeys⟩ := hkn hknown
        obtain ⟨inner, hsi, hx, hD⟩ := hdk hknown
        have hun : u = false ∧ n = false := by cases u <;> cases n <;> simp [known] at hknown ⊢
        obtain ⟨rfl, rfl⟩ := hun
        cases inner with
        | struct fs =>
          rw [hx] at hmT hmR
          have hTi := msgTyped_wrap_inv _ _ fs hmT
          have hRi := msgTyped_wrap_inv _ _ fs hmR
          obtain ⟨st', hrun, hd', ⟨hs', hh⟩, hkeys', hframe', hall⟩ := echoFields X ov skN skE hX sub (.struct fs) tys
            { attrs := as.getD [], diags := st.diags, hooks := st.hooks } hP hTi hRi hD
          obtain ⟨hplain, hndN⟩ := planOKs_plain X sub _ tys hP
          have hrec : (fun o a s => copyToFields sub o a s) (.struct fs) (some tys)
              { attrs := as.getD [], diags := st.diags, hooks := st.hooks } =
              .ok { attrs := st'.attrs, diags := st.diags, hooks := st.hooks ++ hs' } := by
            show copyToFields sub _ _ _ = _
            rw [hrun]
            cases st'
            simp_all
          have hxx : (info.isNullable = true ∧ getVal info o = .ptr (some (.struct fs))) ∨
              (info.isNullable = false ∧ getVal info o = .struct fs) := by
            cases hn : info.isNullable <;> simp [hn] at hx ⊢ <;> exact hx
          have hemv : isEmptyMsg msg = true → fs = [] :=
            fun h => hE h fs (hxx.elim (fun h => Or.inl h.2) (fun h => Or.inr h.2))
          have hob := objBody_echo (fun o a s => copyToFields sub o a s) info msg (some tys) false false as tys (getVal info o) fs
            st.diags st.hooks st'.attrs (st.hooks ++ hs') hemv hxx hrec
          obtain ⟨hknA, hkeepA⟩ := echo_attrs X ov skN skE hX sub (.struct fs) (as.getD []) st'.attrs hkeys hkeys' hframe' hall
          refine ⟨.obj false false (some st'.attrs) (some tys), hs', ?_, ?_, ?_, ?_⟩
          · apply copyToField_obj_run info mv msg sub o atys st tys _ _ _ hk ho he hty
            rw [hcur, hse]
            exact hob
          · simp only [noUnknownDeep, Bool.not_false, Bool.true_and]
            exact hknA
          · cases as with
            | none => simp [echoKeeps]
            | some l =>
              simp only [echoKeeps, Bool.false_eq_true, if_false, beq_self_eq_true, Bool.true_and, Bool.false_or, Option.getD_some]
              exact hkeepA
          · refine Or.inr ?_
            intro attrs2 st2 hl2
            by_cases hem : isEmptyMsg msg = true
            · have hfs := hemv hem
              subst hfs
              refine ⟨if info.isNullable then .ptr (some (.struct [])) else .struct [], ?_, ?_⟩
              · simp only [copyFromField]
                exact fromFieldWith_obj_empty_run _ ov info mv msg attrs2 st2 false false (some st'.attrs) (some tys) hk ho he hvt
                  hem rfl hl2
              · unfold valNfEq
                simp only [hk]
                rw [hx]
                unfold msgNfEq
                have hpl := nfEqFields_placeholders sub (.struct []) (.struct []) (hEm hem)
                cases hn : info.isNullable
                · simp only [Bool.false_eq_true, if_false, structOf]
                  exact hpl
                · simp [isNilPtr, structOf, hpl]
            · have hem' : isEmptyMsg msg = false := by simpa using hem
              obtain ⟨o2, hrun2, hso2, hall2, _⟩ := secondDec_fields ov (.struct fs) (some st'.attrs) sub
                { obj := resetOneOfs ((msg.map (·.oneOfNames)).getD []) (.struct []), diags := st2.diags, hooks := st2.hooks }
                (isStruct_resetOneOfs _ _ trivial) hplain hndN
                (fun g hg => by
                  obtain ⟨a', v', _, hlv, hev⟩ := hall g hg
                  exact ⟨v', hlv, hev.2.2⟩)
              have hnf : nfEqFields sub (.struct fs) o2 = true :=
                nfEqFields_of_valNfEq sub (.struct fs) o2 (fun g hg => ⟨(hplain g hg).1, hall2 g hg⟩)
              refine ⟨if info.isNullable then .ptr (some o2) else o2, ?_, ?_⟩
              · simp only [copyFromField]
                exact fromFieldWith_obj_run _ ov info mv msg attrs2 st2 false false (some st'.attrs) (some tys) o2 hk ho he hvt hem'
                  rfl hl2 hrun2
              · unfold valNfEq
                simp only [hk]
                rw [hx]
                unfold msgNfEq
                cases hn : info.isNullable
                · simp only [Bool.false_eq_true, if_false, structOf_of_isStruct o2 hso2]
                  exact hnf
                · simp [isNilPtr, structOf, hnf]
        | sc _ => cases hsi
        | ptr _ => cases hsi
        | slice _ => cases hsi
        | map _ => cases hsi
        | iface _ => cases hsi
      · have hknown' : known u n = false := by simpa using hknown
        obtain ⟨has, hz⟩ := hunk hknown'
        have hx := hdu hknown'
        have hnu : u = false → n = true := by
          intro hu; subst hu; cases n <;> simp [known] at hknown' ⊢
        by_cases hn : info.isNullable = true
        · simp only [hn, if_true] at hx
          refine ⟨.obj false true (some (as.getD [])) (some tys), [], ?_, ?_, ?_, ?_⟩
          · have hob := objBody_echo_nil (fun o a s => copyToFields sub o a s) info msg (some tys) u n as tys st.diags st.hooks hn
            rw [copyToField_obj_run info mv msg sub o atys st tys _ _ _ hk ho he hty (by rw [hcur, hse, hx]; exact hob)]
            simp
          · simp [noUnknownDeep, has, noUnknownAs]
          · cases u with
            | true => cases as <;> simp [echoKeeps]
            | false =>
              have := hnu rfl
              subst this
              cases as <;> simp [echoKeeps]
          · refine Or.inr ?_
            intro attrs2 st2 hl2
            refine ⟨.ptr none, ?_, ?_⟩
            · simp only [copyFromField]
              have := fromFieldWith_unknown_run
                (fun as s => copyFromFields ov sub as { s with obj := resetOneOfs ((msg.map (·.oneOfNames)).getD []) s.obj })
                ov info mv msg attrs2 st2 _ ho he hl2 (Or.inl ⟨hk, false, true, some (as.getD []), some tys, rfl, rfl, hvt⟩)
              have hzw : zeroWrite info = GoVal.ptr none := by simp [zeroWrite, hk, hn]
              rw [hzw] at this
              exact this
            · unfold valNfEq
              simp only [hk]
              rw [hx]
              simp [msgNfEq, hn, isNilPtr]
        · have hn' : info.isNullable = false := by simpa using hn
          simp only [hn', Bool.false_eq_true, if_false] at hx
          obtain ⟨hzT, hzR⟩ := hz hn'
          obtain ⟨st', hrun, hd', ⟨hs', hh⟩, hr, _, hknw⟩ := freshFields sub (.struct []) tys
            { attrs := [], diags := st.diags, hooks := st.hooks } skN hzT hzR (by intro f _; simp [List.lookup])
          have hrec : (fun o a s => copyToFields sub o a s) (.struct []) (some tys)
              { attrs := as.getD [], diags := st.diags, hooks := st.hooks } =
              .ok { attrs := st'.attrs, diags := st.diags, hooks := st.hooks ++ hs' } := by
            show copyToFields sub _ _ _ = _
            rw [has, hrun]
            cases st'
            simp_all
          have hob := objBody_echo (fun o a s => copyToFields sub o a s) info msg (some tys) u n as tys (getVal info o) []
            st.diags st.hooks st'.attrs (st.hooks ++ hs') (fun _ => rfl) (Or.inr ⟨hn', hx⟩) hrec
          refine ⟨.obj false n (some st'.attrs) (some tys), hs', ?_, ?_, ?_, ?_⟩
          · apply copyToField_obj_run info mv msg sub o atys st tys _ _ _ hk ho he hty
            rw [hcur, hse]
            exact hob
          · simp only [noUnknownDeep, Bool.not_false, Bool.true_and]
            exact noUnknownAs_of_forall skN _ (hknw (by simp))
          · cases u with
            | true => cases as <;> simp [echoKeeps]
            | false =>
              have := hnu rfl
              subst this
              cases as <;> simp [echoKeeps]
          · refine Or.inr ?_
            intro attrs2 st2 hl2
            cases n with
            | true =>
              refine ⟨.struct [], ?_, ?_⟩
              · simp only [copyFromField]
                have := fromFieldWith_unknown_run
                  (fun as s => copyFromFields ov sub as { s with obj := resetOneOfs ((msg.map (·.oneOfNames)).getD []) s.obj })
                  ov info mv msg attrs2 st2 _ ho he hl2 (Or.inl ⟨hk, false, true, some st'.attrs, some tys, rfl, rfl, hvt⟩)
                have hzw : zeroWrite info = GoVal.struct [] := by simp [zeroWrite, hk, hn']
                rw [hzw] at this
                exact this
              · unfold valNfEq
                simp only [hk]
                rw [hx]
                simp only [msgNfEq, hn', Bool.false_eq_true, if_false, structOf]
                exact nfEqFields_refl sub (.struct []) hzR
            | false =>
              by_cases hem : isEmptyMsg msg = true
              · refine ⟨.struct [], ?_, ?_⟩
                · simp only [copyFromField]
                  have := fromFieldWith_obj_empty_run
                    (fun as s => copyFromFields ov sub as { s with obj := resetOneOfs ((msg.map (·.oneOfNames)).getD []) s.obj })
                    ov info mv msg attrs2 st2 false false (some st'.attrs) (some tys) hk ho he hvt hem rfl hl2
                  simpa [hn'] using this
                · unfold valNfEq
                  simp only [hk]
                  rw [hx]
                  simp only [msgNfEq, hn', Bool.false_eq_true, if_false, structOf]
                  exact nfEqFields_refl sub (.struct []) hzR
              · have hem' : isEmptyMsg msg = false := by simpa using hem
                obtain ⟨o2, hrun2, hso2, hall2, _⟩ := fromFields_reads ov sub (.struct []) (some st'.attrs)
                  { obj := resetOneOfs ((msg.map (·.oneOfNames)).getD []) (.struct []), diags := st2.diags, hooks := st2.hooks }
                  hr hzR (isStruct_resetOneOfs _ _ trivial)
                have hnf : nfEqFields sub (.struct []) o2 = true :=
                  nfEqFields_of_valNfEq sub (.struct []) o2 (fun g hg => ⟨rtoks_oneof sub _ hzR g hg, hall2 g hg⟩)
                refine ⟨o2, ?_, ?_⟩
                · simp only [copyFromField]
                  have := fromFieldWith_obj_run
                    (fun as s => copyFromFields ov sub as { s with obj := resetOneOfs ((msg.map (·.oneOfNames)).getD []) s.obj })
                    ov info mv msg attrs2 st2 false false (some st'.attrs) (some tys) o2 hk ho he hvt hem' rfl hl2 hrun2
                  simpa [hn'] using this
                · unfold valNfEq
                  simp only [hk]
                  rw [hx]
                  simp only [msgNfEq, hn', Bool.false_eq_true, if_false]
                  rw [structOf_of_isStruct o2 hso2]
                  exact hnf
    | primitiveList =>
      have hph : info.isPlaceholder = false := by
        cases h : info.isPlaceholder
        · rfl
        · have := hphk h; rw [hk] at this; cases this
      simp only [hk] at hp hdec hT hR
      obtain ⟨u, n, es, et, k, rfl, rfl, hvt, hrep, hir, _, hnull⟩ := hp
      obtain ⟨u', n', es', et', xs, he', hx, hlen⟩ := hdec
      injection he' with e1 e2 e3 e4
      subst e1 e2 e3 e4
      obtain ⟨_, _, _, _, k2, _, _, hval⟩ := hT
      have hTy : ∀ e ∈ xs, PrimTyped info e := by
        rcases hval with h | ⟨es2, h2, ht⟩
        · rw [hx] at h; cases h
        · rw [hx] at h2
          injection h2 with h2
          injection h2 with h2
          subst h2
          exact ht
      have hek : vkindOf info.tf.elemValueType ≠ .list := by rw [hir.rt.ek]; simp
      have hoty : elemObjTy (info.kind == .objectList || info.kind == .objectMap) (some (.prim k)) = .ok none := by
        simp [elemObjTy, hk]
      obtain ⟨r, hs, hrun, hlenr, hall, hkn⟩ := listField_run info mv msg sub o atys st (.prim k) none
        (fun e v => primRenders info e v) skN xs (Or.inl hk) ho he hrep hty hek hoty hx
        (primElems_spec info msg sub o k skN xs (Or.inl hk) hir.rt.ek hph he hTy) u n es et (Or.inl hcur)
      refine ⟨_, hs, hrun, hkn, ?_, ?_⟩
      · cases u with
        | true => simp [echoKeeps]
        | false =>
          cases n with
          | false =>
            simp only [known, Bool.not_false, Bool.and_self, if_true] at hlen
            simp [echoKeeps, hlenr, hlen]
          | true =>
            simp only [known, Bool.not_true, Bool.false_and, Bool.false_eq_true, if_false] at hlen
            have hxs : xs = [] := by simpa using hlen
            subst hxs
            have hr0 : r = [] := by simpa using hlenr
            subst hr0
            simp [echoKeeps, hnull rfl rfl]
      · refine Or.inr ?_
        apply secondDec_list ov info mv msg sub o xs r n et (Or.inl hk) ho he hph hvt hx hlenr hRT
        intro hne
        cases xs with
        | nil => exact absurd rfl hne
        | cons x0 xs0 => simp [rendersVal, hk, hx, sliceElems, hlenr, hall]
    | objectList =>
      have hph : info.isPlaceholder = false := by
        cases h : info.isPlaceholder
        · rfl
        · have := hphk h; rw [hk] at this; cases this
      simp only [hk] at hp hdec hT hR
      obtain ⟨u, n, es, et, tys, rfl, rfl, hvt, hevk, hrep, hsub, hem, _, hnull⟩ := hp
      obtain ⟨u', n', es', et', xs, he', hx, hlen⟩ := hdec
      injection he' with e1 e2 e3 e4
      subst e1 e2 e3 e4
      obtain ⟨_, _, _, _, tys2, hty2, _, _, hval⟩ := hT
      injection hty2 with hty2
      injection hty2 with hty2
      injection hty2 with hty2
      injection hty2 with hty2
      subst hty2
      have hTy : ∀ e ∈ xs, MsgTyped info.isNullable (fun s => ToOKs sub s tys) e := by
        rcases hval with h | ⟨es2, h2, ht⟩
        · rw [hx] at h; cases h
        · rw [hx] at h2
          injection h2 with h2
          injection h2 with h2
          subst h2
          exact ht
      have hRy : ∀ e ∈ xs, MsgTyped info.isNullable (fun s => RTOKs sub s) e := by
        have := hR.2.2
        rw [hx] at this
        exact this
      have hek : vkindOf info.tf.elemValueType ≠ .list := by rw [hevk]; simp
      have hoty : elemObjTy (info.kind == .objectList || info.kind == .objectMap) (some (.obj (some tys))) = .ok (some tys) := by
        simp [elemObjTy, hk]
      obtain ⟨r, hs, hrun, hlenr, hall, hkn⟩ := listField_run info mv msg sub o atys st (.obj (some tys)) (some tys)
        (fun e v => objRenders info.isNullable (fun o as' => rendersFields sub o as') e v) skN xs (Or.inr hk) ho he hrep hty hek hoty hx
        (objElems_spec info msg sub o tys skN xs (Or.inl hk) hsub hem hTy hRy) u n es et (Or.inl hcur)
      refine ⟨_, hs, hrun, hkn, ?_, ?_⟩
      · cases u with
        | true => simp [echoKeeps]
        | false =>
          cases n with
          | false =>
            simp only [known, Bool.not_false, Bool.and_self, if_true] at hlen
            simp [echoKeeps, hlenr, hlen]
          | true =>
            simp only [known, Bool.not_true, Bool.false_and, Bool.false_eq_true, if_false] at hlen
            have hxs : xs = [] := by simpa using hlen
            subst hxs
            have hr0 : r = [] := by simpa using hlenr
            subst hr0
            simp [echoKeeps, hnull rfl rfl]
      · refine Or.inr ?_
        apply secondDec_list ov info mv msg sub o xs r n et (Or.inr hk) ho he hph hvt hx hlenr hRT
        intro hne
        cases xs with
        | nil => exact absurd rfl hne
        | cons x0 xs0 => simp [rendersVal, hk, hx, sliceElems, hlenr, hall]
    | primitiveMap =>
      have hph : info.isPlaceholder = false := by
        cases h : info.isPlaceholder
        · rfl
        · have := hphk h; rw [hk] at this; cases this
      simp only [hk] at hp hdec hT hR
      obtain ⟨u, n, es, et, k, rfl, rfl, hvt, hrep, hnn, hzv, hmv, hir, hndp, _, hnull⟩ := hp
      obtain ⟨u', n', es', et', xs, he', hx, hlen, hsome⟩ := hdec
      injection he' with e1 e2 e3 e4
      subst e1 e2 e3 e4
      obtain ⟨_, _, _, _, _, k2, _, _, hval⟩ := hT
      obtain ⟨hndx, hTy⟩ : (xs.map (·.1)).Nodup ∧ ∀ e ∈ xs, PrimTyped info e.2 := by
        rcases hval with h | ⟨es2, h2, hnd2, ht⟩
        · rw [hx] at h; cases h
        · rw [hx] at h2
          injection h2 with h2
          injection h2 with h2
          subst h2
          exact ⟨hnd2, ht⟩
      have hek : vkindOf info.tf.elemValueType ≠ .map := by rw [hir.rt.ek]; simp
      have hoty : elemObjTy (info.kind == .objectList || info.kind == .objectMap) (some (.prim k)) = .ok none := by
        simp [elemObjTy, hk]
      obtain ⟨r, hs, hrun, hlenr, hall, hkn⟩ := mapField_run info mv msg sub o atys st (.prim k) none
        (fun e v => primRenders info e v) xs (Or.inl hk) ho he hrep hty hek hoty hx hndx
        (primElems_spec info msg sub o k [] (xs.map (·.2)) (Or.inr hk) hir.rt.ek hph he
          (by intro e he'; simp at he'; obtain ⟨a, ha⟩ := he'; exact hTy _ ha)) u n es et (Or.inl hcur) skN
      refine ⟨_, hs, hrun, hkn, ?_, ?_⟩
      · cases u with
        | true => simp [echoKeeps]
        | false =>
          cases n with
          | false =>
            simp only [known, Bool.not_false, Bool.and_self, if_true] at hlen
            simp only [echoKeeps, Bool.false_eq_true, if_false, Option.getD_some, Bool.and_eq_true, beq_iff_eq, List.all_eq_true]
            refine ⟨⟨by split <;> rfl, by rw [hlenr, hlen]⟩, ?_⟩
            intro kv hkv
            have h1 := hsome (by simp [known]) kv hkv
            cases hlx : xs.lookup kv.1 with
            | none => simp [hlx] at h1
            | some xv =>
              obtain ⟨v, hv, _⟩ := hall (kv.1, xv) (mem_of_lookup _ _ _ hlx)
              simp only at hv
              simp [hv]
          | true =>
            simp only [known, Bool.not_true, Bool.false_and, Bool.false_eq_true, if_false] at hlen
            have hxs : xs = [] := by simpa using hlen
            subst hxs
            have hr0 : r = [] := by simpa using hlenr
            subst hr0
            simp [echoKeeps, hnull rfl rfl]
      · refine Or.inr ?_
        apply secondDec_map ov info mv msg sub o xs r n et (Or.inl hk) ho he hph hvt hx hlenr hRT
        intro hne
        cases xs with
        | nil => exact absurd rfl hne
        | cons x0 xs0 =>
          simp only [rendersVal, hk, hx, mapElems, Option.getD]
          simp [hlenr]
          refine ⟨?_, ?_⟩
          · obtain ⟨v, hv, hq⟩ := hall x0 (by simp)
            simp [hv, hq]
          · intro a b hab
            obtain ⟨v, hv, hq⟩ := hall (a, b) (by simp [hab])
            simp [hv, hq]
    | objectMap =>
      have hph : info.isPlaceholder = false := by
        cases h : info.isPlaceholder
        · rfl
        · have := hphk h; rw [hk] at this; cases this
      simp only [hk] at hp hdec hT hR
      obtain ⟨u, n, es, et, tys, rfl, rfl, hvt, hevk, hmvk, hrep, hsub, hem, hndp, _, hnull⟩ := hp
      obtain ⟨u', n', es', et', xs, he', hx, hlen, hsome⟩ := hdec
      injection he' with e1 e2 e3 e4
      subst e1 e2 e3 e4
      obtain ⟨_, _, _, _, tys2, hty2, _, _, hval⟩ := hT
      injection hty2 with hty2
      injection hty2 with hty2
      injection hty2 with hty2
      injection hty2 with hty2
      subst hty2
      obtain ⟨hndx, hTy⟩ : (xs.map (·.1)).Nodup ∧ ∀ e ∈ xs, MsgTyped info.isNullable (fun s => ToOKs sub s tys) e.2 := by
        rcases hval with h | ⟨es2, h2, hnd2, ht⟩
        · rw [hx] at h; cases h
        · rw [hx] at h2
          injection h2 with h2
          injection h2 with h2
          subst h2
          exact ⟨hnd2, ht⟩
      have hRy : ∀ e ∈ xs, MsgTyped info.isNullable (fun s => RTOKs sub s) e.2 := by
        have := hR.2.2.2
        rw [hx] at this
        exact this
      have hek : vkindOf info.tf.elemValueType ≠ .map := by rw [hevk]; simp
      have hoty : elemObjTy (info.kind == .objectList || info.kind == .objectMap) (some (.obj (some tys))) = .ok (some tys) := by
        simp [elemObjTy, hk]
      obtain ⟨r, hs, hrun, hlenr, hall, hkn⟩ := mapField_run info mv msg sub o atys st (.obj (some tys)) (some tys)
        (fun e v => objRenders info.isNullable (fun o as' => rendersFields sub o as') e v) xs (Or.inr hk) ho he hrep hty hek hoty hx hndx
        (objElems_spec info msg sub o tys [] (xs.map (·.2)) (Or.inr hk) hsub hem
          (by intro e he'; simp at he'; obtain ⟨a, ha⟩ := he'; exact hTy _ ha)
          (by intro e he'; simp at he'; obtain ⟨a, ha⟩ := he'; exact hRy _ ha)) u n es et (Or.inl hcur) skN
      refine ⟨_, hs, hrun, hkn, ?_, ?_⟩
      · cases u with
        | true => simp [echoKeeps]
        | false =>
          cases n with
          | false =>
            simp only [known, Bool.not_false, Bool.and_self, if_true] at hlen
            simp only [echoKeeps, Bool.false_eq_true, if_false, Option.getD_some, Bool.and_eq_true, beq_iff_eq, List.all_eq_true]
            refine ⟨⟨by split <;> rfl, by rw [hlenr, hlen]⟩, ?_⟩
            intro kv hkv
            have h1 := hsome (by simp [known]) kv hkv
            cases hlx : xs.lookup kv.1 with
            | none => simp [hlx] at h1
            | some xv =>
              obtain ⟨v, hv, _⟩ := hall (kv.1, xv) (mem_of_lookup _ _ _ hlx)
              simp only at hv
              simp [hv]
          | true =>
            simp only [known, Bool.not_true, Bool.false_and, Bool.false_eq_true, if_false] at hlen
            have hxs : xs = [] := by simpa using hlen
            subst hxs
            have hr0 : r = [] := by simpa using hlenr
            subst hr0
            simp [echoKeeps, hnull rfl rfl]
      · refine Or.inr ?_
        apply secondDec_map ov info mv msg sub o xs r n et (Or.inr hk) ho he hph hvt hx hlenr hRT
        intro hne
        cases xs with
        | nil => exact absurd rfl hne
        | cons x0 xs0 =>
          simp only [rendersVal, hk, hx, mapElems, Option.getD]
          simp [hlenr]
          refine ⟨?_, ?_⟩
          · obtain ⟨v, hv, hq⟩ := hall x0 (by simp)
            simp [hv, hq]
          · intro a b hab
            obtain ⟨v, hv, hq⟩ := hall (a, b) (by simp [hab])
            simp [hv, hq]

theorem echoFields (X : String → TfVal → Prop) (ov : List (String × String)) (skN skE : List String)
    (hX : ExtraOK X skN skE) : ∀ (fs : List Field) (o : GoVal)
    (atys : List (String × TfTy)) (st : ToSt),
    PlanOKs X fs st.attrs atys → ToOKs fs o atys → RTOKs fs o → DecRels fs st.attrs o →
    ∃ st', copyToFields fs o (some atys) st = .ok st' ∧ st'.diags = st.diags ∧ (∃ hs, st'.hooks = st.hooks ++ hs) ∧
      st'.attrs.map (·.1) = st.attrs.map (·.1) ∧
      (∀ key, key ∉ fs.map (·.info.nameSnake) → st'.attrs.lookup key = st.attrs.lookup key) ∧
      (∀ f ∈ fs, ∃ a v, st.attrs.lookup f.info.nameSnake = some a ∧ st'.attrs.lookup f.info.nameSnake = some v ∧
          EchoV ov skN skE f (getVal f.info o) a v)
  | [], _, _, st, _, _, _, _ => ⟨st, by simp [copyToFields], rfl, ⟨[], by simp⟩, rfl, by simp, by simp⟩
  | f :: rest, o, atys, st, hP, hT, hR, hD => by
    unfold PlanOKs at hP
    obtain ⟨⟨a, ty, hla, hlt, hpf⟩, hnS, _, hPrest⟩ := hP
    unfold ToOKs at hT
    obtain ⟨⟨ty', hlt', hTf⟩, _, hTrest⟩ := hT
    rw [hlt] at hlt'
    injection hlt' with hlt'
    subst hlt'
    unfold RTOKs at hR
    obtain ⟨hRf, _, hRrest⟩ := hR
    unfold DecRels at hD
    obtain ⟨⟨a', hla', hDf⟩, hDrest⟩ := hD
    rw [hla] at hla'
    injection hla' with hla'
    subst hla'
    obtain ⟨v, hs1, hstep, hev⟩ := echoField X ov skN skE hX f o atys st a ty hlt hla hpf hTf hRf hDf
    have hne : ∀ g ∈ rest, g.info.nameSnake ≠ f.info.nameSnake := by
      intro g hg e
      exact hnS (by rw [← e]; exact List.mem_map_of_mem hg)
    obtain ⟨st', hrun, hd, ⟨hs2, hh⟩, hkeys, hframe, hall⟩ := echoFields X ov skN skE hX rest o atys
      { attrs := setKey f.info.nameSnake v st.attrs, diags := st.diags, hooks := st.hooks ++ hs1 }
      (planOKs_setKey X _ _ _ _ rest hne hPrest) hTrest hRrest (decRels_setKey _ _ _ _ rest hne hDrest)
    refine ⟨st', ?_, hd, ⟨hs1 ++ hs2, by simp [hh]⟩, ?_, ?_, ?_⟩
    · simp only [copyToFields, hstep]
      exact hrun
    · rw [hkeys]
      exact keys_setKey_mem _ _ _ (by simp [hla])
    · intro key hkey
      simp only [List.map_cons, List.mem_cons, not_or] at hkey
      rw [hframe key hkey.2]
      exact lookup_setKey_other _ _ _ hkey.1 _
    · intro g hg
      simp only [List.mem_cons] at hg
      rcases hg with rfl | hg
      · refine ⟨a, v, hla, ?_, hev⟩
        rw [hframe _ hnS]
        exact lookup_setKey_same _ _ _
      · obtain ⟨a', v', hla', hlv', hev'⟩ := hall g hg
        refine ⟨a', v', ?_, hlv', hev'⟩
        simp only at hla'
        rw [lookup_setKey_other _ _ _ (hne g hg)] at hla'
        exact hla'

end

-- ------------------------------------------------------------------------------------------------------
-- C08, the whole object

/-- the judgement for a whole plan object of message `m`: an object value carrying its attribute types, whose attributes
are the attributes of the generated fields, satisfying `PlanOKs`, and extra (injected) attributes satisfying `X`, at every
depth; a known plan object is not null -/
def PlanObj (X : String → TfVal → Prop) (m : Msg) (plan : TfVal) : Prop :=
  ∃ u n as atys, plan = .obj u n as (some atys) ∧ (u = false → n = false) ∧
    PlanOKs X m.fields (as.getD []) atys ∧ KeysOK X m.fields (as.getD [])

/-- **C08, apply echo** (plain tree, every nesting depth, any number of fields; `skN` / `skE` are the skip lists of
`Spec.noUnknownDeep` / `Spec.echoKeeps` – any lists, in particular empty ones; `X` describes the extra attributes of the
plan, `NoExtra` if there are none): for a plan object satisfying the judgement,
* `CopyFrom(plan)` into a fresh struct succeeds without diagnostics (`s1`),
* `CopyTo(s1)` into the plan object itself succeeds without diagnostics (`e`),
* a second `CopyFrom(e)` into a fresh struct succeeds without diagnostics (`s2`),
* nothing is unknown in `e` at any depth, every attribute that was known in the plan (null or not) is unchanged in `e`
  (lists / maps: null-ness, length, key set), and `s2` equals `s1` in normal form. -/
theorem C08_echo (X : String → TfVal → Prop) (ov : List (String × String)) (m : Msg) (plan : TfVal) (skN skE : List String)
    (hX : ExtraOK X skN skE) (hp : PlanObj X m plan) :
    ∃ s1 e s2, copyFrom ov m plan (.struct []) = .ok s1 ∧ s1.diags = [] ∧
      copyTo m s1.obj plan = .ok e ∧ e.diags = [] ∧
      copyFrom ov m e.tf (.struct []) = .ok s2 ∧ s2.diags = [] ∧
      noUnknownDeep skN e.tf = true ∧ echoKeeps skE plan e.tf = true ∧ nfEqFields m.fields s1.obj s2.obj = true := by
  obtain ⟨u, n, as, atys, rfl, hun, hP, hkeys⟩ := hp
  -- first decode
  obtain ⟨o, hrun1, hso, _, hT, hR, hD⟩ := decFields X ov m.fields as { obj := resetOneOfs m.info.oneOfNames (.struct []) } atys hP
    (isStruct_resetOneOfs _ _ trivial)
  -- echo
  obtain ⟨st', hrun2, hd2, _, hk', hframe', hall⟩ := echoFields X ov skN skE hX m.fields o atys { attrs := as.getD [] } hP hT hR hD
  obtain ⟨hplain, hndN⟩ := planOKs_plain X m.fields _ atys hP
  -- second decode
  obtain ⟨o2, hrun3, _, hall2, _⟩ := secondDec_fields ov o (some st'.attrs) m.fields
    { obj := resetOneOfs m.info.oneOfNames (.struct []) } (isStruct_resetOneOfs _ _ trivial) hplain hndN
    (fun g hg => by
      obtain ⟨a', v', _, hlv, hev⟩ := hall g hg
      exact ⟨v', hlv, hev.2.2⟩)
  obtain ⟨hkn, hkeep⟩ := echo_attrs X ov skN skE hX m.fields o (as.getD []) st'.attrs hkeys hk' hframe' hall
  refine ⟨{ obj := o, diags := [], hooks := [] },
    { tf := .obj false false (some st'.attrs) (some atys), diags := st'.diags, hooks := st'.hooks },
    { obj := o2, diags := [], hooks := [] }, ?_, rfl, ?_, ?_, ?_, rfl, ?_, ?_, ?_⟩
  · simp [copyFrom, hrun1]
  · simp [copyTo, hrun2]
  · simpa using hd2
  · simp [copyFrom, hrun3]
  · simp only [noUnknownDeep, Bool.not_false, Bool.true_and]
    exact hkn
  · cases u with
    | true => cases as <;> simp [echoKeeps]
    | false =>
      have := hun rfl
      subst this
      cases as with
      | none => simp [echoKeeps]
      | some l =>
        simp only [echoKeeps, Bool.false_eq_true, if_false, beq_self_eq_true, Bool.true_and, Bool.false_or, Option.getD_some]
        exact hkeep
  · exact nfEqFields_of_valNfEq m.fields o o2 (fun g hg => ⟨(hplain g hg).1, hall2 g hg⟩)

/-- **C08 in the shape of `PGT.Props.C08.C08_full`**, for plan objects satisfying the judgement: whatever the three
calls return, they return no diagnostic and the executable statement `Spec.c08Check` holds. -/
theorem C08_echo_check (X : String → TfVal → Prop) (ov : List (String × String)) (m : Msg) (plan : TfVal) (s1 : FromResult) (e : ToResult) (s2 : FromResult)
    (hX : ExtraOK X (injectedNames m.fields m.info.injected ++ customNames m.fields) (customNames m.fields))
    (hp : PlanObj X m plan)
    (h1 : copyFrom ov m plan (.struct []) = .ok s1) (h2 : copyTo m s1.obj plan = .ok e)
    (h3 : copyFrom ov m e.tf (.struct []) = .ok s2) :
    s1.diags = [] ∧ e.diags = [] ∧ s2.diags = [] ∧ c08Check m plan s1.obj e.tf s2.obj = true := by
  obtain ⟨s1', e', s2', h1', hd1, h2', hd2, h3', hd3, hkn, hkeep, hnf⟩ :=
    C08_echo X ov m plan (injectedNames m.fields m.info.injected ++ customNames m.fields) (customNames m.fields) hX hp
  rw [h1] at h1'
  injection h1' with h1'
  subst h1'
  rw [h2] at h2'
  injection h2' with h2'
  subst h2'
  rw [h3] at h3'
  injection h3' with h3'
  subst h3'
  refine ⟨hd1, hd2, hd3, ?_⟩
  simp [c08Check, hkn, hkeep, hnf]

/-- steps 3 and 4 of the task, with empty skip lists -/
theorem C08_echo_plain (X : String → TfVal → Prop) (ov : List (String × String)) (m : Msg) (plan : TfVal) (s1 : FromResult) (e : ToResult) (s2 : FromResult)
    (hX : ExtraOK X [] []) (hp : PlanObj X m plan)
    (h1 : copyFrom ov m plan (.struct []) = .ok s1) (h2 : copyTo m s1.obj plan = .ok e)
    (h3 : copyFrom ov m e.tf (.struct []) = .ok s2) :
    s1.diags = [] ∧ e.diags = [] ∧ s2.diags = [] ∧
    noUnknownDeep [] e.tf = true ∧ echoKeeps [] plan e.tf = true ∧ nfEqFields m.fields s1.obj s2.obj = true := by
  obtain ⟨s1', e', s2', h1', hd1, h2', hd2, h3', hd3, hkn, hkeep, hnf⟩ := C08_echo X ov m plan [] [] hX hp
  rw [h1] at h1'
  injection h1' with h1'
  subst h1'
  rw [h2] at h2'
  injection h2' with h2'
  subst h2'
  rw [h3] at h3'
  injection h3' with h3'
  subst h3'
  exact ⟨hd1, hd2, hd3, hkn, hkeep, hnf⟩

/-- The full statement of C08 (= `PGT.Props.C08.C08_full`): every IR, every plan. What `C08_echo_check` does not cover:
oneof branches, children of nullable embedded messages, custom kinds (their values are skipped by `c08Check`), lists /
maps of messages without fields, extra attributes that are not skipped-or-known and self-kept (`ExtraOK`; covered:
injected scalar attributes, `extraOK_injected`), and plans outside the judgement `PlanObj` (attributes of the wrong Go
type or missing, known numbers outside the range of the Go field, null values with a non-zero payload, null / unknown
objects that carry attributes, null lists / maps that carry elements, duplicate attribute names or map keys) – for
those the three calls may return diagnostics and `c08Check` may be false. -/
def echo_full : Prop :=
  ∀ (ov : List (String × String)) (m : Msg) (plan : TfVal) (s1 : FromResult) (e : ToResult) (s2 : FromResult),
    copyFrom ov m plan (.struct []) = .ok s1 → copyTo m s1.obj plan = .ok e → copyFrom ov m e.tf (.struct []) = .ok s2 →
    c08Check m plan s1.obj e.tf s2.obj = true

-- ------------------------------------------------------------------------------------------------------
-- non-vacuity: a message with two string fields, a nested message and a nested message without fields; a plan with an
-- injected unknown attribute, one known and one unknown attribute, a known nested object holding a null attribute, and
-- a known object of the message without fields

namespace EchoExample

/-- a `string` field of the regenerated type table -/
def strField (name snake : String) : FieldInfo :=
  { name := name, nameSnake := snake, kind := .primitive,
    tf := { type := "types.StringType", valueType := "types.String", elemType := "types.StringType",
            elemValueType := "types.String", isTypeScalar := true, valueCastToType := "string",
            valueCastFromType := "string", zeroValue := "\"\"" },
    goType := "string", protoType := "string" }

theorem rep_string : repOfGoType "string" = some .str := by decide
theorem vk_string : vkindOf "types.String" = .prim .string := by decide
theorem vk_object : vkindOf "types.Object" = .obj := by decide

theorem strField_rep (name snake : String) : (strField name snake).rep = .str := by
  simp only [FieldInfo.rep, strField, rep_string]

theorem strField_castTo (name snake : String) (v : List UInt8) : (strField name snake).castTo (.str v) = some (.str v) := by
  simp only [FieldInfo.castTo, strField_rep]
  simp only [strField, rep_string, conv]

theorem strField_castFrom (name snake : String) (v : List UInt8) :
    (strField name snake).castFrom .string (.str v) = some (.str v) := by
  simp only [FieldInfo.castFrom, strField_rep, PrimK.rep, conv]

theorem strField_ir (name snake : String) : ScalarIR (strField name snake) .string where
  rt := primRT_of_row _ .string vk_string (by rw [strField_rep]; rfl) (by rw [strField_rep]; exact rep_string)
    (by rw [strField_rep]; decide) (by intro h; cases h)
  nullZero := by intro h; cases h
  cast := by
    intro _ s hs
    rw [strField_rep] at hs
    cases s <;> simp [C19.HasRep] at hs
    rename_i v
    refine ⟨.str v, strField_castTo name snake v, ?_⟩
    intro _
    exact ⟨v.isEmpty, by simp [strField, eqLiteral], by simp [scIsZero]⟩

/-- a string plan value: any flags; a null value carries the empty string -/
theorem strField_leaf (name snake : String) (u n : Bool) (v : List UInt8) (hnull : u = false → n = true → v = []) :
    LeafOK (strField name snake) .string u n (.str v) where
  castable := fun _ => ⟨.str v, strField_castFrom name snake v⟩
  range := by
    intro _ _ c hc
    rw [strField_castFrom] at hc
    injection hc with hc
    subst hc
    exact strField_castTo name snake v
  rangePtr := by intro _ h; cases h
  nullPayload := by
    intro hu hn _
    rw [hnull hu hn, strField_rep]
    exact strField_castTo name snake []

theorem vk_bool : vkindOf "types.Bool" = .prim .bool := by decide

theorem emptyOK_none (sub : List Field) : EmptyOK none sub := by
  intro h
  cases h

theorem strField_plan (X : String → TfVal → Prop) (name snake : String) (mv : Option FieldInfo) (u n : Bool) (v : List UInt8)
    (hnull : u = false → n = true → v = []) :
    PlanOK X ⟨strField name snake, mv, none, []⟩ (.prim .string u n (.str v)) (.prim .string) := by
  unfold PlanOK
  refine ⟨rfl, rfl, (fun h => by cases h), emptyOK_none [], ?_⟩
  exact ⟨.string, u, n, .str v, rfl, rfl, vk_string,
    Or.inr ⟨vk_string, strField_ir name snake, strField_leaf name snake u n v hnull⟩⟩

def inner : List Field := [⟨strField "C" "c", none, none, []⟩]

def nested : FieldInfo :=
  { name := "N", nameSnake := "n", kind := .object, isNullable := true,
    tf := { type := "types.ObjectType", valueType := "types.Object", elemType := "types.ObjectType",
            elemValueType := "types.Object", isMessage := true } }

/-- the placeholder attribute of a message without fields -/
def placeholder : FieldInfo :=
  { name := "Active", nameSnake := "active", kind := .primitive, isPlaceholder := true,
    tf := { type := "types.BoolType", valueType := "types.Bool", elemType := "types.BoolType", elemValueType := "types.Bool" } }

/-- a field whose message has no fields -/
def emptyNested : FieldInfo :=
  { name := "E", nameSnake := "e", kind := .object, isNullable := true,
    tf := { type := "types.ObjectType", valueType := "types.Object", elemType := "types.ObjectType",
            elemValueType := "types.Object", isMessage := true } }

def emptySub : List Field := [⟨placeholder, none, none, []⟩]

def msg : Msg :=
  { info := { name := "M" },
    fields := [⟨strField "A" "a", none, none, []⟩, ⟨strField "B" "b", none, none, []⟩,
               ⟨nested, none, some { name := "N" }, inner⟩,
               ⟨emptyNested, none, some { name := "E", isEmpty := true }, emptySub⟩] }

def innerTys : List (String × TfTy) := [("c", .prim .string)]
def emptyTys : List (String × TfTy) := [("active", .prim .bool)]

def atys : List (String × TfTy) :=
  [("id", .prim .string), ("a", .prim .string), ("b", .prim .string), ("n", .obj (some innerTys)), ("e", .obj (some emptyTys))]

/-- `id` is an injected attribute (unknown in the plan), `a` is known ("hi"), `b` is unknown, `n` is a known object
whose attribute `c` is null, `e` is a known object of a message without fields (its placeholder is null) -/
def plan : TfVal :=
  .obj false false
    (some [("id", .prim .string true false (.str [])),
           ("a", .prim .string false false (.str [104, 105])), ("b", .prim .string true false (.str [])),
           ("n", .obj false false (some [("c", .prim .string false true (.str []))]) (some innerTys)),
           ("e", .obj false false (some [("active", .prim .bool false true (.b false))]) (some emptyTys))])
    (some atys)

/-- the extra attributes of the example: the injected `id` -/
abbrev exX : String → TfVal → Prop := InjectedScalar ["id"]

theorem plan_ok : PlanObj exX msg plan := by
  refine ⟨false, false, _, atys, rfl, fun _ => rfl, ?_, ?_⟩
  · unfold msg
    simp only [Option.getD_some]
    unfold PlanOKs
    refine ⟨⟨.prim .string false false (.str [104, 105]), .prim .string, by rfl, by rfl,
      strField_plan exX "A" "a" none false false [104, 105] (by intro _ h; cases h)⟩, by decide, by decide, ?_⟩
    unfold PlanOKs
    refine ⟨⟨.prim .string true false (.str []), .prim .string, by rfl, by rfl,
      strField_plan exX "B" "b" none true false [] (by intro h; cases h)⟩, by decide, by decide, ?_⟩
    unfold PlanOKs
    refine ⟨⟨.obj false false (some [("c", .prim .string false true (.str []))]) (some innerTys), .obj (some innerTys),
      by rfl, by rfl, ?_⟩, by decide, by decide, ?_⟩
    · unfold PlanOK
      refine ⟨rfl, rfl, (fun h => by cases h), (fun h => by cases h), ?_⟩
      refine ⟨false, false, _, innerTys, rfl, rfl, vk_object, by decide, ?_, by intro h; cases h⟩
      intro _
      refine ⟨?_, by decide, ?_⟩
      · simp only [Option.getD_some]
        unfold inner PlanOKs
        refine ⟨⟨.prim .string false true (.str []), .prim .string, by rfl, by rfl,
          strField_plan exX "C" "c" none false true [] (fun _ _ => rfl)⟩, by decide, by decide, trivial⟩
      · intro kv hkv
        simp only [Option.getD_some, List.mem_singleton] at hkv
        subst hkv
        exact Or.inl (by decide)
    unfold PlanOKs
    refine ⟨⟨.obj false false (some [("active", .prim .bool false true (.b false))]) (some emptyTys), .obj (some emptyTys),
      by rfl, by rfl, ?_⟩, by decide, by decide, trivial⟩
    unfold PlanOK
    refine ⟨rfl, rfl, (fun h => by cases h), ?_, ?_⟩
    · intro _ g hg
      simp only [emptySub, List.mem_singleton] at hg
      subst hg
      exact ⟨rfl, rfl, rfl⟩
    refine ⟨false, false, _, emptyTys, rfl, rfl, vk_object, by decide, ?_, by intro h; cases h⟩
    intro _
    refine ⟨?_, by decide, ?_⟩
    · simp only [Option.getD_some]
      unfold emptySub PlanOKs
      refine ⟨⟨.prim .bool false true (.b false), .prim .bool, by rfl, by rfl, ?_⟩, by decide, by decide, trivial⟩
      unfold PlanOK
      refine ⟨rfl, rfl, fun _ => rfl, emptyOK_none [], ?_⟩
      exact ⟨.bool, false, true, .b false, rfl, rfl, vk_bool, Or.inl rfl⟩
    · intro kv hkv
      simp only [Option.getD_some, List.mem_singleton] at hkv
      subst hkv
      exact Or.inl (by decide)
  · refine ⟨by decide, ?_⟩
    intro kv hkv
    simp only [Option.getD_some, List.mem_cons, List.mem_nil_iff, or_false] at hkv
    rcases hkv with rfl | rfl | rfl | rfl | rfl
    · exact Or.inr ⟨by decide, _, _, _, _, rfl⟩
    · exact Or.inl (by decide)
    · exact Or.inl (by decide)
    · exact Or.inl (by decide)
    · exact Or.inl (by decide)

/-- the main theorem applies to the example (skip list of `noUnknownDeep`: the injected `id`): the three calls succeed
quietly, nothing unknown is left outside `id`, the known attributes are kept, the second decode agrees with the first -/
example : ∃ s1 e s2, copyFrom [] msg plan (.struct []) = .ok s1 ∧ s1.diags = [] ∧
    copyTo msg s1.obj plan = .ok e ∧ e.diags = [] ∧
    copyFrom [] msg e.tf (.struct []) = .ok s2 ∧ s2.diags = [] ∧
    noUnknownDeep ["id"] e.tf = true ∧ echoKeeps [] plan e.tf = true ∧ nfEqFields msg.fields s1.obj s2.obj = true :=
  C08_echo exX [] msg plan ["id"] [] (extraOK_injected ["id"] []) plan_ok

end EchoExample

end PGT
