import PGT.Proofs.OrderIndep
/-
C15, behavioural part, CopyFrom in general: children of nullable embedded messages included (continuation of
OrderIndep.lean).  A block is summarised by the set of Go fields through which it reads and writes a struct target
(`Sem`); blocks on disjoint key sets commute.
-/
set_option linter.unusedSimpArgs false
namespace PGT
namespace OrderIndep

-- ------------------------------------------------------------------------------------------------------
-- 5. CopyFrom in general (children of nullable embedded messages included): blocks as local updates of a key set

/-- the result of a block on two struct targets `o1`, `o2` that agree on the key set `K`: both runs succeed – the
results are structs that agree on `K`, each keeps what its target held outside `K`, same diagnostics and hook calls –
or both fail -/
def SemRes (K : List String) (o1 o2 : GoVal) (r1 r2 : Outcome FromSt) : Prop :=
  (∃ t1 t2, r1 = .ok t1 ∧ r2 = .ok t2 ∧ IsStruct t1.obj ∧ IsStruct t2.obj ∧
    (∀ k ∈ K, t1.obj.field? k = t2.obj.field? k) ∧
    (∀ k, k ∉ K → t1.obj.field? k = o1.field? k) ∧ (∀ k, k ∉ K → t2.obj.field? k = o2.field? k) ∧
    t1.diags = t2.diags ∧ t1.hooks = t2.hooks) ∨
  ((∀ t, r1 ≠ .ok t) ∧ (∀ t, r2 ≠ .ok t))

/-- `B` reads and writes a struct target only through the Go fields in `K`, and only appends to the logs -/
def Sem (K : List String) (B : FromSt → Outcome FromSt) : Prop :=
  (∀ st, B st = (B { obj := st.obj, diags := [], hooks := [] }).mapO (shiftF st.diags st.hooks)) ∧
  ∀ o1 o2, IsStruct o1 → IsStruct o2 → (∀ k ∈ K, o1.field? k = o2.field? k) →
    SemRes K o1 o2 (B { obj := o1, diags := [], hooks := [] }) (B { obj := o2, diags := [], hooks := [] })

/-- equivalence of states with struct targets -/
def FEquivS (s s' : FromSt) : Prop :=
  IsStruct s.obj ∧ IsStruct s'.obj ∧ (∀ k, s.obj.field? k = s'.obj.field? k) ∧ s.diags.Perm s'.diags ∧ s.hooks.Perm s'.hooks

theorem FEquivS.refl (s : FromSt) (h : IsStruct s.obj) : FEquivS s s := ⟨h, h, fun _ => rfl, List.Perm.refl _, List.Perm.refl _⟩
theorem FEquivS.trans {a b c : FromSt} (h : FEquivS a b) (h' : FEquivS b c) : FEquivS a c :=
  ⟨h.1, h'.2.1, fun k => (h.2.2.1 k).trans (h'.2.2.1 k), h.2.2.2.1.trans h'.2.2.2.1, h.2.2.2.2.trans h'.2.2.2.2⟩

theorem mapO_ne_ok {α β : Type} (g : α → β) (r : Outcome α) (h : ∀ t, r ≠ .ok t) : ∀ t, r.mapO g ≠ .ok t := by
  cases r with
  | ok a => exact absurd rfl (h a)
  | panic w => intro t e; cases e
  | stuck w => intro t e; cases e

theorem outRel_of_fail {α : Type} (R : α → α → Prop) (r r' : Outcome α) (h : ∀ t, r ≠ .ok t) (h' : ∀ t, r' ≠ .ok t) :
    OutRel R r r' := by
  cases r with
  | ok a => exact absurd rfl (h a)
  | panic w =>
    cases r' with
    | ok a => exact absurd rfl (h' a)
    | panic w' => trivial
    | stuck w' => trivial
  | stuck w =>
    cases r' with
    | ok a => exact absurd rfl (h' a)
    | panic w' => trivial
    | stuck w' => trivial

theorem obind_ne_ok {α : Type} (r : Outcome α) (k : α → Outcome α) (h : ∀ t, r ≠ .ok t) : ∀ t, obind r k ≠ .ok t := by
  cases r with
  | ok a => exact absurd rfl (h a)
  | panic w => intro t e; cases e
  | stuck w => intro t e; cases e

/-- a block respects the equivalence of states -/
theorem sem_equiv (K : List String) (B : FromSt → Outcome FromSt) (hB : Sem K B) (s s' : FromSt) (h : FEquivS s s') :
    OutRel FEquivS (B s) (B s') := by
  obtain ⟨hs, hs', hf, hd, hh⟩ := h
  rw [hB.1 s, hB.1 s']
  rcases hB.2 s.obj s'.obj hs hs' (fun k _ => hf k) with
    ⟨t1, t2, e1, e2, ht1, ht2, hK, ho1, ho2, hdd, hhh⟩ | ⟨hf1, hf2⟩
  · rw [e1, e2]
    simp only [Outcome.mapO, outRel_ok_ok]
    refine ⟨ht1, ht2, fun k => ?_, ?_, ?_⟩
    · show t1.obj.field? k = t2.obj.field? k
      by_cases hk : k ∈ K
      · exact hK k hk
      · rw [ho1 k hk, ho2 k hk]; exact hf k
    · show (s.diags ++ t1.diags).Perm (s'.diags ++ t2.diags)
      rw [hdd]; exact hd.append_right _
    · show (s.hooks ++ t1.hooks).Perm (s'.hooks ++ t2.hooks)
      rw [hhh]; exact hh.append_right _
  · exact outRel_of_fail _ _ _ (mapO_ne_ok _ _ hf1) (mapO_ne_ok _ _ hf2)

/-- **two adjacent blocks that work on disjoint key sets can be swapped** -/
theorem sem_swap (K1 K2 : List String) (B1 B2 : FromSt → Outcome FromSt) (h1 : Sem K1 B1) (h2 : Sem K2 B2)
    (hdis : ∀ k ∈ K1, k ∉ K2) (s s' : FromSt) (h : FEquivS s s') :
    OutRel FEquivS (obind (B1 s) B2) (obind (B2 s') B1) := by
  obtain ⟨hs, hs', hf, hd, hh⟩ := h
  have hdis' : ∀ k ∈ K2, k ∉ K1 := fun k hk2 hk1 => hdis k hk1 hk2
  rw [h1.1 s, h2.1 s']
  -- if the first block fails on the original target, the other order fails as well
  have hfailR : (∀ t, B1 { obj := s.obj, diags := [], hooks := [] } ≠ .ok t) →
      ∀ t, obind ((B2 { obj := s'.obj, diags := [], hooks := [] }).mapO (shiftF s'.diags s'.hooks)) B1 ≠ .ok t := by
    intro hf1 t
    cases e2 : B2 { obj := s'.obj, diags := [], hooks := [] } with
    | ok u2 =>
      simp only [Outcome.mapO, obind]
      rcases h2.2 s'.obj s'.obj hs' hs' (fun _ _ => rfl) with ⟨a, b, ea, eb, ha, _, _, hfra, _, _, _⟩ | ⟨hx, _⟩
      · rw [e2] at ea
        injection ea with ea
        subst ea
        rw [h1.1]
        rcases h1.2 s.obj u2.obj hs ha (fun k hk => by rw [hfra k (hdis k hk)]; exact hf k) with
          ⟨c, d, ec, _⟩ | ⟨_, hy⟩
        · exact absurd ec (hf1 c)
        · exact mapO_ne_ok _ _ hy t
      · exact absurd e2 (hx u2)
    | panic w => intro e; cases e
    | stuck w => intro e; cases e
  cases e1 : B1 { obj := s.obj, diags := [], hooks := [] } with
  | ok t1 =>
    -- the first block's result: a struct that agrees with the target outside `K1`
    rcases h1.2 s.obj s.obj hs hs (fun _ _ => rfl) with ⟨a, b, ea, eb, ht1, _, _, hfr1, _, _, _⟩ | ⟨hx, _⟩
    · rw [e1] at ea
      injection ea with ea
      subst ea
      simp only [Outcome.mapO, obind]
      rw [h2.1]
      rcases h2.2 t1.obj s'.obj ht1 hs' (fun k hk => by rw [hfr1 k (hdis' k hk)]; exact hf k) with
        ⟨u1, u2, eu1, eu2, hu1, hu2, hK2, hfru1, hfru2, hdd2, hhh2⟩ | ⟨hfail1, hfail2⟩
      · rw [show B2 { obj := (shiftF s.diags s.hooks t1).obj, diags := [], hooks := [] } = .ok u1 from eu1, eu2]
        simp only [Outcome.mapO, obind]
        rw [h1.1]
        rcases h1.2 s.obj u2.obj hs hu2 (fun k hk => by rw [hfru2 k (hdis k hk)]; exact hf k) with
          ⟨c, v2, ec, ev, _, hv2, hK1, _, hfrv2, hdd1, hhh1⟩ | ⟨hy, _⟩
        · rw [e1] at ec
          injection ec with ec
          subst ec
          rw [show B1 { obj := (shiftF s'.diags s'.hooks u2).obj, diags := [], hooks := [] } = .ok v2 from ev]
          simp only [Outcome.mapO, outRel_ok_ok]
          refine ⟨hu1, hv2, fun k => ?_, ?_, ?_⟩
          · show u1.obj.field? k = v2.obj.field? k
            by_cases hk1 : k ∈ K1
            · rw [hfru1 k (hdis k hk1)]; exact hK1 k hk1
            · rw [hfrv2 k hk1]
              by_cases hk2 : k ∈ K2
              · exact hK2 k hk2
              · rw [hfru1 k hk2, hfru2 k hk2, hfr1 k hk1]; exact hf k
          · show (s.diags ++ t1.diags ++ u1.diags).Perm (s'.diags ++ u2.diags ++ v2.diags)
            rw [hdd2, ← hdd1, List.append_assoc, List.append_assoc]
            exact hd.append List.perm_append_comm
          · show (s.hooks ++ t1.hooks ++ u1.hooks).Perm (s'.hooks ++ u2.hooks ++ v2.hooks)
            rw [hhh2, ← hhh1, List.append_assoc, List.append_assoc]
            exact hh.append List.perm_append_comm
        · exact absurd e1 (hy t1)
      · exact outRel_of_fail _ _ _ (mapO_ne_ok _ _ hfail1)
          (obind_ne_ok _ _ (mapO_ne_ok _ _ hfail2))
    · exact absurd e1 (hx t1)
  | panic w =>
    have := hfailR (by rw [e1]; intro t e; cases e)
    exact outRel_of_fail _ _ _ (by intro t e; cases e) this
  | stuck w =>
    have := hfailR (by rw [e1]; intro t e; cases e)
    exact outRel_of_fail _ _ _ (by intro t e; cases e) this

-- ------------------------------------------------------------------------------------------------------
-- 6. children of a nullable embedded message: the block reads the target through the parent pointer only

/-- the runs of a block on two struct targets `l1`, `l2` perform the same assignments (to Go fields in `K`), log the
same diagnostics and hook calls, or fail the same way -/
def RelL (K : List String) (l1 l2 : List (String × GoVal)) (r1 r2 : Outcome FromSt) : Prop :=
  (∃ ws d h, (∀ w ∈ ws, w.1 ∈ K) ∧ r1 = .ok { obj := applyWrites ws (.struct l1), diags := d, hooks := h } ∧
      r2 = .ok { obj := applyWrites ws (.struct l2), diags := d, hooks := h }) ∨
  (∃ m, r1 = .stuck m ∧ r2 = .stuck m) ∨ (∃ m, r1 = .panic m ∧ r2 = .panic m)

macro "rel_crush" : tactic => `(tactic| repeat' (first
  | split
  | exact Or.inl ⟨[], _, _, by simp, rfl, rfl⟩
  | exact Or.inl ⟨[(_, _)], _, _, by simp, rfl, rfl⟩
  | exact Or.inl ⟨[(_, _), (_, _)], _, _, by simp, rfl, rfl⟩
  | exact Or.inl ⟨[(_, _), (_, _), (_, _)], _, _, by simp, rfl, rfl⟩
  | exact Or.inr (Or.inl ⟨_, rfl, rfl⟩)
  | exact Or.inr (Or.inr ⟨_, rfl, rfl⟩)))

theorem embed_custom (rec : FromRec) (ov : List (String × String)) (info : FieldInfo) (mv : Option FieldInfo)
    (msg : Option MsgInfo) (attrs : Option (List (String × TfVal)))
    (he : info.parentIsOptionalEmbed = true) (hk : info.kind = .custom) (l1 l2 : List (String × GoVal))
    (h12 : l1.lookup info.parentIsOptionalEmbedFieldName = l2.lookup info.parentIsOptionalEmbedFieldName) :
    RelL [info.parentIsOptionalEmbedFieldName] l1 l2
      (copyFromFieldWith rec ov info mv msg attrs { obj := .struct l1, diags := [], hooks := [] })
      (copyFromFieldWith rec ov info mv msg attrs { obj := .struct l2, diags := [], hooks := [] }) := by
  unfold copyFromFieldWith
  simp only [hk, FromSt.diag]
  cases (attrs.getD []).lookup info.nameSnake <;>
  · simp only [he, if_true, writeField, allocParent, GoVal.field?, GoVal.setField, ← h12]
    have hc2 := h12.symm
    generalize hc : List.lookup info.parentIsOptionalEmbedFieldName l1 = c at hc2
    rcases c with _ | (_ | (_ | _) | _ | _ | _ | _) <;> simp only [lookup_setKey_same, hc, hc2] <;> rel_crush


theorem embed_prim_plain (rec : FromRec) (ov : List (String × String)) (info : FieldInfo) (mv : Option FieldInfo)
    (msg : Option MsgInfo) (attrs : Option (List (String × TfVal)))
    (he : info.parentIsOptionalEmbed = true) (hk : info.kind = .primitive) (ho : info.oneOfName = "")
    (l1 l2 : List (String × GoVal))
    (h12 : l1.lookup info.parentIsOptionalEmbedFieldName = l2.lookup info.parentIsOptionalEmbedFieldName) :
    RelL [info.parentIsOptionalEmbedFieldName] l1 l2
      (copyFromFieldWith rec ov info mv msg attrs { obj := .struct l1, diags := [], hooks := [] })
      (copyFromFieldWith rec ov info mv msg attrs { obj := .struct l2, diags := [], hooks := [] }) := by
  unfold copyFromFieldWith
  simp only [hk, FromSt.diag]
  cases (attrs.getD []).lookup info.nameSnake with
  | none => simp only []; rel_crush
  | some a =>
    simp only []
    by_cases hc : (a.vkind != vkindOf info.tf.valueType || a.vkind == .unknown) = true
    · simp only [hc, if_true]; rel_crush
    · simp only [hc, embedGuard, hk, bne_self_eq_false, Bool.and_false, Bool.false_eq_true, if_false]
      cases a with
      | prim k u n p =>
        simp only [ho, bne_self_eq_false, Bool.false_eq_true, if_false, he, if_true]
        cases primDecode info k u n p with
        | ok t =>
          simp only []
          cases known u n <;>
          · simp only [he, if_true, Bool.false_eq_true, if_false, writeField, GoVal.field?, GoVal.setField, ← h12]
            have hc2 := h12.symm
            generalize hc : List.lookup info.parentIsOptionalEmbedFieldName l1 = c at hc2
            rcases c with _ | (_ | (_ | _) | _ | _ | _ | _) <;> simp only [lookup_setKey_same, hc, hc2] <;> rel_crush
        | panic w => simp only []; rel_crush
        | stuck w => simp only []; rel_crush
      | _ => simp only []; rel_crush

theorem embed_obj_plain (rec : FromRec) (ov : List (String × String)) (info : FieldInfo) (mv : Option FieldInfo)
    (msg : Option MsgInfo) (attrs : Option (List (String × TfVal)))
    (he : info.parentIsOptionalEmbed = true) (hk : info.kind = .object) (ho : info.oneOfName = "")
    (l1 l2 : List (String × GoVal))
    (h12 : l1.lookup info.parentIsOptionalEmbedFieldName = l2.lookup info.parentIsOptionalEmbedFieldName) :
    RelL [info.parentIsOptionalEmbedFieldName] l1 l2
      (copyFromFieldWith rec ov info mv msg attrs { obj := .struct l1, diags := [], hooks := [] })
      (copyFromFieldWith rec ov info mv msg attrs { obj := .struct l2, diags := [], hooks := [] }) := by
  unfold copyFromFieldWith
  simp only [hk, FromSt.diag]
  cases (attrs.getD []).lookup info.nameSnake with
  | none => simp only []; rel_crush
  | some a =>
    simp only []
    by_cases hc : (a.vkind != vkindOf info.tf.valueType || a.vkind == .unknown) = true
    · simp only [hc, if_true]; rel_crush
    · have hkp : (Kind.object != Kind.primitive) = true := by decide
      simp only [hc, Bool.false_eq_true, if_false, embedGuard, allocParent, he, hk, hkp, Bool.true_and, Bool.and_self,
        GoVal.field?, GoVal.setField, ← h12, if_true]
      generalize hak : a.isKnown = ak
      have hc2 := h12.symm
      generalize hcc : List.lookup info.parentIsOptionalEmbedFieldName l1 = c at hc2
      cases ak <;> rcases c with _ | (_ | (_ | _) | _ | _ | _ | _) <;>
      (try simp only [hcc, hc2, Bool.false_eq_true, if_false, if_true]) <;>
      cases a <;> (try simp only [TfVal.isKnown] at hak) <;>
      by_cases hem : isEmptyMsg msg = true <;>
      (try simp only [hak, hem, ho, beq_self_eq_true, writeField, he, if_true, GoVal.field?, GoVal.setField,
        lookup_setKey_same, hcc, hc2, Bool.false_eq_true, if_false, Bool.and_true, Bool.and_false, Bool.not_true,
        Bool.not_false, Bool.and_self]) <;>
      rel_crush


theorem embed_obj_branch (rec : FromRec) (ov : List (String × String)) (info : FieldInfo) (mv : Option FieldInfo)
    (msg : Option MsgInfo) (attrs : Option (List (String × TfVal)))
    (he : info.parentIsOptionalEmbed = true) (hk : info.kind = .object) (ho : info.oneOfName ≠ "")
    (l1 l2 : List (String × GoVal))
    (h12 : l1.lookup info.parentIsOptionalEmbedFieldName = l2.lookup info.parentIsOptionalEmbedFieldName) :
    RelL [info.parentIsOptionalEmbedFieldName, info.oneOfName] l1 l2
      (copyFromFieldWith rec ov info mv msg attrs { obj := .struct l1, diags := [], hooks := [] })
      (copyFromFieldWith rec ov info mv msg attrs { obj := .struct l2, diags := [], hooks := [] }) := by
  unfold copyFromFieldWith
  simp only [hk, FromSt.diag]
  cases (attrs.getD []).lookup info.nameSnake with
  | none => simp only []; rel_crush
  | some a =>
    simp only []
    by_cases hc : (a.vkind != vkindOf info.tf.valueType || a.vkind == .unknown) = true
    · simp only [hc, if_true]; rel_crush
    · have hkp : (Kind.object != Kind.primitive) = true := by decide
      have hb : (info.oneOfName == "") = false := by simpa using ho
      simp only [hc, Bool.false_eq_true, if_false, embedGuard, allocParent, he, hk, hkp, Bool.and_self,
        GoVal.field?, GoVal.setField, ← h12, if_true]
      generalize hak : a.isKnown = ak
      have hc2 := h12.symm
      generalize hcc : List.lookup info.parentIsOptionalEmbedFieldName l1 = c at hc2
      cases ak <;> rcases c with _ | (_ | (_ | _) | _ | _ | _ | _) <;>
      (try simp only [hcc, hc2, Bool.false_eq_true, if_false, if_true]) <;>
      cases a <;> (try simp only [TfVal.isKnown] at hak) <;>
      by_cases hem : isEmptyMsg msg = true <;>
      (try simp only [hak, hem, hb, writeField, he, if_true, GoVal.field?, GoVal.setField,
        lookup_setKey_same, hcc, hc2, Bool.false_eq_true, if_false, Bool.and_true, Bool.and_false, Bool.not_true,
        Bool.not_false, Bool.and_self]) <;>
      rel_crush

theorem embed_primitiveList (rec : FromRec) (ov : List (String × String)) (info : FieldInfo) (mv : Option FieldInfo)
    (msg : Option MsgInfo) (attrs : Option (List (String × TfVal)))
    (he : info.parentIsOptionalEmbed = true) (hk : info.kind = .primitiveList)
    (l1 l2 : List (String × GoVal))
    (h12 : l1.lookup info.parentIsOptionalEmbedFieldName = l2.lookup info.parentIsOptionalEmbedFieldName) :
    RelL [info.parentIsOptionalEmbedFieldName] l1 l2
      (copyFromFieldWith rec ov info mv msg attrs { obj := .struct l1, diags := [], hooks := [] })
      (copyFromFieldWith rec ov info mv msg attrs { obj := .struct l2, diags := [], hooks := [] }) := by
  unfold copyFromFieldWith
  simp only [hk, FromSt.diag]
  cases (attrs.getD []).lookup info.nameSnake with
  | none => simp only []; rel_crush
  | some a =>
    simp only []
    by_cases hc : (a.vkind != vkindOf info.tf.valueType || a.vkind == .unknown) = true
    · simp only [hc, if_true]; rel_crush
    · have hkp : (Kind.primitiveList != Kind.primitive) = true := by decide
      simp only [hc, Bool.false_eq_true, if_false, embedGuard, allocParent, he, hk, hkp, Bool.and_self,
        GoVal.field?, GoVal.setField, ← h12, if_true]
      generalize hak : a.isKnown = ak
      have hc2 := h12.symm
      generalize hcc : List.lookup info.parentIsOptionalEmbedFieldName l1 = c at hc2
      cases ak <;> rcases c with _ | (_ | (_ | _) | _ | _ | _ | _) <;>
      (try simp only [hcc, hc2, Bool.false_eq_true, if_false, if_true]) <;>
      cases a <;> (try simp only [TfVal.isKnown] at hak) <;>
      by_cases hem : isEmptyMsg msg = true <;>
      (try simp only [hak, hem,  writeField, he, if_true, GoVal.field?, GoVal.setField,
        lookup_setKey_same, hcc, hc2, Bool.false_eq_true, if_false, Bool.and_true, Bool.and_false, Bool.not_true,
        Bool.not_false, Bool.and_self]) <;>
      rel_crush

theorem embed_objectList (rec : FromRec) (ov : List (String × String)) (info : FieldInfo) (mv : Option FieldInfo)
    (msg : Option MsgInfo) (attrs : Option (List (String × TfVal)))
    (he : info.parentIsOptionalEmbed = true) (hk : info.kind = .objectList)
    (l1 l2 : List (String × GoVal))
    (h12 : l1.lookup info.parentIsOptionalEmbedFieldName = l2.lookup info.parentIsOptionalEmbedFieldName) :
    RelL [info.parentIsOptionalEmbedFieldName] l1 l2
      (copyFromFieldWith rec ov info mv msg attrs { obj := .struct l1, diags := [], hooks := [] })
      (copyFromFieldWith rec ov info mv msg attrs { obj := .struct l2, diags := [], hooks := [] }) := by
  unfold copyFromFieldWith
  simp only [hk, FromSt.diag]
  cases (attrs.getD []).lookup info.nameSnake with
  | none => simp only []; rel_crush
  | some a =>
    simp only []
    by_cases hc : (a.vkind != vkindOf info.tf.valueType || a.vkind == .unknown) = true
    · simp only [hc, if_true]; rel_crush
    · have hkp : (Kind.objectList != Kind.primitive) = true := by decide
      simp only [hc, Bool.false_eq_true, if_false, embedGuard, allocParent, he, hk, hkp, Bool.and_self,
        GoVal.field?, GoVal.setField, ← h12, if_true]
      generalize hak : a.isKnown = ak
      have hc2 := h12.symm
      generalize hcc : List.lookup info.parentIsOptionalEmbedFieldName l1 = c at hc2
      cases ak <;> rcases c with _ | (_ | (_ | _) | _ | _ | _ | _) <;>
      (try simp only [hcc, hc2, Bool.false_eq_true, if_false, if_true]) <;>
      cases a <;> (try simp only [TfVal.isKnown] at hak) <;>
      by_cases hem : isEmptyMsg msg = true <;>
      (try simp only [hak, hem,  writeField, he, if_true, GoVal.field?, GoVal.setField,
        lookup_setKey_same, hcc, hc2, Bool.false_eq_true, if_false, Bool.and_true, Bool.and_false, Bool.not_true,
        Bool.not_false, Bool.and_self]) <;>
      rel_crush

theorem embed_primitiveMap (rec : FromRec) (ov : List (String × String)) (info : FieldInfo) (mv : Option FieldInfo)
    (msg : Option MsgInfo) (attrs : Option (List (String × TfVal)))
    (he : info.parentIsOptionalEmbed = true) (hk : info.kind = .primitiveMap)
    (l1 l2 : List (String × GoVal))
    (h12 : l1.lookup info.parentIsOptionalEmbedFieldName = l2.lookup info.parentIsOptionalEmbedFieldName) :
    RelL [info.parentIsOptionalEmbedFieldName] l1 l2
      (copyFromFieldWith rec ov info mv msg attrs { obj := .struct l1, diags := [], hooks := [] })
      (copyFromFieldWith rec ov info mv msg attrs { obj := .struct l2, diags := [], hooks := [] }) := by
  unfold copyFromFieldWith
  simp only [hk, FromSt.diag]
  cases (attrs.getD []).lookup info.nameSnake with
  | none => simp only []; rel_crush
  | some a =>
    simp only []
    by_cases hc : (a.vkind != vkindOf info.tf.valueType || a.vkind == .unknown) = true
    · simp only [hc, if_true]; rel_crush
    · have hkp : (Kind.primitiveMap != Kind.primitive) = true := by decide
      simp only [hc, Bool.false_eq_true, if_false, embedGuard, allocParent, he, hk, hkp, Bool.and_self,
        GoVal.field?, GoVal.setField, ← h12, if_true]
      generalize hak : a.isKnown = ak
      have hc2 := h12.symm
      generalize hcc : List.lookup info.parentIsOptionalEmbedFieldName l1 = c at hc2
      cases ak <;> rcases c with _ | (_ | (_ | _) | _ | _ | _ | _) <;>
      (try simp only [hcc, hc2, Bool.false_eq_true, if_false, if_true]) <;>
      cases a <;> (try simp only [TfVal.isKnown] at hak) <;>
      by_cases hem : isEmptyMsg msg = true <;>
      (try simp only [hak, hem,  writeField, he, if_true, GoVal.field?, GoVal.setField,
        lookup_setKey_same, hcc, hc2, Bool.false_eq_true, if_false, Bool.and_true, Bool.and_false, Bool.not_true,
        Bool.not_false, Bool.and_self]) <;>
      rel_crush

theorem embed_objectMap (rec : FromRec) (ov : List (String × String)) (info : FieldInfo) (mv : Option FieldInfo)
    (msg : Option MsgInfo) (attrs : Option (List (String × TfVal)))
    (he : info.parentIsOptionalEmbed = true) (hk : info.kind = .objectMap)
    (l1 l2 : List (String × GoVal))
    (h12 : l1.lookup info.parentIsOptionalEmbedFieldName = l2.lookup info.parentIsOptionalEmbedFieldName) :
    RelL [info.parentIsOptionalEmbedFieldName] l1 l2
      (copyFromFieldWith rec ov info mv msg attrs { obj := .struct l1, diags := [], hooks := [] })
      (copyFromFieldWith rec ov info mv msg attrs { obj := .struct l2, diags := [], hooks := [] }) := by
  unfold copyFromFieldWith
  simp only [hk, FromSt.diag]
  cases (attrs.getD []).lookup info.nameSnake with
  | none => simp only []; rel_crush
  | some a =>
    simp only []
    by_cases hc : (a.vkind != vkindOf info.tf.valueType || a.vkind == .unknown) = true
    · simp only [hc, if_true]; rel_crush
    · have hkp : (Kind.objectMap != Kind.primitive) = true := by decide
      simp only [hc, Bool.false_eq_true, if_false, embedGuard, allocParent, he, hk, hkp, Bool.and_self,
        GoVal.field?, GoVal.setField, ← h12, if_true]
      generalize hak : a.isKnown = ak
      have hc2 := h12.symm
      generalize hcc : List.lookup info.parentIsOptionalEmbedFieldName l1 = c at hc2
      cases ak <;> rcases c with _ | (_ | (_ | _) | _ | _ | _ | _) <;>
      (try simp only [hcc, hc2, Bool.false_eq_true, if_false, if_true]) <;>
      cases a <;> (try simp only [TfVal.isKnown] at hak) <;>
      by_cases hem : isEmptyMsg msg = true <;>
      (try simp only [hak, hem,  writeField, he, if_true, GoVal.field?, GoVal.setField,
        lookup_setKey_same, hcc, hc2, Bool.false_eq_true, if_false, Bool.and_true, Bool.and_false, Bool.not_true,
        Bool.not_false, Bool.and_self]) <;>
      rel_crush


-- ------------------------------------------------------------------------------------------------------
-- 7. scalar oneof branches never look at the embedded parent

theorem fieldWith_uf_prim_branch' (rec : FromRec) (ov : List (String × String)) (info : FieldInfo) (mv : Option FieldInfo)
    (msg : Option MsgInfo) (attrs : Option (List (String × TfVal))) (ds : List Diag) (hs : List HookCall)
    (hk : info.kind = .primitive) (ho : info.oneOfName ≠ "") :
    UF info.oneOfName (fun o => copyFromFieldWith rec ov info mv msg attrs { obj := o, diags := ds, hooks := hs }) := by
  unfold copyFromFieldWith
  have hb : (info.oneOfName != "") = true := by simpa using ho
  simp only [embedGuard, hk, bne_self_eq_false, Bool.and_false, Bool.false_eq_true, if_false, FromSt.diag, hb, if_true]
  cases (attrs.getD []).lookup info.nameSnake with
  | none => exact uf_none _ _ _
  | some a => simp only []; cases a <;> simp only [] <;> uf_crush

theorem fieldWith_silent_prim' (rec : FromRec) (ov : List (String × String)) (info : FieldInfo) (mv : Option FieldInfo)
    (msg : Option MsgInfo) (attrs : Option (List (String × TfVal))) (ds : List Diag) (hs : List HookCall)
    (hk : info.kind = .primitive) (ho : info.oneOfName ≠ "") (hn : ¬ Known attrs info) :
    UF0 (fun o => copyFromFieldWith rec ov info mv msg attrs { obj := o, diags := ds, hooks := hs }) := by
  unfold copyFromFieldWith
  have hb1 : (info.oneOfName != "") = true := by simpa using ho
  simp only [embedGuard, hk, bne_self_eq_false, Bool.and_false, Bool.false_eq_true, if_false, FromSt.diag]
  cases hl : (attrs.getD []).lookup info.nameSnake with
  | none => exact uf0_none _ _
  | some a =>
    simp only []
    by_cases hc : (a.vkind != vkindOf info.tf.valueType || a.vkind == .unknown) = true
    · simp only [hc, if_true]; exact uf0_none _ _
    · simp only [hc]
      cases a with
      | prim k u n p =>
        simp only [hb1, if_true]
        cases primDecode info k u n p with
        | ok t =>
          simp only []
          by_cases hkn : known u n = true
          · exfalso
            apply hn
            simp only [Bool.or_eq_true, bne_iff_ne, ne_eq, beq_iff_eq, not_or, Decidable.not_not] at hc
            exact ⟨_, hl, by simpa [TfVal.isKnown] using hkn, hc.1, hc.2⟩
          · simp only [hkn]; exact uf0_none _ _
        | panic w => exact uf0_panic _
        | stuck w => exact uf0_stuck _
      | _ => exact uf0_stuck _

/-- a message branch (child of a nullable embedded message) whose attribute is not known assigns nothing (but it still
looks at the embedded parent: a value of the wrong kind is stuck only if the parent is there) -/
theorem embed_obj_branch_silent (rec : FromRec) (ov : List (String × String)) (info : FieldInfo) (mv : Option FieldInfo)
    (msg : Option MsgInfo) (attrs : Option (List (String × TfVal)))
    (he : info.parentIsOptionalEmbed = true) (hk : info.kind = .object) (ho : info.oneOfName ≠ "")
    (hn : ¬ Known attrs info) (l1 l2 : List (String × GoVal))
    (h12 : l1.lookup info.parentIsOptionalEmbedFieldName = l2.lookup info.parentIsOptionalEmbedFieldName) :
    RelL [info.parentIsOptionalEmbedFieldName] l1 l2
      (copyFromFieldWith rec ov info mv msg attrs { obj := .struct l1, diags := [], hooks := [] })
      (copyFromFieldWith rec ov info mv msg attrs { obj := .struct l2, diags := [], hooks := [] }) := by
  unfold copyFromFieldWith
  simp only [hk, FromSt.diag]
  cases hl : (attrs.getD []).lookup info.nameSnake with
  | none => simp only []; rel_crush
  | some a =>
    simp only []
    by_cases hc : (a.vkind != vkindOf info.tf.valueType || a.vkind == .unknown) = true
    · simp only [hc, if_true]; rel_crush
    · have hkp : (Kind.object != Kind.primitive) = true := by decide
      have hb : (info.oneOfName == "") = false := by simpa using ho
      have hak : a.isKnown = false := by
        cases hx : a.isKnown with
        | false => rfl
        | true =>
          exfalso
          apply hn
          simp only [Bool.or_eq_true, bne_iff_ne, ne_eq, beq_iff_eq, not_or, Decidable.not_not] at hc
          exact ⟨a, hl, hx, hc.1, hc.2⟩
      simp only [hc, Bool.false_eq_true, if_false, embedGuard, allocParent, he, hk, hkp, Bool.and_self,
        GoVal.field?, GoVal.setField, ← h12, if_true, hak]
      have hc2 := h12.symm
      generalize hcc : List.lookup info.parentIsOptionalEmbedFieldName l1 = c at hc2
      rcases c with _ | (_ | (_ | _) | _ | _ | _ | _) <;>
      (try simp only [hcc, hc2, Bool.false_eq_true, if_false, if_true]) <;>
      cases a <;> (try simp only [TfVal.isKnown] at hak) <;>
      (try simp only [hak, hb, Bool.false_eq_true, if_false]) <;>
      rel_crush

-- ------------------------------------------------------------------------------------------------------
-- 8. every block is a local update of its key set

theorem blockF_writer (ov : List (String × String)) (f : Field) (attrs : Option (List (String × TfVal))) (st : FromSt) :
    blockF ov f attrs st =
      (blockF ov f attrs { obj := st.obj, diags := [], hooks := [] }).mapO (shiftF st.diags st.hooks) := by
  simp only [blockF]
  split
  · simp [Outcome.mapO, shiftF]
  · exact fromField_rebase ov f attrs st

theorem blockF_eq (ov : List (String × String)) (info : FieldInfo) (mv : Option FieldInfo) (msg : Option MsgInfo)
    (sub : List Field) (attrs : Option (List (String × TfVal))) (st : FromSt) (hph : info.isPlaceholder = false) :
    blockF ov ⟨info, mv, msg, sub⟩ attrs st = copyFromFieldWith (recOf ov msg sub) ov info mv msg attrs st := by
  simp only [blockF, hph, Bool.false_eq_true, if_false, copyFromField]
  rfl

/-- from a uniform description (`UF`) to `Sem` -/
theorem sem_of_uf (k : String) (B : FromSt → Outcome FromSt)
    (hw : ∀ st, B st = (B { obj := st.obj, diags := [], hooks := [] }).mapO (shiftF st.diags st.hooks))
    (h : UF k (fun o => B { obj := o, diags := [], hooks := [] })) : Sem [k] B := by
  refine ⟨hw, fun o1 o2 hs1 hs2 hag => ?_⟩
  rcases h with ⟨ws, d, hh, hk, hF⟩ | ⟨m, hF⟩ | ⟨m, hF⟩
  · left
    refine ⟨_, _, hF o1, hF o2, isStruct_applyWrites ws o1 hs1, isStruct_applyWrites ws o2 hs2, ?_, ?_, ?_, rfl, rfl⟩
    · intro key hkey
      exact applyWrites_field_congr ws o1 o2 key hs1 hs2 (hag key hkey)
    · intro key hkey
      exact applyWrites_other ws o1 key (not_mem_keys ws k key hk (by simpa using hkey))
    · intro key hkey
      exact applyWrites_other ws o2 key (not_mem_keys ws k key hk (by simpa using hkey))
  · right
    exact ⟨fun t e => (by rw [show B { obj := o1, diags := [], hooks := [] } = _ from hF o1] at e; cases e),
      fun t e => (by rw [show B { obj := o2, diags := [], hooks := [] } = _ from hF o2] at e; cases e)⟩
  · right
    exact ⟨fun t e => (by rw [show B { obj := o1, diags := [], hooks := [] } = _ from hF o1] at e; cases e),
      fun t e => (by rw [show B { obj := o2, diags := [], hooks := [] } = _ from hF o2] at e; cases e)⟩

theorem sem_of_uf0 (B : FromSt → Outcome FromSt)
    (hw : ∀ st, B st = (B { obj := st.obj, diags := [], hooks := [] }).mapO (shiftF st.diags st.hooks))
    (h : UF0 (fun o => B { obj := o, diags := [], hooks := [] })) : Sem [] B := by
  refine ⟨hw, fun o1 o2 hs1 hs2 _ => ?_⟩
  rcases h with ⟨d, hh, hF⟩ | ⟨m, hF⟩ | ⟨m, hF⟩
  · left
    exact ⟨_, _, hF o1, hF o2, hs1, hs2, fun _ hk => by simp at hk, fun _ _ => rfl, fun _ _ => rfl, rfl, rfl⟩
  · right
    exact ⟨fun t e => (by rw [show B { obj := o1, diags := [], hooks := [] } = _ from hF o1] at e; cases e),
      fun t e => (by rw [show B { obj := o2, diags := [], hooks := [] } = _ from hF o2] at e; cases e)⟩
  · right
    exact ⟨fun t e => (by rw [show B { obj := o1, diags := [], hooks := [] } = _ from hF o1] at e; cases e),
      fun t e => (by rw [show B { obj := o2, diags := [], hooks := [] } = _ from hF o2] at e; cases e)⟩

/-- from the relational description on struct targets (`RelL`) to `Sem`; `p` is the one Go field the block reads -/
theorem sem_of_relL (K : List String) (p : String) (hp : K = [] ∨ p ∈ K) (B : FromSt → Outcome FromSt)
    (hw : ∀ st, B st = (B { obj := st.obj, diags := [], hooks := [] }).mapO (shiftF st.diags st.hooks))
    (h : ∀ l1 l2, (K ≠ [] → l1.lookup p = l2.lookup p) →
      RelL K l1 l2 (B { obj := .struct l1, diags := [], hooks := [] }) (B { obj := .struct l2, diags := [], hooks := [] })) :
    Sem K B := by
  refine ⟨hw, fun o1 o2 hs1 hs2 hag => ?_⟩
  cases o1 <;> simp only [IsStruct] at hs1
  cases o2 <;> simp only [IsStruct] at hs2
  rename_i l1 l2
  have hpp : K ≠ [] → l1.lookup p = l2.lookup p := by
    intro hne
    rcases hp with hp | hp
    · exact absurd hp hne
    · exact hag p hp
  rcases h l1 l2 hpp with ⟨ws, d, hh, hk, e1, e2⟩ | ⟨m, e1, e2⟩ | ⟨m, e1, e2⟩
  · left
    have hnm : ∀ key, key ∉ K → key ∉ ws.map (·.1) := by
      intro key hkey hm
      obtain ⟨w, hw', e⟩ := List.mem_map.mp hm
      exact hkey (e ▸ hk w hw')
    refine ⟨_, _, e1, e2, isStruct_applyWrites ws _ trivial, isStruct_applyWrites ws _ trivial, ?_, ?_, ?_, rfl, rfl⟩
    · intro key hkey
      exact applyWrites_field_congr ws _ _ key trivial trivial (hag key hkey)
    · intro key hkey
      exact applyWrites_other ws _ key (hnm key hkey)
    · intro key hkey
      exact applyWrites_other ws _ key (hnm key hkey)
  · right
    exact ⟨fun t e => (by rw [e1] at e; cases e), fun t e => (by rw [e2] at e; cases e)⟩
  · right
    exact ⟨fun t e => (by rw [e1] at e; cases e), fun t e => (by rw [e2] at e; cases e)⟩

/-- the Go fields of the target through which the block of a field reads and writes: the holder for oneof branches,
the embedded parent for children of a nullable embedded message, else the field itself -/
def touch (info : FieldInfo) : List String :=
  if info.parentIsOptionalEmbed then
    if IsBranch info then
      if info.kind = .primitive then [info.oneOfName] else [info.parentIsOptionalEmbedFieldName, info.oneOfName]
    else [info.parentIsOptionalEmbedFieldName]
  else [wk info]

open Classical in
/-- … given the Terraform attributes: a oneof branch whose attribute is not known does not assign the holder -/
noncomputable def keysOf (attrs : Option (List (String × TfVal))) (info : FieldInfo) : List String :=
  if IsBranch info ∧ ¬ Known attrs info then
    (if info.parentIsOptionalEmbed = true ∧ info.kind = .object then [info.parentIsOptionalEmbedFieldName] else [])
  else touch info

theorem keysOf_subset (attrs : Option (List (String × TfVal))) (info : FieldInfo) : ∀ k ∈ keysOf attrs info, k ∈ touch info := by
  intro k hk
  unfold keysOf at hk
  split at hk
  · rename_i hs
    split at hk
    · rename_i h2
      simp only [List.mem_singleton] at hk
      subst hk
      have hnp : info.kind ≠ .primitive := by rw [h2.2]; decide
      simp [touch, h2.1, hs.1, hnp]
    · simp at hk
  · exact hk

/-- **every CopyFrom block is a local update** of the key set `keysOf attrs f.info`.  All IRs, all Terraform values. -/
theorem blockF_sem (ov : List (String × String)) (f : Field) (attrs : Option (List (String × TfVal))) :
    Sem (keysOf attrs f.info) (blockF ov f attrs) := by
  have hw := blockF_writer ov f attrs
  obtain ⟨info, mv, msg, sub⟩ := f
  simp only
  by_cases hph : info.isPlaceholder = true
  · -- no block at all: nothing is read or written, whatever the key set
    refine ⟨hw, fun o1 o2 hs1 hs2 hag => Or.inl ⟨⟨o1, [], []⟩, ⟨o2, [], []⟩, ?_, ?_, hs1, hs2, hag, fun _ _ => rfl,
      fun _ _ => rfl, rfl, rfl⟩⟩ <;> simp [blockF, hph]
  · have hph' : info.isPlaceholder = false := by simpa using hph
    have hB : ∀ st, blockF ov ⟨info, mv, msg, sub⟩ attrs st = copyFromFieldWith (recOf ov msg sub) ov info mv msg attrs st :=
      fun st => blockF_eq ov info mv msg sub attrs st hph'
    by_cases he : info.parentIsOptionalEmbed = true
    · -- child of a nullable embedded message
      have plain : ∀ (_ : ¬ IsBranch info),
          (∀ l1 l2, l1.lookup info.parentIsOptionalEmbedFieldName = l2.lookup info.parentIsOptionalEmbedFieldName →
            RelL [info.parentIsOptionalEmbedFieldName] l1 l2
              (copyFromFieldWith (recOf ov msg sub) ov info mv msg attrs { obj := .struct l1, diags := [], hooks := [] })
              (copyFromFieldWith (recOf ov msg sub) ov info mv msg attrs { obj := .struct l2, diags := [], hooks := [] })) →
          Sem (keysOf attrs info) (blockF ov ⟨info, mv, msg, sub⟩ attrs) := by
        intro hnb hrel
        have hK : keysOf attrs info = [info.parentIsOptionalEmbedFieldName] := by simp [keysOf, touch, he, hnb]
        rw [hK]
        refine sem_of_relL _ info.parentIsOptionalEmbedFieldName (Or.inr (by simp)) _ hw (fun l1 l2 h12 => ?_)
        rw [hB, hB]
        exact hrel l1 l2 (h12 (by simp))
      cases hk : info.kind with
      | custom => exact plain (by simp [IsBranch, hk]) (embed_custom _ ov info mv msg attrs he hk)
      | primitiveList => exact plain (by simp [IsBranch, hk]) (embed_primitiveList _ ov info mv msg attrs he hk)
      | objectList => exact plain (by simp [IsBranch, hk]) (embed_objectList _ ov info mv msg attrs he hk)
      | primitiveMap => exact plain (by simp [IsBranch, hk]) (embed_primitiveMap _ ov info mv msg attrs he hk)
      | objectMap => exact plain (by simp [IsBranch, hk]) (embed_objectMap _ ov info mv msg attrs he hk)
      | primitive =>
        by_cases ho : info.oneOfName = ""
        · exact plain (by simp [IsBranch, ho]) (embed_prim_plain _ ov info mv msg attrs he hk ho)
        · have hbr : IsBranch info := ⟨ho, Or.inl hk⟩
          by_cases hn : Known attrs info
          · have hK : keysOf attrs info = [info.oneOfName] := by simp [keysOf, touch, he, hbr, hn, hk]
            rw [hK]
            refine sem_of_uf _ _ hw ?_
            simp only [hB]
            exact fieldWith_uf_prim_branch' _ ov info mv msg attrs [] [] hk ho
          · have hK : keysOf attrs info = [] := by simp [keysOf, hbr, hn, hk]
            rw [hK]
            refine sem_of_uf0 _ hw ?_
            simp only [hB]
            exact fieldWith_silent_prim' _ ov info mv msg attrs [] [] hk ho hn
      | object =>
        by_cases ho : info.oneOfName = ""
        · exact plain (by simp [IsBranch, ho]) (embed_obj_plain _ ov info mv msg attrs he hk ho)
        · have hbr : IsBranch info := ⟨ho, Or.inr hk⟩
          by_cases hn : Known attrs info
          · have hK : keysOf attrs info = [info.parentIsOptionalEmbedFieldName, info.oneOfName] := by
              simp [keysOf, touch, he, hbr, hn, hk]
            rw [hK]
            refine sem_of_relL _ info.parentIsOptionalEmbedFieldName (Or.inr (by simp)) _ hw (fun l1 l2 h12 => ?_)
            rw [hB, hB]
            exact embed_obj_branch _ ov info mv msg attrs he hk ho l1 l2 (h12 (by simp))
          · have hK : keysOf attrs info = [info.parentIsOptionalEmbedFieldName] := by simp [keysOf, he, hbr, hn, hk]
            rw [hK]
            refine sem_of_relL _ info.parentIsOptionalEmbedFieldName (Or.inr (by simp)) _ hw (fun l1 l2 h12 => ?_)
            rw [hB, hB]
            exact embed_obj_branch_silent _ ov info mv msg attrs he hk ho hn l1 l2 (h12 (by simp))
    · -- not a child of an embedded message: uniform in the target
      have he' : info.parentIsOptionalEmbed = false := by simpa using he
      by_cases hsil : IsBranch info ∧ ¬ Known attrs info
      · have hK : keysOf attrs info = [] := by simp [keysOf, hsil, he']
        rw [hK]
        refine sem_of_uf0 _ hw ?_
        simp only [hB]
        exact fieldWith_silent _ ov info mv msg attrs [] [] he' hsil.1 hsil.2
      · have hK : keysOf attrs info = [wk info] := by simp only [keysOf, if_neg hsil, touch, he', Bool.false_eq_true, if_false]
        rw [hK]
        refine sem_of_uf _ _ hw ?_
        simp only [hB]
        exact fieldWith_uf _ ov info mv msg attrs [] [] he'

-- ------------------------------------------------------------------------------------------------------
-- 9. permutations, all fields

/-- two blocks do not interfere: their key sets (for the given Terraform attributes) are disjoint -/
def IndepFull (attrs : Option (List (String × TfVal))) (f g : Field) : Prop :=
  ∀ k ∈ keysOf attrs f.info, k ∉ keysOf attrs g.info

theorem IndepFull.symm {attrs : Option (List (String × TfVal))} {f g : Field} (h : IndepFull attrs f g) :
    IndepFull attrs g f := fun k hg hf => h k hf hg

/-- disjoint `touch` sets are enough, whatever the attributes -/
theorem indepFull_of_touch (attrs : Option (List (String × TfVal))) (f g : Field)
    (h : ∀ k ∈ touch f.info, k ∉ touch g.info) : IndepFull attrs f g :=
  fun k hf hg => h k (keysOf_subset attrs f.info k hf) (keysOf_subset attrs g.info k hg)

/-- for fields that are not children of embedded messages, `Indep` of OrderIndep.lean is the same condition -/
theorem indepFull_of_indep (attrs : Option (List (String × TfVal))) (f g : Field)
    (hf : f.info.parentIsOptionalEmbed = false) (hg : g.info.parentIsOptionalEmbed = false) (h : Indep attrs f g) :
    IndepFull attrs f g := by
  intro k hkf hkg
  have key : ∀ info : FieldInfo, info.parentIsOptionalEmbed = false → ∀ k ∈ keysOf attrs info,
      k = wk info ∧ ¬ (IsBranch info ∧ ¬ Known attrs info) := by
    intro info he k hk
    unfold keysOf at hk
    split at hk
    · simp [he] at hk
    · rename_i hs
      simp only [touch, he, Bool.false_eq_true, if_false, List.mem_singleton] at hk
      exact ⟨hk, hs⟩
  obtain ⟨e1, n1⟩ := key f.info hf k hkf
  obtain ⟨e2, n2⟩ := key g.info hg k hkg
  rcases h with h | h | h
  · exact h (e1.symm.trans e2)
  · exact n1 h
  · exact n2 h

theorem copyFromFields_equivS (ov : List (String × String)) (attrs : Option (List (String × TfVal))) :
    ∀ (fs : List Field) (s s' : FromSt), FEquivS s s' →
      OutRel FEquivS (copyFromFields ov fs attrs s) (copyFromFields ov fs attrs s')
  | [], s, s', h => by simpa [copyFromFields] using h
  | f :: rest, s, s', h => by
    rw [copyFromFields_cons, copyFromFields_cons]
    exact outRel_bind _ _ _ _ (sem_equiv _ _ (blockF_sem ov f attrs) s s' h)
      (fun t t' ht => copyFromFields_equivS ov attrs rest t t' ht)

theorem copyFromFields_perm_equivS (ov : List (String × String)) (attrs : Option (List (String × TfVal)))
    {fs' fs : List Field} (hp : fs'.Perm fs) (hind : fs'.Pairwise (IndepFull attrs)) :
    ∀ s s', FEquivS s s' → OutRel FEquivS (copyFromFields ov fs' attrs s) (copyFromFields ov fs attrs s') := by
  induction hp with
  | nil => intro s s' h; simpa [copyFromFields] using h
  | cons x _ ih =>
    intro s s' h
    rw [copyFromFields_cons, copyFromFields_cons]
    exact outRel_bind _ _ _ _ (sem_equiv _ _ (blockF_sem ov x attrs) s s' h) (ih (List.pairwise_cons.mp hind).2)
  | swap x y l =>
    intro s s' h
    rw [copyFromFields_cons2, copyFromFields_cons2]
    have hyx : IndepFull attrs y x := (List.pairwise_cons.mp hind).1 x (by simp)
    exact outRel_bind _ _ _ _
      (sem_swap _ _ _ _ (blockF_sem ov y attrs) (blockF_sem ov x attrs) hyx s s' h)
      (fun t t' ht => copyFromFields_equivS ov attrs l t t' ht)
  | trans h1 _ ih1 ih2 =>
    intro s s' h
    have hind2 := (h1.pairwise_iff (fun hxy => IndepFull.symm hxy)).mp hind
    exact OutRel.trans (R := FEquivS) (fun _ _ _ a b => FEquivS.trans a b) (ih1 hind s s' h)
      (ih2 hind2 s' s' (FEquivS.refl _ h.2.1))

/-- **C15, CopyFrom field blocks, all fields (part 2 in full)**: `fs'` a permutation of `fs`; the blocks of `fs` work on
pairwise disjoint sets of Go fields of the target (`IndepFull`: `keysOf` = the field itself / the holder of the oneof
group – unless the branch attribute is not known – / the embedded parent pointer for children of a nullable embedded
message).  Then for every Terraform attribute map and every start state whose target is a struct, the blocks in the
order `fs'` succeed iff they succeed in the order `fs`, and after successful runs the targets hold the same value in
every Go field, with the same diagnostics and hook calls up to order.  No typing hypotheses on the IR or the value. -/
theorem copyFromFields_perm_full (ov : List (String × String)) (attrs : Option (List (String × TfVal)))
    {fs' fs : List Field} (hp : fs'.Perm fs) (hind : fs.Pairwise (IndepFull attrs)) (st : FromSt)
    (hst : IsStruct st.obj) :
    ((∃ s', copyFromFields ov fs' attrs st = .ok s') ↔ (∃ s, copyFromFields ov fs attrs st = .ok s)) ∧
    ∀ s' s, copyFromFields ov fs' attrs st = .ok s' → copyFromFields ov fs attrs st = .ok s →
      (∀ name, s'.obj.field? name = s.obj.field? name) ∧ IsStruct s'.obj ∧ IsStruct s.obj ∧
      s'.diags.Perm s.diags ∧ s'.hooks.Perm s.hooks := by
  have hind' := (hp.pairwise_iff (fun hxy => IndepFull.symm hxy)).mpr hind
  have h := copyFromFields_perm_equivS ov attrs hp hind' st st (FEquivS.refl _ hst)
  refine ⟨outRel_ok_iff h, fun s' s e' e => ?_⟩
  rw [e', e] at h
  exact ⟨h.2.2.1, h.1, h.2.1, h.2.2.2.1, h.2.2.2.2⟩

/-- **C15, `Copy<T>FromTerraform`, all fields (part 3 in full)**: two messages with the same `MsgInfo` whose field lists
are permutations of each other, blocks on pairwise disjoint key sets, target a struct. -/
theorem copyFrom_perm_full (ov : List (String × String)) (m' m : Msg) (hp : m'.fields.Perm m.fields)
    (hinfo : m'.info = m.info) (tf : TfVal) (obj : GoVal) (hobj : IsStruct obj)
    (hind : ∀ u n attrs atys, tf = .obj u n attrs atys → m.fields.Pairwise (IndepFull attrs)) :
    ((∃ r', copyFrom ov m' tf obj = .ok r') ↔ (∃ r, copyFrom ov m tf obj = .ok r)) ∧
    ∀ r' r, copyFrom ov m' tf obj = .ok r' → copyFrom ov m tf obj = .ok r →
      (∀ name, r'.obj.field? name = r.obj.field? name) ∧ IsStruct r'.obj ∧ IsStruct r.obj ∧
      r'.diags.Perm r.diags ∧ r'.hooks.Perm r.hooks := by
  unfold copyFrom
  cases tf with
  | obj u n attrs atys =>
    simp only [hinfo]
    obtain ⟨hiff, hres⟩ := copyFromFields_perm_full ov attrs hp (hind u n attrs atys rfl)
      { obj := resetOneOfs m.info.oneOfNames obj } (isStruct_resetOneOfs _ _ hobj)
    cases h' : copyFromFields ov m'.fields attrs { obj := resetOneOfs m.info.oneOfNames obj } with
    | ok s' =>
      obtain ⟨s, hs⟩ := hiff.mp ⟨s', h'⟩
      rw [hs]
      refine ⟨⟨fun _ => ⟨_, rfl⟩, fun _ => ⟨_, rfl⟩⟩, fun r' r e' e => ?_⟩
      injection e' with e'
      injection e with e
      subst e' e
      exact hres s' s h' hs
    | panic w =>
      have hno : ¬ ∃ s, copyFromFields ov m.fields attrs { obj := resetOneOfs m.info.oneOfNames obj } = .ok s :=
        fun hx => by obtain ⟨s', hs'⟩ := hiff.mpr hx; rw [h'] at hs'; cases hs'
      cases h : copyFromFields ov m.fields attrs { obj := resetOneOfs m.info.oneOfNames obj } with
      | ok s => exact absurd ⟨s, h⟩ hno
      | panic w2 => simp
      | stuck w2 => simp
    | stuck w =>
      have hno : ¬ ∃ s, copyFromFields ov m.fields attrs { obj := resetOneOfs m.info.oneOfNames obj } = .ok s :=
        fun hx => by obtain ⟨s', hs'⟩ := hiff.mpr hx; rw [h'] at hs'; cases hs'
      cases h : copyFromFields ov m.fields attrs { obj := resetOneOfs m.info.oneOfNames obj } with
      | ok s => exact absurd ⟨s, h⟩ hno
      | panic w2 => simp
      | stuck w2 => simp
  | prim _ _ _ _ => simp
  | list _ _ _ _ => simp
  | map _ _ _ _ => simp
  | nilv => simp
  | foreign _ => simp

end OrderIndep
end PGT

#print axioms PGT.OrderIndep.sem_swap
#print axioms PGT.OrderIndep.blockF_sem
#print axioms PGT.OrderIndep.copyFromFields_perm_full
#print axioms PGT.OrderIndep.copyFrom_perm_full
