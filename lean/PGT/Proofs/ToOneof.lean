import PGT.Proofs.ToAll
import PGT.Proofs.RoundTripOneof
import PGT.Props.C03
/-
C07, CopyTo side, whole message: of the attributes of the branches of one oneof group at most one is non-null after
CopyTo, and it is the active branch; when the group is unset all are null.

Everything is stated for an arbitrary field list `fs`, struct `obj` and attribute map `as` with
`rendersFields fs obj as = true` (what CopyTo into an empty typed object returns, `C03_total`), so it holds for
the message itself and, because `rendersFields` recurses, for every nested message (`Below`, `renders_below`).
-/
namespace PGT.ToOneof
open PGT PGT.Spec PGT.Props

-- ====================================================================================================
-- the judgement on the IR

/-- the "active" test `Spec.c07ToGroup` applies to the payload of a branch: non-nil message, non-zero scalar -/
def payloadActive (info : FieldInfo) (p : GoVal) : Bool :=
  if info.kind == .object then !isNilPtr p else !primIsZero p

/-- **The IR conditions under which the attribute of a oneof branch is null exactly when the branch is not active.**
A branch that is not a child of a nullable embedded message and is
* a scalar (not the placeholder) that is pointer-backed or whose type has a zero literal (C20: zero renders null), or
* a message held by pointer.
Every other shape of a scalar / message branch has a null-ness that does not depend on the struct
(`branchIR_necessary`). -/
def BranchIR (f : Field) : Prop :=
  f.info.oneOfName ≠ "" ∧ f.info.parentIsOptionalEmbed = false ∧
  ((f.info.kind = .primitive ∧ f.info.isPlaceholder = false ∧ (f.info.isNullable = true ∨ f.info.tf.zeroValue ≠ "")) ∨
   (f.info.kind = .object ∧ f.info.isNullable = true))

instance (f : Field) : Decidable (BranchIR f) := by unfold BranchIR; infer_instance

/-- the group's holder is nil -/
def HolderNil (obj : GoVal) (g : String) : Prop := obj.field? g = none ∨ obj.field? g = some (.iface none)

/-- what the non-null attribute `a` of branch `f` carries of the payload `p` -/
def Carries (f : Field) (p : GoVal) (a : TfVal) : Prop :=
  match f.info.kind with
  | .primitive =>
    ∃ k s c, primKindOf f.info = some k ∧ a = .prim k false false c ∧
      ((f.info.isNullable = true ∧ p = .ptr (some (.sc s)) ∧ c = s) ∨
       (f.info.isNullable = false ∧ p = .sc s ∧ f.info.castTo s = some c ∧ scIsZero s = false))
  | .object =>
    ∃ as tys, a = .obj false false as tys ∧ isNilPtr p = false ∧ rendersFields f.sub (structOf p) (as.getD []) = true
  | _ => False

/-- branches of one group are told apart by their wrapper types (the conclusion of `mem_sep`) -/
def GroupSep (fs : List Field) : Prop :=
  ∀ f1 ∈ fs, ∀ f2 ∈ fs, f1.info.oneOfName ≠ "" → f2.info.oneOfName = f1.info.oneOfName →
    f1 = f2 ∨ lastSegment f1.info.oneOfType ≠ lastSegment f2.info.oneOfType

theorem groupSep_of_RT2OKs (fs : List Field) (obj : GoVal) (h : RT2OKs fs obj) : GroupSep fs :=
  fun f1 h1 f2 h2 hne hs => mem_sep fs obj h f1 h1 f2 h2 hne hs

/-- the typing judgement of the round trip (C04) implies the branch judgement and the well-formed holder -/
theorem branchIR_of_RT2OK (f : Field) (obj : GoVal) (h : RT2OK f obj) (ho : f.info.oneOfName ≠ "") :
    BranchIR f ∧ HolderWF f.info obj := by
  obtain ⟨info, mv, msg, sub⟩ := f
  unfold RT2OK at h
  obtain ⟨he, _, hph, hcase⟩ := h
  simp only at ho
  rcases hcase with ⟨h0, _⟩ | ⟨_, hw, hm⟩
  · exact absurd h0 ho
  · refine ⟨⟨ho, he, ?_⟩, hw⟩
    have hnp : info.isPlaceholder = false := by
      cases hp : info.isPlaceholder with
      | false => rfl
      | true => exact absurd (hph hp).2 ho
    cases hk : info.kind <;> simp only [hk] at hm
    · exact Or.inl ⟨rfl, hnp, Or.inr hm.2.1⟩
    · exact Or.inr ⟨rfl, hm.1⟩

-- ====================================================================================================
-- reading a branch

/-- an inactive branch reads as the zero value (`genOneOfStub`: the empty wrapper) -/
theorem inactive_reads_zero (info : FieldInfo) (obj : GoVal) (ho : info.oneOfName ≠ "")
    (he : info.parentIsOptionalEmbed = false) (h : activePayload info obj = none) :
    getVal info obj = zeroGoOf info := by
  have hob : (info.oneOfName != "") = true := by simpa using ho
  have hsh : oneOfShadow info obj = .struct [] := by
    unfold oneOfShadow
    unfold activePayload at h
    have hoe : (info.oneOfName == "") = false := by simpa using ho
    simp only [hoe, Bool.false_eq_true, if_false]
    cases hf : obj.field? info.oneOfName with
    | none => rfl
    | some v =>
      cases v with
      | iface o =>
        cases o with
        | none => rfl
        | some t =>
          obtain ⟨w, fn, payload⟩ := t
          simp only [hf] at h
          by_cases hw : (w == lastSegment info.oneOfType) = true
          · simp [hw] at h
          · simp [hw]
      | sc _ => rfl
      | ptr _ => rfl
      | struct _ => rfl
      | slice _ => rfl
      | map _ => rfl
  unfold getVal
  simp only [he, Bool.false_eq_true, if_false, hob, if_true, hsh]
  simp [GoVal.field?, List.lookup]

/-- the branch whose wrapper the holder carries reads the payload -/
theorem active_reads_payload (info : FieldInfo) (obj : GoVal) (ho : info.oneOfName ≠ "")
    (he : info.parentIsOptionalEmbed = false) (p : GoVal)
    (hh : obj.field? info.oneOfName = some (.iface (some (lastSegment info.oneOfType, info.name, p)))) :
    getVal info obj = p := by
  have hob : (info.oneOfName != "") = true := by simpa using ho
  have hoe : (info.oneOfName == "") = false := by simpa using ho
  unfold getVal oneOfShadow
  simp only [he, hob, hoe, hh, Bool.false_eq_true, if_false, if_true, beq_self_eq_true]
  simp [GoVal.field?, List.lookup]

/-- a branch that reads something else than the zero value is the active branch: the holder carries its wrapper, under
its field name, with the value read as payload (no assumption on the holder) -/
theorem holder_of_nonzero (info : FieldInfo) (obj : GoVal) (ho : info.oneOfName ≠ "")
    (he : info.parentIsOptionalEmbed = false) (h : getVal info obj ≠ zeroGoOf info) :
    obj.field? info.oneOfName = some (.iface (some (lastSegment info.oneOfType, info.name, getVal info obj))) := by
  have hob : (info.oneOfName != "") = true := by simpa using ho
  have hoe : (info.oneOfName == "") = false := by simpa using ho
  cases hf : obj.field? info.oneOfName with
  | none =>
    exact absurd (inactive_reads_zero info obj ho he (by simp [activePayload, hf])) h
  | some v =>
    cases v with
    | iface o =>
      cases o with
      | none => exact absurd (inactive_reads_zero info obj ho he (by simp [activePayload, hf])) h
      | some t =>
        obtain ⟨w, fn, payload⟩ := t
        by_cases hw : (w == lastSegment info.oneOfType) = true
        · have hweq : w = lastSegment info.oneOfType := by simpa using hw
          subst hweq
          by_cases hfn : fn = info.name
          · subst hfn
            rw [active_reads_payload info obj ho he payload hf]
          · exfalso
            apply h
            have hne : (info.name == fn) = false := by simpa using fun e => hfn e.symm
            unfold getVal oneOfShadow
            simp only [he, hob, hoe, hf, Bool.false_eq_true, if_false, if_true, beq_self_eq_true]
            simp [GoVal.field?, List.lookup, hne]
        · exact absurd (inactive_reads_zero info obj ho he (by simp [activePayload, hf, hw])) h
    | sc _ => exact absurd (inactive_reads_zero info obj ho he (by simp [activePayload, hf])) h
    | ptr _ => exact absurd (inactive_reads_zero info obj ho he (by simp [activePayload, hf])) h
    | struct _ => exact absurd (inactive_reads_zero info obj ho he (by simp [activePayload, hf])) h
    | slice _ => exact absurd (inactive_reads_zero info obj ho he (by simp [activePayload, hf])) h
    | map _ => exact absurd (inactive_reads_zero info obj ho he (by simp [activePayload, hf])) h

/-- the zero value is not an active payload -/
theorem zero_not_active (f : Field) (hb : BranchIR f) : payloadActive f.info (zeroGoOf f.info) = false := by
  obtain ⟨_, _, hs⟩ := hb
  unfold payloadActive zeroGoOf
  rcases hs with ⟨hk, _, _⟩ | ⟨hk, hn⟩
  · by_cases hn : f.info.isNullable = true
    · simp [hk, hn, primIsZero]
    · simp [hk, hn, primIsZero, scIsZero_zeroOfRep]
  · simp [hk, hn, isNilPtr]

-- ====================================================================================================
-- one branch attribute in a rendering

/-- **the null-ness of a branch attribute is the negation of "the value read is an active payload"** -/
theorem branch_null (f : Field) (obj : GoVal) (a : TfVal) (hb : BranchIR f) (hr : rendersVal f obj a = true) :
    isNull a = !payloadActive f.info (getVal f.info obj) := by
  obtain ⟨info, mv, msg, sub⟩ := f
  obtain ⟨_, he, hs⟩ := hb
  simp only at he hs
  unfold rendersVal at hr
  unfold payloadActive
  rcases hs with ⟨hk, hph, hz⟩ | ⟨hk, hn⟩
  · simp only [hk, hph, he, Bool.false_and, Bool.false_eq_true, if_false] at hr
    have hko : (Kind.primitive == Kind.object) = false := by decide
    simp only [hk, hko, Bool.false_eq_true, if_false]
    unfold primRenders at hr
    cases a with
    | prim k u n p =>
      simp only [Bool.and_eq_true] at hr
      obtain ⟨_, hr⟩ := hr
      by_cases hn : info.isNullable = true
      · simp only [hn, if_true] at hr
        cases hx : getVal info obj with
        | ptr o =>
          cases o with
          | none => simp [hx] at hr; simp [isNull, primIsZero, hr]
          | some v =>
            cases v <;> simp [hx] at hr
            simp [isNull, primIsZero, hr.1]
        | sc _ => simp [hx] at hr
        | struct _ => simp [hx] at hr
        | slice _ => simp [hx] at hr
        | map _ => simp [hx] at hr
        | iface _ => simp [hx] at hr
      · have hn' : info.isNullable = false := by simpa using hn
        have hzv : (info.tf.zeroValue != "") = true := by
          rcases hz with hz | hz
          · exact absurd hz hn
          · simpa using hz
        simp only [hn', Bool.false_eq_true, if_false, hzv, if_true] at hr
        cases hx : getVal info obj with
        | sc s =>
          simp only [hx, Bool.and_eq_true, beq_iff_eq] at hr
          simp [isNull, primIsZero, hr.2]
        | ptr _ => simp [hx] at hr
        | struct _ => simp [hx] at hr
        | slice _ => simp [hx] at hr
        | map _ => simp [hx] at hr
        | iface _ => simp [hx] at hr
    | list _ _ _ _ => simp at hr
    | map _ _ _ _ => simp at hr
    | obj _ _ _ _ => simp at hr
    | nilv => simp at hr
    | foreign _ => simp at hr
  · simp only [hk] at hr
    simp only [hk, beq_self_eq_true, if_true]
    unfold objRenders at hr
    cases a with
    | obj u n as atys =>
      simp only [hn, if_true, Bool.and_eq_true, beq_iff_eq] at hr
      simp [isNull, hr.2.1]
    | prim _ _ _ _ => simp at hr
    | list _ _ _ _ => simp at hr
    | map _ _ _ _ => simp at hr
    | nilv => simp at hr
    | foreign _ => simp at hr

/-- a non-null branch attribute carries the rendering of the value read: the cast scalar, resp. the nested object that
renders the nested struct -/
theorem branch_carries (f : Field) (obj : GoVal) (a : TfVal) (hb : BranchIR f) (hr : rendersVal f obj a = true)
    (hnn : isNull a = false) : Carries f (getVal f.info obj) a := by
  obtain ⟨info, mv, msg, sub⟩ := f
  obtain ⟨_, he, hs⟩ := hb
  simp only at he hs
  unfold rendersVal at hr
  unfold Carries
  rcases hs with ⟨hk, hph, hz⟩ | ⟨hk, hn⟩
  · simp only [hk, hph, he, Bool.false_and, Bool.false_eq_true, if_false] at hr
    simp only [hk]
    unfold primRenders at hr
    cases a with
    | prim k u n p =>
      simp only [isNull] at hnn
      subst hnn
      simp only [Bool.and_eq_true, Bool.not_eq_true', beq_iff_eq] at hr
      obtain ⟨⟨hu, hkk⟩, hr⟩ := hr
      subst hu
      by_cases hn : info.isNullable = true
      · simp only [hn, if_true] at hr
        cases hx : getVal info obj with
        | ptr o =>
          cases o with
          | none => simp [hx] at hr
          | some v =>
            cases v <;> simp [hx] at hr
            rename_i s
            exact ⟨k, s, p, hkk, rfl, Or.inl ⟨hn, rfl, hr⟩⟩
        | sc _ => simp [hx] at hr
        | struct _ => simp [hx] at hr
        | slice _ => simp [hx] at hr
        | map _ => simp [hx] at hr
        | iface _ => simp [hx] at hr
      · have hn' : info.isNullable = false := by simpa using hn
        have hzv : (info.tf.zeroValue != "") = true := by
          rcases hz with hz | hz
          · exact absurd hz hn
          · simpa using hz
        simp only [hn', Bool.false_eq_true, if_false, hzv, if_true] at hr
        cases hx : getVal info obj with
        | sc s =>
          simp only [hx, Bool.and_eq_true, beq_iff_eq] at hr
          obtain ⟨hc, hzz⟩ := hr
          cases hcc : info.castTo s with
          | none => simp [hcc] at hc
          | some c =>
            simp only [hcc, beq_iff_eq] at hc
            subst hc
            exact ⟨k, s, p, hkk, rfl, Or.inr ⟨hn', rfl, hcc, hzz.symm⟩⟩
        | ptr _ => simp [hx] at hr
        | struct _ => simp [hx] at hr
        | slice _ => simp [hx] at hr
        | map _ => simp [hx] at hr
        | iface _ => simp [hx] at hr
    | list _ _ _ _ => simp at hr
    | map _ _ _ _ => simp at hr
    | obj _ _ _ _ => simp at hr
    | nilv => simp at hr
    | foreign _ => simp at hr
  · simp only [hk] at hr
    simp only [hk]
    unfold objRenders at hr
    cases a with
    | obj u n as atys =>
      simp only [isNull] at hnn
      subst hnn
      simp only [hn, if_true, Bool.and_eq_true, Bool.not_eq_true', beq_iff_eq, Bool.or_eq_true] at hr
      obtain ⟨hu, hnil, hR⟩ := hr
      subst hu
      have hnil' : isNilPtr (getVal info obj) = false := hnil.symm
      rw [hnil'] at hR
      exact ⟨as, atys, rfl, hnil', by simpa using hR⟩
    | prim _ _ _ _ => simp at hr
    | list _ _ _ _ => simp at hr
    | map _ _ _ _ => simp at hr
    | nilv => simp at hr
    | foreign _ => simp at hr

/-- a rendering holds an accepted attribute for every field -/
theorem renders_lookup : ∀ (fs : List Field) (obj : GoVal) (as : List (String × TfVal)),
    rendersFields fs obj as = true → ∀ f ∈ fs, ∃ a, as.lookup f.info.nameSnake = some a ∧ rendersVal f obj a = true
  | [], _, _, _ => by simp
  | g :: rest, obj, as, h => by
    unfold rendersFields at h
    simp only [Bool.and_eq_true] at h
    intro f hf
    simp only [List.mem_cons] at hf
    rcases hf with rfl | hf
    · cases hl : as.lookup f.info.nameSnake with
      | none => simp [hl] at h
      | some a => simp only [hl] at h; exact ⟨a, rfl, h.1⟩
    · exact renders_lookup rest obj as h.2 f hf

-- ====================================================================================================
-- one group in a rendering (any fields around it)

/-- **1. Holder nil ⇒ every branch attribute of the group is null.** -/
theorem unset_all_null (fs : List Field) (obj : GoVal) (as : List (String × TfVal))
    (hR : rendersFields fs obj as = true) (g : String) (hnil : HolderNil obj g) :
    ∀ f ∈ fs, f.info.oneOfName = g → BranchIR f → ∃ a, as.lookup f.info.nameSnake = some a ∧ isNull a = true := by
  intro f hf hg hb
  obtain ⟨a, hl, hr⟩ := renders_lookup fs obj as hR f hf
  refine ⟨a, hl, ?_⟩
  have hap : activePayload f.info obj = none := activePayload_init f.info obj (by rw [hg]; exact hnil)
  rw [branch_null f obj a hb hr, inactive_reads_zero f.info obj hb.1 hb.2.1 hap, zero_not_active f hb]
  rfl

/-- **2a. The holder carries the wrapper of `f0` with an active (non-zero / non-nil) payload ⇒ the attribute of `f0`
is non-null and carries the payload's rendering.** -/
theorem active_nonnull (fs : List Field) (obj : GoVal) (as : List (String × TfVal))
    (hR : rendersFields fs obj as = true) (f0 : Field) (hf0 : f0 ∈ fs) (hb0 : BranchIR f0) (p : GoVal)
    (hh : obj.field? f0.info.oneOfName = some (.iface (some (lastSegment f0.info.oneOfType, f0.info.name, p))))
    (hact : payloadActive f0.info p = true) :
    ∃ a, as.lookup f0.info.nameSnake = some a ∧ isNull a = false ∧ Carries f0 p a := by
  obtain ⟨a, hl, hr⟩ := renders_lookup fs obj as hR f0 hf0
  have hg := active_reads_payload f0.info obj hb0.1 hb0.2.1 p hh
  have hn : isNull a = false := by rw [branch_null f0 obj a hb0 hr, hg, hact]; rfl
  refine ⟨a, hl, hn, ?_⟩
  have := branch_carries f0 obj a hb0 hr hn
  rwa [hg] at this

/-- … with a zero / nil payload the attribute of `f0` is null as well (a oneof set to the zero value renders as unset) -/
theorem zero_payload_null (fs : List Field) (obj : GoVal) (as : List (String × TfVal))
    (hR : rendersFields fs obj as = true) (f0 : Field) (hf0 : f0 ∈ fs) (hb0 : BranchIR f0) (p : GoVal)
    (hh : obj.field? f0.info.oneOfName = some (.iface (some (lastSegment f0.info.oneOfType, f0.info.name, p))))
    (hact : payloadActive f0.info p = false) :
    ∃ a, as.lookup f0.info.nameSnake = some a ∧ isNull a = true := by
  obtain ⟨a, hl, hr⟩ := renders_lookup fs obj as hR f0 hf0
  have hg := active_reads_payload f0.info obj hb0.1 hb0.2.1 p hh
  exact ⟨a, hl, by rw [branch_null f0 obj a hb0 hr, hg, hact]; rfl⟩

/-- **2b. The holder carries a wrapper `w` ⇒ the attribute of every branch of the group with another wrapper type is
null** (whatever the payload). -/
theorem others_null (fs : List Field) (obj : GoVal) (as : List (String × TfVal))
    (hR : rendersFields fs obj as = true) (g w fn : String) (p : GoVal)
    (hh : obj.field? g = some (.iface (some (w, fn, p)))) :
    ∀ f ∈ fs, f.info.oneOfName = g → BranchIR f → lastSegment f.info.oneOfType ≠ w →
      ∃ a, as.lookup f.info.nameSnake = some a ∧ isNull a = true := by
  intro f hf hg hb hne
  obtain ⟨a, hl, hr⟩ := renders_lookup fs obj as hR f hf
  refine ⟨a, hl, ?_⟩
  have hap : activePayload f.info obj = none := by
    rw [activePayload_field f.info obj w fn p (by rw [hg]; exact hh)]
    have : (w == lastSegment f.info.oneOfType) = false := by simpa using fun e => hne e.symm
    simp [this]
  rw [branch_null f obj a hb hr, inactive_reads_zero f.info obj hb.1 hb.2.1 hap, zero_not_active f hb]
  rfl

/-- **A non-null branch attribute is the active branch**: the holder carries this branch's wrapper, under this branch's
field name, with the value rendered as payload, and the payload is active. -/
theorem nonnull_is_active (fs : List Field) (obj : GoVal) (as : List (String × TfVal))
    (hR : rendersFields fs obj as = true) (f : Field) (hf : f ∈ fs) (hb : BranchIR f) (a : TfVal)
    (hl : as.lookup f.info.nameSnake = some a) (hn : isNull a = false) :
    obj.field? f.info.oneOfName =
        some (.iface (some (lastSegment f.info.oneOfType, f.info.name, getVal f.info obj))) ∧
      payloadActive f.info (getVal f.info obj) = true ∧ Carries f (getVal f.info obj) a := by
  obtain ⟨a', hl', hr⟩ := renders_lookup fs obj as hR f hf
  rw [hl] at hl'
  injection hl' with hl'
  subst hl'
  have hact : payloadActive f.info (getVal f.info obj) = true := by
    have := branch_null f obj a hb hr
    rw [hn] at this
    cases hp : payloadActive f.info (getVal f.info obj) with
    | true => rfl
    | false => rw [hp] at this; cases this
  refine ⟨holder_of_nonzero f.info obj hb.1 hb.2.1 ?_, hact, branch_carries f obj a hb hr hn⟩
  intro e
  rw [e, zero_not_active f hb] at hact
  cases hact

/-- **3. At most one branch attribute of a group is non-null.** -/
theorem at_most_one (fs : List Field) (obj : GoVal) (as : List (String × TfVal))
    (hR : rendersFields fs obj as = true) (hsep : GroupSep fs) :
    ∀ f1 ∈ fs, ∀ f2 ∈ fs, BranchIR f1 → BranchIR f2 → f2.info.oneOfName = f1.info.oneOfName →
      ∀ a1 a2, as.lookup f1.info.nameSnake = some a1 → as.lookup f2.info.nameSnake = some a2 →
        isNull a1 = false → isNull a2 = false → f1 = f2 := by
  intro f1 hf1 f2 hf2 hb1 hb2 hg a1 a2 hl1 hl2 hn1 hn2
  obtain ⟨hh1, _, _⟩ := nonnull_is_active fs obj as hR f1 hf1 hb1 a1 hl1 hn1
  obtain ⟨hh2, _, _⟩ := nonnull_is_active fs obj as hR f2 hf2 hb2 a2 hl2 hn2
  rw [hg, hh1] at hh2
  injection hh2 with hh2
  injection hh2 with hh2
  injection hh2 with hh2
  injection hh2 with hw _
  rcases hsep f1 hf1 f2 hf2 hb1.1 hg with e | e
  · exact e
  · exact absurd hw e

/-- the executable predicate of C07 (`Spec.c07ToGroup`, evaluated by the driver on the real generated code) holds for
the group -/
theorem c07ToGroup_of_renders (fs : List Field) (obj : GoVal) (as : List (String × TfVal))
    (hR : rendersFields fs obj as = true) (g : String)
    (hb : ∀ f ∈ fs, f.info.oneOfName = g → BranchIR f ∧ HolderWF f.info obj) :
    c07ToGroup g fs obj as = true := by
  unfold c07ToGroup groupOf
  simp only [List.all_eq_true, List.mem_filter, beq_iff_eq]
  intro f ⟨hf, hg⟩
  obtain ⟨hbf, hw⟩ := hb f hf hg
  obtain ⟨a, hl, hr⟩ := renders_lookup fs obj as hR f hf
  have hn := branch_null f obj a hbf hr
  have hgv := getVal_branch f.info obj hbf.1 hbf.2.1 hw
  simp only [hl]
  cases hap : activePayload f.info obj with
  | none =>
    rw [hap] at hgv
    simp only [Option.getD] at hgv
    rw [hgv, zero_not_active f hbf] at hn
    simp [hn]
  | some p =>
    rw [hap] at hgv
    simp only [Option.getD] at hgv
    rw [hgv] at hn
    unfold payloadActive at hn
    simp [hn]

/-- … and for all groups of the message: `Spec.c07ToCheck` -/
theorem c07ToCheck_of_renders (m : Msg) (obj : GoVal) (u n : Bool) (as : List (String × TfVal))
    (tys : Option (List (String × TfTy))) (hR : rendersFields m.fields obj as = true)
    (hb : ∀ f ∈ m.fields, f.info.oneOfName ≠ "" → BranchIR f ∧ HolderWF f.info obj) :
    c07ToCheck m obj (.obj u n (some as) tys) = true := by
  unfold c07ToCheck
  simp only [Option.getD, List.all_eq_true]
  intro g hg
  have hne : g ≠ "" := by
    unfold groupNames at hg
    simp only [List.mem_filter, bne_iff_ne, ne_eq] at hg
    exact hg.2
  exact c07ToGroup_of_renders m.fields obj as hR g (fun f hf e => hb f hf (by rw [e]; exact hne))

/-- everything C07 says about the groups of one message level, bundled -/
structure GroupsExclusive (fs : List Field) (obj : GoVal) (as : List (String × TfVal)) : Prop where
  /-- 1. holder nil ⇒ all branch attributes null -/
  unset : ∀ g, HolderNil obj g → ∀ f ∈ fs, f.info.oneOfName = g → BranchIR f →
    ∃ a, as.lookup f.info.nameSnake = some a ∧ isNull a = true
  /-- 2a. the active branch (non-zero payload) is non-null and carries the payload's rendering -/
  active : ∀ f0 ∈ fs, BranchIR f0 → ∀ p,
    obj.field? f0.info.oneOfName = some (.iface (some (lastSegment f0.info.oneOfType, f0.info.name, p))) →
    payloadActive f0.info p = true →
    ∃ a, as.lookup f0.info.nameSnake = some a ∧ isNull a = false ∧ Carries f0 p a
  /-- … with a zero payload it is null -/
  zeroPayload : ∀ f0 ∈ fs, BranchIR f0 → ∀ p,
    obj.field? f0.info.oneOfName = some (.iface (some (lastSegment f0.info.oneOfType, f0.info.name, p))) →
    payloadActive f0.info p = false → ∃ a, as.lookup f0.info.nameSnake = some a ∧ isNull a = true
  /-- 2b. every branch with another wrapper type is null -/
  others : ∀ g w fn p, obj.field? g = some (.iface (some (w, fn, p))) →
    ∀ f ∈ fs, f.info.oneOfName = g → BranchIR f → lastSegment f.info.oneOfType ≠ w →
      ∃ a, as.lookup f.info.nameSnake = some a ∧ isNull a = true
  /-- a non-null branch attribute is the active branch -/
  nonnullActive : ∀ f ∈ fs, BranchIR f → ∀ a, as.lookup f.info.nameSnake = some a → isNull a = false →
    obj.field? f.info.oneOfName =
        some (.iface (some (lastSegment f.info.oneOfType, f.info.name, getVal f.info obj))) ∧
      payloadActive f.info (getVal f.info obj) = true ∧ Carries f (getVal f.info obj) a
  /-- 3. at most one non-null branch attribute per group -/
  atMostOne : GroupSep fs → ∀ f1 ∈ fs, ∀ f2 ∈ fs, BranchIR f1 → BranchIR f2 → f2.info.oneOfName = f1.info.oneOfName →
    ∀ a1 a2, as.lookup f1.info.nameSnake = some a1 → as.lookup f2.info.nameSnake = some a2 →
      isNull a1 = false → isNull a2 = false → f1 = f2
  /-- the executable predicate -/
  check : ∀ g, (∀ f ∈ fs, f.info.oneOfName = g → BranchIR f ∧ HolderWF f.info obj) → c07ToGroup g fs obj as = true

theorem groupsExclusive_of_renders (fs : List Field) (obj : GoVal) (as : List (String × TfVal))
    (hR : rendersFields fs obj as = true) : GroupsExclusive fs obj as where
  unset := fun g => unset_all_null fs obj as hR g
  active := fun f0 hf0 hb0 p => active_nonnull fs obj as hR f0 hf0 hb0 p
  zeroPayload := fun f0 hf0 hb0 p => zero_payload_null fs obj as hR f0 hf0 hb0 p
  others := fun g w fn p => others_null fs obj as hR g w fn p
  nonnullActive := fun f hf hb a => nonnull_is_active fs obj as hR f hf hb a
  atMostOne := at_most_one fs obj as hR
  check := fun g => c07ToGroup_of_renders fs obj as hR g

-- ====================================================================================================
-- 4. every depth

/-- a non-null object value that renders a message-typed value renders the nested struct -/
theorem objRenders_nonnull (nb : Bool) (rs : GoVal → List (String × TfVal) → Bool) (e : GoVal) (u : Bool)
    (as : Option (List (String × TfVal))) (tys : Option (List (String × TfTy)))
    (h : objRenders nb rs e (.obj u false as tys) = true) : rs (structOf e) (as.getD []) = true := by
  unfold objRenders at h
  cases nb with
  | true =>
    simp only [if_true, Bool.and_eq_true, beq_iff_eq, Bool.or_eq_true] at h
    obtain ⟨_, hn, hr⟩ := h
    rw [← hn] at hr
    simpa using hr
  | false =>
    simp only [Bool.false_eq_true, if_false, Bool.and_eq_true] at h
    exact h.2.2

/-- the message levels below `(fs, obj, as)`: a nested struct together with the attributes of the non-null object value
that stands for it – the value of a message field, an element of a list of messages, a value of a map of messages –
at any depth -/
inductive Below (fs : List Field) (obj : GoVal) (as : List (String × TfVal)) :
    List Field → GoVal → List (String × TfVal) → Prop
  | root : Below fs obj as fs obj as
  | field {fs' obj' as'} (f : Field) (u : Bool) (as'' : Option (List (String × TfVal))) (tys : Option (List (String × TfTy))) :
      Below fs obj as fs' obj' as' → f ∈ fs' → f.info.kind = .object →
      as'.lookup f.info.nameSnake = some (.obj u false as'' tys) →
      Below fs obj as f.sub (structOf (getVal f.info obj')) (as''.getD [])
  | elem {fs' obj' as'} (f : Field) (u n : Bool) (es : Option (List TfVal)) (ety : Option TfTy) (e : GoVal) (u' : Bool)
      (as'' : Option (List (String × TfVal))) (tys : Option (List (String × TfTy))) :
      Below fs obj as fs' obj' as' → f ∈ fs' → f.info.kind = .objectList →
      as'.lookup f.info.nameSnake = some (.list u n es ety) →
      (e, TfVal.obj u' false as'' tys) ∈ (sliceElems (getVal f.info obj')).zip (es.getD []) →
      Below fs obj as f.sub (structOf e) (as''.getD [])
  | mapElem {fs' obj' as'} (f : Field) (u n : Bool) (es : Option (List (String × TfVal))) (ety : Option TfTy) (k : String)
      (e : GoVal) (u' : Bool) (as'' : Option (List (String × TfVal))) (tys : Option (List (String × TfTy))) :
      Below fs obj as fs' obj' as' → f ∈ fs' → f.info.kind = .objectMap →
      as'.lookup f.info.nameSnake = some (.map u n es ety) →
      (k, e) ∈ mapElems (getVal f.info obj') → (es.getD []).lookup k = some (.obj u' false as'' tys) →
      Below fs obj as f.sub (structOf e) (as''.getD [])

/-- `rendersFields` recurses: every level below a rendering is a rendering -/
theorem renders_below (fs : List Field) (obj : GoVal) (as : List (String × TfVal))
    (hR : rendersFields fs obj as = true) {fs' : List Field} {obj' : GoVal} {as' : List (String × TfVal)}
    (hb : Below fs obj as fs' obj' as') : rendersFields fs' obj' as' = true := by
  induction hb with
  | root => exact hR
  | @field fs' obj' as' f u as'' tys _ hf hk hl ih =>
    obtain ⟨a, hl', hr⟩ := renders_lookup fs' obj' as' ih f hf
    rw [hl] at hl'
    injection hl' with hl'
    subst hl'
    obtain ⟨info, mv, msg, sub⟩ := f
    simp only at hk
    unfold rendersVal at hr
    simp only [hk] at hr
    exact objRenders_nonnull _ _ _ _ _ _ hr
  | @elem fs' obj' as' f u n es ety e u' as'' tys _ hf hk hl hmem ih =>
    obtain ⟨a, hl', hr⟩ := renders_lookup fs' obj' as' ih f hf
    rw [hl] at hl'
    injection hl' with hl'
    subst hl'
    obtain ⟨info, mv, msg, sub⟩ := f
    simp only at hk hmem
    unfold rendersVal at hr
    simp only [hk, Bool.and_eq_true, List.all_eq_true] at hr
    exact objRenders_nonnull _ _ _ _ _ _ (hr.2 _ hmem)
  | @mapElem fs' obj' as' f u n es ety k e u' as'' tys _ hf hk hl hmem hlk ih =>
    obtain ⟨a, hl', hr⟩ := renders_lookup fs' obj' as' ih f hf
    rw [hl] at hl'
    injection hl' with hl'
    subst hl'
    obtain ⟨info, mv, msg, sub⟩ := f
    simp only at hk hmem hlk
    unfold rendersVal at hr
    simp only [hk, Bool.and_eq_true, List.all_eq_true] at hr
    have := hr.2 _ hmem
    simp only [hlk] at this
    exact objRenders_nonnull _ _ _ _ _ _ this

/-- **4. The groups of every nested message are exclusive as well** -/
theorem groupsExclusive_below (fs : List Field) (obj : GoVal) (as : List (String × TfVal))
    (hR : rendersFields fs obj as = true) {fs' : List Field} {obj' : GoVal} {as' : List (String × TfVal)}
    (hb : Below fs obj as fs' obj' as') : GroupsExclusive fs' obj' as' :=
  groupsExclusive_of_renders fs' obj' as' (renders_below fs obj as hR hb)

/-- the nested message of a (non-null) message field -/
theorem groupsExclusive_field (fs : List Field) (obj : GoVal) (as : List (String × TfVal))
    (hR : rendersFields fs obj as = true) (f : Field) (hf : f ∈ fs) (hk : f.info.kind = .object)
    (u : Bool) (as' : Option (List (String × TfVal))) (tys : Option (List (String × TfTy)))
    (hl : as.lookup f.info.nameSnake = some (.obj u false as' tys)) :
    GroupsExclusive f.sub (structOf (getVal f.info obj)) (as'.getD []) :=
  groupsExclusive_below fs obj as hR (.field f u as' tys .root hf hk hl)

/-- the nested message of an element of a list of messages -/
theorem groupsExclusive_elem (fs : List Field) (obj : GoVal) (as : List (String × TfVal))
    (hR : rendersFields fs obj as = true) (f : Field) (hf : f ∈ fs) (hk : f.info.kind = .objectList)
    (u n : Bool) (es : Option (List TfVal)) (ety : Option TfTy)
    (hl : as.lookup f.info.nameSnake = some (.list u n es ety))
    (e : GoVal) (u' : Bool) (as' : Option (List (String × TfVal))) (tys : Option (List (String × TfTy)))
    (hmem : (e, TfVal.obj u' false as' tys) ∈ (sliceElems (getVal f.info obj)).zip (es.getD [])) :
    GroupsExclusive f.sub (structOf e) (as'.getD []) :=
  groupsExclusive_below fs obj as hR (.elem f u n es ety e u' as' tys .root hf hk hl hmem)

-- ====================================================================================================
-- the IR conditions are necessary: what the model does outside `BranchIR`

/-- **Counterexample shape 1** – a scalar branch held by value whose type has no zero literal (rows `time` and `duration`
of the type table, `zeroValue_of_config`): its attribute is *never* null, whatever the holder. "Unset" and "set to the
zero value" both render as a non-null zero value; when another branch is active the group has two non-null attributes
(`counter_two_nonnull`). -/
theorem noZeroValue_never_null (f : Field) (obj : GoVal) (a : TfVal) (hk : f.info.kind = .primitive)
    (hph : f.info.isPlaceholder = false) (he : f.info.parentIsOptionalEmbed = false) (hn : f.info.isNullable = false)
    (hz : f.info.tf.zeroValue = "") (hr : rendersVal f obj a = true) : isNull a = false := by
  obtain ⟨info, mv, msg, sub⟩ := f
  simp only at hk hph he hn hz
  unfold rendersVal at hr
  simp only [hk, hph, he, Bool.false_and, Bool.false_eq_true, if_false] at hr
  unfold primRenders at hr
  cases a with
  | prim k u n p =>
    have hzv : (info.tf.zeroValue != "") = false := by simp [hz]
    simp only [hn, Bool.false_eq_true, if_false, hzv, Bool.and_eq_true] at hr
    cases hx : getVal info obj with
    | sc s =>
      simp only [hx, Bool.and_eq_true, Bool.not_eq_true'] at hr
      simpa [isNull] using hr.2.2
    | ptr _ => simp [hx] at hr
    | struct _ => simp [hx] at hr
    | slice _ => simp [hx] at hr
    | map _ => simp [hx] at hr
    | iface _ => simp [hx] at hr
  | list _ _ _ _ => simp at hr
  | map _ _ _ _ => simp at hr
  | obj _ _ _ _ => simp at hr
  | nilv => simp at hr
  | foreign _ => simp at hr

/-- **Counterexample shape 2** – a message branch held by value: never null -/
theorem byValueMessage_never_null (f : Field) (obj : GoVal) (a : TfVal) (hk : f.info.kind = .object)
    (hn : f.info.isNullable = false) (hr : rendersVal f obj a = true) : isNull a = false := by
  obtain ⟨info, mv, msg, sub⟩ := f
  simp only at hk hn
  unfold rendersVal at hr
  simp only [hk] at hr
  unfold objRenders at hr
  cases a with
  | obj u n as atys =>
    simp only [hn, Bool.false_eq_true, if_false, Bool.and_eq_true, Bool.not_eq_true'] at hr
    simpa [isNull] using hr.2.1
  | prim _ _ _ _ => simp at hr
  | list _ _ _ _ => simp at hr
  | map _ _ _ _ => simp at hr
  | nilv => simp at hr
  | foreign _ => simp at hr

/-- **Counterexample shape 3** – the placeholder: always null -/
theorem placeholder_always_null (f : Field) (obj : GoVal) (a : TfVal) (hk : f.info.kind = .primitive)
    (hph : f.info.isPlaceholder = true) (hr : rendersVal f obj a = true) : isNull a = true := by
  obtain ⟨info, mv, msg, sub⟩ := f
  simp only at hk hph
  unfold rendersVal at hr
  simp only [hk, hph, if_true, Bool.and_eq_true] at hr
  exact hr.1

/-- **`BranchIR` is exact**: for a scalar or message branch that is not a child of an embedded message and does not
satisfy `BranchIR`, the null-ness of the attribute is a constant – it says nothing about the holder. -/
theorem branchIR_necessary (f : Field) (he : f.info.parentIsOptionalEmbed = false) (ho : f.info.oneOfName ≠ "")
    (hk : f.info.kind = .primitive ∨ f.info.kind = .object) (hnb : ¬ BranchIR f) :
    (∀ obj a, rendersVal f obj a = true → isNull a = false) ∨ (∀ obj a, rendersVal f obj a = true → isNull a = true) := by
  rcases hk with hk | hk
  · by_cases hph : f.info.isPlaceholder = true
    · exact Or.inr (fun obj a hr => placeholder_always_null f obj a hk hph hr)
    · have hph' : f.info.isPlaceholder = false := by simpa using hph
      by_cases hn : f.info.isNullable = true
      · exact absurd ⟨ho, he, Or.inl ⟨hk, hph', Or.inl hn⟩⟩ hnb
      · by_cases hz : f.info.tf.zeroValue = ""
        · exact Or.inl (fun obj a hr => noZeroValue_never_null f obj a hk hph' he (by simpa using hn) hz hr)
        · exact absurd ⟨ho, he, Or.inl ⟨hk, hph', Or.inr hz⟩⟩ hnb
  · by_cases hn : f.info.isNullable = true
    · exact absurd ⟨ho, he, Or.inr ⟨hk, hn⟩⟩ hnb
    · exact Or.inl (fun obj a hr => byValueMessage_never_null f obj a hk (by simpa using hn) hr)

/-- the rows of the type table without a zero literal: `time` and `duration` take their Terraform type from the
configuration, which has no zero literal; all scalar rows have one -/
theorem zeroValue_of_config (s : SchemaTypeC) : (tfTypeOfConfig s).zeroValue = "" := rfl

theorem zeroValue_of_scalar_rows :
    (Generated.typeRows.filter (fun r => r.kind == "scalar" || r.kind == "enum")).all
      (fun r => match Generated.bases.find? (·.name == r.base) with
        | some b => b.zeroValue != ""
        | none => false) = true := by
  decide

-- ====================================================================================================
-- CopyTo into an empty typed object

/-- what CopyTo of a typed struct into an empty typed object returns (`C03_total`) -/
theorem copyTo_renders (m : Msg) (obj : GoVal) (atys : List (String × TfTy)) (h : ToOKs m.fields obj atys)
    (r : ToResult) (hr : copyTo m obj (.obj false false none (some atys)) = .ok r) :
    ∃ as, r.tf = .obj false false (some as) (some atys) ∧ r.diags = [] ∧ rendersFields m.fields obj as = true := by
  obtain ⟨r', as, hrun, hd, htf, hR⟩ := C03.C03_total m obj atys h
  rw [hrun] at hr
  injection hr with hr
  subst hr
  exact ⟨as, htf, hd, hR⟩

/-- **C07 (CopyTo), whole message, every depth.** For every message (any fields around the groups), every typed struct
(`ToOKs`): CopyTo into the empty typed object succeeds without diagnostics and returns attributes `as` such that at the
message itself and at every nested message level below it (`Below`) the oneof groups are exclusive
(`GroupsExclusive`: 1. holder nil ⇒ all branch attributes null; 2. active branch non-null with the payload's rendering,
all other branches null; 3. at most one non-null branch attribute per group; the executable predicate
`Spec.c07ToGroup`). -/
theorem C07_to_total (m : Msg) (obj : GoVal) (atys : List (String × TfTy)) (h : ToOKs m.fields obj atys) :
    ∃ r as, copyTo m obj (.obj false false none (some atys)) = .ok r ∧ r.diags = [] ∧
      r.tf = .obj false false (some as) (some atys) ∧
      ∀ fs' obj' as', Below m.fields obj as fs' obj' as' → GroupsExclusive fs' obj' as' := by
  obtain ⟨r, as, hrun, hd, htf, hR⟩ := C03.C03_total m obj atys h
  exact ⟨r, as, hrun, hd, htf, fun _ _ _ hb => groupsExclusive_below m.fields obj as hR hb⟩

/-- **1.** the holder of `g` is nil ⇒ after CopyTo every branch attribute of `g` is null -/
theorem C07_to_unset (m : Msg) (obj : GoVal) (atys : List (String × TfTy)) (h : ToOKs m.fields obj atys)
    (g : String) (hnil : obj.field? g = none ∨ obj.field? g = some (.iface none))
    (r : ToResult) (hr : copyTo m obj (.obj false false none (some atys)) = .ok r) :
    ∃ as, r.tf = .obj false false (some as) (some atys) ∧
      ∀ f ∈ m.fields, f.info.oneOfName = g → BranchIR f → ∃ a, as.lookup f.info.nameSnake = some a ∧ isNull a = true := by
  obtain ⟨as, htf, _, hR⟩ := copyTo_renders m obj atys h r hr
  exact ⟨as, htf, unset_all_null m.fields obj as hR g hnil⟩

/-- **2.** the holder holds the wrapper of branch `f0` with a non-zero payload ⇒ the attribute of `f0` is non-null and
carries the payload's rendering, and the attribute of every other branch of the group (different wrapper type) is null -/
theorem C07_to_active (m : Msg) (obj : GoVal) (atys : List (String × TfTy)) (h : ToOKs m.fields obj atys)
    (f0 : Field) (hf0 : f0 ∈ m.fields) (hb0 : BranchIR f0) (p : GoVal)
    (hh : obj.field? f0.info.oneOfName = some (.iface (some (lastSegment f0.info.oneOfType, f0.info.name, p))))
    (hact : payloadActive f0.info p = true)
    (r : ToResult) (hr : copyTo m obj (.obj false false none (some atys)) = .ok r) :
    ∃ as, r.tf = .obj false false (some as) (some atys) ∧
      (∃ a, as.lookup f0.info.nameSnake = some a ∧ isNull a = false ∧ Carries f0 p a) ∧
      ∀ f ∈ m.fields, f.info.oneOfName = f0.info.oneOfName → BranchIR f →
        lastSegment f.info.oneOfType ≠ lastSegment f0.info.oneOfType →
        ∃ a, as.lookup f.info.nameSnake = some a ∧ isNull a = true := by
  obtain ⟨as, htf, _, hR⟩ := copyTo_renders m obj atys h r hr
  exact ⟨as, htf, active_nonnull m.fields obj as hR f0 hf0 hb0 p hh hact,
    others_null m.fields obj as hR _ _ _ p hh⟩

/-- **3.** at most one branch attribute per group is non-null, and it is the active branch -/
theorem C07_to_at_most_one (m : Msg) (obj : GoVal) (atys : List (String × TfTy)) (h : ToOKs m.fields obj atys)
    (hsep : GroupSep m.fields)
    (r : ToResult) (hr : copyTo m obj (.obj false false none (some atys)) = .ok r) :
    ∃ as, r.tf = .obj false false (some as) (some atys) ∧
      (∀ f1 ∈ m.fields, ∀ f2 ∈ m.fields, BranchIR f1 → BranchIR f2 → f2.info.oneOfName = f1.info.oneOfName →
        ∀ a1 a2, as.lookup f1.info.nameSnake = some a1 → as.lookup f2.info.nameSnake = some a2 →
          isNull a1 = false → isNull a2 = false → f1 = f2) ∧
      (∀ f ∈ m.fields, BranchIR f → ∀ a, as.lookup f.info.nameSnake = some a → isNull a = false →
        obj.field? f.info.oneOfName =
            some (.iface (some (lastSegment f.info.oneOfType, f.info.name, getVal f.info obj))) ∧
          payloadActive f.info (getVal f.info obj) = true ∧ Carries f (getVal f.info obj) a) := by
  obtain ⟨as, htf, _, hR⟩ := copyTo_renders m obj atys h r hr
  exact ⟨as, htf, at_most_one m.fields obj as hR hsep, fun f hf hb a => nonnull_is_active m.fields obj as hR f hf hb a⟩

/-- the executable predicate `Spec.c07ToCheck` (all groups of the message) holds on the result of CopyTo -/
theorem C07_to_check (m : Msg) (obj : GoVal) (atys : List (String × TfTy)) (h : ToOKs m.fields obj atys)
    (hb : ∀ f ∈ m.fields, f.info.oneOfName ≠ "" → BranchIR f ∧ HolderWF f.info obj)
    (r : ToResult) (hr : copyTo m obj (.obj false false none (some atys)) = .ok r) :
    c07ToCheck m obj r.tf = true := by
  obtain ⟨as, htf, _, hR⟩ := copyTo_renders m obj atys h r hr
  rw [htf]
  exact c07ToCheck_of_renders m obj false false as (some atys) hR hb

/-- **4.** … and in the nested message of a message field (any depth: iterate, or use `C07_to_total` with `Below`) -/
theorem C07_to_nested_field (m : Msg) (obj : GoVal) (atys : List (String × TfTy)) (h : ToOKs m.fields obj atys)
    (r : ToResult) (hr : copyTo m obj (.obj false false none (some atys)) = .ok r) :
    ∃ as, r.tf = .obj false false (some as) (some atys) ∧
      (∀ f ∈ m.fields, f.info.kind = .object → ∀ u as' tys, as.lookup f.info.nameSnake = some (.obj u false as' tys) →
        GroupsExclusive f.sub (structOf (getVal f.info obj)) (as'.getD [])) ∧
      (∀ f ∈ m.fields, f.info.kind = .objectList → ∀ u n es ety, as.lookup f.info.nameSnake = some (.list u n es ety) →
        ∀ e u' as' tys, (e, TfVal.obj u' false as' tys) ∈ (sliceElems (getVal f.info obj)).zip (es.getD []) →
          GroupsExclusive f.sub (structOf e) (as'.getD [])) ∧
      (∀ f ∈ m.fields, f.info.kind = .objectMap → ∀ u n es ety, as.lookup f.info.nameSnake = some (.map u n es ety) →
        ∀ k e u' as' tys, (k, e) ∈ mapElems (getVal f.info obj) → (es.getD []).lookup k = some (.obj u' false as' tys) →
          GroupsExclusive f.sub (structOf e) (as'.getD [])) := by
  obtain ⟨as, htf, _, hR⟩ := copyTo_renders m obj atys h r hr
  refine ⟨as, htf, ?_, ?_, ?_⟩
  · intro f hf hk u as' tys hl
    exact groupsExclusive_field m.fields obj as hR f hf hk u as' tys hl
  · intro f hf hk u n es ety hl e u' as' tys hmem
    exact groupsExclusive_elem m.fields obj as hR f hf hk u n es ety hl e u' as' tys hmem
  · intro f hf hk u n es ety hl k e u' as' tys hmem hlk
    exact groupsExclusive_below m.fields obj as hR (.mapElem f u n es ety k e u' as' tys .root hf hk hl hmem hlk)

-- ====================================================================================================
-- non-vacuity: a message with a plain field and a group of a string branch and a message branch; the nested message
-- has a group of its own

def exStr : TfType :=
  { type := "github.com/hashicorp/terraform-plugin-framework/types.StringType",
    valueType := "github.com/hashicorp/terraform-plugin-framework/types.String",
    elemType := "github.com/hashicorp/terraform-plugin-framework/types.StringType",
    elemValueType := "github.com/hashicorp/terraform-plugin-framework/types.String",
    valueCastToType := "string", valueCastFromType := "string", zeroValue := "\"\"" }
def exObjTy : TfType :=
  { type := "github.com/hashicorp/terraform-plugin-framework/types.ObjectType",
    valueType := "github.com/hashicorp/terraform-plugin-framework/types.Object",
    elemType := "github.com/hashicorp/terraform-plugin-framework/types.ObjectType",
    elemValueType := "github.com/hashicorp/terraform-plugin-framework/types.Object", isMessage := true }

def exName : Field := { info := { name := "Name", nameSnake := "name", kind := .primitive, protoType := "string", tf := exStr } }
def exS : Field :=
  { info := { name := "S", nameSnake := "s", kind := .primitive, oneOfName := "Choice", oneOfType := "types.Ex_S",
              protoType := "string", tf := exStr } }
def exA : Field :=
  { info := { name := "A", nameSnake := "a", kind := .primitive, oneOfName := "Pick", oneOfType := "types.Inner_A",
              protoType := "string", tf := exStr } }
def exB : Field :=
  { info := { name := "B", nameSnake := "b", kind := .primitive, oneOfName := "Pick", oneOfType := "types.Inner_B",
              protoType := "string", tf := exStr } }
def exM : Field :=
  { info := { name := "M", nameSnake := "m", kind := .object, isNullable := true, oneOfName := "Choice",
              oneOfType := "types.Ex_M", tf := exObjTy },
    msg := some { name := "Inner", oneOfNames := ["Pick"] }, sub := [exA, exB] }
def exMsg : Msg := { info := { name := "Ex", oneOfNames := ["Choice"] }, fields := [exName, exS, exM] }
def exTys : List (String × TfTy) :=
  [("name", .prim .string), ("s", .prim .string), ("m", .obj (some [("a", .prim .string), ("b", .prim .string)]))]

/-- holder nil -/
def exObjNil : GoVal := .struct [("Name", .sc (.str [110])), ("Choice", .iface none)]
/-- the string branch active -/
def exObjS : GoVal := .struct [("Name", .sc (.str [110])), ("Choice", .iface (some ("Ex_S", "S", .sc (.str [120]))))]
/-- the string branch set to the empty string -/
def exObjS0 : GoVal := .struct [("Name", .sc (.str [110])), ("Choice", .iface (some ("Ex_S", "S", .sc (.str []))))]
/-- the message branch active; in the nested message branch `B` of group `Pick` is active -/
def exObjM : GoVal :=
  .struct [("Name", .sc (.str [110])),
           ("Choice", .iface (some ("Ex_M", "M", .ptr (some (.struct [("Pick", .iface (some ("Inner_B", "B", .sc (.str [121]))))])))))]

/-- (attribute name, is null) of an object value -/
def nullsOf : TfVal → List (String × Bool)
  | .obj _ _ as _ => (as.getD []).map fun x => (x.1, isNull x.2)
  | _ => []

/-- run CopyTo into the empty typed object; report the null flags at the top level and inside attribute `m`, and the
verdicts of `rendersFields` and `Spec.c07ToCheck` -/
def exRun (obj : GoVal) : Option (List (String × Bool) × List (String × Bool) × Bool × Bool) :=
  match copyTo exMsg obj (.obj false false none (some exTys)) with
  | .ok r =>
    match r.tf with
    | .obj _ _ (some as) _ =>
      some (nullsOf r.tf, ((as.lookup "m").map nullsOf).getD [], rendersFields exMsg.fields obj as, c07ToCheck exMsg obj r.tf)
    | _ => none
  | _ => none

theorem ex_branchIR : BranchIR exS ∧ BranchIR exM ∧ BranchIR exA ∧ BranchIR exB ∧ ¬ BranchIR exName := by decide

theorem ex_unset_runs :
    exRun exObjNil = some ([("name", false), ("s", true), ("m", true)], [], true, true) := by decide

theorem ex_S_runs :
    exRun exObjS = some ([("name", false), ("s", false), ("m", true)], [], true, true) := by decide

theorem ex_S0_runs :
    exRun exObjS0 = some ([("name", false), ("s", true), ("m", true)], [], true, true) := by decide

theorem ex_M_runs :
    exRun exObjM = some ([("name", false), ("s", true), ("m", false)], [("a", true), ("b", false)], true, true) := by decide

/-- the hypotheses of the theorems are satisfiable with an active message branch and a nested group: the example is typed -/
theorem ex_M_ToOKs : ToOKs exMsg.fields exObjM exTys := by
  have hprim : ∀ (f : Field) (o : GoVal) (s : List UInt8), f.info.kind = .primitive → f.info.tf = exStr →
      f.info.parentIsOptionalEmbed = false → f.info.isNullable = false → f.info.protoType = "string" →
      getVal f.info o = .sc (.str s) → ToOK f o (.prim .string) := by
    intro f o s hk htf he hn hpt hg
    obtain ⟨info, mv, msg, sub⟩ := f
    simp only at hk htf he hn hpt hg
    unfold ToOK
    simp only [hk]
    have hvk : vkindOf info.tf.elemValueType = .prim .string := by rw [htf]; decide
    have hreach : Reachable info o := fun h => by rw [he] at h; cases h
    refine ⟨⟨.string, hvk, rfl⟩, Or.inr (Or.inr ⟨hreach, ?_⟩)⟩
    unfold PrimTyped
    simp only [hn, Bool.false_eq_true, if_false]
    refine ⟨.str s, .str s, hg, ?_, fun _ => ⟨s.isEmpty, ?_, rfl⟩⟩
    · simp [FieldInfo.castTo, FieldInfo.rep, htf, exStr, repOfGoType, conv]
    · simp [htf, exStr, eqLiteral]
  have hnil : ToOKs [] = fun _ _ => True := by funext o a; unfold ToOKs; rfl
  unfold exMsg
  simp only
  unfold ToOKs
  refine ⟨⟨.prim .string, rfl, hprim exName exObjM [110] rfl rfl rfl rfl rfl rfl⟩, (by decide), ?_⟩
  unfold ToOKs
  refine ⟨⟨.prim .string, rfl, hprim exS exObjM [] rfl rfl rfl rfl rfl rfl⟩, (by decide), ?_⟩
  unfold ToOKs
  refine ⟨⟨.obj (some [("a", .prim .string), ("b", .prim .string)]), rfl, ?_⟩, (by decide), (by rw [hnil]; trivial)⟩
  unfold exM ToOK
  simp only
  have hreach : Reachable exM.info exObjM := fun h => absurd h (by decide)
  refine ⟨hreach, _, rfl, (by simp), (fun h => by cases h), ?_⟩
  unfold MsgTyped
  simp only [if_true]
  refine Or.inr ⟨[("Pick", .iface (some ("Inner_B", "B", .sc (.str [121]))))], rfl, ?_⟩
  unfold ToOKs
  refine ⟨⟨.prim .string, rfl, hprim exA _ [] rfl rfl rfl rfl rfl rfl⟩, (by decide), ?_⟩
  unfold ToOKs
  exact ⟨⟨.prim .string, rfl, hprim exB _ [121] rfl rfl rfl rfl rfl rfl⟩, (by decide), (by rw [hnil]; trivial)⟩

/-- … so the theorems apply to it: the message branch is non-null and carries the nested object, the string branch is null,
and in the nested message (one level below) group `Pick` is exclusive too -/
theorem ex_M_applies :
    ∃ r as, copyTo exMsg exObjM (.obj false false none (some exTys)) = .ok r ∧
      r.tf = .obj false false (some as) (some exTys) ∧
      (∃ a, as.lookup "m" = some a ∧ isNull a = false ∧
        Carries exM (.ptr (some (.struct [("Pick", .iface (some ("Inner_B", "B", .sc (.str [121]))))]))) a) ∧
      (∃ a, as.lookup "s" = some a ∧ isNull a = true) ∧
      (∀ u as' tys, as.lookup "m" = some (.obj u false as' tys) →
        (∃ a, (as'.getD []).lookup "b" = some a ∧ isNull a = false) ∧ (∃ a, (as'.getD []).lookup "a" = some a ∧ isNull a = true)) := by
  obtain ⟨r, as, hrun, _, htf, hall⟩ := C07_to_total exMsg exObjM exTys ex_M_ToOKs
  have top := hall _ _ _ .root
  refine ⟨r, as, hrun, htf, ?_, ?_, ?_⟩
  · exact top.active exM (by simp [exMsg]) (by decide) _ rfl rfl
  · exact top.others "Choice" "Ex_M" "M" _ rfl exS (by simp [exMsg]) rfl (by decide) (by decide)
  · intro u as' tys hl
    have inner := hall _ _ _ (.field exM u as' tys .root (by simp [exMsg]) rfl hl)
    constructor
    · obtain ⟨a, h1, h2, _⟩ := inner.active exB (by simp [exM]) (by decide) (.sc (.str [121])) rfl rfl
      exact ⟨a, h1, h2⟩
    · exact inner.others "Pick" "Inner_B" "B" _ rfl exA (by simp [exM]) rfl (by decide) (by decide)

-- ----------------------------------------------------------------------------------------------------
-- the counterexample on a row of the type table: a duration held by value (`int64` with casttype `time.Duration`;
-- row `duration`: the Terraform type comes from the configuration and has no zero literal)

def cxDur : TfType :=
  { type := "github.com/gravitational/protoc-gen-terraform/test.DurationType",
    valueType := "github.com/gravitational/protoc-gen-terraform/test.DurationValue",
    elemType := "github.com/gravitational/protoc-gen-terraform/test.DurationType",
    elemValueType := "github.com/gravitational/protoc-gen-terraform/test.DurationValue",
    valueCastToType := "time.Duration", valueCastFromType := "time.Duration" }
def cxD : Field :=
  { info := { name := "D", nameSnake := "d", kind := .primitive, oneOfName := "Choice", oneOfType := "types.Cx_D",
              protoType := "int64", tf := cxDur } }
def cxS : Field :=
  { info := { name := "S", nameSnake := "s", kind := .primitive, oneOfName := "Choice", oneOfType := "types.Cx_S",
              protoType := "string", tf := exStr } }
def cxMsg : Msg := { info := { name := "Cx", oneOfNames := ["Choice"] }, fields := [cxD, cxS] }
def cxTys : List (String × TfTy) := [("d", .prim .duration), ("s", .prim .string)]

def cxRun (obj : GoVal) : Option (List (String × Bool) × Bool × Bool) :=
  match copyTo cxMsg obj (.obj false false none (some cxTys)) with
  | .ok r =>
    match r.tf with
    | .obj _ _ (some as) _ => some (nullsOf r.tf, rendersFields cxMsg.fields obj as, c07ToCheck cxMsg obj r.tf)
    | _ => none
  | _ => none

theorem cx_not_branchIR : ¬ BranchIR cxD ∧ BranchIR cxS ∧ cxDur = tfTypeOfConfig
    { type := "github.com/gravitational/protoc-gen-terraform/test.DurationType",
      valueType := "github.com/gravitational/protoc-gen-terraform/test.DurationValue",
      castToType := "time.Duration", castFromType := "time.Duration" } := by decide

/-- the group is unset, yet the duration attribute is non-null (a zero duration): `c07ToCheck` is false, although the
object renders the struct (C03 / C20 hold) -/
theorem counter_unset_nonnull :
    cxRun (.struct [("Choice", .iface none)]) = some ([("d", false), ("s", true)], true, false) := by decide

/-- the string branch is active: two non-null attributes in one group -/
theorem counter_two_nonnull :
    cxRun (.struct [("Choice", .iface (some ("Cx_S", "S", .sc (.str [120]))))]) =
      some ([("d", false), ("s", false)], true, false) := by decide

/-- (name, null flag, payload) of the scalar attributes of the result -/
def cxImage (obj : GoVal) : Option (List (String × Bool × Option Sc)) :=
  match copyTo cxMsg obj (.obj false false none (some cxTys)) with
  | .ok r =>
    match r.tf with
    | .obj _ _ (some as) _ => some (as.map fun x => (x.1, isNull x.2, match x.2 with | .prim _ _ _ p => some p | _ => none))
    | _ => none
  | _ => none

/-- the duration branch set to zero and the unset group have the same image -/
theorem counter_zero_indistinguishable :
    cxImage (.struct [("Choice", .iface none)]) = some [("d", false, some (.w64 0)), ("s", true, some (.str []))] ∧
    cxImage (.struct [("Choice", .iface (some ("Cx_D", "D", .sc (.w64 0))))]) =
      some [("d", false, some (.w64 0)), ("s", true, some (.str []))] := by decide

end PGT.ToOneof
