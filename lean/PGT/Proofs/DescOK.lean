import PGT.Proofs.BuiltRT
import PGT.Proofs.BuiltFrom
import PGT.Proofs.BuiltWF
import Batteries.Data.List.Perm
/-
P63 - descriptor-level conditions: decidable Booleans on the REQUEST and the CONFIGURATION that imply the IR-level Booleans
`namesOKsB` (BuiltWF), `rtBs` = `branchOKsB ∧ ptrOKsB ∧ sepOKsB` (BuiltRT) and `hygieneB` (BuiltFrom) of built IRs, so that the headline
theorems C03 / C04 / C05 quantify over descriptors and configurations, not over built IRs.

1. THE LINK. `mkNode_key`, `mkNode_link`, `core_tf`: the node of a declared field carries `goName` of the proto name, the naming
   rule `snakeD` (json tag, else snake case; `snakeOf_noOverride`), `goName` of the oneof declaration, the wrapper type
   `Msg_Field`; nullability is "the Go type string contains a star", the record is the one `GetTerraformType` returns
   (`getTerraformType_path`: the path only enters error values, so `tfD` / `goTyD` evaluate it on the descriptor).
   `flatPre ws V req n d` - the name parts (`keyOf`) of the fields of the built message, computed on the descriptor with the fuel
   discipline of `buildMessage`: embedded messages flattened (`isEmbD`), children of messages embedded by pointer marked with the
   short type name (`markK`), a message without fields contributes the placeholder `active`.
   MAIN `flat_all` (induction over the fuel): `(m.fields.map keyOf).Subperm (flatPre … desc)` for every built message - equal up to
   order (sorting) and omission (exclusion). `ws = true` includes the attribute name and then needs `NoNameOverride`.
2. PAIRWISE CONDITIONS. `pairOKsB r` (per level, every depth), `levelsOKb ws r V req N root` (Boolean: `r` pairwise on `flatPre` of the
   root and of every message of the request, every fuel ≤ N); MAIN `pairs_all` / `built_pairOK` for every symmetric `r` that looks at
   the name part only. Instances: `rSnake` → `built_namesOKsB` (`snakeDescOKb`), `rSep` → `built_sepOKsB` (`sepDescOKb`).
3. `hygDescB` → `built_hygieneB` (holders incl. those promoted from messages embedded by value: `mem_promoted`,
   `built_oneOfNames_mem`; parents `parsD`; children of one embedded message: `rChild`).
4. `branchDescOKb` → `built_branchOKsB` (`branch_all`), `ptrDescOKb` → `built_ptrOKsB` (`ptr_all`): per declared field, evaluated on
   descriptor and configuration through `tfD` / `goTyD` (and the value field of a map). No hypothesis on the configuration.
4b. WITH `name_overrides`: `preInfoP` / `flatPreP` (the path of the occurrence threaded through; an embedded message keeps its
   parent's path), `flat_allP` (no hypothesis on the configuration), `occOK` (Boolean: the walk over the occurrences from the
   root), `pairs_allP`, `snakePathDescOKb` → `built_namesOKsB_path`.
5. `attrNamesDescOKb` (no overrides) / `attrNamesPathDescOKb` (every configuration), `goNamesDescOKb`, `namesDescOKb`,
   `branchPtrDescOKb` (on `Config`, fuel `defaultFuel req`); `root_booleans`, `root_rtBs`, `root_namesOKsB_path`;
   HEADLINES `C03_desc_root`, `C04_desc_root_typed`, `C04_desc_roots_typed`, `C05_desc_root_prior_independent`,
   `C03_desc_root_overrides`, `C04_desc_root_typed_overrides` (+ `…_gap` variants that keep `gapFreeBs` on the IR and so allow
   exclusions / configured custom types).
6. `Sanity`: all Booleans hold on BuiltWF's 15-attribute request (`decide +kernel`), the headlines instantiated on it.
   `Witness`: b1 – b6 of BuiltRT and w1 – w6 of BuiltFrom are rejected; `attrNames_full_false`: with `name_overrides` the statement
   fails for `attrNamesDescOKb` (the attribute name then depends on the PATH of the occurrence); `wN_path`, `wN2`: the path-aware
   Boolean rejects that witness and accepts a clash an override repairs.

Class covered: every request and configuration (embedded messages, exclusions, sorting, custom types, cast types, import
overrides, name overrides) for all five IR Booleans; `gapFreeBs` (BuiltWF) additionally needs no exclusions and no configured
custom types.
The Booleans are sufficient, not necessary: `flatPre` lists excluded fields too, `levelsOKb` asks every fuel ≤ N and every message
of the request (reachable or not), `occOK` walks into every field whose type name resolves, `hygDescB` does not use "`f` is a
branch" to excuse a field named like a parent pointer.
4a. READABLE: `branchReadableB` (a single-valued oneof member is a plain scalar - one of the 15 scalar types, no cast / custom type,
   no stdtime / stdduration - or a plain message that is not `nullable = false`) ⇒ `branchFieldOKb`, for EVERY configuration
   (`branchFieldOKb_of_readable`; `prepend_star`, `goTyD_plainScalar`, `goTyD_plainMessage`, `tfD_plainScalar`, `tfD_plainMessage`);
   `branchReadableDescOKb req root` (on the request alone) → `built_branchOKsB_readable`; `ptrFieldOKb_of_plain`.
OPEN: a readable condition for `ptrFieldOKb` beyond plain single-valued scalars / messages (lists, maps, Timestamp / Duration
fields under the configured types, cast types without a star) - `ptrDescOKb` EVALUATES `GetTerraformType` and the Go type string
on descriptor and configuration instead; necessity of the Booleans is not addressed.
-/

namespace PGT.Proofs.DescOK
open PGT PGT.Spec PGT.SchemaTyped PGT.Proofs.BuiltWF PGT.Proofs.BuiltRT PGT.Proofs.BuiltFrom PGT.Proofs.BuildErrors
  PGT.Proofs.PathUnique PGT.Proofs.ExclusionPrune PGT.OrderIndep PGT.PriorIndep

-- ======================================================================================================
-- 0. list lemmas
-- ======================================================================================================

theorem subperm_map {α β} (g : α → β) {a b : List α} (h : a.Subperm b) : (a.map g).Subperm (b.map g) := by
  obtain ⟨c, hp, hs⟩ := h
  exact ⟨c.map g, hp.map g, hs.map g⟩

theorem subperm_append {α} {a1 a2 b1 b2 : List α} (h1 : a1.Subperm b1) (h2 : a2.Subperm b2) :
    (a1 ++ a2).Subperm (b1 ++ b2) := by
  obtain ⟨c1, hp1, hs1⟩ := h1
  obtain ⟨c2, hp2, hs2⟩ := h2
  exact ⟨c1 ++ c2, hp1.append hp2, hs1.append hs2⟩

theorem subperm_pairwise {α} {R : α → α → Prop} (S : ∀ {x y}, R x y → R y x) {a b : List α} (h : a.Subperm b)
    (hb : b.Pairwise R) : a.Pairwise R := by
  obtain ⟨c, hp, hs⟩ := h
  exact (hp.pairwise_iff S).mp (hb.sublist hs)

theorem collect_subperm {ε α β κ} (g : β → Except ε (List α)) (k : α → κ) (B : β → List κ) :
    ∀ (l : List β) (fs : List α), collectFields (l.map g) = .ok fs →
      (∀ b ∈ l, ∀ r, g b = .ok r → (r.map k).Subperm (B b)) → (fs.map k).Subperm (l.flatMap B)
  | [], fs, h, _ => by
    simp only [List.map_nil, collectFields] at h
    injection h with h; subst h
    exact List.nil_subperm
  | a :: l, fs, h, hb => by
    simp only [List.map_cons] at h
    cases ha : g a with
    | error e => simp [ha, collectFields] at h
    | ok ra =>
      rw [ha] at h
      simp only [collectFields] at h
      cases hrest : collectFields (l.map g) with
      | error e => simp [hrest] at h
      | ok more =>
        rw [hrest] at h
        injection h with h
        subst h
        rw [List.map_append, List.flatMap_cons]
        exact subperm_append (hb a List.mem_cons_self ra ha)
          (collect_subperm g k B l more hrest (fun b hbm r hr => hb b (List.mem_cons_of_mem _ hbm) r hr))

theorem sort_perm (l : List Field) : (sortFieldsByName l).Perm l := by
  unfold sortFieldsByName
  induction l with
  | nil => exact List.Perm.nil
  | cons a l ih =>
    simp only [List.foldr]
    have hins : ∀ (s : List Field), (insertByName a s).Perm (a :: s) := by
      intro s
      induction s with
      | nil => exact List.Perm.refl _
      | cons b s ihs =>
        simp only [insertByName]
        split
        · exact List.Perm.refl _
        · exact ((List.Perm.cons b ihs).trans (List.Perm.swap a b s))
    exact (hins _).trans (List.Perm.cons a ih)

-- ======================================================================================================
-- 1. the node-to-descriptor link
-- ======================================================================================================

/-- the Go type string of a declared field depends on the message descriptor only (not on the path) -/
def goTyD (V : CfgView) (d : MsgD) (f : FieldD) : String := goTypeOf V ⟨d, ""⟩ f

theorem goTypeOf_eq (V : CfgView) (ctx : MsgCtx) (f : FieldD) : goTypeOf V ctx f = goTyD V ctx.desc f := rfl

/-- `GetTerraformType` of a declared field, evaluated on the descriptor (the path only enters error values) -/
def tfD (V : CfgView) (d : MsgD) (f : FieldD) : Except BuildError TfType :=
  getTerraformType V f (f.card == .map) (f.card == .repeated) (goTyD V d f) ""

theorem getTerraformType_path (cfg : CfgView) (f : FieldD) (isMap isRep : Bool) (goType p p' : String) (t : TfType)
    (h : getTerraformType cfg f isMap isRep goType p = .ok t) : getTerraformType cfg f isMap isRep goType p' = .ok t := by
  unfold getTerraformType at h ⊢
  simp only at h ⊢
  cases hfind : Generated.typeRows.find? (rowMatches cfg f isMap) with
  | none => simp [hfind] at h
  | some r =>
    simp only [hfind] at h ⊢
    by_cases h1 : (r.kind == "time") = true
    · simp only [h1, if_true] at h ⊢
      cases ht : cfg.timeType with
      | none => simp [ht] at h
      | some s => simp only [ht] at h ⊢; exact h
    · simp only [h1, Bool.false_eq_true, if_false] at h ⊢
      by_cases h2 : (r.kind == "duration") = true
      · simp only [h2, if_true] at h ⊢
        cases ht : cfg.durationType with
        | none => simp [ht] at h
        | some s => simp only [ht] at h ⊢; exact h
      · simp only [h2, Bool.false_eq_true, if_false] at h ⊢
        by_cases h3 : (r.kind == "default") = true
        · simp [h3] at h
        · simp only [h3, Bool.false_eq_true, if_false] at h ⊢
          cases hb : Generated.bases.find? (fun b => b.name == r.base) with
          | none => simp [hb] at h
          | some b => simp only [hb] at h ⊢; exact h

/-- the documented naming rule (C02_names) without `name_overrides`: the json tag, else the snake-cased proto name -/
def snakeD (f : FieldD) : String :=
  let j := jsonName (f.jsonTag.map String.toList)
  if j != [] then String.ofList j else String.ofList (snakeCase f.name.toList)

def NoNameOverride (V : CfgView) : Prop := ∀ k, V.nameOverride k = none

theorem snakeOf_noOverride {V : CfgView} (h : NoNameOverride V) (f : FieldD) (keys : Keys) : snakeOf V f keys = snakeD f := by
  unfold snakeOf snakeD
  rw [h keys]

/-- what the name conditions look at: Go name, attribute name, oneof holder and wrapper type, parent pointer -/
def keyOf (ws : Bool) (i : FieldInfo) : FieldInfo :=
  { name := i.name, nameSnake := (if ws then i.nameSnake else ""), oneOfName := i.oneOfName, oneOfType := i.oneOfType,
    parentIsOptionalEmbed := i.parentIsOptionalEmbed,
    parentIsOptionalEmbedFieldName := i.parentIsOptionalEmbedFieldName }

/-- **the name part of the node of a declared field, computed on the descriptor**: `info.name` is `goName` of the proto name,
`info.nameSnake` the naming rule, `info.oneOfName` the `goName` of the oneof declaration, `info.oneOfType` the wrapper type -/
def preInfo (ws : Bool) (V : CfgView) (d : MsgD) (f : FieldD) : FieldInfo :=
  { name := goNameS f.name, nameSnake := (if ws then snakeD f else ""),
    oneOfName := (match f.oneof with | none => "" | some i => goNameS (d.oneofs.getD i "")),
    oneOfType := (match f.oneof with | none => "" | some _ => msgGoType V (d.name ++ "_" ++ goNameS f.name)) }

/-- **the link, name part**: the node `BuildField` emits for a declared field carries the names computed on the descriptor -/
theorem mkNode_key (V : CfgView) (ctx : MsgCtx) (f : FieldD) (keys : Keys) (goType : String) (isMap isRep hc : Bool)
    (tf : TfType) (mapV : Option Field) (nested : Option Msg) (ws : Bool) (hs : ws = true → snakeOf V f keys = snakeD f) :
    keyOf ws (mkNode V ctx f keys goType isMap isRep hc tf mapV nested).info = preInfo ws V ctx.desc f := by
  cases ws with
  | false =>
    cases isRep <;> cases mapV <;>
      (simp only [mkNode, keyOf, preInfo, Bool.false_eq_true, if_false]; cases f.oneof <;> rfl)
  | true =>
    have hs' := hs rfl
    cases isRep <;> cases mapV <;> (simp only [mkNode, keyOf, preInfo, hs', if_true]; cases f.oneof <;> rfl)

/-- **the link, type part** (non-map fields): nullability is "the Go type string contains a star", the record is the one
`GetTerraformType` returns, the kind is `getKind` of the flags -/
theorem mkNode_link (V : CfgView) (ctx : MsgCtx) (f : FieldD) (keys : Keys) (goType : String) (isMap isRep hc : Bool)
    (tf : TfType) (nested : Option Msg) :
    let x := mkNode V ctx f keys goType isMap isRep hc tf none nested
    x.info.name = goNameS f.name ∧ x.info.nameSnake = snakeOf V f keys ∧
    x.info.oneOfName = (match f.oneof with | none => "" | some i => goNameS (ctx.desc.oneofs.getD i "")) ∧
    x.info.isNullable = goType.toList.contains '*' ∧ x.info.tf = tf ∧ x.info.protoType = f.type ∧
    x.info.kind = kindOf (isCustomOf V f keys) isMap false isRep tf.isMessage ∧
    x.info.parentIsOptionalEmbed = false ∧ x.info.path = keys.path := by
  refine ⟨?_, ?_, mkNode_oneOfName .., ?_, mkNode_tf_none .., ?_, mkNode_kind .., mkNode_parent .., mkNode_path ..⟩ <;>
    (cases isRep <;> rfl)


-- ======================================================================================================
-- 2. the flattened name list of a message, computed on the descriptor
-- ======================================================================================================

/-- a field whose block is the spliced field list of the nested message: `gogoproto.embed`, not a map, message-typed -/
def isEmbD (V : CfgView) (d : MsgD) (f : FieldD) : Bool :=
  f.embed && !(f.card == .map) && (match tfD V d f with | .ok tf => tf.isMessage | .error _ => false)

/-- the name part of `markEmbedded` (children of a message embedded by pointer), as a function of the Go type string -/
def markK (goType : String) (k : FieldInfo) : FieldInfo :=
  if !(goType.toList.contains '*') then k
  else
    let full := String.ofList (dropStar goType.toList)
    let short := match lastIndexOfChar '.' full.toList with
      | some i => String.ofList (full.toList.drop (i + 1))
      | none => full
    { k with parentIsOptionalEmbed := true, parentIsOptionalEmbedFieldName := short }

mutual
/-- **the names of the fields of the built message, embedded messages flattened** (same fuel discipline as `buildMessage`;
a superset up to order: excluded fields are listed too) -/
def flatPre (ws : Bool) (V : CfgView) (req : Request) : Nat → MsgD → List FieldInfo
  | 0, _ => []
  | n + 1, d => if d.fields.isEmpty then [keyOf ws (placeholderField "").info] else d.fields.flatMap (blockPre ws V req n d)
def blockPre (ws : Bool) (V : CfgView) (req : Request) : Nat → MsgD → FieldD → List FieldInfo
  | 0, _, _ => []
  | n + 1, d, f =>
    if isEmbD V d f then
      match req.findMessage f.typeName with
      | some e => (flatPre ws V req n e).map (markK (goTyD V d f))
      | none => []
    else [preInfo ws V d f]
end

theorem spliced_keys (ws : Bool) (goType : String) (m : Msg) :
    (spliced goType m).map (fun x => keyOf ws x.info) = (m.fields.map (fun x => keyOf ws x.info)).map (markK goType) := by
  unfold spliced
  rw [List.map_map]
  cases h : goType.toList.contains '*' with
  | false =>
    simp only [Bool.not_false, if_true]
    apply List.map_congr_left
    intro x _
    simp only [Function.comp, markK, h, Bool.not_false, if_true]
  | true =>
    simp only [Bool.not_true, Bool.false_eq_true, if_false, List.map_map]
    apply List.map_congr_left
    intro x _
    simp only [Function.comp, markK, h, Bool.not_true, Bool.false_eq_true, if_false]
    rfl

/-- **THE LINK, by induction over the fuel**: the names of the fields of a built message are, up to order and omission
(sorting, exclusion), those computed on the descriptor -/
theorem flat_all (ws : Bool) (V : CfgView) (req : Request) (hno : ws = true → NoNameOverride V) : ∀ n : Nat,
    (∀ desc isRoot path m, buildMessage n V req desc isRoot path = .ok m →
        (m.fields.map (fun x => keyOf ws x.info)).Subperm (flatPre ws V req n desc)) ∧
    (∀ ctx f r, fieldCall n V req ctx f = .ok r →
        (r.map (fun x => keyOf ws x.info)).Subperm (blockPre ws V req n ctx.desc f)) := by
  intro n
  induction n with
  | zero =>
    constructor
    · intro desc isRoot path m h; rw [buildMessage_zero] at h; cases h
    · intro ctx f r h; unfold fieldCall at h; rw [buildFieldCore_zero] at h; cases h
  | succ n ih =>
    obtain ⟨ihM, ihF⟩ := ih
    constructor
    · intro desc isRoot path m h
      rw [buildMessage_succ] at h
      unfold msgStep at h
      cases hemp : desc.fields.isEmpty with
      | true =>
        simp only [hemp, if_true] at h
        injection h with h
        subst h
        rw [flatPre]
        simp only [hemp, if_true]
        exact List.Subperm.refl _
      | false =>
        simp only [hemp, Bool.false_eq_true, if_false] at h
        cases hcol : collectFields (desc.fields.map fun f => fieldCall n V req (ctxOf desc isRoot path) f) with
        | error e => rw [hcol] at h; simp at h
        | ok fs =>
          rw [hcol] at h
          simp only at h
          injection h with h
          subst h
          rw [flatPre]
          simp only [hemp, Bool.false_eq_true, if_false]
          have hfs := collect_subperm (fun f => fieldCall n V req (ctxOf desc isRoot path) f) (fun x => keyOf ws x.info)
            (blockPre ws V req n desc) desc.fields fs hcol (fun b _ r hr => ihF (ctxOf desc isRoot path) b r hr)
          split
          · exact (((sort_perm fs).map _).subperm).trans hfs
          · exact hfs
    · intro ctx f r h
      unfold fieldCall at h
      rw [buildFieldCore_succ] at h
      generalize hmapc : (f.card == .map) = isMap at h
      generalize hrepc : (f.card == .repeated) = isRep at h
      rw [goTypeOf_eq] at h
      have hkey : ∀ tf mapV nested, keyOf ws (mkNode V ctx f (keysOf ctx f) (goTyD V ctx.desc f) isMap isRep f.comment.isSome tf mapV nested).info
          = preInfo ws V ctx.desc f := fun tf mapV nested => mkNode_key _ _ _ _ _ _ _ _ _ _ _ ws (fun hw => snakeOf_noOverride (hno hw) _ _)
      rcases coreStep_ok_inv V req ctx f (keysOf ctx f) _ isMap isRep _ _ _ r h with
        ⟨_, rfl⟩ | ⟨_, tf, htf, hcase⟩
      · exact List.nil_subperm
      · have htfD : tfD V ctx.desc f = .ok tf := by
          unfold tfD
          rw [hmapc, hrepc]
          exact getTerraformType_path _ _ _ _ _ _ _ _ htf
        clear h
        rcases hcase with ⟨hm0, hm, d, m, hfind, hb, hr⟩ | ⟨hm0, hm, hr⟩ | ⟨hm0, hk, v, vs, hv, hr⟩
        · subst hm0
          rcases hr with ⟨hemb, hr⟩ | ⟨hemb, hr⟩ <;> rw [hr]
          · have he : isEmbD V ctx.desc f = true := by
              unfold isEmbD
              rw [htfD, hemb, hmapc]; simp [hm]
            rw [blockPre]
            simp only [he, if_true, hfind]
            rw [spliced_keys]
            exact subperm_map _ (ihM d false _ m hb)
          · have he : isEmbD V ctx.desc f = false := by
              unfold isEmbD
              rw [hemb]; rfl
            rw [blockPre]
            simp only [he, Bool.false_eq_true, if_false, List.map_cons, List.map_nil, hkey]
            exact List.Subperm.refl _
        · subst hm0
          have he : isEmbD V ctx.desc f = false := by
            unfold isEmbD
            rw [htfD]; simp only [hm, Bool.and_false]
          rw [hr, blockPre]
          simp only [he, Bool.false_eq_true, if_false, List.map_cons, List.map_nil, hkey]
          exact List.Subperm.refl _
        · subst hm0
          have he : isEmbD V ctx.desc f = false := by
            unfold isEmbD
            rw [hmapc]; simp only [Bool.not_true, Bool.and_false, Bool.false_and]
          rw [hr, blockPre]
          simp only [he, Bool.false_eq_true, if_false, List.map_cons, List.map_nil, hkey]
          exact List.Subperm.refl _


theorem built_flat (ws : Bool) (V : CfgView) (req : Request) (hno : ws = true → NoNameOverride V) (n : Nat) (desc : MsgD) (isRoot : Bool)
    (path : String) (m : Msg) (h : buildMessage n V req desc isRoot path = .ok m) :
    (m.fields.map (fun x => keyOf ws x.info)).Subperm (flatPre ws V req n desc) :=
  (flat_all ws V req hno n).1 desc isRoot path m h

-- ======================================================================================================
-- 3. pairwise conditions per level, at every depth
-- ======================================================================================================

mutual
/-- `r` holds between every two fields of one level, at every depth (through `sub`, whatever the kind) -/
def pairOKB (r : FieldInfo → FieldInfo → Bool) : Field → Bool
  | ⟨_, _, _, sub⟩ => pairOKsB r sub
def pairOKsB (r : FieldInfo → FieldInfo → Bool) : List Field → Bool
  | [] => true
  | f :: rest => rest.all (fun g => r f.info g.info) && pairOKB r f && pairOKsB r rest
end

theorem pairOKB_sub (r : FieldInfo → FieldInfo → Bool) (x : Field) : pairOKB r x = pairOKsB r x.sub := by
  obtain ⟨info, mv, msg, sub⟩ := x
  rw [pairOKB]

theorem pairOKsB_mem (r : FieldInfo → FieldInfo → Bool) : ∀ fs : List Field, pairOKsB r fs = true → ∀ x ∈ fs, pairOKB r x = true
  | [], _, x, hx => by cases hx
  | f :: rest, h, x, hx => by
    rw [pairOKsB] at h
    simp only [Bool.and_eq_true] at h
    rcases List.mem_cons.mp hx with rfl | hx
    · exact h.1.2
    · exact pairOKsB_mem r rest h.2 x hx

theorem pairOKsB_of (r : FieldInfo → FieldInfo → Bool) : ∀ fs : List Field,
    fs.Pairwise (fun a b => r a.info b.info = true) → (∀ x ∈ fs, pairOKB r x = true) → pairOKsB r fs = true
  | [], _, _ => by rw [pairOKsB]
  | f :: rest, hp, hx => by
    rw [pairOKsB]
    simp only [Bool.and_eq_true, List.all_eq_true]
    rw [List.pairwise_cons] at hp
    exact ⟨⟨hp.1, hx f List.mem_cons_self⟩,
      pairOKsB_of r rest hp.2 (fun x hxm => hx x (List.mem_cons_of_mem _ hxm))⟩

/-- Boolean `Pairwise` -/
def pwB (r : FieldInfo → FieldInfo → Bool) : List FieldInfo → Bool
  | [] => true
  | a :: l => l.all (r a) && pwB r l

theorem pwB_iff (r : FieldInfo → FieldInfo → Bool) : ∀ l, pwB r l = true ↔ l.Pairwise (fun a b => r a b = true)
  | [] => by simp [pwB]
  | a :: l => by
    rw [pwB, List.pairwise_cons, Bool.and_eq_true, pwB_iff r l, List.all_eq_true]

/-- **the descriptor condition for a pairwise relation `r`**: `r` holds between every two names of the flattened list of the
root and of every message of the request, for every fuel up to `N` (decidable on request and configuration) -/
def levelsOKb (ws : Bool) (r : FieldInfo → FieldInfo → Bool) (V : CfgView) (req : Request) (N : Nat) (root : MsgD) : Bool :=
  (root :: reqMsgs req).all fun d => (List.range (N + 1)).all fun n => pwB r (flatPre ws V req n d)

theorem levelsOKb_spec {ws : Bool} {r : FieldInfo → FieldInfo → Bool} {V : CfgView} {req : Request} {N : Nat} {root : MsgD}
    (h : levelsOKb ws r V req N root = true) :
    ∀ d, (d = root ∨ d ∈ reqMsgs req) → ∀ n ≤ N, (flatPre ws V req n d).Pairwise (fun a b => r a b = true) := by
  intro d hd n hn
  unfold levelsOKb at h
  rw [List.all_eq_true] at h
  have h1 := h d (by rcases hd with rfl | hd; exact List.mem_cons_self; exact List.mem_cons_of_mem _ hd)
  rw [List.all_eq_true] at h1
  exact (pwB_iff r _).mp (h1 n (List.mem_range.mpr (by omega)))

theorem pairOKB_mark (r : FieldInfo → FieldInfo → Bool) (a b : String) (x : Field) :
    pairOKB r (markEmbedded a b x) = pairOKB r x := by
  obtain ⟨info, mv, msg, sub⟩ := x
  rw [pairOKB_sub, pairOKB_sub]
  rfl

/-- **MAIN (pairwise conditions)**: for a symmetric relation `r` on the name part, if `r` holds pairwise on the flattened
descriptor lists, then it holds between every two fields of every level of the built IR, at every depth -/
theorem pairs_all (r : FieldInfo → FieldInfo → Bool) (hsym : ∀ a b, r a b = r b a)
    (ws : Bool) (hkey : ∀ a b, r a b = r (keyOf ws a) (keyOf ws b))
    (V : CfgView) (req : Request) (hno : ws = true → NoNameOverride V) (N : Nat)
    (H : ∀ d ∈ reqMsgs req, ∀ n ≤ N, (flatPre ws V req n d).Pairwise (fun a b => r a b = true)) : ∀ n : Nat, n ≤ N →
    (∀ desc isRoot path m, buildMessage n V req desc isRoot path = .ok m →
        (flatPre ws V req n desc).Pairwise (fun a b => r a b = true) → pairOKsB r m.fields = true) ∧
    (∀ ctx f keys goType isMap isRep hasComment res,
        buildFieldCore n V req ctx f keys goType isMap isRep hasComment = .ok res → ∀ x ∈ res, pairOKB r x = true) := by
  intro n
  induction n with
  | zero =>
    intro _
    constructor
    · intro desc isRoot path m h; rw [buildMessage_zero] at h; cases h
    · intro ctx f keys goType isMap isRep hc res h; rw [buildFieldCore_zero] at h; cases h
  | succ n ih =>
    intro hn
    obtain ⟨ihM, ihF⟩ := ih (by omega)
    constructor
    · intro desc isRoot path m h hp
      have hflat := built_flat ws V req hno (n + 1) desc isRoot path m h
      have hpw : (m.fields.map (fun x => keyOf ws x.info)).Pairwise (fun a b => r a b = true) :=
        subperm_pairwise (fun {x y} hxy => by rw [hsym]; exact hxy) hflat hp
      rw [List.pairwise_map] at hpw
      rw [buildMessage_succ] at h
      obtain ⟨h1, _, _⟩ := msgStep_built V desc isRoot path _ m (fun x => pairOKB r x = true)
        (fun p => by rw [pairOKB_sub]; show pairOKsB r [] = true; rw [pairOKsB])
        (fun fs hfs x hx => by
          obtain ⟨b, _, res, hr, hxr⟩ := collect_mem _ desc.fields fs hfs x hx
          exact ihF _ b _ _ _ _ _ res hr x hxr) h
      exact pairOKsB_of r m.fields (hpw.imp (fun {a b} hab => by rw [hkey]; exact hab)) h1
    · intro ctx f keys goType isMap isRep hc res h
      rw [buildFieldCore_succ] at h
      rcases coreStep_ok_inv V req ctx f keys goType isMap isRep hc _ _ res h with
        ⟨_, rfl⟩ | ⟨_, tf, htf, hcase⟩
      · intro x hx; cases hx
      · rcases hcase with ⟨rfl, hm, d, m, hfind, hb, hr⟩ | ⟨rfl, hm, rfl⟩ | ⟨rfl, hk, v, vs, hv, rfl⟩
        · have hS := ihM d false keys.path m hb (H d (findMessage_mem hfind) n (by omega))
          rcases hr with ⟨hemb, rfl⟩ | ⟨hemb, rfl⟩
          · intro x hx
            rcases spliced_mem goType m x hx with hx | ⟨a, b, y, hy, rfl⟩
            · exact pairOKsB_mem r _ hS x hx
            · rw [pairOKB_mark]; exact pairOKsB_mem r _ hS y hy
          · intro x hx
            rw [List.mem_singleton] at hx; subst hx
            rw [pairOKB_sub, mkNode_sub_none_some]; exact hS
        · intro x hx
          rw [List.mem_singleton] at hx; subst hx
          rw [pairOKB_sub, mkNode_sub_none_none, pairOKsB]
        · intro x hx
          rw [List.mem_singleton] at hx; subst hx
          have hvS := ihF ctx f.mapValueField keys _ false false false _ hv v List.mem_cons_self
          rw [pairOKB_sub] at hvS
          rw [pairOKB_sub, mkNode_sub_some]; exact hvS

/-- … for a built message -/
theorem built_pairOK (r : FieldInfo → FieldInfo → Bool) (hsym : ∀ a b, r a b = r b a)
    (ws : Bool) (hkey : ∀ a b, r a b = r (keyOf ws a) (keyOf ws b))
    (V : CfgView) (req : Request) (hno : ws = true → NoNameOverride V) (n : Nat) (desc : MsgD) (isRoot : Bool) (path : String) (m : Msg)
    (h : buildMessage n V req desc isRoot path = .ok m) (hl : levelsOKb ws r V req n desc = true) :
    pairOKsB r m.fields = true :=
  (pairs_all r hsym ws hkey V req hno n (fun d hd k hk => levelsOKb_spec hl d (Or.inr hd) k hk) n (Nat.le_refl _)).1
    desc isRoot path m h (levelsOKb_spec hl desc (Or.inl rfl) n (Nat.le_refl _))


-- ======================================================================================================
-- 4. `namesOKsB` and `sepOKsB` from the descriptor
-- ======================================================================================================

/-- attribute names differ -/
def rSnake (a b : FieldInfo) : Bool := a.nameSnake != b.nameSnake

/-- the two blocks assign different Go fields (`sepB`, BuiltRT), in both orders -/
def rSep (a b : FieldInfo) : Bool := sepB a b && sepB b a

theorem rSnake_sym (a b : FieldInfo) : rSnake a b = rSnake b a := by
  unfold rSnake
  cases h : a.nameSnake != b.nameSnake with
  | true =>
    have : a.nameSnake ≠ b.nameSnake := by simpa using h
    have : b.nameSnake ≠ a.nameSnake := fun e => this e.symm
    simpa using this
  | false =>
    have : a.nameSnake = b.nameSnake := by simpa using h
    rw [this]; simp
theorem rSnake_key (a b : FieldInfo) : rSnake a b = rSnake (keyOf true a) (keyOf true b) := rfl
theorem rSep_sym (a b : FieldInfo) : rSep a b = rSep b a := by unfold rSep; rw [Bool.and_comm]
theorem rSep_key (a b : FieldInfo) : rSep a b = rSep (keyOf false a) (keyOf false b) := rfl

mutual
theorem namesOKB_of_pair : ∀ f : Field, pairOKB rSnake f = true → namesOKB f = true
  | ⟨info, mv, msg, sub⟩, h => by
    rw [pairOKB] at h
    unfold namesOKB
    have ih := namesOKsB_of_pair sub h
    cases info.kind <;> first | exact ih | rfl
theorem namesOKsB_of_pair : ∀ fs : List Field, pairOKsB rSnake fs = true → namesOKsB fs = true
  | [], _ => by unfold namesOKsB; rfl
  | f :: rest, h => by
    rw [pairOKsB] at h
    simp only [Bool.and_eq_true, List.all_eq_true] at h
    unfold namesOKsB
    simp only [Bool.and_eq_true, Bool.not_eq_true', List.contains_eq_mem, decide_eq_false_iff_not, List.mem_map, not_exists,
      not_and]
    refine ⟨⟨namesOKB_of_pair f h.1.2, fun g hg he => ?_⟩, namesOKsB_of_pair rest h.2⟩
    have := h.1.1 g hg
    unfold rSnake at this
    rw [he] at this
    simp at this
end

mutual
theorem sepOKB_of_pair : ∀ f : Field, pairOKB rSep f = true → sepOKB f = true
  | ⟨info, mv, msg, sub⟩, h => by
    rw [pairOKB] at h
    unfold sepOKB
    exact sepOKsB_of_pair sub h
theorem sepOKsB_of_pair : ∀ fs : List Field, pairOKsB rSep fs = true → sepOKsB fs = true
  | [], _ => by unfold sepOKsB; rfl
  | f :: rest, h => by
    rw [pairOKsB] at h
    simp only [Bool.and_eq_true, List.all_eq_true] at h
    unfold sepOKsB
    simp only [Bool.and_eq_true, List.all_eq_true]
    refine ⟨⟨fun g hg => ?_, sepOKB_of_pair f h.1.2⟩, sepOKsB_of_pair rest h.2⟩
    have := h.1.1 g hg
    unfold rSep at this
    simp only [Bool.and_eq_true] at this
    exact this.1
end

/-- **descriptor condition for `namesOKsB`**: per message of the request (and the root), embedded messages flattened, the
attribute names given by the naming rule are pairwise distinct -/
def snakeDescOKb (V : CfgView) (req : Request) (N : Nat) (root : MsgD) : Bool := levelsOKb true rSnake V req N root

/-- **descriptor condition for `sepOKsB`**: per message, embedded messages flattened, two fields assign different Go fields
(Go names, oneof holders, short type names of messages embedded by pointer), unless they are members of one oneof with different
wrapper types or children of one message embedded by pointer with different Go names -/
def sepDescOKb (V : CfgView) (req : Request) (N : Nat) (root : MsgD) : Bool := levelsOKb false rSep V req N root

theorem built_namesOKsB (V : CfgView) (req : Request) (hno : NoNameOverride V) (n : Nat) (desc : MsgD) (isRoot : Bool)
    (path : String) (m : Msg) (h : buildMessage n V req desc isRoot path = .ok m)
    (hd : snakeDescOKb V req n desc = true) : namesOKsB m.fields = true :=
  namesOKsB_of_pair _ (built_pairOK rSnake rSnake_sym true rSnake_key V req (fun _ => hno) n desc isRoot path m h hd)

theorem built_sepOKsB (V : CfgView) (req : Request) (n : Nat) (desc : MsgD) (isRoot : Bool)
    (path : String) (m : Msg) (h : buildMessage n V req desc isRoot path = .ok m)
    (hd : sepDescOKb V req n desc = true) : sepOKsB m.fields = true :=
  sepOKsB_of_pair _ (built_pairOK rSep rSep_sym false rSep_key V req (fun h => by cases h) n desc isRoot path m h hd)

theorem viewOf_noNameOverride (cfg : Config) (h : cfg.nameOverrides = []) : NoNameOverride (viewOf cfg) := by
  intro k
  show firstLookup "GetNameSnake" cfg.nameOverrides k = none
  rw [h]
  unfold firstLookup
  rw [List.findSome?_eq_none_iff]
  intro e _
  cases k.eval e <;> rfl


-- ======================================================================================================
-- 5. `hygieneB` from the descriptor
-- ======================================================================================================

theorem mem_promoted (x : String) : ∀ (fs : List Field) (own : List String), x ∈ withPromotedOneOfs own fs →
    x ∈ own ∨ ∃ f ∈ fs, f.info.oneOfName = x ∧ x ≠ "" ∧ f.info.parentIsOptionalEmbed = false
  | [], own, h => Or.inl h
  | f :: fs, own, h => by
    unfold withPromotedOneOfs at h
    rw [List.foldl_cons] at h
    rcases mem_promoted x fs _ h with h1 | ⟨g, hg, h2⟩
    · split at h1
      · exact Or.inl h1
      · rename_i hc
        rcases List.mem_append.mp h1 with h1 | h1
        · exact Or.inl h1
        · rw [List.mem_singleton] at h1
          simp only [Bool.or_eq_true, beq_iff_eq, not_or, Bool.not_eq_true] at hc
          exact Or.inr ⟨f, List.mem_cons_self, h1.symm, by rw [h1]; exact hc.1.1, hc.1.2⟩
    · exact Or.inr ⟨g, List.mem_cons_of_mem _ hg, h2⟩

theorem built_oneOfNames_mem (V : CfgView) (req : Request) (n : Nat) (desc : MsgD) (isRoot : Bool) (path : String) (m : Msg)
    (h : buildMessage n V req desc isRoot path = .ok m) (x : String) (hx : x ∈ m.info.oneOfNames) :
    x ∈ withPromotedOneOfs (oneOfNames desc) m.fields := by
  cases n with
  | zero => rw [buildMessage_zero] at h; cases h
  | succ n =>
    unfold buildMessage at h
    simp only at h
    split at h
    · cases h
    · rename_i fields _
      injection h with h
      subst h
      simp only at hx ⊢
      split at hx
      · exact (PGT.PriorIndep.mem_sortStrings _ _).mp hx
      · exact hx

theorem pairwise_mem {α} {R : α → α → Prop} : ∀ {l : List α}, l.Pairwise R → ∀ a ∈ l, ∀ b ∈ l, a = b ∨ R a b ∨ R b a
  | [], _, a, ha, _, _ => by cases ha
  | c :: l, hp, a, ha, b, hb => by
    rw [List.pairwise_cons] at hp
    rcases List.mem_cons.mp ha with ha' | ha' <;> rcases List.mem_cons.mp hb with hb' | hb'
    · exact Or.inl (ha'.trans hb'.symm)
    · exact Or.inr (Or.inl (by rw [ha']; exact hp.1 b hb'))
    · exact Or.inr (Or.inr (by rw [hb']; exact hp.1 a ha'))
    · exact pairwise_mem hp.2 a ha' b hb'

/-- two children of one message embedded by pointer have different Go names -/
def rChild (a b : FieldInfo) : Bool :=
  !(a.parentIsOptionalEmbed && b.parentIsOptionalEmbed &&
    a.parentIsOptionalEmbedFieldName == b.parentIsOptionalEmbedFieldName && a.name == b.name)

theorem rChild_sym (a b : FieldInfo) : rChild a b = rChild b a := by
  unfold rChild
  rw [Bool.and_comm a.parentIsOptionalEmbed, BEq.comm (a := a.parentIsOptionalEmbedFieldName), BEq.comm (a := a.name)]

/-- the holders of the oneof groups of the message, on the descriptor: its own oneofs and those promoted from messages embedded
by value -/
def holdersD (own : List String) (flat : List FieldInfo) : List String :=
  own ++ (flat.filter (fun k => !k.parentIsOptionalEmbed && k.oneOfName != "")).map (·.oneOfName)

/-- the short type names of the messages embedded by pointer -/
def parsD (flat : List FieldInfo) : List String :=
  (flat.filter (·.parentIsOptionalEmbed)).map (·.parentIsOptionalEmbedFieldName)

/-- **descriptor condition for `hygieneB`** (the message itself, embedded messages flattened): no holder with an empty name; no
Go field name and no short type name of a message embedded by pointer equals a holder; no own field and no oneof holder is
named like the short type name of a message embedded by pointer; children of one message embedded by pointer have different Go
names -/
def hygDescB (V : CfgView) (req : Request) (N : Nat) (root : MsgD) : Bool :=
  !(holdersD (oneOfNames root) (flatPre false V req N root)).contains "" &&
  (flatPre false V req N root).all (fun k =>
    !(holdersD (oneOfNames root) (flatPre false V req N root)).contains k.name &&
    !(holdersD (oneOfNames root) (flatPre false V req N root)).contains k.parentIsOptionalEmbedFieldName &&
    (k.parentIsOptionalEmbed || !(parsD (flatPre false V req N root)).contains k.name) &&
    (k.oneOfName == "" || !(parsD (flatPre false V req N root)).contains k.oneOfName)) &&
  pwB rChild (flatPre false V req N root)

theorem built_hygieneB (V : CfgView) (req : Request) (n : Nat) (desc : MsgD) (isRoot : Bool)
    (path : String) (m : Msg) (h : buildMessage n V req desc isRoot path = .ok m)
    (hd : hygDescB V req n desc = true) : hygieneB m = true := by
  have hflat := built_flat false V req (fun h => by cases h) n desc isRoot path m h
  have hmem : ∀ f ∈ m.fields, keyOf false f.info ∈ flatPre false V req n desc := fun f hf =>
    hflat.subset (List.mem_map.mpr ⟨f, hf, rfl⟩)
  unfold hygDescB at hd
  simp only [Bool.and_eq_true, Bool.not_eq_true', List.all_eq_true, Bool.or_eq_true, List.contains_eq_mem,
    decide_eq_false_iff_not, beq_iff_eq] at hd
  obtain ⟨⟨h0, hall⟩, hpw⟩ := hd
  have hhold : ∀ x ∈ m.info.oneOfNames, x ∈ holdersD (oneOfNames desc) (flatPre false V req n desc) := by
    intro x hx
    rcases mem_promoted x _ _ (built_oneOfNames_mem V req n desc isRoot path m h x hx) with h1 | ⟨f, hf, h1, h2, h3⟩
    · exact List.mem_append_left _ h1
    · refine List.mem_append_right _ (List.mem_map.mpr ⟨keyOf false f.info, List.mem_filter.mpr ⟨hmem f hf, ?_⟩, h1⟩)
      show (!f.info.parentIsOptionalEmbed && f.info.oneOfName != "") = true
      rw [h3, h1]; simpa using h2
  have hpar : ∀ k, EmbedPar m.fields k → k ∈ parsD (flatPre false V req n desc) := by
    rintro k ⟨f, hf, h1, h2⟩
    exact List.mem_map.mpr ⟨keyOf false f.info, List.mem_filter.mpr ⟨hmem f hf, h1⟩, h2⟩
  have hpw' : m.fields.Pairwise (fun a b => rChild a.info b.info = true) := by
    have := subperm_pairwise (R := fun a b => rChild a b = true) (fun {x y} hxy => by rw [rChild_sym]; exact hxy) hflat
      ((pwB_iff rChild _).mp hpw)
    rw [List.pairwise_map] at this
    exact this
  rw [hygiene_iff]
  refine ⟨fun hc => h0 (hhold _ hc), fun f hf hc => (hall _ (hmem f hf)).1.1.1 (hhold _ hc),
    fun f hf hc => (hall _ (hmem f hf)).1.1.2 (hhold _ hc), fun f hf he _ hp => ?_, fun f hf ho hp => ?_,
    fun f hf g hg he1 he2 hpn hn => ?_⟩
  · rcases (hall _ (hmem f hf)).1.2 with h1 | h1
    · have h1' : f.info.parentIsOptionalEmbed = true := h1
      rw [he] at h1'; cases h1'
    · exact h1 (hpar _ hp)
  · rcases (hall _ (hmem f hf)).2 with h1 | h1
    · exact ho h1
    · exact h1 (hpar _ hp)
  · have hbad : ∀ a b : Field, a.info.parentIsOptionalEmbed = true → b.info.parentIsOptionalEmbed = true →
        a.info.parentIsOptionalEmbedFieldName = b.info.parentIsOptionalEmbedFieldName → a.info.name = b.info.name →
        rChild a.info b.info = true → False := by
      intro a b e1 e2 e3 e4 hr
      unfold rChild at hr
      rw [e1, e2, e3, e4] at hr
      simp at hr
    rcases pairwise_mem hpw' f hf g hg with rfl | hr | hr
    · rfl
    · exact (hbad f g he1 he2 hpn hn hr).elim
    · exact (hbad g f he2 he1 hpn.symm hn.symm hr).elim


-- ======================================================================================================
-- 6. `branchOKsB` from the descriptor
-- ======================================================================================================

/-- the condition on a single-valued oneof member, in terms of its record and Go type string -/
def BranchTf (goType : String) (tf : TfType) : Prop :=
  if tf.isMessage then goType.toList.contains '*' = true
  else goType.toList.contains '*' = false ∧ tf.zeroValue ≠ ""

theorem mkNode_branchB (V : CfgView) (ctx : MsgCtx) (f : FieldD) (keys : Keys) (goType : String) (isMap isRep hc : Bool)
    (tf : TfType) (mapV : Option Field) (nested : Option Msg)
    (h : f.oneof = none ∨ isMap = true ∨ isRep = true ∨ (isMap = false ∧ isRep = false ∧ mapV = none ∧ BranchTf goType tf)) :
    branchB (mkNode V ctx f keys goType isMap isRep hc tf mapV nested).info = true := by
  unfold branchB
  rw [mkNode_oneOfName, mkNode_kind]
  rcases h with h | h | h | ⟨h1, h2, h3, h4⟩
  · rw [h]; rfl
  · subst h
    generalize isCustomOf V f keys = c
    generalize (mapV.map (·.info.tf.isMessage)).getD false = mv
    cases c <;> cases mv <;> simp [kindOf]
  · subst h
    generalize isCustomOf V f keys = c
    generalize (mapV.map (·.info.tf.isMessage)).getD false = mv
    cases c <;> cases mv <;> cases isMap <;> cases tf.isMessage <;> simp [kindOf]
  · subst h1; subst h2; subst h3
    unfold BranchTf at h4
    generalize isCustomOf V f keys = c
    cases c
    · cases hg : tf.isMessage
      · rw [hg] at h4
        simp only [Bool.false_eq_true, if_false] at h4
        have e1 : (mkNode V ctx f keys goType false false hc tf none nested).info.isNullable = goType.toList.contains '*' := rfl
        have e2 : (mkNode V ctx f keys goType false false hc tf none nested).info.tf = tf := rfl
        simp only [kindOf, Bool.false_eq_true, if_false, Bool.false_and, e1, e2, h4.1, Bool.not_false, Bool.true_and,
          Option.map_none, Option.getD_none]
        simp [h4.2]
      · rw [hg] at h4
        simp only [if_true] at h4
        have e1 : (mkNode V ctx f keys goType false false hc tf none nested).info.isNullable = goType.toList.contains '*' := rfl
        have h4' : '*' ∈ goType.toList := by simpa using h4
        simp [kindOf, e1, h4']
    · simp [kindOf]

/-- **the condition on a declared field** (decidable on descriptor and configuration; evaluates `GetTerraformType` and the Go
type string of the field): a single-valued oneof member that is message-typed is a pointer; one that is scalar-typed is not a
pointer and its record has a zero literal. This excludes `Timestamp` / `Duration` members (pointer, or – with `stdtime` /
`stdduration` and `nullable = false` – no zero literal in the configured record), message members with `nullable = false`, and
scalar members whose cast type contains a star. -/
def branchFieldOKb (V : CfgView) (d : MsgD) (f : FieldD) : Bool :=
  f.oneof.isNone || !(f.card == .single) ||
  (match tfD V d f with
   | .error _ => true
   | .ok tf => if tf.isMessage then (goTyD V d f).toList.contains '*'
               else !(goTyD V d f).toList.contains '*' && tf.zeroValue != "")

def branchDescOKb (V : CfgView) (req : Request) (root : MsgD) : Bool :=
  (root :: reqMsgs req).all fun d => d.fields.all (branchFieldOKb V d)

theorem card_single (c : Card) (h1 : (c == .map) = false) (h2 : (c == .repeated) = false) : (c == .single) = true := by
  cases c
  · rfl
  · exact absurd h2 (by decide)
  · exact absurd h1 (by decide)

theorem branchFieldOKb_spec {V : CfgView} {d : MsgD} {f : FieldD} (h : branchFieldOKb V d f = true) (tf : TfType) (p : String)
    (htf : getTerraformType V f (f.card == .map) (f.card == .repeated) (goTyD V d f) p = .ok tf) :
    f.oneof = none ∨ (f.card == .map) = true ∨ (f.card == .repeated) = true ∨
      ((f.card == .map) = false ∧ (f.card == .repeated) = false ∧ (none : Option Field) = none ∧ BranchTf (goTyD V d f) tf) := by
  unfold branchFieldOKb at h
  have htfD : tfD V d f = .ok tf := getTerraformType_path _ _ _ _ _ _ _ _ htf
  rw [htfD] at h
  simp only [Bool.or_eq_true, Option.isNone_iff_eq_none, Bool.not_eq_true'] at h
  rcases h with (h | h) | h
  · exact Or.inl h
  · cases hm : (f.card == .map) with
    | true => exact Or.inr (Or.inl rfl)
    | false =>
      cases hr : (f.card == .repeated) with
      | true => exact Or.inr (Or.inr (Or.inl rfl))
      | false => rw [card_single f.card hm hr] at h; cases h
  · cases hm : (f.card == .map) with
    | true => exact Or.inr (Or.inl rfl)
    | false =>
      cases hr : (f.card == .repeated) with
      | true => exact Or.inr (Or.inr (Or.inl rfl))
      | false =>
        refine Or.inr (Or.inr (Or.inr ⟨rfl, rfl, rfl, ?_⟩))
        unfold BranchTf
        cases hg : tf.isMessage with
        | true => rw [hg] at h; simpa using h
        | false =>
          rw [hg] at h
          simp only [Bool.false_eq_true, if_false, Bool.and_eq_true, Bool.not_eq_true', bne_iff_ne, ne_eq] at h ⊢
          exact h

theorem branchOKsB_iff : ∀ fs : List Field, branchOKsB fs = true ↔ ∀ x ∈ fs, branchOKB x = true
  | [] => by rw [branchOKsB]; simp
  | f :: fs => by rw [branchOKsB, Bool.and_eq_true, branchOKsB_iff fs]; simp

theorem branchOKB_unfold (x : Field) : branchOKB x = true ↔ branchB x.info = true ∧ branchOKsB x.sub = true := by
  obtain ⟨info, mv, msg, sub⟩ := x
  rw [branchOKB, Bool.and_eq_true]

theorem branchOKB_mark (a b : String) (x : Field) (h : branchOKB x = true) : branchOKB (markEmbedded a b x) = true := by
  obtain ⟨info, mv, msg, sub⟩ := x
  rw [branchOKB_unfold] at h ⊢
  exact h

/-- **MAIN (oneof branches)**: under the descriptor condition every node of every built IR satisfies `branchB` -/
theorem branch_all (V : CfgView) (req : Request)
    (H : ∀ d ∈ reqMsgs req, d.fields.all (branchFieldOKb V d) = true) : ∀ n : Nat,
    (∀ desc isRoot path m, desc.fields.all (branchFieldOKb V desc) = true →
        buildMessage n V req desc isRoot path = .ok m → branchOKsB m.fields = true) ∧
    (∀ ctx f keys goType isMap isRep hasComment res,
        buildFieldCore n V req ctx f keys goType isMap isRep hasComment = .ok res →
        (∀ x ∈ res, branchOKsB x.sub = true) ∧
        ((∀ tf, getTerraformType V f isMap isRep goType keys.path = .ok tf →
            f.oneof = none ∨ isMap = true ∨ isRep = true ∨
              (isMap = false ∧ isRep = false ∧ (none : Option Field) = none ∧ BranchTf goType tf)) →
          ∀ x ∈ res, branchB x.info = true)) := by
  intro n
  induction n with
  | zero =>
    constructor
    · intro desc isRoot path m _ h; rw [buildMessage_zero] at h; cases h
    · intro ctx f keys goType isMap isRep hc res h; rw [buildFieldCore_zero] at h; cases h
  | succ n ih =>
    obtain ⟨ihM, ihF⟩ := ih
    constructor
    · intro desc isRoot path m hd h
      rw [buildMessage_succ] at h
      obtain ⟨h1, _, _⟩ := msgStep_built V desc isRoot path _ m (fun x => branchOKB x = true)
        (fun p => by rw [branchOKB_unfold]; exact ⟨rfl, by show branchOKsB [] = true; rw [branchOKsB]⟩)
        (fun fs hfs x hx => by
          obtain ⟨b, hb, res, hr, hxr⟩ := collect_mem _ desc.fields fs hfs x hx
          obtain ⟨c1, c2⟩ := ihF _ b _ _ _ _ _ res hr
          rw [branchOKB_unfold]
          refine ⟨c2 (fun tf htf => ?_) x hxr, c1 x hxr⟩
          rw [goTypeOf_eq] at htf ⊢
          exact branchFieldOKb_spec (List.all_eq_true.mp hd b hb) tf _ htf) h
      exact (branchOKsB_iff _).mpr h1
    · intro ctx f keys goType isMap isRep hc res h
      rw [buildFieldCore_succ] at h
      rcases coreStep_ok_inv V req ctx f keys goType isMap isRep hc _ _ res h with
        ⟨_, rfl⟩ | ⟨_, tf, htf, hcase⟩
      · exact ⟨fun x hx => (by cases hx), fun _ x hx => (by cases hx)⟩
      · rcases hcase with ⟨rfl, hm, d, m, hfind, hb, hr⟩ | ⟨rfl, hm, rfl⟩ | ⟨rfl, hk, v, vs, hv, rfl⟩
        · have hS := ihM d false keys.path m (H d (findMessage_mem hfind)) hb
          rcases hr with ⟨hemb, rfl⟩ | ⟨hemb, rfl⟩
          · have hall : ∀ x ∈ spliced goType m, branchOKB x = true := by
              intro x hx
              rcases spliced_mem goType m x hx with hx | ⟨a, b, y, hy, rfl⟩
              · exact (branchOKsB_iff _).mp hS x hx
              · exact branchOKB_mark a b y ((branchOKsB_iff _).mp hS y hy)
            exact ⟨fun x hx => ((branchOKB_unfold x).mp (hall x hx)).2, fun _ x hx => ((branchOKB_unfold x).mp (hall x hx)).1⟩
          · refine ⟨fun x hx => ?_, fun hc' x hx => ?_⟩ <;> (rw [List.mem_singleton] at hx; subst hx)
            · rw [mkNode_sub_none_some]; exact hS
            · exact mkNode_branchB _ _ _ _ _ _ _ _ _ _ _ (hc' tf htf)
        · refine ⟨fun x hx => ?_, fun hc' x hx => ?_⟩ <;> (rw [List.mem_singleton] at hx; subst hx)
          · rw [mkNode_sub_none_none, branchOKsB]
          · exact mkNode_branchB _ _ _ _ _ _ _ _ _ _ _ (hc' tf htf)
        · refine ⟨fun x hx => ?_, fun hc' x hx => ?_⟩ <;> (rw [List.mem_singleton] at hx; subst hx)
          · rw [mkNode_sub_some]
            exact (ihF ctx f.mapValueField keys _ false false false _ hv).1 v List.mem_cons_self
          · exact mkNode_branchB _ _ _ _ _ _ _ _ _ _ _ (Or.inr (Or.inl rfl))

theorem built_branchOKsB (V : CfgView) (req : Request) (n : Nat) (desc : MsgD) (isRoot : Bool) (path : String) (m : Msg)
    (h : buildMessage n V req desc isRoot path = .ok m) (hd : branchDescOKb V req desc = true) :
    branchOKsB m.fields = true := by
  unfold branchDescOKb at hd
  rw [List.all_eq_true] at hd
  exact (branch_all V req (fun d hdm => hd d (List.mem_cons_of_mem _ hdm)) n).1 desc isRoot path m
    (hd desc List.mem_cons_self) h


-- ======================================================================================================
-- 7. `ptrOKsB` from the descriptor
-- ======================================================================================================

/-- `ptrB` looks at four components of the node only -/
def ptrInfoB (nullable : Bool) (elemValueType castFrom protoType : String) : Bool :=
  ptrB { name := "", nameSnake := "", isNullable := nullable,
         tf := { elemValueType := elemValueType, valueCastFromType := castFrom }, protoType := protoType }

theorem ptrB_eq (info : FieldInfo) :
    ptrB info = ptrInfoB info.isNullable info.tf.elemValueType info.tf.valueCastFromType info.protoType := rfl

def ptrNodeB (info : FieldInfo) : Bool :=
  match info.kind with
  | .primitive | .primitiveList | .primitiveMap => ptrB info
  | _ => true

theorem ptrNodeB_of (info : FieldInfo) (h : ptrB info = true) : ptrNodeB info = true := by
  unfold ptrNodeB
  generalize info.kind = k
  cases k <;> first | exact h | rfl

theorem ptrOKB_unfold (x : Field) : ptrOKB x = true ↔ ptrNodeB x.info = true ∧ ptrOKsB x.sub = true := by
  obtain ⟨info, mv, msg, sub⟩ := x
  rw [ptrOKB, Bool.and_eq_true]
  show _ ↔ ptrNodeB info = true ∧ ptrOKsB sub = true
  unfold ptrNodeB
  generalize info.kind = k
  cases k <;> exact Iff.rfl

theorem ptrOKsB_iff : ∀ fs : List Field, ptrOKsB fs = true ↔ ∀ x ∈ fs, ptrOKB x = true
  | [] => by rw [ptrOKsB]; simp
  | f :: fs => by rw [ptrOKsB, Bool.and_eq_true, ptrOKsB_iff fs]; simp

theorem ptrOKB_mark (a b : String) (x : Field) (h : ptrOKB x = true) : ptrOKB (markEmbedded a b x) = true := by
  obtain ⟨info, mv, msg, sub⟩ := x
  rw [ptrOKB_unfold] at h ⊢
  exact h

/-- the Go type string of a map field -/
def mapTypD (V : CfgView) (f : FieldD) : String :=
  prependPackageNameIfMissing V.importOverride (gogoMapGoType f) V.defaultPackageName

theorem mkNode_ptr_nonmap (V : CfgView) (ctx : MsgCtx) (f : FieldD) (keys : Keys) (goType : String) (isRep hc : Bool)
    (tf : TfType) (nested : Option Msg)
    (h : tf.isMessage = true ∨ ptrInfoB (goType.toList.contains '*') tf.elemValueType tf.valueCastFromType f.type = true) :
    ptrNodeB (mkNode V ctx f keys goType false isRep hc tf none nested).info = true := by
  rcases h with h | h
  · unfold ptrNodeB
    rw [mkNode_kind]
    generalize isCustomOf V f keys = c
    cases c <;> cases isRep <;> simp [kindOf, h]
  · apply ptrNodeB_of
    have e : ptrB (mkNode V ctx f keys goType false isRep hc tf none nested).info = true := by
      rw [ptrB_eq, mkNode_tf_none]
      have e1 : (mkNode V ctx f keys goType false isRep hc tf none nested).info.isNullable = goType.toList.contains '*' := by
        cases isRep <;> rfl
      have e2 : (mkNode V ctx f keys goType false isRep hc tf none nested).info.protoType = f.type := by
        cases isRep <;> rfl
      rw [e1, e2]; exact h
    exact e

theorem mkNode_ptr_map (V : CfgView) (ctx : MsgCtx) (f : FieldD) (keys : Keys) (goType : String) (isRep hc : Bool)
    (tf : TfType) (v : Field) (nested : Option Msg)
    (h : v.info.tf.isMessage = true ∨
      ptrInfoB ((mapTypD V f).toList.contains '*') v.info.tf.elemValueType v.info.tf.valueCastFromType f.type = true) :
    ptrNodeB (mkNode V ctx f keys goType true isRep hc tf (some v) nested).info = true := by
  rcases h with h | h
  · unfold ptrNodeB
    rw [mkNode_kind]
    generalize isCustomOf V f keys = c
    cases c <;> simp [kindOf, h]
  · apply ptrNodeB_of
    have e : ptrB (mkNode V ctx f keys goType true isRep hc tf (some v) nested).info = true := by
      rw [ptrB_eq, mkNode_tf_some]
      have e1 : (mkNode V ctx f keys goType true isRep hc tf (some v) nested).info.isNullable =
          (mapTypD V f).toList.contains '*' := by
        cases isRep <;> simp only [mkNode, mapTypD]
      have e2 : (mkNode V ctx f keys goType true isRep hc tf (some v) nested).info.protoType = f.type := by
        cases isRep <;> rfl
      rw [e1, e2]; exact h
    exact e

/-- the record of the single node of a non-map, non-embedded block is the one `GetTerraformType` returns -/
theorem core_tf (V : CfgView) (req : Request) (n : Nat) (ctx : MsgCtx) (f : FieldD) (keys : Keys) (goType : String)
    (isRep hc : Bool) (res : List Field) (hemb : f.embed = false)
    (h : buildFieldCore n V req ctx f keys goType false isRep hc = .ok res) :
    ∀ x ∈ res, ∃ tf, getTerraformType V f false isRep goType keys.path = .ok tf ∧ x.info.tf = tf := by
  cases n with
  | zero => rw [buildFieldCore_zero] at h; cases h
  | succ n =>
    rw [buildFieldCore_succ] at h
    rcases coreStep_ok_inv V req ctx f keys goType false isRep hc _ _ res h with ⟨_, rfl⟩ | ⟨_, tf, htf, hcase⟩
    · intro x hx; cases hx
    · rcases hcase with ⟨_, hm, d, m, hfind, hb, hr⟩ | ⟨_, hm, rfl⟩ | ⟨hm0, _⟩
      · rcases hr with ⟨he, _⟩ | ⟨_, rfl⟩
        · rw [hemb] at he; cases he
        · intro x hx
          rw [List.mem_singleton] at hx; subst hx
          exact ⟨tf, htf, mkNode_tf_none ..⟩
      · intro x hx
        rw [List.mem_singleton] at hx; subst hx
        exact ⟨tf, htf, mkNode_tf_none ..⟩
      · cases hm0

/-- **the condition on a declared field** (decidable on descriptor and configuration): a scalar-typed field (for a map: a
scalar-typed value) whose Go type string contains a star has the representation of the payload of its Terraform value kind.
Fails for cast types written with a star (`*X`), holds for the pointer types gogo generates (`*types.Timestamp` under a time
type with cast-from `time.Time`, …) -/
def ptrFieldOKb (V : CfgView) (d : MsgD) (f : FieldD) : Bool :=
  if f.card == .map then
    match getTerraformType V f.mapValueField false false (mapValueGoType V f) "" with
    | .error _ => true
    | .ok tv => tv.isMessage ||
        ptrInfoB ((mapTypD V f).toList.contains '*') tv.elemValueType tv.valueCastFromType f.type
  else
    match tfD V d f with
    | .error _ => true
    | .ok tf => tf.isMessage ||
        ptrInfoB ((goTyD V d f).toList.contains '*') tf.elemValueType tf.valueCastFromType f.type

def ptrDescOKb (V : CfgView) (req : Request) (root : MsgD) : Bool :=
  (root :: reqMsgs req).all fun d => d.fields.all (ptrFieldOKb V d)

/-- what the induction needs of a call -/
def PtrCond (V : CfgView) (f : FieldD) (keys : Keys) (goType : String) (isMap isRep : Bool) : Prop :=
  (isMap = false ∧ ∀ tf, getTerraformType V f false isRep goType keys.path = .ok tf →
      tf.isMessage = true ∨ ptrInfoB (goType.toList.contains '*') tf.elemValueType tf.valueCastFromType f.type = true) ∨
  (isMap = true ∧ ∀ tv, getTerraformType V f.mapValueField false false (mapValueGoType V f) keys.path = .ok tv →
      tv.isMessage = true ∨
        ptrInfoB ((mapTypD V f).toList.contains '*') tv.elemValueType tv.valueCastFromType f.type = true)

theorem ptrFieldOKb_spec {V : CfgView} {d : MsgD} {f : FieldD} (h : ptrFieldOKb V d f = true) (p : String) :
    PtrCond V f ⟨p, d.name ++ "." ++ f.name⟩ (goTyD V d f) (f.card == .map) (f.card == .repeated) := by
  unfold ptrFieldOKb at h
  unfold PtrCond
  cases hm : (f.card == .map) with
  | true =>
    rw [hm] at h
    simp only [if_true] at h
    refine Or.inr ⟨rfl, fun tv htv => ?_⟩
    rw [getTerraformType_path _ _ _ _ _ _ "" _ htv] at h
    simpa using h
  | false =>
    rw [hm] at h
    simp only [Bool.false_eq_true, if_false] at h
    refine Or.inl ⟨rfl, fun tf htf => ?_⟩
    have htfD : tfD V d f = .ok tf := by
      unfold tfD; rw [hm]; exact getTerraformType_path _ _ _ _ _ _ _ _ htf
    rw [htfD] at h
    simpa using h

/-- **MAIN (pointer-backed scalars)**: under the descriptor condition every scalar node of every built IR satisfies `ptrB` -/
theorem ptr_all (V : CfgView) (req : Request)
    (H : ∀ d ∈ reqMsgs req, d.fields.all (ptrFieldOKb V d) = true) : ∀ n : Nat,
    (∀ desc isRoot path m, desc.fields.all (ptrFieldOKb V desc) = true →
        buildMessage n V req desc isRoot path = .ok m → ptrOKsB m.fields = true) ∧
    (∀ ctx f keys goType isMap isRep hasComment res,
        buildFieldCore n V req ctx f keys goType isMap isRep hasComment = .ok res →
        (∀ x ∈ res, ptrOKsB x.sub = true) ∧
        (PtrCond V f keys goType isMap isRep → ∀ x ∈ res, ptrNodeB x.info = true)) := by
  intro n
  induction n with
  | zero =>
    constructor
    · intro desc isRoot path m _ h; rw [buildMessage_zero] at h; cases h
    · intro ctx f keys goType isMap isRep hc res h; rw [buildFieldCore_zero] at h; cases h
  | succ n ih =>
    obtain ⟨ihM, ihF⟩ := ih
    constructor
    · intro desc isRoot path m hd h
      rw [buildMessage_succ] at h
      obtain ⟨h1, _, _⟩ := msgStep_built V desc isRoot path _ m (fun x => ptrOKB x = true)
        (fun p => by
          rw [ptrOKB_unfold]
          exact ⟨rfl, by show ptrOKsB [] = true; rw [ptrOKsB]⟩)
        (fun fs hfs x hx => by
          obtain ⟨b, hb, res, hr, hxr⟩ := collect_mem _ desc.fields fs hfs x hx
          obtain ⟨c1, c2⟩ := ihF _ b _ _ _ _ _ res hr
          rw [ptrOKB_unfold]
          exact ⟨c2 (ptrFieldOKb_spec (List.all_eq_true.mp hd b hb) _) x hxr, c1 x hxr⟩) h
      exact (ptrOKsB_iff _).mpr h1
    · intro ctx f keys goType isMap isRep hc res h
      rw [buildFieldCore_succ] at h
      rcases coreStep_ok_inv V req ctx f keys goType isMap isRep hc _ _ res h with
        ⟨_, rfl⟩ | ⟨_, tf, htf, hcase⟩
      · exact ⟨fun x hx => (by cases hx), fun _ x hx => (by cases hx)⟩
      · rcases hcase with ⟨rfl, hm, d, m, hfind, hb, hr⟩ | ⟨rfl, hm, rfl⟩ | ⟨rfl, hk, v, vs, hv, rfl⟩
        · have hS := ihM d false keys.path m (H d (findMessage_mem hfind)) hb
          rcases hr with ⟨hemb, rfl⟩ | ⟨hemb, rfl⟩
          · have hall : ∀ x ∈ spliced goType m, ptrOKB x = true := by
              intro x hx
              rcases spliced_mem goType m x hx with hx | ⟨a, b, y, hy, rfl⟩
              · exact (ptrOKsB_iff _).mp hS x hx
              · exact ptrOKB_mark a b y ((ptrOKsB_iff _).mp hS y hy)
            exact ⟨fun x hx => ((ptrOKB_unfold x).mp (hall x hx)).2, fun _ x hx => ((ptrOKB_unfold x).mp (hall x hx)).1⟩
          · refine ⟨fun x hx => ?_, fun hc' x hx => ?_⟩ <;> (rw [List.mem_singleton] at hx; subst hx)
            · rw [mkNode_sub_none_some]; exact hS
            · exact mkNode_ptr_nonmap _ _ _ _ _ _ _ _ _ (Or.inl hm)
        · refine ⟨fun x hx => ?_, fun hc' x hx => ?_⟩ <;> (rw [List.mem_singleton] at hx; subst hx)
          · rw [mkNode_sub_none_none, ptrOKsB]
          · rcases hc' with ⟨_, hc'⟩ | ⟨hc', _⟩
            · exact mkNode_ptr_nonmap _ _ _ _ _ _ _ _ _ (hc' tf htf)
            · cases hc'
        · refine ⟨fun x hx => ?_, fun hc' x hx => ?_⟩ <;> (rw [List.mem_singleton] at hx; subst hx)
          · rw [mkNode_sub_some]
            exact (ihF ctx f.mapValueField keys _ false false false _ hv).1 v List.mem_cons_self
          · rcases hc' with ⟨hc', _⟩ | ⟨_, hc'⟩
            · cases hc'
            · obtain ⟨tv, htv, hvt⟩ := core_tf V req n ctx f.mapValueField keys _ false false _ rfl hv v List.mem_cons_self
              refine mkNode_ptr_map _ _ _ _ _ _ _ _ _ _ ?_
              rw [hvt]
              exact hc' tv htv

theorem built_ptrOKsB (V : CfgView) (req : Request) (n : Nat) (desc : MsgD) (isRoot : Bool) (path : String) (m : Msg)
    (h : buildMessage n V req desc isRoot path = .ok m) (hd : ptrDescOKb V req desc = true) :
    ptrOKsB m.fields = true := by
  unfold ptrDescOKb at hd
  rw [List.all_eq_true] at hd
  exact (ptr_all V req (fun d hdm => hd d (List.mem_cons_of_mem _ hdm)) n).1 desc isRoot path m
    (hd desc List.mem_cons_self) h


-- ======================================================================================================
-- 7a. readable sufficient conditions for the oneof-branch Boolean (every configuration)
-- ======================================================================================================

def scalarNames : List String :=
  ["double", "float", "int64", "sint64", "sfixed64", "uint64", "fixed64", "int32", "sint32", "sfixed32", "uint32", "fixed32",
   "bool", "string", "bytes"]

theorem scalar_goType_facts : ∀ t ∈ scalarNames,
    isBuiltinType (typAndMod (scalarGoType t)).1 = true ∧ (scalarGoType t).toList.contains '*' = false ∧
    (t == "message" || t == "enum") = false ∧ (t == "timestamp") = false ∧ (t == "duration") = false := by decide

/-- the switch of `GetTerraformType` for a field that is neither time nor duration, as a function of the proto tag -/
def rowFor (tag : String) (r : Generated.TypeRow) : Bool :=
  if r.kind == "time" then false
  else if r.kind == "duration" then false
  else if r.kind == "scalar" || r.kind == "enum" then r.protos.contains tag
  else if r.kind == "message" then tag == "MESSAGE"
  else r.kind == "default"

def scalarRowB (t : String) : Bool :=
  match Generated.typeRows.find? (rowFor (upperOf t)) with
  | none => false
  | some r =>
    !(r.kind == "time") && !(r.kind == "duration") && !(r.kind == "default") && !r.isMessage &&
    (match Generated.bases.find? (·.name == r.base) with
     | none => false
     | some b => !b.isMessage && b.zeroValue != "")

theorem scalar_row_facts : ∀ t ∈ scalarNames, scalarRowB t = true := by decide

/-- a plain single-valued scalar field: one of the 15 scalar types, no cast type, no custom type, no stdtime / stdduration -/
def plainScalarB (f : FieldD) : Bool :=
  scalarNames.contains f.type && f.castType == "" && f.customType == "" && !f.stdTime && !f.stdDuration && f.card == .single

theorem plainScalarB_spec {f : FieldD} (h : plainScalarB f = true) :
    f.type ∈ scalarNames ∧ f.castType = "" ∧ f.customType = "" ∧ f.stdTime = false ∧ f.stdDuration = false ∧ f.card = .single := by
  unfold plainScalarB at h
  simp only [Bool.and_eq_true, List.contains_eq_mem, decide_eq_true_eq, beq_iff_eq, Bool.not_eq_true'] at h
  obtain ⟨⟨⟨⟨⟨h1, h2⟩, h3⟩, h4⟩, h5⟩, h6⟩ := h
  exact ⟨h1, h2, h3, h4, h5, h6⟩

theorem dur_custom (c : String) : (c != "" && "" == c) = false := by
  by_cases h : c = ""
  · subst h; rfl
  · have : ("" == c) = false := by
      simp only [beq_eq_false_iff_ne, ne_eq]
      exact fun e => h e.symm
    rw [this]; simp

theorem goTyD_plainScalar (V : CfgView) (d : MsgD) (f : FieldD) (h : plainScalarB f = true) :
    goTyD V d f = scalarGoType f.type := by
  obtain ⟨ht, hc, hcu, hst, hsd, hcard⟩ := plainScalarB_spec h
  obtain ⟨hb, _, hme, hts, hdu⟩ := scalar_goType_facts f.type ht
  simp only [Bool.or_eq_false_iff] at hme
  have hraw : gogoGoType f = scalarGoType f.type := by
    unfold gogoGoType needsStar FieldD.isMessageType
    simp [hc, hcu, hst, hsd, hcard, hme.1, hme.2, hts, hdu]
  unfold goTyD goTypeOf
  simp only [hc, hcu, hcard, hraw, bne_self_eq_false, Bool.false_eq_true, if_false]
  have hcm : (Card.single == Card.map) = false := rfl
  simp only [hcm, Bool.false_eq_true, if_false]
  unfold prependPackageNameIfMissing
  generalize typAndMod (scalarGoType f.type) = p at hb
  obtain ⟨typ, mod⟩ := p
  simp only at hb ⊢
  rw [hb]
  simp


theorem rowMatches_plainScalar (V : CfgView) (f : FieldD) (h : plainScalarB f = true) :
    rowMatches V f false = rowFor (upperOf f.type) := by
  obtain ⟨ht, hc, hcu, hst, hsd, hcard⟩ := plainScalarB_spec h
  obtain ⟨_, _, hme, hts, hdu⟩ := scalar_goType_facts f.type ht
  simp only [Bool.or_eq_false_iff] at hme
  funext r
  unfold rowMatches rowFor FieldD.isTime FieldD.isDuration FieldD.protoTag
  have e1 : ("" == "time.Time") = false := by decide
  have e2 : ("" == "time.Duration") = false := by decide
  simp only [hst, hsd, hc, hts, hdu, hme.1, e1, e2, dur_custom, Bool.or_false, Bool.false_eq_true, if_false]

theorem tfD_plainScalar (V : CfgView) (d : MsgD) (f : FieldD) (h : plainScalarB f = true) :
    ∃ tf, tfD V d f = .ok tf ∧ tf.isMessage = false ∧ tf.zeroValue ≠ "" := by
  obtain ⟨ht, hc, hcu, hst, hsd, hcard⟩ := plainScalarB_spec h
  have hrow := scalar_row_facts f.type ht
  unfold scalarRowB at hrow
  cases hfind : Generated.typeRows.find? (rowFor (upperOf f.type)) with
  | none => rw [hfind] at hrow; cases hrow
  | some r =>
    rw [hfind] at hrow
    simp only [Bool.and_eq_true, Bool.not_eq_true'] at hrow
    obtain ⟨⟨⟨⟨k1, k2⟩, k3⟩, k4⟩, hb⟩ := hrow
    cases hbf : Generated.bases.find? (fun b => b.name == r.base) with
    | none => rw [hbf] at hb; cases hb
    | some b =>
      rw [hbf] at hb
      simp only [Bool.and_eq_true, Bool.not_eq_true', bne_iff_ne, ne_eq] at hb
      unfold tfD getTerraformType
      have hcm : (f.card == Card.map) = false := by rw [hcard]; rfl
      have hcr : (f.card == Card.repeated) = false := by rw [hcard]; rfl
      simp only [hcm, hcr, rowMatches_plainScalar V f h, hfind, k1, k2, k3, k4, hbf, hc, bne_self_eq_false,
        Bool.false_eq_true, if_false]
      refine ⟨_, rfl, ?_, ?_⟩
      · split <;> (try split) <;> simp [tfTypeOfBase, hb.1]
      · split <;> (try split) <;> simp [tfTypeOfBase, hb.2]


theorem lastModIndex_star (rest : List Char) : ∃ i, lastModIndex ('*' :: rest) = some i := by
  unfold lastModIndex
  simp only
  cases h : ((List.range ('*' :: rest).length).filter (fun i =>
      match ('*' :: rest)[i]? with | some c => c == '[' || c == ']' || c == '*' | none => false)).getLast? with
  | some i => exact ⟨i, rfl⟩
  | none =>
    rw [List.getLast?_eq_none_iff, List.filter_eq_nil_iff] at h
    have := h 0 (List.mem_range.mpr (by simp))
    simp at this

/-- `PrependPackageNameIfMissing` keeps a leading star -/
theorem prepend_star (ov : List (String × String)) (t pkg : String) (rest : List Char) (h : t.toList = '*' :: rest) :
    (prependPackageNameIfMissing ov t pkg).toList.contains '*' = true := by
  have ht : t.toList.contains '*' = true := by rw [h]; simp
  unfold prependPackageNameIfMissing typAndMod
  obtain ⟨i, hi⟩ := lastModIndex_star rest
  rw [h, hi]
  simp only
  split
  · exact ht
  · unfold appendQual
    have hm : ∀ x : String, ((String.ofList (List.take (i + 1) ('*' :: rest))) ++ x).toList.contains '*' = true := by
      intro x
      simp [String.toList_append, List.take_succ_cons]
    split
    · exact hm _
    · simp only [String.append_assoc]
      exact hm _


/-- a plain single-valued message field with a pointer representation: type `message`, no cast / custom type, not
`nullable = false` -/
def plainMessageB (f : FieldD) : Bool :=
  f.type == "message" && f.castType == "" && f.customType == "" && !f.stdTime && !f.stdDuration && f.card == .single &&
    f.nullable != "false"

theorem plainMessageB_spec {f : FieldD} (h : plainMessageB f = true) :
    f.type = "message" ∧ f.castType = "" ∧ f.customType = "" ∧ f.stdTime = false ∧ f.stdDuration = false ∧ f.card = .single ∧
      (f.nullable != "false") = true := by
  unfold plainMessageB at h
  simp only [Bool.and_eq_true, beq_iff_eq, Bool.not_eq_true'] at h
  obtain ⟨⟨⟨⟨⟨⟨h1, h2⟩, h3⟩, h4⟩, h5⟩, h6⟩, h7⟩ := h
  exact ⟨h1, h2, h3, h4, h5, h6, h7⟩

theorem goTyD_plainMessage (V : CfgView) (d : MsgD) (f : FieldD) (h : plainMessageB f = true) :
    (goTyD V d f).toList.contains '*' = true := by
  obtain ⟨ht, hc, hcu, hst, hsd, hcard, hn⟩ := plainMessageB_spec h
  have hraw : gogoGoType f = "*" ++ String.ofList (gogoCamelCase f.typeName.toList) := by
    unfold gogoGoType needsStar FieldD.isMessageType FieldD.isNullableOpt
    simp [hc, hcu, hst, hsd, hcard, ht, hn]
  unfold goTyD goTypeOf
  simp only [hc, hcu, hcard, hraw, bne_self_eq_false, Bool.false_eq_true, if_false]
  have hcm : (Card.single == Card.map) = false := rfl
  simp only [hcm, Bool.false_eq_true, if_false]
  exact prepend_star _ _ _ (gogoCamelCase f.typeName.toList) (by simp [String.toList_append])

def messageRowB : Bool :=
  match Generated.typeRows.find? (rowFor "MESSAGE") with
  | none => false
  | some r =>
    !(r.kind == "time") && !(r.kind == "duration") && !(r.kind == "default") && r.isMessage &&
    (Generated.bases.find? (·.name == r.base)).isSome

theorem message_row_facts : messageRowB = true := by decide

theorem rowMatches_plainMessage (V : CfgView) (f : FieldD) (h : plainMessageB f = true) :
    rowMatches V f false = rowFor "MESSAGE" := by
  obtain ⟨ht, hc, hcu, hst, hsd, hcard, hn⟩ := plainMessageB_spec h
  funext r
  unfold rowMatches rowFor FieldD.isTime FieldD.isDuration FieldD.protoTag
  have e1 : ("" == "time.Time") = false := by decide
  have e2 : ("" == "time.Duration") = false := by decide
  have e3 : ("message" == "timestamp") = false := by decide
  have e4 : ("message" == "duration") = false := by decide
  simp only [hst, hsd, hc, ht, e1, e2, e3, e4, dur_custom, Bool.or_false, Bool.false_eq_true, if_false, beq_self_eq_true,
    Bool.or_true, if_true]

theorem tfD_plainMessage (V : CfgView) (d : MsgD) (f : FieldD) (h : plainMessageB f = true) :
    ∃ tf, tfD V d f = .ok tf ∧ tf.isMessage = true := by
  obtain ⟨ht, hc, hcu, hst, hsd, hcard, hn⟩ := plainMessageB_spec h
  have hrow := message_row_facts
  unfold messageRowB at hrow
  cases hfind : Generated.typeRows.find? (rowFor "MESSAGE") with
  | none => rw [hfind] at hrow; cases hrow
  | some r =>
    rw [hfind] at hrow
    simp only [Bool.and_eq_true, Bool.not_eq_true'] at hrow
    obtain ⟨⟨⟨⟨k1, k2⟩, k3⟩, k4⟩, hb⟩ := hrow
    cases hbf : Generated.bases.find? (fun b => b.name == r.base) with
    | none => rw [hbf] at hb; cases hb
    | some b =>
      unfold tfD getTerraformType
      have hcm : (f.card == Card.map) = false := by rw [hcard]; rfl
      have hcr : (f.card == Card.repeated) = false := by rw [hcard]; rfl
      simp only [hcm, hcr, rowMatches_plainMessage V f h, hfind, k1, k2, k3, k4, hbf, hc, bne_self_eq_false,
        Bool.false_eq_true, if_false, if_true]
      exact ⟨_, rfl, rfl⟩


/-- **the readable condition on a declared field**: a single-valued oneof member is a plain scalar (one of the 15 scalar types; no
cast type, no custom type, no stdtime / stdduration) or a plain message with a pointer representation (type `message`, not
`nullable = false`). In particular: no `Timestamp` / `Duration` member, no `nullable = false` message member, no cast type. -/
def branchReadableB (f : FieldD) : Bool :=
  f.oneof.isNone || !(f.card == .single) || plainScalarB f || plainMessageB f

/-- **the readable condition implies the evaluated one, for every configuration** (import overrides, default package name,
configured time / duration types, duration custom type) -/
theorem branchFieldOKb_of_readable (V : CfgView) (d : MsgD) (f : FieldD) (h : branchReadableB f = true) :
    branchFieldOKb V d f = true := by
  unfold branchReadableB at h
  simp only [Bool.or_eq_true] at h
  unfold branchFieldOKb
  rcases h with ((h | h) | h) | h
  · rw [h]; rfl
  · rw [h]; simp
  · obtain ⟨tf, htf, hm, hz⟩ := tfD_plainScalar V d f h
    obtain ⟨ht, _⟩ := plainScalarB_spec h
    obtain ⟨_, hstar, _⟩ := scalar_goType_facts f.type ht
    rw [htf, goTyD_plainScalar V d f h, hstar]
    simp [hm, hz]
  · obtain ⟨tf, htf, hm⟩ := tfD_plainMessage V d f h
    rw [htf, goTyD_plainMessage V d f h]
    simp [hm]

/-- a plain scalar is not pointer-backed, a plain message is no scalar: `ptrFieldOKb` holds -/
theorem ptrFieldOKb_of_plain (V : CfgView) (d : MsgD) (f : FieldD) (h : plainScalarB f = true ∨ plainMessageB f = true) :
    ptrFieldOKb V d f = true := by
  unfold ptrFieldOKb
  rcases h with h | h
  · obtain ⟨tf, htf, hm, hz⟩ := tfD_plainScalar V d f h
    obtain ⟨ht, _, _, _, _, hcard⟩ := plainScalarB_spec h
    obtain ⟨_, hstar, _⟩ := scalar_goType_facts f.type ht
    have hcm : (f.card == Card.map) = false := by rw [hcard]; rfl
    rw [hcm, htf, goTyD_plainScalar V d f h, hstar]
    simp only [Bool.false_eq_true, if_false, Bool.or_eq_true]
    exact Or.inr rfl
  · obtain ⟨tf, htf, hm⟩ := tfD_plainMessage V d f h
    obtain ⟨_, _, _, _, _, hcard, _⟩ := plainMessageB_spec h
    have hcm : (f.card == Card.map) = false := by rw [hcard]; rfl
    rw [hcm, htf]
    simp [hm]

/-- the readable condition on the request -/
def branchReadableDescOKb (req : Request) (root : MsgD) : Bool :=
  (root :: reqMsgs req).all fun d => d.fields.all branchReadableB

theorem branchDescOKb_of_readable (V : CfgView) (req : Request) (root : MsgD) (h : branchReadableDescOKb req root = true) :
    branchDescOKb V req root = true := by
  unfold branchReadableDescOKb at h
  unfold branchDescOKb
  rw [List.all_eq_true] at h ⊢
  intro d hd
  have := h d hd
  rw [List.all_eq_true] at this ⊢
  exact fun f hf => branchFieldOKb_of_readable V d f (this f hf)

/-- **`branchOKsB` from the readable condition on the request alone, for every configuration** -/
theorem built_branchOKsB_readable (V : CfgView) (req : Request) (n : Nat) (desc : MsgD) (isRoot : Bool) (path : String) (m : Msg)
    (h : buildMessage n V req desc isRoot path = .ok m) (hd : branchReadableDescOKb req desc = true) :
    branchOKsB m.fields = true :=
  built_branchOKsB V req n desc isRoot path m h (branchDescOKb_of_readable V req desc hd)

-- ======================================================================================================
-- 7b. attribute names WITH `name_overrides`: the path-aware list and the walk over the occurrences
-- ======================================================================================================

/-- the name part of the node of the occurrence of `f` in the message context `ctx` (the override is looked up under the keys of
the occurrence: type name and PATH) -/
def preInfoP (V : CfgView) (ctx : MsgCtx) (f : FieldD) : FieldInfo :=
  { name := goNameS f.name, nameSnake := snakeOf V f (keysOf ctx f),
    oneOfName := (match f.oneof with | none => "" | some i => goNameS (ctx.desc.oneofs.getD i "")),
    oneOfType := (match f.oneof with | none => "" | some _ => msgGoType V (ctx.desc.name ++ "_" ++ goNameS f.name)) }

theorem mkNode_keyP (V : CfgView) (ctx : MsgCtx) (f : FieldD) (goType : String) (isMap isRep hc : Bool)
    (tf : TfType) (mapV : Option Field) (nested : Option Msg) :
    keyOf true (mkNode V ctx f (keysOf ctx f) goType isMap isRep hc tf mapV nested).info = preInfoP V ctx f := by
  cases isRep <;> cases mapV <;> (simp only [mkNode, keyOf, preInfoP, if_true]; cases f.oneof <;> rfl)

mutual
/-- `flatPre true` with the path of the occurrence threaded through (an embedded message keeps the path of its parent) -/
def flatPreP (V : CfgView) (req : Request) : Nat → MsgD → String → List FieldInfo
  | 0, _, _ => []
  | n + 1, d, p =>
    if d.fields.isEmpty then [keyOf true (placeholderField "").info] else d.fields.flatMap (blockPreP V req n ⟨d, p⟩)
def blockPreP (V : CfgView) (req : Request) : Nat → MsgCtx → FieldD → List FieldInfo
  | 0, _, _ => []
  | n + 1, ctx, f =>
    if isEmbD V ctx.desc f then
      match req.findMessage f.typeName with
      | some e => (flatPreP V req n e (keysOf ctx f).path).map (markK (goTyD V ctx.desc f))
      | none => []
    else [preInfoP V ctx f]
end

/-- **THE LINK with overrides** (no hypothesis on the configuration) -/
theorem flat_allP (V : CfgView) (req : Request) : ∀ n : Nat,
    (∀ desc isRoot path m, buildMessage n V req desc isRoot path = .ok m →
        (m.fields.map (fun x => keyOf true x.info)).Subperm (flatPreP V req n desc (ctxOf desc isRoot path).path)) ∧
    (∀ ctx f r, fieldCall n V req ctx f = .ok r →
        (r.map (fun x => keyOf true x.info)).Subperm (blockPreP V req n ctx f)) := by
  intro n
  induction n with
  | zero =>
    constructor
    · intro desc isRoot path m h; rw [buildMessage_zero] at h; cases h
    · intro ctx f r h; unfold fieldCall at h; rw [buildFieldCore_zero] at h; cases h
  | succ n ih =>
    obtain ⟨ihM, ihF⟩ := ih
    constructor
    · intro desc isRoot path m h
      rw [buildMessage_succ] at h
      unfold msgStep at h
      cases hemp : desc.fields.isEmpty with
      | true =>
        simp only [hemp, if_true] at h
        injection h with h
        subst h
        rw [flatPreP]
        simp only [hemp, if_true]
        exact List.Subperm.refl _
      | false =>
        simp only [hemp, Bool.false_eq_true, if_false] at h
        cases hcol : collectFields (desc.fields.map fun f => fieldCall n V req (ctxOf desc isRoot path) f) with
        | error e => rw [hcol] at h; simp at h
        | ok fs =>
          rw [hcol] at h
          simp only at h
          injection h with h
          subst h
          rw [flatPreP]
          simp only [hemp, Bool.false_eq_true, if_false]
          have hfs := collect_subperm (fun f => fieldCall n V req (ctxOf desc isRoot path) f) (fun x => keyOf true x.info)
            (blockPreP V req n (ctxOf desc isRoot path)) desc.fields fs hcol (fun b _ r hr => ihF (ctxOf desc isRoot path) b r hr)
          split
          · exact (((sort_perm fs).map _).subperm).trans hfs
          · exact hfs
    · intro ctx f r h
      unfold fieldCall at h
      rw [buildFieldCore_succ] at h
      generalize hmapc : (f.card == .map) = isMap at h
      generalize hrepc : (f.card == .repeated) = isRep at h
      rw [goTypeOf_eq] at h
      have hkey : ∀ tf mapV nested, keyOf true (mkNode V ctx f (keysOf ctx f) (goTyD V ctx.desc f) isMap isRep f.comment.isSome tf mapV nested).info
          = preInfoP V ctx f := fun tf mapV nested => mkNode_keyP _ _ _ _ _ _ _ _ _ _
      rcases coreStep_ok_inv V req ctx f (keysOf ctx f) _ isMap isRep _ _ _ r h with
        ⟨_, rfl⟩ | ⟨_, tf, htf, hcase⟩
      · exact List.nil_subperm
      · have htfD : tfD V ctx.desc f = .ok tf := by
          unfold tfD
          rw [hmapc, hrepc]
          exact getTerraformType_path _ _ _ _ _ _ _ _ htf
        clear h
        rcases hcase with ⟨hm0, hm, d, m, hfind, hb, hr⟩ | ⟨hm0, hm, hr⟩ | ⟨hm0, hk, v, vs, hv, hr⟩
        · subst hm0
          rcases hr with ⟨hemb, hr⟩ | ⟨hemb, hr⟩ <;> rw [hr]
          · have he : isEmbD V ctx.desc f = true := by
              unfold isEmbD
              rw [htfD, hemb, hmapc]; simp [hm]
            rw [blockPreP]
            simp only [he, if_true, hfind]
            rw [spliced_keys]
            exact subperm_map _ (ihM d false _ m hb)
          · have he : isEmbD V ctx.desc f = false := by
              unfold isEmbD
              rw [hemb]; rfl
            rw [blockPreP]
            simp only [he, Bool.false_eq_true, if_false, List.map_cons, List.map_nil, hkey]
            exact List.Subperm.refl _
        · subst hm0
          have he : isEmbD V ctx.desc f = false := by
            unfold isEmbD
            rw [htfD]; simp only [hm, Bool.and_false]
          rw [hr, blockPreP]
          simp only [he, Bool.false_eq_true, if_false, List.map_cons, List.map_nil, hkey]
          exact List.Subperm.refl _
        · subst hm0
          have he : isEmbD V ctx.desc f = false := by
            unfold isEmbD
            rw [hmapc]; simp only [Bool.not_true, Bool.and_false, Bool.false_and]
          rw [hr, blockPreP]
          simp only [he, Bool.false_eq_true, if_false, List.map_cons, List.map_nil, hkey]
          exact List.Subperm.refl _

mutual
/-- **the walk over the occurrences**: `r` holds pairwise on the path-aware list of the message at path `p` (for every fuel up
to `n`), and the same for the message of every field whose type name resolves, at the path of that field -/
def occOK (r : FieldInfo → FieldInfo → Bool) (V : CfgView) (req : Request) : Nat → MsgD → String → Bool
  | 0, _, _ => true
  | n + 1, d, p =>
    pwB r (flatPreP V req (n + 1) d p) && occOK r V req n d p && d.fields.all (occFieldOK r V req n ⟨d, p⟩)
def occFieldOK (r : FieldInfo → FieldInfo → Bool) (V : CfgView) (req : Request) : Nat → MsgCtx → FieldD → Bool
  | 0, _, _ => true
  | n + 1, ctx, f =>
    match req.findMessage f.typeName with
    | some e => occOK r V req n e (keysOf ctx f).path
    | none => true
end

theorem occOK_pred (r : FieldInfo → FieldInfo → Bool) (V : CfgView) (req : Request) (n : Nat) (d : MsgD) (p : String)
    (h : occOK r V req n d p = true) : occOK r V req (n - 1) d p = true := by
  cases n with
  | zero => exact h
  | succ k =>
    rw [occOK] at h
    simp only [Bool.and_eq_true] at h
    exact h.1.2

theorem occFieldOK_spec (r : FieldInfo → FieldInfo → Bool) (V : CfgView) (req : Request) (n : Nat) (ctx : MsgCtx) (f : FieldD)
    (h : occFieldOK r V req n ctx f = true) (e : MsgD) (he : req.findMessage f.typeName = some e) :
    occOK r V req (n - 1) e (keysOf ctx f).path = true := by
  cases n with
  | zero => rw [occOK]
  | succ k =>
    rw [occFieldOK, he] at h
    exact h

/-- **MAIN (pairwise conditions, path-aware)** -/
theorem pairs_allP (r : FieldInfo → FieldInfo → Bool) (hsym : ∀ a b, r a b = r b a)
    (hkey : ∀ a b, r a b = r (keyOf true a) (keyOf true b)) (V : CfgView) (req : Request) : ∀ n : Nat,
    (∀ desc isRoot path m, buildMessage n V req desc isRoot path = .ok m →
        occOK r V req n desc (ctxOf desc isRoot path).path = true → pairOKsB r m.fields = true) ∧
    (∀ ctx f keys goType isMap isRep hasComment res,
        buildFieldCore n V req ctx f keys goType isMap isRep hasComment = .ok res →
        (∀ e, req.findMessage f.typeName = some e → occOK r V req (n - 1) e keys.path = true) →
        ∀ x ∈ res, pairOKB r x = true) := by
  intro n
  induction n with
  | zero =>
    constructor
    · intro desc isRoot path m h; rw [buildMessage_zero] at h; cases h
    · intro ctx f keys goType isMap isRep hc res h; rw [buildFieldCore_zero] at h; cases h
  | succ n ih =>
    obtain ⟨ihM, ihF⟩ := ih
    constructor
    · intro desc isRoot path m h hocc
      rw [occOK] at hocc
      simp only [Bool.and_eq_true, List.all_eq_true] at hocc
      obtain ⟨⟨hp, _⟩, hfields⟩ := hocc
      have hflat := (flat_allP V req (n + 1)).1 desc isRoot path m h
      have hpw : (m.fields.map (fun x => keyOf true x.info)).Pairwise (fun a b => r a b = true) :=
        subperm_pairwise (fun {x y} hxy => by rw [hsym]; exact hxy) hflat ((pwB_iff r _).mp hp)
      rw [List.pairwise_map] at hpw
      rw [buildMessage_succ] at h
      obtain ⟨h1, _, _⟩ := msgStep_built V desc isRoot path _ m (fun x => pairOKB r x = true)
        (fun p => by rw [pairOKB_sub]; show pairOKsB r [] = true; rw [pairOKsB])
        (fun fs hfs x hx => by
          obtain ⟨b, hb, res, hr, hxr⟩ := collect_mem _ desc.fields fs hfs x hx
          exact ihF _ b _ _ _ _ _ res hr (occFieldOK_spec r V req n _ b (hfields b hb)) x hxr) h
      exact pairOKsB_of r m.fields (hpw.imp (fun {a b} hab => by rw [hkey]; exact hab)) h1
    · intro ctx f keys goType isMap isRep hc res h hocc
      rw [buildFieldCore_succ] at h
      rcases coreStep_ok_inv V req ctx f keys goType isMap isRep hc _ _ res h with
        ⟨_, rfl⟩ | ⟨_, tf, htf, hcase⟩
      · intro x hx; cases hx
      · rcases hcase with ⟨rfl, hm, d, m, hfind, hb, hr⟩ | ⟨rfl, hm, rfl⟩ | ⟨rfl, hk, v, vs, hv, rfl⟩
        · have hS := ihM d false keys.path m hb (hocc d hfind)
          rcases hr with ⟨hemb, rfl⟩ | ⟨hemb, rfl⟩
          · intro x hx
            rcases spliced_mem goType m x hx with hx | ⟨a, b, y, hy, rfl⟩
            · exact pairOKsB_mem r _ hS x hx
            · rw [pairOKB_mark]; exact pairOKsB_mem r _ hS y hy
          · intro x hx
            rw [List.mem_singleton] at hx; subst hx
            rw [pairOKB_sub, mkNode_sub_none_some]; exact hS
        · intro x hx
          rw [List.mem_singleton] at hx; subst hx
          rw [pairOKB_sub, mkNode_sub_none_none, pairOKsB]
        · intro x hx
          rw [List.mem_singleton] at hx; subst hx
          have hvS := ihF ctx f.mapValueField keys _ false false false _ hv
            (fun e he => occOK_pred r V req _ e _ (hocc e he)) v List.mem_cons_self
          rw [pairOKB_sub] at hvS
          rw [pairOKB_sub, mkNode_sub_some]; exact hvS

/-- **descriptor condition for `namesOKsB`, `name_overrides` included**: the walk over the occurrences from the root (path = its
name), attribute names computed with the overrides of the occurrence -/
def snakePathDescOKb (V : CfgView) (req : Request) (N : Nat) (root : MsgD) : Bool := occOK rSnake V req N root root.name

theorem built_namesOKsB_path (V : CfgView) (req : Request) (n : Nat) (desc : MsgD) (m : Msg)
    (h : buildMessage n V req desc true "" = .ok m) (hd : snakePathDescOKb V req n desc = true) :
    namesOKsB m.fields = true :=
  namesOKsB_of_pair _ ((pairs_allP rSnake rSnake_sym rSnake_key V req n).1 desc true "" m h hd)

-- ======================================================================================================
-- 8. the Booleans on request and configuration; headline corollaries
-- ======================================================================================================

/-- attribute names (for `namesOKsB`) -/
def attrNamesDescOKb (cfg : Config) (req : Request) (desc : MsgD) : Bool :=
  snakeDescOKb (viewOf cfg) req (defaultFuel req) desc

/-- Go names: separation at every level (for `sepOKsB`) and hygiene of the root (for `hygieneB`) -/
def goNamesDescOKb (cfg : Config) (req : Request) (desc : MsgD) : Bool :=
  sepDescOKb (viewOf cfg) req (defaultFuel req) desc && hygDescB (viewOf cfg) req (defaultFuel req) desc

/-- **`namesDescOKb`**: attribute names and Go names -/
def namesDescOKb (cfg : Config) (req : Request) (desc : MsgD) : Bool :=
  attrNamesDescOKb cfg req desc && goNamesDescOKb cfg req desc

/-- oneof branches and pointer-backed scalars (for `branchOKsB`, `ptrOKsB`) -/
def branchPtrDescOKb (cfg : Config) (req : Request) (desc : MsgD) : Bool :=
  branchDescOKb (viewOf cfg) req desc && ptrDescOKb (viewOf cfg) req desc

/-- **the IR Booleans of a built root from the descriptor Booleans** (exclusions, custom types, embedded messages, sorting
allowed; `name_overrides` only matter for the attribute names) -/
theorem root_booleans (cfg : Config) (req : Request) (desc : MsgD) (m : Msg) (hb : buildRoot cfg req desc = .ok (some m)) :
    (cfg.nameOverrides = [] → attrNamesDescOKb cfg req desc = true → namesOKsB m.fields = true) ∧
    (goNamesDescOKb cfg req desc = true → sepOKsB m.fields = true ∧ hygieneB m = true) ∧
    (branchPtrDescOKb cfg req desc = true → branchOKsB m.fields = true ∧ ptrOKsB m.fields = true) := by
  have h := buildRoot_inv hb
  refine ⟨fun hov hd => built_namesOKsB _ req (viewOf_noNameOverride cfg hov) _ desc true "" m h hd, fun hd => ?_,
    fun hd => ?_⟩
  · unfold goNamesDescOKb at hd
    rw [Bool.and_eq_true] at hd
    exact ⟨built_sepOKsB _ req _ desc true "" m h hd.1, built_hygieneB _ req _ desc true "" m h hd.2⟩
  · unfold branchPtrDescOKb at hd
    rw [Bool.and_eq_true] at hd
    exact ⟨built_branchOKsB _ req _ desc true "" m h hd.1, built_ptrOKsB _ req _ desc true "" m h hd.2⟩

/-- `rtBs` of a built root from the descriptor -/
theorem root_rtBs (cfg : Config) (req : Request) (desc : MsgD) (m : Msg) (hb : buildRoot cfg req desc = .ok (some m))
    (hg : goNamesDescOKb cfg req desc = true) (hbp : branchPtrDescOKb cfg req desc = true) :
    rtBs m.fields = true := by
  obtain ⟨_, h2, h3⟩ := root_booleans cfg req desc m hb
  exact (rtBs_iff _).mpr ⟨(h3 hbp).1, (h3 hbp).2, (h2 hg).1⟩

/-- **C03 from the descriptor**: every hypothesis is a condition on the configuration (`ConfigTypesAgree`, no exclusions, no
configured custom types, no name overrides) or a decidable Boolean on request and configuration (`reqOKb`, `attrNamesDescOKb`),
or the typing of the struct value -/
theorem C03_desc_root (cfg : Config) (req : Request) (desc : MsgD) (m : Msg) (hb : buildRoot cfg req desc = .ok (some m))
    (hc : ConfigTypesAgree (viewOf cfg)) (hx : cfg.excludeFields = []) (hcu : cfg.customTypes = [])
    (hov : cfg.nameOverrides = []) (hreq : reqOKb req desc = true) (hn : attrNamesDescOKb cfg req desc = true)
    (obj : GoVal) (hv : ValOKs m.fields obj) :
    ∃ r as, copyTo m obj (.obj false false none (some (attrTypesOf m))) = .ok r ∧ r.diags = [] ∧
      r.tf = .obj false false (some as) (some (attrTypesOf m)) ∧ rendersFields m.fields obj as = true :=
  C03_built_root_desc cfg req desc m hb hc hx hcu hreq ((root_booleans cfg req desc m hb).1 hov hn) obj hv

/-- … with exclusions and configured custom types allowed: the gap stays a Boolean on the IR -/
theorem C03_desc_root_gap (cfg : Config) (req : Request) (desc : MsgD) (m : Msg) (hb : buildRoot cfg req desc = .ok (some m))
    (hc : ConfigTypesAgree (viewOf cfg)) (hov : cfg.nameOverrides = []) (hg : gapFreeBs m.fields = true)
    (hn : attrNamesDescOKb cfg req desc = true) (obj : GoVal) (hv : ValOKs m.fields obj) :
    ∃ r as, copyTo m obj (.obj false false none (some (attrTypesOf m))) = .ok r ∧ r.diags = [] ∧
      r.tf = .obj false false (some as) (some (attrTypesOf m)) ∧ rendersFields m.fields obj as = true :=
  C03_built_root cfg req desc m hb hc hg ((root_booleans cfg req desc m hb).1 hov hn) obj hv

/-- **C04 from the descriptor**: `BuiltRT.C04_built_root_typed` with `gapFreeBs`, `namesOKsB`, `rtBs` replaced by conditions on
request and configuration -/
theorem C04_desc_root_typed (ov : List (String × String)) (cfg : Config) (req : Request) (desc : MsgD) (m : Msg)
    (hb : buildRoot cfg req desc = .ok (some m))
    (hc : ConfigTypesAgree (viewOf cfg)) (hcc : ConfigCastsAgree (viewOf cfg))
    (hx : cfg.excludeFields = []) (hcu : cfg.customTypes = []) (hov : cfg.nameOverrides = [])
    (hreq : reqOKb req desc = true) (hn : namesDescOKb cfg req desc = true) (hbp : branchPtrDescOKb cfg req desc = true)
    (obj : GoVal) (hv : ValOKs m.fields obj) (hrv : RTVals m.fields obj) :
    ∃ r b, copyTo m obj (.obj false false none (some (attrTypesOf m))) = .ok r ∧ r.diags = [] ∧
      copyFrom ov m r.tf (.struct []) = .ok b ∧ b.diags = [] ∧ c04Check m obj b.obj = true := by
  unfold namesDescOKb at hn
  rw [Bool.and_eq_true] at hn
  exact C04_built_root_typed ov cfg req desc m hb hc hcc
    (built_gapFree _ _ req desc true "" m (buildRoot_inv hb) (viewOf_noExclusion cfg hx) (viewOf_noCustom cfg hcu) hreq)
    ((root_booleans cfg req desc m hb).1 hov hn.1) (root_rtBs cfg req desc m hb hn.2 hbp) obj hv hrv

/-- … with exclusions and configured custom types allowed: the gap stays a Boolean on the IR -/
theorem C04_desc_root_typed_gap (ov : List (String × String)) (cfg : Config) (req : Request) (desc : MsgD) (m : Msg)
    (hb : buildRoot cfg req desc = .ok (some m))
    (hc : ConfigTypesAgree (viewOf cfg)) (hcc : ConfigCastsAgree (viewOf cfg)) (hov : cfg.nameOverrides = [])
    (hg : gapFreeBs m.fields = true) (hn : namesDescOKb cfg req desc = true) (hbp : branchPtrDescOKb cfg req desc = true)
    (obj : GoVal) (hv : ValOKs m.fields obj) (hrv : RTVals m.fields obj) :
    ∃ r b, copyTo m obj (.obj false false none (some (attrTypesOf m))) = .ok r ∧ r.diags = [] ∧
      copyFrom ov m r.tf (.struct []) = .ok b ∧ b.diags = [] ∧ c04Check m obj b.obj = true := by
  unfold namesDescOKb at hn
  rw [Bool.and_eq_true] at hn
  exact C04_built_root_typed ov cfg req desc m hb hc hcc hg
    ((root_booleans cfg req desc m hb).1 hov hn.1) (root_rtBs cfg req desc m hb hn.2 hbp) obj hv hrv

/-- **C05 from the descriptor**: `BuiltFrom.C05_built_root_prior_independent` with `hygieneB` replaced by the condition on request
and configuration (exclusions, custom types and name overrides allowed) -/
theorem C05_desc_root_prior_independent (ov : List (String × String)) (cfg : Config) (req : Request) (desc : MsgD) (m : Msg)
    (hb : buildRoot cfg req desc = .ok (some m)) (hc : ConfigTypesAgree (viewOf cfg))
    (hh : goNamesDescOKb cfg req desc = true)
    (tf : TfVal) (p1 p2 : List (String × GoVal)) (hw1 : PriorWF m p1) (hw2 : PriorWF m p2) :
    ((∃ r, copyFrom ov m tf (.struct p1) = .ok r) ↔ (∃ r, copyFrom ov m tf (.struct p2) = .ok r)) ∧
    (∀ r1 r2, copyFrom ov m tf (.struct p1) = .ok r1 → copyFrom ov m tf (.struct p2) = .ok r2 →
      PriorIndepRes m (attrsOf tf) p1 p2 r1 r2) ∧
    GroupsListed m :=
  C05_built_root_prior_independent ov cfg req desc m hb hc ((root_booleans cfg req desc m hb).2.1 hh).2 tf p1 p2 hw1 hw2

/-- … for every message `buildRoots` emits -/
theorem C04_desc_roots_typed (ov : List (String × String)) (cfg : Config) (req : Request) (m : Msg)
    (hm : m ∈ (buildRoots cfg req).1)
    (hc : ConfigTypesAgree (viewOf cfg)) (hcc : ConfigCastsAgree (viewOf cfg))
    (hx : cfg.excludeFields = []) (hcu : cfg.customTypes = []) (hov : cfg.nameOverrides = [])
    (hall : ∀ d ∈ req.allFiles.flatMap (·.messages),
      reqOKb req d = true ∧ namesDescOKb cfg req d = true ∧ branchPtrDescOKb cfg req d = true)
    (obj : GoVal) (hv : ValOKs m.fields obj) (hrv : RTVals m.fields obj) :
    ∃ r b, copyTo m obj (.obj false false none (some (attrTypesOf m))) = .ok r ∧ r.diags = [] ∧
      copyFrom ov m r.tf (.struct []) = .ok b ∧ b.diags = [] ∧ c04Check m obj b.obj = true := by
  obtain ⟨d, hd, hb⟩ := PGT.Props.C18.C18_failed_root_not_emitted cfg req m hm
  exact C04_desc_root_typed ov cfg req d m hb hc hcc hx hcu hov (hall d hd).1 (hall d hd).2.1 (hall d hd).2.2 obj hv hrv

-- with `name_overrides` ---------------------------------------------------------------------------------------

/-- attribute names, `name_overrides` included (for `namesOKsB`; every configuration) -/
def attrNamesPathDescOKb (cfg : Config) (req : Request) (desc : MsgD) : Bool :=
  snakePathDescOKb (viewOf cfg) req (defaultFuel req) desc

theorem root_namesOKsB_path (cfg : Config) (req : Request) (desc : MsgD) (m : Msg) (hb : buildRoot cfg req desc = .ok (some m))
    (hn : attrNamesPathDescOKb cfg req desc = true) : namesOKsB m.fields = true :=
  built_namesOKsB_path _ req _ desc m (buildRoot_inv hb) hn

/-- **C03 from the descriptor, every configuration without exclusions / configured custom types** (`name_overrides` allowed) -/
theorem C03_desc_root_overrides (cfg : Config) (req : Request) (desc : MsgD) (m : Msg)
    (hb : buildRoot cfg req desc = .ok (some m))
    (hc : ConfigTypesAgree (viewOf cfg)) (hx : cfg.excludeFields = []) (hcu : cfg.customTypes = [])
    (hreq : reqOKb req desc = true) (hn : attrNamesPathDescOKb cfg req desc = true)
    (obj : GoVal) (hv : ValOKs m.fields obj) :
    ∃ r as, copyTo m obj (.obj false false none (some (attrTypesOf m))) = .ok r ∧ r.diags = [] ∧
      r.tf = .obj false false (some as) (some (attrTypesOf m)) ∧ rendersFields m.fields obj as = true :=
  C03_built_root_desc cfg req desc m hb hc hx hcu hreq (root_namesOKsB_path cfg req desc m hb hn) obj hv

/-- **C04 from the descriptor, every configuration without exclusions / configured custom types** (`name_overrides` allowed) -/
theorem C04_desc_root_typed_overrides (ov : List (String × String)) (cfg : Config) (req : Request) (desc : MsgD) (m : Msg)
    (hb : buildRoot cfg req desc = .ok (some m))
    (hc : ConfigTypesAgree (viewOf cfg)) (hcc : ConfigCastsAgree (viewOf cfg))
    (hx : cfg.excludeFields = []) (hcu : cfg.customTypes = [])
    (hreq : reqOKb req desc = true) (hn : attrNamesPathDescOKb cfg req desc = true)
    (hg : goNamesDescOKb cfg req desc = true) (hbp : branchPtrDescOKb cfg req desc = true)
    (obj : GoVal) (hv : ValOKs m.fields obj) (hrv : RTVals m.fields obj) :
    ∃ r b, copyTo m obj (.obj false false none (some (attrTypesOf m))) = .ok r ∧ r.diags = [] ∧
      copyFrom ov m r.tf (.struct []) = .ok b ∧ b.diags = [] ∧ c04Check m obj b.obj = true :=
  C04_built_root_typed ov cfg req desc m hb hc hcc
    (built_gapFree _ _ req desc true "" m (buildRoot_inv hb) (viewOf_noExclusion cfg hx) (viewOf_noCustom cfg hcu) hreq)
    (root_namesOKsB_path cfg req desc m hb hn) (root_rtBs cfg req desc m hb hg hbp) obj hv hrv

/-- … and with exclusions / configured custom types: the gap stays a Boolean on the IR; no hypothesis on the configuration
beyond the agreement of the configured time / duration types -/
theorem C04_desc_root_typed_overrides_gap (ov : List (String × String)) (cfg : Config) (req : Request) (desc : MsgD) (m : Msg)
    (hb : buildRoot cfg req desc = .ok (some m))
    (hc : ConfigTypesAgree (viewOf cfg)) (hcc : ConfigCastsAgree (viewOf cfg))
    (hgap : gapFreeBs m.fields = true) (hn : attrNamesPathDescOKb cfg req desc = true)
    (hg : goNamesDescOKb cfg req desc = true) (hbp : branchPtrDescOKb cfg req desc = true)
    (obj : GoVal) (hv : ValOKs m.fields obj) (hrv : RTVals m.fields obj) :
    ∃ r b, copyTo m obj (.obj false false none (some (attrTypesOf m))) = .ok r ∧ r.diags = [] ∧
      copyFrom ov m r.tf (.struct []) = .ok b ∧ b.diags = [] ∧ c04Check m obj b.obj = true :=
  C04_built_root_typed ov cfg req desc m hb hc hcc hgap
    (root_namesOKsB_path cfg req desc m hb hn) (root_rtBs cfg req desc m hb hg hbp) obj hv hrv

-- ======================================================================================================
-- 9. sanity, witnesses
-- ======================================================================================================

namespace Sanity
open PGT.Proofs.BuiltWF.Sanity

/-- the flattened Go names of BuiltWF's 15-attribute root: the members of `V` (embedded by value) and of `P` (embedded by pointer,
marked with the short type name `P`) are listed in place -/
theorem flat_root : (flatPre false (viewOf cfg) req (defaultFuel req) dR).map
      (fun k => (k.name, k.oneOfName, k.parentIsOptionalEmbed, k.parentIsOptionalEmbedFieldName)) =
    [("S", "", false, ""), ("Ns", "", false, ""), ("En", "", false, ""), ("By", "", false, ""), ("T", "", false, ""),
     ("N", "", false, ""), ("E", "", false, ""), ("Ls", "", false, ""), ("Lm", "", false, ""), ("Sm", "", false, ""),
     ("Vs", "", false, ""), ("Vt", "", false, ""), ("Pq", "", true, "P"), ("O1", "Choice", false, ""),
     ("O2", "Choice", false, "")] := by decide +kernel

/-- **all descriptor Booleans hold on BuiltWF's `Sanity` request** -/
theorem attrNames : attrNamesDescOKb cfg req dR = true := by decide +kernel
theorem attrNamesPath : attrNamesPathDescOKb cfg req dR = true := by decide +kernel
theorem goNames : goNamesDescOKb cfg req dR = true := by decide +kernel
theorem branchPtr : branchPtrDescOKb cfg req dR = true := by decide +kernel
/-- … and the readable branch condition (a Boolean on the request alone) -/
theorem branchReadable : branchReadableDescOKb req dR = true := by decide
theorem names : namesDescOKb cfg req dR = true := by
  unfold namesDescOKb; rw [attrNames, goNames]; rfl

/-- **C04 on the sanity root from the descriptor alone** (and on the concrete value of BuiltRT's sanity section) -/
theorem C04_desc_sanity (ov : List (String × String)) (m : Msg) (hb : buildRoot cfg req dR = .ok (some m))
    (obj : GoVal) (hv : ValOKs m.fields obj) (hrv : RTVals m.fields obj) :
    ∃ r b, copyTo m obj (.obj false false none (some (attrTypesOf m))) = .ok r ∧ r.diags = [] ∧
      copyFrom ov m r.tf (.struct []) = .ok b ∧ b.diags = [] ∧ c04Check m obj b.obj = true :=
  C04_desc_root_typed ov cfg req dR m hb cta (configCastsAgree_of_b cfg BuiltRT.Sanity.cfgCasts) rfl rfl rfl reqOK names
    branchPtr obj hv hrv

theorem C03_desc_sanity (m : Msg) (hb : buildRoot cfg req dR = .ok (some m)) (obj : GoVal) (hv : ValOKs m.fields obj) :
    ∃ r as, copyTo m obj (.obj false false none (some (attrTypesOf m))) = .ok r ∧ r.diags = [] ∧
      r.tf = .obj false false (some as) (some (attrTypesOf m)) ∧ rendersFields m.fields obj as = true :=
  C03_desc_root cfg req dR m hb cta rfl rfl rfl reqOK attrNames obj hv

theorem C05_desc_sanity (ov : List (String × String)) (m : Msg) (hb : buildRoot cfg req dR = .ok (some m))
    (tf : TfVal) (p1 p2 : List (String × GoVal)) (hw1 : PriorWF m p1) (hw2 : PriorWF m p2) :
    ((∃ r, copyFrom ov m tf (.struct p1) = .ok r) ↔ (∃ r, copyFrom ov m tf (.struct p2) = .ok r)) ∧
    (∀ r1 r2, copyFrom ov m tf (.struct p1) = .ok r1 → copyFrom ov m tf (.struct p2) = .ok r2 →
      PriorIndepRes m (attrsOf tf) p1 p2 r1 r2) ∧
    GroupsListed m :=
  C05_desc_root_prior_independent ov cfg req dR m hb cta goNames tf p1 p2 hw1 hw2

end Sanity

namespace Witness
open PGT.Proofs.BuiltRT.Witness

/-- **the witnesses of BuiltRT are rejected**: b1 – b3 (Timestamp member, stdtime member, message member with nullable = false) by
`branchDescOKb`, b4 (cast type `*X`) by `ptrDescOKb`, b5 / b6 (field named like a holder, two proto names with one Go name) by
`sepDescOKb` -/
theorem builtRT_rejected :
    branchDescOKb (viewOf cfgT) (reqOf [dB1]) dB1 = false ∧
    branchDescOKb (viewOf cfgT) (reqOf [dB2]) dB2 = false ∧
    branchDescOKb (viewOf {}) (reqOf [dB3, BuiltRT.Witness.dL]) dB3 = false ∧
    ptrDescOKb (viewOf {}) (reqOf [dB4]) dB4 = false ∧
    sepDescOKb (viewOf {}) (reqOf [dB5]) (defaultFuel (reqOf [dB5])) dB5 = false ∧
    sepDescOKb (viewOf {}) (reqOf [dB6]) (defaultFuel (reqOf [dB6])) dB6 = false := by decide +kernel

/-- b1 – b3 are rejected by the readable condition too (a Timestamp member, a stdtime member, a `nullable = false` message) -/
theorem builtRT_rejected_readable :
    branchReadableDescOKb (reqOf [dB1]) dB1 = false ∧ branchReadableDescOKb (reqOf [dB2]) dB2 = false ∧
    branchReadableDescOKb (reqOf [dB3, BuiltRT.Witness.dL]) dB3 = false := by decide

/-- … and each fails only the Boolean of its own defect -/
theorem builtRT_others :
    ptrDescOKb (viewOf cfgT) (reqOf [dB1]) dB1 = true ∧
    branchDescOKb (viewOf {}) (reqOf [dB4]) dB4 = true ∧
    branchPtrDescOKb {} (reqOf [dB5]) dB5 = true ∧
    attrNamesDescOKb {} (reqOf [dB6]) dB6 = true := by decide +kernel

open PGT.Proofs.BuiltFrom.Witness in
/-- **the witnesses of BuiltFrom are rejected** by `hygDescB`: empty holder name, field named like a holder, embedded-by-pointer
message whose short type name is a holder, field named like that short type name, promoted group named like it, two children
with one Go name -/
theorem builtFrom_rejected :
    hygDescB (viewOf {}) r1 (defaultFuel r1) d1 = false ∧
    hygDescB (viewOf {}) r2 (defaultFuel r2) d2 = false ∧
    hygDescB (viewOf {}) r3 (defaultFuel r3) d3 = false ∧
    hygDescB (viewOf {}) r4 (defaultFuel r4) d4 = false ∧
    hygDescB (viewOf {}) r5 (defaultFuel r5) d5 = false ∧
    hygDescB (viewOf {}) r6 (defaultFuel r6) d6 = false := by decide +kernel

/-- **`name_overrides` are outside `attrNamesDescOKb`**: the attribute name of a node is then `snakeOf` of the keys of the
occurrence, which contain its PATH; the statement without `cfg.nameOverrides = []` … -/
def attrNames_full : Prop :=
  ∀ (cfg : Config) (req : Request) (desc : MsgD) (m : Msg), buildRoot cfg req desc = .ok (some m) →
    attrNamesDescOKb cfg req desc = true → namesOKsB m.fields = true

def dN : MsgD := { name := "W", fields := [{ name := "a", type := "string" }, { name := "b", type := "string" }] }
def rN : Request := reqOf [dN]
def cN : Config := { types := ["W"], nameOverrides := [("W.b", "a")] }

theorem wN : attrNamesDescOKb cN rN dN = true ∧
    (buildRoot cN rN dN).toOption.map (fun o => o.map (fun m => (m.fields.map (·.info.nameSnake), namesOKsB m.fields))) =
      some (some (["a", "a"], false)) := by decide +kernel

/-- the path-aware Boolean rejects it … -/
theorem wN_path : attrNamesPathDescOKb cN rN dN = false := by decide +kernel

/-- … and accepts a descriptor whose clash (`foo_bar`, `fooBar`: one snake-cased name) an override repairs; the Boolean without
overrides cannot see that -/
def dN2 : MsgD := { name := "W", fields := [{ name := "foo_bar", type := "string" }, { name := "fooBar", type := "int32" }] }
def cN2 : Config := { types := ["W"], nameOverrides := [("W.fooBar", "other")] }
theorem wN2 : attrNamesPathDescOKb cN2 (reqOf [dN2]) dN2 = true ∧ attrNamesDescOKb cN2 (reqOf [dN2]) dN2 = false ∧
    (buildRoot cN2 (reqOf [dN2]) dN2).toOption.map (fun o => o.map (fun m => (m.fields.map (·.info.nameSnake), namesOKsB m.fields))) =
      some (some (["foo_bar", "other"], true)) := by decide +kernel

/-- … is **false**: an override maps `b` to the attribute name of `a` -/
theorem attrNames_full_false : ¬ attrNames_full := by
  intro h
  cases hb : buildRoot cN rN dN with
  | error e =>
    have := wN.2
    rw [hb] at this
    cases this
  | ok o =>
    cases o with
    | none =>
      have := wN.2
      rw [hb] at this
      cases this
    | some m =>
      have h1 := h cN rN dN m hb wN.1
      have := wN.2
      rw [hb] at this
      simp only [Except.toOption, Option.map_some, Option.some.injEq, Prod.mk.injEq] at this
      rw [h1] at this
      exact absurd this.2 (by decide)

end Witness

end PGT.Proofs.DescOK

section
open PGT.Proofs.DescOK
#print axioms flat_all
#print axioms pairs_all
#print axioms built_namesOKsB
#print axioms built_sepOKsB
#print axioms built_hygieneB
#print axioms built_branchOKsB
#print axioms built_ptrOKsB
#print axioms root_booleans
#print axioms C03_desc_root
#print axioms C04_desc_root_typed
#print axioms C04_desc_roots_typed
#print axioms C05_desc_root_prior_independent
#print axioms branchFieldOKb_of_readable
#print axioms built_branchOKsB_readable
#print axioms ptrFieldOKb_of_plain
#print axioms flat_allP
#print axioms pairs_allP
#print axioms C03_desc_root_overrides
#print axioms C04_desc_root_typed_overrides
#print axioms Sanity.C04_desc_sanity
#print axioms Witness.builtRT_rejected
#print axioms Witness.builtFrom_rejected
#print axioms Witness.attrNames_full_false
end
