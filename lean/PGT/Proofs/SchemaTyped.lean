import PGT.Proofs.ToAll
import PGT.Proofs.ToRender
import PGT.Proofs.ToTotal
import PGT.Model.Schema
import PGT.Props.C03
import PGT.Props.C20
import PGT.Props.C06
import PGT.Props.C04
/-
C03 / C20 / C04 / C06 for the *schema-typed* empty target, literally: `atys = attrTypesOf m`.

`ToOK` (ToAll.lean) mixes (i) well-formedness of the IR node, (ii) "the attribute has its type in the target and it is the
right one", (iii) typing of the struct value. Here the three are separated:

* `IRWF` / `IRWFs`   – (i): node-level facts only (no value, no attribute type), plus pairwise distinct `nameSnake` per level.
                        The kind equation `vkindOf info.tf.elemValueType = …` is *not* assumed: the node says "the
                        (ElemType, ElemValueType) pair of my `tf` record is a row of the regenerated type table" (`ScalarTf`,
                        `MessageTf`), and the agreement of `tkindOf ElemType` (what the schema declares, `primTyOf`) with
                        `vkindOf ElemValueType` (what CopyTo asserts) is proved for every row of the table by `decide`
                        (`table_agree`, `table_scalar`, `table_message`).
* `ValOK` / `ValOKs`  – (iii): typing of the struct value, through nested messages, list elements and map values.
* (ii) is discharged from the schema: `lookup_tysOf` (`schema_lookup`), `schemaField_ty` and the main theorem `toOKs_of_schema`.

Results: `toOKs_of_schema`, `toOKs_schema_iff` (on a well-formed IR, `ToOKs` against the schema's types ⇔ `ValOKs`),
`C03_schema_typed`, `C20_schema_typed`, `C04_schema_typed` (+ the `…_full_…` shapes), `tysOK_of_schema`, `C06_schema_typed`
(every struct value). `getTerraformType_origin` ties `ScalarTf` / `MessageTf` to the model of `GetTerraformType`; `irwfsB` is
an executable form of `IRWFs` (sound: `irwfs_of_b`). Section 7: a concrete message and value (non-vacuity).
Finding: none – no row of the table disagrees; the `time` / `duration` rows have no base record, their types come from the
configuration and their agreement is the hypothesis `ConfigAgrees`.
-/
namespace PGT.SchemaTyped
open PGT PGT.Spec

-- ======================================================================================================
-- 0. the regenerated type table: the schema's type and the value type CopyTo asserts agree on every row
-- ======================================================================================================

def isPrimKind : VKind → Bool
  | .prim _ => true
  | _ => false

theorem isPrimKind_iff (v : VKind) : isPrimKind v = true ↔ ∃ k, v = .prim k := by
  cases v <;> simp [isPrimKind]

/-- **agreement, every row**: for every row of the switch of `GetTerraformType` that has a base record, the kind of the
type the schema declares (`tkindOf ElemType`, the input of `primTyOf`) is the kind of the value type the emitted CopyTo
asserts (`vkindOf ElemValueType`). No row disagrees. -/
theorem table_agree :
    ∀ r ∈ Generated.typeRows, ∀ b ∈ Generated.bases, b.name = r.base →
      tkindOf b.elemType = vkindOf b.elemValueType := by
  decide

/-- the rows that are not the message row are scalar: their value type is one of the six primitive value structs -/
theorem table_scalar :
    ∀ r ∈ Generated.typeRows, ∀ b ∈ Generated.bases, b.name = r.base → r.isMessage = false →
      isPrimKind (vkindOf b.elemValueType) = true := by
  decide

/-- the message row is `types.Object` / `types.ObjectType` -/
theorem table_message :
    ∀ r ∈ Generated.typeRows, ∀ b ∈ Generated.bases, b.name = r.base → r.isMessage = true →
      vkindOf b.elemValueType = .obj ∧ tkindOf b.elemType = .obj := by
  decide

/-- the same agreement for the `Type` / `ValueType` columns of the base records (not needed below; completeness) -/
theorem table_agree_type :
    ∀ b ∈ Generated.bases, tkindOf b.type = vkindOf b.valueType := by
  decide

/-- the rows of the table without a base record are exactly `time`, `duration` (types come from the configuration) and
`default` (an error) -/
theorem table_rows_without_base :
    (Generated.typeRows.filter fun r => !(Generated.bases.any fun b => b.name == r.base)).map (·.kind) =
      ["time", "duration", "default"] := by
  decide

/-- `(et, evt)` is the (`ElemType`, `ElemValueType`) pair `GetTerraformType` copies from the base record of a row of the
regenerated table whose message flag is `isMsg` -/
def FromTable (isMsg : Bool) (et evt : String) : Prop :=
  ∃ r ∈ Generated.typeRows, ∃ b ∈ Generated.bases, b.name = r.base ∧ r.isMessage = isMsg ∧
    et = b.elemType ∧ evt = b.elemValueType

/-- a configured `time_type` / `duration_type` (`tfTypeOfConfig`: `ElemType := s.type`, `ElemValueType := s.valueType`)
whose two names denote the same primitive kind. The table has no base for the `time` / `duration` rows, so for them the
agreement is a hypothesis on the configuration. -/
def ConfigAgrees (s : SchemaTypeC) : Prop := ∃ k, tkindOf s.type = .prim k ∧ vkindOf s.valueType = .prim k

/-- the `tf` record of a scalar-valued node: a non-message row of the table, or a configured time / duration type -/
def ScalarTf (tf : TfType) : Prop :=
  FromTable false tf.elemType tf.elemValueType ∨
  ∃ s : SchemaTypeC, ConfigAgrees s ∧ tf.elemType = s.type ∧ tf.elemValueType = s.valueType

/-- the `tf` record of a message-valued node: the message row of the table -/
def MessageTf (tf : TfType) : Prop := FromTable true tf.elemType tf.elemValueType

theorem primTyOf_prim (et : String) (k : PrimK) (h : tkindOf et = .prim k) : primTyOf et = .prim k := by
  simp [primTyOf, h]

/-- **the bridge**: on a scalar node the schema declares `prim k` exactly when CopyTo asserts the value struct of kind `k` -/
theorem scalarTf_bridge (tf : TfType) (h : ScalarTf tf) :
    ∃ k, vkindOf tf.elemValueType = .prim k ∧ primTyOf tf.elemType = .prim k := by
  rcases h with ⟨r, hr, b, hb, hn, hm, het, hevt⟩ | ⟨s, ⟨k, hk1, hk2⟩, het, hevt⟩
  · obtain ⟨k, hk⟩ := (isPrimKind_iff _).1 (table_scalar r hr b hb hn hm)
    refine ⟨k, by rw [hevt, hk], primTyOf_prim _ _ ?_⟩
    rw [het, table_agree r hr b hb hn, hk]
  · exact ⟨k, by rw [hevt, hk2], primTyOf_prim _ _ (by rw [het, hk1])⟩

theorem messageTf_bridge (tf : TfType) (h : MessageTf tf) : vkindOf tf.elemValueType = .obj := by
  obtain ⟨r, hr, b, hb, hn, hm, _, hevt⟩ := h
  rw [hevt]
  exact (table_message r hr b hb hn hm).1

-- where the `tf` records come from: `GetTerraformType` (Build.lean) produces exactly `FromTable` / configured pairs

theorem bases_not_message : ∀ b ∈ Generated.bases, b.isMessage = false := by decide

/-- **`GetTerraformType` and the table**: whatever record it returns, its (`ElemType`, `ElemValueType`) pair is the pair of the
base record of a row of the regenerated table, with the row's message flag, or the pair of the configured time / duration type.
(The statements after the switch only change `Type`, `ValueType`, `ValueCastFromType`.) -/
theorem getTerraformType_origin (cfg : CfgView) (f : FieldD) (isMap isRep : Bool) (goType path : String) (t : TfType)
    (h : getTerraformType cfg f isMap isRep goType path = .ok t) :
    FromTable t.isMessage t.elemType t.elemValueType ∨
    (∃ s, (cfg.timeType = some s ∨ cfg.durationType = some s) ∧ t.isMessage = false ∧
        t.elemType = s.type ∧ t.elemValueType = s.valueType) := by
  unfold getTerraformType at h
  simp only at h
  cases hfind : Generated.typeRows.find? (rowMatches cfg f isMap) with
  | none => simp [hfind] at h
  | some r =>
    simp only [hfind] at h
    have hr : r ∈ Generated.typeRows := List.mem_of_find?_eq_some hfind
    by_cases h1 : (r.kind == "time") = true
    · simp only [h1, if_true] at h
      cases ht : cfg.timeType with
      | none => simp [ht] at h
      | some s =>
        simp only [ht] at h
        injection h with h
        subst h
        refine Or.inr ⟨s, Or.inl rfl, ?_, ?_, ?_⟩ <;> (repeat' split) <;> rfl
    · simp only [h1, Bool.false_eq_true, if_false] at h
      by_cases h2 : (r.kind == "duration") = true
      · simp only [h2, if_true] at h
        cases ht : cfg.durationType with
        | none => simp [ht] at h
        | some s =>
          simp only [ht] at h
          injection h with h
          subst h
          refine Or.inr ⟨s, Or.inr rfl, ?_, ?_, ?_⟩ <;> (repeat' split) <;> rfl
      · simp only [h2, Bool.false_eq_true, if_false] at h
        by_cases h3 : (r.kind == "default") = true
        · simp [h3] at h
        · simp only [h3, Bool.false_eq_true, if_false] at h
          cases hb : Generated.bases.find? (fun b => b.name == r.base) with
          | none => simp [hb] at h
          | some b =>
            simp only [hb] at h
            have hbm : b ∈ Generated.bases := List.mem_of_find?_eq_some hb
            have hbn : b.name = r.base := by
              have := List.find?_some hb
              simpa using this
            have hbmsg := bases_not_message b hbm
            refine Or.inl ⟨r, hr, b, hbm, hbn, ?_⟩
            cases isRep <;> cases isMap <;> cases hm : r.isMessage <;>
              by_cases hc : (f.castType != "") = true <;>
              by_cases hcf1 : (r.castFrom == "<elem>") = true <;>
              by_cases hcf2 : (r.castFrom != "") = true <;>
              simp only [hm, hc, hcf1, hcf2, Bool.false_eq_true, if_false, if_true] at h <;>
              injection h with h <;> subst h <;> simp [tfTypeOfBase, hbmsg]

/-- the configured time / duration types name a type and a value type of the same primitive kind -/
def ConfigTypesAgree (cfg : CfgView) : Prop :=
  ∀ s, (cfg.timeType = some s ∨ cfg.durationType = some s) → ConfigAgrees s

/-- a non-message record returned by `GetTerraformType` is `ScalarTf` (fields that are not maps, and the value fields of maps,
carry that record unchanged in `ElemType` / `ElemValueType`; `setMapValues` copies the value field's pair to the map field) -/
theorem getTerraformType_scalarTf (cfg : CfgView) (f : FieldD) (isMap isRep : Bool) (goType path : String) (t : TfType)
    (h : getTerraformType cfg f isMap isRep goType path = .ok t) (hc : ConfigTypesAgree cfg) (hm : t.isMessage = false) :
    ScalarTf t := by
  rcases getTerraformType_origin cfg f isMap isRep goType path t h with h | ⟨s, hs, _, h1, h2⟩
  · rw [hm] at h; exact Or.inl h
  · exact Or.inr ⟨s, hc s hs, h1, h2⟩

/-- a message record returned by `GetTerraformType` is `MessageTf` -/
theorem getTerraformType_messageTf (cfg : CfgView) (f : FieldD) (isMap isRep : Bool) (goType path : String) (t : TfType)
    (h : getTerraformType cfg f isMap isRep goType path = .ok t) (hm : t.isMessage = true) : MessageTf t := by
  rcases getTerraformType_origin cfg f isMap isRep goType path t h with h | ⟨s, _, hf, _, _⟩
  · rw [hm] at h; exact h
  · rw [hm] at hf; cases hf

-- ======================================================================================================
-- 1. the three parts of `ToOK`
-- ======================================================================================================

/-- (i) for every kind: a branch of a oneof is not a child of a nullable embedded message -/
def EmbedOK (info : FieldInfo) : Prop := info.parentIsOptionalEmbed = true → info.oneOfName = ""

mutual
/-- **(i)** node-level well-formedness of the IR: what `BuildField` establishes. No value, no attribute type. -/
def IRWF : Field → Prop
  | ⟨info, mapVal, msg, sub⟩ =>
    EmbedOK info ∧
    match info.kind with
    | .primitive => ScalarTf info.tf
    | .custom => info.oneOfName = ""
    | .object => sub ≠ [] ∧ IRWFs sub
    | .primitiveList =>
      info.isRepeated = true ∧ info.oneOfName = "" ∧ info.isPlaceholder = false ∧ ScalarTf info.tf
    | .objectList =>
      info.isRepeated = true ∧ info.oneOfName = "" ∧ MessageTf info.tf ∧ sub ≠ [] ∧ isEmptyMsg msg = false ∧ IRWFs sub
    | .primitiveMap =>
      info.isRepeated = false ∧ info.oneOfName = "" ∧ info.isPlaceholder = false ∧ info.tf.zeroValue = "" ∧
      ScalarTf info.tf ∧ (mapVal.getD info).tf.elemType = info.tf.elemType
    | .objectMap =>
      info.isRepeated = false ∧ info.oneOfName = "" ∧ MessageTf info.tf ∧ sub ≠ [] ∧ isEmptyMsg msg = false ∧ IRWFs sub

/-- … for the fields of a message: attribute names pairwise distinct -/
def IRWFs : List Field → Prop
  | [] => True
  | f :: rest => IRWF f ∧ f.info.nameSnake ∉ rest.map (·.info.nameSnake) ∧ IRWFs rest
end

/-- (iii) the value part of `Reachable`: the nullable embedded parent the field is read through is not nil -/
def ReachableV (info : FieldInfo) (obj : GoVal) : Prop :=
  info.parentIsOptionalEmbed = true → parentIsNil info obj = false ∧
    ∃ s, obj.field? info.parentIsOptionalEmbedFieldName = some (.ptr (some s))

theorem reachable_of (info : FieldInfo) (obj : GoVal) (he : EmbedOK info) (hv : ReachableV info obj) :
    Reachable info obj := fun hp => ⟨(hv hp).1, he hp, (hv hp).2⟩

mutual
/-- **(iii)** typing of the struct value for the IR, through nested messages, list elements and map values -/
def ValOK : Field → GoVal → Prop
  | ⟨info, _, msg, sub⟩, obj =>
    match info.kind with
    | .primitive =>
      info.isPlaceholder = true ∨
      (info.parentIsOptionalEmbed = true ∧ parentIsNil info obj = true) ∨
      (ReachableV info obj ∧ PrimTyped info (getVal info obj))
    | .custom => ReachableV info obj ∧ ∃ v, hookTo info.isRepeated (getVal info obj) = some v
    | .object =>
      ReachableV info obj ∧
      ((isEmptyMsg msg) = true → ∀ fs, getVal info obj = .ptr (some (.struct fs)) ∨ getVal info obj = .struct fs → fs = []) ∧
      MsgTyped info.isNullable (fun s => ValOKs sub s) (getVal info obj)
    | .primitiveList =>
      ReachableV info obj ∧
      (getVal info obj = .slice none ∨ ∃ es, getVal info obj = .slice (some es) ∧ ∀ e ∈ es, PrimTyped info e)
    | .objectList =>
      ReachableV info obj ∧
      (getVal info obj = .slice none ∨ ∃ es, getVal info obj = .slice (some es) ∧
        ∀ e ∈ es, MsgTyped info.isNullable (fun s => ValOKs sub s) e)
    | .primitiveMap =>
      ReachableV info obj ∧
      (getVal info obj = .map none ∨ ∃ es, getVal info obj = .map (some es) ∧ (es.map (·.1)).Nodup ∧
        ∀ e ∈ es, PrimTyped info e.2)
    | .objectMap =>
      ReachableV info obj ∧
      (getVal info obj = .map none ∨ ∃ es, getVal info obj = .map (some es) ∧ (es.map (·.1)).Nodup ∧
        ∀ e ∈ es, MsgTyped info.isNullable (fun s => ValOKs sub s) e.2)

def ValOKs : List Field → GoVal → Prop
  | [], _ => True
  | f :: rest, obj => ValOK f obj ∧ ValOKs rest obj
end

theorem irwfs_nodup : ∀ fs : List Field, IRWFs fs → (fs.map (·.info.nameSnake)).Nodup
  | [], _ => by simp
  | f :: rest, h => by
    unfold IRWFs at h
    simp only [List.map_cons, List.nodup_cons]
    exact ⟨h.2.1, irwfs_nodup rest h.2.2⟩

theorem irwfs_mem : ∀ (fs : List Field), IRWFs fs → ∀ f ∈ fs, IRWF f
  | [], _, f, hf => by cases hf
  | g :: rest, h, f, hf => by
    unfold IRWFs at h
    rcases List.mem_cons.1 hf with rfl | hf
    · exact h.1
    · exact irwfs_mem rest h.2.2 f hf

-- ======================================================================================================
-- 2. what the schema declares
-- ======================================================================================================

/-- name ↦ declared attribute type (`attrTypesOf` with projections instead of a pattern-matching lambda) -/
def tysOf (l : List (String × SAttr)) : List (String × TfTy) := l.map fun p => (p.1, p.2.ty)

theorem tysOf_eq (l : List (String × SAttr)) : (l.map fun (n, a) => (n, a.ty)) = tysOf l := rfl

theorem attrTypesOf_eq (m : Msg) : attrTypesOf m = tysOf (schemaAttrs m.fields ++ m.info.injected.map injectedAttr) := rfl

/-- the attribute types of the nested object of a message-valued field: its fields, then the injected attributes -/
def nestedTys (msg : Option MsgInfo) (sub : List Field) : List (String × TfTy) :=
  tysOf (schemaAttrs sub ++ ((msg.map (·.injected)).getD []).map injectedAttr)

/-- the attribute type `FieldSchemaGenerator.Generate` declares, by kind -/
def schemaTy : Field → TfTy
  | ⟨info, mapVal, msg, sub⟩ =>
    match info.kind with
    | .primitive => primTyOf info.tf.elemType
    | .primitiveList => .list (some (primTyOf info.tf.elemType))
    | .primitiveMap => .map (some (primTyOf ((mapVal.getD info).tf.elemType)))
    | .object => .obj (some (nestedTys msg sub))
    | .objectList => .list (some (.obj (some (nestedTys msg sub))))
    | .objectMap => .map (some (.obj (some (nestedTys msg sub))))
    | .custom => if info.isRepeated then .list (some (.prim .string)) else .prim .string

theorem schemaField_name (f : Field) : (schemaField f).1 = f.info.nameSnake := by
  obtain ⟨info, mapVal, msg, sub⟩ := f
  rw [schemaField]

/-- **`SAttr.ty (schemaField f).2` for every kind** -/
theorem schemaField_ty (f : Field) : (schemaField f).2.ty = schemaTy f := by
  obtain ⟨info, mapVal, msg, sub⟩ := f
  rw [schemaField]
  simp only [schemaTy, SAttr.ty]
  cases info.kind <;> rfl

theorem tysOf_cons_append (f : Field) (l extra : List (String × SAttr)) :
    tysOf ((schemaField f :: l) ++ extra) = (f.info.nameSnake, schemaTy f) :: tysOf (l ++ extra) := by
  simp only [tysOf, List.cons_append, List.map_cons, schemaField_name, schemaField_ty]

/-- **`schema_lookup`** (on the attributes): with pairwise distinct names, the attribute a field's name selects in the
schema – also with further attributes (`extra`: the injected ones) appended – is the one `schemaField` generates for it -/
theorem schema_lookup : ∀ (fs : List Field) (extra : List (String × SAttr)), (fs.map (·.info.nameSnake)).Nodup →
    ∀ f ∈ fs, (schemaAttrs fs ++ extra).lookup f.info.nameSnake = some (schemaField f).2
  | [], _, _, f, hf => by cases hf
  | g :: rest, extra, hnd, f, hf => by
    simp only [List.map_cons, List.nodup_cons] at hnd
    rw [schemaAttrs]
    have hg : schemaField g = (g.info.nameSnake, (schemaField g).2) := by rw [← schemaField_name g]
    rw [hg, List.cons_append, List.lookup_cons]
    rcases List.mem_cons.1 hf with rfl | hf
    · simp
    · have hne : (f.info.nameSnake == g.info.nameSnake) = false := by
        have : f.info.nameSnake ≠ g.info.nameSnake := fun e => hnd.1 (by rw [← e]; exact List.mem_map_of_mem hf)
        simpa using this
      simp only [hne]
      exact schema_lookup rest extra hnd.2 f hf

/-- **`schema_lookup`** (on the attribute types): the type the target object carries under a field's name is `schemaTy f` -/
theorem lookup_tysOf : ∀ (fs : List Field) (extra : List (String × SAttr)), (fs.map (·.info.nameSnake)).Nodup →
    ∀ f ∈ fs, (tysOf (schemaAttrs fs ++ extra)).lookup f.info.nameSnake = some (schemaTy f)
  | [], _, _, f, hf => by cases hf
  | g :: rest, extra, hnd, f, hf => by
    simp only [List.map_cons, List.nodup_cons] at hnd
    rw [schemaAttrs, tysOf_cons_append, List.lookup_cons]
    rcases List.mem_cons.1 hf with rfl | hf
    · simp
    · have hne : (f.info.nameSnake == g.info.nameSnake) = false := by
        have : f.info.nameSnake ≠ g.info.nameSnake := fun e => hnd.1 (by rw [← e]; exact List.mem_map_of_mem hf)
        simpa using this
      simp only [hne]
      exact lookup_tysOf rest extra hnd.2 f hf

/-- `schema_lookup` without extra attributes -/
theorem schema_lookup' (fs : List Field) (hnd : (fs.map (·.info.nameSnake)).Nodup) :
    ∀ f ∈ fs, (schemaAttrs fs).lookup f.info.nameSnake = some (schemaField f).2 := by
  intro f hf
  have := schema_lookup fs [] hnd f hf
  rwa [List.append_nil] at this

/-- the declared type, kind by kind (the equations of `schemaTy`, through `schemaField_ty`) -/
theorem schemaField_ty_cases (info : FieldInfo) (mapVal : Option FieldInfo) (msg : Option MsgInfo) (sub : List Field) :
    (info.kind = .primitive → (schemaField ⟨info, mapVal, msg, sub⟩).2.ty = primTyOf info.tf.elemType) ∧
    (info.kind = .primitiveList → (schemaField ⟨info, mapVal, msg, sub⟩).2.ty = .list (some (primTyOf info.tf.elemType))) ∧
    (info.kind = .primitiveMap →
      (schemaField ⟨info, mapVal, msg, sub⟩).2.ty = .map (some (primTyOf ((mapVal.getD info).tf.elemType)))) ∧
    (info.kind = .object → (schemaField ⟨info, mapVal, msg, sub⟩).2.ty = .obj (some (nestedTys msg sub))) ∧
    (info.kind = .objectList →
      (schemaField ⟨info, mapVal, msg, sub⟩).2.ty = .list (some (.obj (some (nestedTys msg sub))))) ∧
    (info.kind = .objectMap →
      (schemaField ⟨info, mapVal, msg, sub⟩).2.ty = .map (some (.obj (some (nestedTys msg sub))))) ∧
    (info.kind = .custom → (schemaField ⟨info, mapVal, msg, sub⟩).2.ty =
      if info.isRepeated then .list (some (.prim .string)) else .prim .string) := by
  rw [schemaField_ty]
  refine ⟨?_, ?_, ?_, ?_, ?_, ?_, ?_⟩ <;> intro hk <;> simp only [schemaTy, hk]

/-- on a well-formed scalar node the declared type is the primitive type whose value struct CopyTo asserts -/
theorem schemaTy_scalar (info : FieldInfo) (mapVal : Option FieldInfo) (msg : Option MsgInfo) (sub : List Field)
    (hk : info.kind = .primitive) (h : ScalarTf info.tf) :
    ∃ k, vkindOf info.tf.elemValueType = .prim k ∧ schemaTy ⟨info, mapVal, msg, sub⟩ = .prim k := by
  obtain ⟨k, h1, h2⟩ := scalarTf_bridge info.tf h
  exact ⟨k, h1, by simp only [schemaTy, hk, h2]⟩

-- ======================================================================================================
-- 3. MAIN: (i) + (iii) + the schema's types give `ToOKs`
-- ======================================================================================================

mutual

/-- one field: a well-formed node and a typed value satisfy `ToOK` at the type the schema declares for the field -/
theorem toOK_of_schema : ∀ (f : Field) (obj : GoVal), IRWF f → ValOK f obj → ToOK f obj (schemaTy f)
  | ⟨info, mapVal, msg, sub⟩, obj, hwf, hv => by
    unfold IRWF at hwf
    unfold ValOK at hv
    unfold ToOK
    obtain ⟨hemb, hwf⟩ := hwf
    have hsub : IRWFs sub → ∀ s, ValOKs sub s → ToOKs sub s (nestedTys msg sub) := fun hs s hvs =>
      toOKs_of_lookup sub s (nestedTys msg sub) hs hvs (lookup_tysOf sub _ (irwfs_nodup sub hs))
    cases hk : info.kind with
    | primitive =>
      simp only [hk] at hwf hv ⊢
      obtain ⟨k, hk1, hk2⟩ := scalarTf_bridge info.tf hwf
      refine ⟨⟨k, hk1, by simp only [schemaTy, hk, hk2]⟩, ?_⟩
      rcases hv with h | ⟨hp, hn⟩ | ⟨hr, ht⟩
      · exact Or.inl h
      · exact Or.inr (Or.inl ⟨hp, hn, hemb hp⟩)
      · exact Or.inr (Or.inr ⟨reachable_of info obj hemb hr, ht⟩)
    | custom =>
      simp only [hk] at hwf hv ⊢
      exact ⟨hwf, reachable_of info obj hemb hv.1, hv.2⟩
    | object =>
      simp only [hk] at hwf hv ⊢
      obtain ⟨hne, hs⟩ := hwf
      obtain ⟨hr, hE, ht⟩ := hv
      exact ⟨reachable_of info obj hemb hr, nestedTys msg sub, by simp only [schemaTy, hk], hne, hE,
        msgTyped_mono _ _ _ (hsub hs) _ ht⟩
    | primitiveList =>
      simp only [hk] at hwf hv ⊢
      obtain ⟨hrep, hoo, hnp, hst⟩ := hwf
      obtain ⟨k, hk1, hk2⟩ := scalarTf_bridge info.tf hst
      exact ⟨hrep, hoo, hnp, reachable_of info obj hemb hv.1, k, hk1, by simp only [schemaTy, hk, hk2], hv.2⟩
    | objectList =>
      simp only [hk] at hwf hv ⊢
      obtain ⟨hrep, hoo, hmt, hne, hem, hs⟩ := hwf
      refine ⟨hrep, hoo, reachable_of info obj hemb hv.1, messageTf_bridge info.tf hmt, nestedTys msg sub,
        by simp only [schemaTy, hk], hne, hem, ?_⟩
      rcases hv.2 with h | ⟨es, hes, hall⟩
      · exact Or.inl h
      · exact Or.inr ⟨es, hes, fun e he => msgTyped_mono _ _ _ (hsub hs) _ (hall e he)⟩
    | primitiveMap =>
      simp only [hk] at hwf hv ⊢
      obtain ⟨hrep, hoo, hnp, hz, hst, hmv⟩ := hwf
      obtain ⟨k, hk1, hk2⟩ := scalarTf_bridge info.tf hst
      exact ⟨hrep, hoo, hnp, reachable_of info obj hemb hv.1, hz, k, hk1, by simp only [schemaTy, hk, hmv, hk2], hv.2⟩
    | objectMap =>
      simp only [hk] at hwf hv ⊢
      obtain ⟨hrep, hoo, hmt, hne, hem, hs⟩ := hwf
      refine ⟨hrep, hoo, reachable_of info obj hemb hv.1, messageTf_bridge info.tf hmt, nestedTys msg sub,
        by simp only [schemaTy, hk], hne, hem, ?_⟩
      rcases hv.2 with h | ⟨es, hes, hnd, hall⟩
      · exact Or.inl h
      · exact Or.inr ⟨es, hes, hnd, fun e he => msgTyped_mono _ _ _ (hsub hs) _ (hall e he)⟩

/-- the fields of a message against any attribute-type list that gives every field the type the schema declares -/
theorem toOKs_of_lookup : ∀ (fs : List Field) (obj : GoVal) (atys : List (String × TfTy)), IRWFs fs → ValOKs fs obj →
    (∀ f ∈ fs, atys.lookup f.info.nameSnake = some (schemaTy f)) → ToOKs fs obj atys
  | [], _, _, _, _, _ => by unfold ToOKs; trivial
  | f :: rest, obj, atys, hwf, hv, hl => by
    unfold IRWFs at hwf
    unfold ValOKs at hv
    unfold ToOKs
    exact ⟨⟨schemaTy f, hl f (by simp), toOK_of_schema f obj hwf.1 hv.1⟩, hwf.2.1,
      toOKs_of_lookup rest obj atys hwf.2.2 hv.2 (fun g hg => hl g (by simp [hg]))⟩

end

/-- **MAIN**: a well-formed IR and a typed value satisfy `ToOKs` against the attribute types of the schema – part (ii) of
`ToOK` ("every attribute has its type in the target, and it is the right one") is discharged, at every depth -/
theorem toOKs_of_schema (fs : List Field) (obj : GoVal) (hwf : IRWFs fs) (hv : ValOKs fs obj) :
    ToOKs fs obj ((schemaAttrs fs).map fun (n, a) => (n, a.ty)) := by
  have := toOKs_of_lookup fs obj (tysOf (schemaAttrs fs ++ [])) hwf hv (lookup_tysOf fs [] (irwfs_nodup fs hwf))
  rw [List.append_nil] at this
  exact this

/-- … and with further attributes appended (the injected ones): the fields' attributes come first in `schemaOf` and the
look-up takes the first match, so the extra entries do not disturb the look-ups of the fields – whatever their names -/
theorem toOKs_of_schema_ext (fs : List Field) (obj : GoVal) (extra : List (String × SAttr)) (hwf : IRWFs fs)
    (hv : ValOKs fs obj) : ToOKs fs obj ((schemaAttrs fs ++ extra).map fun (n, a) => (n, a.ty)) :=
  toOKs_of_lookup fs obj (tysOf (schemaAttrs fs ++ extra)) hwf hv (lookup_tysOf fs extra (irwfs_nodup fs hwf))

theorem toOKs_attrTypesOf (m : Msg) (obj : GoVal) (hwf : IRWFs m.fields) (hv : ValOKs m.fields obj) :
    ToOKs m.fields obj (attrTypesOf m) :=
  toOKs_of_schema_ext m.fields obj (m.info.injected.map injectedAttr) hwf hv

/-- the value part of `Reachable` -/
theorem reachableV_of (info : FieldInfo) (obj : GoVal) (h : Reachable info obj) : ReachableV info obj :=
  fun hp => ⟨(h hp).1, (h hp).2.2⟩

mutual
/-- conversely, `ValOK` is *necessary*: it is implied by `ToOK` at any type – part (iii) is not strengthened by the split -/
theorem valOK_of_toOK : ∀ (f : Field) (obj : GoVal) (ty : TfTy), ToOK f obj ty → ValOK f obj
  | ⟨info, mapVal, msg, sub⟩, obj, ty, h => by
    unfold ToOK at h
    unfold ValOK
    have hsub : ∀ as s, ToOKs sub s as → ValOKs sub s := fun as s hs => valOKs_of_toOKs sub s as hs
    cases hk : info.kind with
    | primitive =>
      simp only [hk] at h ⊢
      rcases h.2 with h | ⟨hp, hn, _⟩ | ⟨hr, ht⟩
      · exact Or.inl h
      · exact Or.inr (Or.inl ⟨hp, hn⟩)
      · exact Or.inr (Or.inr ⟨reachableV_of _ _ hr, ht⟩)
    | custom =>
      simp only [hk] at h ⊢
      exact ⟨reachableV_of _ _ h.2.1, h.2.2⟩
    | object =>
      simp only [hk] at h ⊢
      obtain ⟨hr, as, _, _, hE, ht⟩ := h
      exact ⟨reachableV_of _ _ hr, hE, msgTyped_mono _ _ _ (hsub as) _ ht⟩
    | primitiveList =>
      simp only [hk] at h ⊢
      obtain ⟨_, _, _, hr, k, _, _, hval⟩ := h
      exact ⟨reachableV_of _ _ hr, hval⟩
    | objectList =>
      simp only [hk] at h ⊢
      obtain ⟨_, _, hr, _, as, _, _, _, hval⟩ := h
      refine ⟨reachableV_of _ _ hr, ?_⟩
      rcases hval with h | ⟨es, hes, hall⟩
      · exact Or.inl h
      · exact Or.inr ⟨es, hes, fun e he => msgTyped_mono _ _ _ (hsub as) _ (hall e he)⟩
    | primitiveMap =>
      simp only [hk] at h ⊢
      obtain ⟨_, _, _, hr, _, k, _, _, hval⟩ := h
      exact ⟨reachableV_of _ _ hr, hval⟩
    | objectMap =>
      simp only [hk] at h ⊢
      obtain ⟨_, _, hr, _, as, _, _, _, hval⟩ := h
      refine ⟨reachableV_of _ _ hr, ?_⟩
      rcases hval with h | ⟨es, hes, hnd, hall⟩
      · exact Or.inl h
      · exact Or.inr ⟨es, hes, hnd, fun e he => msgTyped_mono _ _ _ (hsub as) _ (hall e he)⟩

theorem valOKs_of_toOKs : ∀ (fs : List Field) (obj : GoVal) (atys : List (String × TfTy)), ToOKs fs obj atys → ValOKs fs obj
  | [], _, _, _ => by unfold ValOKs; trivial
  | f :: rest, obj, atys, h => by
    unfold ToOKs at h
    unfold ValOKs
    obtain ⟨⟨ty, _, hf⟩, _, hrest⟩ := h
    exact ⟨valOK_of_toOK f obj ty hf, valOKs_of_toOKs rest obj atys hrest⟩
end

/-- **the split is exact on the value side**: for a well-formed IR, `ToOKs` against the schema's types ⇔ `ValOKs` -/
theorem toOKs_schema_iff (m : Msg) (obj : GoVal) (hwf : IRWFs m.fields) :
    ToOKs m.fields obj (attrTypesOf m) ↔ ValOKs m.fields obj :=
  ⟨valOKs_of_toOKs _ _ _, toOKs_attrTypesOf m obj hwf⟩

-- ======================================================================================================
-- 4. injected attributes
-- ======================================================================================================

/-- the names of the injected attributes of the root message differ from all attribute names of its fields. (In the Go
schema the attributes are the keys of one composite map literal, so a clash does not compile; in the model `schemaOf` is an
association list with the fields first.) -/
def InjectedDisjoint (m : Msg) : Prop :=
  ∀ i ∈ m.info.injected, i.name ∉ m.fields.map (·.info.nameSnake)

theorem tysOf_append (a b : List (String × SAttr)) : tysOf (a ++ b) = tysOf a ++ tysOf b := by
  simp [tysOf]

theorem lookup_tysOf_none : ∀ (fs : List Field) (k : String), k ∉ fs.map (·.info.nameSnake) →
    (tysOf (schemaAttrs fs)).lookup k = none
  | [], _, _ => by rw [schemaAttrs]; rfl
  | g :: rest, k, h => by
    simp only [List.map_cons, List.mem_cons, not_or] at h
    have := tysOf_cons_append g (schemaAttrs rest) []
    rw [List.append_nil, List.append_nil] at this
    rw [schemaAttrs, this, List.lookup_cons]
    have hne : (k == g.info.nameSnake) = false := by simpa using h.1
    simp only [hne]
    exact lookup_tysOf_none rest k h.2

/-- the extra entries do not disturb the look-ups of the fields (no hypothesis on the extra names needed: first match) … -/
theorem attrTypesOf_lookup_field (m : Msg) (hnd : (m.fields.map (·.info.nameSnake)).Nodup) :
    ∀ f ∈ m.fields, (attrTypesOf m).lookup f.info.nameSnake = some (schemaTy f) :=
  lookup_tysOf m.fields _ hnd

/-- … and under `InjectedDisjoint` the fields do not disturb the look-ups of the injected attributes either: the target
carries every injected attribute with the type its configuration entry names -/
theorem attrTypesOf_lookup_injected (m : Msg) (hd : InjectedDisjoint m) :
    ∀ i ∈ m.info.injected, (attrTypesOf m).lookup i.name = (tysOf (m.info.injected.map injectedAttr)).lookup i.name := by
  intro i hi
  rw [attrTypesOf_eq, tysOf_append, List.lookup_append, lookup_tysOf_none m.fields i.name (hd i hi)]
  rfl

-- ======================================================================================================
-- 5. C03 / C20 / C04 on the schema-typed empty object
-- ======================================================================================================

/-- **C03, schema-typed target, every template and depth**: for a well-formed IR (`IRWFs`: node-level facts, rows of the
regenerated type table, distinct names per level) and a typed struct value (`ValOKs`), CopyTo into the object that carries
*the attribute types of the generated schema* and no values succeeds, returns no diagnostic, and the stored attributes
render the value. No hypothesis on attribute types is left. (`InjectedDisjoint` is not needed: see `C03_schema_typed'`.) -/
theorem C03_schema_typed (m : Msg) (obj : GoVal) (hwf : IRWFs m.fields) (hv : ValOKs m.fields obj) :
    ∃ r as, copyTo m obj (.obj false false none (some (attrTypesOf m))) = .ok r ∧ r.diags = [] ∧
      r.tf = .obj false false (some as) (some (attrTypesOf m)) ∧ rendersFields m.fields obj as = true :=
  PGT.Props.C03.C03_total m obj (attrTypesOf m) (toOKs_attrTypesOf m obj hwf hv)

/-- the statement with the name-disjointness hypothesis, as in the task text; the hypothesis is not used (the attributes of
the fields precede the injected ones in `schemaOf` and `lookup` takes the first match). What the hypothesis buys is
`attrTypesOf_lookup_injected`, and faithfulness of the association list to Go's map. -/
theorem C03_schema_typed' (m : Msg) (obj : GoVal) (hwf : IRWFs m.fields) (_hd : InjectedDisjoint m)
    (hv : ValOKs m.fields obj) :
    ∃ r as, copyTo m obj (.obj false false none (some (attrTypesOf m))) = .ok r ∧ r.diags = [] ∧
      r.tf = .obj false false (some as) (some (attrTypesOf m)) ∧ rendersFields m.fields obj as = true :=
  C03_schema_typed m obj hwf hv

/-- **C20, schema-typed target**: the result satisfies the executable statement of C20 -/
theorem C20_schema_typed (m : Msg) (obj : GoVal) (hwf : IRWFs m.fields) (hv : ValOKs m.fields obj) :
    ∃ r, copyTo m obj (.obj false false none (some (attrTypesOf m))) = .ok r ∧ c20Check m obj r.tf = true :=
  PGT.Props.C20.C20_nullness m obj (attrTypesOf m) (toOKs_attrTypesOf m obj hwf hv)

/-- **C04, schema-typed target**: the round trip through the schema-typed object is the identity in normal form; `RT3OKs`
(RoundTripEmbed.lean) is the read-back side (Go field names distinct, scalar rows round-trip, …) – no attribute types in it -/
theorem C04_schema_typed (ov : List (String × String)) (m : Msg) (obj : GoVal) (hwf : IRWFs m.fields)
    (hv : ValOKs m.fields obj) (hrt : RT3OKs m.fields obj) :
    ∃ r b, copyTo m obj (.obj false false none (some (attrTypesOf m))) = .ok r ∧ r.diags = [] ∧
      copyFrom ov m r.tf (.struct []) = .ok b ∧ b.diags = [] ∧ c04Check m obj b.obj = true :=
  PGT.Props.C04.C04_roundtrip_all ov m obj (attrTypesOf m) (toOKs_attrTypesOf m obj hwf hv) hrt

/-- C20 in the shape of `Props.C20.C20_full` (every successful run on the schema-typed empty object), for a well-formed IR
and a typed value -/
theorem C20_full_schema_typed (m : Msg) (obj : GoVal) (hwf : IRWFs m.fields) (hv : ValOKs m.fields obj) (r : ToResult)
    (h : copyTo m obj (.obj false false none (some (attrTypesOf m))) = .ok r) : c20Check m obj r.tf = true := by
  obtain ⟨r0, h0, hc⟩ := C20_schema_typed m obj hwf hv
  rw [h0] at h
  injection h with h
  subst h
  exact hc

/-- C04 in the shape of `Props.C04.C04_full` -/
theorem C04_full_schema_typed (ov : List (String × String)) (m : Msg) (obj : GoVal) (hwf : IRWFs m.fields)
    (hv : ValOKs m.fields obj) (hrt : RT3OKs m.fields obj) (r : ToResult) (b : FromResult)
    (h1 : copyTo m obj (.obj false false none (some (attrTypesOf m))) = .ok r)
    (h2 : copyFrom ov m r.tf (.struct []) = .ok b) :
    r.diags = [] ∧ b.diags = [] ∧ c04Check m obj b.obj = true := by
  obtain ⟨r0, b0, hr0, hd0, hb0, hbd0, hc⟩ := C04_schema_typed ov m obj hwf hv hrt
  rw [hr0] at h1
  injection h1 with h1
  subst h1
  rw [hb0] at h2
  injection h2 with h2
  subst h2
  exact ⟨hd0, hbd0, hc⟩

/- Not proved here: C03 in the shape of `Props.C03.C03_full`, i.e. with `Spec.c03Check` instead of `Spec.rendersFields`.
`c03Check` also compares the type tags *stored in the result* (`ElemType` of lists / maps, `AttrTypes` of objects, the kind of
a null placeholder) with the schema's; `rendersFields` does not speak about them, so that form needs an induction over the
emitted code of its own (and reflexivity of `TfTy.optAsBeq` on `attrTypesOf m`, which is where pairwise distinct attribute
names *including the injected ones* – `InjectedDisjoint`, at every level – are needed). -/

-- ======================================================================================================
-- 6. C06: no panic on the schema-typed target, for every struct value
-- ======================================================================================================

mutual
/-- all that `TysOK` needs from the IR: distinct attribute names at every level reached through message-valued fields -/
def NamesOK : Field → Prop
  | ⟨info, _, _, sub⟩ =>
    match info.kind with
    | .object | .objectList | .objectMap => NamesOKs sub
    | _ => True
def NamesOKs : List Field → Prop
  | [] => True
  | f :: rest => NamesOK f ∧ f.info.nameSnake ∉ rest.map (·.info.nameSnake) ∧ NamesOKs rest
end

theorem namesOKs_nodup : ∀ fs : List Field, NamesOKs fs → (fs.map (·.info.nameSnake)).Nodup
  | [], _ => by simp
  | f :: rest, h => by
    unfold NamesOKs at h
    simp only [List.map_cons, List.nodup_cons]
    exact ⟨h.2.1, namesOKs_nodup rest h.2.2⟩

mutual
theorem namesOK_of_irwf : ∀ f : Field, IRWF f → NamesOK f
  | ⟨info, mapVal, msg, sub⟩, h => by
    unfold IRWF at h
    unfold NamesOK
    obtain ⟨_, h⟩ := h
    cases hk : info.kind <;> simp only [hk] at h ⊢
    · exact namesOKs_of_irwfs sub h.2
    · exact namesOKs_of_irwfs sub h.2.2.2.2.2
    · exact namesOKs_of_irwfs sub h.2.2.2.2.2
theorem namesOKs_of_irwfs : ∀ fs : List Field, IRWFs fs → NamesOKs fs
  | [], _ => by unfold NamesOKs; trivial
  | f :: rest, h => by
    unfold IRWFs at h
    unfold NamesOKs
    exact ⟨namesOK_of_irwf f h.1, h.2.1, namesOKs_of_irwfs rest h.2.2⟩
end

mutual
/-- the type the schema declares for a field is well formed as far as the emitted CopyTo relies on it without checking -/
theorem tyOK_of_schema : ∀ f : Field, NamesOK f → TyOK f (schemaTy f)
  | ⟨info, mapVal, msg, sub⟩, h => by
    unfold NamesOK at h
    unfold TyOK
    have hsub : NamesOKs sub → TysOK sub (some (nestedTys msg sub)) := fun hs =>
      tysOK_of_lookup sub (nestedTys msg sub) hs (lookup_tysOf sub _ (namesOKs_nodup sub hs))
    cases hk : info.kind <;> simp only [hk] at h ⊢
    · -- primitiveList
      intro e he
      simp only [schemaTy, hk] at he
      rcases he with he | he
      · injection he with he; subst he; simp
      · cases he
    · -- object
      intro as has
      simp only [schemaTy, hk] at has
      injection has with has
      subst has
      exact hsub h
    · -- objectList
      intro e he
      simp only [schemaTy, hk] at he
      rcases he with he | he
      · injection he with he; subst he; exact ⟨_, rfl, hsub h⟩
      · cases he
    · -- primitiveMap
      intro e he
      simp only [schemaTy, hk] at he
      rcases he with he | he
      · cases he
      · injection he with he; subst he; simp
    · -- objectMap
      intro e he
      simp only [schemaTy, hk] at he
      rcases he with he | he
      · cases he
      · injection he with he; subst he; exact ⟨_, rfl, hsub h⟩

theorem tysOK_of_lookup : ∀ (fs : List Field) (atys : List (String × TfTy)), NamesOKs fs →
    (∀ f ∈ fs, atys.lookup f.info.nameSnake = some (schemaTy f)) → TysOK fs (some atys)
  | [], _, _, _ => by unfold TysOK; trivial
  | f :: rest, atys, h, hl => by
    unfold NamesOKs at h
    unfold TysOK
    refine ⟨?_, h.2.1, tysOK_of_lookup rest atys h.2.2 (fun g hg => hl g (by simp [hg]))⟩
    intro ty hty
    simp only [Option.getD] at hty
    rw [hl f (by simp)] at hty
    injection hty with hty
    subst hty
    exact tyOK_of_schema f h.1
end

/-- **`TysOK` holds for the attribute types of the schema** – for every IR with distinct attribute names per level -/
theorem tysOK_of_names (m : Msg) (h : NamesOKs m.fields) : TysOK m.fields (some (attrTypesOf m)) :=
  tysOK_of_lookup m.fields (attrTypesOf m) h (attrTypesOf_lookup_field m (namesOKs_nodup _ h))

theorem tysOK_of_schema (m : Msg) (h : IRWFs m.fields) : TysOK m.fields (some (attrTypesOf m)) :=
  tysOK_of_names m (namesOKs_of_irwfs _ h)

/-- **C06 (CopyTo side), schema-typed target**: on the object that carries the schema's attribute types and no values the
emitted `Copy<T>ToTerraform` does not panic – for EVERY struct value (typed for the IR or not) and every IR whose attribute
names are pairwise distinct per level -/
theorem C06_schema_typed_names (m : Msg) (obj : GoVal) (u n : Bool) (h : NamesOKs m.fields) (w : String) :
    copyTo m obj (.obj u n none (some (attrTypesOf m))) ≠ .panic w :=
  copyTo_noPanic m obj u n (some (attrTypesOf m)) (tysOK_of_names m h) w

theorem C06_schema_typed (m : Msg) (obj : GoVal) (u n : Bool) (h : IRWFs m.fields) (w : String) :
    copyTo m obj (.obj u n none (some (attrTypesOf m))) ≠ .panic w :=
  C06_schema_typed_names m obj u n (namesOKs_of_irwfs _ h) w

-- ======================================================================================================
-- 7. non-vacuity: a scalar, a list of scalars, a nested message with a map, injected attributes; and a value
-- ======================================================================================================

/-- executable form of `FromTable` -/
def fromTableB (isMsg : Bool) (et evt : String) : Bool :=
  Generated.typeRows.any fun r => Generated.bases.any fun b =>
    b.name == r.base && r.isMessage == isMsg && et == b.elemType && evt == b.elemValueType

theorem fromTable_of_b (isMsg : Bool) (et evt : String) (h : fromTableB isMsg et evt = true) : FromTable isMsg et evt := by
  simp only [fromTableB, List.any_eq_true, Bool.and_eq_true, beq_iff_eq] at h
  obtain ⟨r, hr, b, hb, ⟨⟨hn, hm⟩, het⟩, hevt⟩ := h
  exact ⟨r, hr, b, hb, hn, hm, het, hevt⟩

/-- executable form of `ScalarTf` -/
def scalarTfB (tf : TfType) : Bool :=
  fromTableB false tf.elemType tf.elemValueType ||
  (match tkindOf tf.elemType, vkindOf tf.elemValueType with
   | .prim a, .prim b => a == b
   | _, _ => false)

theorem scalarTf_of_b (tf : TfType) (h : scalarTfB tf = true) : ScalarTf tf := by
  unfold scalarTfB at h
  rw [Bool.or_eq_true] at h
  rcases h with h | h
  · exact Or.inl (fromTable_of_b _ _ _ h)
  · refine Or.inr ⟨{ type := tf.elemType, valueType := tf.elemValueType, castToType := "", castFromType := "" }, ?_, rfl, rfl⟩
    unfold ConfigAgrees
    simp only
    cases h1 : tkindOf tf.elemType <;> cases h2 : vkindOf tf.elemValueType <;> simp only [h1, h2] at h <;> try cases h
    rename_i a b
    have : a = b := by simpa using h
    subst this
    exact ⟨a, rfl, rfl⟩

mutual
/-- executable form of `IRWF`: the harness (or `decide`) can evaluate it on the IR the generator builds -/
def irwfB : Field → Bool
  | ⟨info, mapVal, msg, sub⟩ =>
    (!info.parentIsOptionalEmbed || info.oneOfName == "") &&
    match info.kind with
    | .primitive => scalarTfB info.tf
    | .custom => info.oneOfName == ""
    | .object => !sub.isEmpty && irwfsB sub
    | .primitiveList => info.isRepeated && info.oneOfName == "" && !info.isPlaceholder && scalarTfB info.tf
    | .objectList =>
      info.isRepeated && info.oneOfName == "" && fromTableB true info.tf.elemType info.tf.elemValueType &&
        !sub.isEmpty && !isEmptyMsg msg && irwfsB sub
    | .primitiveMap =>
      !info.isRepeated && info.oneOfName == "" && !info.isPlaceholder && info.tf.zeroValue == "" && scalarTfB info.tf &&
        (mapVal.getD info).tf.elemType == info.tf.elemType
    | .objectMap =>
      !info.isRepeated && info.oneOfName == "" && fromTableB true info.tf.elemType info.tf.elemValueType &&
        !sub.isEmpty && !isEmptyMsg msg && irwfsB sub
def irwfsB : List Field → Bool
  | [] => true
  | f :: rest => irwfB f && !(rest.map (·.info.nameSnake)).contains f.info.nameSnake && irwfsB rest
end

theorem ne_nil_of_isEmpty {α} (l : List α) (h : l.isEmpty = false) : l ≠ [] := by
  cases l
  · cases h
  · simp

mutual
theorem irwf_of_b : ∀ f : Field, irwfB f = true → IRWF f
  | ⟨info, mapVal, msg, sub⟩, h => by
    unfold irwfB at h
    unfold IRWF
    rw [Bool.and_eq_true] at h
    obtain ⟨he, h⟩ := h
    refine ⟨?_, ?_⟩
    · intro hp
      simpa [hp] using he
    · cases hk : info.kind with
      | primitive =>
        simp only [hk] at h ⊢
        exact scalarTf_of_b _ h
      | custom =>
        simp only [hk] at h ⊢
        simpa using h
      | object =>
        simp only [hk, Bool.and_eq_true, Bool.not_eq_true'] at h ⊢
        exact ⟨ne_nil_of_isEmpty _ h.1, irwfs_of_b sub h.2⟩
      | primitiveList =>
        simp only [hk, Bool.and_eq_true, Bool.not_eq_true', beq_iff_eq] at h ⊢
        exact ⟨h.1.1.1, h.1.1.2, h.1.2, scalarTf_of_b _ h.2⟩
      | objectList =>
        simp only [hk, Bool.and_eq_true, Bool.not_eq_true', beq_iff_eq] at h ⊢
        exact ⟨h.1.1.1.1.1, h.1.1.1.1.2, fromTable_of_b _ _ _ h.1.1.1.2, ne_nil_of_isEmpty _ h.1.1.2, h.1.2, irwfs_of_b sub h.2⟩
      | primitiveMap =>
        simp only [hk, Bool.and_eq_true, Bool.not_eq_true', beq_iff_eq] at h ⊢
        exact ⟨h.1.1.1.1.1, h.1.1.1.1.2, h.1.1.1.2, h.1.1.2, scalarTf_of_b _ h.1.2, h.2⟩
      | objectMap =>
        simp only [hk, Bool.and_eq_true, Bool.not_eq_true', beq_iff_eq] at h ⊢
        exact ⟨h.1.1.1.1.1, h.1.1.1.1.2, fromTable_of_b _ _ _ h.1.1.1.2, ne_nil_of_isEmpty _ h.1.1.2, h.1.2, irwfs_of_b sub h.2⟩
theorem irwfs_of_b : ∀ fs : List Field, irwfsB fs = true → IRWFs fs
  | [], _ => by unfold IRWFs; trivial
  | f :: rest, h => by
    unfold irwfsB at h
    unfold IRWFs
    simp only [Bool.and_eq_true, Bool.not_eq_true', List.contains_eq_mem, decide_eq_false_iff_not] at h
    exact ⟨irwf_of_b f h.1.1, h.1.2, irwfs_of_b rest h.2⟩
end

namespace Example

def tStr : TfType :=
  { type := "github.com/hashicorp/terraform-plugin-framework/types.StringType",
    valueType := "github.com/hashicorp/terraform-plugin-framework/types.String",
    elemType := "github.com/hashicorp/terraform-plugin-framework/types.StringType",
    elemValueType := "github.com/hashicorp/terraform-plugin-framework/types.String",
    isTypeScalar := true, isElemTypeScalar := true,
    valueCastToType := "string", valueCastFromType := "string", zeroValue := "\"\"" }

def tIntList : TfType :=
  { type := "github.com/hashicorp/terraform-plugin-framework/types.ListType",
    valueType := "github.com/hashicorp/terraform-plugin-framework/types.List",
    elemType := "github.com/hashicorp/terraform-plugin-framework/types.Int64Type",
    elemValueType := "github.com/hashicorp/terraform-plugin-framework/types.Int64",
    isTypeScalar := true, isElemTypeScalar := true,
    valueCastToType := "int64", valueCastFromType := "int32", zeroValue := "0" }

/-- the `tf` record `setMapValues` leaves on a `map<string, string>` field -/
def tStrMap : TfType :=
  { type := "github.com/hashicorp/terraform-plugin-framework/types.MapType",
    valueType := "github.com/hashicorp/terraform-plugin-framework/types.Map",
    elemType := "github.com/hashicorp/terraform-plugin-framework/types.StringType",
    elemValueType := "github.com/hashicorp/terraform-plugin-framework/types.String",
    valueCastToType := "string", valueCastFromType := "string", zeroValue := "", isMessage := true }

def tObj : TfType :=
  { type := "github.com/hashicorp/terraform-plugin-framework/types.ObjectType",
    valueType := "github.com/hashicorp/terraform-plugin-framework/types.Object",
    elemType := "github.com/hashicorp/terraform-plugin-framework/types.ObjectType",
    elemValueType := "github.com/hashicorp/terraform-plugin-framework/types.Object", isMessage := true }

def iS : FieldInfo := { name := "S", nameSnake := "s", kind := .primitive, protoType := "string", tf := tStr }
def iL : FieldInfo :=
  { name := "L", nameSnake := "l", kind := .primitiveList, isRepeated := true, protoType := "int32", tf := tIntList }
def iM : FieldInfo := { name := "M", nameSnake := "m", kind := .primitiveMap, isMap := true, protoType := "string", tf := tStrMap }
def iMv : FieldInfo := { name := "M", nameSnake := "m", kind := .primitive, protoType := "string", tf := tStr }
def iN : FieldInfo := { name := "N", nameSnake := "n", kind := .object, isNullable := true, tf := tObj }

def inner : List Field := [{ info := iM, mapVal := some iMv }]

def fields : List Field :=
  [{ info := iS }, { info := iL },
   { info := iN, sub := inner,
     msg := some { name := "Inner", injected := [{ name := "rev", type := "github.com/hashicorp/terraform-plugin-framework/types.Int64Type" }] } }]

def msg : Msg :=
  { info := { name := "M", isRoot := true,
              injected := [{ name := "id", type := "github.com/hashicorp/terraform-plugin-framework/types.StringType", computed := true }] },
    fields := fields }

def innerVal : List (String × GoVal) := [("M", .map (some [("k", .sc (.str [118])), ("e", .sc (.str []))]))]

def val : GoVal :=
  .struct [("S", .sc (.str [104, 105])), ("L", .slice (some [.sc (.w32 7), .sc (.w32 0)])), ("N", .ptr (some (.struct innerVal)))]

/-- the target: exactly the attribute types of the generated schema (fields, nested fields, injected attributes) -/
theorem target_is :
    attrTypesOf msg =
      [("s", .prim .string), ("l", .list (some (.prim .int64))),
       ("n", .obj (some [("m", .map (some (.prim .string))), ("rev", .prim .int64)])), ("id", .prim .string)] := by
  rfl

theorem scalar_tStr : ScalarTf tStr := Or.inl (fromTable_of_b _ _ _ (by decide))
theorem scalar_tIntList : ScalarTf tIntList := Or.inl (fromTable_of_b _ _ _ (by decide))
theorem scalar_tStrMap : ScalarTf tStrMap := Or.inl (fromTable_of_b _ _ _ (by decide))

theorem irwfs : IRWFs msg.fields := by
  show IRWFs fields
  unfold fields inner
  simp only [IRWFs, IRWF, EmbedOK, List.map_cons, List.map_nil, List.mem_cons, List.mem_nil_iff, or_false,
    not_false_eq_true, and_true, iS, iL, iN, iM]
  refine ⟨⟨by simp, scalar_tStr⟩, by decide, ⟨by simp, trivial, trivial, trivial, scalar_tIntList⟩, by decide,
    by simp, by simp, by simp, trivial, trivial, trivial, rfl, scalar_tStrMap, rfl⟩

theorem injected_disjoint : InjectedDisjoint msg := by
  intro i hi
  have : i.name = "id" := by
    simp only [msg, List.mem_cons, List.mem_nil_iff, or_false] at hi
    rw [hi]
  rw [this]
  decide

theorem primTyped_str (info : FieldInfo) (hn : info.isNullable = false) (hto : info.tf.valueCastToType = "string")
    (hfrom : info.tf.valueCastFromType = "string") (hz : info.tf.zeroValue = "\"\"" ∨ info.tf.zeroValue = "")
    (b : List UInt8) : PrimTyped info (.sc (.str b)) := by
  unfold PrimTyped
  simp only [hn, Bool.false_eq_true, if_false]
  refine ⟨.str b, .str b, rfl, ?_, ?_⟩
  · simp [FieldInfo.castTo, FieldInfo.rep, hto, hfrom, repOfGoType, conv]
  · intro hne
    rcases hz with hz | hz
    · exact ⟨b.isEmpty, by simp [hz, eqLiteral], by simp [scIsZero]⟩
    · exact absurd hz hne

theorem primTyped_i32 (info : FieldInfo) (hn : info.isNullable = false) (hto : info.tf.valueCastToType = "int64")
    (hfrom : info.tf.valueCastFromType = "int32") (hz : info.tf.zeroValue = "0") (x : BitVec 32) :
    PrimTyped info (.sc (.w32 x)) := by
  unfold PrimTyped
  simp only [hn, Bool.false_eq_true, if_false]
  refine ⟨.w32 x, .w64 (x.signExtend 64), rfl, ?_, ?_⟩
  · simp [FieldInfo.castTo, FieldInfo.rep, hto, hfrom, repOfGoType, conv]
  · intro _
    refine ⟨x.signExtend 64 == 0, ?_, ?_⟩
    · rw [hz]; exact PGT.Props.C20.eqLiteral_zero_w64 _
    · simp only [scIsZero]
      rw [Bool.eq_iff_iff]
      simp only [beq_iff_eq]
      exact PGT.Props.C20.signExtend_eq_zero x

theorem reach (info : FieldInfo) (obj : GoVal) (h : info.parentIsOptionalEmbed = false) : ReachableV info obj := by
  intro hp; rw [h] at hp; cases hp

theorem valoks : ValOKs msg.fields val := by
  show ValOKs fields val
  unfold fields
  simp only [ValOKs, ValOK, and_true, iS, iL, iN]
  refine ⟨Or.inr (Or.inr ⟨reach _ _ rfl, ?_⟩), ⟨reach _ _ rfl, Or.inr ⟨_, rfl, ?_⟩⟩,
    reach _ _ rfl, (by intro h; cases h), ?_⟩
  · exact primTyped_str _ rfl rfl rfl (Or.inl rfl) _
  · intro e he
    have : e = .sc (.w32 7) ∨ e = .sc (.w32 0) := by simpa using he
    rcases this with rfl | rfl <;> exact primTyped_i32 _ rfl rfl rfl rfl _
  · unfold MsgTyped
    simp only [if_true]
    refine Or.inr ⟨innerVal, rfl, ?_⟩
    unfold inner
    simp only [ValOKs, ValOK, and_true, iM]
    refine ⟨reach _ _ rfl, Or.inr ⟨_, rfl, by decide, ?_⟩⟩
    intro e he
    have : e = ("k", .sc (.str [118])) ∨ e = ("e", .sc (.str [])) := by simpa using he
    rcases this with rfl | rfl <;> exact primTyped_str _ rfl rfl rfl (Or.inr rfl) _

/-- the theorem applies to the example … -/
theorem C03_example : ∃ r as, copyTo msg val (.obj false false none (some (attrTypesOf msg))) = .ok r ∧ r.diags = [] ∧
    r.tf = .obj false false (some as) (some (attrTypesOf msg)) ∧ rendersFields msg.fields val as = true :=
  C03_schema_typed msg val irwfs valoks

/-- … and the model run on it gives what the theorem says (evaluation) -/
theorem C03_example_runs :
    (match copyTo msg val (.obj false false none (some (attrTypesOf msg))) with
     | .ok r => (match r.tf with
        | .obj _ _ (some as) _ => rendersFields msg.fields val as && r.diags.isEmpty && c20Check msg val r.tf
        | _ => false)
     | _ => false) = true := by
  decide

/-- `ConfigAgrees` holds for the time / duration types a configuration names (here: the harness's) -/
theorem configAgrees_time : ConfigAgrees
    { type := "github.com/gravitational/protoc-gen-terraform/v3/test.TimeType",
      valueType := "github.com/gravitational/protoc-gen-terraform/v3/test.TimeValue",
      castToType := "time.Time", castFromType := "time.Time" } := ⟨.time, by decide, by decide⟩

theorem configAgrees_duration : ConfigAgrees
    { type := "github.com/gravitational/protoc-gen-terraform/v3/test.DurationType",
      valueType := "github.com/gravitational/protoc-gen-terraform/v3/test.DurationValue",
      castToType := "time.Duration", castFromType := "time.Duration" } := ⟨.duration, by decide, by decide⟩

-- `irwfsB` evaluated (`#eval`, compiled code) on the IR the model of the front end (`buildRoot`) builds for a request with every
-- template – string, repeated int32, nested message, list and map of messages, map of strings, configured time type, enum,
-- bytes, embedded message, scalar and message oneof branches, injected attribute – gives `true` for every field. It is not
-- restated as a theorem here: kernel evaluation of `buildRoot` (`decide`) takes minutes even for a one-field message.

end Example

end PGT.SchemaTyped

#print axioms PGT.SchemaTyped.table_agree
#print axioms PGT.SchemaTyped.scalarTf_bridge
#print axioms PGT.SchemaTyped.getTerraformType_origin
#print axioms PGT.SchemaTyped.schema_lookup
#print axioms PGT.SchemaTyped.schemaField_ty
#print axioms PGT.SchemaTyped.toOKs_of_schema
#print axioms PGT.SchemaTyped.toOKs_schema_iff
#print axioms PGT.SchemaTyped.C03_schema_typed
#print axioms PGT.SchemaTyped.C20_schema_typed
#print axioms PGT.SchemaTyped.C04_schema_typed
#print axioms PGT.SchemaTyped.C20_full_schema_typed
#print axioms PGT.SchemaTyped.C04_full_schema_typed
#print axioms PGT.SchemaTyped.tysOK_of_schema
#print axioms PGT.SchemaTyped.C06_schema_typed
#print axioms PGT.SchemaTyped.C06_schema_typed_names
#print axioms PGT.SchemaTyped.attrTypesOf_lookup_injected
#print axioms PGT.SchemaTyped.irwfs_of_b
#print axioms PGT.SchemaTyped.Example.irwfs
#print axioms PGT.SchemaTyped.Example.valoks
#print axioms PGT.SchemaTyped.Example.C03_example_runs
