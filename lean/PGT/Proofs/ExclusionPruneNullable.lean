import PGT.Proofs.ExclusionPruneEmbed
import PGT.Proofs.OrderIndepEmbed
import PGT.Proofs.OrderIndepSiblings
/-
P56 / C11 - `Copy<T>FromTerraform` of the pruned IR when the excluded field is a child of a NULLABLE embedded message
(the case `ExclusionPruneEmbed.lean` leaves open: `copyFrom_pruneE_nullable_full`).

The block of such a child reads and writes the target through the parent pointer `obj.P` (`writeField`, `allocParent`,
`embedGuard` of `CopyFrom.lean`): a known value allocates a nil parent, a null / unknown value resets the field if the
parent is there and does nothing otherwise. So the removed block may be the one that allocates `obj.P`; later blocks of
surviving siblings with null values then write reset values (`zeroWrite`: "" / nil / `[]` / `map{}`) on one side and
nothing on the other. The three candidate statements:

 (a) literal agreement outside `allDroppedGo ++ allDroppedOO ++ allDroppedParents` (the conjecture of
     ExclusionPruneEmbed.lean):  FALSE as stated (`copyFrom_pruneE_nullable_full_false`: a removed ordinary field whose Go
     name is the parent pointer of a surviving child with an ill-shaped value type - the pruned converter is stuck);
     TRUE for struct targets under the hygiene condition `ParentsApart` (`copyFrom_pruneE_nullable_offParents`), as a
     corollary of the precise statement below.
 (b) agreement in the normal form of C04 on everything but the excluded child:  the precise form is the relation `PRel`
     (`copyFrom_pruneE_nullable`, MAIN, removed nodes at ANY depth); its reading for the children of the parent is
     `cfield_rel` / `getVal_child_rel` (every surviving child: related values behind two allocated parents, or readings
     equal in normal form: nil ≡ empty) and `getVal_scalar_child` / `nfEqField_scalar_child` (scalar children: equal
     readings, equal `Spec.nfEqField`). The single statement over `Spec.nfEqFields` is left open
     (`copyFrom_pruneE_nfEq_full`).
 (c) literal agreement (outside the removed Go fields and holders only)
     - when the prior struct already holds the parent:  TRUE (`copyFrom_pruneE_parent_held`,
       `copyFrom_pruneE_parent_held_literal` - the conclusion of `copyFrom_pruneE_deep` without `plainFs`);
     - when some other surviving child of the parent is known and non-null:  FALSE
       (`Example.sibling_known_not_literal`: `E.L` is the empty slice on one side, nil on the other).

Contents
  1. `PRel D Par Z κ` - the relation between the result of the unpruned converter (left) and of the pruned one (right):
     `OffG D` of ExclusionPrune.lean (agreement outside the Go fields named in `D`, at any depth), extended at the Go
     fields `P ∈ Par` (pointers to nullable embedded messages with a removed child): both allocated, to structs that agree
     outside `D` field by field where a field absent on the right may hold a reset value on the left (`pinner`); or
     allocated on the left only, to a struct of reset values (`palloc`, second alternative of `struct.hdom`). Indexed by
     the position `κ` of the value so that the two extra constructors can only occur AT such a Go field. Asymmetric: the
     right parent is allocated only if the left one is. `PV`, `pv_cases` (the three states of a parent pointer),
     `PRel.setField`, `PRel.setLeft`, `prel_embedSet_both`, `prel_embedSet_left`, `prel_resetOneOfs`.
  2. congruence of the blocks of ordinary fields in their recursive call, for `PRel` (`fieldWith_frel`; the proofs of
     `ExclusionPrune.fieldWith_frel` carry over).
  3. the block of a child of a nullable embedded message: uniform description of the block of the same field of the
     embedded struct (`plain_sem`, `plain_writes`, `plain_shape`, `plain_null`), the child's block through the parent
     pointer (`pe_run_ok`, `pe_idle`, `pe_custom_run`, `prim_branch_form`, `objbranch_known`, `objbranch_null`),
     `pe_rel` (surviving child, both sides, all kinds, oneof branches included), `pe_drop` (removed child, left side
     only), `pe_keeps_alloc`. No typing hypothesis (`Fits` of OrderIndepSiblings.lean is not needed: the pruned run
     executes a subset of the guarded bodies of the unpruned run).
  4. `copyFromFields_deepN` / `blockF_deepN` - the mutual induction over the IR.
  5. `copyFrom_pruneE_nullable` (MAIN), `PRel.toOffG`, `copyFrom_pruneE_nullable_offParents` (a),
     `copyFromFields_held`, `copyFrom_pruneE_parent_held(_literal)` (c), `cfield_rel`, `getVal_scalar_child`,
     `nfEqField_scalar_child`, `getVal_child_rel` (b), `copyFrom_pruneE_nullable_full_false`,
     `exclusion_surgical_nullable` (end to end for a selected root).
  6. `Example`: root with a nullable embedded message of two scalar children, `R.x` excluded; plans: only the excluded
     child known / only the other / both / none; priors: empty / parent already set; the theorems instantiated; the
     same one level down (`R.m.x`); `sibling_known_not_literal`.

Hypotheses of MAIN: the target is a struct; `oneOfNames` stored as built (`ooOkFs`, `hm`: true of every built IR,
`built_ooOk`); `ParentsApart` (decidable, `parentsApartB`): no pointer to a nullable embedded message is a Go field that a
removed block assigns or the holder of a removed branch - necessary (`copyFrom_pruneE_nullable_full_false`).
OPEN: `copyFrom_pruneE_nfEq_full`; `ParentsApart` is not derived from the build; non-struct targets.
-/

set_option linter.unusedSimpArgs false
set_option linter.unusedVariables false

namespace PGT.Proofs.ExclusionPruneNullable
open PGT PGT.Proofs.ExclusionPrune PGT.Proofs.ExclusionPruneEmbed PGT.OrderIndep

/-! ## 1. the relation -/

section rel
variable (D Par : List String) (Z : String → String → GoVal → Prop)

/-- every field of `s` (the struct behind the parent pointer `P`) outside `D` is absent or holds a reset value -/
def AllReset (P : String) (s : GoVal) : Prop :=
  ∀ n, n ∉ D → s.field? n = none ∨ ∃ v, s.field? n = some v ∧ Z P n v

/-- **the relation between the result of the unpruned converter (left) and of the pruned converter (right)**, indexed by
the position of the value (`some k`: the content of the Go field `k` of a struct; `none`: anywhere else). -/
inductive PRel : Option String → GoVal → GoVal → Prop
  | refl (κ : Option String) (v : GoVal) : PRel κ v v
  | struct (κ : Option String) (fs fs' : List (String × GoVal))
      (hdom : ∀ k, k ∉ D → (fs.lookup k).isSome = (fs'.lookup k).isSome ∨
        (k ∈ Par ∧ fs'.lookup k = none ∧ ∃ s, fs.lookup k = some (.ptr (some s)) ∧ IsStruct s ∧ AllReset D Z k s))
      (hval : ∀ k v v', k ∉ D → fs.lookup k = some v → fs'.lookup k = some v' → PRel (some k) v v') :
      PRel κ (.struct fs) (.struct fs')
  | ptr (κ : Option String) (v v' : GoVal) (h : PRel none v v') : PRel κ (.ptr (some v)) (.ptr (some v'))
  | slice (κ : Option String) (es es' : List GoVal) (hlen : es.length = es'.length)
      (hval : ∀ (i : Nat) v v', es[i]? = some v → es'[i]? = some v' → PRel none v v') :
      PRel κ (.slice (some es)) (.slice (some es'))
  | map (κ : Option String) (es es' : List (String × GoVal))
      (hdom : ∀ key, (es.lookup key).isSome = (es'.lookup key).isSome)
      (hval : ∀ key v v', es.lookup key = some v → es'.lookup key = some v' → PRel none v v') :
      PRel κ (.map (some es)) (.map (some es'))
  | iface (κ : Option String) (w f : String) (v v' : GoVal) (h : PRel none v v') :
      PRel κ (.iface (some (w, f, v))) (.iface (some (w, f, v')))
  | pinner (P : String) (s s' : GoVal) (hP : P ∈ Par) (hs : IsStruct s) (hs' : IsStruct s')
      (hdom : ∀ n, n ∉ D → (s.field? n).isSome = (s'.field? n).isSome ∨
        (s'.field? n = none ∧ ∃ v, s.field? n = some v ∧ Z P n v))
      (hval : ∀ n v v', n ∉ D → s.field? n = some v → s'.field? n = some v' → PRel (some n) v v') :
      PRel (some P) (.ptr (some s)) (.ptr (some s'))
  | palloc (P : String) (s v' : GoVal) (hP : P ∈ Par) (hs : IsStruct s) (hn : ∀ s', v' ≠ .ptr (some s'))
      (hr : AllReset D Z P s) : PRel (some P) (.ptr (some s)) v'

variable {D Par Z}

theorem PRel.isStruct_iff {o o' : GoVal} (h : PRel D Par Z none o o') : IsStruct o ↔ IsStruct o' := by
  cases h with
  | refl => exact Iff.rfl
  | struct => exact Iff.rfl
  | ptr => exact Iff.rfl
  | slice => exact Iff.rfl
  | map => exact Iff.rfl
  | iface => exact Iff.rfl

/-- the contents of the Go field `P` of two related structs -/
def PV (D Par : List String) (Z : String → String → GoVal → Prop) (P : String) (x x' : Option GoVal) : Prop :=
  (x.isSome = x'.isSome ∨
    (P ∈ Par ∧ x' = none ∧ ∃ s, x = some (.ptr (some s)) ∧ IsStruct s ∧ AllReset D Z P s)) ∧
  (∀ v v', x = some v → x' = some v' → PRel D Par Z (some P) v v')

theorem PRel.getPV {o o' : GoVal} (h : PRel D Par Z none o o') (P : String) (hP : P ∉ D) :
    PV D Par Z P (o.field? P) (o'.field? P) := by
  cases h with
  | refl =>
    exact ⟨Or.inl rfl, fun v v' e e' => by rw [e] at e'; injection e' with e'; subst e'; exact .refl _ _⟩
  | struct _ fs fs' hdom hval => exact ⟨hdom P hP, fun v v' e e' => hval P v v' hP e e'⟩
  | ptr => exact ⟨Or.inl rfl, fun v v' e => by cases e⟩
  | slice => exact ⟨Or.inl rfl, fun v v' e => by cases e⟩
  | map => exact ⟨Or.inl rfl, fun v v' e => by cases e⟩
  | iface => exact ⟨Or.inl rfl, fun v v' e => by cases e⟩

/-- assigning related values to the same Go field of related targets (any field; a field in `D`: any values) -/
theorem PRel.setField {o o' : GoVal} (h : PRel D Par Z none o o') (k : String) {y y' : GoVal}
    (hy : k ∉ D → PRel D Par Z (some k) y y') : PRel D Par Z none (o.setField k y) (o'.setField k y') := by
  have key : ∀ fs fs' : List (String × GoVal),
      (∀ k, k ∉ D → (fs.lookup k).isSome = (fs'.lookup k).isSome ∨
        (k ∈ Par ∧ fs'.lookup k = none ∧ ∃ s, fs.lookup k = some (.ptr (some s)) ∧ IsStruct s ∧ AllReset D Z k s)) →
      (∀ k v v', k ∉ D → fs.lookup k = some v → fs'.lookup k = some v' → PRel D Par Z (some k) v v') →
      PRel D Par Z none (GoVal.struct (setKey k y fs)) (GoVal.struct (setKey k y' fs')) := by
    intro fs fs' hdom hval
    refine .struct _ _ _ (fun name hn => ?_) (fun name v v' hn hv hv' => ?_)
    · by_cases e : name = k
      · subst e; rw [lookup_setKey_same, lookup_setKey_same]; exact Or.inl rfl
      · rw [lookup_setKey_other _ _ _ e, lookup_setKey_other _ _ _ e]; exact hdom name hn
    · by_cases e : name = k
      · subst e
        rw [lookup_setKey_same] at hv hv'
        injection hv with hv; injection hv' with hv'
        subst hv hv'
        exact hy hn
      · rw [lookup_setKey_other _ _ _ e] at hv hv'
        exact hval name v v' hn hv hv'
  cases h with
  | refl =>
    cases o with
    | struct fs =>
      exact key fs fs (fun _ _ => Or.inl rfl)
        (fun _ v v' _ h h' => by rw [h] at h'; injection h' with h'; subst h'; exact .refl _ v)
    | _ => exact .refl _ _
  | struct _ fs fs' hdom hval => exact key fs fs' hdom hval
  | ptr _ v v' h => exact .ptr _ v v' h
  | slice _ es es' hl hv => exact .slice _ es es' hl hv
  | map _ es es' hd hv => exact .map _ es es' hd hv
  | iface _ w f v v' h => exact .iface _ w f v v' h

/-- assigning a Go field named in `D` on the left only -/
theorem PRel.setField_left {o o' : GoVal} (h : PRel D Par Z none o o') (k : String) (hk : k ∈ D)
    (y : GoVal) : PRel D Par Z none (o.setField k y) o' := by
  have key : ∀ fs fs' : List (String × GoVal),
      (∀ k, k ∉ D → (fs.lookup k).isSome = (fs'.lookup k).isSome ∨
        (k ∈ Par ∧ fs'.lookup k = none ∧ ∃ s, fs.lookup k = some (.ptr (some s)) ∧ IsStruct s ∧ AllReset D Z k s)) →
      (∀ k v v', k ∉ D → fs.lookup k = some v → fs'.lookup k = some v' → PRel D Par Z (some k) v v') →
      PRel D Par Z none (GoVal.struct (setKey k y fs)) (GoVal.struct fs') := by
    intro fs fs' hdom hval
    refine .struct _ _ _ (fun name hn => ?_) (fun name v v' hn hv hv' => ?_)
    · have e : name ≠ k := fun e => hn (e ▸ hk)
      rw [lookup_setKey_other _ _ _ e]; exact hdom name hn
    · have e : name ≠ k := fun e => hn (e ▸ hk)
      rw [lookup_setKey_other _ _ _ e] at hv
      exact hval name v v' hn hv hv'
  cases h with
  | refl =>
    cases o with
    | struct fs =>
      exact key fs fs (fun _ _ => Or.inl rfl)
        (fun _ v v' _ h h' => by rw [h] at h'; injection h' with h'; subst h'; exact .refl _ v)
    | _ => exact .refl _ _
  | struct _ fs fs' hdom hval => exact key fs fs' hdom hval
  | ptr _ v v' h => exact .ptr _ v v' h
  | slice _ es es' hl hv => exact .slice _ es es' hl hv
  | map _ es es' hd hv => exact .map _ es es' hd hv
  | iface _ w f v v' h => exact .iface _ w f v v' h

/-- what the new content `y` of the Go field `P` on the left must satisfy against the old content on the right -/
def PVL (D Par : List String) (Z : String → String → GoVal → Prop) (P : String) (y : GoVal) (x' : Option GoVal) : Prop :=
  (∀ v', x' = some v' → PRel D Par Z (some P) y v') ∧
  (x' = none → P ∈ Par ∧ ∃ s, y = .ptr (some s) ∧ IsStruct s ∧ AllReset D Z P s)

/-- assigning the Go field `P` on the left only -/
theorem PRel.setLeft {o o' : GoVal} (h : PRel D Par Z none o o') (P : String) (y : GoVal)
    (hy : PVL D Par Z P y (o'.field? P)) : PRel D Par Z none (o.setField P y) o' := by
  have key : ∀ fs fs' : List (String × GoVal),
      (∀ k, k ∉ D → k ≠ P → (fs.lookup k).isSome = (fs'.lookup k).isSome ∨
        (k ∈ Par ∧ fs'.lookup k = none ∧ ∃ s, fs.lookup k = some (.ptr (some s)) ∧ IsStruct s ∧ AllReset D Z k s)) →
      (∀ k v v', k ∉ D → k ≠ P → fs.lookup k = some v → fs'.lookup k = some v' → PRel D Par Z (some k) v v') →
      PVL D Par Z P y (fs'.lookup P) →
      PRel D Par Z none (GoVal.struct (setKey P y fs)) (GoVal.struct fs') := by
    intro fs fs' hdom hval hy
    refine .struct _ _ _ (fun name hn => ?_) (fun name v v' hn hv hv' => ?_)
    · by_cases e : name = P
      · subst e
        rw [lookup_setKey_same]
        cases hx : fs'.lookup name with
        | some v' => exact Or.inl rfl
        | none =>
          obtain ⟨hp, s, e1, e2, e3⟩ := hy.2 hx
          exact Or.inr ⟨hp, rfl, s, by rw [e1], e2, e3⟩
      · rw [lookup_setKey_other _ _ _ e]; exact hdom name hn e
    · by_cases e : name = P
      · subst e
        rw [lookup_setKey_same] at hv
        injection hv with hv
        subst hv
        exact hy.1 v' hv'
      · rw [lookup_setKey_other _ _ _ e] at hv
        exact hval name v v' hn e hv hv'
  cases h with
  | refl =>
    cases o with
    | struct fs =>
      exact key fs fs (fun _ _ _ => Or.inl rfl)
        (fun _ v v' _ _ h h' => by rw [h] at h'; injection h' with h'; subst h'; exact .refl _ v) hy
    | _ => exact .refl _ _
  | struct _ fs fs' hdom hval => exact key fs fs' (fun k hk _ => hdom k hk) (fun k v v' hk _ => hval k v v' hk) hy
  | ptr _ v v' h => exact .ptr _ v v' h
  | slice _ es es' hl hv => exact .slice _ es es' hl hv
  | map _ es es' hd hv => exact .map _ es es' hd hv
  | iface _ w f v v' h => exact .iface _ w f v v' h

theorem allReset_empty (P : String) : AllReset D Z P (.struct []) := fun _ _ => Or.inl rfl

theorem AllReset.set {P n : String} {s v : GoVal} (h : AllReset D Z P s) (hs : IsStruct s) (hv : n ∈ D ∨ Z P n v) :
    AllReset D Z P (s.setField n v) := by
  intro m hm
  by_cases e : m = n
  · subst e
    rcases hv with hv | hv
    · exact absurd hv hm
    · exact Or.inr ⟨v, field?_setField_same _ _ _ hs, hv⟩
  · rw [field?_setField_other' _ _ _ _ e]
    exact h m hm

/-- both pointers allocated: the structs behind them get related values in field `n` -/
theorem inner_set_both {P n : String} {s1 s2 v1 v2 : GoVal}
    (h : PRel D Par Z (some P) (.ptr (some s1)) (.ptr (some s2))) (hv : n ∉ D → PRel D Par Z (some n) v1 v2) :
    PRel D Par Z (some P) (.ptr (some (s1.setField n v1))) (.ptr (some (s2.setField n v2))) := by
  cases h with
  | refl => exact .ptr _ _ _ ((PRel.refl none s1).setField n hv)
  | ptr _ _ _ h' => exact .ptr _ _ _ (h'.setField n hv)
  | pinner _ _ _ hP hs hs' hd hval =>
    refine .pinner P _ _ hP (isStruct_setField _ _ _ hs) (isStruct_setField _ _ _ hs') (fun m hm => ?_)
      (fun m w w' hm hw hw' => ?_)
    · by_cases e : m = n
      · subst e
        rw [field?_setField_same _ _ _ hs, field?_setField_same _ _ _ hs']
        exact Or.inl rfl
      · rw [field?_setField_other' _ _ _ _ e, field?_setField_other' _ _ _ _ e]
        exact hd m hm
    · by_cases e : m = n
      · subst e
        rw [field?_setField_same _ _ _ hs] at hw
        rw [field?_setField_same _ _ _ hs'] at hw'
        injection hw with hw; injection hw' with hw'
        subst hw hw'
        exact hv hm
      · rw [field?_setField_other' _ _ _ _ e] at hw hw'
        exact hval m w w' hm hw hw'
  | palloc _ _ _ hP hs hn hr => exact absurd rfl (hn s2)

/-- the struct behind the left pointer gets a value in field `n`: a field in `D`, or a reset value while the right side is
not allocated -/
theorem inner_set_left {P n : String} {s1 x v : GoVal}
    (h : PRel D Par Z (some P) (.ptr (some s1)) x) (hv : n ∈ D ∨ (Z P n v ∧ ∀ s', x ≠ .ptr (some s'))) :
    PRel D Par Z (some P) (.ptr (some (s1.setField n v))) x := by
  cases h with
  | refl =>
    rcases hv with hv | ⟨_, hv⟩
    · exact .ptr _ _ _ ((PRel.refl none s1).setField_left n hv v)
    · exact absurd rfl (hv s1)
  | ptr _ _ s2 h' =>
    rcases hv with hv | ⟨_, hv⟩
    · exact .ptr _ _ _ (h'.setField_left n hv v)
    · exact absurd rfl (hv s2)
  | pinner _ _ s2 hP hs hs' hd hval =>
    rcases hv with hv | ⟨_, hv⟩
    · refine .pinner P _ _ hP (isStruct_setField _ _ _ hs) hs' (fun m hm => ?_) (fun m w w' hm hw hw' => ?_)
      · have e : m ≠ n := fun e => hm (e ▸ hv)
        rw [field?_setField_other' _ _ _ _ e]
        exact hd m hm
      · have e : m ≠ n := fun e => hm (e ▸ hv)
        rw [field?_setField_other' _ _ _ _ e] at hw
        exact hval m w w' hm hw hw'
    · exact absurd rfl (hv s2)
  | palloc _ _ _ hP hs hn hr =>
    refine .palloc P _ _ hP (isStruct_setField _ _ _ hs) hn (hr.set hs ?_)
    rcases hv with hv | ⟨hv, _⟩
    · exact Or.inl hv
    · exact Or.inr hv

/-- the three states of a parent pointer: both sides allocated (and related); only the left side allocated (a struct of
reset values, the parent is one whose child was removed); neither side allocated -/
theorem pv_cases {P : String} {x x' : Option GoVal} (h : PV D Par Z P x x') :
    (∃ s1 s2, x = some (.ptr (some s1)) ∧ x' = some (.ptr (some s2)) ∧
      PRel D Par Z (some P) (.ptr (some s1)) (.ptr (some s2))) ∨
    (∃ s1, x = some (.ptr (some s1)) ∧ (∀ s2, x' ≠ some (.ptr (some s2))) ∧ P ∈ Par ∧ IsStruct s1 ∧ AllReset D Z P s1) ∨
    ((∀ s, x ≠ some (.ptr (some s))) ∧ (∀ s, x' ≠ some (.ptr (some s)))) := by
  obtain ⟨hd | ⟨hp, hx', s, hx, hs, hr⟩, hv⟩ := h
  · cases x with
    | none =>
      cases x' with
      | none => exact Or.inr (Or.inr ⟨fun s e => (by cases e), fun s e => (by cases e)⟩)
      | some v' => simp at hd
    | some v =>
      cases x' with
      | none => simp at hd
      | some v' =>
        have hr := hv v v' rfl rfl
        cases hr with
        | refl =>
          cases v with
          | ptr o =>
            cases o with
            | some s => exact Or.inl ⟨s, s, rfl, rfl, .refl _ _⟩
            | none => exact Or.inr (Or.inr ⟨fun s e => (by cases e), fun s e => (by cases e)⟩)
          | _ => exact Or.inr (Or.inr ⟨fun s e => (by cases e), fun s e => (by cases e)⟩)
        | struct => exact Or.inr (Or.inr ⟨fun s e => (by cases e), fun s e => (by cases e)⟩)
        | ptr _ a b h' => exact Or.inl ⟨a, b, rfl, rfl, .ptr _ _ _ h'⟩
        | slice => exact Or.inr (Or.inr ⟨fun s e => (by cases e), fun s e => (by cases e)⟩)
        | map => exact Or.inr (Or.inr ⟨fun s e => (by cases e), fun s e => (by cases e)⟩)
        | iface => exact Or.inr (Or.inr ⟨fun s e => (by cases e), fun s e => (by cases e)⟩)
        | pinner _ a b hP hs hs' hd' hval => exact Or.inl ⟨a, b, rfl, rfl, .pinner P a b hP hs hs' hd' hval⟩
        | palloc _ a _ hP hs hn hr =>
          exact Or.inr (Or.inl ⟨a, rfl, fun s2 e => (by injection e with e; exact hn s2 e), hP, hs, hr⟩)
  · subst hx'
    exact Or.inr (Or.inl ⟨s, hx, fun s2 e => (by cases e), hp, hs, hr⟩)

/-- the structs behind the parent pointer `P` of two related targets (the empty struct for a nil parent), as pointers -/
theorem pval_both {o1 o2 : GoVal} (h : PRel D Par Z none o1 o2) (P : String) (hP : P ∉ D) :
    PRel D Par Z (some P) (.ptr (some (innerOf P o1))) (.ptr (some (innerOf P o2))) := by
  rcases pv_cases (h.getPV P hP) with ⟨s1, s2, e1, e2, hr⟩ | ⟨s1, e1, hn, hp, hs, hr⟩ | ⟨hn1, hn2⟩
  · rw [innerOf_alloc P o1 s1 e1, innerOf_alloc P o2 s2 e2]; exact hr
  · rw [innerOf_alloc P o1 s1 e1, innerOf_unalloc P o2 hn]
    refine .pinner P _ _ hp hs trivial (fun n hn => ?_) (fun n v v' _ _ e => (by cases e))
    rcases hr n hn with e | ⟨v, e, hz⟩
    · rw [e]; exact Or.inl rfl
    · exact Or.inr ⟨rfl, v, e, hz⟩
  · rw [innerOf_unalloc P o1 hn1, innerOf_unalloc P o2 hn2]; exact .refl _ _

/-- … on the left only: `P` is the parent of a removed child, or the right side is allocated -/
theorem pvl_left {o1 o2 : GoVal} (h : PRel D Par Z none o1 o2) (P : String) (hP : P ∉ D)
    (hPar : P ∈ Par ∨ ∃ s, o2.field? P = some (.ptr (some s))) :
    PVL D Par Z P (.ptr (some (innerOf P o1))) (o2.field? P) := by
  rcases pv_cases (h.getPV P hP) with ⟨s1, s2, e1, e2, hr⟩ | ⟨s1, e1, hn, hp, hs, hr⟩ | ⟨hn1, hn2⟩
  · rw [innerOf_alloc P o1 s1 e1, e2]
    exact ⟨fun v' e => (by injection e with e; subst e; exact hr), fun e => (by cases e)⟩
  · rw [innerOf_alloc P o1 s1 e1]
    exact ⟨fun v' e => .palloc P s1 v' hp hs (fun s' e' => hn s' (by rw [e, e'])) hr, fun _ => ⟨hp, s1, rfl, hs, hr⟩⟩
  · have hPar' : P ∈ Par := by
      rcases hPar with hp | ⟨s, e⟩
      · exact hp
      · exact absurd e (hn2 s)
    rw [innerOf_unalloc P o1 hn1]
    exact ⟨fun v' e => .palloc P _ v' hPar' trivial (fun s' e' => hn2 s' (by rw [e, e'])) (allReset_empty P),
      fun _ => ⟨hPar', _, rfl, trivial, allReset_empty P⟩⟩

theorem PVL.set {P n : String} {s1 v : GoVal} {x' : Option GoVal} (h : PVL D Par Z P (.ptr (some s1)) x')
    (hv : n ∈ D ∨ (Z P n v ∧ ∀ s', x' ≠ some (.ptr (some s')))) :
    PVL D Par Z P (.ptr (some (s1.setField n v))) x' := by
  refine ⟨fun v' e => inner_set_left (h.1 v' e) ?_, fun e => ?_⟩
  · rcases hv with hv | ⟨hz, hn⟩
    · exact Or.inl hv
    · exact Or.inr ⟨hz, fun s' e' => hn s' (by rw [e, e'])⟩
  · obtain ⟨hp, s, e1, hs, hr⟩ := h.2 e
    injection e1 with e1
    injection e1 with e1
    subst e1
    refine ⟨hp, _, rfl, isStruct_setField _ _ _ hs, hr.set hs ?_⟩
    rcases hv with hv | ⟨hz, _⟩
    · exact Or.inl hv
    · exact Or.inr hz

/-- both sides assign field `n` of the struct behind the parent pointer `P` (allocating it if need be) -/
theorem prel_embedSet_both {o1 o2 : GoVal} (h : PRel D Par Z none o1 o2) (P n : String) (hP : P ∉ D) {v1 v2 : GoVal}
    (hv : n ∉ D → PRel D Par Z (some n) v1 v2) : PRel D Par Z none (embedSet P n o1 v1) (embedSet P n o2 v2) :=
  h.setField P (fun _ => inner_set_both (pval_both h P hP) hv)

/-- both sides allocate the parent pointer `P` if it is nil -/
theorem prel_alloc_both {o1 o2 : GoVal} (h : PRel D Par Z none o1 o2) (P : String) (hP : P ∉ D) :
    PRel D Par Z none (o1.setField P (.ptr (some (innerOf P o1)))) (o2.setField P (.ptr (some (innerOf P o2)))) :=
  h.setField P (fun _ => pval_both h P hP)

/-- the left side only assigns field `n` behind the parent pointer `P` -/
theorem prel_embedSet_left {o1 o2 : GoVal} (h : PRel D Par Z none o1 o2) (P n : String) (hP : P ∉ D)
    (hPar : P ∈ Par ∨ ∃ s, o2.field? P = some (.ptr (some s))) (v : GoVal) (hv : n ∈ D ∨ (Z P n v ∧ NotAlloc P o2)) : PRel D Par Z none (embedSet P n o1 v) o2 :=
  h.setLeft P _ ((pvl_left h P hP hPar).set hv)

theorem prel_alloc_left {o1 o2 : GoVal} (h : PRel D Par Z none o1 o2) (P : String) (hP : P ∉ D)
    (hPar : P ∈ Par ∨ ∃ s, o2.field? P = some (.ptr (some s))) :
    PRel D Par Z none (o1.setField P (.ptr (some (innerOf P o1)))) o2 :=
  h.setLeft P _ (pvl_left h P hP hPar)

theorem PRel.applyWrites_left {o o' : GoVal} : ∀ (ws : List (String × GoVal)), (∀ w ∈ ws, w.1 ∈ D) →
    PRel D Par Z none o o' → PRel D Par Z none (applyWrites ws o) o'
  | [], _, h => h
  | w :: ws, hw, h => by
    simp only [applyWrites, List.foldl]
    exact PRel.applyWrites_left ws (fun x hx => hw x (List.mem_cons_of_mem _ hx))
      (h.setField_left w.1 (hw w List.mem_cons_self) w.2)

theorem PRel.applyWrites_same {o o' : GoVal} : ∀ (ws : List (String × GoVal)),
    PRel D Par Z none o o' → PRel D Par Z none (applyWrites ws o) (applyWrites ws o')
  | [], h => h
  | w :: ws, h => by
    simp only [applyWrites, List.foldl]
    exact PRel.applyWrites_same ws (h.setField w.1 (fun _ => .refl _ _))

/-- resetting two lists of holders that agree outside `D` keeps targets related -/
theorem prel_resetOneOfs (ns ns' : List String) (hns : ∀ n, n ∉ D → (n ∈ ns ↔ n ∈ ns'))
    {o o' : GoVal} (h : PRel D Par Z none o o') : PRel D Par Z none (resetOneOfs ns o) (resetOneOfs ns' o') := by
  have key : ∀ fs fs' : List (String × GoVal),
      (∀ k, k ∉ D → (fs.lookup k).isSome = (fs'.lookup k).isSome ∨
        (k ∈ Par ∧ fs'.lookup k = none ∧ ∃ s, fs.lookup k = some (.ptr (some s)) ∧ IsStruct s ∧ AllReset D Z k s)) →
      (∀ k v v', k ∉ D → fs.lookup k = some v → fs'.lookup k = some v' → PRel D Par Z (some k) v v') →
      PRel D Par Z none (resetOneOfs ns (.struct fs)) (resetOneOfs ns' (.struct fs')) := by
    intro fs fs' hdom hval
    obtain ⟨gs, e1, l1⟩ := resetOneOfs_struct ns fs
    obtain ⟨gs', e2, l2⟩ := resetOneOfs_struct ns' fs'
    rw [e1, e2]
    refine .struct _ _ _ (fun name hn => ?_) (fun name v v' hn hv hv' => ?_)
    · rw [l1, l2]
      by_cases hk : name ∈ ns
      · have hk' := (hns name hn).mp hk
        simp [hk, hk']
      · have hk' : name ∉ ns' := fun h' => hk ((hns name hn).mpr h')
        simp only [hk, hk', if_false]
        exact hdom name hn
    · rw [l1] at hv
      rw [l2] at hv'
      by_cases hk : name ∈ ns
      · have hk' := (hns name hn).mp hk
        simp only [hk, hk', if_true] at hv hv'
        injection hv with hv; injection hv' with hv'
        subst hv hv'
        exact .refl _ _
      · have hk' : name ∉ ns' := fun h' => hk ((hns name hn).mpr h')
        simp only [hk, hk', if_false] at hv hv'
        exact hval name v v' hn hv hv'
  cases h with
  | refl =>
    cases o with
    | struct fs =>
      exact key fs fs (fun _ _ => Or.inl rfl)
        (fun _ v v' _ h h' => by rw [h] at h'; injection h' with h'; subst h'; exact .refl _ v)
    | sc x => rw [resetOneOfs_id ns _ (fun _ _ => rfl), resetOneOfs_id ns' _ (fun _ _ => rfl)]; exact .refl _ _
    | ptr x => rw [resetOneOfs_id ns _ (fun _ _ => rfl), resetOneOfs_id ns' _ (fun _ _ => rfl)]; exact .refl _ _
    | slice x => rw [resetOneOfs_id ns _ (fun _ _ => rfl), resetOneOfs_id ns' _ (fun _ _ => rfl)]; exact .refl _ _
    | map x => rw [resetOneOfs_id ns _ (fun _ _ => rfl), resetOneOfs_id ns' _ (fun _ _ => rfl)]; exact .refl _ _
    | iface x => rw [resetOneOfs_id ns _ (fun _ _ => rfl), resetOneOfs_id ns' _ (fun _ _ => rfl)]; exact .refl _ _
  | struct _ fs fs' hdom hval => exact key fs fs' hdom hval
  | ptr _ v v' h =>
    rw [resetOneOfs_id ns _ (fun _ _ => rfl), resetOneOfs_id ns' _ (fun _ _ => rfl)]; exact .ptr _ v v' h
  | slice _ es es' hl hv =>
    rw [resetOneOfs_id ns _ (fun _ _ => rfl), resetOneOfs_id ns' _ (fun _ _ => rfl)]; exact .slice _ es es' hl hv
  | map _ es es' hd hv =>
    rw [resetOneOfs_id ns _ (fun _ _ => rfl), resetOneOfs_id ns' _ (fun _ _ => rfl)]; exact .map _ es es' hd hv
  | iface _ w f v v' h =>
    rw [resetOneOfs_id ns _ (fun _ _ => rfl), resetOneOfs_id ns' _ (fun _ _ => rfl)]; exact .iface _ w f v v' h

/-- a relation between values anywhere holds at every position -/
theorem PRel.lift {κ : Option String} {v v' : GoVal} (h : PRel D Par Z none v v') : PRel D Par Z κ v v' := by
  cases h with
  | refl => exact .refl _ _
  | struct _ fs fs' hdom hval => exact .struct _ fs fs' hdom hval
  | ptr _ v v' h => exact .ptr _ v v' h
  | slice _ es es' hl hv => exact .slice _ es es' hl hv
  | map _ es es' hd hv => exact .map _ es es' hd hv
  | iface _ w f v v' h => exact .iface _ w f v v' h

end rel

/-! ## 2. congruence of the blocks of fields that are NOT children of a nullable embedded message (as
`ExclusionPrune.fieldWith_frel`, for `PRel`) -/

section congr
variable {D Par : List String} {Z : String → String → GoVal → Prop}

def ListRel (D Par : List String) (Z : String → String → GoVal → Prop) (es es' : List GoVal) : Prop :=
  es.length = es'.length ∧ ∀ (i : Nat) v v', es[i]? = some v → es'[i]? = some v' → PRel D Par Z none v v'

def MapRel (D Par : List String) (Z : String → String → GoVal → Prop) (es es' : List (String × GoVal)) : Prop :=
  (∀ key, (es.lookup key).isSome = (es'.lookup key).isSome) ∧
  (∀ key v v', es.lookup key = some v → es'.lookup key = some v' → PRel D Par Z none v v')

theorem ListRel.refl (es : List GoVal) : ListRel D Par Z es es :=
  ⟨rfl, fun _ v v' h h' => by rw [h] at h'; injection h' with h'; subst h'; exact .refl _ v⟩

theorem MapRel.refl (es : List (String × GoVal)) : MapRel D Par Z es es :=
  ⟨fun _ => rfl, fun _ v v' h h' => by rw [h] at h'; injection h' with h'; subst h'; exact .refl _ v⟩

theorem ListRel.set {es es' : List GoVal} (h : ListRel D Par Z es es') (k : Nat) {v v' : GoVal}
    (hv : PRel D Par Z none v v') : ListRel D Par Z (es.set k v) (es'.set k v') := by
  refine ⟨by simp [h.1], fun i w w' hw hw' => ?_⟩
  simp only [List.getElem?_set] at hw hw'
  by_cases e : k = i
  · subst e
    by_cases hl : k < es.length
    · have hl' : k < es'.length := h.1 ▸ hl
      simp only [hl, hl', if_true] at hw hw'
      injection hw with hw; injection hw' with hw'
      subst hw hw'
      exact hv
    · have hl' : ¬ k < es'.length := h.1 ▸ hl
      simp only [hl, hl', if_true, if_false] at hw hw'
      cases hw
  · simp only [e, if_false] at hw hw'
    exact h.2 i w w' hw hw'

theorem MapRel.set {es es' : List (String × GoVal)} (h : MapRel D Par Z es es') (k : String) {v v' : GoVal}
    (hv : PRel D Par Z none v v') : MapRel D Par Z (setKey k v es) (setKey k v' es') := by
  refine ⟨fun key => ?_, fun key w w' hw hw' => ?_⟩
  · by_cases e : key = k
    · subst e; rw [lookup_setKey_same, lookup_setKey_same]; rfl
    · rw [lookup_setKey_other _ _ _ e, lookup_setKey_other _ _ _ e]; exact h.1 key
  · by_cases e : key = k
    · subst e
      rw [lookup_setKey_same] at hw hw'
      injection hw with hw; injection hw' with hw'
      subst hw hw'
      exact hv
    · rw [lookup_setKey_other _ _ _ e] at hw hw'
      exact h.2 key w w' hw hw'


/-- the recursive calls are related: on a fresh struct (whatever the logs), if `rec` succeeds so does `rec'`, and the
structs they fill agree outside `D` -/
def FRecRel' (D Par : List String) (Z : String → String → GoVal → Prop) (rec rec' : FromRec) : Prop :=
  ∀ as d1 h1 d2 h2 (t1 : FromSt), rec as { obj := .struct [], diags := d1, hooks := h1 } = .ok t1 →
    ∃ t2, rec' as { obj := .struct [], diags := d2, hooks := h2 } = .ok t2 ∧ PRel D Par Z none t1.obj t2.obj

def OptRel (D Par : List String) (Z : String → String → GoVal → Prop) : Option GoVal → Option GoVal → Prop
  | none, none => True
  | some a, some b => PRel D Par Z none a b
  | _, _ => False

abbrev FBody' := TfVal → List Diag → List HookCall → Outcome (Option GoVal × List Diag × List HookCall)

def FBodyRel' (D Par : List String) (Z : String → String → GoVal → Prop) (body body' : FBody') : Prop :=
  ∀ e d1 h1 d2 h2 r1, body e d1 h1 = .ok r1 → ∃ r2, body' e d2 h2 = .ok r2 ∧ OptRel D Par Z r1.1 r2.1

theorem fromElemsList_rel (body body' : FBody') (hb : FBodyRel' D Par Z body body') :
    ∀ (elems : List TfVal) (k : Nat) (acc acc' : List GoVal) (d1 d2 : List Diag) (h1 h2 : List HookCall)
      (r1 : List GoVal × List Diag × List HookCall), ListRel D Par Z acc acc' →
      fromElemsList body elems k acc d1 h1 = .ok r1 →
      ∃ r2, fromElemsList body' elems k acc' d2 h2 = .ok r2 ∧ ListRel D Par Z r1.1 r2.1
  | [], k, acc, acc', d1, d2, h1, h2, r1, hacc, h => by
    simp only [fromElemsList] at h ⊢
    injection h with h
    subst h
    exact ⟨_, rfl, hacc⟩
  | a :: rest, k, acc, acc', d1, d2, h1, h2, r1, hacc, h => by
    simp only [fromElemsList] at h ⊢
    cases hx : body a d1 h1 with
    | panic w => rw [hx] at h; cases h
    | stuck w => rw [hx] at h; cases h
    | ok x1 =>
      obtain ⟨x2, hx2, hv⟩ := hb a d1 h1 d2 h2 x1 hx
      rw [hx] at h
      rw [hx2]
      obtain ⟨v1, ds1, hs1⟩ := x1
      obtain ⟨v2, ds2, hs2⟩ := x2
      cases v1 with
      | none =>
        cases v2 with
        | none =>
          simp only [] at h ⊢
          exact fromElemsList_rel body body' hb rest (k + 1) _ _ ds1 ds2 hs1 hs2 r1 hacc h
        | some b => exact hv.elim
      | some a1 =>
        cases v2 with
        | none => exact hv.elim
        | some a2 =>
          simp only [] at h ⊢
          exact fromElemsList_rel body body' hb rest (k + 1) _ _ ds1 ds2 hs1 hs2 r1 (hacc.set k hv) h

theorem fromElemsMap_rel (body body' : FBody') (hb : FBodyRel' D Par Z body body') :
    ∀ (elems : List (String × TfVal)) (acc acc' : List (String × GoVal)) (d1 d2 : List Diag) (h1 h2 : List HookCall)
      (r1 : List (String × GoVal) × List Diag × List HookCall), MapRel D Par Z acc acc' →
      fromElemsMap body elems acc d1 h1 = .ok r1 →
      ∃ r2, fromElemsMap body' elems acc' d2 h2 = .ok r2 ∧ MapRel D Par Z r1.1 r2.1
  | [], acc, acc', d1, d2, h1, h2, r1, hacc, h => by
    simp only [fromElemsMap] at h ⊢
    injection h with h
    subst h
    exact ⟨_, rfl, hacc⟩
  | (k, a) :: rest, acc, acc', d1, d2, h1, h2, r1, hacc, h => by
    simp only [fromElemsMap] at h ⊢
    cases hx : body a d1 h1 with
    | panic w => rw [hx] at h; cases h
    | stuck w => rw [hx] at h; cases h
    | ok x1 =>
      obtain ⟨x2, hx2, hv⟩ := hb a d1 h1 d2 h2 x1 hx
      rw [hx] at h
      rw [hx2]
      obtain ⟨v1, ds1, hs1⟩ := x1
      obtain ⟨v2, ds2, hs2⟩ := x2
      cases v1 with
      | none =>
        cases v2 with
        | none =>
          simp only [] at h ⊢
          exact fromElemsMap_rel body body' hb rest _ _ ds1 ds2 hs1 hs2 r1 hacc h
        | some b => exact hv.elim
      | some a1 =>
        cases v2 with
        | none => exact hv.elim
        | some a2 =>
          simp only [] at h ⊢
          exact fromElemsMap_rel body body' hb rest _ _ ds1 ds2 hs1 hs2 r1 (hacc.set k hv) h

theorem fromElemBody_rel (rec rec' : FromRec) (hrec : FRecRel' D Par Z rec rec') (ov : List (String × String))
    (info vf : FieldInfo) : FBodyRel' D Par Z (fromElemBody rec ov info vf) (fromElemBody rec' ov info vf) := by
  intro e d1 h1 d2 h2 r1 h
  unfold fromElemBody at h ⊢
  by_cases c : (e.vkind != vkindOf vf.tf.elemValueType || e.vkind == VKind.unknown) = true
  · simp only [c, if_true] at h ⊢
    injection h with h
    subst h
    exact ⟨_, rfl, trivial⟩
  · simp only [c, Bool.false_eq_true, if_false] at h ⊢
    cases e with
    | prim k u nl p =>
      simp only [] at h ⊢
      by_cases c2 : (info.kind == Kind.primitiveList || info.kind == Kind.primitiveMap) = true
      · simp only [c2, if_true] at h ⊢
        cases hp : primDecode info k u nl p with
        | panic w => rw [hp] at h; cases h
        | stuck w => rw [hp] at h; cases h
        | ok t =>
          rw [hp] at h
          simp only [] at h ⊢
          injection h with h
          subst h
          exact ⟨_, rfl, PRel.refl _ _⟩
      · simp only [c2, Bool.false_eq_true, if_false] at h
        cases h
    | obj u nl attrs atys =>
      simp only [] at h ⊢
      by_cases c2 : (info.kind == Kind.objectList || info.kind == Kind.objectMap) = true
      · simp only [c2, if_true] at h ⊢
        by_cases c3 : known u nl = true
        · simp only [c3, if_true] at h ⊢
          cases hr : rec attrs { obj := .struct [], diags := d1, hooks := h1 } with
          | panic w => rw [hr] at h; cases h
          | stuck w => rw [hr] at h; cases h
          | ok t1 =>
            obtain ⟨t2, ht2, hoff⟩ := hrec attrs d1 h1 d2 h2 t1 hr
            rw [hr] at h
            rw [ht2]
            simp only [] at h ⊢
            injection h with h
            subst h
            refine ⟨_, rfl, ?_⟩
            show PRel D Par Z none _ _
            cases info.isNullable
            · exact hoff
            · exact .ptr _ _ _ hoff
        · simp only [c3, Bool.false_eq_true, if_false] at h ⊢
          injection h with h
          subst h
          exact ⟨_, rfl, PRel.refl _ _⟩
      · simp only [c2, Bool.false_eq_true, if_false] at h
        cases h
    | list _ _ _ _ => cases h
    | map _ _ _ _ => cases h
    | nilv => cases h
    | foreign _ => cases h

/-- two blocks, as functions of the target: from related targets, if the first succeeds so does the second, with
related targets -/
def FRel' (D Par : List String) (Z : String → String → GoVal → Prop) (F F' : GoVal → Outcome FromSt) : Prop :=
  ∀ o o' t, PRel D Par Z none o o' → F o = .ok t → ∃ t', F' o' = .ok t' ∧ PRel D Par Z none t.obj t'.obj

theorem frel_none (d d' : List Diag) (h h' : List HookCall) :
    FRel' D Par Z (fun o => .ok { obj := o, diags := d, hooks := h }) (fun o => .ok { obj := o, diags := d', hooks := h' }) := by
  intro o o' t ho e; injection e with e; subst e; exact ⟨_, rfl, ho⟩

theorem frel_set (k : String) (y y' : GoVal) (hy : PRel D Par Z none y y') (d d' : List Diag) (h h' : List HookCall) :
    FRel' D Par Z (fun o => .ok { obj := o.setField k y, diags := d, hooks := h })
      (fun o => .ok { obj := o.setField k y', diags := d', hooks := h' }) := by
  intro o o' t ho e; injection e with e; subst e; exact ⟨_, rfl, ho.setField k (fun _ => hy.lift)⟩

theorem frel_set2 (k : String) (x x' y y' : GoVal) (hx : PRel D Par Z none x x') (hy : PRel D Par Z none y y')
    (d d' : List Diag) (h h' : List HookCall) :
    FRel' D Par Z (fun o => .ok { obj := (o.setField k x).setField k y, diags := d, hooks := h })
      (fun o => .ok { obj := (o.setField k x').setField k y', diags := d', hooks := h' }) := by
  intro o o' t ho e; injection e with e; subst e; exact ⟨_, rfl, (ho.setField k (fun _ => hx.lift)).setField k (fun _ => hy.lift)⟩

theorem frel_stuck (m : String) (F' : GoVal → Outcome FromSt) : FRel' D Par Z (fun _ => .stuck m) F' := by
  intro o o' t _ e; cases e
theorem frel_panic (m : String) (F' : GoVal → Outcome FromSt) : FRel' D Par Z (fun _ => .panic m) F' := by
  intro o o' t _ e; cases e

local macro "offg" : tactic => `(tactic| first
  | exact PRel.refl _ _ | assumption | exact PRel.ptr _ _ _ (by assumption)
  | exact PRel.iface _ _ _ _ _ (PRel.ptr _ _ _ (by assumption))
  | exact PRel.slice _ _ _ (by assumption) (by assumption) | exact PRel.map _ _ _ (by assumption) (by assumption))

local macro "frel_crush" : tactic => `(tactic| repeat' (first
  | split | exact frel_none _ _ _ _ | exact frel_set _ _ _ (by offg) _ _ _ _
  | exact frel_set2 _ _ _ _ _ (by offg) (by offg) _ _ _ _
  | exact frel_stuck _ _ | exact frel_panic _ _))

section blocks
variable (rec rec' : FromRec) (ov : List (String × String))
    (info : FieldInfo) (mv : Option FieldInfo) (msg : Option MsgInfo) (attrs : Option (List (String × TfVal)))
    (ds ds' : List Diag) (hs hs' : List HookCall)

theorem fieldWith_frel_custom (he : info.parentIsOptionalEmbed = false) (hk : info.kind = .custom) :
    FRel' D Par Z (fun o => copyFromFieldWith rec ov info mv msg attrs { obj := o, diags := ds, hooks := hs })
      (fun o => copyFromFieldWith rec' ov info mv msg attrs { obj := o, diags := ds', hooks := hs' }) := by
  unfold copyFromFieldWith
  simp only [writeField_plain info _ _ he, he, FromSt.diag, hk]
  cases (attrs.getD []).lookup info.nameSnake <;> simp only [Bool.false_eq_true, if_false] <;>
    exact frel_set _ _ _ (.refl _ _) _ _ _ _

theorem fieldWith_frel_prim_plain (he : info.parentIsOptionalEmbed = false) (hk : info.kind = .primitive)
    (ho : info.oneOfName = "") :
    FRel' D Par Z (fun o => copyFromFieldWith rec ov info mv msg attrs { obj := o, diags := ds, hooks := hs })
      (fun o => copyFromFieldWith rec' ov info mv msg attrs { obj := o, diags := ds', hooks := hs' }) := by
  unfold copyFromFieldWith
  simp only [embedGuard_plain info _ _ he, writeField_plain info _ _ he, he, FromSt.diag, hk]
  simp only [ho, bne_self_eq_false, Bool.false_eq_true, if_false]
  cases (attrs.getD []).lookup info.nameSnake with
  | none => exact frel_none _ _ _ _
  | some a =>
    simp only []; cases a <;> simp only [] <;> frel_crush

theorem fieldWith_frel_prim_branch (he : info.parentIsOptionalEmbed = false) (hk : info.kind = .primitive)
    (ho : info.oneOfName ≠ "") :
    FRel' D Par Z (fun o => copyFromFieldWith rec ov info mv msg attrs { obj := o, diags := ds, hooks := hs })
      (fun o => copyFromFieldWith rec' ov info mv msg attrs { obj := o, diags := ds', hooks := hs' }) := by
  unfold copyFromFieldWith
  simp only [embedGuard_plain info _ _ he, writeField_plain info _ _ he, he, FromSt.diag, hk]
  have hb : (info.oneOfName != "") = true := by simpa using ho
  simp only [hb, if_true]
  cases (attrs.getD []).lookup info.nameSnake with
  | none => exact frel_none _ _ _ _
  | some a => simp only []; cases a <;> simp only [] <;> frel_crush

theorem fieldWith_frel_obj_plain (hrec : FRecRel' D Par Z rec rec') (he : info.parentIsOptionalEmbed = false)
    (hk : info.kind = .object) (ho : info.oneOfName = "") :
    FRel' D Par Z (fun o => copyFromFieldWith rec ov info mv msg attrs { obj := o, diags := ds, hooks := hs })
      (fun o => copyFromFieldWith rec' ov info mv msg attrs { obj := o, diags := ds', hooks := hs' }) := by
  unfold copyFromFieldWith
  simp only [embedGuard_plain info _ _ he, writeField_plain info _ _ he, he, FromSt.diag, hk]
  simp only [ho, beq_self_eq_true, if_true]
  cases (attrs.getD []).lookup info.nameSnake with
  | none => exact frel_none _ _ _ _
  | some a =>
    simp only []
    cases a with
    | obj unk null as atys =>
      simp only []
      cases hr : rec as { obj := .struct [], diags := ds, hooks := hs } with
      | ok t1 =>
        obtain ⟨t2, ht2, hoff⟩ := hrec as ds hs ds' hs' t1 hr
        simp only [ht2]
        frel_crush
      | panic w => simp only []; frel_crush
      | stuck w => simp only []; frel_crush
    | _ => simp only []; frel_crush

theorem fieldWith_frel_obj_branch (hrec : FRecRel' D Par Z rec rec') (he : info.parentIsOptionalEmbed = false)
    (hk : info.kind = .object) (ho : info.oneOfName ≠ "") :
    FRel' D Par Z (fun o => copyFromFieldWith rec ov info mv msg attrs { obj := o, diags := ds, hooks := hs })
      (fun o => copyFromFieldWith rec' ov info mv msg attrs { obj := o, diags := ds', hooks := hs' }) := by
  unfold copyFromFieldWith
  simp only [embedGuard_plain info _ _ he, writeField_plain info _ _ he, he, FromSt.diag, hk]
  have hb : (info.oneOfName == "") = false := by simpa using ho
  simp only [hb, Bool.false_eq_true, if_false]
  cases (attrs.getD []).lookup info.nameSnake with
  | none => exact frel_none _ _ _ _
  | some a =>
    simp only []
    cases a with
    | obj unk null as atys =>
      simp only []
      cases hem : isEmptyMsg msg with
      | true =>
        simp only [Bool.not_true, Bool.false_eq_true, if_false]
        frel_crush
      | false =>
        simp only [Bool.not_false, if_true]
        cases hr : rec as { obj := .struct [], diags := ds, hooks := hs } with
        | ok t1 =>
          obtain ⟨t2, ht2, hoff⟩ := hrec as ds hs ds' hs' t1 hr
          simp only [ht2]
          frel_crush
        | panic w => simp only []; frel_crush
        | stuck w => simp only []; frel_crush
    | _ => simp only []; frel_crush

theorem fieldWith_frel_primitiveList (hrec : FRecRel' D Par Z rec rec') (he : info.parentIsOptionalEmbed = false)
    (hk : info.kind = .primitiveList) :
    FRel' D Par Z (fun o => copyFromFieldWith rec ov info mv msg attrs { obj := o, diags := ds, hooks := hs })
      (fun o => copyFromFieldWith rec' ov info mv msg attrs { obj := o, diags := ds', hooks := hs' }) := by
  unfold copyFromFieldWith
  simp only [embedGuard_plain info _ _ he, writeField_plain info _ _ he, he, FromSt.diag, hk]
  cases (attrs.getD []).lookup info.nameSnake with
  | none => exact frel_none _ _ _ _
  | some a =>
    simp only []
    cases a with
    | list unk null elems ety =>
      simp only []
      have hh := fromElemsList_rel _ _ (fromElemBody_rel rec rec' hrec ov info info) (elems.getD []) 0
        (List.replicate (elems.getD []).length (zeroElem info)) (List.replicate (elems.getD []).length (zeroElem info))
        ds ds' hs hs'
      generalize fromElemsList (fromElemBody rec ov info info) (elems.getD []) 0 _ ds hs = r1 at hh ⊢
      generalize fromElemsList (fromElemBody rec' ov info info) (elems.getD []) 0 _ ds' hs' = r2 at hh ⊢
      cases r1 with
      | ok x1 =>
        obtain ⟨x2, e2, hlen, hval⟩ := hh x1 (ListRel.refl _) rfl
        subst e2
        obtain ⟨l1, d1, g1⟩ := x1
        obtain ⟨l2, d2, g2⟩ := x2
        simp only [] at hlen hval ⊢
        frel_crush
      | panic w => simp only []; frel_crush
      | stuck w => simp only []; frel_crush
    | _ => simp only []; frel_crush

theorem fieldWith_frel_objectList (hrec : FRecRel' D Par Z rec rec') (he : info.parentIsOptionalEmbed = false)
    (hk : info.kind = .objectList) :
    FRel' D Par Z (fun o => copyFromFieldWith rec ov info mv msg attrs { obj := o, diags := ds, hooks := hs })
      (fun o => copyFromFieldWith rec' ov info mv msg attrs { obj := o, diags := ds', hooks := hs' }) := by
  unfold copyFromFieldWith
  simp only [embedGuard_plain info _ _ he, writeField_plain info _ _ he, he, FromSt.diag, hk]
  cases (attrs.getD []).lookup info.nameSnake with
  | none => exact frel_none _ _ _ _
  | some a =>
    simp only []
    cases a with
    | list unk null elems ety =>
      simp only []
      have hh := fromElemsList_rel _ _ (fromElemBody_rel rec rec' hrec ov info info) (elems.getD []) 0
        (List.replicate (elems.getD []).length (zeroElem info)) (List.replicate (elems.getD []).length (zeroElem info))
        ds ds' hs hs'
      generalize fromElemsList (fromElemBody rec ov info info) (elems.getD []) 0 _ ds hs = r1 at hh ⊢
      generalize fromElemsList (fromElemBody rec' ov info info) (elems.getD []) 0 _ ds' hs' = r2 at hh ⊢
      cases r1 with
      | ok x1 =>
        obtain ⟨x2, e2, hlen, hval⟩ := hh x1 (ListRel.refl _) rfl
        subst e2
        obtain ⟨l1, d1, g1⟩ := x1
        obtain ⟨l2, d2, g2⟩ := x2
        simp only [] at hlen hval ⊢
        frel_crush
      | panic w => simp only []; frel_crush
      | stuck w => simp only []; frel_crush
    | _ => simp only []; frel_crush

theorem fieldWith_frel_primitiveMap (hrec : FRecRel' D Par Z rec rec') (he : info.parentIsOptionalEmbed = false)
    (hk : info.kind = .primitiveMap) :
    FRel' D Par Z (fun o => copyFromFieldWith rec ov info mv msg attrs { obj := o, diags := ds, hooks := hs })
      (fun o => copyFromFieldWith rec' ov info mv msg attrs { obj := o, diags := ds', hooks := hs' }) := by
  unfold copyFromFieldWith
  simp only [embedGuard_plain info _ _ he, writeField_plain info _ _ he, he, FromSt.diag, hk]
  cases (attrs.getD []).lookup info.nameSnake with
  | none => exact frel_none _ _ _ _
  | some a =>
    simp only []
    cases a with
    | map unk null elems ety =>
      simp only []
      have hh := fromElemsMap_rel _ _ (fromElemBody_rel rec rec' hrec ov info (mv.getD info)) (elems.getD []) [] []
        ds ds' hs hs'
      generalize fromElemsMap (fromElemBody rec ov info (mv.getD info)) (elems.getD []) [] ds hs = r1 at hh ⊢
      generalize fromElemsMap (fromElemBody rec' ov info (mv.getD info)) (elems.getD []) [] ds' hs' = r2 at hh ⊢
      cases r1 with
      | ok x1 =>
        obtain ⟨x2, e2, hdom, hval⟩ := hh x1 (MapRel.refl _) rfl
        subst e2
        obtain ⟨l1, d1, g1⟩ := x1
        obtain ⟨l2, d2, g2⟩ := x2
        simp only [] at hdom hval ⊢
        frel_crush
      | panic w => simp only []; frel_crush
      | stuck w => simp only []; frel_crush
    | _ => simp only []; frel_crush

theorem fieldWith_frel_objectMap (hrec : FRecRel' D Par Z rec rec') (he : info.parentIsOptionalEmbed = false)
    (hk : info.kind = .objectMap) :
    FRel' D Par Z (fun o => copyFromFieldWith rec ov info mv msg attrs { obj := o, diags := ds, hooks := hs })
      (fun o => copyFromFieldWith rec' ov info mv msg attrs { obj := o, diags := ds', hooks := hs' }) := by
  unfold copyFromFieldWith
  simp only [embedGuard_plain info _ _ he, writeField_plain info _ _ he, he, FromSt.diag, hk]
  cases (attrs.getD []).lookup info.nameSnake with
  | none => exact frel_none _ _ _ _
  | some a =>
    simp only []
    cases a with
    | map unk null elems ety =>
      simp only []
      have hh := fromElemsMap_rel _ _ (fromElemBody_rel rec rec' hrec ov info (mv.getD info)) (elems.getD []) [] []
        ds ds' hs hs'
      generalize fromElemsMap (fromElemBody rec ov info (mv.getD info)) (elems.getD []) [] ds hs = r1 at hh ⊢
      generalize fromElemsMap (fromElemBody rec' ov info (mv.getD info)) (elems.getD []) [] ds' hs' = r2 at hh ⊢
      cases r1 with
      | ok x1 =>
        obtain ⟨x2, e2, hdom, hval⟩ := hh x1 (MapRel.refl _) rfl
        subst e2
        obtain ⟨l1, d1, g1⟩ := x1
        obtain ⟨l2, d2, g2⟩ := x2
        simp only [] at hdom hval ⊢
        frel_crush
      | panic w => simp only []; frel_crush
      | stuck w => simp only []; frel_crush
    | _ => simp only []; frel_crush

/-- **congruence of a CopyFrom block in its recursive call** (field not a child of a nullable embedded message) -/
theorem fieldWith_frel (hrec : FRecRel' D Par Z rec rec') (he : info.parentIsOptionalEmbed = false) :
    FRel' D Par Z (fun o => copyFromFieldWith rec ov info mv msg attrs { obj := o, diags := ds, hooks := hs })
      (fun o => copyFromFieldWith rec' ov info mv msg attrs { obj := o, diags := ds', hooks := hs' }) := by
  cases hk : info.kind with
  | custom => exact fieldWith_frel_custom rec rec' ov info mv msg attrs ds ds' hs hs' he hk
  | primitive =>
    by_cases ho : info.oneOfName = ""
    · exact fieldWith_frel_prim_plain rec rec' ov info mv msg attrs ds ds' hs hs' he hk ho
    · exact fieldWith_frel_prim_branch rec rec' ov info mv msg attrs ds ds' hs hs' he hk ho
  | object =>
    by_cases ho : info.oneOfName = ""
    · exact fieldWith_frel_obj_plain rec rec' ov info mv msg attrs ds ds' hs hs' hrec he hk ho
    · exact fieldWith_frel_obj_branch rec rec' ov info mv msg attrs ds ds' hs hs' hrec he hk ho
  | primitiveList => exact fieldWith_frel_primitiveList rec rec' ov info mv msg attrs ds ds' hs hs' hrec he hk
  | objectList => exact fieldWith_frel_objectList rec rec' ov info mv msg attrs ds ds' hs hs' hrec he hk
  | primitiveMap => exact fieldWith_frel_primitiveMap rec rec' ov info mv msg attrs ds ds' hs hs' hrec he hk
  | objectMap => exact fieldWith_frel_objectMap rec rec' ov info mv msg attrs ds ds' hs hs' hrec he hk

end blocks

end congr

/-! ## 3. the block of a child of a nullable embedded message -/

section pe
variable {D Par : List String} {Z : String → String → GoVal → Prop}

/-- the block of a field outside oneof groups (not a child of a nullable embedded message, not of a custom type) whose
attribute is there and passes the type assertion assigns the Go field, whatever the value -/
theorem plain_writes (rec : FromRec) (ov : List (String × String)) (c : FieldInfo) (mv : Option FieldInfo)
    (msg : Option MsgInfo) (attrs : Option (List (String × TfVal))) (st t : FromSt) (a : TfVal)
    (he : c.parentIsOptionalEmbed = false) (hk : c.kind ≠ .custom) (ho : c.oneOfName = "") (hs : IsStruct st.obj)
    (hl : (attrs.getD []).lookup c.nameSnake = some a)
    (hv : (a.vkind != vkindOf c.tf.valueType || a.vkind == .unknown) = false)
    (h : copyFromFieldWith rec ov c mv msg attrs st = .ok t) : (t.obj.field? c.name).isSome = true := by
  have key : ∀ (o : GoVal) (x : GoVal), IsStruct o → ((o.setField c.name x).field? c.name).isSome = true := by
    intro o x ho'
    rw [field?_setField_same _ _ _ ho']; rfl
  have key2 : ∀ (o : GoVal) (x y : GoVal), IsStruct o →
      (((o.setField c.name x).setField c.name y).field? c.name).isSome = true := by
    intro o x y ho'
    exact key _ _ (isStruct_setField _ _ _ ho')
  unfold copyFromFieldWith at h
  simp only [hl, hv, embedGuard_plain c _ _ he, writeField_plain c _ _ he, he, ho, Bool.false_eq_true, if_false,
    bne_self_eq_false, beq_self_eq_true, if_true] at h
  cases hkind : c.kind <;> simp only [hkind] at h
  all_goals first
    | exact absurd hkind hk
    | (cases a <;> simp only [] at h <;> first
        | (cases h; done)
        | (repeat' split at h) <;> first
            | (cases h; done)
            | (injection h with h; subst h; dsimp only; first | exact key _ _ hs | exact key2 _ _ _ hs))

theorem applyWrites_same_key (k : String) : ∀ (ws : List (String × GoVal)), ws ≠ [] → (∀ w ∈ ws, w.1 = k) →
    ∃ v, ∀ s : GoVal, applyWrites ws s = s.setField k v
  | [], h, _ => absurd rfl h
  | w :: ws, _, hk => by
    have hw : w.1 = k := hk w List.mem_cons_self
    by_cases e : ws = []
    · subst e
      exact ⟨w.2, fun s => by simp only [applyWrites, List.foldl, hw]⟩
    · obtain ⟨v, hv⟩ := applyWrites_same_key k ws e (fun x hx => hk x (List.mem_cons_of_mem _ hx))
      refine ⟨v, fun s => ?_⟩
      have : applyWrites (w :: ws) s = applyWrites ws (s.setField w.1 w.2) := rfl
      rw [this, hv, hw, setField_setField_same]

/-- **the block of a field outside oneof groups, uniformly in the target**: one assignment to the Go field, or a
failure -/
theorem plain_sem (rec : FromRec) (ov : List (String × String)) (c : FieldInfo) (mv : Option FieldInfo)
    (msg : Option MsgInfo) (attrs : Option (List (String × TfVal))) (ds : List Diag) (hs : List HookCall) (a : TfVal)
    (he : c.parentIsOptionalEmbed = false) (hk : c.kind ≠ .custom) (ho : c.oneOfName = "")
    (hl : (attrs.getD []).lookup c.nameSnake = some a)
    (hv : (a.vkind != vkindOf c.tf.valueType || a.vkind == .unknown) = false) :
    (∃ v d h, ∀ o, copyFromFieldWith rec ov c mv msg attrs { obj := o, diags := ds, hooks := hs } =
        .ok { obj := o.setField c.name v, diags := d, hooks := h }) ∨
    (∀ o t, copyFromFieldWith rec ov c mv msg attrs { obj := o, diags := ds, hooks := hs } ≠ .ok t) := by
  have hwk : wk c = c.name := by simp [wk, IsBranch, ho]
  rcases fieldWith_uf rec ov c mv msg attrs ds hs he with ⟨ws, d, h, hkeys, hF⟩ | ⟨m, hF⟩ | ⟨m, hF⟩
  · left
    dsimp only at hF
    have hne : ws ≠ [] := by
      intro e
      subst e
      have := plain_writes rec ov c mv msg attrs { obj := .struct [], diags := ds, hooks := hs } _ a he hk ho trivial hl hv
        (hF (.struct []))
      simp [applyWrites, GoVal.field?] at this
    obtain ⟨v, hv'⟩ := applyWrites_same_key c.name ws hne (fun w hw => by rw [hkeys w hw, hwk])
    exact ⟨v, d, h, fun o => by rw [hF o, hv']⟩
  · right
    intro o t e
    dsimp only at hF
    rw [hF o] at e; cases e
  · right
    intro o t e
    dsimp only at hF
    rw [hF o] at e; cases e

/-- a block that succeeds on a value that passed the type assertion: the value has the constructor of the field's kind -/
theorem plain_shape (rec : FromRec) (ov : List (String × String)) (c : FieldInfo) (mv : Option FieldInfo)
    (msg : Option MsgInfo) (attrs : Option (List (String × TfVal))) (st t : FromSt) (a : TfVal)
    (he : c.parentIsOptionalEmbed = false) (hk : c.kind ≠ .custom) (ho : c.oneOfName = "")
    (hl : (attrs.getD []).lookup c.nameSnake = some a)
    (hv : (a.vkind != vkindOf c.tf.valueType || a.vkind == .unknown) = false)
    (h : copyFromFieldWith rec ov c mv msg attrs st = .ok t) : KindShape c a := by
  unfold copyFromFieldWith at h
  simp only [hl, hv, embedGuard_plain c _ _ he, Bool.false_eq_true, if_false] at h
  unfold KindShape
  cases hkind : c.kind <;> simp only [hkind] at h ⊢
  all_goals first
    | exact absurd hkind hk
    | (cases a <;> simp only [] at h <;> first
        | (cases h; done)
        | simp [TfVal.vkind])

/-- a child (outside oneof groups, not of a custom type) of a nullable embedded message whose parent is allocated or
whose attribute is known: the parent is allocated if need be and the block runs like the block of the same field of the
embedded struct -/
theorem pe_run (rec : FromRec) (ov : List (String × String)) (c : FieldInfo) (mv : Option FieldInfo)
    (msg : Option MsgInfo) (attrs : Option (List (String × TfVal))) (o : GoVal) (d : List Diag) (h : List HookCall)
    (a : TfVal) (he : c.parentIsOptionalEmbed = true) (hk : c.kind ≠ .custom) (ho : c.oneOfName = "") (hs : IsStruct o)
    (hl : (attrs.getD []).lookup c.nameSnake = some a)
    (hv : (a.vkind != vkindOf c.tf.valueType || a.vkind == .unknown) = false)
    (hrun : (∃ s, o.field? c.parentIsOptionalEmbedFieldName = some (.ptr (some s))) ∨ a.isKnown = true) :
    ∃ s, copyFromFieldWith rec ov c mv msg attrs { obj := o, diags := d, hooks := h } =
      liftOut c.parentIsOptionalEmbedFieldName { obj := o, diags := d, hooks := h }
        (copyFromFieldWith rec ov (unembed c) mv msg attrs { obj := s, diags := d, hooks := h }) ∧
      s = innerOf c.parentIsOptionalEmbedFieldName o := by
  rcases alloc_or_not c.parentIsOptionalEmbedFieldName o with ⟨s, hp⟩ | hn
  · refine ⟨s, ?_, (innerOf_alloc _ _ _ hp).symm⟩
    exact fieldWith_lift rec ov c mv msg attrs { obj := o, diags := d, hooks := h } s a he hk ho hs hp hl hv
  · have hkn : a.isKnown = true := by
      rcases hrun with ⟨s, hp⟩ | hkn
      · exact absurd hp (hn s)
      · exact hkn
    refine ⟨.struct [], ?_, (innerOf_unalloc _ _ hn).symm⟩
    have hp1 : (o.setField c.parentIsOptionalEmbedFieldName (.ptr (some (.struct [])))).field?
        c.parentIsOptionalEmbedFieldName = some (.ptr (some (.struct []))) := field?_setField_same _ _ _ hs
    rw [child_step rec ov c mv msg attrs { obj := o, diags := d, hooks := h } a he hk ho hs hl hv hkn hn]
    rw [fieldWith_lift rec ov c mv msg attrs _ (.struct []) a he hk ho (isStruct_setField _ _ _ hs) hp1 hl hv]
    cases copyFromFieldWith rec ov (unembed c) mv msg attrs { obj := GoVal.struct [], diags := d, hooks := h } with
    | ok t => simp only [liftOut, setField_setField_same]
    | panic w => rfl
    | stuck w => rfl

theorem pe_run_ok (rec : FromRec) (ov : List (String × String)) (c : FieldInfo) (mv : Option FieldInfo)
    (msg : Option MsgInfo) (attrs : Option (List (String × TfVal))) (o : GoVal) (d : List Diag) (h : List HookCall)
    (a : TfVal) (he : c.parentIsOptionalEmbed = true) (hk : c.kind ≠ .custom) (ho : c.oneOfName = "") (hs : IsStruct o)
    (hl : (attrs.getD []).lookup c.nameSnake = some a)
    (hv : (a.vkind != vkindOf c.tf.valueType || a.vkind == .unknown) = false)
    (hrun : (∃ s, o.field? c.parentIsOptionalEmbedFieldName = some (.ptr (some s))) ∨ a.isKnown = true)
    (v : GoVal) (dd : List Diag) (hh : List HookCall)
    (hU : ∀ s, copyFromFieldWith rec ov (unembed c) mv msg attrs { obj := s, diags := d, hooks := h } =
      .ok { obj := s.setField c.name v, diags := dd, hooks := hh }) :
    copyFromFieldWith rec ov c mv msg attrs { obj := o, diags := d, hooks := h } =
      .ok { obj := embedSet c.parentIsOptionalEmbedFieldName c.name o v, diags := dd, hooks := hh } := by
  obtain ⟨s, e, hs'⟩ := pe_run rec ov c mv msg attrs o d h a he hk ho hs hl hv hrun
  rw [e, hU s, hs']
  rfl

theorem pe_run_fail (rec : FromRec) (ov : List (String × String)) (c : FieldInfo) (mv : Option FieldInfo)
    (msg : Option MsgInfo) (attrs : Option (List (String × TfVal))) (o : GoVal) (d : List Diag) (h : List HookCall)
    (a : TfVal) (he : c.parentIsOptionalEmbed = true) (hk : c.kind ≠ .custom) (ho : c.oneOfName = "") (hs : IsStruct o)
    (hl : (attrs.getD []).lookup c.nameSnake = some a)
    (hv : (a.vkind != vkindOf c.tf.valueType || a.vkind == .unknown) = false)
    (hrun : (∃ s, o.field? c.parentIsOptionalEmbedFieldName = some (.ptr (some s))) ∨ a.isKnown = true)
    (hU : ∀ s t, copyFromFieldWith rec ov (unembed c) mv msg attrs { obj := s, diags := d, hooks := h } ≠ .ok t) :
    ∀ t, copyFromFieldWith rec ov c mv msg attrs { obj := o, diags := d, hooks := h } ≠ .ok t := by
  obtain ⟨s, e, _⟩ := pe_run rec ov c mv msg attrs o d h a he hk ho hs hl hv hrun
  intro t ht
  rw [e] at ht
  cases hx : copyFromFieldWith rec ov (unembed c) mv msg attrs { obj := s, diags := d, hooks := h } with
  | ok u => exact hU s u hx
  | panic w => rw [hx] at ht; cases ht
  | stuck w => rw [hx] at ht; cases ht

/-- nil parent, null / unknown attribute: if the block succeeds it does nothing, and then it does nothing on every target
whose parent is nil, whatever the recursive call -/
theorem pe_idle (rec : FromRec) (ov : List (String × String)) (c : FieldInfo) (mv : Option FieldInfo)
    (msg : Option MsgInfo) (attrs : Option (List (String × TfVal))) (st t : FromSt) (a : TfVal)
    (he : c.parentIsOptionalEmbed = true) (hk : c.kind ≠ .custom) (ho : c.oneOfName = "")
    (hl : (attrs.getD []).lookup c.nameSnake = some a)
    (hv : (a.vkind != vkindOf c.tf.valueType || a.vkind == .unknown) = false) (hkn : a.isKnown = false)
    (hn : NotAlloc c.parentIsOptionalEmbedFieldName st.obj)
    (h : copyFromFieldWith rec ov c mv msg attrs st = .ok t) :
    t = st ∧ ∀ (rec' : FromRec) (st' : FromSt), NotAlloc c.parentIsOptionalEmbedFieldName st'.obj →
      copyFromFieldWith rec' ov c mv msg attrs st' = .ok st' := by
  by_cases hkp : c.kind = .primitive
  · have hsh : KindShape c a := by
      unfold KindShape
      simp only [hkp]
      cases a with
      | prim k u n p => exact ⟨k, rfl⟩
      | _ =>
        exfalso
        unfold copyFromFieldWith at h
        simp [hkp, hl, hv, embedGuard] at h
    refine ⟨?_, fun rec' st' hn' => child_idle rec' ov c mv msg attrs st' a he hk ho hl hv hkn hsh hn'⟩
    rw [child_idle rec ov c mv msg attrs st a he hk ho hl hv hkn hsh hn] at h
    injection h with h
    exact h.symm
  · have hnone : ∀ (rec' : FromRec) (st' : FromSt), NotAlloc c.parentIsOptionalEmbedFieldName st'.obj →
        copyFromFieldWith rec' ov c mv msg attrs st' = .ok st' := by
      intro rec' st' hn'
      unfold copyFromFieldWith
      simp only [hl, hv, embedGuard_unalloc c a st'.obj he hkp hn', hkn, Bool.false_eq_true, if_false]
    refine ⟨?_, hnone⟩
    rw [hnone rec st hn] at h
    injection h with h
    exact h.symm

/-- two blocks, as functions of a STRUCT target: from related targets, if the first succeeds so does the second, with
related targets -/
def FRelS (D Par : List String) (Z : String → String → GoVal → Prop) (F F' : GoVal → Outcome FromSt) : Prop :=
  ∀ o o' t, IsStruct o → PRel D Par Z none o o' → F o = .ok t → ∃ t', F' o' = .ok t' ∧ PRel D Par Z none t.obj t'.obj

theorem FRel'.toS {F F' : GoVal → Outcome FromSt} (h : FRel' D Par Z F F') : FRelS D Par Z F F' :=
  fun o o' t _ hr e => h o o' t hr e

theorem singleton_inj {n : String} {v w : GoVal} (h : (GoVal.struct []).setField n v = (GoVal.struct []).setField n w) :
    v = w := by
  simp only [GoVal.setField, setKey] at h
  injection h with h
  injection h with h
  injection h with _ h

/-- a null / unknown value that the block of a field (outside oneof groups) accepts resets the field -/
theorem plain_null (rec : FromRec) (ov : List (String × String)) (c : FieldInfo) (mv : Option FieldInfo)
    (msg : Option MsgInfo) (attrs : Option (List (String × TfVal))) (st t : FromSt) (a : TfVal)
    (he : c.parentIsOptionalEmbed = false) (hk : c.kind ≠ .custom) (ho : c.oneOfName = "")
    (hl : (attrs.getD []).lookup c.nameSnake = some a)
    (hv : (a.vkind != vkindOf c.tf.valueType || a.vkind == .unknown) = false) (hkn : a.isKnown = false)
    (h : copyFromFieldWith rec ov c mv msg attrs st = .ok t) :
    KindShape c a ∧ t = { st with obj := st.obj.setField c.name (zeroWrite c) } := by
  have hsh := plain_shape rec ov c mv msg attrs st t a he hk ho hl hv h
  refine ⟨hsh, ?_⟩
  have hshape : (match c.kind with
      | .primitive => ∃ k, a.vkind = .prim k
      | .object => a.vkind = .obj
      | .primitiveList | .objectList => a.vkind = .list
      | .primitiveMap | .objectMap => a.vkind = .map
      | .custom => False) := by
    unfold KindShape at hsh
    cases hkind : c.kind <;> simp only [hkind] at hsh ⊢ <;> first | exact hsh | exact absurd hkind hk
  rw [fieldWith_null_resets rec ov c mv msg attrs st a ho he hk hl (cond_false hv) hshape hkn] at h
  injection h with h
  exact h.symm

/-- **the block of a child (outside oneof groups, not of a custom type) of a nullable embedded message, relationally**:
`P`, the parent pointer, is not a Go field the removed blocks assign; a null / unknown value writes the reset value
`zeroWrite c` (accepted by `Z`). -/
theorem pe_plain_rel (rec rec' : FromRec) (hrec : FRecRel' D Par Z rec rec') (ov : List (String × String))
    (c : FieldInfo) (mv : Option FieldInfo) (msg : Option MsgInfo) (attrs : Option (List (String × TfVal)))
    (ds ds' : List Diag) (hs hs' : List HookCall)
    (he : c.parentIsOptionalEmbed = true) (hk : c.kind ≠ .custom) (ho : c.oneOfName = "")
    (hP : c.parentIsOptionalEmbedFieldName ∉ D)
    (hZ : c.parentIsOptionalEmbedFieldName ∈ Par → c.name ∈ D ∨ Z c.parentIsOptionalEmbedFieldName c.name (zeroWrite c)) :
    FRelS D Par Z (fun o => copyFromFieldWith rec ov c mv msg attrs { obj := o, diags := ds, hooks := hs })
      (fun o => copyFromFieldWith rec' ov c mv msg attrs { obj := o, diags := ds', hooks := hs' }) := by
  intro o1 o2 t hs1 hrel h
  dsimp only at h ⊢
  have hs2 : IsStruct o2 := hrel.isStruct_iff.mp hs1
  cases hl : (attrs.getD []).lookup c.nameSnake with
  | none =>
    rw [fieldWith_missing rec ov c mv msg attrs _ hk hl] at h
    rw [fieldWith_missing rec' ov c mv msg attrs _ hk hl]
    injection h with h
    subst h
    exact ⟨_, rfl, hrel⟩
  | some a =>
    by_cases hv : (a.vkind != vkindOf c.tf.valueType || a.vkind == .unknown) = true
    · rw [fieldWith_conv rec ov c mv msg attrs _ a hk hl hv] at h
      rw [fieldWith_conv rec' ov c mv msg attrs _ a hk hl hv]
      injection h with h
      subst h
      exact ⟨_, rfl, hrel⟩
    · have hv' : (a.vkind != vkindOf c.tf.valueType || a.vkind == .unknown) = false := by simpa using hv
      have hou : (unembed c).oneOfName = "" := ho
      have hku : (unembed c).kind ≠ .custom := hk
      -- the state of the parent pointer on the two sides
      have hstate := pv_cases (hrel.getPV c.parentIsOptionalEmbedFieldName hP)
      by_cases hrun1 : (∃ s, o1.field? c.parentIsOptionalEmbedFieldName = some (.ptr (some s))) ∨ a.isKnown = true
      · -- the left block runs
        rcases plain_sem rec ov (unembed c) mv msg attrs ds hs a rfl hku hou hl hv' with ⟨v1, d1, h1, hU1⟩ | hfail
        · rw [pe_run_ok rec ov c mv msg attrs o1 ds hs a he hk ho hs1 hl hv' hrun1 v1 d1 h1 hU1] at h
          injection h with h
          subst h
          -- the right block on the empty struct
          obtain ⟨t2, ht2, hr2⟩ := fieldWith_frel rec rec' ov (unembed c) mv msg attrs ds ds' hs hs' hrec rfl
            (.struct []) (.struct []) _ (.refl _ _) (hU1 (.struct []))
          dsimp only at ht2 hr2
          rcases plain_sem rec' ov (unembed c) mv msg attrs ds' hs' a rfl hku hou hl hv' with ⟨v2, d2, h2, hU2⟩ | hfail2
          · rw [hU2] at ht2
            injection ht2 with ht2
            subst ht2
            have hv12 : c.name ∉ D → PRel D Par Z (some c.name) v1 v2 := by
              intro hn
              refine (hr2.getPV c.name hn).2 v1 v2 ?_ ?_
              · exact field?_setField_same (.struct []) _ _ trivial
              · exact field?_setField_same (.struct []) _ _ trivial
            by_cases hrun2 : (∃ s, o2.field? c.parentIsOptionalEmbedFieldName = some (.ptr (some s))) ∨ a.isKnown = true
            · rw [pe_run_ok rec' ov c mv msg attrs o2 ds' hs' a he hk ho hs2 hl hv' hrun2 v2 d2 h2 hU2]
              exact ⟨_, rfl, prel_embedSet_both hrel _ _ hP hv12⟩
            · -- only the left side is allocated, the value is null / unknown: the right block does nothing
              have hn2 : NotAlloc c.parentIsOptionalEmbedFieldName o2 := fun s e => hrun2 (Or.inl ⟨s, e⟩)
              have hkn : a.isKnown = false := by
                cases hx : a.isKnown with
                | false => rfl
                | true => exact absurd (Or.inr hx) hrun2
              obtain ⟨hsh, hz⟩ := plain_null rec ov (unembed c) mv msg attrs _ _ a rfl hku hou hl hv' hkn (hU1 (.struct []))
              have hv1 : v1 = zeroWrite c := by
                injection hz with hz
                exact singleton_inj hz
              have hpar : c.parentIsOptionalEmbedFieldName ∈ Par := by
                rcases hstate with ⟨s1, s2, _, e2, _⟩ | ⟨_, _, _, hp, _⟩ | ⟨hn1, _⟩
                · exact absurd e2 (hn2 s2)
                · exact hp
                · rcases hrun1 with ⟨s, e⟩ | hx
                  · exact absurd e (hn1 s)
                  · rw [hkn] at hx; cases hx
              rw [child_idle rec' ov c mv msg attrs _ a he hk ho hl hv' hkn hsh hn2]
              refine ⟨_, rfl, prel_embedSet_left hrel _ _ hP (Or.inl hpar) v1 ?_⟩
              rcases hZ hpar with hz' | hz'
              · exact Or.inl hz'
              · exact Or.inr ⟨hv1 ▸ hz', hn2⟩
          · exact absurd ht2 (hfail2 _ _)
        · exact absurd h (pe_run_fail rec ov c mv msg attrs o1 ds hs a he hk ho hs1 hl hv' hrun1 hfail t)
      · -- the left block does nothing; the right parent is nil as well
        have hn1 : NotAlloc c.parentIsOptionalEmbedFieldName o1 := fun s e => hrun1 (Or.inl ⟨s, e⟩)
        have hkn : a.isKnown = false := by
          cases hx : a.isKnown with
          | false => rfl
          | true => exact absurd (Or.inr hx) hrun1
        have hn2 : NotAlloc c.parentIsOptionalEmbedFieldName o2 := by
          rcases hstate with ⟨s1, _, e1, _, _⟩ | ⟨s1, e1, _, _, _⟩ | ⟨_, hn2⟩
          · exact absurd e1 (hn1 s1)
          · exact absurd e1 (hn1 s1)
          · exact hn2
        obtain ⟨e, hidle⟩ := pe_idle rec ov c mv msg attrs _ t a he hk ho hl hv' hkn hn1 h
        subst e
        exact ⟨_, hidle rec' { obj := o2, diags := ds', hooks := hs' } hn2, hrel⟩

theorem setKey_self {α} (k : String) (v : α) : ∀ l : List (String × α), l.lookup k = some v → setKey k v l = l
  | [], h => by simp [List.lookup] at h
  | (k', v') :: rest, h => by
    simp only [setKey]
    by_cases e : (k' == k) = true
    · have ek : k' = k := by simpa using e
      have e' : (k == k') = true := by simp [ek]
      simp only [List.lookup, e'] at h
      injection h with h
      simp [e, ek, h]
    · have e' : (k == k') = false := by
        have : ¬ k' = k := by simpa using e
        simp [Ne.symm this]
      simp only [List.lookup, e'] at h
      simp [e, setKey_self k v rest h]

theorem setField_self (o : GoVal) (k : String) (x : GoVal) (h : o.field? k = some x) : o.setField k x = o := by
  cases o with
  | struct fs =>
    simp only [GoVal.field?] at h
    simp only [GoVal.setField, setKey_self k x fs h]
  | _ => rfl

/-- the struct the rest of the block of a non-scalar child runs on, when the value is known or the parent is there -/
theorem embedGuard_run (c : FieldInfo) (a : TfVal) (o : GoVal) (he : c.parentIsOptionalEmbed = true)
    (hkp : c.kind ≠ .primitive)
    (hrun : (∃ s, o.field? c.parentIsOptionalEmbedFieldName = some (.ptr (some s))) ∨ a.isKnown = true) :
    embedGuard c a o = some (o.setField c.parentIsOptionalEmbedFieldName
      (.ptr (some (innerOf c.parentIsOptionalEmbedFieldName o)))) := by
  rcases alloc_or_not c.parentIsOptionalEmbedFieldName o with ⟨s, hp⟩ | hn
  · rw [embedGuard_alloc c a o s hp, innerOf_alloc _ _ _ hp, setField_self _ _ _ hp]
  · have hkn : a.isKnown = true := by
      rcases hrun with ⟨s, hp⟩ | hkn
      · exact absurd hp (hn s)
      · exact hkn
    rw [embedGuard_unalloc c a o he hkp hn, innerOf_unalloc _ _ hn, hkn]
    rfl

/-- the custom block of a child: the parent is allocated, the hook's value assigned -/
theorem pe_custom_run (rec : FromRec) (ov : List (String × String)) (c : FieldInfo) (mv : Option FieldInfo)
    (msg : Option MsgInfo) (attrs : Option (List (String × TfVal))) (o : GoVal) (d : List Diag) (h : List HookCall)
    (he : c.parentIsOptionalEmbed = true) (hk : c.kind = .custom) (hs : IsStruct o) :
    ∃ d' h', copyFromFieldWith rec ov c mv msg attrs { obj := o, diags := d, hooks := h } =
      .ok { obj := embedSet c.parentIsOptionalEmbedFieldName c.name o
              (hookFrom c.isRepeated (((attrs.getD []).lookup c.nameSnake).getD .nilv)), diags := d', hooks := h' } := by
  cases hl : (attrs.getD []).lookup c.nameSnake with
  | none =>
    refine ⟨d ++ [.readMissing c.path], h ++ [.copyFrom ("CopyFrom" ++ c.suffix) .nilv], ?_⟩
    unfold copyFromFieldWith embedSet
    rcases alloc_or_not c.parentIsOptionalEmbedFieldName o with ⟨s, hp⟩ | hn
    · simp [hk, hl, he, writeField, allocParent_alloc c _ s hp, hp, innerOf_alloc _ _ s hp, FromSt.diag]
    · simp [hk, hl, he, writeField, allocParent_unalloc c _ hn, innerOf_unalloc _ _ hn, field?_setField_same _ _ _ hs,
        setField_setField_same, FromSt.diag]
  | some a =>
    have := fieldWith_custom_embed rec ov c mv msg attrs { obj := o, diags := d, hooks := h } a hk he hs hl
    exact ⟨d, h ++ [HookCall.copyFrom ("CopyFrom" ++ c.suffix) a], this⟩

/-- a scalar branch of a oneof never looks at the target: fixed assignments to the holder, or a failure, whatever the
recursive call, the target and the logs -/
theorem prim_branch_form (ov : List (String × String)) (c : FieldInfo) (mv : Option FieldInfo)
    (msg : Option MsgInfo) (attrs : Option (List (String × TfVal)))
    (hk : c.kind = .primitive) (ho : c.oneOfName ≠ "") :
    (∃ tw : List (String × GoVal), (∀ w ∈ tw, w.1 = c.oneOfName) ∧ ∀ (rec : FromRec) (st : FromSt),
      ∃ d' h', copyFromFieldWith rec ov c mv msg attrs st = .ok { obj := applyWrites tw st.obj, diags := d', hooks := h' }) ∨
    (∀ (rec : FromRec) (st t : FromSt), copyFromFieldWith rec ov c mv msg attrs st ≠ .ok t) := by
  have hb : (c.oneOfName != "") = true := by simpa using ho
  cases hl : (attrs.getD []).lookup c.nameSnake with
  | none =>
    refine Or.inl ⟨[], by simp, fun rec st => ?_⟩
    unfold copyFromFieldWith
    simp only [hk, hl, FromSt.diag]
    exact ⟨_, _, rfl⟩
  | some a =>
    by_cases hv : (a.vkind != vkindOf c.tf.valueType || a.vkind == .unknown) = true
    · refine Or.inl ⟨[], by simp, fun rec st => ?_⟩
      unfold copyFromFieldWith
      simp only [hk, hl, hv, if_true, FromSt.diag]
      exact ⟨_, _, rfl⟩
    · cases a with
      | prim k u n p =>
        cases hd : primDecode c k u n p with
        | ok t =>
          cases hkn : known u n with
          | true =>
            refine Or.inl ⟨[(c.oneOfName, .iface (some (lastSegment c.oneOfType, c.name, t)))], by simp,
              fun rec st => ?_⟩
            unfold copyFromFieldWith
            simp only [hk, hl, hv, embedGuard, bne_self_eq_false, Bool.and_false, Bool.false_eq_true, if_false, hd, hb,
              hkn, if_true]
            exact ⟨_, _, rfl⟩
          | false =>
            refine Or.inl ⟨[], by simp, fun rec st => ?_⟩
            unfold copyFromFieldWith
            simp only [hk, hl, hv, embedGuard, bne_self_eq_false, Bool.and_false, Bool.false_eq_true, if_false, hd, hb,
              hkn, if_true]
            exact ⟨_, _, rfl⟩
        | panic w =>
          refine Or.inr (fun rec st t e => ?_)
          unfold copyFromFieldWith at e
          simp [hk, hl, hv, embedGuard, hd] at e
        | stuck w =>
          refine Or.inr (fun rec st t e => ?_)
          unfold copyFromFieldWith at e
          simp [hk, hl, hv, embedGuard, hd] at e
      | _ =>
        refine Or.inr (fun rec st t e => ?_)
        unfold copyFromFieldWith at e
        simp [hk, hl, hv, embedGuard] at e

/-- a message branch of a oneof that is a child of a nullable embedded message, known value: the parent is allocated if
need be, the holder of the group (a Go field of the target itself) assigned -/
theorem objbranch_known (rec : FromRec) (ov : List (String × String)) (c : FieldInfo) (mv : Option FieldInfo)
    (msg : Option MsgInfo) (attrs : Option (List (String × TfVal))) (o : GoVal) (d : List Diag) (h : List HookCall)
    (u n : Bool) (as : Option (List (String × TfVal))) (tys : Option (List (String × TfTy)))
    (he : c.parentIsOptionalEmbed = true) (hk : c.kind = .object) (ho : c.oneOfName ≠ "")
    (hl : (attrs.getD []).lookup c.nameSnake = some (.obj u n as tys))
    (hv : ((TfVal.obj u n as tys).vkind != vkindOf c.tf.valueType || (TfVal.obj u n as tys).vkind == .unknown) = false)
    (hkn : known u n = true) :
    copyFromFieldWith rec ov c mv msg attrs { obj := o, diags := d, hooks := h } =
      match (if !isEmptyMsg msg then rec as { obj := .struct [], diags := d, hooks := h }
             else .ok { obj := .struct [], diags := d, hooks := h }) with
      | .panic w => .panic w
      | .stuck w => .stuck w
      | .ok st' => .ok { st' with obj := (o.setField c.parentIsOptionalEmbedFieldName
            (.ptr (some (innerOf c.parentIsOptionalEmbedFieldName o)))).setField c.oneOfName (holderOf c st'.obj) } := by
  have hkp : c.kind ≠ .primitive := by rw [hk]; decide
  have hb : (c.oneOfName == "") = false := by simpa using ho
  have hg := embedGuard_run c (.obj u n as tys) o he hkp (Or.inr (by simpa [TfVal.isKnown] using hkn))
  unfold copyFromFieldWith
  simp only [hl, hv, hg, hk, hb, hkn, Bool.false_eq_true, if_false, if_true]
  cases isEmptyMsg msg <;> simp only [Bool.not_true, Bool.not_false, Bool.false_eq_true, if_false, if_true]
  · cases rec as { obj := GoVal.struct [], diags := d, hooks := h } <;> rfl
  · rfl

/-- …, null / unknown value: the block does nothing (if it succeeds), on every target whose parent is nil and - if the
parent of the first target is there - on every target -/
theorem objbranch_null (rec : FromRec) (ov : List (String × String)) (c : FieldInfo) (mv : Option FieldInfo)
    (msg : Option MsgInfo) (attrs : Option (List (String × TfVal))) (st t : FromSt) (a : TfVal)
    (he : c.parentIsOptionalEmbed = true) (hk : c.kind = .object) (ho : c.oneOfName ≠ "")
    (hl : (attrs.getD []).lookup c.nameSnake = some a)
    (hv : (a.vkind != vkindOf c.tf.valueType || a.vkind == .unknown) = false) (hkn : a.isKnown = false)
    (h : copyFromFieldWith rec ov c mv msg attrs st = .ok t) :
    t = st ∧ ∀ (rec' : FromRec) (st' : FromSt),
      ((∃ s, st.obj.field? c.parentIsOptionalEmbedFieldName = some (.ptr (some s))) ∨
        NotAlloc c.parentIsOptionalEmbedFieldName st'.obj) →
      copyFromFieldWith rec' ov c mv msg attrs st' = .ok st' := by
  have hkp : c.kind ≠ .primitive := by rw [hk]; decide
  have hb : (c.oneOfName == "") = false := by simpa using ho
  have hnone : ∀ (rec' : FromRec) (st' : FromSt), NotAlloc c.parentIsOptionalEmbedFieldName st'.obj →
      copyFromFieldWith rec' ov c mv msg attrs st' = .ok st' := by
    intro rec' st' hn'
    unfold copyFromFieldWith
    simp only [hl, hv, embedGuard_unalloc c a st'.obj he hkp hn', hkn, Bool.false_eq_true, if_false, hk]
  rcases alloc_or_not c.parentIsOptionalEmbedFieldName st.obj with ⟨s, hp⟩ | hn
  · cases a with
    | obj u n as tys =>
      have hkn' : known u n = false := by simpa [TfVal.isKnown] using hkn
      have hall : ∀ (rec' : FromRec) (st' : FromSt),
          copyFromFieldWith rec' ov c mv msg attrs st' = .ok st' := by
        intro rec' st'
        rcases alloc_or_not c.parentIsOptionalEmbedFieldName st'.obj with ⟨s', hp'⟩ | hn'
        · unfold copyFromFieldWith
          simp only [hl, hv, embedGuard_alloc c _ _ s' hp', hk, hb, hkn', Bool.false_eq_true, if_false]
        · exact hnone rec' st' hn'
      refine ⟨?_, fun rec' st' _ => hall rec' st'⟩
      rw [hall rec st] at h
      injection h with h
      exact h.symm
    | _ =>
      exfalso
      unfold copyFromFieldWith at h
      simp [hl, hv, embedGuard_alloc c _ _ s hp, hk] at h
  · refine ⟨?_, fun rec' st' hc => ?_⟩
    · rw [hnone rec st hn] at h
      injection h with h
      exact h.symm
    · rcases hc with ⟨s, hp⟩ | hn'
      · exact absurd hp (hn s)
      · exact hnone rec' st' hn'

theorem pe_objbranch_rel (rec rec' : FromRec) (hrec : FRecRel' D Par Z rec rec') (ov : List (String × String))
    (c : FieldInfo) (mv : Option FieldInfo) (msg : Option MsgInfo) (attrs : Option (List (String × TfVal)))
    (ds ds' : List Diag) (hs hs' : List HookCall)
    (he : c.parentIsOptionalEmbed = true) (hk : c.kind = .object) (ho : c.oneOfName ≠ "")
    (hP : c.parentIsOptionalEmbedFieldName ∉ D) :
    FRelS D Par Z (fun o => copyFromFieldWith rec ov c mv msg attrs { obj := o, diags := ds, hooks := hs })
      (fun o => copyFromFieldWith rec' ov c mv msg attrs { obj := o, diags := ds', hooks := hs' }) := by
  intro o1 o2 t hs1 hrel h
  dsimp only at h ⊢
  have hkc : c.kind ≠ .custom := by rw [hk]; decide
  have hkp : c.kind ≠ .primitive := by rw [hk]; decide
  cases hl : (attrs.getD []).lookup c.nameSnake with
  | none =>
    rw [fieldWith_missing rec ov c mv msg attrs _ hkc hl] at h
    rw [fieldWith_missing rec' ov c mv msg attrs _ hkc hl]
    injection h with h
    subst h
    exact ⟨_, rfl, hrel⟩
  | some a =>
    by_cases hv : (a.vkind != vkindOf c.tf.valueType || a.vkind == .unknown) = true
    · rw [fieldWith_conv rec ov c mv msg attrs _ a hkc hl hv] at h
      rw [fieldWith_conv rec' ov c mv msg attrs _ a hkc hl hv]
      injection h with h
      subst h
      exact ⟨_, rfl, hrel⟩
    · have hv' : (a.vkind != vkindOf c.tf.valueType || a.vkind == .unknown) = false := by simpa using hv
      cases hkn : a.isKnown with
      | false =>
        obtain ⟨e, hidle⟩ := objbranch_null rec ov c mv msg attrs _ t a he hk ho hl hv' hkn h
        subst e
        refine ⟨_, hidle rec' { obj := o2, diags := ds', hooks := hs' } ?_, hrel⟩
        rcases pv_cases (hrel.getPV c.parentIsOptionalEmbedFieldName hP) with ⟨s1, _, e1, _, _⟩ | ⟨s1, e1, _, _, _⟩ | ⟨_, hn2⟩
        · exact Or.inl ⟨s1, e1⟩
        · exact Or.inl ⟨s1, e1⟩
        · exact Or.inr hn2
      | true =>
        cases a with
        | obj u n as tys =>
          have hkn' : known u n = true := by simpa [TfVal.isKnown] using hkn
          rw [objbranch_known rec ov c mv msg attrs o1 ds hs u n as tys he hk ho hl hv' hkn'] at h
          rw [objbranch_known rec' ov c mv msg attrs o2 ds' hs' u n as tys he hk ho hl hv' hkn']
          have hbase := prel_alloc_both hrel c.parentIsOptionalEmbedFieldName hP
          cases hem : isEmptyMsg msg with
          | true =>
            simp only [hem, Bool.not_true, Bool.false_eq_true, if_false] at h ⊢
            injection h with h
            subst h
            exact ⟨_, rfl, hbase.setField c.oneOfName (fun _ => .refl _ _)⟩
          | false =>
            simp only [hem, Bool.not_false, if_true] at h ⊢
            cases hr : rec as { obj := .struct [], diags := ds, hooks := hs } with
            | ok t1 =>
              obtain ⟨t2, ht2, hoff⟩ := hrec as ds hs ds' hs' t1 hr
              rw [hr] at h
              rw [ht2]
              simp only [] at h ⊢
              injection h with h
              subst h
              exact ⟨_, rfl, hbase.setField c.oneOfName (fun _ => .iface _ _ _ _ _ (.ptr _ _ _ hoff))⟩
            | panic w => rw [hr] at h; cases h
            | stuck w => rw [hr] at h; cases h
        | prim _ _ _ _ | list _ _ _ _ | map _ _ _ _ | nilv | foreign _ =>
          exfalso
          have hg := embedGuard_run c _ o1 he hkp (Or.inr hkn)
          unfold copyFromFieldWith at h
          simp [hl, hv', hg, hk] at h

theorem pe_custom_rel (rec rec' : FromRec) (ov : List (String × String))
    (c : FieldInfo) (mv : Option FieldInfo) (msg : Option MsgInfo) (attrs : Option (List (String × TfVal)))
    (ds ds' : List Diag) (hs hs' : List HookCall)
    (he : c.parentIsOptionalEmbed = true) (hk : c.kind = .custom) (hP : c.parentIsOptionalEmbedFieldName ∉ D) :
    FRelS D Par Z (fun o => copyFromFieldWith rec ov c mv msg attrs { obj := o, diags := ds, hooks := hs })
      (fun o => copyFromFieldWith rec' ov c mv msg attrs { obj := o, diags := ds', hooks := hs' }) := by
  intro o1 o2 t hs1 hrel h
  dsimp only at h ⊢
  have hs2 : IsStruct o2 := hrel.isStruct_iff.mp hs1
  obtain ⟨d1, h1, e1⟩ := pe_custom_run rec ov c mv msg attrs o1 ds hs he hk hs1
  obtain ⟨d2, h2, e2⟩ := pe_custom_run rec' ov c mv msg attrs o2 ds' hs' he hk hs2
  rw [e1] at h
  injection h with h
  subst h
  exact ⟨_, e2, prel_embedSet_both hrel _ _ hP (fun _ => .refl _ _)⟩

theorem pe_primbranch_rel (rec rec' : FromRec) (ov : List (String × String))
    (c : FieldInfo) (mv : Option FieldInfo) (msg : Option MsgInfo) (attrs : Option (List (String × TfVal)))
    (ds ds' : List Diag) (hs hs' : List HookCall) (hk : c.kind = .primitive) (ho : c.oneOfName ≠ "") :
    FRelS D Par Z (fun o => copyFromFieldWith rec ov c mv msg attrs { obj := o, diags := ds, hooks := hs })
      (fun o => copyFromFieldWith rec' ov c mv msg attrs { obj := o, diags := ds', hooks := hs' }) := by
  intro o1 o2 t hs1 hrel h
  dsimp only at h ⊢
  rcases prim_branch_form ov c mv msg attrs hk ho with ⟨tw, _, hF⟩ | hfail
  · obtain ⟨d1, h1, e1⟩ := hF rec { obj := o1, diags := ds, hooks := hs }
    obtain ⟨d2, h2, e2⟩ := hF rec' { obj := o2, diags := ds', hooks := hs' }
    rw [e1] at h
    injection h with h
    subst h
    exact ⟨_, e2, hrel.applyWrites_same tw⟩
  · exact absurd h (hfail rec _ t)

/-- **congruence of the block of a child of a nullable embedded message in its recursive call, from related targets**
(all kinds). `P`, the parent pointer, is not a Go field the removed blocks assign. -/
theorem pe_rel (rec rec' : FromRec) (hrec : FRecRel' D Par Z rec rec') (ov : List (String × String))
    (c : FieldInfo) (mv : Option FieldInfo) (msg : Option MsgInfo) (attrs : Option (List (String × TfVal)))
    (ds ds' : List Diag) (hs hs' : List HookCall)
    (he : c.parentIsOptionalEmbed = true) (hP : c.parentIsOptionalEmbedFieldName ∉ D)
    (hZ : c.parentIsOptionalEmbedFieldName ∈ Par → c.kind ≠ .custom →
      c.name ∈ D ∨ Z c.parentIsOptionalEmbedFieldName c.name (zeroWrite c)) :
    FRelS D Par Z (fun o => copyFromFieldWith rec ov c mv msg attrs { obj := o, diags := ds, hooks := hs })
      (fun o => copyFromFieldWith rec' ov c mv msg attrs { obj := o, diags := ds', hooks := hs' }) := by
  have viaNoOneOf : (c.kind = .primitiveList ∨ c.kind = .objectList ∨ c.kind = .primitiveMap ∨ c.kind = .objectMap) →
      FRelS D Par Z (fun o => copyFromFieldWith rec ov c mv msg attrs { obj := o, diags := ds, hooks := hs })
        (fun o => copyFromFieldWith rec' ov c mv msg attrs { obj := o, diags := ds', hooks := hs' }) := by
    intro hk
    have hfun : copyFromFieldWith rec ov c mv msg attrs = copyFromFieldWith rec ov (noOneOf c) mv msg attrs :=
      funext (fun st => fieldWith_noOneOf rec ov c mv msg attrs st hk)
    have hfun' : copyFromFieldWith rec' ov c mv msg attrs = copyFromFieldWith rec' ov (noOneOf c) mv msg attrs :=
      funext (fun st => fieldWith_noOneOf rec' ov c mv msg attrs st hk)
    rw [hfun, hfun']
    have hkc : (noOneOf c).kind ≠ .custom := by
      show c.kind ≠ .custom
      rcases hk with hk | hk | hk | hk <;> rw [hk] <;> decide
    exact pe_plain_rel rec rec' hrec ov (noOneOf c) mv msg attrs ds ds' hs hs' he hkc rfl hP (fun hp => hZ hp hkc)
  cases hk : c.kind with
  | custom => exact pe_custom_rel rec rec' ov c mv msg attrs ds ds' hs hs' he hk hP
  | primitive =>
    by_cases ho : c.oneOfName = ""
    · exact pe_plain_rel rec rec' hrec ov c mv msg attrs ds ds' hs hs' he (by rw [hk]; decide) ho hP
        (fun hp => hZ hp (by rw [hk]; decide))
    · exact pe_primbranch_rel rec rec' ov c mv msg attrs ds ds' hs hs' hk ho
  | object =>
    by_cases ho : c.oneOfName = ""
    · exact pe_plain_rel rec rec' hrec ov c mv msg attrs ds ds' hs hs' he (by rw [hk]; decide) ho hP
        (fun hp => hZ hp (by rw [hk]; decide))
    · exact pe_objbranch_rel rec rec' hrec ov c mv msg attrs ds ds' hs hs' he hk ho hP
  | primitiveList => exact viaNoOneOf (Or.inl hk)
  | objectList => exact viaNoOneOf (Or.inr (Or.inl hk))
  | primitiveMap => exact viaNoOneOf (Or.inr (Or.inr (Or.inl hk)))
  | objectMap => exact viaNoOneOf (Or.inr (Or.inr (Or.inr hk)))

/-- **the block of a REMOVED child of a nullable embedded message, on the left only**: `P`, the parent pointer, is one of
the parents in `Par` (or allocated on the right) and not in `D`; the Go field the block assigns behind the parent (`wk c`: the child's name) and the
holder it assigns (for a oneof branch) are in `D`. -/
theorem pe_drop (rec : FromRec) (ov : List (String × String))
    (c : FieldInfo) (mv : Option FieldInfo) (msg : Option MsgInfo) (attrs : Option (List (String × TfVal)))
    (ds : List Diag) (hs : List HookCall)
    (he : c.parentIsOptionalEmbed = true) (hP : c.parentIsOptionalEmbedFieldName ∉ D)
    (hwk : wk c ∈ D) (hoo : c.oneOfName ≠ "" → c.oneOfName ∈ D)
    (o1 o2 : GoVal) (t : FromSt) (hs1 : IsStruct o1) (hrel : PRel D Par Z none o1 o2)
    (hPar : c.parentIsOptionalEmbedFieldName ∈ Par ∨
      ∃ s, o2.field? c.parentIsOptionalEmbedFieldName = some (.ptr (some s)))
    (h : copyFromFieldWith rec ov c mv msg attrs { obj := o1, diags := ds, hooks := hs } = .ok t) :
    PRel D Par Z none t.obj o2 := by
  -- a child outside oneof groups (not of a custom type)
  have plain : ∀ c' : FieldInfo, c'.parentIsOptionalEmbed = true → c'.kind ≠ .custom → c'.oneOfName = "" →
      c'.parentIsOptionalEmbedFieldName = c.parentIsOptionalEmbedFieldName → c'.name ∈ D →
      copyFromFieldWith rec ov c' mv msg attrs { obj := o1, diags := ds, hooks := hs } = .ok t →
      PRel D Par Z none t.obj o2 := by
    intro c' he' hk' ho' hpp hn' h'
    cases hl : (attrs.getD []).lookup c'.nameSnake with
    | none =>
      rw [fieldWith_missing rec ov c' mv msg attrs _ hk' hl] at h'
      injection h' with h'
      subst h'
      exact hrel
    | some a =>
      by_cases hv : (a.vkind != vkindOf c'.tf.valueType || a.vkind == .unknown) = true
      · rw [fieldWith_conv rec ov c' mv msg attrs _ a hk' hl hv] at h'
        injection h' with h'
        subst h'
        exact hrel
      · have hv' : (a.vkind != vkindOf c'.tf.valueType || a.vkind == .unknown) = false := by simpa using hv
        by_cases hrun1 : (∃ s, o1.field? c'.parentIsOptionalEmbedFieldName = some (.ptr (some s))) ∨ a.isKnown = true
        · rcases plain_sem rec ov (unembed c') mv msg attrs ds hs a rfl hk' ho' hl hv' with ⟨v1, d1, h1, hU1⟩ | hfail
          · rw [pe_run_ok rec ov c' mv msg attrs o1 ds hs a he' hk' ho' hs1 hl hv' hrun1 v1 d1 h1 hU1] at h'
            injection h' with h'
            subst h'
            rw [hpp]
            exact prel_embedSet_left hrel _ _ hP hPar v1 (Or.inl hn')
          · exact absurd h' (pe_run_fail rec ov c' mv msg attrs o1 ds hs a he' hk' ho' hs1 hl hv' hrun1 hfail t)
        · have hn1 : NotAlloc c'.parentIsOptionalEmbedFieldName o1 := fun s e => hrun1 (Or.inl ⟨s, e⟩)
          have hkn : a.isKnown = false := by
            cases hx : a.isKnown with
            | false => rfl
            | true => exact absurd (Or.inr hx) hrun1
          obtain ⟨e, _⟩ := pe_idle rec ov c' mv msg attrs _ t a he' hk' ho' hl hv' hkn hn1 h'
          subst e
          exact hrel
  have viaNoOneOf : (c.kind = .primitiveList ∨ c.kind = .objectList ∨ c.kind = .primitiveMap ∨ c.kind = .objectMap) →
      PRel D Par Z none t.obj o2 := by
    intro hk
    have hnb : ¬ IsBranch c := by
      intro hb
      rcases hb.2 with h' | h' <;> rcases hk with hk | hk | hk | hk <;> rw [h'] at hk <;> cases hk
    have hwk' : c.name ∈ D := by simpa [wk, hnb] using hwk
    have hkc : (noOneOf c).kind ≠ .custom := by
      show c.kind ≠ .custom
      rcases hk with hk | hk | hk | hk <;> rw [hk] <;> decide
    rw [fieldWith_noOneOf rec ov c mv msg attrs _ hk] at h
    exact plain (noOneOf c) he hkc rfl rfl hwk' h
  cases hk : c.kind with
  | custom =>
    have hnb : ¬ IsBranch c := by simp [IsBranch, hk]
    have hwk' : c.name ∈ D := by simpa [wk, hnb] using hwk
    obtain ⟨d1, h1, e1⟩ := pe_custom_run rec ov c mv msg attrs o1 ds hs he hk hs1
    rw [e1] at h
    injection h with h
    subst h
    exact prel_embedSet_left hrel _ _ hP hPar _ (Or.inl hwk')
  | primitive =>
    by_cases ho : c.oneOfName = ""
    · have hnb : ¬ IsBranch c := by simp [IsBranch, ho]
      have hwk' : c.name ∈ D := by simpa [wk, hnb] using hwk
      exact plain c he (by rw [hk]; decide) ho rfl hwk' h
    · rcases prim_branch_form ov c mv msg attrs hk ho with ⟨tw, htw, hF⟩ | hfail
      · obtain ⟨d1, h1, e1⟩ := hF rec { obj := o1, diags := ds, hooks := hs }
        rw [e1] at h
        injection h with h
        subst h
        exact hrel.applyWrites_left tw (fun w hw => by rw [htw w hw]; exact hoo ho)
      · exact absurd h (hfail rec _ t)
  | object =>
    by_cases ho : c.oneOfName = ""
    · have hnb : ¬ IsBranch c := by simp [IsBranch, ho]
      have hwk' : c.name ∈ D := by simpa [wk, hnb] using hwk
      exact plain c he (by rw [hk]; decide) ho rfl hwk' h
    · have hkc : c.kind ≠ .custom := by rw [hk]; decide
      have hkp : c.kind ≠ .primitive := by rw [hk]; decide
      cases hl : (attrs.getD []).lookup c.nameSnake with
      | none =>
        rw [fieldWith_missing rec ov c mv msg attrs _ hkc hl] at h
        injection h with h
        subst h
        exact hrel
      | some a =>
        by_cases hv : (a.vkind != vkindOf c.tf.valueType || a.vkind == .unknown) = true
        · rw [fieldWith_conv rec ov c mv msg attrs _ a hkc hl hv] at h
          injection h with h
          subst h
          exact hrel
        · have hv' : (a.vkind != vkindOf c.tf.valueType || a.vkind == .unknown) = false := by simpa using hv
          cases hkn : a.isKnown with
          | false =>
            obtain ⟨e, _⟩ := objbranch_null rec ov c mv msg attrs _ t a he hk ho hl hv' hkn h
            subst e
            exact hrel
          | true =>
            cases a with
            | obj u n as tys =>
              have hkn' : known u n = true := by simpa [TfVal.isKnown] using hkn
              rw [objbranch_known rec ov c mv msg attrs o1 ds hs u n as tys he hk ho hl hv' hkn'] at h
              have hbase := prel_alloc_left hrel c.parentIsOptionalEmbedFieldName hP hPar
              cases hin : (if !isEmptyMsg msg then rec as { obj := .struct [], diags := ds, hooks := hs }
                  else .ok { obj := .struct [], diags := ds, hooks := hs }) with
              | ok st' =>
                rw [hin] at h
                simp only [] at h
                injection h with h
                subst h
                exact hbase.setField_left c.oneOfName (hoo ho) _
              | panic w => rw [hin] at h; cases h
              | stuck w => rw [hin] at h; cases h
            | prim _ _ _ _ | list _ _ _ _ | map _ _ _ _ | nilv | foreign _ =>
              exfalso
              have hg := embedGuard_run c _ o1 he hkp (Or.inr hkn)
              unfold copyFromFieldWith at h
              simp [hl, hv', hg, hk] at h
  | primitiveList => exact viaNoOneOf (Or.inl hk)
  | objectList => exact viaNoOneOf (Or.inr (Or.inl hk))
  | primitiveMap => exact viaNoOneOf (Or.inr (Or.inr (Or.inl hk)))
  | objectMap => exact viaNoOneOf (Or.inr (Or.inr (Or.inr hk)))

end pe

section keeps

/-- the Go field `Q` of the target points to an allocated struct -/
def Alloc (Q : String) (o : GoVal) : Prop := ∃ s, o.field? Q = some (.ptr (some s))

theorem alloc_setField {Q k : String} {o : GoVal} (x : GoVal) (h : Alloc Q o) (hk : k ≠ Q) : Alloc Q (o.setField k x) := by
  obtain ⟨s, e⟩ := h
  exact ⟨s, by rw [field?_setField_other' _ _ _ _ (Ne.symm hk)]; exact e⟩

theorem alloc_setParent {Q P : String} {o : GoVal} (hs : IsStruct o) (s' : GoVal) (h : Alloc Q o) :
    Alloc Q (o.setField P (.ptr (some s'))) := by
  by_cases e : P = Q
  · subst e
    exact ⟨s', field?_setField_same _ _ _ hs⟩
  · exact alloc_setField _ h e

theorem alloc_applyWrites {Q : String} : ∀ (ws : List (String × GoVal)) (o : GoVal), (∀ w ∈ ws, w.1 ≠ Q) →
    Alloc Q o → Alloc Q (applyWrites ws o)
  | [], _, _, h => h
  | w :: ws, o, hw, h => by
    simp only [applyWrites, List.foldl]
    exact alloc_applyWrites ws _ (fun x hx => hw x (List.mem_cons_of_mem _ hx))
      (alloc_setField _ h (hw w List.mem_cons_self))

/-- the block of a child of a nullable embedded message never sets an allocated pointer field back to nil (unless it is
the holder the block assigns) -/
theorem pe_keeps_alloc (rec : FromRec) (ov : List (String × String))
    (c : FieldInfo) (mv : Option FieldInfo) (msg : Option MsgInfo) (attrs : Option (List (String × TfVal)))
    (ds : List Diag) (hs : List HookCall) (he : c.parentIsOptionalEmbed = true)
    (o : GoVal) (t : FromSt) (hso : IsStruct o) (Q : String) (hQ : Alloc Q o) (hoo : c.oneOfName ≠ "" → c.oneOfName ≠ Q)
    (h : copyFromFieldWith rec ov c mv msg attrs { obj := o, diags := ds, hooks := hs } = .ok t) : Alloc Q t.obj := by
  have plain : ∀ c' : FieldInfo, c'.parentIsOptionalEmbed = true → c'.kind ≠ .custom → c'.oneOfName = "" →
      copyFromFieldWith rec ov c' mv msg attrs { obj := o, diags := ds, hooks := hs } = .ok t → Alloc Q t.obj := by
    intro c' he' hk' ho' h'
    cases hl : (attrs.getD []).lookup c'.nameSnake with
    | none =>
      rw [fieldWith_missing rec ov c' mv msg attrs _ hk' hl] at h'
      injection h' with h'
      subst h'
      exact hQ
    | some a =>
      by_cases hv : (a.vkind != vkindOf c'.tf.valueType || a.vkind == .unknown) = true
      · rw [fieldWith_conv rec ov c' mv msg attrs _ a hk' hl hv] at h'
        injection h' with h'
        subst h'
        exact hQ
      · have hv' : (a.vkind != vkindOf c'.tf.valueType || a.vkind == .unknown) = false := by simpa using hv
        by_cases hrun1 : (∃ s, o.field? c'.parentIsOptionalEmbedFieldName = some (.ptr (some s))) ∨ a.isKnown = true
        · rcases plain_sem rec ov (unembed c') mv msg attrs ds hs a rfl hk' ho' hl hv' with ⟨v1, d1, h1, hU1⟩ | hfail
          · rw [pe_run_ok rec ov c' mv msg attrs o ds hs a he' hk' ho' hso hl hv' hrun1 v1 d1 h1 hU1] at h'
            injection h' with h'
            subst h'
            exact alloc_setParent hso _ hQ
          · exact absurd h' (pe_run_fail rec ov c' mv msg attrs o ds hs a he' hk' ho' hso hl hv' hrun1 hfail t)
        · have hn1 : NotAlloc c'.parentIsOptionalEmbedFieldName o := fun s e => hrun1 (Or.inl ⟨s, e⟩)
          have hkn : a.isKnown = false := by
            cases hx : a.isKnown with
            | false => rfl
            | true => exact absurd (Or.inr hx) hrun1
          obtain ⟨e, _⟩ := pe_idle rec ov c' mv msg attrs _ t a he' hk' ho' hl hv' hkn hn1 h'
          subst e
          exact hQ
  have viaNoOneOf : (c.kind = .primitiveList ∨ c.kind = .objectList ∨ c.kind = .primitiveMap ∨ c.kind = .objectMap) →
      Alloc Q t.obj := by
    intro hk
    have hkc : (noOneOf c).kind ≠ .custom := by
      show c.kind ≠ .custom
      rcases hk with hk | hk | hk | hk <;> rw [hk] <;> decide
    rw [fieldWith_noOneOf rec ov c mv msg attrs _ hk] at h
    exact plain (noOneOf c) he hkc rfl h
  cases hk : c.kind with
  | custom =>
    obtain ⟨d1, h1, e1⟩ := pe_custom_run rec ov c mv msg attrs o ds hs he hk hso
    rw [e1] at h
    injection h with h
    subst h
    exact alloc_setParent hso _ hQ
  | primitive =>
    by_cases ho : c.oneOfName = ""
    · exact plain c he (by rw [hk]; decide) ho h
    · rcases prim_branch_form ov c mv msg attrs hk ho with ⟨tw, htw, hF⟩ | hfail
      · obtain ⟨d1, h1, e1⟩ := hF rec { obj := o, diags := ds, hooks := hs }
        rw [e1] at h
        injection h with h
        subst h
        exact alloc_applyWrites tw _ (fun w hw => by rw [htw w hw]; exact hoo ho) hQ
      · exact absurd h (hfail rec _ t)
  | object =>
    by_cases ho : c.oneOfName = ""
    · exact plain c he (by rw [hk]; decide) ho h
    · have hkc : c.kind ≠ .custom := by rw [hk]; decide
      have hkp : c.kind ≠ .primitive := by rw [hk]; decide
      cases hl : (attrs.getD []).lookup c.nameSnake with
      | none =>
        rw [fieldWith_missing rec ov c mv msg attrs _ hkc hl] at h
        injection h with h
        subst h
        exact hQ
      | some a =>
        by_cases hv : (a.vkind != vkindOf c.tf.valueType || a.vkind == .unknown) = true
        · rw [fieldWith_conv rec ov c mv msg attrs _ a hkc hl hv] at h
          injection h with h
          subst h
          exact hQ
        · have hv' : (a.vkind != vkindOf c.tf.valueType || a.vkind == .unknown) = false := by simpa using hv
          cases hkn : a.isKnown with
          | false =>
            obtain ⟨e, _⟩ := objbranch_null rec ov c mv msg attrs _ t a he hk ho hl hv' hkn h
            subst e
            exact hQ
          | true =>
            cases a with
            | obj u n as tys =>
              have hkn' : known u n = true := by simpa [TfVal.isKnown] using hkn
              rw [objbranch_known rec ov c mv msg attrs o ds hs u n as tys he hk ho hl hv' hkn'] at h
              cases hin : (if !isEmptyMsg msg then rec as { obj := .struct [], diags := ds, hooks := hs }
                  else .ok { obj := .struct [], diags := ds, hooks := hs }) with
              | ok st' =>
                rw [hin] at h
                simp only [] at h
                injection h with h
                subst h
                exact alloc_setField _ (alloc_setParent hso _ hQ) (hoo ho)
              | panic w => rw [hin] at h; cases h
              | stuck w => rw [hin] at h; cases h
            | prim _ _ _ _ | list _ _ _ _ | map _ _ _ _ | nilv | foreign _ =>
              exfalso
              have hg := embedGuard_run c _ o he hkp (Or.inr hkn)
              unfold copyFromFieldWith at h
              simp [hl, hv', hg, hk] at h
  | primitiveList => exact viaNoOneOf (Or.inl hk)
  | objectList => exact viaNoOneOf (Or.inr (Or.inl hk))
  | primitiveMap => exact viaNoOneOf (Or.inr (Or.inr (Or.inl hk)))
  | objectMap => exact viaNoOneOf (Or.inr (Or.inr (Or.inr hk)))

/-- a block keeps an allocated pointer field allocated, unless it is the Go field the block assigns (`wk`, for a field
that is not a child of a nullable embedded message) or the holder of its oneof group -/
theorem blockF_keeps_alloc (ov : List (String × String)) (f : Field) (attrs : Option (List (String × TfVal)))
    (st u : FromSt) (hs : IsStruct st.obj) (Q : String) (hQ : Alloc Q st.obj)
    (hwk : f.info.parentIsOptionalEmbed = false → wk f.info ≠ Q) (hoo : f.info.oneOfName ≠ "" → f.info.oneOfName ≠ Q)
    (h : blockF ov f attrs st = .ok u) : Alloc Q u.obj := by
  cases he : f.info.parentIsOptionalEmbed with
  | false =>
    obtain ⟨a, hpa, ha⟩ := blockF_nf ov f attrs he
    rw [ha st] at h
    cases a with
    | panic w => simp [applyFAct] at h
    | stuck w => simp [applyFAct] at h
    | ok r =>
      obtain ⟨ws, dx, hx⟩ := r
      simp only [applyFAct, Outcome.ok.injEq] at h
      subst h
      exact alloc_applyWrites ws _ (fun w hw => by rw [(hpa ws dx hx rfl).1 w hw]; exact hwk he) hQ
  | true =>
    obtain ⟨info, mv, msg, sub⟩ := f
    simp only at he hoo
    by_cases hph : info.isPlaceholder = true
    · simp only [blockF, hph, if_true] at h
      injection h with h
      subst h
      exact hQ
    · have hph' : info.isPlaceholder = false := by simpa using hph
      rw [blockF_eq ov info mv msg sub attrs st hph'] at h
      exact pe_keeps_alloc (recOf ov msg sub) ov info mv msg attrs st.diags st.hooks he st.obj u hs Q hQ hoo h

end keeps

/-! ## 4. the converters of the pruned IR, removed nodes at any depth, children of nullable embedded messages included -/

mutual
/-- the `FieldInfo`s of all nodes, at any depth -/
def infosF : Field → List FieldInfo
  | ⟨info, _, _, sub⟩ => info :: infosFs sub
def infosFs : List Field → List FieldInfo
  | [] => []
  | f :: fs => infosF f ++ infosFs fs
end

theorem blockF_isStruct (ov : List (String × String)) (f : Field) (attrs : Option (List (String × TfVal)))
    (st u : FromSt) (hs : IsStruct st.obj) (h : blockF ov f attrs st = .ok u) : IsStruct u.obj := by
  have hsem := blockF_sem ov f attrs
  rw [hsem.1 st] at h
  rcases hsem.2 st.obj st.obj hs hs (fun _ _ => rfl) with ⟨t1, _, e1, _, ht1, _⟩ | ⟨hf, _⟩
  · rw [e1] at h
    simp only [Outcome.mapO] at h
    injection h with h
    subst h
    exact ht1
  · cases hx : blockF ov f attrs { obj := st.obj, diags := [], hooks := [] } with
    | ok t => exact absurd hx (hf t)
    | panic w => rw [hx] at h; cases h
    | stuck w => rw [hx] at h; cases h

section main
variable {D Par : List String} {Z : String → String → GoVal → Prop}

mutual
/-- **CopyFrom blocks of a `pruneFsE`-pruned field list, removed nodes at any depth, children of nullable embedded
messages included.** `D` contains the Go fields the removed blocks assign and the holders of the removed branches, `Par`
the parent pointers of the removed children of nullable embedded messages; no parent pointer of the IR is in `D`; `Z`
accepts the reset values of the children. -/
theorem copyFromFields_deepN (c : PCfg) (ov : List (String × String)) : ∀ (fs : List Field),
    (∀ i ∈ infosFs fs, i.parentIsOptionalEmbed = true → i.parentIsOptionalEmbedFieldName ∉ D) →
    (∀ i ∈ infosFs fs, i.parentIsOptionalEmbed = true → i.kind ≠ .custom →
      Z i.parentIsOptionalEmbedFieldName i.name (zeroWrite i)) →
    ooOkFs c fs = true → (∀ x ∈ allDroppedGo c.p fs, x ∈ D) → (∀ x ∈ allDroppedOO c.p fs, x ∈ D) →
    (∀ x ∈ allDroppedParents c.p fs, x ∈ Par) →
    ∀ (attrs : Option (List (String × TfVal))) (s1 s2 t1 : FromSt), IsStruct s1.obj → PRel D Par Z none s1.obj s2.obj →
    copyFromFields ov fs attrs s1 = .ok t1 →
    ∃ t2, copyFromFields ov (pruneFsE c fs) attrs s2 = .ok t2 ∧ PRel D Par Z none t1.obj t2.obj
  | [], _, _, _, _, _, _, attrs, s1, s2, t1, _, hs, h => by
    simp only [copyFromFields] at h
    injection h with h
    subst h
    rw [pruneFsE_nil]
    exact ⟨s2, by simp [copyFromFields], hs⟩
  | f :: rest, hH, hZ, hoo, hD, hDo, hDp, attrs, s1, s2, t1, hst, hs, h => by
    rw [ooOkFs, Bool.and_eq_true] at hoo
    rw [allDroppedGo] at hD
    rw [allDroppedOO] at hDo
    rw [allDroppedParents] at hDp
    have hHrest : ∀ i ∈ infosFs rest, i.parentIsOptionalEmbed = true → i.parentIsOptionalEmbedFieldName ∉ D :=
      fun i hi => hH i (by rw [infosFs]; exact List.mem_append_right _ hi)
    have hZrest : ∀ i ∈ infosFs rest, i.parentIsOptionalEmbed = true → i.kind ≠ .custom →
        Z i.parentIsOptionalEmbedFieldName i.name (zeroWrite i) :=
      fun i hi => hZ i (by rw [infosFs]; exact List.mem_append_right _ hi)
    have hDrest : ∀ x ∈ allDroppedGo c.p rest, x ∈ D := fun x hx => hD x (List.mem_append_right _ hx)
    have hDorest : ∀ x ∈ allDroppedOO c.p rest, x ∈ D := fun x hx => hDo x (List.mem_append_right _ hx)
    have hDprest : ∀ x ∈ allDroppedParents c.p rest, x ∈ Par := fun x hx => hDp x (List.mem_append_right _ hx)
    rw [copyFromFields_cons] at h
    cases hb : blockF ov f attrs s1 with
    | panic w => rw [hb] at h; cases h
    | stuck w => rw [hb] at h; cases h
    | ok u1 =>
      rw [hb] at h
      simp only [obind] at h
      have hu1 : IsStruct u1.obj := blockF_isStruct ov f attrs s1 u1 hst hb
      rw [pruneFsE_cons]
      cases hd : dropped c.p f.info with
      | true =>
        simp only [if_true]
        have hkD : wk f.info ∈ D := hD _ (List.mem_append_left _ (by simp [hd]))
        refine copyFromFields_deepN c ov rest hHrest hZrest hoo.2 hDrest hDorest hDprest attrs u1 s2 t1 hu1 ?_ h
        cases hef : f.info.parentIsOptionalEmbed with
        | false =>
          obtain ⟨a, hpa, ha⟩ := blockF_nf ov f attrs hef
          rw [ha s1] at hb
          cases a with
          | panic w => simp [applyFAct] at hb
          | stuck w => simp [applyFAct] at hb
          | ok r =>
            obtain ⟨ws, dx, hx⟩ := r
            simp only [applyFAct, Outcome.ok.injEq] at hb
            subst hb
            exact hs.applyWrites_left ws (fun w hw => by rw [(hpa ws dx hx rfl).1 w hw]; exact hkD)
        | true =>
          obtain ⟨info, mv, msg, sub⟩ := f
          simp only at hef hd hkD
          have hph : info.isPlaceholder = false := by
            cases hx : info.isPlaceholder with
            | false => rfl
            | true => simp [dropped, hx] at hd
          rw [blockF_eq ov info mv msg sub attrs s1 hph] at hb
          have hP : info.parentIsOptionalEmbedFieldName ∉ D :=
            hH info (by rw [infosFs, infosF]; exact List.mem_append_left _ List.mem_cons_self) hef
          have hPar : info.parentIsOptionalEmbedFieldName ∈ Par :=
            hDp _ (List.mem_append_left _ (by simp [hd, hef]))
          have hoo' : info.oneOfName ≠ "" → info.oneOfName ∈ D := by
            intro hne
            have hb' : (info.oneOfName == "") = false := by simpa using hne
            exact hDo _ (List.mem_append_left _ (by simp [hd, hb']))
          exact pe_drop (recOf ov msg sub) ov info mv msg attrs s1.diags s1.hooks hef hP hkD hoo' s1.obj s2.obj u1 hst hs
            (Or.inl hPar) hb
      | false =>
        simp only [Bool.false_eq_true, if_false]
        rw [copyFromFields_cons]
        have hHf : ∀ i ∈ infosF f, i.parentIsOptionalEmbed = true → i.parentIsOptionalEmbedFieldName ∉ D :=
          fun i hi => hH i (by rw [infosFs]; exact List.mem_append_left _ hi)
        have hZf : ∀ i ∈ infosF f, i.parentIsOptionalEmbed = true → i.kind ≠ .custom →
            Z i.parentIsOptionalEmbedFieldName i.name (zeroWrite i) :=
          fun i hi => hZ i (by rw [infosFs]; exact List.mem_append_left _ hi)
        have hDf : ∀ x ∈ allDroppedGoF c.p f, x ∈ D := fun x hx => hD x (List.mem_append_left _ (by simpa [hd] using hx))
        have hDof : ∀ x ∈ allDroppedOOF c.p f, x ∈ D := fun x hx => hDo x (List.mem_append_left _ (by simpa [hd] using hx))
        have hDpf : ∀ x ∈ allDroppedParentsF c.p f, x ∈ Par :=
          fun x hx => hDp x (List.mem_append_left _ (by simpa [hd] using hx))
        obtain ⟨u2, hu2, hoff⟩ := blockF_deepN c ov f hHf hZf hoo.1 hDf hDof hDpf attrs s1 s2 u1 hst hs hb
        rw [hu2]
        simp only [obind]
        exact copyFromFields_deepN c ov rest hHrest hZrest hoo.2 hDrest hDorest hDprest attrs u1 u2 t1 hu1 hoff h
/-- one step of a surviving node against the step of its pruned version -/
theorem blockF_deepN (c : PCfg) (ov : List (String × String)) : ∀ (f : Field),
    (∀ i ∈ infosF f, i.parentIsOptionalEmbed = true → i.parentIsOptionalEmbedFieldName ∉ D) →
    (∀ i ∈ infosF f, i.parentIsOptionalEmbed = true → i.kind ≠ .custom →
      Z i.parentIsOptionalEmbedFieldName i.name (zeroWrite i)) →
    ooOkF c f = true → (∀ x ∈ allDroppedGoF c.p f, x ∈ D) → (∀ x ∈ allDroppedOOF c.p f, x ∈ D) →
    (∀ x ∈ allDroppedParentsF c.p f, x ∈ Par) →
    ∀ (attrs : Option (List (String × TfVal))) (s1 s2 u1 : FromSt), IsStruct s1.obj → PRel D Par Z none s1.obj s2.obj →
    blockF ov f attrs s1 = .ok u1 → ∃ u2, blockF ov (pruneFE c f) attrs s2 = .ok u2 ∧ PRel D Par Z none u1.obj u2.obj
  | ⟨info, mv, msg, sub⟩, hH, hZ, hoo, hD, hDo, hDp, attrs, s1, s2, u1, hst, hs, h => by
    rw [ooOkF, Bool.and_eq_true] at hoo
    rw [allDroppedGoF] at hD
    rw [allDroppedOOF] at hDo
    rw [allDroppedParentsF] at hDp
    have hHsub : ∀ i ∈ infosFs sub, i.parentIsOptionalEmbed = true → i.parentIsOptionalEmbedFieldName ∉ D :=
      fun i hi => hH i (by rw [infosF]; exact List.mem_cons_of_mem _ hi)
    have hZsub : ∀ i ∈ infosFs sub, i.parentIsOptionalEmbed = true → i.kind ≠ .custom →
        Z i.parentIsOptionalEmbedFieldName i.name (zeroWrite i) :=
      fun i hi => hZ i (by rw [infosF]; exact List.mem_cons_of_mem _ hi)
    unfold blockF at h ⊢
    rw [pruneFE_info]
    simp only [] at h ⊢
    by_cases hph : info.isPlaceholder = true
    · simp only [hph, if_true] at h ⊢
      injection h with h
      subst h
      exact ⟨s2, rfl, hs⟩
    · simp only [hph, Bool.false_eq_true, if_false] at h ⊢
      rw [pruneFE, copyFromField]
      rw [copyFromField] at h
      have hmsg : isEmptyMsg (msg.map (fun mi => reInfo c mi (pruneFsE c sub))) = isEmptyMsg msg := isEmptyMsg_reInfo c msg _
      have hrec : FRecRel' D Par Z
          (fun attrs s => copyFromFields ov sub attrs
            { s with obj := resetOneOfs ((msg.map (·.oneOfNames)).getD []) s.obj })
          (fun attrs s => copyFromFields ov (pruneFsE c sub) attrs
            { s with obj := resetOneOfs (((msg.map (fun mi => reInfo c mi (pruneFsE c sub))).map (·.oneOfNames)).getD []) s.obj }) := by
        intro as d1 h1 d2 h2 t1 ht1
        refine copyFromFields_deepN c ov sub hHsub hZsub hoo.2 hD hDo hDp as _ _ t1 ?_ ?_ ht1
        · exact isStruct_resetOneOfs _ _ trivial
        · show PRel D Par Z none (resetOneOfs _ (.struct [])) (resetOneOfs _ (.struct []))
          refine prel_resetOneOfs _ _ ?_ (PRel.refl _ _)
          intro n hn
          cases msg with
          | none => exact Iff.rfl
          | some mi =>
            have hmi : mi.oneOfNames = reNames c.srt (c.own mi.name) sub := by simpa [namesOk] using hoo.1
            show n ∈ mi.oneOfNames ↔ n ∈ reNames c.srt (c.own mi.name) (pruneFsE c sub)
            rw [hmi]
            exact names_off c D _ sub hDo n hn
      cases he : info.parentIsOptionalEmbed with
      | false =>
        obtain ⟨u2, hu2, hoff⟩ := fieldWith_frel _ _ ov info mv msg attrs s1.diags s2.diags s1.hooks s2.hooks hrec he
          s1.obj s2.obj u1 hs h
        refine ⟨u2, ?_, hoff⟩
        rw [← hu2]
        exact copyFromFieldWith_msg hmsg _ ov info mv attrs _
      | true =>
        have hP : info.parentIsOptionalEmbedFieldName ∉ D := hH info (by rw [infosF]; exact List.mem_cons_self) he
        obtain ⟨u2, hu2, hoff⟩ := pe_rel _ _ hrec ov info mv msg attrs s1.diags s2.diags s1.hooks s2.hooks he hP
          (fun _ hk => Or.inr (hZ info (by rw [infosF]; exact List.mem_cons_self) he hk))
          s1.obj s2.obj u1 hst hs h
        refine ⟨u2, ?_, hoff⟩
        rw [← hu2]
        exact copyFromFieldWith_msg hmsg _ ov info mv attrs _
end

end main

/-! ## 5. the whole converter -/

/-- `v` is the reset value (`zeroWrite`) of a child named `n` (not of a custom type) of the nullable embedded message
`P`, among the nodes of `fs` -/
def ResetOf (fs : List Field) (P n : String) (v : GoVal) : Prop :=
  ∃ i ∈ infosFs fs, i.parentIsOptionalEmbed = true ∧ i.kind ≠ .custom ∧ i.parentIsOptionalEmbedFieldName = P ∧
    i.name = n ∧ v = zeroWrite i

/-- hygiene: the Go field that points to a nullable embedded message is not a Go field that a removed block assigns, nor
the holder of a removed oneof branch (decidable: `parentsApartB`) -/
def ParentsApart (p : String) (fs : List Field) : Prop :=
  ∀ i ∈ infosFs fs, i.parentIsOptionalEmbed = true →
    i.parentIsOptionalEmbedFieldName ∉ allDroppedGo p fs ++ allDroppedOO p fs

def parentsApartB (p : String) (fs : List Field) : Bool :=
  (infosFs fs).all fun i => !i.parentIsOptionalEmbed ||
    !(allDroppedGo p fs ++ allDroppedOO p fs).contains i.parentIsOptionalEmbedFieldName

theorem parentsApart_of_B {p : String} {fs : List Field} (h : parentsApartB p fs = true) : ParentsApart p fs := by
  intro i hi he
  have := List.all_eq_true.mp h i hi
  simpa [he] using this

/-- **`Copy<T>FromTerraform` of the pruned message, removed nodes at any depth, children of NULLABLE embedded messages
included.** Whenever the converter of `m` succeeds on a struct target, the converter of `pruneE p m` succeeds on the same
inputs, and the two results are related by `PRel D Par Z none`:
* `D` = the Go fields the removed blocks assign and the holders of the removed oneof branches - ignored at any depth;
* the Go field `P ∈ Par` that points to a nullable embedded message with a removed child is, on the two sides,
  - literally equal (`refl`), or
  - allocated on both sides, to structs that agree field by field outside `D`, where a field that is absent on the right
    may hold a reset value (`zeroWrite` of the child) on the left (`pinner`), or
  - allocated on the left only, to a struct that holds only reset values outside `D` (`palloc`, `struct`);
* every other Go field: related at any depth. -/
theorem copyFrom_pruneE_nullable (ov : List (String × String)) (c : PCfg) (own : List String) (m : Msg) (tf : TfVal)
    (obj : GoVal) (r1 : FromResult) (hobj : IsStruct obj) (hoo : ooOkFs c m.fields = true)
    (hm : m.info.oneOfNames = reNames c.srt own m.fields) (hH : ParentsApart c.p m.fields)
    (h : copyFrom ov m tf obj = .ok r1) :
    ∃ r2, copyFrom ov (pruneE c own m) tf obj = .ok r2 ∧
      PRel (allDroppedGo c.p m.fields ++ allDroppedOO c.p m.fields) (allDroppedParents c.p m.fields)
        (ResetOf m.fields) none r1.obj r2.obj := by
  unfold copyFrom at h ⊢
  cases tf with
  | obj u n attrs atys =>
    simp only [] at h ⊢
    cases hf : copyFromFields ov m.fields attrs { obj := resetOneOfs m.info.oneOfNames obj } with
    | panic w => rw [hf] at h; cases h
    | stuck w => rw [hf] at h; cases h
    | ok s1 =>
      rw [hf] at h
      injection h with h
      subst h
      obtain ⟨s2, h2, hoff⟩ := copyFromFields_deepN (D := allDroppedGo c.p m.fields ++ allDroppedOO c.p m.fields)
        (Par := allDroppedParents c.p m.fields) (Z := ResetOf m.fields) c ov m.fields
        hH (fun i hi he hk => ⟨i, hi, he, hk, rfl, rfl, rfl⟩) hoo
        (fun _ hx => List.mem_append_left _ hx) (fun _ hx => List.mem_append_right _ hx) (fun _ hx => hx) attrs
        { obj := resetOneOfs m.info.oneOfNames obj }
        { obj := resetOneOfs (reNames c.srt own (pruneFsE c m.fields)) obj } s1
        (isStruct_resetOneOfs _ _ hobj)
        (by
          show PRel _ _ _ none (resetOneOfs _ obj) (resetOneOfs _ obj)
          refine prel_resetOneOfs _ _ ?_ (PRel.refl _ _)
          intro n hn
          rw [hm]
          exact names_off c _ own m.fields (fun _ hx => List.mem_append_right _ hx) n hn) hf
      show ∃ r2, (match copyFromFields ov (pruneFsE c m.fields) attrs
          { obj := resetOneOfs (reNames c.srt own (pruneFsE c m.fields)) obj } with
        | .ok st => Outcome.ok ({ obj := st.obj, diags := st.diags, hooks := st.hooks } : FromResult)
        | .panic w => .panic w
        | .stuck w => .stuck w) = .ok r2 ∧ _
      rw [h2]
      exact ⟨_, rfl, hoff⟩
  | prim _ _ _ _ => cases h
  | list _ _ _ _ => cases h
  | map _ _ _ _ => cases h
  | nilv => cases h
  | foreign _ => cases h

/-! ### (a): literal agreement off the removed Go fields, holders AND parents - the conjecture of ExclusionPruneEmbed -/

/-- forgetting what `PRel` says about the parent pointers: agreement outside `D ++ Par` -/
theorem PRel.toOffG {D Par : List String} {Z : String → String → GoVal → Prop} {κ : Option String} {v v' : GoVal}
    (h : PRel D Par Z κ v v') : (∀ k, κ = some k → k ∉ Par) → OffG (D ++ Par) v v' := by
  induction h with
  | refl => intro _; exact .refl _
  | struct κ fs fs' hdom hval ih =>
    intro _
    refine .struct _ _ (fun name hn => ?_) (fun name w w' hn hw hw' => ?_)
    · have hnD : name ∉ D := fun h' => hn (List.mem_append_left _ h')
      rcases hdom name hnD with h' | ⟨hp, _⟩
      · exact h'
      · exact absurd (List.mem_append_right _ hp) hn
    · have hnD : name ∉ D := fun h' => hn (List.mem_append_left _ h')
      exact ih name w w' hnD hw hw' (fun k e => by injection e with e; subst e; exact fun h' => hn (List.mem_append_right _ h'))
  | ptr κ a b _ ih => intro _; exact .ptr _ _ (ih (fun k e => by cases e))
  | slice κ es es' hl _ ih => intro _; exact .slice _ _ hl (fun i a b ha hb => ih i a b ha hb (fun k e => by cases e))
  | map κ es es' hd _ ih => intro _; exact .map _ _ hd (fun key a b ha hb => ih key a b ha hb (fun k e => by cases e))
  | iface κ w f a b _ ih => intro _; exact .iface _ _ _ _ (ih (fun k e => by cases e))
  | pinner P s s' hP _ _ _ _ _ => intro hk; exact absurd hP (hk P rfl)
  | palloc P s v' hP _ _ _ => intro hk; exact absurd hP (hk P rfl)

/-- **(a), corrected**: the conjecture `copyFrom_pruneE_nullable_full` of ExclusionPruneEmbed.lean holds for struct
targets under the hygiene condition `ParentsApart` (it is false without: `copyFrom_pruneE_nullable_full_false`). -/
theorem copyFrom_pruneE_nullable_offParents (ov : List (String × String)) (c : PCfg) (own : List String) (m : Msg)
    (tf : TfVal) (obj : GoVal) (r1 : FromResult) (hobj : IsStruct obj) (hoo : ooOkFs c m.fields = true)
    (hm : m.info.oneOfNames = reNames c.srt own m.fields) (hH : ParentsApart c.p m.fields)
    (h : copyFrom ov m tf obj = .ok r1) :
    ∃ r2, copyFrom ov (pruneE c own m) tf obj = .ok r2 ∧
      OffG (allDroppedGo c.p m.fields ++ allDroppedOO c.p m.fields ++ allDroppedParents c.p m.fields) r1.obj r2.obj := by
  obtain ⟨r2, h2, hrel⟩ := copyFrom_pruneE_nullable ov c own m tf obj r1 hobj hoo hm hH h
  exact ⟨r2, h2, hrel.toOffG (fun k e => by cases e)⟩

/-! ### (c): literal agreement when the prior struct already holds the parent -/

theorem alloc_resetOneOfs {Q : String} (ns : List String) (hQ : Q ∉ ns) : ∀ (o : GoVal), Alloc Q o → Alloc Q (resetOneOfs ns o) := by
  unfold resetOneOfs
  induction ns with
  | nil => intro o h; exact h
  | cons n ns ih =>
    intro o h
    rw [List.foldl_cons]
    exact ih (fun h' => hQ (List.mem_cons_of_mem _ h')) _ (alloc_setField _ h (fun e => hQ (e ▸ List.mem_cons_self)))

section held
variable {D Par : List String} {Z : String → String → GoVal → Prop}

/-- **the field blocks of the message itself, when the parents `A` of the removed children (at this level) are allocated
on the right** (hence on the left) **and no block of this level sets them back to nil**: these parents need not be in
`Par` -/
theorem copyFromFields_held (c : PCfg) (ov : List (String × String)) (A : List String) : ∀ (fs : List Field),
    (∀ i ∈ infosFs fs, i.parentIsOptionalEmbed = true → i.parentIsOptionalEmbedFieldName ∉ D) →
    (∀ i ∈ infosFs fs, i.parentIsOptionalEmbed = true → i.kind ≠ .custom →
      Z i.parentIsOptionalEmbedFieldName i.name (zeroWrite i)) →
    ooOkFs c fs = true → (∀ x ∈ allDroppedGo c.p fs, x ∈ D) → (∀ x ∈ allDroppedOO c.p fs, x ∈ D) →
    (∀ f ∈ fs, dropped c.p f.info = true → f.info.parentIsOptionalEmbed = true →
      f.info.parentIsOptionalEmbedFieldName ∈ Par ∨ f.info.parentIsOptionalEmbedFieldName ∈ A) →
    (∀ f ∈ fs, dropped c.p f.info = false → ∀ x ∈ allDroppedParentsF c.p f, x ∈ Par) →
    (∀ f ∈ fs, ∀ Q ∈ A, (f.info.parentIsOptionalEmbed = false → wk f.info ≠ Q) ∧
      (f.info.oneOfName ≠ "" → f.info.oneOfName ≠ Q)) →
    ∀ (attrs : Option (List (String × TfVal))) (s1 s2 t1 : FromSt), IsStruct s1.obj → PRel D Par Z none s1.obj s2.obj →
    (∀ Q ∈ A, Alloc Q s2.obj) →
    copyFromFields ov fs attrs s1 = .ok t1 →
    ∃ t2, copyFromFields ov (pruneFsE c fs) attrs s2 = .ok t2 ∧ PRel D Par Z none t1.obj t2.obj
  | [], _, _, _, _, _, _, _, _, attrs, s1, s2, t1, _, hs, _, h => by
    simp only [copyFromFields] at h
    injection h with h
    subst h
    rw [pruneFsE_nil]
    exact ⟨s2, by simp [copyFromFields], hs⟩
  | f :: rest, hH, hZ, hoo, hD, hDo, hTop, hDeep, hKeep, attrs, s1, s2, t1, hst, hs, hA, h => by
    rw [ooOkFs, Bool.and_eq_true] at hoo
    rw [allDroppedGo] at hD
    rw [allDroppedOO] at hDo
    have hHrest : ∀ i ∈ infosFs rest, i.parentIsOptionalEmbed = true → i.parentIsOptionalEmbedFieldName ∉ D :=
      fun i hi => hH i (by rw [infosFs]; exact List.mem_append_right _ hi)
    have hZrest : ∀ i ∈ infosFs rest, i.parentIsOptionalEmbed = true → i.kind ≠ .custom →
        Z i.parentIsOptionalEmbedFieldName i.name (zeroWrite i) :=
      fun i hi => hZ i (by rw [infosFs]; exact List.mem_append_right _ hi)
    have hDrest : ∀ x ∈ allDroppedGo c.p rest, x ∈ D := fun x hx => hD x (List.mem_append_right _ hx)
    have hDorest : ∀ x ∈ allDroppedOO c.p rest, x ∈ D := fun x hx => hDo x (List.mem_append_right _ hx)
    have hTopR := fun g (hg : g ∈ rest) => hTop g (List.mem_cons_of_mem _ hg)
    have hDeepR := fun g (hg : g ∈ rest) => hDeep g (List.mem_cons_of_mem _ hg)
    have hKeepR := fun g (hg : g ∈ rest) => hKeep g (List.mem_cons_of_mem _ hg)
    rw [copyFromFields_cons] at h
    cases hb : blockF ov f attrs s1 with
    | panic w => rw [hb] at h; cases h
    | stuck w => rw [hb] at h; cases h
    | ok u1 =>
      rw [hb] at h
      simp only [obind] at h
      have hu1 : IsStruct u1.obj := blockF_isStruct ov f attrs s1 u1 hst hb
      rw [pruneFsE_cons]
      cases hd : dropped c.p f.info with
      | true =>
        simp only [if_true]
        have hkD : wk f.info ∈ D := hD _ (List.mem_append_left _ (by simp [hd]))
        refine copyFromFields_held c ov A rest hHrest hZrest hoo.2 hDrest hDorest hTopR hDeepR hKeepR attrs u1 s2 t1 hu1
          ?_ hA h
        cases hef : f.info.parentIsOptionalEmbed with
        | false =>
          obtain ⟨a, hpa, ha⟩ := blockF_nf ov f attrs hef
          rw [ha s1] at hb
          cases a with
          | panic w => simp [applyFAct] at hb
          | stuck w => simp [applyFAct] at hb
          | ok r =>
            obtain ⟨ws, dx, hx⟩ := r
            simp only [applyFAct, Outcome.ok.injEq] at hb
            subst hb
            exact hs.applyWrites_left ws (fun w hw => by rw [(hpa ws dx hx rfl).1 w hw]; exact hkD)
        | true =>
          have hPA := hTop f List.mem_cons_self hd hef
          obtain ⟨info, mv, msg, sub⟩ := f
          simp only at hef hd hkD hPA
          have hph : info.isPlaceholder = false := by
            cases hx : info.isPlaceholder with
            | false => rfl
            | true => simp [dropped, hx] at hd
          rw [blockF_eq ov info mv msg sub attrs s1 hph] at hb
          have hP : info.parentIsOptionalEmbedFieldName ∉ D :=
            hH info (by rw [infosFs, infosF]; exact List.mem_append_left _ List.mem_cons_self) hef
          have hoo' : info.oneOfName ≠ "" → info.oneOfName ∈ D := by
            intro hne
            have hb' : (info.oneOfName == "") = false := by simpa using hne
            exact hDo _ (List.mem_append_left _ (by simp [hd, hb']))
          refine pe_drop (recOf ov msg sub) ov info mv msg attrs s1.diags s1.hooks hef hP hkD hoo' s1.obj s2.obj u1 hst hs
            ?_ hb
          rcases hPA with hp | hp
          · exact Or.inl hp
          · exact Or.inr (hA _ hp)
      | false =>
        simp only [Bool.false_eq_true, if_false]
        rw [copyFromFields_cons]
        have hHf : ∀ i ∈ infosF f, i.parentIsOptionalEmbed = true → i.parentIsOptionalEmbedFieldName ∉ D :=
          fun i hi => hH i (by rw [infosFs]; exact List.mem_append_left _ hi)
        have hZf : ∀ i ∈ infosF f, i.parentIsOptionalEmbed = true → i.kind ≠ .custom →
            Z i.parentIsOptionalEmbedFieldName i.name (zeroWrite i) :=
          fun i hi => hZ i (by rw [infosFs]; exact List.mem_append_left _ hi)
        have hDf : ∀ x ∈ allDroppedGoF c.p f, x ∈ D := fun x hx => hD x (List.mem_append_left _ (by simpa [hd] using hx))
        have hDof : ∀ x ∈ allDroppedOOF c.p f, x ∈ D := fun x hx => hDo x (List.mem_append_left _ (by simpa [hd] using hx))
        obtain ⟨u2, hu2, hoff⟩ := blockF_deepN c ov f hHf hZf hoo.1 hDf hDof (hDeep f List.mem_cons_self hd) attrs s1 s2 u1
          hst hs hb
        rw [hu2]
        simp only [obind]
        have hs2 : IsStruct s2.obj := hs.isStruct_iff.mp hst
        refine copyFromFields_held c ov A rest hHrest hZrest hoo.2 hDrest hDorest hTopR hDeepR hKeepR attrs u1 u2 t1 hu1
          hoff (fun Q hQ => ?_) h
        have hk := hKeep f List.mem_cons_self Q hQ
        refine blockF_keeps_alloc ov (pruneFE c f) attrs s2 u2 hs2 Q (hA Q hQ) ?_ ?_ hu2
        · rw [pruneFE_info]; exact hk.1
        · rw [pruneFE_info]; exact hk.2

end held

/-- **(c), the prior struct holds the parents.** `A`: parent pointers that the prior struct `obj` holds allocated and
that no block of the message itself sets back to nil (`hKeep`; they are not holders of the message: `hAn`). The parents of
the removed children of the message itself may be in `A` instead of `Par`. -/
theorem copyFrom_pruneE_parent_held (ov : List (String × String)) (c : PCfg) (own : List String) (m : Msg) (tf : TfVal)
    (obj : GoVal) (r1 : FromResult) (A Par : List String)
    (hobj : IsStruct obj) (hoo : ooOkFs c m.fields = true)
    (hm : m.info.oneOfNames = reNames c.srt own m.fields) (hH : ParentsApart c.p m.fields)
    (hA : ∀ Q ∈ A, Alloc Q obj) (hAn : ∀ Q ∈ A, Q ∉ m.info.oneOfNames)
    (hTop : ∀ f ∈ m.fields, dropped c.p f.info = true → f.info.parentIsOptionalEmbed = true →
      f.info.parentIsOptionalEmbedFieldName ∈ Par ∨ f.info.parentIsOptionalEmbedFieldName ∈ A)
    (hDeep : ∀ f ∈ m.fields, dropped c.p f.info = false → ∀ x ∈ allDroppedParentsF c.p f, x ∈ Par)
    (hKeep : ∀ f ∈ m.fields, ∀ Q ∈ A, (f.info.parentIsOptionalEmbed = false → wk f.info ≠ Q) ∧
      (f.info.oneOfName ≠ "" → f.info.oneOfName ≠ Q))
    (h : copyFrom ov m tf obj = .ok r1) :
    ∃ r2, copyFrom ov (pruneE c own m) tf obj = .ok r2 ∧
      PRel (allDroppedGo c.p m.fields ++ allDroppedOO c.p m.fields) Par (ResetOf m.fields) none r1.obj r2.obj := by
  unfold copyFrom at h ⊢
  cases tf with
  | obj u n attrs atys =>
    simp only [] at h ⊢
    cases hf : copyFromFields ov m.fields attrs { obj := resetOneOfs m.info.oneOfNames obj } with
    | panic w => rw [hf] at h; cases h
    | stuck w => rw [hf] at h; cases h
    | ok s1 =>
      rw [hf] at h
      injection h with h
      subst h
      obtain ⟨s2, h2, hoff⟩ := copyFromFields_held (D := allDroppedGo c.p m.fields ++ allDroppedOO c.p m.fields)
        (Par := Par) (Z := ResetOf m.fields) c ov A m.fields
        hH (fun i hi he hk => ⟨i, hi, he, hk, rfl, rfl, rfl⟩) hoo
        (fun _ hx => List.mem_append_left _ hx) (fun _ hx => List.mem_append_right _ hx) hTop hDeep hKeep attrs
        { obj := resetOneOfs m.info.oneOfNames obj }
        { obj := resetOneOfs (reNames c.srt own (pruneFsE c m.fields)) obj } s1
        (isStruct_resetOneOfs _ _ hobj)
        (by
          show PRel _ _ _ none (resetOneOfs _ obj) (resetOneOfs _ obj)
          refine prel_resetOneOfs _ _ ?_ (PRel.refl _ _)
          intro n hn
          rw [hm]
          exact names_off c _ own m.fields (fun _ hx => List.mem_append_right _ hx) n hn)
        (fun Q hQ => alloc_resetOneOfs _
          (fun hmem => hAn Q hQ (oneOfNames_pruneE_subset c own m hm Q hmem)) _ (hA Q hQ)) hf
      show ∃ r2, (match copyFromFields ov (pruneFsE c m.fields) attrs
          { obj := resetOneOfs (reNames c.srt own (pruneFsE c m.fields)) obj } with
        | .ok st => Outcome.ok ({ obj := st.obj, diags := st.diags, hooks := st.hooks } : FromResult)
        | .panic w => .panic w
        | .stuck w => .stuck w) = .ok r2 ∧ _
      rw [h2]
      exact ⟨_, rfl, hoff⟩
  | prim _ _ _ _ => cases h
  | list _ _ _ _ => cases h
  | map _ _ _ _ => cases h
  | nilv => cases h
  | foreign _ => cases h

/-- **(c), literal form**: every removed child of a nullable embedded message is a field of `m` itself (none below:
`hDeep`), and the prior struct holds their parents. Then the results agree LITERALLY outside the removed Go fields and
holders - the statement of `ExclusionPruneEmbed.copyFrom_pruneE_deep`, without `plainFs`. -/
theorem copyFrom_pruneE_parent_held_literal (ov : List (String × String)) (c : PCfg) (own : List String) (m : Msg)
    (tf : TfVal) (obj : GoVal) (r1 : FromResult) (A : List String)
    (hobj : IsStruct obj) (hoo : ooOkFs c m.fields = true)
    (hm : m.info.oneOfNames = reNames c.srt own m.fields) (hH : ParentsApart c.p m.fields)
    (hA : ∀ Q ∈ A, Alloc Q obj) (hAn : ∀ Q ∈ A, Q ∉ m.info.oneOfNames)
    (hTop : ∀ f ∈ m.fields, dropped c.p f.info = true → f.info.parentIsOptionalEmbed = true →
      f.info.parentIsOptionalEmbedFieldName ∈ A)
    (hDeep : ∀ f ∈ m.fields, dropped c.p f.info = false → allDroppedParentsF c.p f = [])
    (hKeep : ∀ f ∈ m.fields, ∀ Q ∈ A, (f.info.parentIsOptionalEmbed = false → wk f.info ≠ Q) ∧
      (f.info.oneOfName ≠ "" → f.info.oneOfName ≠ Q))
    (h : copyFrom ov m tf obj = .ok r1) :
    ∃ r2, copyFrom ov (pruneE c own m) tf obj = .ok r2 ∧
      OffG (allDroppedGo c.p m.fields ++ allDroppedOO c.p m.fields) r1.obj r2.obj := by
  obtain ⟨r2, h2, hrel⟩ := copyFrom_pruneE_parent_held ov c own m tf obj r1 A [] hobj hoo hm hH hA hAn
    (fun f hf hd he => Or.inr (hTop f hf hd he))
    (fun f hf hd x hx => by rw [hDeep f hf hd] at hx; cases hx) hKeep h
  refine ⟨r2, h2, ?_⟩
  have := hrel.toOffG (fun k e => by cases e)
  rwa [List.append_nil] at this

/-! ### (b): agreement in the normal form of C04 on the surviving children of the parent -/

/-- **what `PRel` says about the field `n` of the struct behind the parent pointer `P`** (`cfield`: `none` when the
parent is nil or the field is absent): both sides hold related values, or the right side holds nothing and the left side
holds nothing or a reset value -/
theorem cfield_rel {D Par : List String} {Z : String → String → GoVal → Prop} {o1 o2 : GoVal}
    (h : PRel D Par Z none o1 o2) (P n : String) (hP : P ∉ D) (hn : n ∉ D) (hnP : n ∉ Par) :
    (∃ v1 v2, cfield P n o1 = some v1 ∧ cfield P n o2 = some v2 ∧ PRel D Par Z (some n) v1 v2) ∨
    (cfield P n o2 = none ∧ (cfield P n o1 = none ∨ ∃ v, cfield P n o1 = some v ∧ Z P n v)) := by
  have both : ∀ (x x' : Option GoVal), x.isSome = x'.isSome →
      (∀ v v', x = some v → x' = some v' → PRel D Par Z (some n) v v') →
      (∃ v1 v2, x = some v1 ∧ x' = some v2 ∧ PRel D Par Z (some n) v1 v2) ∨
      (x' = none ∧ (x = none ∨ ∃ v, x = some v ∧ Z P n v)) := by
    intro x x' hd hv
    cases x with
    | none =>
      cases x' with
      | none => exact Or.inr ⟨rfl, Or.inl rfl⟩
      | some v' => simp at hd
    | some v =>
      cases x' with
      | none => simp at hd
      | some v' => exact Or.inl ⟨v, v', rfl, rfl, hv v v' rfl rfl⟩
  rcases pv_cases (h.getPV P hP) with ⟨s1, s2, e1, e2, hr⟩ | ⟨s1, e1, hn2, _, _, hr⟩ | ⟨hn1, hn2⟩
  · have c1 : cfield P n o1 = s1.field? n := by unfold cfield; rw [e1]
    have c2 : cfield P n o2 = s2.field? n := by unfold cfield; rw [e2]
    rw [c1, c2]
    cases hr with
    | refl => exact both _ _ rfl (fun v v' e e' => by rw [e] at e'; injection e' with e'; subst e'; exact .refl _ _)
    | ptr _ _ _ h' =>
      obtain ⟨hd | ⟨hp, _⟩, hv⟩ := h'.getPV n hn
      · exact both _ _ hd hv
      · exact absurd hp hnP
    | pinner _ _ _ hP' hs hs' hd hval =>
      rcases hd n hn with hd | ⟨e', v, e, hz⟩
      · exact both _ _ hd (fun v v' e e' => hval n v v' hn e e')
      · exact Or.inr ⟨e', Or.inr ⟨v, e, hz⟩⟩
    | palloc _ _ _ _ _ hn' _ => exact absurd rfl (hn' s2)
  · have c1 : cfield P n o1 = s1.field? n := by unfold cfield; rw [e1]
    rw [c1, cfield_unalloc P n o2 hn2]
    rcases hr n hn with e | ⟨v, e, hz⟩
    · exact Or.inr ⟨rfl, Or.inl e⟩
    · exact Or.inr ⟨rfl, Or.inr ⟨v, e, hz⟩⟩
  · rw [cfield_unalloc P n o1 hn1, cfield_unalloc P n o2 hn2]
    exact Or.inr ⟨rfl, Or.inl rfl⟩

/-- a scalar, a nil pointer or a pointer to a scalar -/
def Scalarish : GoVal → Prop
  | .sc _ => True
  | .ptr none => True
  | .ptr (some (.sc _)) => True
  | _ => False

theorem prel_scalarish {D Par : List String} {Z : String → String → GoVal → Prop} {κ : Option String} {v v' : GoVal}
    (h : PRel D Par Z κ v v') (hs : Scalarish v) : v = v' := by
  cases h with
  | refl => rfl
  | struct => exact hs.elim
  | ptr _ a b h' =>
    cases a with
    | sc x => cases h' with | refl => rfl
    | _ => exact hs.elim
  | slice => exact hs.elim
  | map => exact hs.elim
  | iface => exact hs.elim
  | pinner _ a _ _ hsa _ _ _ =>
    cases a with
    | struct _ => exact hs.elim
    | _ => exact hsa.elim
  | palloc _ a _ _ hsa _ _ =>
    cases a with
    | struct _ => exact hs.elim
    | _ => exact hsa.elim

open PGT.Spec in
/-- **(b) for a surviving SCALAR child `g` of a nullable embedded message with a removed child**: the pruned converter
and the unpruned converter give `g` the same value in the total reading of C04 (`Spec.getVal`: through a nil parent the
zero value) - either the same value behind two allocated parents, or the zero value: written as a reset on the left,
read through the nil parent on the right. Hypotheses: the names involved are not removed Go fields / parents; the child
`g` is determined by its parent and name among the nodes (`huniq`); the left value is scalar-shaped. -/
theorem getVal_scalar_child {D Par : List String} {fs : List Field} {o1 o2 : GoVal}
    (h : PRel D Par (ResetOf fs) none o1 o2) (g : FieldInfo)
    (he : g.parentIsOptionalEmbed = true) (hk : g.kind = .primitive)
    (hP : g.parentIsOptionalEmbedFieldName ∉ D) (hn : g.name ∉ D) (hnP : g.name ∉ Par)
    (huniq : ∀ i ∈ infosFs fs, i.parentIsOptionalEmbed = true → i.kind ≠ .custom →
      i.parentIsOptionalEmbedFieldName = g.parentIsOptionalEmbedFieldName → i.name = g.name → zeroWrite i = zeroWrite g)
    (hsc : ∀ v, cfield g.parentIsOptionalEmbedFieldName g.name o1 = some v → Scalarish v) :
    getVal g o1 = getVal g o2 := by
  rw [getVal_embed g o1 he, getVal_embed g o2 he]
  rcases cfield_rel h g.parentIsOptionalEmbedFieldName g.name hP hn hnP with ⟨v1, v2, e1, e2, hr⟩ | ⟨e2, e1 | ⟨v, e1, hz⟩⟩
  · rw [e1, e2, prel_scalarish hr (hsc v1 e1)]
  · rw [e1, e2]
  · obtain ⟨i, hi, hie, hik, hip, hin, hv⟩ := hz
    rw [e1, e2, hv, huniq i hi hie hik hip hin]
    simp [zeroGoOf, zeroWrite, zeroPrim, hk]

open PGT.Spec in
/-- …, as the C04 comparison of that field against any other struct -/
theorem nfEqField_scalar_child {D Par : List String} {fs : List Field} {o1 o2 : GoVal}
    (h : PRel D Par (ResetOf fs) none o1 o2) (g : FieldInfo) (mv : Option FieldInfo) (msg : Option MsgInfo)
    (sub : List Field)
    (he : g.parentIsOptionalEmbed = true) (hk : g.kind = .primitive) (ho : g.oneOfName = "")
    (hP : g.parentIsOptionalEmbedFieldName ∉ D) (hn : g.name ∉ D) (hnP : g.name ∉ Par)
    (huniq : ∀ i ∈ infosFs fs, i.parentIsOptionalEmbed = true → i.kind ≠ .custom →
      i.parentIsOptionalEmbedFieldName = g.parentIsOptionalEmbedFieldName → i.name = g.name → zeroWrite i = zeroWrite g)
    (hsc : ∀ v, cfield g.parentIsOptionalEmbedFieldName g.name o1 = some v → Scalarish v) (b : GoVal) :
    nfEqField ⟨g, mv, msg, sub⟩ o1 b = nfEqField ⟨g, mv, msg, sub⟩ o2 b ∧
    nfEqField ⟨g, mv, msg, sub⟩ b o1 = nfEqField ⟨g, mv, msg, sub⟩ b o2 := by
  have hg := getVal_scalar_child h g he hk hP hn hnP huniq hsc
  have hb : (g.oneOfName != "") = false := by simp [ho]
  unfold nfEqField
  simp only [hb, Bool.false_eq_true, if_false, hk, hg]
  exact ⟨trivial, trivial⟩

open PGT.Spec in
/-- **(b) for a surviving child `g` of ANY kind (not of a custom type)**: in the total reading of C04 (`Spec.getVal`),
either both sides hold related values behind two allocated parents, or the two readings are equal in the normal form of
C04 (`ValNf`: literally equal, or - lists and maps - the same elements: nil ≡ empty). -/
theorem getVal_child_rel {D Par : List String} {fs : List Field} {o1 o2 : GoVal}
    (h : PRel D Par (ResetOf fs) none o1 o2) (g : FieldInfo)
    (he : g.parentIsOptionalEmbed = true) (hk : g.kind ≠ .custom)
    (hP : g.parentIsOptionalEmbedFieldName ∉ D) (hn : g.name ∉ D) (hnP : g.name ∉ Par)
    (huniq : ∀ i ∈ infosFs fs, i.parentIsOptionalEmbed = true → i.kind ≠ .custom →
      i.parentIsOptionalEmbedFieldName = g.parentIsOptionalEmbedFieldName → i.name = g.name → zeroWrite i = zeroWrite g) :
    (∃ v1 v2, getVal g o1 = v1 ∧ getVal g o2 = v2 ∧
      cfield g.parentIsOptionalEmbedFieldName g.name o1 = some v1 ∧
      cfield g.parentIsOptionalEmbedFieldName g.name o2 = some v2 ∧ PRel D Par (ResetOf fs) (some g.name) v1 v2) ∨
    ValNf g (getVal g o1) (getVal g o2) := by
  rw [getVal_embed g o1 he, getVal_embed g o2 he]
  rcases cfield_rel h g.parentIsOptionalEmbedFieldName g.name hP hn hnP with ⟨v1, v2, e1, e2, hr⟩ | ⟨e2, e1 | ⟨v, e1, hz⟩⟩
  · exact Or.inl ⟨v1, v2, by rw [e1]; rfl, by rw [e2]; rfl, e1, e2, hr⟩
  · rw [e1, e2]; exact Or.inr (Or.inl rfl)
  · obtain ⟨i, hi, hie, hik, hip, hin, hv⟩ := hz
    rw [e1, e2, hv, huniq i hi hie hik hip hin]
    exact Or.inr (valNf_zero g hk).symm

/-- OPEN (not proved, not used): (b) as ONE statement about the whole message in terms of `Spec.nfEqFields` over the
surviving fields. What is proved: `cfield_rel` / `getVal_child_rel` (every surviving child, any kind: related values or
equal in normal form) and `getVal_scalar_child` / `nfEqField_scalar_child` (scalar children: equal readings). What is
missing: that `PRel`-related values of message / list / map fields are `nfEq`-equal - an induction over the IR and the
value that needs the typing hypotheses of C04 (`RT3OK`-style) and "no field of a nested message is named like a removed
Go field" (`PRel` ignores the names in `D` at every depth, `nfEqFields` does not). -/
def copyFrom_pruneE_nfEq_full : Prop :=
  ∀ (ov : List (String × String)) (c : PCfg) (own : List String) (m : Msg) (tf : TfVal) (obj : GoVal) (r1 r2 : FromResult),
    IsStruct obj → ooOkFs c m.fields = true → m.info.oneOfNames = reNames c.srt own m.fields →
    ParentsApart c.p m.fields → NamesOK m.fields →
    (∀ f ∈ m.fields, dropped c.p f.info = false → noDropFs c.p f.sub = true) →
    copyFrom ov m tf obj = .ok r1 → copyFrom ov (pruneE c own m) tf obj = .ok r2 →
    PGT.Spec.nfEqFields (pruneFsE c m.fields) r1.obj r1.obj = true →
    PGT.Spec.nfEqFields (pruneFsE c m.fields) r1.obj r2.obj = true

/-! ### the conjecture as stated (no hygiene hypothesis) is false -/

namespace Clash

def isOk {α : Type} : Outcome α → Bool
  | .ok _ => true
  | _ => false

/-- an ordinary nullable message field whose Go name is `E` -/
def fE : Field := { info :=
  { name := "E", nameSnake := "e", kind := .object, tf := { valueType := "types.Object" },
    isNullable := true, path := "R.e" } }
/-- a child `G` of a nullable embedded message whose Go field is ALSO `E`; a list whose value type is (wrongly)
`types.Object` -/
def fG : Field := { info :=
  { name := "G", nameSnake := "g", kind := .primitiveList, tf := { valueType := "types.Object" },
    parentIsOptionalEmbed := true, parentIsOptionalEmbedFieldName := "E", path := "R.g" } }
def mR : Msg := { info := { name := "R" }, fields := [fE, fG] }
def cR : PCfg := { srt := false, own := fun _ => [], p := "R.e" }
def tfR : TfVal := .obj false false (some [("e", .obj false true none none), ("g", .obj false true none none)]) none
def objR : GoVal := .struct [("E", .ptr (some (.struct [])))]

end Clash

open Clash in
/-- **`copyFrom_pruneE_nullable_full` is false as it stands**: the removed block `e` assigns `obj.E = nil`, the Go field
that the child `g` takes for its parent pointer; without the exclusion the block of `g` (null value) finds the parent nil
and is skipped; with the exclusion the prior parent is still there, the block runs and is stuck on the ill-shaped value.
The unpruned converter succeeds, the pruned one does not. (`ParentsApart` fails: `E` is a removed Go field.) -/
theorem copyFrom_pruneE_nullable_full_false : ¬ copyFrom_pruneE_nullable_full := by
  intro H
  have h1 : isOk (copyFrom [] mR tfR objR) = true := by decide +kernel
  have h2 : isOk (copyFrom [] (pruneE cR [] mR) tfR objR) = false := by decide +kernel
  cases e1 : copyFrom [] mR tfR objR with
  | panic w => rw [e1] at h1; cases h1
  | stuck w => rw [e1] at h1; cases h1
  | ok r1 =>
    obtain ⟨r2, e2, _⟩ := H [] cR [] mR tfR objR r1 (by decide +kernel) (by decide +kernel) e1
    rw [e2] at h2
    cases h2

open Clash in
example : parentsApartB cR.p mR.fields = false := by decide +kernel

/-! ### end to end, for a selected root -/

open PGT.Props.C11 PGT.Proofs.BuildErrors PGT.Proofs.PathUnique in
/-- **C11 with children of nullable embedded messages, excluded field at any depth.** `cfg'` = `cfg` plus the path `p` in
`exclude_fields`; `p` addresses by path only and is not the root's name; the root builds to `m` without the exclusion.
Then it builds to `pruneE p m` with the exclusion (`exclusion_prunesE_root`), and - under the hygiene condition
`ParentsApart p m.fields` (decidable on `m`) - `Copy<T>FromTerraform` of the pruned IR succeeds on every struct target on
which the unpruned one does, with results related by `PRel` (see `copyFrom_pruneE_nullable`); in particular they agree
literally outside the removed Go fields, the holders of removed branches and the parents of removed children. No
hypothesis on embedded fields (`plainFs` of `exclusion_surgical_deepE` is gone). -/
theorem exclusion_surgical_nullable (cfg : Config) (p : String) (req : Request) (desc : MsgD) (m : Msg)
    (hpath : desc.name ≠ p)
    (htn : typeFree p (ctxKeys (defaultFuel req) req (rootCtx desc)) = true)
    (hb : buildRoot cfg req desc = .ok (some m)) :
    buildRoot { cfg with excludeFields := p :: cfg.excludeFields } req desc =
      .ok (some (pruneE (pcfg cfg req p) (oneOfNames desc) m)) ∧
    (ParentsApart p m.fields → ∀ ov tf obj r1, IsStruct obj → copyFrom ov m tf obj = .ok r1 →
      ∃ r2, copyFrom ov (pruneE (pcfg cfg req p) (oneOfNames desc) m) tf obj = .ok r2 ∧
        PRel (allDroppedGo p m.fields ++ allDroppedOO p m.fields) (allDroppedParents p m.fields)
          (ResetOf m.fields) none r1.obj r2.obj ∧
        OffG (allDroppedGo p m.fields ++ allDroppedOO p m.fields ++ allDroppedParents p m.fields) r1.obj r2.obj) := by
  have hbm := buildRoot_inv hb
  have hm : m.info.oneOfNames = reNames (pcfg cfg req p).srt (oneOfNames desc) m.fields :=
    built_oneOfNames _ (viewOf cfg) req desc true "" m hbm
  have hoo : ooOkFs (pcfg cfg req p) m.fields = true :=
    (built_ooOk (pcfg cfg req p) (viewOf cfg) rfl req (ownOf_ok req) (defaultFuel req)).1 desc true "" m hbm
  refine ⟨exclusion_prunesE_root cfg p req desc m hpath htn hb, fun hH ov tf obj r1 hobj h => ?_⟩
  obtain ⟨r2, h2, hrel⟩ := copyFrom_pruneE_nullable ov (pcfg cfg req p) (oneOfNames desc) m tf obj r1 hobj hoo hm hH h
  exact ⟨r2, h2, hrel, hrel.toOffG (fun k e => by cases e)⟩

/-! ## 6. concrete trees (`decide +kernel`) -/

/-- `g` is the only child with its name under its parent: then `huniq` of `getVal_scalar_child` holds -/
theorem huniq_of_eq {fs : List Field} {g : FieldInfo}
    (h : ∀ i ∈ infosFs fs, i.parentIsOptionalEmbed = true →
      i.parentIsOptionalEmbedFieldName = g.parentIsOptionalEmbedFieldName → i.name = g.name → i = g) :
    ∀ i ∈ infosFs fs, i.parentIsOptionalEmbed = true → i.kind ≠ .custom →
      i.parentIsOptionalEmbedFieldName = g.parentIsOptionalEmbedFieldName → i.name = g.name → zeroWrite i = zeroWrite g :=
  fun i hi he _ hp hn => by rw [h i hi he hp hn]

/-- literal agreement outside `D` implies: the fields of the struct behind an (un-removed) parent pointer are present on
both sides or on neither -/
theorem offG_cfield_isSome {D : List String} {o1 o2 : GoVal} (h : OffG D o1 o2) (P n : String) (hP : P ∉ D)
    (hn : n ∉ D) : (cfield P n o1).isSome = (cfield P n o2).isSome := by
  have inner : ∀ s s' : GoVal, OffG D s s' → (s.field? n).isSome = (s'.field? n).isSome := by
    intro s s' h'
    cases h' with
    | refl => rfl
    | struct fs fs' hdom _ => exact hdom n hn
    | ptr => rfl
    | slice => rfl
    | map => rfl
    | iface => rfl
  have val : ∀ v v' : GoVal, OffG D v v' →
      (match (some v : Option GoVal) with | some (.ptr (some s)) => s.field? n | _ => none).isSome =
      (match (some v' : Option GoVal) with | some (.ptr (some s)) => s.field? n | _ => none).isSome := by
    intro v v' h'
    cases h' with
    | refl => rfl
    | struct => rfl
    | ptr s s' h'' => exact inner s s' h''
    | slice => rfl
    | map => rfl
    | iface => rfl
  cases h with
  | refl => rfl
  | struct fs fs' hdom hval =>
    unfold cfield
    simp only [GoVal.field?]
    have hd := hdom P hP
    cases e : fs.lookup P with
    | none =>
      cases e' : fs'.lookup P with
      | none => rfl
      | some v' => rw [e, e'] at hd; cases hd
    | some v =>
      cases e' : fs'.lookup P with
      | none => rw [e, e'] at hd; cases hd
      | some v' => exact val v v' (hval P v v' hP e e')
  | ptr => rfl
  | slice => rfl
  | map => rfl
  | iface => rfl

namespace Example
open PGT.Proofs.ExclusionPrune.Example PGT.Spec

/-- `E`: two scalar children -/
def dE2 : MsgD := { name := "E", fields := [
  { name := "x", type := "string" }, { name := "y", type := "string" } ] }
/-- a root that embeds `E` BY POINTER -/
def dR2 : MsgD := { name := "R", fields := [
  { name := "id", type := "string" },
  { name := "e", type := "message", typeName := "E", embed := true } ] }
def reqN : Request := { file := { name := "e.proto", package := "e", messages := [dR2, dE2] } }
/-- the IR of `R`: `Id`, and the children `X`, `Y` of the nullable embedded message (Go field `E`) -/
def m2 : Msg := match buildMessage (defaultFuel reqN) (viewOf {}) reqN dR2 true "" with | .ok m => m | .error _ => default
def c2 : PCfg := pcfg {} reqN "R.x"
/-- the IR with `R.x` excluded -/
def m2x : Msg := pruneE c2 [] m2

/-- the generator builds `m2x` when `R.x` is in `exclude_fields` -/
example : PGT.Proofs.ExclusionPruneEmbed.Example.checksE {} reqN dR2 "R.x" = true := by decide +kernel

def kn (s : List UInt8) : TfVal := .prim .string false false (.str s)
def nullS : TfVal := .prim .string false true (.str [])
def plan (x y : TfVal) : TfVal := .obj false false (some [("id", nullS), ("x", x), ("y", y)]) none

/-- a decidable rendering of the values that occur in the examples -/
def leafCode : GoVal → List Nat
  | .sc (.str s) => 0 :: s.map (·.toNat)
  | .slice none => [1]
  | .slice (some l) => [2, l.length]
  | .ptr none => [3]
  | _ => [9]

/-- the Go field `E` of the result: `some none` = nil, `some (some fs)` = the fields of the allocated struct -/
def viewE (r : Outcome FromResult) : Option (Option (List (String × List Nat))) :=
  match r with
  | .ok r => some (match r.obj.field? "E" with
      | some (.ptr (some (.struct fs))) => some (fs.map fun (n, v) => (n, leafCode v))
      | _ => none)
  | _ => none

/-- the hypotheses of the theorems on this tree; the removed Go field, no removed holder, the parent -/
example : ooOkFs c2 m2.fields = true ∧ parentsApartB c2.p m2.fields = true ∧
    m2.info.oneOfNames = reNames c2.srt [] m2.fields ∧
    allDroppedGo c2.p m2.fields = ["X"] ∧ allDroppedOO c2.p m2.fields = [] ∧ allDroppedParents c2.p m2.fields = ["E"] := by
  decide +kernel

/-! ### prior struct empty; plans: only the excluded child known / only the other / both / none -/

/-- only the excluded child known: without the exclusion `obj.E = &E{X: "a", Y: ""}` (the block of `x` allocates, the null
`y` then resets `Y`); with it `obj.E` stays nil - allocated with reset values only vs nil (`palloc` / `struct`) -/
example : viewE (copyFrom [] m2 (plan (kn [97]) nullS) (.struct [])) = some (some [("X", [0, 97]), ("Y", [0])]) ∧
    viewE (copyFrom [] m2x (plan (kn [97]) nullS) (.struct [])) = some none := by decide +kernel
/-- only the other child known: the same result, literally -/
example : viewE (copyFrom [] m2 (plan nullS (kn [98])) (.struct [])) = some (some [("Y", [0, 98])]) ∧
    viewE (copyFrom [] m2x (plan nullS (kn [98])) (.struct [])) = some (some [("Y", [0, 98])]) := by decide +kernel
/-- both known: both allocate; the results differ in the removed Go field `X` only -/
example : viewE (copyFrom [] m2 (plan (kn [97]) (kn [98])) (.struct [])) = some (some [("X", [0, 97]), ("Y", [0, 98])]) ∧
    viewE (copyFrom [] m2x (plan (kn [97]) (kn [98])) (.struct [])) = some (some [("Y", [0, 98])]) := by decide +kernel
/-- none known: `obj.E` stays nil on both sides -/
example : viewE (copyFrom [] m2 (plan nullS nullS) (.struct [])) = some none ∧
    viewE (copyFrom [] m2x (plan nullS nullS) (.struct [])) = some none := by decide +kernel

/-! ### the prior struct holds the parent: literal agreement outside `X` -/

def prior : GoVal := .struct [("E", .ptr (some (.struct [("Y", .sc (.str [111]))])))]

example : viewE (copyFrom [] m2 (plan (kn [97]) nullS) prior) = some (some [("Y", [0]), ("X", [0, 97])]) ∧
    viewE (copyFrom [] m2x (plan (kn [97]) nullS) prior) = some (some [("Y", [0])]) := by decide +kernel
example : viewE (copyFrom [] m2 (plan nullS nullS) prior) = some (some [("Y", [0]), ("X", [0])]) ∧
    viewE (copyFrom [] m2x (plan nullS nullS) prior) = some (some [("Y", [0])]) := by decide +kernel

/-! ### the theorems on this tree -/

/-- the main theorem, every plan and every prior struct -/
example (tf : TfVal) (obj : GoVal) (r1 : FromResult) (hobj : IsStruct obj) (h : copyFrom [] m2 tf obj = .ok r1) :
    ∃ r2, copyFrom [] m2x tf obj = .ok r2 ∧ PRel ["X"] ["E"] (ResetOf m2.fields) none r1.obj r2.obj := by
  have := copyFrom_pruneE_nullable [] c2 [] m2 tf obj r1 hobj (by decide +kernel) (by decide +kernel)
    (parentsApart_of_B (by decide +kernel)) h
  rwa [show allDroppedGo c2.p m2.fields ++ allDroppedOO c2.p m2.fields = ["X"] by decide +kernel,
    show allDroppedParents c2.p m2.fields = ["E"] by decide +kernel] at this

/-- (a): agreement outside `X` and `E` -/
example (tf : TfVal) (obj : GoVal) (r1 : FromResult) (hobj : IsStruct obj) (h : copyFrom [] m2 tf obj = .ok r1) :
    ∃ r2, copyFrom [] m2x tf obj = .ok r2 ∧ OffG ["X", "E"] r1.obj r2.obj := by
  have := copyFrom_pruneE_nullable_offParents [] c2 [] m2 tf obj r1 hobj (by decide +kernel) (by decide +kernel)
    (parentsApart_of_B (by decide +kernel)) h
  rwa [show allDroppedGo c2.p m2.fields ++ allDroppedOO c2.p m2.fields ++ allDroppedParents c2.p m2.fields = ["X", "E"] by
    decide +kernel] at this

/-- the node of the surviving child `Y` -/
def yInfo : FieldInfo := (m2.fields.getD 2 default).info

/-- (b): the surviving child `Y` reads the same (in the total reading of C04) after both converters, whatever the plan
and the prior struct (with a scalar-shaped `E.Y`) -/
example (tf : TfVal) (obj : GoVal) (r1 : FromResult) (hobj : IsStruct obj) (h : copyFrom [] m2 tf obj = .ok r1)
    (hsc : ∀ v, cfield "E" "Y" r1.obj = some v → Scalarish v) :
    ∃ r2, copyFrom [] m2x tf obj = .ok r2 ∧ getVal yInfo r1.obj = getVal yInfo r2.obj := by
  obtain ⟨r2, h2, hrel⟩ := copyFrom_pruneE_nullable [] c2 [] m2 tf obj r1 hobj (by decide +kernel) (by decide +kernel)
    (parentsApart_of_B (by decide +kernel)) h
  refine ⟨r2, h2, getVal_scalar_child hrel yInfo (by decide +kernel) (by decide +kernel) ?_ ?_ ?_
    (huniq_of_eq (by decide +kernel)) ?_⟩
  · rw [show allDroppedGo c2.p m2.fields ++ allDroppedOO c2.p m2.fields = ["X"] by decide +kernel]
    decide +kernel
  · rw [show allDroppedGo c2.p m2.fields ++ allDroppedOO c2.p m2.fields = ["X"] by decide +kernel]
    decide +kernel
  · rw [show allDroppedParents c2.p m2.fields = ["E"] by decide +kernel]
    decide +kernel
  · rw [show yInfo.parentIsOptionalEmbedFieldName = "E" by decide +kernel, show yInfo.name = "Y" by decide +kernel]
    exact hsc

/-- (c): a prior struct that holds `E`: literal agreement outside `X` -/
example (tf : TfVal) (obj : GoVal) (r1 : FromResult) (hobj : IsStruct obj) (hE : Alloc "E" obj)
    (h : copyFrom [] m2 tf obj = .ok r1) :
    ∃ r2, copyFrom [] m2x tf obj = .ok r2 ∧ OffG ["X"] r1.obj r2.obj := by
  have := copyFrom_pruneE_parent_held_literal [] c2 [] m2 tf obj r1 ["E"] hobj (by decide +kernel) (by decide +kernel)
    (parentsApart_of_B (by decide +kernel))
    (fun Q hQ => by simp only [List.mem_singleton] at hQ; subst hQ; exact hE)
    (by decide +kernel) (by decide +kernel) (by decide +kernel) (by decide +kernel) h
  rwa [show allDroppedGo c2.p m2.fields ++ allDroppedOO c2.p m2.fields = ["X"] by decide +kernel] at this

/-! ### (c), first half, is false: a known surviving sibling does not give literal agreement -/

/-- `E`: a scalar, a list, a scalar -/
def dE3 : MsgD := { name := "E", fields := [
  { name := "x", type := "string" }, { name := "l", type := "string", card := .repeated },
  { name := "z", type := "string" } ] }
def dR3 : MsgD := { name := "R", fields := [
  { name := "e", type := "message", typeName := "E", embed := true } ] }
def req3 : Request := { file := { name := "e.proto", package := "e", messages := [dR3, dE3] } }
def m3 : Msg := match buildMessage (defaultFuel req3) (viewOf {}) req3 dR3 true "" with | .ok m => m | .error _ => default
def c3 : PCfg := pcfg {} req3 "R.x"
def nullL : TfVal := .list false true none (some (.prim .string))
/-- `x` and `z` known, the list `l` null -/
def plan3 : TfVal := .obj false false (some [("x", kn [97]), ("l", nullL), ("z", kn [98])]) none

/-- without the exclusion the block of `x` allocates `E`, so the null list `l` is reset to the EMPTY slice; with the
exclusion `E` is allocated by the block of `z` only, after `l` was skipped: `L` stays nil -/
example : viewE (copyFrom [] m3 plan3 (.struct [])) = some (some [("X", [0, 97]), ("L", [2, 0]), ("Z", [0, 98])]) ∧
    viewE (copyFrom [] (pruneE c3 [] m3) plan3 (.struct [])) = some (some [("Z", [0, 98])]) := by decide +kernel

def hasInner (r : Outcome FromResult) (P n : String) : Option Bool :=
  match r with
  | .ok r => some (cfield P n r.obj).isSome
  | _ => none

/-- **candidate (c), first half, is false**: the attribute `z` of a surviving sibling is known and non-null, both
converters succeed and allocate `E`, and yet the results do not agree literally outside the removed Go field `X`: `E.L`
is the empty slice on one side and nil (absent) on the other. (They agree in the sense of `PRel` - `pinner` - and in the
normal form of C04.) -/
theorem sibling_known_not_literal :
    ∃ r1 r2, copyFrom [] m3 plan3 (.struct []) = .ok r1 ∧ copyFrom [] (pruneE c3 [] m3) plan3 (.struct []) = .ok r2 ∧
      ¬ OffG (allDroppedGo c3.p m3.fields ++ allDroppedOO c3.p m3.fields) r1.obj r2.obj := by
  have h1 : hasInner (copyFrom [] m3 plan3 (.struct [])) "E" "L" = some true := by decide +kernel
  have h2 : hasInner (copyFrom [] (pruneE c3 [] m3) plan3 (.struct [])) "E" "L" = some false := by decide +kernel
  have hD : allDroppedGo c3.p m3.fields ++ allDroppedOO c3.p m3.fields = ["X"] := by decide +kernel
  cases e1 : copyFrom [] m3 plan3 (.struct []) with
  | panic w => rw [e1] at h1; cases h1
  | stuck w => rw [e1] at h1; cases h1
  | ok r1 =>
    cases e2 : copyFrom [] (pruneE c3 [] m3) plan3 (.struct []) with
    | panic w => rw [e2] at h2; cases h2
    | stuck w => rw [e2] at h2; cases h2
    | ok r2 =>
      refine ⟨r1, r2, rfl, rfl, ?_⟩
      rw [e1] at h1
      rw [e2] at h2
      simp only [hasInner, Option.some.injEq] at h1 h2
      rw [hD]
      intro hoff
      have := offG_cfield_isSome hoff "E" "L" (by decide) (by decide)
      rw [h1, h2] at this
      cases this

/-! ### the nullable embedded message one level down: `R.m : M`, `M` embeds `E` by pointer; `R.m.x` excluded -/

def dM4 : MsgD := { name := "M", fields := [
  { name := "k", type := "string" },
  { name := "e", type := "message", typeName := "E", embed := true } ] }
def dR4 : MsgD := { name := "R", fields := [
  { name := "id", type := "string" },
  { name := "m", type := "message", typeName := "M" } ] }
def req4 : Request := { file := { name := "e.proto", package := "e", messages := [dR4, dM4, dE2] } }
def m4 : Msg := match buildMessage (defaultFuel req4) (viewOf {}) req4 dR4 true "" with | .ok m => m | .error _ => default
def c4 : PCfg := pcfg {} req4 "R.m.x"

example : PGT.Proofs.ExclusionPruneEmbed.Example.checksE {} req4 dR4 "R.m.x" = true := by decide +kernel
example : ooOkFs c4 m4.fields = true ∧ parentsApartB c4.p m4.fields = true ∧
    m4.info.oneOfNames = reNames c4.srt [] m4.fields ∧
    allDroppedGo c4.p m4.fields = ["X"] ∧ allDroppedOO c4.p m4.fields = [] ∧ allDroppedParents c4.p m4.fields = ["E"] := by
  decide +kernel

/-- the main theorem two levels down (the removed child sits in the nested message `M`) -/
example (tf : TfVal) (obj : GoVal) (r1 : FromResult) (hobj : IsStruct obj) (h : copyFrom [] m4 tf obj = .ok r1) :
    ∃ r2, copyFrom [] (pruneE c4 [] m4) tf obj = .ok r2 ∧ PRel ["X"] ["E"] (ResetOf m4.fields) none r1.obj r2.obj := by
  have := copyFrom_pruneE_nullable [] c4 [] m4 tf obj r1 hobj (by decide +kernel) (by decide +kernel)
    (parentsApart_of_B (by decide +kernel)) h
  rwa [show allDroppedGo c4.p m4.fields ++ allDroppedOO c4.p m4.fields = ["X"] by decide +kernel,
    show allDroppedParents c4.p m4.fields = ["E"] by decide +kernel] at this

/-- the Go field `M.E` of the result -/
def viewME (r : Outcome FromResult) : Option (Option (List (String × List Nat))) :=
  match r with
  | .ok r => some (match r.obj.field? "M" with
      | some (.ptr (some m)) =>
        (match m.field? "E" with
          | some (.ptr (some (.struct fs))) => some (fs.map fun (n, v) => (n, leafCode v))
          | _ => none)
      | _ => none)
  | _ => none

def planM (x y : TfVal) : TfVal :=
  .obj false false (some [("id", nullS), ("m", .obj false false (some [("k", nullS), ("x", x), ("y", y)]) none)]) none

example : viewME (copyFrom [] m4 (planM (kn [97]) nullS) (.struct [])) = some (some [("X", [0, 97]), ("Y", [0])]) ∧
    viewME (copyFrom [] (pruneE c4 [] m4) (planM (kn [97]) nullS) (.struct [])) = some none := by decide +kernel
example : viewME (copyFrom [] m4 (planM (kn [97]) (kn [98])) (.struct [])) = some (some [("X", [0, 97]), ("Y", [0, 98])]) ∧
    viewME (copyFrom [] (pruneE c4 [] m4) (planM (kn [97]) (kn [98])) (.struct [])) = some (some [("Y", [0, 98])]) := by
  decide +kernel

end Example

end PGT.Proofs.ExclusionPruneNullable

section
open PGT.Proofs.ExclusionPruneNullable
#print axioms copyFromFields_deepN
#print axioms copyFrom_pruneE_nullable
#print axioms copyFrom_pruneE_nullable_offParents
#print axioms copyFrom_pruneE_nullable_full_false
#print axioms pe_rel
#print axioms pe_drop
#print axioms copyFrom_pruneE_parent_held
#print axioms copyFrom_pruneE_parent_held_literal
#print axioms cfield_rel
#print axioms getVal_scalar_child
#print axioms nfEqField_scalar_child
#print axioms getVal_child_rel
#print axioms exclusion_surgical_nullable
#print axioms Example.sibling_known_not_literal
end
