import PGT.Model.Strings
/-
Helper lemmas about the string functions (no property statements here).
-/
namespace PGT

theorem mem_dropWhileEnd {p : Char → Bool} {s : Str} {x : Char} (h : x ∈ dropWhileEnd p s) : x ∈ s := by
  unfold dropWhileEnd at h
  have h1 : x ∈ s.reverse.dropWhile p := List.mem_reverse.mp h
  exact List.mem_reverse.mp ((List.dropWhile_sublist p).mem h1)

theorem mem_trimSpace {s : Str} {x : Char} (h : x ∈ trimSpace s) : x ∈ s := by
  unfold trimSpace at h
  exact (List.dropWhile_sublist _).mem (mem_dropWhileEnd h)

theorem head_dropWhile_not {p : Char → Bool} : ∀ (s : Str) (x : Char), (s.dropWhile p).head? = some x → p x = false
  | [], x, h => by simp at h
  | c :: rest, x, h => by
    by_cases hc : p c = true
    · simp [List.dropWhile, hc] at h; exact head_dropWhile_not rest x h
    · simp [List.dropWhile, hc] at h; subst h; simpa using hc

theorem getLast_dropWhileEnd_not {p : Char → Bool} (s : Str) (x : Char)
    (h : (dropWhileEnd p s).getLast? = some x) : p x = false := by
  unfold dropWhileEnd at h
  rw [List.getLast?_reverse] at h
  exact head_dropWhile_not _ _ h

/-- dropping a suffix does not change the first element, as long as something is left -/
theorem head_dropWhileEnd {p : Char → Bool} (s : Str) (x : Char)
    (h : (dropWhileEnd p s).head? = some x) : s.head? = some x := by
  unfold dropWhileEnd at h
  rw [List.head?_reverse] at h
  have hs : (s.reverse.dropWhile p) <:+ s.reverse := List.dropWhile_suffix p
  obtain ⟨t, ht⟩ := hs
  have : s.reverse.getLast? = some x := by
    rw [← ht]
    cases hd : List.dropWhile p s.reverse with
    | nil => simp [hd] at h
    | cons a l => rw [List.getLast?_append]; simp [hd] at h ⊢; simp [h]
  rw [List.getLast?_reverse] at this
  exact this

theorem trimSpace_head_not_space (s : Str) (x : Char) (h : (trimSpace s).head? = some x) : isGoSpace x = false := by
  unfold trimSpace at h
  exact head_dropWhile_not s x (head_dropWhileEnd _ _ h)

theorem trimSpace_last_not_space (s : Str) (x : Char) (h : (trimSpace s).getLast? = some x) : isGoSpace x = false := by
  unfold trimSpace at h
  exact getLast_dropWhileEnd_not _ _ h

theorem splitOnChar_ne_nil (c : Char) : ∀ s : Str, splitOnChar c s ≠ []
  | [] => by simp [splitOnChar]
  | x :: rest => by
    have := splitOnChar_ne_nil c rest
    simp only [splitOnChar]
    split
    · simp
    · split <;> simp

/-- the pieces of a split do not contain the separator -/
theorem splitOnChar_no_sep (c : Char) : ∀ (s : Str) (p : Str), p ∈ splitOnChar c s → c ∉ p
  | [], p, h => by simp [splitOnChar] at h; subst h; simp
  | x :: rest, p, h => by
    have ih := splitOnChar_no_sep c rest
    simp only [splitOnChar] at h
    split at h
    · simp at h; subst h; simp
    · rename_i hd tl heq
      have hhd : c ∉ hd := ih hd (by rw [heq]; simp)
      have htl : ∀ q ∈ tl, c ∉ q := fun q hq => ih q (by rw [heq]; simp [hq])
      split at h
      · rename_i hxc
        simp at h
        rcases h with rfl | rfl | h
        · simp
        · exact hhd
        · exact htl p h
      · rename_i hxc
        simp at h
        rcases h with rfl | h
        · intro hm
          simp at hm
          rcases hm with rfl | hm
          · simp at hxc
          · exact hhd hm
        · exact htl p h

theorem mem_joinWith {sep : Str} : ∀ {l : List Str} {x : Char}, x ∈ joinWith sep l → x ∈ sep ∨ ∃ p ∈ l, x ∈ p
  | [], x, h => by simp [joinWith] at h
  | [a], x, h => by simp [joinWith] at h; exact Or.inr ⟨a, by simp, h⟩
  | a :: b :: rest, x, h => by
    simp only [joinWith, List.mem_append] at h
    rcases h with (h | h) | h
    · exact Or.inr ⟨a, by simp, h⟩
    · exact Or.inl h
    · rcases mem_joinWith h with h' | ⟨p, hp, hx⟩
      · exact Or.inl h'
      · exact Or.inr ⟨p, by simp [hp], hx⟩

end PGT
