import PGT.Proofs.ToInPlace
import PGT.Proofs.ToWriter
/-
C09, idempotence: repeating the same in-place CopyTo call changes nothing (the attribute map is a fixed point of the
call, no diagnostics), for every template at every depth.
-/
namespace PGT
open PGT.Spec

-- ------------------------------------------------------------------------------------------------------
-- store

/-- `setKey` replaces the first binding of `k`, which is the one `lookup` finds -/
theorem setKey_lookup_self {α} (k : String) (v : α) : ∀ l : List (String × α), l.lookup k = some v → setKey k v l = l
  | [], h => by simp [List.lookup] at h
  | (k', v') :: rest, h => by
    simp only [setKey]
    by_cases e : (k' == k) = true
    · have e' : k' = k := by simpa using e
      subst e'
      simp [List.lookup] at h
      simp [h]
    · have e' : (k == k') = false := by
        simp at e ⊢
        exact fun x => e x.symm
      simp only [List.lookup, e'] at h
      simp [e, setKey_lookup_self k v rest h]

-- ------------------------------------------------------------------------------------------------------
-- the primitive template: for ALL inputs

/-- `genAssignValue` is idempotent on its own output -/
theorem assignPrim_idem (f : FieldInfo) (obj : GoVal) (rd : Outcome GoVal) (v w : Bool × Sc)
    (h : assignPrim f obj rd v = .ok w) : assignPrim f obj rd w = .ok w := by
  obtain ⟨v1, v2⟩ := v
  obtain ⟨w1, w2⟩ := w
  unfold assignPrim at h ⊢
  revert h
  cases f.isPlaceholder <;> cases f.parentIsOptionalEmbed <;> cases parentIsNil f obj <;> cases f.isNullable <;>
    intro h <;> simp only [Bool.false_eq_true, if_true, if_false] at h ⊢ <;> (try (simp_all; done)) <;>
    (rcases rd with x | w | w <;> (try (simp_all; done)) <;>
      rcases x with s | (_ | y) | _ | _ | _ | _ <;> (try (simp_all; done)))
  all_goals first
    | (cases y <;> simp_all; done)
    | (simp only [] at h ⊢
       cases hc : f.castTo _ <;> simp_all)

/-- `genPrimitiveBody` on its own output returns it, without diagnostics: for all inputs -/
theorem primBody_idem (info : FieldInfo) (obj : GoVal) (cur : Option TfVal) (t : Option TfTy) (rd : Outcome GoVal)
    (v : TfVal) (ds : List Diag) (h : primBody info obj cur t rd = .ok (v, ds)) (t' : Option TfTy) :
    primBody info obj (some v) t' rd = .ok (v, []) := by
  unfold primBody at h
  cases hk : vkindOf info.tf.elemValueType with
  | prim k =>
    simp only [hk] at h
    split at h
    · rename_i np ds0 _
      split at h
      · rename_i n p hap
        simp only [Outcome.ok.injEq, Prod.mk.injEq] at h
        obtain ⟨rfl, _⟩ := h
        rw [primBody_inplace info k obj false n p t' rd hk, assignPrim_idem info obj rd np (n, p) hap]
      · simp at h
      · simp at h
    · simp at h
    · simp at h
  | list => simp [hk] at h
  | map => simp [hk] at h
  | obj => simp [hk] at h
  | unknown => simp [hk] at h

-- ------------------------------------------------------------------------------------------------------
-- the list loop: the result does not depend on the contents of the re-used slice, only on its length

theorem elemsList_length (body : ElemBody) : ∀ (elems : List GoVal) (k : Nat) (acc : List TfVal) (diags : List Diag)
    (hooks : List HookCall) (es : List TfVal) (ds : List Diag) (hs : List HookCall),
    copyToElemsList body elems k acc diags hooks = .ok (es, ds, hs) → es.length = acc.length
  | [], k, acc, diags, hooks, es, ds, hs, h => by
    simp only [copyToElemsList, Outcome.ok.injEq, Prod.mk.injEq] at h
    rw [h.1]
  | a :: rest, k, acc, diags, hooks, es, ds, hs, h => by
    simp only [copyToElemsList] at h
    generalize body a diags hooks = r at h
    cases r with
    | ok q =>
      obtain ⟨v, ds1, hs1⟩ := q
      have := elemsList_length body rest (k + 1) (setIdx acc k v) ds1 hs1 es ds hs h
      simpa [setIdx] using this
    | panic w => simp at h
    | stuck w => simp at h

theorem elemsList_acc_indep (body : ElemBody) : ∀ (elems : List GoVal) (pre post1 post2 : List TfVal) (diags : List Diag)
    (hooks : List HookCall), post1.length = elems.length → post2.length = elems.length →
    copyToElemsList body elems pre.length (pre ++ post1) diags hooks =
      copyToElemsList body elems pre.length (pre ++ post2) diags hooks
  | [], pre, post1, post2, diags, hooks, h1, h2 => by
    have e1 : post1 = [] := by simpa using h1
    have e2 : post2 = [] := by simpa using h2
    rw [e1, e2]
  | a :: rest, pre, post1, post2, diags, hooks, h1, h2 => by
    cases post1 with
    | nil => simp at h1
    | cons p1 post1' =>
      cases post2 with
      | nil => simp at h2
      | cons p2 post2' =>
        simp only [copyToElemsList]
        generalize body a diags hooks = r
        cases r with
        | ok q =>
          obtain ⟨v, ds, hs⟩ := q
          have hset1 : setIdx (pre ++ p1 :: post1') pre.length v = (pre ++ [v]) ++ post1' := by
            simp [setIdx, List.set_append_right]
          have hset2 : setIdx (pre ++ p2 :: post2') pre.length v = (pre ++ [v]) ++ post2' := by
            simp [setIdx, List.set_append_right]
          have hl : pre.length + 1 = (pre ++ [v]).length := by simp
          simp only [hset1, hset2, hl]
          exact elemsList_acc_indep body rest (pre ++ [v]) post1' post2' ds hs (by simpa using h1) (by simpa using h2)
        | panic w => rfl
        | stuck w => rfl

/-- the list loop run again on its own result (as the re-used slice), from any diags / hooks: the same elements -/
theorem elemsList_idem (body : ElemBody) (hb : BodyWriter body) (elems : List GoVal) (acc : List TfVal)
    (diags : List Diag) (hooks : List HookCall) (es : List TfVal) (hs : List HookCall)
    (hlen : acc.length = elems.length)
    (h : copyToElemsList body elems 0 acc diags hooks = .ok (es, diags, hooks ++ hs)) :
    es.length = elems.length ∧
    ∀ d k, copyToElemsList body elems 0 es d k = .ok (es, d, k ++ hs) := by
  have hl := elemsList_length body elems 0 acc diags hooks es _ _ h
  refine ⟨by rw [hl, hlen], ?_⟩
  intro d k
  have hind := elemsList_acc_indep body elems [] es acc [] [] (by rw [hl, hlen]) hlen
  simp only [List.length_nil, List.nil_append] at hind
  rw [elemsList_rebase body hb] at h ⊢
  rw [hind]
  generalize copyToElemsList body elems 0 acc [] [] = r at h
  cases r with
  | ok q =>
    obtain ⟨es0, ds0, hs0⟩ := q
    simp only [Outcome.mapO, shift3, Outcome.ok.injEq, Prod.mk.injEq] at h
    obtain ⟨rfl, hd, hh⟩ := h
    have hd' : ds0 = [] := by simpa using hd
    have hh' : hs0 = hs := by simpa using hh
    subst hd' hh'
    simp [Outcome.mapO, shift3]
  | panic w => simp [Outcome.mapO] at h
  | stuck w => simp [Outcome.mapO] at h

/-- the map loop run again from the empty map, from any diags / hooks: the same elements -/
theorem elemsMap_idem (body : ElemBody) (hb : BodyWriter body) (elems : List (String × GoVal)) (acc : List (String × TfVal))
    (diags : List Diag) (hooks : List HookCall) (es : List (String × TfVal)) (hs : List HookCall)
    (h : copyToElemsMap body elems acc diags hooks = .ok (es, diags, hooks ++ hs)) :
    ∀ d k, copyToElemsMap body elems acc d k = .ok (es, d, k ++ hs) := by
  intro d k
  rw [elemsMap_rebase body hb] at h ⊢
  generalize copyToElemsMap body elems acc [] [] = r at h
  cases r with
  | ok q =>
    obtain ⟨es0, ds0, hs0⟩ := q
    simp only [Outcome.mapO, shift3, Outcome.ok.injEq, Prod.mk.injEq] at h
    obtain ⟨rfl, hd, hh⟩ := h
    have hd' : ds0 = [] := by simpa using hd
    have hh' : hs0 = hs := by simpa using hh
    subst hd' hh'
    simp [Outcome.mapO, shift3]
  | panic w => simp [Outcome.mapO] at h
  | stuck w => simp [Outcome.mapO] at h

-- ------------------------------------------------------------------------------------------------------
-- the templates on a typed source, as equations

theorem setKey_inj {α} (k : String) (v v' : α) (l : List (String × α)) (h : setKey k v l = setKey k v' l) : v = v' := by
  have h1 := lookup_setKey_same k v l
  rw [h, lookup_setKey_same] at h1
  injection h1 with h1
  exact h1.symm

theorem objBody_nil_eq (rec : ToRec) (info : FieldInfo) (msg : Option MsgInfo) (oty : Option (List (String × TfTy)))
    (u n : Bool) (as : Option (List (String × TfVal))) (tys : List (String × TfTy)) (diags : List Diag) (hooks : List HookCall)
    (hn : info.isNullable = true) :
    objBody rec info msg false (some (.obj u n as (some tys))) oty (.ok (.ptr none)) diags hooks =
      .ok (.obj false true (some (as.getD [])) (some tys), diags, hooks) := by
  unfold objBody
  cases as <;> simp [hn]

theorem objBody_struct_eq (rec : ToRec) (info : FieldInfo) (msg : Option MsgInfo) (oty : Option (List (String × TfTy)))
    (u n : Bool) (as : Option (List (String × TfVal))) (tys : List (String × TfTy)) (x : GoVal) (fs : List (String × GoVal))
    (diags : List Diag) (hooks : List HookCall)
    (hE : isEmptyMsg msg = true → fs = [])
    (hx : (info.isNullable = true ∧ x = .ptr (some (.struct fs))) ∨ (info.isNullable = false ∧ x = .struct fs)) :
    objBody rec info msg false (some (.obj u n as (some tys))) oty (.ok x) diags hooks =
      (rec (.struct fs) (some tys) { attrs := as.getD [], diags := diags, hooks := hooks }).mapO
        (fun st => (TfVal.obj false n (some st.attrs) (some tys), st.diags, st.hooks)) := by
  unfold objBody
  rcases hx with ⟨hn, rfl⟩ | ⟨hn, rfl⟩
  · cases hem : isEmptyMsg msg with
    | false =>
      cases as <;> simp only [hn, Option.getD] <;> simp <;>
        (generalize rec _ _ _ = r; cases r <;> rfl)
    | true =>
      have := hE hem
      subst this
      cases as <;> simp only [hn, Option.getD] <;> simp <;>
        (generalize rec _ _ _ = r; cases r <;> rfl)
  · cases hem : isEmptyMsg msg with
    | false =>
      cases as <;> simp only [hn, Option.getD] <;> simp <;>
        (generalize rec _ _ _ = r; cases r <;> rfl)
    | true =>
      have := hE hem
      subst this
      cases as <;> simp only [hn, Option.getD] <;> simp <;>
        (generalize rec _ _ _ = r; cases r <;> rfl)

theorem listBody_some_eq (rec : ToRec) (info : FieldInfo) (msg : Option MsgInfo) (se : Bool) (obj0 : GoVal) (ety : Option TfTy)
    (u nl : Bool) (es0 : Option (List TfVal)) (et : Option TfTy) (elems : List GoVal) (st : ToSt)
    (oty : Option (List (String × TfTy)))
    (hrep : info.isRepeated = true) (hek : vkindOf info.tf.elemValueType ≠ .list)
    (hoty : elemObjTy (info.kind == .objectList || info.kind == .objectMap) ety = .ok oty) :
    listOrMapBody rec info msg se obj0 (some (.list u nl es0 et)) ety (.slice (some elems)) st =
      (copyToElemsList (elemBodyOf rec info msg se obj0 ety oty) elems 0
          (reuseList (some (.list u nl es0 et)) elems.length ety).2.1 st.diags st.hooks).mapO
        (fun r => { attrs := setKey info.nameSnake (.list false (if elems.length > 0 then false else nl) (some r.1) et) st.attrs,
                    diags := r.2.1, hooks := r.2.2 }) := by
  have hcur : curIsElemKind info (some (.list u nl es0 et)) = false := by
    simp only [curIsElemKind, TfVal.vkind, beq_eq_false_iff_ne]
    exact fun h => hek h.symm
  have het : (reuseList (some (.list u nl es0 et)) elems.length ety).2.2 = et := by
    unfold reuseList; cases es0 <;> rfl
  have hnl : (reuseList (some (.list u nl es0 et)) elems.length ety).1 = nl := by
    unfold reuseList; cases es0 <;> rfl
  unfold listOrMapBody
  simp only [hrep, if_true, hoty, hcur, Bool.false_eq_true, if_false, Option.getD, het, hnl]
  generalize copyToElemsList _ _ _ _ _ _ = r
  cases r with
  | ok q => obtain ⟨es, ds, hs⟩ := q; rfl
  | panic w => rfl
  | stuck w => rfl

theorem mapBody_some_eq (rec : ToRec) (info : FieldInfo) (msg : Option MsgInfo) (se : Bool) (obj0 : GoVal) (ety : Option TfTy)
    (u nl : Bool) (es0 : Option (List (String × TfVal))) (et : Option TfTy) (elems : List (String × GoVal)) (st : ToSt)
    (oty : Option (List (String × TfTy)))
    (hrep : info.isRepeated = false) (hek : vkindOf info.tf.elemValueType ≠ .map)
    (hoty : elemObjTy (info.kind == .objectList || info.kind == .objectMap) ety = .ok oty) :
    listOrMapBody rec info msg se obj0 (some (.map u nl es0 et)) ety (.map (some elems)) st =
      (copyToElemsMap (elemBodyOf rec info msg se obj0 ety oty) elems [] st.diags st.hooks).mapO
        (fun r => { attrs := setKey info.nameSnake (.map false (if elems.length > 0 then false else nl) (some r.1) et) st.attrs,
                    diags := r.2.1, hooks := r.2.2 }) := by
  have hcur : curIsElemKind info (some (.map u nl es0 et)) = false := by
    simp only [curIsElemKind, TfVal.vkind, beq_eq_false_iff_ne]
    exact fun h => hek h.symm
  unfold listOrMapBody
  simp only [hrep, Bool.false_eq_true, if_false, hoty, hcur, reuseMap]
  generalize copyToElemsMap _ _ _ _ _ = r
  cases r with
  | ok q => obtain ⟨es, ds, hs⟩ := q; rfl
  | panic w => rfl
  | stuck w => rfl

-- ------------------------------------------------------------------------------------------------------
-- list and map fields: the second run stores the same value

theorem listField_idem (rec : ToRec) (hrec : RecWriter rec) (info : FieldInfo) (msg : Option MsgInfo) (se : Bool) (obj0 : GoVal)
    (ety : Option TfTy) (oty : Option (List (String × TfTy))) (cur : Option TfVal) (src : GoVal) (st : ToSt) (v : TfVal)
    (hs : List HookCall)
    (hrep : info.isRepeated = true) (hek : vkindOf info.tf.elemValueType ≠ .list)
    (hoty : elemObjTy (info.kind == .objectList || info.kind == .objectMap) ety = .ok oty)
    (hcur : cur = none ∨ ∃ u nl es0 et, cur = some (.list u nl es0 et))
    (hsrc : src = .slice none ∨ ∃ es, src = .slice (some es))
    (hrun : listOrMapBody rec info msg se obj0 cur ety src st =
      .ok { attrs := setKey info.nameSnake v st.attrs, diags := st.diags, hooks := st.hooks ++ hs }) :
    ∀ st2 : ToSt, ∃ h', listOrMapBody rec info msg se obj0 (some v) ety src st2 =
      .ok { attrs := setKey info.nameSnake v st2.attrs, diags := st2.diags, hooks := st2.hooks ++ h' } := by
  -- an absent attribute behaves like an empty list
  have hcur' : ∃ u nl es0 et, listOrMapBody rec info msg se obj0 cur ety src st =
      listOrMapBody rec info msg se obj0 (some (.list u nl es0 et)) ety src st := by
    rcases hcur with rfl | ⟨u, nl, es0, et, rfl⟩
    · exact ⟨_, _, _, _, listBody_none_eq rec info msg se obj0 ety src st hrep hek⟩
    · exact ⟨u, nl, es0, et, rfl⟩
  obtain ⟨u, nl, es0, et, hc⟩ := hcur'
  rw [hc] at hrun
  intro st2
  rcases hsrc with rfl | ⟨elems, rfl⟩
  · rw [listBody_inplace_nil _ _ _ _ _ _ _ _ _ _ _ hrep] at hrun
    simp only [Outcome.ok.injEq, ToSt.mk.injEq] at hrun
    have hv := setKey_inj _ _ _ _ hrun.1
    subst hv
    rw [listBody_inplace_nil _ _ _ _ _ _ _ _ _ _ _ hrep]
    exact ⟨[], by simp⟩
  · rw [listBody_some_eq rec info msg se obj0 ety u nl es0 et elems st oty hrep hek hoty] at hrun
    generalize hr : copyToElemsList _ _ _ _ _ _ = r at hrun
    cases r with
    | ok q =>
      obtain ⟨es, ds, hs1⟩ := q
      simp only [Outcome.mapO, Outcome.ok.injEq, ToSt.mk.injEq] at hrun
      obtain ⟨hv, hd, hh⟩ := hrun
      have hv := setKey_inj _ _ _ _ hv
      subst hv hd hh
      obtain ⟨hlen, hidem⟩ := elemsList_idem _ (elemBodyOf_writer rec hrec info msg se obj0 ety oty) elems _ st.diags st.hooks es hs
        (reuseList_length _ _ _) hr
      rw [listBody_some_eq rec info msg se obj0 ety _ _ _ et elems st2 oty hrep hek hoty]
      have hre : (reuseList (some (.list false (if elems.length > 0 then false else nl) (some es) et)) elems.length ety).2.1 = es := by
        simp [reuseList, hlen]
      rw [hre, hidem]
      refine ⟨hs, ?_⟩
      simp only [Outcome.mapO]
      by_cases hpos : elems.length > 0 <;> simp [hpos]
    | panic w => simp [Outcome.mapO] at hrun
    | stuck w => simp [Outcome.mapO] at hrun

theorem mapField_idem (rec : ToRec) (hrec : RecWriter rec) (info : FieldInfo) (msg : Option MsgInfo) (se : Bool) (obj0 : GoVal)
    (ety : Option TfTy) (oty : Option (List (String × TfTy))) (cur : Option TfVal) (src : GoVal) (st : ToSt) (v : TfVal)
    (hs : List HookCall)
    (hrep : info.isRepeated = false) (hek : vkindOf info.tf.elemValueType ≠ .map)
    (hoty : elemObjTy (info.kind == .objectList || info.kind == .objectMap) ety = .ok oty)
    (hcur : cur = none ∨ ∃ u nl es0 et, cur = some (.map u nl es0 et))
    (hsrc : src = .map none ∨ ∃ es, src = .map (some es))
    (hrun : listOrMapBody rec info msg se obj0 cur ety src st =
      .ok { attrs := setKey info.nameSnake v st.attrs, diags := st.diags, hooks := st.hooks ++ hs }) :
    ∀ st2 : ToSt, ∃ h', listOrMapBody rec info msg se obj0 (some v) ety src st2 =
      .ok { attrs := setKey info.nameSnake v st2.attrs, diags := st2.diags, hooks := st2.hooks ++ h' } := by
  have hcur' : ∃ u nl es0 et, listOrMapBody rec info msg se obj0 cur ety src st =
      listOrMapBody rec info msg se obj0 (some (.map u nl es0 et)) ety src st := by
    rcases hcur with rfl | ⟨u, nl, es0, et, rfl⟩
    · exact ⟨_, _, _, _, mapBody_none_eq rec info msg se obj0 ety src st hrep hek⟩
    · exact ⟨u, nl, es0, et, rfl⟩
  obtain ⟨u, nl, es0, et, hc⟩ := hcur'
  rw [hc] at hrun
  intro st2
  rcases hsrc with rfl | ⟨elems, rfl⟩
  · rw [mapBody_inplace_nil _ _ _ _ _ _ _ _ _ _ _ hrep] at hrun
    simp only [Outcome.ok.injEq, ToSt.mk.injEq] at hrun
    have hv := setKey_inj _ _ _ _ hrun.1
    subst hv
    rw [mapBody_inplace_nil _ _ _ _ _ _ _ _ _ _ _ hrep]
    exact ⟨[], by simp⟩
  · rw [mapBody_some_eq rec info msg se obj0 ety u nl es0 et elems st oty hrep hek hoty] at hrun
    generalize hr : copyToElemsMap _ _ _ _ _ = r at hrun
    cases r with
    | ok q =>
      obtain ⟨es, ds, hs1⟩ := q
      simp only [Outcome.mapO, Outcome.ok.injEq, ToSt.mk.injEq] at hrun
      obtain ⟨hv, hd, hh⟩ := hrun
      have hv := setKey_inj _ _ _ _ hv
      subst hv hd hh
      have hidem := elemsMap_idem _ (elemBodyOf_writer rec hrec info msg se obj0 ety oty) elems [] st.diags st.hooks es hs hr
      rw [mapBody_some_eq rec info msg se obj0 ety _ _ _ et elems st2 oty hrep hek hoty]
      rw [hidem]
      refine ⟨hs, ?_⟩
      simp only [Outcome.mapO]
      by_cases hpos : elems.length > 0 <;> simp [hpos]
    | panic w => simp [Outcome.mapO] at hrun
    | stuck w => simp [Outcome.mapO] at hrun

-- ------------------------------------------------------------------------------------------------------
-- one field block, by kind, as equations

theorem copyToField_prim_eq (info : FieldInfo) (mv : Option FieldInfo) (msg : Option MsgInfo) (sub : List Field) (obj : GoVal)
    (atys : List (String × TfTy)) (st : ToSt) (a : TfTy)
    (hk : info.kind = .primitive) (hty : atys.lookup info.nameSnake = some a) :
    copyToField ⟨info, mv, msg, sub⟩ obj (some atys) st =
      (primBody info (oneOfShadow info obj) (st.attrs.lookup info.nameSnake) (some a) (readField info (oneOfShadow info obj))).mapO
        (fun r => { attrs := setKey info.nameSnake r.1 st.attrs, diags := st.diags ++ r.2, hooks := st.hooks }) := by
  unfold copyToField copyToFieldWith
  simp only [Option.getD, hty, hk]
  generalize primBody _ _ _ _ _ = r
  cases r with
  | ok q => obtain ⟨v, ds⟩ := q; rfl
  | panic w => rfl
  | stuck w => rfl

theorem copyToField_obj_eq (info : FieldInfo) (mv : Option FieldInfo) (msg : Option MsgInfo) (sub : List Field) (obj : GoVal)
    (atys : List (String × TfTy)) (st : ToSt) (oty : Option (List (String × TfTy)))
    (hk : info.kind = .object) (hty : atys.lookup info.nameSnake = some (.obj oty)) :
    copyToField ⟨info, mv, msg, sub⟩ obj (some atys) st =
      (objBody (fun o a s => copyToFields sub o a s) info msg sub.isEmpty (st.attrs.lookup info.nameSnake) oty
          (readField info (oneOfShadow info obj)) st.diags st.hooks).mapO
        (fun r => { attrs := setKey info.nameSnake r.1 st.attrs, diags := r.2.1, hooks := r.2.2 }) := by
  unfold copyToField copyToFieldWith
  simp only [Option.getD, hty, hk]
  generalize objBody _ _ _ _ _ _ _ _ _ = r
  cases r with
  | ok q => obtain ⟨v, ds, hs⟩ := q; rfl
  | panic w => rfl
  | stuck w => rfl

theorem copyToField_list_eq (info : FieldInfo) (mv : Option FieldInfo) (msg : Option MsgInfo) (sub : List Field) (obj : GoVal)
    (atys : List (String × TfTy)) (st : ToSt) (ety : Option TfTy) (src : GoVal)
    (hk : info.kind = .primitiveList ∨ info.kind = .objectList) (hrep : info.isRepeated = true)
    (hty : atys.lookup info.nameSnake = some (.list ety)) (hrd : readField info obj = .ok src) :
    copyToField ⟨info, mv, msg, sub⟩ obj (some atys) st =
      listOrMapBody (fun o a s => copyToFields sub o a s) info msg sub.isEmpty obj (st.attrs.lookup info.nameSnake) ety src st := by
  unfold copyToField copyToFieldWith
  rcases hk with hk | hk <;> simp only [Option.getD, hty, hk, hrep, if_true, hrd]

theorem copyToField_map_eq (info : FieldInfo) (mv : Option FieldInfo) (msg : Option MsgInfo) (sub : List Field) (obj : GoVal)
    (atys : List (String × TfTy)) (st : ToSt) (ety : Option TfTy) (src : GoVal)
    (hk : info.kind = .primitiveMap ∨ info.kind = .objectMap) (hrep : info.isRepeated = false)
    (hty : atys.lookup info.nameSnake = some (.map ety)) (hrd : readField info obj = .ok src) :
    copyToField ⟨info, mv, msg, sub⟩ obj (some atys) st =
      listOrMapBody (fun o a s => copyToFields sub o a s) info msg sub.isEmpty obj (st.attrs.lookup info.nameSnake) ety src st := by
  unfold copyToField copyToFieldWith
  rcases hk with hk | hk <;> simp only [Option.getD, hty, hk, hrep, Bool.false_eq_true, if_false, hrd]

/-- custom fields: the hook's value does not depend on the existing attribute (for all inputs) -/
theorem copyToField_custom_idem (info : FieldInfo) (mv : Option FieldInfo) (msg : Option MsgInfo) (sub : List Field) (obj : GoVal)
    (atys : List (String × TfTy)) (st : ToSt) (v : TfVal) (hs : List HookCall)
    (hk : info.kind = .custom)
    (hrun : copyToField ⟨info, mv, msg, sub⟩ obj (some atys) st =
      .ok { attrs := setKey info.nameSnake v st.attrs, diags := st.diags, hooks := st.hooks ++ hs }) :
    ∀ st2 : ToSt, ∃ h', copyToField ⟨info, mv, msg, sub⟩ obj (some atys) st2 =
      .ok { attrs := setKey info.nameSnake v st2.attrs, diags := st2.diags, hooks := st2.hooks ++ h' } := by
  intro st2
  unfold copyToField copyToFieldWith at hrun ⊢
  simp only [Option.getD, hk] at hrun ⊢
  cases hl : atys.lookup info.nameSnake with
  | none =>
    simp only [hl, ToSt.diag, Outcome.ok.injEq, ToSt.mk.injEq] at hrun
    have := hrun.2.1
    simp at this
  | some a =>
    simp only [hl] at hrun ⊢
    cases hr : readField info obj with
    | ok x =>
      simp only [hr] at hrun ⊢
      cases hh : hookTo info.isRepeated x with
      | some v' =>
        simp only [hh, ToSt.set, Outcome.ok.injEq, ToSt.mk.injEq] at hrun ⊢
        have hv := setKey_inj _ _ _ _ hrun.1
        subst hv
        exact ⟨_, rfl, trivial, rfl⟩
      | none => simp [hh] at hrun
    | panic w => simp [hr] at hrun
    | stuck w => simp [hr] at hrun

-- ------------------------------------------------------------------------------------------------------
-- the induction over the IR

theorem shapedAttrs_setKey_other (k : String) (v : TfVal) (attrs : List (String × TfVal)) (atys : List (String × TfTy)) :
    ∀ (l : List Field), (∀ g ∈ l, g.info.nameSnake ≠ k) → ShapedAttrs l attrs atys → ShapedAttrs l (setKey k v attrs) atys
  | [], _, _ => trivial
  | g :: l, hne, hS => by
    refine ⟨?_, shapedAttrs_setKey_other k v attrs atys l (fun x hx => hne x (by simp [hx])) hS.2⟩
    intro a ha
    rw [lookup_setKey_other _ _ _ (hne g (by simp))] at ha
    exact hS.1 a ha

mutual

/-- one field block: the value it stores is a fixed point – run again on any state that holds this value, the block
stores it again, without diagnostics -/
theorem toField_idem : ∀ (f : Field) (obj : GoVal) (atys : List (String × TfTy)) (st : ToSt) (ty : TfTy),
    atys.lookup f.info.nameSnake = some ty → ToOK f obj ty → CurShaped f (st.attrs.lookup f.info.nameSnake) ty →
    ∃ v hs, copyToField f obj (some atys) st =
        .ok { attrs := setKey f.info.nameSnake v st.attrs, diags := st.diags, hooks := st.hooks ++ hs } ∧
      Shaped f v ty ∧
      ∀ st2 : ToSt, st2.attrs.lookup f.info.nameSnake = some v →
        ∃ h', copyToField f obj (some atys) st2 = .ok { attrs := st2.attrs, diags := st2.diags, hooks := st2.hooks ++ h' }
  | ⟨info, mapVal, msg, sub⟩, obj, atys, st, ty, hty, hok, hcs => by
    obtain ⟨v, hs, hrun, _, hSv⟩ := toField_inplace ⟨info, mapVal, msg, sub⟩ obj atys st ty hty hok hcs
    refine ⟨v, hs, hrun, hSv, ?_⟩
    intro st2 hl2
    simp only at hty hcs hl2 hrun ⊢
    suffices hsuff : ∃ h', copyToField ⟨info, mapVal, msg, sub⟩ obj (some atys) st2 =
        .ok { attrs := setKey info.nameSnake v st2.attrs, diags := st2.diags, hooks := st2.hooks ++ h' } by
      rw [setKey_lookup_self _ _ _ hl2] at hsuff
      exact hsuff
    unfold ToOK at hok
    unfold CurShaped Shaped at hcs
    cases hkind : info.kind with
    | primitive =>
      rw [copyToField_prim_eq _ _ _ _ _ _ _ _ hkind hty] at hrun ⊢
      generalize hr : primBody info _ (st.attrs.lookup _) _ _ = r at hrun
      cases r with
      | ok q =>
        obtain ⟨v', ds⟩ := q
        simp only [Outcome.mapO, Outcome.ok.injEq, ToSt.mk.injEq] at hrun
        have hv := setKey_inj _ _ _ _ hrun.1
        subst hv
        rw [hl2, primBody_idem _ _ _ _ _ _ _ hr]
        exact ⟨[], by simp [Outcome.mapO]⟩
      | panic w => simp [Outcome.mapO] at hrun
      | stuck w => simp [Outcome.mapO] at hrun
    | custom => exact copyToField_custom_idem info mapVal msg sub obj atys st v hs hkind hrun st2
    | object =>
      simp only [hkind] at hok hcs
      obtain ⟨hreach, as, rfl, hsub, hE, htyped⟩ := hok
      have hne : info.parentIsOptionalEmbed = false ∨ info.oneOfName = "" := by
        by_cases hp : info.parentIsOptionalEmbed = true
        · exact Or.inr (hreach hp).2.1
        · exact Or.inl (by simpa using hp)
      have hrd := readField_getVal info obj hreach hne
      have hse : sub.isEmpty = false := by cases sub <;> simp_all
      rw [copyToField_obj_eq _ _ _ _ _ _ _ _ hkind hty] at hrun ⊢
      rw [hrd, hse] at hrun ⊢
      rw [hl2]
      -- an absent attribute behaves like an empty object
      have hcur1 : ∃ u n as0, objBody (fun o a s => copyToFields sub o a s) info msg false (st.attrs.lookup info.nameSnake)
            (some as) (.ok (getVal info obj)) st.diags st.hooks =
          objBody (fun o a s => copyToFields sub o a s) info msg false (some (.obj u n as0 (some as)))
            (some as) (.ok (getVal info obj)) st.diags st.hooks ∧ ShapedAttrs sub (as0.getD []) as := by
        cases hcur : st.attrs.lookup info.nameSnake with
        | none => exact ⟨false, false, some [], objBody_none_eq _ _ _ _ _ _ _ _, shapedAttrs_nil sub as⟩
        | some a =>
          obtain ⟨u, n, as0, tys, rfl, htys, hS⟩ := hcs a hcur
          injection htys with htys
          injection htys with htys
          subst htys
          exact ⟨u, n, as0, rfl, hS⟩
      obtain ⟨u, n, as0, hc1, hS0⟩ := hcur1
      rw [hc1] at hrun
      generalize getVal info obj = x at hE htyped hrun ⊢
      -- the source is a struct
      have structCase : ∀ fs, ((info.isNullable = true ∧ x = .ptr (some (.struct fs))) ∨ (info.isNullable = false ∧ x = .struct fs)) →
          ToOKs sub (.struct fs) as →
          ∃ h', Outcome.mapO (fun (r : TfVal × List Diag × List HookCall) =>
              ({ attrs := setKey info.nameSnake r.1 st2.attrs, diags := r.2.1, hooks := r.2.2 } : ToSt))
            (objBody (fun o a s => copyToFields sub o a s) info msg false (some v) (some as) (.ok x) st2.diags st2.hooks) =
            .ok { attrs := setKey info.nameSnake v st2.attrs, diags := st2.diags, hooks := st2.hooks ++ h' } := by
        intro fs hx hP
        have hE' : isEmptyMsg msg = true → fs = [] := by
          intro hem
          rcases hx with ⟨_, hx⟩ | ⟨_, hx⟩
          · exact hE hem fs (Or.inl hx)
          · exact hE hem fs (Or.inr hx)
        rw [objBody_struct_eq _ info msg (some as) u n as0 as x fs st.diags st.hooks hE' hx] at hrun
        generalize hr : copyToFields sub (.struct fs) (some as) _ = r at hrun
        cases r with
        | ok st1 =>
          simp only [Outcome.mapO, Outcome.ok.injEq, ToSt.mk.injEq] at hrun
          have hv := setKey_inj _ _ _ _ hrun.1
          subst hv
          obtain ⟨h', hih⟩ := toFields_idem sub (.struct fs) as _ st1 hP hS0 hr st2.diags st2.hooks
          rw [objBody_struct_eq _ info msg (some as) false n (some st1.attrs) as x fs st2.diags st2.hooks hE' hx]
          simp only [Option.getD]
          rw [hih]
          exact ⟨h', rfl⟩
        | panic w => simp [Outcome.mapO] at hrun
        | stuck w => simp [Outcome.mapO] at hrun
      unfold MsgTyped at htyped
      by_cases hn : info.isNullable = true
      · simp only [hn, if_true] at htyped
        rcases htyped with hx | ⟨fs, hx, hP⟩
        · subst hx
          rw [objBody_nil_eq _ _ _ _ _ _ _ _ _ _ hn] at hrun
          simp only [Outcome.mapO, Outcome.ok.injEq, ToSt.mk.injEq] at hrun
          have hv := setKey_inj _ _ _ _ hrun.1
          subst hv
          rw [objBody_nil_eq _ _ _ _ _ _ _ _ _ _ hn]
          exact ⟨[], by simp [Outcome.mapO]⟩
        · exact structCase fs (Or.inl ⟨hn, hx⟩) hP
      · have hn' : info.isNullable = false := by simpa using hn
        simp only [hn', Bool.false_eq_true, if_false] at htyped
        obtain ⟨fs, hx, hP⟩ := htyped
        exact structCase fs (Or.inr ⟨hn', hx⟩) hP
    | primitiveList =>
      simp only [hkind] at hok hcs
      obtain ⟨hrep, hoo, hnp, hreach, k, hk, rfl, hval⟩ := hok
      have hrd := readField_getVal info obj hreach (Or.inr hoo)
      rw [shadow_id info obj hoo] at hrd
      have hek : vkindOf info.tf.elemValueType ≠ .list := by rw [hk]; simp
      have hoty : elemObjTy (info.kind == .objectList || info.kind == .objectMap) (some (.prim k)) = .ok none := by
        simp [elemObjTy, hkind]
      rw [copyToField_list_eq _ _ _ _ _ _ _ _ _ (Or.inl hkind) hrep hty hrd] at hrun ⊢
      rw [hl2]
      have hcur : st.attrs.lookup info.nameSnake = none ∨ ∃ u nl es0 et, st.attrs.lookup info.nameSnake = some (.list u nl es0 et) := by
        cases hc : st.attrs.lookup info.nameSnake with
        | none => exact Or.inl rfl
        | some a =>
          obtain ⟨⟨u, nl, es0, et, rfl⟩, _⟩ := hcs a hc
          exact Or.inr ⟨u, nl, es0, et, rfl⟩
      have hsrc : getVal info obj = .slice none ∨ ∃ es, getVal info obj = .slice (some es) := by
        rcases hval with h | ⟨es, h, _⟩
        · exact Or.inl h
        · exact Or.inr ⟨es, h⟩
      exact listField_idem _ (fun o a s d h => copyToFields_writer sub o a s d h) info msg sub.isEmpty obj _ none _ _ st v hs
        hrep hek hoty hcur hsrc hrun st2
    | objectList =>
      simp only [hkind] at hok hcs
      obtain ⟨hrep, hoo, hreach, hevk, as, rfl, hsub, hne, hval⟩ := hok
      have hrd := readField_getVal info obj hreach (Or.inr hoo)
      rw [shadow_id info obj hoo] at hrd
      have hek : vkindOf info.tf.elemValueType ≠ .list := by rw [hevk]; simp
      have hoty : elemObjTy (info.kind == .objectList || info.kind == .objectMap) (some (.obj (some as))) = .ok (some as) := by
        simp [elemObjTy, hkind]
      rw [copyToField_list_eq _ _ _ _ _ _ _ _ _ (Or.inr hkind) hrep hty hrd] at hrun ⊢
      rw [hl2]
      have hcur : st.attrs.lookup info.nameSnake = none ∨ ∃ u nl es0 et, st.attrs.lookup info.nameSnake = some (.list u nl es0 et) := by
        cases hc : st.attrs.lookup info.nameSnake with
        | none => exact Or.inl rfl
        | some a =>
          obtain ⟨⟨u, nl, es0, et, rfl⟩, _⟩ := hcs a hc
          exact Or.inr ⟨u, nl, es0, et, rfl⟩
      have hsrc : getVal info obj = .slice none ∨ ∃ es, getVal info obj = .slice (some es) := by
        rcases hval with h | ⟨es, h, _⟩
        · exact Or.inl h
        · exact Or.inr ⟨es, h⟩
      exact listField_idem _ (fun o a s d h => copyToFields_writer sub o a s d h) info msg sub.isEmpty obj _ (some as) _ _ st v hs
        hrep hek hoty hcur hsrc hrun st2
    | primitiveMap =>
      simp only [hkind] at hok hcs
      obtain ⟨hrep, hoo, hnp, hreach, hzv, k, hk, rfl, hval⟩ := hok
      have hrd := readField_getVal info obj hreach (Or.inr hoo)
      rw [shadow_id info obj hoo] at hrd
      have hek : vkindOf info.tf.elemValueType ≠ .map := by rw [hk]; simp
      have hoty : elemObjTy (info.kind == .objectList || info.kind == .objectMap) (some (.prim k)) = .ok none := by
        simp [elemObjTy, hkind]
      rw [copyToField_map_eq _ _ _ _ _ _ _ _ _ (Or.inl hkind) hrep hty hrd] at hrun ⊢
      rw [hl2]
      have hcur : st.attrs.lookup info.nameSnake = none ∨ ∃ u nl es0 et, st.attrs.lookup info.nameSnake = some (.map u nl es0 et) := by
        cases hc : st.attrs.lookup info.nameSnake with
        | none => exact Or.inl rfl
        | some a =>
          obtain ⟨⟨u, nl, es0, et, rfl⟩, _⟩ := hcs a hc
          exact Or.inr ⟨u, nl, es0, et, rfl⟩
      have hsrc : getVal info obj = .map none ∨ ∃ es, getVal info obj = .map (some es) := by
        rcases hval with h | ⟨es, h, _⟩
        · exact Or.inl h
        · exact Or.inr ⟨es, h⟩
      exact mapField_idem _ (fun o a s d h => copyToFields_writer sub o a s d h) info msg sub.isEmpty obj _ none _ _ st v hs
        hrep hek hoty hcur hsrc hrun st2
    | objectMap =>
      simp only [hkind] at hok hcs
      obtain ⟨hrep, hoo, hreach, hevk, as, rfl, hsub, hne, hval⟩ := hok
      have hrd := readField_getVal info obj hreach (Or.inr hoo)
      rw [shadow_id info obj hoo] at hrd
      have hek : vkindOf info.tf.elemValueType ≠ .map := by rw [hevk]; simp
      have hoty : elemObjTy (info.kind == .objectList || info.kind == .objectMap) (some (.obj (some as))) = .ok (some as) := by
        simp [elemObjTy, hkind]
      rw [copyToField_map_eq _ _ _ _ _ _ _ _ _ (Or.inr hkind) hrep hty hrd] at hrun ⊢
      rw [hl2]
      have hcur : st.attrs.lookup info.nameSnake = none ∨ ∃ u nl es0 et, st.attrs.lookup info.nameSnake = some (.map u nl es0 et) := by
        cases hc : st.attrs.lookup info.nameSnake with
        | none => exact Or.inl rfl
        | some a =>
          obtain ⟨⟨u, nl, es0, et, rfl⟩, _⟩ := hcs a hc
          exact Or.inr ⟨u, nl, es0, et, rfl⟩
      have hsrc : getVal info obj = .map none ∨ ∃ es, getVal info obj = .map (some es) := by
        rcases hval with h | ⟨es, h, _⟩
        · exact Or.inl h
        · exact Or.inr ⟨es, h⟩
      exact mapField_idem _ (fun o a s d h => copyToFields_writer sub o a s d h) info msg sub.isEmpty obj _ (some as) _ _ st v hs
        hrep hek hoty hcur hsrc hrun st2

theorem toFields_idem : ∀ (fs : List Field) (obj : GoVal) (atys : List (String × TfTy)) (st st' : ToSt),
    ToOKs fs obj atys → ShapedAttrs fs st.attrs atys → copyToFields fs obj (some atys) st = .ok st' →
    ∀ d h, ∃ h', copyToFields fs obj (some atys) { attrs := st'.attrs, diags := d, hooks := h } =
      .ok { attrs := st'.attrs, diags := d, hooks := h ++ h' }
  | [], obj, atys, st, st', _, _, hrun => by
    intro d h
    exact ⟨[], by simp [copyToFields]⟩
  | f :: rest, obj, atys, st, st', hok, hsh, hrun => by
    intro d h
    unfold ToOKs at hok
    obtain ⟨⟨ty, hty, hf⟩, hnotin, hrest⟩ := hok
    have hcs : CurShaped f (st.attrs.lookup f.info.nameSnake) ty := by
      intro a ha
      obtain ⟨ty', hty', hS⟩ := hsh.1 a ha
      rw [hty] at hty'
      injection hty' with hty'
      subst hty'
      exact hS
    obtain ⟨v, hs1, hstep, hSv, hidem⟩ := toField_idem f obj atys st ty hty hf hcs
    have hsh1 : ShapedAttrs rest (setKey f.info.nameSnake v st.attrs) atys := by
      apply shapedAttrs_setKey_other _ _ _ _ rest _ hsh.2
      intro g hg e
      exact hnotin (by rw [← e]; exact List.mem_map_of_mem hg)
    simp only [copyToFields, hstep] at hrun
    -- the later blocks leave this attribute alone
    obtain ⟨st'', hrun', _, _, _, _, hframe⟩ :=
      toFields_inplace rest obj atys { attrs := setKey f.info.nameSnake v st.attrs, diags := st.diags, hooks := st.hooks ++ hs1 }
        hrest hsh1
    rw [hrun] at hrun'
    injection hrun' with hrun'
    subst hrun'
    have hlk : st'.attrs.lookup f.info.nameSnake = some v := by
      rw [hframe _ hnotin]
      exact lookup_setKey_same _ _ _
    obtain ⟨h1, hstep2⟩ := hidem { attrs := st'.attrs, diags := d, hooks := h } hlk
    obtain ⟨h2, hrest2⟩ := toFields_idem rest obj atys _ st' hrest hsh1 hrun d (h ++ h1)
    refine ⟨h1 ++ h2, ?_⟩
    simp only [copyToFields, hstep2]
    rw [hrest2]
    simp

end

/-- C09, idempotence: after an in-place `CopyTo`, the same call on the result returns the same object, without diagnostics -/
theorem copyTo_idem (m : Msg) (v : GoVal) (atys : List (String × TfTy)) (u n : Bool) (as : Option (List (String × TfVal)))
    (r : ToResult)
    (hv : ToOKs m.fields v atys) (hs : ShapedAttrs m.fields (as.getD []) atys)
    (h : copyTo m v (.obj u n as (some atys)) = .ok r) :
    ∃ r', copyTo m v r.tf = .ok r' ∧ r'.tf = r.tf ∧ r'.diags = [] := by
  unfold copyTo at h
  simp only [] at h
  generalize hr : copyToFields m.fields v (some atys) { attrs := as.getD [] } = o at h
  cases o with
  | ok st =>
    simp only [Outcome.ok.injEq] at h
    subst h
    obtain ⟨h', hrun⟩ := toFields_idem m.fields v atys { attrs := as.getD [] } st hv hs hr [] []
    refine ⟨{ tf := .obj false false (some st.attrs) (some atys), diags := [], hooks := [] ++ h' }, ?_, rfl, rfl⟩
    unfold copyTo
    simp only [Option.getD]
    have : ({ attrs := st.attrs } : ToSt) = { attrs := st.attrs, diags := [], hooks := [] } := rfl
    rw [this, hrun]
  | panic w => simp at h
  | stuck w => simp at h

end PGT

#print axioms PGT.toFields_idem
#print axioms PGT.toField_idem
#print axioms PGT.copyTo_idem
