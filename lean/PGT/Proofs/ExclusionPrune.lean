import PGT.Proofs.PathUnique
import PGT.Proofs.OrderIndep
/-
P33 / C11 - exclusion is surgical on the IR, node by node, at every depth.

`PathUnique.lean` left open (`exclusion_prunes_full`): "the build with `p` excluded = the build without, with the IR nodes
of the addressed occurrences removed at every depth". Here:

  1. `prune p` (`pruneF` / `pruneFs`)          removes, at every depth, the nodes whose recorded `info.path` is `p` and
                                               that are not the placeholder `active`; recomputes NOTHING else
  2. `pruneFs_sort`                            sorting by Go name commutes with pruning
  3. `withPromoted_own`                        without embedded fields `oneOfNames` of a message is `oneOfNames desc`
                                               whatever fields survive (so it needs no pruning)
  4. `coreStep_node`, `coreStep_prune1`        one block: recorded path / not a placeholder / declared oneof name; pruned
                                               recursive results give the pruned block
  5. `msgStep_prune`                           one message: same `info`, pruned field list
  6. `build_prune`                             MAIN, view level, every fuel, every context (induction over the fuel)
  7. `exclusion_prunes_ctx`, `exclusion_prunes`, `exclusion_prunes_root`
                                               MAIN, configuration level: `cfg` + `p` in `exclude_fields` builds `prune p m`
                                               Hypotheses: no embedded field in the tree; `p` addresses by path only
                                               (`typeFree`: an occurrence keyed `Message.field = p` also has path `p`);
                                               the build without the exclusion succeeds.
                                               NOT needed: dot-free / distinct names (all occurrences with path `p` are
                                               excluded and all nodes with path `p` are pruned, however many there are),
                                               "the message keeps a field" (a message that loses all its fields gets NO
                                               placeholder: the placeholder depends on the descriptor only).
  8. `exclusion_prunes_pruneFields`, `exclusion_prunes_full_false`
                                               with `PathUnique.pruneFields`: true when no placeholder is recorded under
                                               `p`; the open statement of PathUnique is FALSE as it stands
  8b. `copyToFields_prune`, `copyTo_prune`, `copyFromFields_prune`, `copyFrom_prune`, `schemaAttrs_pruneFs`,
      `schema_excluded_absent`, `schemaOf_prune`, `built_plain`, `exclusion_surgical_root`
                                               schema and converters at the level of the excluded field (the statements
                                               are about the field list that contains it and hold for every start state):
                                               the excluded attribute / Go field is not touched, all others are equal
      `copyToField_pruneF`, `copyFromField_pruneF`, `schemaField_pruneF`
                                               above that level: the same block over the pruned recursive call
  8c. `copyToFieldWith_rel`, `fieldWith_frel`  congruence of the block functions in their recursive call, for the
                                               relations `OffV D` / `OffG D` "equal except under the attributes / Go
                                               fields named in `D`, at any depth"
      `copyToFields_deep`, `copyFromFields_deep`, `copyTo_prune_deep`, `copyFrom_prune_deep`, `exclusion_surgical_deep`
                                               converters of the pruned message, excluded field at ANY depth: they succeed
                                               whenever the unpruned ones do, with results that agree except under the
                                               excluded attribute / Go field (CopyTo: attribute names pairwise distinct
                                               per level, no nested message emptied; CopyFrom: no side condition beyond
                                               "no embedded fields")
  9. `Example`                                 the statement checked by evaluation on concrete trees (two levels down, in a
                                               list element message, in a map value message, oneof branches, placeholder,
                                               sorting); `typeName_key_needed`, `noEmbed_needed`, `success_needed`: the
                                               hypotheses are necessary

`decide +kernel` is used for the evaluations of whole builds (kernel reduction only, no extra axiom; plain `decide`
runs the same reduction in the elaborator and needs minutes / gigabytes).
-/

namespace PGT.Proofs.ExclusionPrune
open PGT PGT.Props.C11 PGT.Proofs.BuildErrors PGT.Proofs.PathUnique

/-! ## 1. pruning -/

/-- the node is removed by `prune p`: its recorded path is `p` and it is not the placeholder `active` -/
def dropped (p : String) (i : FieldInfo) : Bool := !i.isPlaceholder && i.path == p

mutual
def pruneF (p : String) : Field → Field
  | ⟨info, mapVal, msg, sub⟩ => ⟨info, mapVal, msg, pruneFs p sub⟩
def pruneFs (p : String) : List Field → List Field
  | [] => []
  | f :: fs => if dropped p f.info then pruneFs p fs else pruneF p f :: pruneFs p fs
end

def prune (p : String) (m : Msg) : Msg := { m with fields := pruneFs p m.fields }

theorem pruneF_info (p : String) (f : Field) : (pruneF p f).info = f.info := by
  cases f; rw [pruneF]
theorem pruneF_mapVal (p : String) (f : Field) : (pruneF p f).mapVal = f.mapVal := by
  cases f; rw [pruneF]
theorem pruneF_msg (p : String) (f : Field) : (pruneF p f).msg = f.msg := by
  cases f; rw [pruneF]
theorem pruneF_sub (p : String) (f : Field) : (pruneF p f).sub = pruneFs p f.sub := by
  cases f; rw [pruneF]

theorem pruneFs_nil (p : String) : pruneFs p [] = [] := by rw [pruneFs]
theorem pruneFs_cons (p : String) (f : Field) (fs : List Field) :
    pruneFs p (f :: fs) = if dropped p f.info then pruneFs p fs else pruneF p f :: pruneFs p fs := by rw [pruneFs]

theorem pruneFs_eq (p : String) : ∀ fs : List Field,
    pruneFs p fs = (fs.filter fun f => !dropped p f.info).map (pruneF p)
  | [] => by rw [pruneFs]; rfl
  | f :: fs => by
    rw [pruneFs_cons, pruneFs_eq p fs]
    cases h : dropped p f.info <;> simp [h]

theorem pruneFs_append (p : String) (a b : List Field) : pruneFs p (a ++ b) = pruneFs p a ++ pruneFs p b := by
  simp [pruneFs_eq]

/-! ## 2. insertion sort by name commutes with pruning -/

theorem str_trichotomy (a b : String) : a < b ∨ a = b ∨ b < a := by
  by_cases h1 : a < b
  · exact Or.inl h1
  · by_cases h2 : b < a
    · exact Or.inr (Or.inr h2)
    · exact Or.inr (Or.inl (String.le_antisymm (String.not_lt.mp h2) (String.not_lt.mp h1)))

theorem lt_of_lt_of_not_lt {a b c : String} (h1 : a < b) (h2 : ¬ c < b) : a < c := by
  rcases str_trichotomy b c with h | h | h
  · exact String.lt_trans h1 h
  · exact h ▸ h1
  · exact absurd h h2

/-- sorted by Go name (weakly increasing) -/
def SortedByName (l : List Field) : Prop := l.Pairwise fun a b => ¬ b.info.name < a.info.name

theorem mem_insertByName (m x : Field) : ∀ l : List Field, x ∈ insertByName m l ↔ x = m ∨ x ∈ l
  | [] => by simp [insertByName]
  | g :: gs => by
    simp only [insertByName]
    split
    · simp
    · simp only [List.mem_cons, mem_insertByName m x gs]
      constructor
      · rintro (h | h | h)
        · exact Or.inr (Or.inl h)
        · exact Or.inl h
        · exact Or.inr (Or.inr h)
      · rintro (h | h | h)
        · exact Or.inr (Or.inl h)
        · exact Or.inl h
        · exact Or.inr (Or.inr h)

theorem mem_sortFieldsByName (x : Field) : ∀ l : List Field, x ∈ sortFieldsByName l ↔ x ∈ l
  | [] => by simp [sortFieldsByName]
  | m :: l => by
    show x ∈ insertByName m (sortFieldsByName l) ↔ _
    rw [mem_insertByName, mem_sortFieldsByName x l, List.mem_cons]

theorem sorted_insert (m : Field) : ∀ l : List Field, SortedByName l → SortedByName (insertByName m l)
  | [], _ => by simp [insertByName, SortedByName]
  | g :: gs, h => by
    have hg : ∀ x ∈ gs, ¬ x.info.name < g.info.name := (List.pairwise_cons.mp h).1
    have hs : SortedByName gs := (List.pairwise_cons.mp h).2
    simp only [insertByName]
    split
    · rename_i hlt
      refine List.pairwise_cons.mpr ⟨?_, h⟩
      intro x hx
      rcases List.mem_cons.mp hx with rfl | hx
      · exact String.lt_asymm hlt
      · intro hxm
        exact hg x hx (String.lt_trans hxm hlt)
    · rename_i hnlt
      refine List.pairwise_cons.mpr ⟨?_, sorted_insert m gs hs⟩
      intro x hx
      rcases (mem_insertByName m x gs).mp hx with rfl | hx
      · exact hnlt
      · exact hg x hx

theorem sorted_sortFields : ∀ l : List Field, SortedByName (sortFieldsByName l)
  | [] => List.Pairwise.nil
  | m :: l => sorted_insert m _ (sorted_sortFields l)

theorem insert_of_lt_all (m : Field) (l : List Field) (h : ∀ x ∈ l, m.info.name < x.info.name) :
    insertByName m l = m :: l := by
  cases l with
  | nil => rfl
  | cons g gs => simp [insertByName, h g (by simp)]

theorem filter_insert_neg (q : Field → Bool) (m : Field) (hp : q m = false) :
    ∀ l : List Field, (insertByName m l).filter q = l.filter q
  | [] => by simp [insertByName, hp]
  | g :: gs => by
    simp only [insertByName]
    split
    · simp [List.filter_cons, hp]
    · simp only [List.filter_cons, filter_insert_neg q m hp gs]

theorem filter_insert_pos (q : Field → Bool) (m : Field) (hp : q m = true) :
    ∀ l : List Field, SortedByName l → (insertByName m l).filter q = insertByName m (l.filter q)
  | [], _ => by simp [insertByName, hp]
  | g :: gs, h => by
    have hg : ∀ x ∈ gs, ¬ x.info.name < g.info.name := (List.pairwise_cons.mp h).1
    have hs : SortedByName gs := (List.pairwise_cons.mp h).2
    simp only [insertByName]
    split
    · rename_i hlt
      rw [List.filter_cons_of_pos (by simpa using hp)]
      rw [insert_of_lt_all m ((g :: gs).filter q)]
      intro x hx
      have hx' : x ∈ g :: gs := (List.mem_filter.mp hx).1
      rcases List.mem_cons.mp hx' with rfl | hx'
      · exact hlt
      · exact lt_of_lt_of_not_lt hlt (hg x hx')
    · rename_i hnlt
      have ih := filter_insert_pos q m hp gs hs
      cases hpg : q g with
      | true =>
        rw [List.filter_cons_of_pos (by simpa using hpg), List.filter_cons_of_pos (by simpa using hpg), ih]
        simp only [insertByName, hnlt, if_false]
      | false =>
        rw [List.filter_cons_of_neg (by simp [hpg]), List.filter_cons_of_neg (by simp [hpg]), ih]

/-- filtering the sorted list = sorting the filtered list -/
theorem filter_sortFields (q : Field → Bool) : ∀ l : List Field,
    (sortFieldsByName l).filter q = sortFieldsByName (l.filter q)
  | [] => rfl
  | m :: l => by
    have ih := filter_sortFields q l
    show (insertByName m (sortFieldsByName l)).filter q = sortFieldsByName ((m :: l).filter q)
    cases hp : q m with
    | true =>
      rw [filter_insert_pos q m hp _ (sorted_sortFields l), ih, List.filter_cons_of_pos (by simpa using hp)]
      rfl
    | false =>
      rw [filter_insert_neg q m hp, ih, List.filter_cons_of_neg (by simp [hp])]

/-- a map that keeps the Go names commutes with the insertion -/
theorem map_insertByName (g : Field → Field) (hg : ∀ f, (g f).info.name = f.info.name) (m : Field) :
    ∀ l : List Field, (insertByName m l).map g = insertByName (g m) (l.map g)
  | [] => rfl
  | x :: l => by
    simp only [insertByName, List.map_cons, hg]
    split
    · rfl
    · rw [List.map_cons, map_insertByName g hg m l]

theorem map_sortFields (g : Field → Field) (hg : ∀ f, (g f).info.name = f.info.name) : ∀ l : List Field,
    (sortFieldsByName l).map g = sortFieldsByName (l.map g)
  | [] => rfl
  | m :: l => by
    show (insertByName m (sortFieldsByName l)).map g = insertByName (g m) (sortFieldsByName (l.map g))
    rw [map_insertByName g hg, map_sortFields g hg l]

/-- **sorting commutes with pruning** -/
theorem pruneFs_sort (p : String) (l : List Field) :
    pruneFs p (sortFieldsByName l) = sortFieldsByName (pruneFs p l) := by
  rw [pruneFs_eq, pruneFs_eq, filter_sortFields, map_sortFields _ (fun f => by rw [pruneF_info])]

/-! ## 3. the oneof names of a message without embedded fields are its own -/

theorem withPromoted_own (own : List String) : ∀ (fs : List Field),
    (∀ x ∈ fs, x.info.oneOfName = "" ∨ x.info.oneOfName ∈ own) → withPromotedOneOfs own fs = own := by
  intro fs
  unfold withPromotedOneOfs
  induction fs with
  | nil => intro _; rfl
  | cons x fs ih =>
    intro h
    rw [List.foldl_cons]
    have hx := h x List.mem_cons_self
    have : (if x.info.oneOfName == "" || x.info.parentIsOptionalEmbed || own.contains x.info.oneOfName then own
            else own ++ [x.info.oneOfName]) = own := by
      rcases hx with hx | hx
      · simp [hx]
      · simp [hx]
    rw [this]
    exact ih (fun y hy => h y (List.mem_cons_of_mem _ hy))

theorem mem_pruneFs {p : String} {fs : List Field} {y : Field} (h : y ∈ pruneFs p fs) :
    ∃ x ∈ fs, y = pruneF p x := by
  rw [pruneFs_eq] at h
  obtain ⟨x, hx, rfl⟩ := List.mem_map.mp h
  exact ⟨x, (List.mem_filter.mp hx).1, rfl⟩

/-! ## 4. one block -/

theorem goNameS_empty : goNameS "" = "" := by decide

theorem oneOf_getD_mem (desc : MsgD) (i : Nat) :
    goNameS (desc.oneofs.getD i "") = "" ∨ goNameS (desc.oneofs.getD i "") ∈ oneOfNames desc := by
  by_cases h : i < desc.oneofs.length
  · right
    unfold oneOfNames
    refine List.mem_map.mpr ⟨desc.oneofs[i], List.getElem_mem h, ?_⟩
    simp [List.getD, h]
  · left
    have : desc.oneofs.getD i "" = "" := by simp [List.getD, Nat.le_of_not_lt h]
    rw [this, goNameS_empty]

/-- the IR nodes of a non-embedded occurrence: recorded path, not a placeholder, oneof name declared by the message -/
theorem coreStep_node (V : CfgView) (req : Request) (ctx : MsgCtx) (f : FieldD) (keys : Keys)
    (goType : String) (isMap isRep hasComment : Bool)
    (bm : MsgD → Except BuildError Msg) (bv : Except BuildError (List Field)) (r : List Field)
    (hemb : f.embed = false)
    (h : coreStep V req ctx f keys goType isMap isRep hasComment bm bv = .ok r) :
    ∀ x ∈ r, x.info.path = keys.path ∧ x.info.isPlaceholder = false ∧
      (x.info.oneOfName = "" ∨ x.info.oneOfName ∈ oneOfNames ctx.desc) ∧ x.info.parentIsOptionalEmbed = false := by
  unfold coreStep at h
  cases hex : V.excluded keys with
  | true =>
    simp only [hex] at h
    injection h with h; subst h; intro x hx; cases hx
  | false =>
    cases htf : getTerraformType V f isMap isRep goType keys.path with
    | error e => simp only [hex, htf] at h; cases h
    | ok tf =>
      simp only [hex, htf, hemb, Bool.and_false, Bool.false_eq_true, if_false] at h
      split at h
      · cases h
      · rename_i nestedMsg hn
        clear hn
        split at h
        · cases h
        · rename_i info mapV hmapped
          injection h with h
          subst h
          intro x hx
          simp only [List.mem_singleton] at hx
          subst hx
          have hoo : ∀ (a b : String), ((match f.oneof with
                | none => ("", "")
                | some i => (goNameS (ctx.desc.oneofs.getD i ""), b)).1 = "" ∨
              (match f.oneof with
                | none => ("", "")
                | some i => (goNameS (ctx.desc.oneofs.getD i ""), b)).1 ∈ oneOfNames ctx.desc) := by
            intro a b
            cases f.oneof with
            | none => exact Or.inl rfl
            | some i => exact oneOf_getD_mem ctx.desc i
          refine ⟨?_, ?_, ?_, ?_⟩
          · show info.path = keys.path
            cases isMap with
            | false =>
              simp only [Bool.false_eq_true, if_false] at hmapped
              injection hmapped with hmapped
              injection hmapped with h1 h2
              subst h1
              cases isRep <;> rfl
            | true =>
              simp only [if_true] at hmapped
              split at hmapped
              · cases hmapped
              · split at hmapped
                · cases hmapped
                · cases hmapped
                · injection hmapped with hmapped
                  injection hmapped with h1 h2
                  subst h1
                  cases isRep <;> rfl
          · show info.isPlaceholder = false
            cases isMap with
            | false =>
              simp only [Bool.false_eq_true, if_false] at hmapped
              injection hmapped with hmapped
              injection hmapped with h1 h2
              subst h1
              cases isRep <;> rfl
            | true =>
              simp only [if_true] at hmapped
              split at hmapped
              · cases hmapped
              · split at hmapped
                · cases hmapped
                · cases hmapped
                · injection hmapped with hmapped
                  injection hmapped with h1 h2
                  subst h1
                  cases isRep <;> rfl
          · exact hoo "" _
          · show info.parentIsOptionalEmbed = false
            cases isMap with
            | false =>
              simp only [Bool.false_eq_true, if_false] at hmapped
              injection hmapped with hmapped
              injection hmapped with h1 h2
              subst h1
              cases isRep <;> rfl
            | true =>
              simp only [if_true] at hmapped
              split at hmapped
              · cases hmapped
              · split at hmapped
                · cases hmapped
                · cases hmapped
                · injection hmapped with hmapped
                  injection hmapped with h1 h2
                  subst h1
                  cases isRep <;> rfl

theorem pruneFs_keep1 (p : String) (x : Field) (h : x.info.path ≠ p) : pruneFs p [x] = [pruneF p x] := by
  rw [pruneFs_cons, pruneFs_nil]
  have : dropped p x.info = false := by simp [dropped, h]
  simp [this]

/-- **One block under pruned recursive results** (same view). A non-embedded occurrence whose path is not `p`: if the
nested message / the map value are replaced by their pruned versions, the block is the pruned block. -/
theorem coreStep_prune1 (V : CfgView) (req : Request) (ctx : MsgCtx) (f : FieldD) (keys : Keys)
    (goType : String) (isMap isRep hasComment : Bool) (p : String) (hp : keys.path ≠ p) (hemb : f.embed = false)
    (bm bm' : MsgD → Except BuildError Msg) (bv bv' : Except BuildError (List Field))
    (hbm : isMap = false → ∀ d m, req.findMessage f.typeName = some d → bm d = .ok m → bm' d = .ok (prune p m))
    (hbv : isMap = true → ∀ v vs, bv = .ok (v :: vs) → ∃ vs', bv' = .ok (pruneF p v :: vs'))
    (r : List Field) (h : coreStep V req ctx f keys goType isMap isRep hasComment bm bv = .ok r) :
    coreStep V req ctx f keys goType isMap isRep hasComment bm' bv' = .ok (pruneFs p r) := by
  have hnode := coreStep_node V req ctx f keys goType isMap isRep hasComment bm bv r hemb h
  unfold coreStep at h ⊢
  cases hex : V.excluded keys with
  | true =>
    simp only [hex, if_true] at h ⊢
    injection h with h; subst h; rw [pruneFs_nil]
  | false =>
    cases htf : getTerraformType V f isMap isRep goType keys.path with
    | error e => simp only [hex, htf] at h; cases h
    | ok tf =>
      cases hc : (tf.isMessage && !isMap) with
      | true =>
        have hmap : isMap = false := by cases isMap <;> simp_all
        subst hmap
        cases hfind : req.findMessage f.typeName with
        | none => simp only [hex, htf, hc, hfind] at h; cases h
        | some d =>
          cases hb : bm d with
          | error e => simp only [hex, htf, hc, hfind, hb] at h; cases h
          | ok m =>
            have hb' := hbm rfl d m hfind hb
            simp only [hex, htf, hc, hfind, hb, hb', hemb, Bool.and_false, Bool.false_eq_true, if_false] at h ⊢
            injection h with h
            subst h
            rw [pruneFs_keep1 p _ (by rw [(hnode _ List.mem_cons_self).1]; exact hp)]
            rfl
      | false =>
        cases isMap with
        | false =>
          simp only [hex, htf, hc, hemb, Bool.and_false, Bool.false_eq_true, if_false] at h ⊢
          injection h with h
          subst h
          rw [pruneFs_keep1 p _ (by rw [(hnode _ List.mem_cons_self).1]; exact hp)]
          rfl
        | true =>
          by_cases hk : scalarGoType f.mapKey = "string"
          · cases hv : bv with
            | error e => simp [hex, htf, hk, hv] at h
            | ok l =>
              cases l with
              | nil => simp [hex, htf, hk, hv] at h
              | cons v vs =>
                obtain ⟨vs', hv'⟩ := hbv rfl v vs hv
                obtain ⟨vi, vmv, vmsg, vsub⟩ := v
                simp only [hex, htf, hc, hk, hv, hv', hemb, Bool.and_false, Bool.false_eq_true, if_false] at h ⊢
                injection h with h
                subst h
                rw [pruneFs_keep1 p _ (by rw [(hnode _ List.mem_cons_self).1]; exact hp)]
                rfl
          · simp [hex, htf, hk] at h

/-! ## 5. one message -/

theorem collect_prune {β} (p : String) (g g' : β → Except BuildError (List Field)) : ∀ (l : List β) (fs : List Field),
    (∀ x ∈ l, ∀ r, g x = .ok r → g' x = .ok (pruneFs p r)) →
    collectFields (l.map g) = .ok fs → collectFields (l.map g') = .ok (pruneFs p fs)
  | [], fs, _, h => by
    simp only [List.map_nil, collectFields] at h ⊢
    injection h with h; subst h; rw [pruneFs_nil]
  | x :: l, fs, hg, h => by
    simp only [List.map_cons] at h ⊢
    cases hx : g x with
    | error e => simp [hx, collectFields] at h
    | ok r =>
      rw [hx] at h
      rw [hg x List.mem_cons_self r hx]
      simp only [collectFields] at h ⊢
      cases hr : collectFields (l.map g) with
      | error e => simp [hr] at h
      | ok more =>
        rw [hr] at h
        injection h with h
        subst h
        rw [collect_prune p g g' l more (fun y hy => hg y (List.mem_cons_of_mem _ hy)) hr, pruneFs_append]

theorem collect_mem {ε α β} (g : β → Except ε (List α)) : ∀ (l : List β) (fs : List α),
    collectFields (l.map g) = .ok fs → ∀ x ∈ fs, ∃ b ∈ l, ∃ r, g b = .ok r ∧ x ∈ r
  | [], fs, h, x, hx => by
    simp only [List.map_nil, collectFields] at h
    injection h with h; subst h; cases hx
  | b :: l, fs, h, x, hx => by
    simp only [List.map_cons] at h
    cases hb : g b with
    | error e => simp [hb, collectFields] at h
    | ok r =>
      rw [hb] at h
      simp only [collectFields] at h
      cases hr : collectFields (l.map g) with
      | error e => simp [hr] at h
      | ok more =>
        rw [hr] at h
        injection h with h
        subst h
        rcases List.mem_append.mp hx with hx | hx
        · exact ⟨b, List.mem_cons_self, r, hb, hx⟩
        · obtain ⟨b', hb', r', hr', hx'⟩ := collect_mem g l more hr x hx
          exact ⟨b', List.mem_cons_of_mem _ hb', r', hr', hx'⟩

theorem pruneFs_placeholder (p path : String) : pruneFs p [placeholderField path] = [placeholderField path] := by
  rw [pruneFs_cons, pruneFs_nil]
  have : dropped p (placeholderField path).info = false := rfl
  simp only [this, Bool.false_eq_true, if_false]
  congr 1

/-- **One message**: pruning the collected blocks prunes the message - the `info` (in particular `oneOfNames`, `isEmpty`)
is unchanged, the placeholder of a message without declared fields is kept, sorting commutes with pruning. -/
theorem msgStep_prune (V : CfgView) (desc : MsgD) (isRoot : Bool) (path : String) (p : String) (fs : List Field) (m : Msg)
    (hoo : ∀ x ∈ fs, x.info.oneOfName = "" ∨ x.info.oneOfName ∈ oneOfNames desc)
    (h : msgStep V desc isRoot path (.ok fs) = .ok m) :
    msgStep V desc isRoot path (.ok (pruneFs p fs)) = .ok (prune p m) := by
  unfold msgStep at h ⊢
  cases hemp : desc.fields.isEmpty with
  | true =>
    simp only [hemp, if_true] at h ⊢
    injection h with h
    subst h
    simp only [prune, pruneFs_placeholder]
  | false =>
    simp only [hemp, Bool.false_eq_true, if_false] at h ⊢
    injection h with h
    subst h
    have hfields : (if V.sort = true then sortFieldsByName (pruneFs p fs) else pruneFs p fs) =
        pruneFs p (if V.sort = true then sortFieldsByName fs else fs) := by
      cases V.sort
      · rfl
      · simp only [if_true, pruneFs_sort]
    have hmem : ∀ x, x ∈ (if V.sort = true then sortFieldsByName fs else fs) → x ∈ fs := by
      intro x
      cases V.sort
      · exact id
      · exact (mem_sortFieldsByName x fs).mp
    have h1 : withPromotedOneOfs (oneOfNames desc) (if V.sort = true then sortFieldsByName fs else fs) = oneOfNames desc := by
      apply withPromoted_own
      intro x hx
      exact hoo x (hmem x hx)
    have h2 : withPromotedOneOfs (oneOfNames desc) (pruneFs p (if V.sort = true then sortFieldsByName fs else fs)) = oneOfNames desc := by
      apply withPromoted_own
      intro y hy
      obtain ⟨x, hx, rfl⟩ := mem_pruneFs hy
      rw [pruneF_info]
      exact hoo x (hmem x hx)
    simp only [prune, hfields, h1, h2]

/-! ## 6. the whole tree -/

theorem built_node (n : Nat) (V : CfgView) (req : Request) (ctx : MsgCtx) (f : FieldD) (keys : Keys)
    (goType : String) (isMap isRep hasComment : Bool) (r : List Field) (hemb : f.embed = false)
    (h : buildFieldCore n V req ctx f keys goType isMap isRep hasComment = .ok r) :
    ∀ x ∈ r, x.info.path = keys.path ∧ x.info.isPlaceholder = false ∧
      (x.info.oneOfName = "" ∨ x.info.oneOfName ∈ oneOfNames ctx.desc) ∧ x.info.parentIsOptionalEmbed = false := by
  cases n with
  | zero => rw [buildFieldCore_zero] at h; cases h
  | succ n =>
    rw [buildFieldCore_succ] at h
    exact coreStep_node V req ctx f keys goType isMap isRep hasComment _ _ r hemb h

theorem pruneFs_all_dropped (p : String) (r : List Field) (h : ∀ x ∈ r, dropped p x.info = true) : pruneFs p r = [] := by
  rw [pruneFs_eq, List.filter_eq_nil_iff.mpr, List.map_nil]
  intro x hx
  simp [h x hx]

theorem msgStep_error_ok (V : CfgView) (desc : MsgD) (isRoot : Bool) (path : String) (e : BuildError) (m : Msg)
    (h : msgStep V desc isRoot path (.error e) = .ok m) : desc.fields = [] := by
  unfold msgStep at h
  cases hf : desc.fields with
  | nil => rfl
  | cons a l => simp [hf] at h

/-- **Exclusion prunes the IR at every depth (view level).** `V'` excludes every occurrence whose path is `p` and agrees
with `V` at every other occurrence of the tree; no embedded fields. If the build under `V` succeeds with `m`, the build
under `V'` succeeds with `prune p m`. -/
theorem build_prune {V V' : CfgView} (hg : SameGlobals V V') (req : Request) (p : String)
    (hon : ∀ k : Keys, k.path = p → V'.excluded k = true)
    (hne : ∀ d ∈ reqMsgs req, ∀ f ∈ d.fields, f.embed = false) : ∀ n : Nat,
    (∀ desc isRoot path m, (∀ f ∈ desc.fields, f.embed = false) →
        (∀ k ∈ ctxKeys n req (ctxOf desc isRoot path), k.path ≠ p → AgreeAt V V' k) →
        buildMessage n V req desc isRoot path = .ok m →
        buildMessage n V' req desc isRoot path = .ok (prune p m)) ∧
    (∀ ctx f keys goType isMap isRep hasComment r, f.embed = false →
        (∀ k ∈ occKeys n req keys f.typeName isMap, k.path ≠ p → AgreeAt V V' k) →
        buildFieldCore n V req ctx f keys goType isMap isRep hasComment = .ok r →
        buildFieldCore n V' req ctx f keys goType isMap isRep hasComment = .ok (pruneFs p r)) := by
  intro n
  induction n with
  | zero =>
    constructor
    · intro desc isRoot path m _ _ h; rw [buildMessage_zero] at h; cases h
    · intro ctx f keys goType isMap isRep hc r _ _ h; rw [buildFieldCore_zero] at h; cases h
  | succ n ih =>
    obtain ⟨ihM, ihF⟩ := ih
    constructor
    · intro desc isRoot path m hemb hagree h
      rw [buildMessage_succ] at h ⊢
      rw [msgStep_globals hg]
      cases hc : collectFields (desc.fields.map fun f => fieldCall n V req (ctxOf desc isRoot path) f) with
      | error e =>
        rw [hc] at h
        have hnil := msgStep_error_ok V desc isRoot path e m h
        rw [hnil] at hc
        simp [collectFields] at hc
      | ok fs =>
        rw [hc] at h
        have hoo : ∀ x ∈ fs, x.info.oneOfName = "" ∨ x.info.oneOfName ∈ oneOfNames desc := by
          intro x hx
          obtain ⟨f, hf, r, hr, hxr⟩ := collect_mem _ desc.fields fs hc x hx
          exact (built_node n V req _ f _ _ _ _ _ r (hemb f hf) hr x hxr).2.2.1
        have hc' : collectFields (desc.fields.map fun f => fieldCall n V' req (ctxOf desc isRoot path) f) =
            .ok (pruneFs p fs) := by
          refine collect_prune p _ _ desc.fields fs ?_ hc
          intro f hf r hr
          simp only [fieldCall] at hr ⊢
          rw [goTypeOf_globals hg]
          exact ihF _ f _ _ _ _ _ r (hemb f hf) (fun k hk => hagree k (mem_ctxKeys hf hk)) hr
        rw [hc']
        exact msgStep_prune V desc isRoot path p fs m hoo h
    · intro ctx f keys goType isMap isRep hc r hemb hagree h
      by_cases hp : keys.path = p
      · rw [excluded_field_ok n V' req ctx f keys goType isMap isRep hc (hon keys hp)]
        rw [pruneFs_all_dropped p r]
        intro x hx
        obtain ⟨h1, h2, _⟩ := built_node (n + 1) V req ctx f keys goType isMap isRep hc r hemb h x hx
        simp [dropped, h1, h2, hp]
      · rw [buildFieldCore_succ] at h ⊢
        refine (coreStep_congr hg req ctx f keys goType isMap isRep hc (hagree keys (mem_occKeys_self ..) hp)
          _ _ _ _ (fun _ _ _ => rfl) (fun _ => rfl)).trans ?_
        refine coreStep_prune1 V req ctx f keys goType isMap isRep hc p hp hemb _ _ _ _ ?_ ?_ r h
        · intro hm d m hfind hb
          subst hm
          exact ihM d false keys.path m (hne d (findMessage_mem hfind))
            (fun k hk => hagree k (mem_occKeys_nested hfind hk)) hb
        · intro hm v vs hv
          subst hm
          have := ihF ctx f.mapValueField keys _ false false false (v :: vs) rfl
            (fun k hk => hagree k (mem_occKeys_value hk)) hv
          rw [mapValueGoType_globals hg, this, pruneFs_cons]
          have hv1 := (built_node n V req ctx f.mapValueField keys _ false false false (v :: vs) rfl hv v
            List.mem_cons_self).1
          have : dropped p v.info = false := by simp [dropped, hv1, hp]
          simp only [this, Bool.false_eq_true, if_false]
          exact ⟨_, rfl⟩

/-! ## 7. configuration level -/

/-- `p` addresses by path only (decidable): every occurrence of the tree that has `p` as its `Message.field` key also has
`p` as its path (as the declared fields of a root message do: `Root.f` is both) -/
def typeFree (p : String) (ks : List Keys) : Bool := ks.all fun k => k.typeName != p || k.path == p

theorem typeFree_mem {p : String} {ks : List Keys} (h : typeFree p ks = true) {k : Keys} (hk : k ∈ ks)
    (hp : k.path ≠ p) : k.typeName ≠ p := by
  simp only [typeFree, List.all_eq_true, Bool.or_eq_true, bne_iff_ne, ne_eq, beq_iff_eq] at h
  rcases h k hk with h | h
  · exact h
  · exact absurd h hp

/-- no embedded field among the fields of `desc` and of the messages of the request -/
def noEmbedFields (fs : List FieldD) : Bool := fs.all fun f => !f.embed
def NoEmbedReq (req : Request) : Bool := (reqMsgs req).all fun m => noEmbedFields m.fields

theorem noEmbedFields_spec {fs : List FieldD} (h : noEmbedFields fs = true) : ∀ f ∈ fs, f.embed = false := by
  intro f hf
  simp only [noEmbedFields, List.all_eq_true] at h
  simpa using h f hf

theorem noEmbedReq_spec {req : Request} (h : NoEmbedReq req = true) : ∀ d ∈ reqMsgs req, ∀ f ∈ d.fields, f.embed = false := by
  intro d hd
  simp only [NoEmbedReq, List.all_eq_true] at h
  exact noEmbedFields_spec (h d hd)

theorem noEmbed_split {req : Request} {root : MsgD} (h : NoEmbed req root = true) :
    noEmbedFields root.fields = true ∧ NoEmbedReq req = true := by
  simp only [NoEmbed, allFields, List.all_cons, Bool.and_eq_true] at h
  exact h

/-- **Exclusion prunes the IR at every depth (configuration level, any message context).**
`p` is one more entry of `exclude_fields`; `p` is not the `Message.field` key of any occurrence below the message
(path-only addressing), no field of the tree is embedded, and the build WITHOUT the exclusion succeeds with IR `m`.
Then the build WITH the exclusion succeeds, and its IR is `prune p m`: exactly the nodes whose recorded path is `p` are
removed, at every depth, and nothing else changes - not the `info` of any message (`oneOfNames`, `isEmpty`, …), not the
`info` / `mapVal` / `msg` of any surviving node, not the order. -/
theorem exclusion_prunes_ctx (cfg : Config) (p : String) (req : Request) (fuel : Nat) (desc : MsgD) (isRoot : Bool)
    (path : String) (m : Msg)
    (hne : noEmbedFields desc.fields = true) (hner : NoEmbedReq req = true)
    (htn : typeFree p (ctxKeys fuel req (ctxOf desc isRoot path)) = true)
    (h : buildMessage fuel (viewOf cfg) req desc isRoot path = .ok m) :
    buildMessage fuel (viewOf { cfg with excludeFields := p :: cfg.excludeFields }) req desc isRoot path =
      .ok (prune p m) := by
  refine (build_prune (viewOf_globals (differs_exclude cfg p)) req p ?_ (noEmbedReq_spec hner) fuel).1
    desc isRoot path m (noEmbedFields_spec hne) ?_ h
  · intro k hk
    show flagValue (p :: cfg.excludeFields) k = true
    rw [flagValue_cons]
    simp [keyed, hk]
  · intro k hk hp
    exact viewOf_agree (differs_exclude cfg p) k hp (typeFree_mem htn hk hp)

/-- **Exclusion prunes the IR at every depth** - the statement `PathUnique.exclusion_prunes_full` asks for (root message),
with `prune` in place of `pruneFields` (placeholders are kept). -/
theorem exclusion_prunes (cfg : Config) (p : String) (req : Request) (fuel : Nat) (desc : MsgD) (m : Msg)
    (hne : NoEmbed req desc = true)
    (htn : ∀ k ∈ ctxKeys fuel req (rootCtx desc), k.typeName ≠ p)
    (h : buildMessage fuel (viewOf cfg) req desc true "" = .ok m) :
    buildMessage fuel (viewOf { cfg with excludeFields := p :: cfg.excludeFields }) req desc true "" =
      .ok (prune p m) := by
  refine exclusion_prunes_ctx cfg p req fuel desc true "" m (noEmbed_split hne).1 (noEmbed_split hne).2 ?_ h
  simp only [typeFree, List.all_eq_true, Bool.or_eq_true, bne_iff_ne, ne_eq, beq_iff_eq]
  exact fun k hk => Or.inl (htn k hk)

/-- the generator's entry point for one selected root -/
theorem exclusion_prunes_root (cfg : Config) (p : String) (req : Request) (desc : MsgD) (m : Msg)
    (hne : NoEmbed req desc = true)
    (htn : typeFree p (ctxKeys (defaultFuel req) req (rootCtx desc)) = true)
    (h : buildRoot cfg req desc = .ok (some m)) :
    buildRoot { cfg with excludeFields := p :: cfg.excludeFields } req desc = .ok (some (prune p m)) := by
  unfold buildRoot at h ⊢
  cases hs : cfg.types.contains desc.name with
  | false =>
    simp only [hs, Bool.not_false, if_true] at h
    cases h
  | true =>
    simp only [hs, Bool.not_true, Bool.false_eq_true, if_false] at h ⊢
    cases hb : buildMessage (defaultFuel req) (viewOf cfg) req desc true "" with
    | error e => rw [hb] at h; cases h
    | ok m' =>
      rw [hb] at h
      injection h with h
      injection h with h
      subst h
      rw [exclusion_prunes_ctx cfg p req (defaultFuel req) desc true "" m' (noEmbed_split hne).1 (noEmbed_split hne).2 htn hb]

/-! ## 8. `prune` versus `PathUnique.pruneFields`; the open statement of PathUnique is false as it stands -/

mutual
/-- no placeholder node with recorded path `p`, at any depth -/
def noPlaceholderAtF (p : String) : Field → Bool
  | ⟨info, _, _, sub⟩ => !(info.isPlaceholder && info.path == p) && noPlaceholderAtFs p sub
def noPlaceholderAtFs (p : String) : List Field → Bool
  | [] => true
  | f :: fs => noPlaceholderAtF p f && noPlaceholderAtFs p fs
end

mutual
theorem pruneF_eq_pruneField (p : String) : ∀ f : Field, noPlaceholderAtF p f = true → pruneF p f = pruneField p f
  | ⟨info, mv, msg, sub⟩, h => by
    rw [noPlaceholderAtF, Bool.and_eq_true] at h
    rw [pruneF, pruneField, pruneFs_eq_pruneFields p sub h.2]
theorem pruneFs_eq_pruneFields (p : String) : ∀ fs : List Field, noPlaceholderAtFs p fs = true → pruneFs p fs = pruneFields p fs
  | [], _ => by rw [pruneFs, pruneFields]
  | f :: fs, h => by
    rw [noPlaceholderAtFs, Bool.and_eq_true] at h
    rw [pruneFs, pruneFields, pruneFs_eq_pruneFields p fs h.2, pruneF_eq_pruneField p f h.1]
    have hd : dropped p f.info = (f.info.path == p) := by
      obtain ⟨info, mv, msg, sub⟩ := f
      rw [noPlaceholderAtF, Bool.and_eq_true] at h
      have h1 := h.1.1
      simp only [dropped]
      cases hph : info.isPlaceholder
      · simp
      · simp only [hph, Bool.true_and, Bool.not_eq_true'] at h1
        simp [h1]
    rw [hd]
end

/-- `PathUnique.exclusion_prunes_full` **with the missing side condition**: no placeholder `….active` recorded under `p`
(then `prune` is `pruneFields`). -/
theorem exclusion_prunes_pruneFields (cfg : Config) (p : String) (req : Request) (fuel : Nat) (desc : MsgD) (m : Msg)
    (hne : NoEmbed req desc = true)
    (htn : ∀ k ∈ ctxKeys fuel req (rootCtx desc), k.typeName ≠ p)
    (hph : noPlaceholderAtFs p m.fields = true)
    (h : buildMessage fuel (viewOf cfg) req desc true "" = .ok m) :
    buildMessage fuel (viewOf { cfg with excludeFields := p :: cfg.excludeFields }) req desc true "" =
      .ok { m with fields := pruneFields p m.fields } := by
  rw [exclusion_prunes cfg p req fuel desc m hne htn h, prune, pruneFs_eq_pruneFields p _ hph]

/-! ### Boolean equality of IR trees (for `decide`) -/

mutual
def beqF : Field → Field → Bool
  | ⟨i, mv, ms, sub⟩, ⟨i', mv', ms', sub'⟩ => decide (i = i') && decide (mv = mv') && decide (ms = ms') && beqFs sub sub'
def beqFs : List Field → List Field → Bool
  | [], [] => true
  | a :: r, b :: r' => beqF a b && beqFs r r'
  | [], _ :: _ => false
  | _ :: _, [] => false
end

mutual
theorem beqF_sound : ∀ a b : Field, beqF a b = true → a = b
  | ⟨i, mv, ms, sub⟩, ⟨i', mv', ms', sub'⟩, h => by
    rw [beqF] at h
    simp only [Bool.and_eq_true, decide_eq_true_eq] at h
    obtain ⟨⟨⟨h1, h2⟩, h3⟩, h4⟩ := h
    rw [h1, h2, h3, beqFs_sound sub sub' h4]
theorem beqFs_sound : ∀ a b : List Field, beqFs a b = true → a = b
  | [], [], _ => rfl
  | a :: r, b :: r', h => by
    rw [beqFs] at h
    simp only [Bool.and_eq_true] at h
    rw [beqF_sound a b h.1, beqFs_sound r r' h.2]
  | [], _ :: _, h => by rw [beqFs] at h; cases h
  | _ :: _, [], h => by rw [beqFs] at h; cases h
end

def beqRes : Except BuildError Msg → Except BuildError Msg → Bool
  | .ok a, .ok b => decide (a.info = b.info) && beqFs a.fields b.fields
  | .error a, .error b => decide (a = b)
  | _, _ => false

theorem beqRes_sound : ∀ a b : Except BuildError Msg, beqRes a b = true → a = b
  | .ok ⟨i, fs⟩, .ok ⟨i', fs'⟩, h => by
    simp only [beqRes, Bool.and_eq_true, decide_eq_true_eq] at h
    rw [h.1, beqFs_sound _ _ h.2]
  | .error a, .error b, h => by
    simp only [beqRes, decide_eq_true_eq] at h
    rw [h]
  | .ok _, .error _, h => by simp [beqRes] at h
  | .error _, .ok _, h => by simp [beqRes] at h

theorem beqRes_false {a b : Except BuildError Msg} (h : beqRes a b = false) : a ≠ b := by
  intro e
  subst e
  have : beqRes a a = true := by
    cases a with
    | error e => simp [beqRes]
    | ok m =>
      have hrefl : ∀ (n : Nat) (l : List Field), Field.sizes l ≤ n → beqFs l l = true := by
        intro n
        induction n with
        | zero =>
          intro l hl
          cases l with
          | nil => rfl
          | cons x r =>
            obtain ⟨i, mv, ms, sub⟩ := x
            simp only [Field.sizes, Field.size] at hl
            omega
        | succ n ih =>
          intro l hl
          cases l with
          | nil => rfl
          | cons x r =>
            obtain ⟨i, mv, ms, sub⟩ := x
            simp only [Field.sizes, Field.size] at hl
            rw [beqFs, beqF]
            simp only [decide_true, Bool.true_and, Bool.and_eq_true]
            exact ⟨ih sub (by omega), ih r (by omega)⟩
      simp [beqRes, hrefl _ _ (Nat.le_refl _)]
  rw [this] at h
  cases h

/-- the outcome of a build, pruned -/
def pruneRes (p : String) : Except BuildError Msg → Except BuildError Msg
  | .ok m => .ok (prune p m)
  | .error e => .error e

/-! ## 8b. semantics: the converters of the pruned message (one level)

`fs` is the field list of the message that directly contains the dropped node(s); `keep` selects the surviving blocks.
`copyToFields` / `copyFromFields` of the surviving blocks succeed whenever the full list does, never write the
attribute / Go field of a dropped block, and leave the same value under every other attribute / Go field. -/

open PGT.OrderIndep in
/-- **CopyTo without the dropped blocks.** `D` contains the attribute names of the dropped blocks and no attribute name
of a surviving block. From start states that agree outside `D`: if the full list succeeds, the surviving blocks succeed,
and the two results agree outside `D`. -/
theorem copyToFields_drop (keep : Field → Bool) (D : List String) (obj : GoVal) (atys : Option (List (String × TfTy))) :
    ∀ (fs : List Field), (∀ f ∈ fs, keep f = false → f.info.nameSnake ∈ D) →
      (∀ f ∈ fs, keep f = true → f.info.nameSnake ∉ D) →
      ∀ (s s' s1 : ToSt), (∀ key, key ∉ D → s.attrs.lookup key = s'.attrs.lookup key) →
      copyToFields fs obj atys s = .ok s1 →
      ∃ s2, copyToFields (fs.filter keep) obj atys s' = .ok s2 ∧ ∀ key, key ∉ D → s1.attrs.lookup key = s2.attrs.lookup key
  | [], _, _, s, s', s1, hs, h => by
    simp only [copyToFields] at h
    injection h with h
    subst h
    exact ⟨s', by simp [copyToFields], hs⟩
  | f :: rest, hD, hK, s, s', s1, hs, h => by
    rw [copyToFields_cons] at h
    cases hf : copyToField f obj atys s with
    | panic w => rw [hf] at h; cases h
    | stuck w => rw [hf] at h; cases h
    | ok t =>
      rw [hf] at h
      simp only [obind] at h
      have hD' : ∀ g ∈ rest, keep g = false → g.info.nameSnake ∈ D := fun g hg => hD g (List.mem_cons_of_mem _ hg)
      have hK' : ∀ g ∈ rest, keep g = true → g.info.nameSnake ∉ D := fun g hg => hK g (List.mem_cons_of_mem _ hg)
      cases hk : keep f with
      | false =>
        rw [List.filter_cons_of_neg (by simp [hk])]
        refine copyToFields_drop keep D obj atys rest hD' hK' t s' s1 ?_ h
        intro key hkey
        have hne : key ≠ f.info.nameSnake := fun e => hkey (e ▸ hD f List.mem_cons_self hk)
        rw [copyToField_frame f obj atys s t hf key hne]
        exact hs key hkey
      | true =>
        rw [List.filter_cons_of_pos (by simp [hk]), copyToFields_cons]
        have hnD : f.info.nameSnake ∉ D := hK f List.mem_cons_self hk
        obtain ⟨a, ha⟩ := copyToField_nf f obj atys (s.attrs.lookup f.info.nameSnake)
        have h1 := ha s rfl
        have h2 := ha s' (hs _ hnD).symm
        rw [hf] at h1
        cases a with
        | panic w => simp [applyAct] at h1
        | stuck w => simp [applyAct] at h1
        | ok r =>
          obtain ⟨w, ds, hks⟩ := r
          simp only [applyAct, Outcome.ok.injEq] at h1
          rw [h2]
          simp only [applyAct, obind]
          refine copyToFields_drop keep D obj atys rest hD' hK' t _ s1 ?_ h
          intro key hkey
          rw [h1]
          exact lookup_upd_congr _ _ _ _ _ (hs key hkey)

/-- agreement of two targets outside the Go fields `D` -/
def AgreeOff (D : List String) (o o' : GoVal) : Prop :=
  (IsStruct o ↔ IsStruct o') ∧ ∀ name, name ∉ D → o.field? name = o'.field? name

open PGT.OrderIndep in
theorem agreeOff_applyWrites (D : List String) (ws : List (String × GoVal)) (o o' : GoVal) (h : AgreeOff D o o') :
    AgreeOff D (applyWrites ws o) (applyWrites ws o') := by
  refine ⟨(isStruct_applyWrites_iff ws o).trans (h.1.trans (isStruct_applyWrites_iff ws o').symm), fun name hn => ?_⟩
  by_cases hs : IsStruct o
  · exact applyWrites_field_congr ws o o' name hs (h.1.mp hs) (h.2 name hn)
  · rw [applyWrites_nonstruct ws o hs, applyWrites_nonstruct ws o' (fun h' => hs (h.1.mpr h'))]
    exact h.2 name hn

open PGT.OrderIndep in
theorem agreeOff_applyWrites_left (D : List String) (ws : List (String × GoVal)) (k : String) (hk : ∀ w ∈ ws, w.1 = k)
    (hkD : k ∈ D) (o o' : GoVal) (h : AgreeOff D o o') : AgreeOff D (applyWrites ws o) o' := by
  refine ⟨(isStruct_applyWrites_iff ws o).trans h.1, fun name hn => ?_⟩
  rw [applyWrites_other ws o name (not_mem_keys ws k name hk (fun e => hn (e ▸ hkD)))]
  exact h.2 name hn

open PGT.OrderIndep in
/-- **CopyFrom without the dropped blocks** (no children of nullable embedded messages). `D` contains the Go fields the
dropped blocks assign (`wk`: the field itself, or the holder of the group for a oneof branch). From targets that agree
outside `D`: if the full list succeeds, the surviving blocks succeed, and the results agree outside `D`. -/
theorem copyFromFields_drop (ov : List (String × String)) (keep : Field → Bool) (D : List String)
    (attrs : Option (List (String × TfVal))) :
    ∀ (fs : List Field), (∀ f ∈ fs, f.info.parentIsOptionalEmbed = false) →
      (∀ f ∈ fs, keep f = false → wk f.info ∈ D) →
      ∀ (s s' s1 : FromSt), AgreeOff D s.obj s'.obj → copyFromFields ov fs attrs s = .ok s1 →
      ∃ s2, copyFromFields ov (fs.filter keep) attrs s' = .ok s2 ∧ AgreeOff D s1.obj s2.obj
  | [], _, _, s, s', s1, hs, h => by
    simp only [copyFromFields] at h
    injection h with h
    subst h
    exact ⟨s', by simp [copyFromFields], hs⟩
  | f :: rest, hne, hD, s, s', s1, hs, h => by
    rw [copyFromFields_cons] at h
    obtain ⟨a, hpa, ha⟩ := blockF_nf ov f attrs (hne f List.mem_cons_self)
    rw [ha s] at h
    have hne' : ∀ g ∈ rest, g.info.parentIsOptionalEmbed = false := fun g hg => hne g (List.mem_cons_of_mem _ hg)
    have hD' : ∀ g ∈ rest, keep g = false → wk g.info ∈ D := fun g hg => hD g (List.mem_cons_of_mem _ hg)
    cases a with
    | panic w => simp [applyFAct, obind] at h
    | stuck w => simp [applyFAct, obind] at h
    | ok r =>
      obtain ⟨ws, dx, hx⟩ := r
      simp only [applyFAct, obind] at h
      obtain ⟨hws, _⟩ := hpa ws dx hx rfl
      cases hk : keep f with
      | false =>
        rw [List.filter_cons_of_neg (by simp [hk])]
        exact copyFromFields_drop ov keep D attrs rest hne' hD' _ s' s1
          (agreeOff_applyWrites_left D ws _ hws (hD f List.mem_cons_self hk) _ _ hs) h
      | true =>
        rw [List.filter_cons_of_pos (by simp [hk]), copyFromFields_cons, ha s']
        simp only [applyFAct, obind]
        exact copyFromFields_drop ov keep D attrs rest hne' hD' _ _ s1 (agreeOff_applyWrites D ws _ _ hs) h

/-! ### the same, for `prune` -/

mutual
/-- no node of the subtree is removed by `prune p` -/
def noDropF (p : String) : Field → Bool
  | ⟨info, _, _, sub⟩ => !dropped p info && noDropFs p sub
def noDropFs (p : String) : List Field → Bool
  | [] => true
  | f :: fs => noDropF p f && noDropFs p fs
end

mutual
theorem pruneF_id (p : String) : ∀ f : Field, noDropF p f = true → pruneF p f = f
  | ⟨info, mv, msg, sub⟩, h => by
    rw [noDropF, Bool.and_eq_true] at h
    rw [pruneF, pruneFs_id p sub h.2]
theorem pruneFs_id (p : String) : ∀ fs : List Field, noDropFs p fs = true → pruneFs p fs = fs
  | [], _ => by rw [pruneFs]
  | f :: fs, h => by
    rw [noDropFs, Bool.and_eq_true] at h
    have hd : dropped p f.info = false := by
      obtain ⟨info, mv, msg, sub⟩ := f
      have := h.1
      rw [noDropF, Bool.and_eq_true] at this
      simpa using this.1
    rw [pruneFs_cons, hd, pruneF_id p f h.1, pruneFs_id p fs h.2]
    simp
end

/-- the dropped nodes are all at THIS level: nothing is removed below a surviving node (decidable) -/
def levelOnly (p : String) (fs : List Field) : Bool := fs.all fun f => dropped p f.info || noDropFs p f.sub

theorem pruneFs_level {p : String} {fs : List Field} (h : levelOnly p fs = true) :
    pruneFs p fs = fs.filter fun f => !dropped p f.info := by
  rw [pruneFs_eq]
  have : ∀ f ∈ fs.filter (fun f => !dropped p f.info), pruneF p f = f := by
    intro f hf
    obtain ⟨hf1, hf2⟩ := List.mem_filter.mp hf
    simp only [levelOnly, List.all_eq_true, Bool.or_eq_true] at h
    have hd : dropped p f.info = false := by simpa using hf2
    rcases h f hf1 with h | h
    · rw [hd] at h; cases h
    · obtain ⟨info, mv, msg, sub⟩ := f
      rw [pruneF, pruneFs_id p sub h]
  rw [List.map_congr_left this, List.map_id']

/-- the attribute names of the dropped nodes of this level -/
def droppedAttrs (p : String) (fs : List Field) : List String :=
  (fs.filter fun f => dropped p f.info).map (·.info.nameSnake)

/-- the Go fields the CopyFrom blocks of the dropped nodes of this level assign -/
def droppedGo (p : String) (fs : List Field) : List String :=
  (fs.filter fun f => dropped p f.info).map fun f => OrderIndep.wk f.info

/-- no surviving node of this level shares its attribute name with a dropped one (decidable) -/
def attrsSeparate (p : String) (fs : List Field) : Bool :=
  fs.all fun f => dropped p f.info || !(droppedAttrs p fs).contains f.info.nameSnake

/-- **CopyTo blocks of a pruned field list** (any depth: `fs` is the field list of the message that contains the excluded
field): if the blocks of `fs` succeed from `st`, so do the blocks of `pruneFs p fs`; the attribute of the excluded field
is not touched (it holds what the target held before), every other attribute gets the same value. -/
theorem copyToFields_prune (p : String) (fs : List Field) (hl : levelOnly p fs = true) (hs : attrsSeparate p fs = true)
    (obj : GoVal) (atys : Option (List (String × TfTy))) (st s1 : ToSt) (h : copyToFields fs obj atys st = .ok s1) :
    ∃ s2, copyToFields (pruneFs p fs) obj atys st = .ok s2 ∧
      (∀ key, key ∉ droppedAttrs p fs → s2.attrs.lookup key = s1.attrs.lookup key) ∧
      (∀ key, key ∈ droppedAttrs p fs → s2.attrs.lookup key = st.attrs.lookup key) := by
  have hK : ∀ f ∈ fs, (!dropped p f.info) = true → f.info.nameSnake ∉ droppedAttrs p fs := by
    intro f hf hk
    simp only [attrsSeparate, List.all_eq_true, Bool.or_eq_true] at hs
    rcases hs f hf with h' | h'
    · simp [h'] at hk
    · simpa using h'
  obtain ⟨s2, h2, hag⟩ := copyToFields_drop (fun f => !dropped p f.info) (droppedAttrs p fs) obj atys fs
    (by
      intro f hf hk
      exact List.mem_map.mpr ⟨f, List.mem_filter.mpr ⟨hf, by simpa using hk⟩, rfl⟩)
    hK st st s1 (fun _ _ => rfl) h
  rw [pruneFs_level hl]
  refine ⟨s2, h2, fun key hk => (hag key hk).symm, fun key hk => ?_⟩
  refine copyToFields_frame _ obj atys st s2 h2 key ?_
  intro g hg e
  obtain ⟨hg1, hg2⟩ := List.mem_filter.mp hg
  exact hK g hg1 hg2 (e ▸ hk)

/-- the attribute map of the target object -/
def targetAttrs : TfVal → List (String × TfVal)
  | .obj _ _ attrs _ => attrs.getD []
  | _ => []

/-- **`Copy<T>ToTerraform` of the pruned message** (the excluded field is a field of `m` itself): whenever the converter
of `m` succeeds, the converter of `prune p m` succeeds on the same inputs; the returned object has the same `AttrTypes`,
under the attribute of the excluded field it holds what the target held, under every other attribute the same value. -/
theorem copyTo_prune (p : String) (m : Msg) (hl : levelOnly p m.fields = true) (hs : attrsSeparate p m.fields = true)
    (obj : GoVal) (tf : TfVal) (r1 : ToResult) (h : copyTo m obj tf = .ok r1) :
    ∃ r2, copyTo (prune p m) obj tf = .ok r2 ∧
      ∃ as1 as2 atys, r1.tf = .obj false false (some as1) atys ∧ r2.tf = .obj false false (some as2) atys ∧
        (∀ key, key ∉ droppedAttrs p m.fields → as2.lookup key = as1.lookup key) ∧
        (∀ key, key ∈ droppedAttrs p m.fields → as2.lookup key = (targetAttrs tf).lookup key) := by
  unfold copyTo at h ⊢
  cases tf with
  | obj u n attrs atys =>
    simp only [] at h ⊢
    cases hf : copyToFields m.fields obj atys { attrs := attrs.getD [] } with
    | panic w => rw [hf] at h; cases h
    | stuck w => rw [hf] at h; cases h
    | ok s1 =>
      rw [hf] at h
      injection h with h
      subst h
      obtain ⟨s2, h2, ha, hb⟩ := copyToFields_prune p m.fields hl hs obj atys _ s1 hf
      simp only [prune, h2]
      exact ⟨_, rfl, s1.attrs, s2.attrs, atys, rfl, rfl, ha, hb⟩
  | prim _ _ _ _ => cases h
  | list _ _ _ _ => cases h
  | map _ _ _ _ => cases h
  | nilv => cases h
  | foreign _ => cases h

/-- **CopyFrom blocks of a pruned field list** (no children of nullable embedded messages - as in every IR built from a
tree without embedded fields, `built_plain`): if the blocks of `fs` succeed, so do those of `pruneFs p fs`, with the same
value in every Go field other than the one the excluded field's block assigns (the field, or the holder of its oneof
group); a Go field that no surviving block assigns keeps the value of the target. -/
theorem copyFromFields_prune (ov : List (String × String)) (p : String) (fs : List Field) (hl : levelOnly p fs = true)
    (hne : ∀ f ∈ fs, f.info.parentIsOptionalEmbed = false)
    (attrs : Option (List (String × TfVal))) (st s1 : FromSt) (h : copyFromFields ov fs attrs st = .ok s1) :
    ∃ s2, copyFromFields ov (pruneFs p fs) attrs st = .ok s2 ∧
      (∀ name, name ∉ droppedGo p fs → s2.obj.field? name = s1.obj.field? name) ∧ (IsStruct s2.obj ↔ IsStruct s1.obj) ∧
      (IsStruct st.obj → ∀ name, (∀ g ∈ fs, dropped p g.info = false → name ∉ writeKeys g.info) →
        s2.obj.field? name = st.obj.field? name) := by
  obtain ⟨s2, h2, hag⟩ := copyFromFields_drop ov (fun f => !dropped p f.info) (droppedGo p fs) attrs fs hne
    (by
      intro f hf hk
      exact List.mem_map.mpr ⟨f, List.mem_filter.mpr ⟨hf, by simpa using hk⟩, rfl⟩)
    st st s1 ⟨Iff.rfl, fun _ _ => rfl⟩ h
  rw [pruneFs_level hl]
  refine ⟨s2, h2, fun name hn => (hag.2 name hn).symm, hag.1.symm, fun hst name hn => ?_⟩
  refine (fromFields_frame ov _ attrs st s2 hst h2).2 name ?_
  intro g hg
  obtain ⟨hg1, hg2⟩ := List.mem_filter.mp hg
  exact hn g hg1 (by simpa using hg2)

/-- **`Copy<T>FromTerraform` of the pruned message.** -/
theorem copyFrom_prune (ov : List (String × String)) (p : String) (m : Msg) (hl : levelOnly p m.fields = true)
    (hne : ∀ f ∈ m.fields, f.info.parentIsOptionalEmbed = false)
    (tf : TfVal) (obj : GoVal) (r1 : FromResult) (h : copyFrom ov m tf obj = .ok r1) :
    ∃ r2, copyFrom ov (prune p m) tf obj = .ok r2 ∧
      (∀ name, name ∉ droppedGo p m.fields → r2.obj.field? name = r1.obj.field? name) ∧
      (IsStruct r2.obj ↔ IsStruct r1.obj) ∧
      (IsStruct obj → ∀ name, (∀ g ∈ m.fields, dropped p g.info = false → name ∉ writeKeys g.info) →
        r2.obj.field? name = (resetOneOfs m.info.oneOfNames obj).field? name) := by
  unfold copyFrom at h ⊢
  cases tf with
  | obj u n attrs atys =>
    simp only [] at h ⊢
    cases hf : copyFromFields ov m.fields attrs { obj := resetOneOfs m.info.oneOfNames obj } with
    | panic w => rw [hf] at h; cases h
    | stuck w => rw [hf] at h; cases h
    | ok s1 =>
      rw [hf] at h
      injection h with h
      subst h
      obtain ⟨s2, h2, ha, hb, hc⟩ := copyFromFields_prune ov p m.fields hl hne attrs _ s1 hf
      simp only [prune, h2]
      exact ⟨_, rfl, ha, hb, fun ho => hc (isStruct_resetOneOfs _ _ ho)⟩
  | prim _ _ _ _ => cases h
  | list _ _ _ _ => cases h
  | map _ _ _ _ => cases h
  | nilv => cases h
  | foreign _ => cases h

/-! ### the schema of the pruned message -/

theorem schemaAttrs_eq_map : ∀ fs : List Field, schemaAttrs fs = fs.map schemaField
  | [] => by rw [schemaAttrs]; rfl
  | f :: fs => by rw [schemaAttrs, schemaAttrs_eq_map fs]; rfl

theorem schemaField_name (f : Field) : (schemaField f).1 = f.info.nameSnake := by
  obtain ⟨info, mv, msg, sub⟩ := f
  rw [schemaField]

/-- the schema entry of a surviving node is computed from the same `info` / `mapVal` / `msg`, over the pruned children -/
theorem schemaField_pruneF (p : String) (info : FieldInfo) (mv : Option FieldInfo) (msg : Option MsgInfo) (sub : List Field) :
    schemaField (pruneF p ⟨info, mv, msg, sub⟩) = schemaField ⟨info, mv, msg, pruneFs p sub⟩ := by
  rw [pruneF]

/-- **schema, any depth**: the attributes of the pruned field list are those of the surviving nodes, in order, each
computed over its pruned children -/
theorem schemaAttrs_pruneFs (p : String) (fs : List Field) :
    schemaAttrs (pruneFs p fs) = (fs.filter fun f => !dropped p f.info).map fun f => schemaField (pruneF p f) := by
  rw [schemaAttrs_eq_map, pruneFs_eq, List.map_map]
  rfl

/-- **schema, the level of the excluded field**: the entries of the surviving fields are literally those of the
unpruned schema; the entry of the excluded field is gone -/
theorem schemaAttrs_prune_level (p : String) (fs : List Field) (hl : levelOnly p fs = true) :
    schemaAttrs (pruneFs p fs) = (fs.filter fun f => !dropped p f.info).map schemaField := by
  rw [pruneFs_level hl, schemaAttrs_eq_map]

/-- **the excluded field has no attribute in the schema** (any depth: `fs` is the field list that contains it) -/
theorem schema_excluded_absent (p : String) (fs : List Field) (hs : attrsSeparate p fs = true) :
    ∀ k ∈ droppedAttrs p fs, (schemaAttrs (pruneFs p fs)).lookup k = none := by
  intro k hk
  rw [schemaAttrs_pruneFs, List.lookup_eq_none_iff]
  intro e he
  obtain ⟨f, hf, rfl⟩ := List.mem_map.mp he
  obtain ⟨hf1, hf2⟩ := List.mem_filter.mp hf
  rw [schemaField_name, pruneF_info]
  simp only [attrsSeparate, List.all_eq_true, Bool.or_eq_true] at hs
  rcases hs f hf1 with h | h
  · simp [h] at hf2
  · simp only [bne_iff_ne, ne_eq]
    intro e
    subst e
    simp [hk] at h

/-- … and for the root message: `GenSchema<T>` of the pruned message -/
theorem schemaOf_prune (p : String) (m : Msg) (hl : levelOnly p m.fields = true) :
    schemaOf (prune p m) = (m.fields.filter fun f => !dropped p f.info).map schemaField ++ m.info.injected.map injectedAttr := by
  unfold schemaOf prune
  rw [schemaAttrs_prune_level p m.fields hl]

/-! ### every IR built from a tree without embedded fields is free of children of nullable embedded messages -/

mutual
def plainF : Field → Bool
  | ⟨info, _, _, sub⟩ => !info.parentIsOptionalEmbed && plainFs sub
def plainFs : List Field → Bool
  | [] => true
  | f :: fs => plainF f && plainFs fs
end

theorem plainFs_iff : ∀ fs : List Field, plainFs fs = true ↔ ∀ f ∈ fs, plainF f = true
  | [] => by rw [plainFs]; simp
  | f :: fs => by rw [plainFs, Bool.and_eq_true, plainFs_iff fs]; simp

theorem plainFs_top {fs : List Field} (h : plainFs fs = true) : ∀ f ∈ fs, f.info.parentIsOptionalEmbed = false := by
  intro f hf
  have := (plainFs_iff fs).mp h f hf
  obtain ⟨info, mv, msg, sub⟩ := f
  rw [plainF, Bool.and_eq_true] at this
  simpa using this.1

theorem plainF_sub {f : Field} (h : plainF f = true) : plainFs f.sub = true := by
  obtain ⟨info, mv, msg, sub⟩ := f
  rw [plainF, Bool.and_eq_true] at h
  exact h.2

theorem plainFs_append {a b : List Field} (ha : plainFs a = true) (hb : plainFs b = true) : plainFs (a ++ b) = true := by
  rw [plainFs_iff] at ha hb ⊢
  intro f hf
  rcases List.mem_append.mp hf with h | h
  · exact ha f h
  · exact hb f h

/-- the children recorded in a node come from the nested message or from the map value -/
theorem coreStep_plain (V : CfgView) (req : Request) (ctx : MsgCtx) (f : FieldD) (keys : Keys)
    (goType : String) (isMap isRep hasComment : Bool) (hemb : f.embed = false)
    (bm : MsgD → Except BuildError Msg) (bv : Except BuildError (List Field))
    (hbm : ∀ d m, req.findMessage f.typeName = some d → bm d = .ok m → plainFs m.fields = true)
    (hbv : ∀ r, bv = .ok r → plainFs r = true)
    (r : List Field) (h : coreStep V req ctx f keys goType isMap isRep hasComment bm bv = .ok r) :
    plainFs r = true := by
  have hnode := coreStep_node V req ctx f keys goType isMap isRep hasComment bm bv r hemb h
  have key : ∀ x, r = [x] → plainFs x.sub = true → plainFs r = true := by
    intro x hx hsub
    subst hx
    have h4 := (hnode x List.mem_cons_self).2.2.2
    obtain ⟨info, mv, msg, sub⟩ := x
    rw [plainFs, plainF, plainFs]
    simp only at h4 hsub
    simp [h4, hsub]
  unfold coreStep at h
  cases hex : V.excluded keys with
  | true =>
    simp only [hex, if_true] at h
    injection h with h; subst h; rw [plainFs]
  | false =>
    cases htf : getTerraformType V f isMap isRep goType keys.path with
    | error e => simp only [hex, htf] at h; cases h
    | ok tf =>
      cases hc : (tf.isMessage && !isMap) with
      | true =>
        have hmap : isMap = false := by cases isMap <;> simp_all
        subst hmap
        cases hfind : req.findMessage f.typeName with
        | none => simp only [hex, htf, hc, hfind] at h; cases h
        | some d =>
          cases hb : bm d with
          | error e => simp only [hex, htf, hc, hfind, hb] at h; cases h
          | ok m =>
            simp only [hex, htf, hc, hfind, hb, hemb, Bool.and_false, Bool.false_eq_true, if_false] at h
            injection h with h
            exact key _ h.symm (hbm d m hfind hb)
      | false =>
        cases isMap with
        | false =>
          simp only [hex, htf, hc, hemb, Bool.and_false, Bool.false_eq_true, if_false] at h
          injection h with h
          exact key _ h.symm (by rw [plainFs])
        | true =>
          by_cases hk : scalarGoType f.mapKey = "string"
          · cases hv : bv with
            | error e => simp [hex, htf, hk, hv] at h
            | ok l =>
              cases l with
              | nil => simp [hex, htf, hk, hv] at h
              | cons v vs =>
                have hpv := hbv _ hv
                simp only [hex, htf, hc, hk, hv, hemb, Bool.and_false, Bool.false_eq_true, if_false] at h
                injection h with h
                have hvs : plainFs v.sub = true := plainF_sub ((plainFs_iff _).mp hpv v List.mem_cons_self)
                exact key _ h.symm hvs
          · simp [hex, htf, hk] at h

theorem collect_plain {β} (g : β → Except BuildError (List Field)) (l : List β) (fs : List Field)
    (hg : ∀ b ∈ l, ∀ r, g b = .ok r → plainFs r = true) (h : collectFields (l.map g) = .ok fs) : plainFs fs = true := by
  rw [plainFs_iff]
  intro x hx
  obtain ⟨b, hb, r, hr, hxr⟩ := collect_mem g l fs h x hx
  exact (plainFs_iff r).mp (hg b hb r hr) x hxr

/-- **every node of an IR built from a tree without embedded fields has `parentIsOptionalEmbed = false`** -/
theorem built_plain (V : CfgView) (req : Request) (hne : ∀ d ∈ reqMsgs req, ∀ f ∈ d.fields, f.embed = false) : ∀ n : Nat,
    (∀ desc isRoot path m, (∀ f ∈ desc.fields, f.embed = false) →
        buildMessage n V req desc isRoot path = .ok m → plainFs m.fields = true) ∧
    (∀ ctx f keys goType isMap isRep hasComment r, f.embed = false →
        buildFieldCore n V req ctx f keys goType isMap isRep hasComment = .ok r → plainFs r = true) := by
  intro n
  induction n with
  | zero =>
    constructor
    · intro desc isRoot path m _ h; rw [buildMessage_zero] at h; cases h
    · intro ctx f keys goType isMap isRep hc r _ h; rw [buildFieldCore_zero] at h; cases h
  | succ n ih =>
    obtain ⟨ihM, ihF⟩ := ih
    constructor
    · intro desc isRoot path m hemb h
      rw [buildMessage_succ] at h
      unfold msgStep at h
      cases hemp : desc.fields.isEmpty with
      | true =>
        simp only [hemp, if_true] at h
        injection h with h
        subst h
        rfl
      | false =>
        simp only [hemp, Bool.false_eq_true, if_false] at h
        cases hc : collectFields (desc.fields.map fun f => fieldCall n V req (ctxOf desc isRoot path) f) with
        | error e => simp [hc] at h
        | ok fs =>
          simp only [hc] at h
          injection h with h
          subst h
          have hfs : plainFs fs = true :=
            collect_plain _ desc.fields fs (fun f hf r hr => ihF _ f _ _ _ _ _ r (hemb f hf) hr) hc
          show plainFs (if V.sort = true then sortFieldsByName fs else fs) = true
          cases V.sort
          · exact hfs
          · simp only [if_true]
            rw [plainFs_iff] at hfs ⊢
            exact fun x hx => hfs x ((mem_sortFieldsByName x fs).mp hx)
    · intro ctx f keys goType isMap isRep hc r hemb h
      rw [buildFieldCore_succ] at h
      refine coreStep_plain V req ctx f keys goType isMap isRep hc hemb _ _ ?_ ?_ r h
      · intro d m hfind hb
        exact ihM d false keys.path m (hne d (findMessage_mem hfind)) hb
      · intro r' hr'
        exact ihF ctx f.mapValueField keys _ false false false r' rfl hr'

/-! ### above the level of the excluded field: the same block, over the pruned recursive call -/

/-- the CopyTo block of a surviving node is the same block function (`copyToFieldWith`, same `info`, same `msg`), over
the blocks of the pruned children -/
theorem copyToField_pruneF (p : String) (info : FieldInfo) (mv : Option FieldInfo) (msg : Option MsgInfo) (sub : List Field)
    (obj : GoVal) (atys : Option (List (String × TfTy))) (st : ToSt) :
    copyToField (pruneF p ⟨info, mv, msg, sub⟩) obj atys st =
      copyToFieldWith (fun o a s => copyToFields (pruneFs p sub) o a s) info msg (pruneFs p sub).isEmpty obj atys st := by
  rw [pruneF, copyToField]

/-- the CopyFrom block of a surviving node is the same block function, over the blocks of the pruned children -/
theorem copyFromField_pruneF (ov : List (String × String)) (p : String) (info : FieldInfo) (mv : Option FieldInfo)
    (msg : Option MsgInfo) (sub : List Field) (attrs : Option (List (String × TfVal))) (st : FromSt) :
    copyFromField ov (pruneF p ⟨info, mv, msg, sub⟩) attrs st =
      copyFromFieldWith
        (fun as s => copyFromFields ov (pruneFs p sub) as
            { s with obj := resetOneOfs ((msg.map (·.oneOfNames)).getD []) s.obj })
        ov info mv msg attrs st := by
  rw [pruneF, copyFromField]

/-! ### end to end, for an excluded field of the root message -/

theorem buildRoot_inv {cfg : Config} {req : Request} {desc : MsgD} {m : Msg} (h : buildRoot cfg req desc = .ok (some m)) :
    buildMessage (defaultFuel req) (viewOf cfg) req desc true "" = .ok m := by
  unfold buildRoot at h
  split at h
  · cases h
  · split at h
    · cases h
    · rename_i m' hm
      injection h with h
      injection h with h
      subst h
      exact hm

/-- **C11 for a field of a root message.** `cfg'` = `cfg` plus the path `p` in `exclude_fields`; no embedded fields in
the tree; `p` addresses by path only; `m` is the IR of the root without the exclusion; the excluded node(s) are fields of
`m` itself (`levelOnly`, decidable on `m`), and no surviving field of `m` shares their attribute name (`attrsSeparate`,
decidable on `m`). Then
* the root builds with the exclusion, to `prune p m`;
* `GenSchema`: the attributes are those of the surviving fields, literally unchanged, and the excluded attribute is absent;
* `CopyToTerraform`: succeeds whenever the converter without the exclusion does, returns the same value under every
  attribute other than the excluded one, and leaves the excluded attribute as the target had it;
* `CopyFromTerraform`: succeeds whenever the converter without the exclusion does, with the same value in every Go field
  other than the excluded one (or the holder of its oneof group). -/
theorem exclusion_surgical_root (cfg : Config) (p : String) (req : Request) (desc : MsgD) (m : Msg)
    (hne : NoEmbed req desc = true)
    (htn : typeFree p (ctxKeys (defaultFuel req) req (rootCtx desc)) = true)
    (hb : buildRoot cfg req desc = .ok (some m))
    (hl : levelOnly p m.fields = true) (hs : attrsSeparate p m.fields = true) :
    buildRoot { cfg with excludeFields := p :: cfg.excludeFields } req desc = .ok (some (prune p m)) ∧
    schemaOf (prune p m) =
      (m.fields.filter fun f => !dropped p f.info).map schemaField ++ m.info.injected.map injectedAttr ∧
    (∀ k ∈ droppedAttrs p m.fields, (schemaAttrs (prune p m).fields).lookup k = none) ∧
    (∀ obj tf r1, copyTo m obj tf = .ok r1 →
      ∃ r2, copyTo (prune p m) obj tf = .ok r2 ∧
        ∃ as1 as2 atys, r1.tf = .obj false false (some as1) atys ∧ r2.tf = .obj false false (some as2) atys ∧
          (∀ key, key ∉ droppedAttrs p m.fields → as2.lookup key = as1.lookup key) ∧
          (∀ key, key ∈ droppedAttrs p m.fields → as2.lookup key = (targetAttrs tf).lookup key)) ∧
    (∀ ov tf obj r1, copyFrom ov m tf obj = .ok r1 →
      ∃ r2, copyFrom ov (prune p m) tf obj = .ok r2 ∧
        (∀ name, name ∉ droppedGo p m.fields → r2.obj.field? name = r1.obj.field? name) ∧
        (IsStruct r2.obj ↔ IsStruct r1.obj) ∧
        (IsStruct obj → ∀ name, (∀ g ∈ m.fields, dropped p g.info = false → name ∉ writeKeys g.info) →
          r2.obj.field? name = (resetOneOfs m.info.oneOfNames obj).field? name)) := by
  have hplain : ∀ f ∈ m.fields, f.info.parentIsOptionalEmbed = false :=
    plainFs_top ((built_plain (viewOf cfg) req (noEmbedReq_spec (noEmbed_split hne).2) (defaultFuel req)).1
      desc true "" m (noEmbedFields_spec (noEmbed_split hne).1) (buildRoot_inv hb))
  exact ⟨exclusion_prunes_root cfg p req desc m hne htn hb, schemaOf_prune p m hl,
    schema_excluded_absent p m.fields hs,
    fun obj tf r1 h => copyTo_prune p m hl hs obj tf r1 h,
    fun ov tf obj r1 h => copyFrom_prune ov p m hl hplain tf obj r1 h⟩

/-! ## 8c. the behavioural statement at every depth

For an excluded field BELOW a surviving field `f` of `m`, the value the converters produce under `f` differs - exactly in
the excluded attribute / Go field, some levels down. The relations `OffV D` / `OffG D` say "equal except under the object
attributes / struct fields named in `D`, at any depth"; `D` is instantiated with the attribute names (Go fields) of the
removed nodes. The proof composes the statement at the level of the excluded node with a congruence of the block
functions `copyToFieldWith` / `copyFromFieldWith` in their recursive call (`copyToFieldWith_rel`, `fieldWith_frel`), by
mutual induction over the IR (`copyToFields_deep`, `copyFromFields_deep`). -/

/-- Terraform values that agree except under the object attributes named in `D`, at any depth -/
inductive OffV (D : List String) : TfVal → TfVal → Prop
  | refl (v : TfVal) : OffV D v v
  | obj (u n : Bool) (as as' : List (String × TfVal)) (t : Option (List (String × TfTy)))
      (hdom : ∀ key, key ∉ D → (as.lookup key).isSome = (as'.lookup key).isSome)
      (hval : ∀ key v v', key ∉ D → as.lookup key = some v → as'.lookup key = some v' → OffV D v v') :
      OffV D (.obj u n (some as) t) (.obj u n (some as') t)
  | list (u n : Bool) (es es' : List TfVal) (t : Option TfTy) (hlen : es.length = es'.length)
      (hval : ∀ (i : Nat) v v', es[i]? = some v → es'[i]? = some v' → OffV D v v') :
      OffV D (.list u n (some es) t) (.list u n (some es') t)
  | map (u n : Bool) (es es' : List (String × TfVal)) (t : Option TfTy)
      (hdom : ∀ key, (es.lookup key).isSome = (es'.lookup key).isSome)
      (hval : ∀ key v v', es.lookup key = some v → es'.lookup key = some v' → OffV D v v') :
      OffV D (.map u n (some es) t) (.map u n (some es') t)

mutual
/-- the attribute names of the nodes `prune p` removes, at any depth -/
def allDroppedAttrsF (p : String) : Field → List String
  | ⟨_, _, _, sub⟩ => allDroppedAttrs p sub
def allDroppedAttrs (p : String) : List Field → List String
  | [] => []
  | f :: fs => (if dropped p f.info then [f.info.nameSnake] else allDroppedAttrsF p f) ++ allDroppedAttrs p fs
end

/-- Go values that agree except in the struct fields named in `D`, at any depth -/
inductive OffG (D : List String) : GoVal → GoVal → Prop
  | refl (v : GoVal) : OffG D v v
  | struct (fs fs' : List (String × GoVal))
      (hdom : ∀ name, name ∉ D → (fs.lookup name).isSome = (fs'.lookup name).isSome)
      (hval : ∀ name v v', name ∉ D → fs.lookup name = some v → fs'.lookup name = some v' → OffG D v v') :
      OffG D (.struct fs) (.struct fs')
  | ptr (v v' : GoVal) (h : OffG D v v') : OffG D (.ptr (some v)) (.ptr (some v'))
  | slice (es es' : List GoVal) (hlen : es.length = es'.length)
      (hval : ∀ (i : Nat) v v', es[i]? = some v → es'[i]? = some v' → OffG D v v') :
      OffG D (.slice (some es)) (.slice (some es'))
  | map (es es' : List (String × GoVal))
      (hdom : ∀ key, (es.lookup key).isSome = (es'.lookup key).isSome)
      (hval : ∀ key v v', es.lookup key = some v → es'.lookup key = some v' → OffG D v v') :
      OffG D (.map (some es)) (.map (some es'))
  | iface (w f : String) (v v' : GoVal) (h : OffG D v v') : OffG D (.iface (some (w, f, v))) (.iface (some (w, f, v')))

mutual
/-- the Go fields the CopyFrom blocks of the removed nodes assign, at any depth -/
def allDroppedGoF (p : String) : Field → List String
  | ⟨_, _, _, sub⟩ => allDroppedGo p sub
def allDroppedGo (p : String) : List Field → List String
  | [] => []
  | f :: fs => (if dropped p f.info then [OrderIndep.wk f.info] else allDroppedGoF p f) ++ allDroppedGo p fs
end

/-! ### CopyTo -/

def AttrsOff (D : List String) (A A' : List (String × TfVal)) : Prop :=
  (∀ key, key ∉ D → (A.lookup key).isSome = (A'.lookup key).isSome) ∧
  (∀ key v v', key ∉ D → A.lookup key = some v → A'.lookup key = some v' → OffV D v v')

def ListOff (D : List String) (es es' : List TfVal) : Prop :=
  es.length = es'.length ∧ ∀ (i : Nat) v v', es[i]? = some v → es'[i]? = some v' → OffV D v v'

def MapOff (D : List String) (es es' : List (String × TfVal)) : Prop :=
  (∀ key, (es.lookup key).isSome = (es'.lookup key).isSome) ∧
  (∀ key v v', es.lookup key = some v → es'.lookup key = some v' → OffV D v v')

theorem AttrsOff.refl (D : List String) (A : List (String × TfVal)) : AttrsOff D A A :=
  ⟨fun _ _ => rfl, fun _ v v' _ h h' => by rw [h] at h'; injection h' with h'; subst h'; exact .refl v⟩

theorem ListOff.refl (D : List String) (es : List TfVal) : ListOff D es es :=
  ⟨rfl, fun _ v v' h h' => by rw [h] at h'; injection h' with h'; subst h'; exact .refl v⟩

theorem MapOff.refl (D : List String) (es : List (String × TfVal)) : MapOff D es es :=
  ⟨fun _ => rfl, fun _ v v' h h' => by rw [h] at h'; injection h' with h'; subst h'; exact .refl v⟩

theorem ListOff.set {D : List String} {es es' : List TfVal} (h : ListOff D es es') (k : Nat) {v v' : TfVal}
    (hv : OffV D v v') : ListOff D (setIdx es k v) (setIdx es' k v') := by
  refine ⟨by simp [setIdx, h.1], fun i w w' hw hw' => ?_⟩
  simp only [setIdx, List.getElem?_set] at hw hw'
  by_cases e : k = i
  · subst e
    by_cases hl : k < es.length
    · have hl' : k < es'.length := h.1 ▸ hl
      simp only [hl, hl', if_true] at hw hw'
      injection hw with hw; injection hw' with hw'
      subst hw hw'
      exact hv
    · have hl' : ¬ k < es'.length := h.1 ▸ hl
      simp only [hl, hl', if_true, if_false] at hw hw'
      cases hw
  · simp only [e, if_false] at hw hw'
    exact h.2 i w w' hw hw'

theorem MapOff.set {D : List String} {es es' : List (String × TfVal)} (h : MapOff D es es') (k : String) {v v' : TfVal}
    (hv : OffV D v v') : MapOff D (setKey k v es) (setKey k v' es') := by
  refine ⟨fun key => ?_, fun key w w' hw hw' => ?_⟩
  · by_cases e : key = k
    · subst e; rw [lookup_setKey_same, lookup_setKey_same]; rfl
    · rw [lookup_setKey_other _ _ _ e, lookup_setKey_other _ _ _ e]; exact h.1 key
  · by_cases e : key = k
    · subst e
      rw [lookup_setKey_same] at hw hw'
      injection hw with hw; injection hw' with hw'
      subst hw hw'
      exact hv
    · rw [lookup_setKey_other _ _ _ e] at hw hw'
      exact h.2 key w w' hw hw'

theorem AttrsOff.set {D : List String} {A A' : List (String × TfVal)} (h : AttrsOff D A A') (k : String) {v v' : TfVal}
    (hv : OffV D v v') : AttrsOff D (setKey k v A) (setKey k v' A') := by
  refine ⟨fun key hk => ?_, fun key w w' hk hw hw' => ?_⟩
  · by_cases e : key = k
    · subst e; rw [lookup_setKey_same, lookup_setKey_same]; rfl
    · rw [lookup_setKey_other _ _ _ e, lookup_setKey_other _ _ _ e]; exact h.1 key hk
  · by_cases e : key = k
    · subst e
      rw [lookup_setKey_same] at hw hw'
      injection hw with hw; injection hw' with hw'
      subst hw hw'
      exact hv
    · rw [lookup_setKey_other _ _ _ e] at hw hw'
      exact h.2 key w w' hk hw hw'

/-- the recursive calls are related: from the same attribute map (whatever the logs), if `rec` succeeds so does `rec'`,
with attribute maps that agree outside `D` -/
def RecRel (D : List String) (rec rec' : ToRec) : Prop :=
  ∀ o a (s1 s2 t1 : ToSt), s1.attrs = s2.attrs → rec o a s1 = .ok t1 →
    ∃ t2, rec' o a s2 = .ok t2 ∧ AttrsOff D t1.attrs t2.attrs

theorem objBody_rel (D : List String) (rec rec' : ToRec) (hrec : RecRel D rec rec') (info : FieldInfo)
    (msg : Option MsgInfo) (se : Bool) (cur : Option TfVal) (oty : Option (List (String × TfTy))) (x : Outcome GoVal)
    (d1 d2 : List Diag) (h1 h2 : List HookCall) (r1 : TfVal × List Diag × List HookCall)
    (h : objBody rec info msg se cur oty x d1 h1 = .ok r1) :
    ∃ r2, objBody rec' info msg se cur oty x d2 h2 = .ok r2 ∧ OffV D r1.1 r2.1 := by
  unfold objBody at h ⊢
  split at h
  rename_i null attrs atys hm
  clear hm
  have leaf : ∀ o, (match rec o atys ⟨attrs, d1, h1⟩ with
        | .ok st => Outcome.ok (TfVal.obj false null (some st.attrs) atys, st.diags, st.hooks)
        | .panic w => .panic w
        | .stuck w => .stuck w) = .ok r1 →
      ∃ r2, (match rec' o atys ⟨attrs, d2, h2⟩ with
        | .ok st => Outcome.ok (TfVal.obj false null (some st.attrs) atys, st.diags, st.hooks)
        | .panic w => .panic w
        | .stuck w => .stuck w) = .ok r2 ∧ OffV D r1.1 r2.1 := by
    intro o hh
    cases hr : rec o atys ⟨attrs, d1, h1⟩ with
    | panic w => rw [hr] at hh; cases hh
    | stuck w => rw [hr] at hh; cases hh
    | ok t1 =>
      rw [hr] at hh
      injection hh with hh
      subst hh
      obtain ⟨t2, ht2, hoff⟩ := hrec o atys ⟨attrs, d1, h1⟩ ⟨attrs, d2, h2⟩ t1 rfl hr
      rw [ht2]
      exact ⟨_, rfl, .obj false null _ _ atys hoff.1 hoff.2⟩
  have same : ∀ (v : TfVal), Outcome.ok (v, d1, h1) = Outcome.ok r1 →
      ∃ r2, Outcome.ok (v, d2, h2) = Outcome.ok r2 ∧ OffV D r1.1 r2.1 := by
    intro v hh
    injection hh with hh
    subst hh
    exact ⟨_, rfl, .refl _⟩
  by_cases c1 : (!info.isNullable && (se || isEmptyMsg msg)) = true
  · simp only [c1, if_true] at h ⊢
    by_cases c2 : se = true
    · simp only [c2, if_true] at h ⊢
      exact same _ h
    · simp only [c2, Bool.false_eq_true, if_false] at h ⊢
      exact leaf _ h
  · simp only [c1] at h ⊢
    cases x with
    | panic w => cases h
    | stuck w => cases h
    | ok xv =>
      simp only [] at h ⊢
      by_cases c3 : info.isNullable = true
      · simp only [c3, if_true] at h ⊢
        cases xv with
        | ptr o =>
          cases o with
          | none => exact same _ h
          | some s =>
            simp only [] at h ⊢
            by_cases c2 : se = true
            · simp only [c2, if_true] at h ⊢
              exact same _ h
            · simp only [c2, Bool.false_eq_true, if_false] at h ⊢
              exact leaf _ h
        | _ => cases h
      · simp only [c3] at h ⊢
        cases xv with
        | struct fs =>
          simp only [] at h ⊢
          by_cases c2 : se = true
          · simp only [c2, if_true] at h ⊢
            exact same _ h
          · simp only [c2, Bool.false_eq_true, if_false] at h ⊢
            exact leaf _ h
        | _ => cases h

/-- element bodies that produce related values, whatever the logs -/
def BodyRel (D : List String) (body body' : ElemBody) : Prop :=
  ∀ a d1 h1 d2 h2 r1, body a d1 h1 = .ok r1 → ∃ r2, body' a d2 h2 = .ok r2 ∧ OffV D r1.1 r2.1

theorem copyToElemsList_rel (D : List String) (body body' : ElemBody) (hb : BodyRel D body body') :
    ∀ (elems : List GoVal) (k : Nat) (acc acc' : List TfVal) (d1 d2 : List Diag) (h1 h2 : List HookCall)
      (r1 : List TfVal × List Diag × List HookCall), ListOff D acc acc' →
      copyToElemsList body elems k acc d1 h1 = .ok r1 →
      ∃ r2, copyToElemsList body' elems k acc' d2 h2 = .ok r2 ∧ ListOff D r1.1 r2.1
  | [], k, acc, acc', d1, d2, h1, h2, r1, hacc, h => by
    simp only [copyToElemsList] at h ⊢
    injection h with h
    subst h
    exact ⟨_, rfl, hacc⟩
  | a :: rest, k, acc, acc', d1, d2, h1, h2, r1, hacc, h => by
    simp only [copyToElemsList] at h ⊢
    cases hx : body a d1 h1 with
    | panic w => rw [hx] at h; cases h
    | stuck w => rw [hx] at h; cases h
    | ok x1 =>
      obtain ⟨x2, hx2, hv⟩ := hb a d1 h1 d2 h2 x1 hx
      rw [hx] at h
      rw [hx2]
      obtain ⟨v1, ds1, hs1⟩ := x1
      obtain ⟨v2, ds2, hs2⟩ := x2
      simp only [] at h ⊢
      exact copyToElemsList_rel D body body' hb rest (k + 1) _ _ ds1 ds2 hs1 hs2 r1 (hacc.set k hv) h

theorem copyToElemsMap_rel (D : List String) (body body' : ElemBody) (hb : BodyRel D body body') :
    ∀ (elems : List (String × GoVal)) (acc acc' : List (String × TfVal)) (d1 d2 : List Diag) (h1 h2 : List HookCall)
      (r1 : List (String × TfVal) × List Diag × List HookCall), MapOff D acc acc' →
      copyToElemsMap body elems acc d1 h1 = .ok r1 →
      ∃ r2, copyToElemsMap body' elems acc' d2 h2 = .ok r2 ∧ MapOff D r1.1 r2.1
  | [], acc, acc', d1, d2, h1, h2, r1, hacc, h => by
    simp only [copyToElemsMap] at h ⊢
    injection h with h
    subst h
    exact ⟨_, rfl, hacc⟩
  | (k, a) :: rest, acc, acc', d1, d2, h1, h2, r1, hacc, h => by
    simp only [copyToElemsMap] at h ⊢
    cases hx : body a d1 h1 with
    | panic w => rw [hx] at h; cases h
    | stuck w => rw [hx] at h; cases h
    | ok x1 =>
      obtain ⟨x2, hx2, hv⟩ := hb a d1 h1 d2 h2 x1 hx
      rw [hx] at h
      rw [hx2]
      obtain ⟨v1, ds1, hs1⟩ := x1
      obtain ⟨v2, ds2, hs2⟩ := x2
      simp only [] at h ⊢
      exact copyToElemsMap_rel D body body' hb rest _ _ ds1 ds2 hs1 hs2 r1 (hacc.set k hv) h

theorem elemBodyOf_rel (D : List String) (rec rec' : ToRec) (hrec : RecRel D rec rec') (info : FieldInfo)
    (msg : Option MsgInfo) (se : Bool) (obj0 : GoVal) (ety : Option TfTy) (oty : Option (List (String × TfTy))) :
    BodyRel D (elemBodyOf rec info msg se obj0 ety oty) (elemBodyOf rec' info msg se obj0 ety oty) := by
  intro a d1 h1 d2 h2 r1 h
  unfold elemBodyOf at h ⊢
  by_cases hk : (info.kind == Kind.objectList || info.kind == Kind.objectMap) = true
  · simp only [hk, if_true] at h ⊢
    exact objBody_rel D rec rec' hrec info msg se none oty (.ok a) d1 d2 h1 h2 r1 h
  · simp only [hk, Bool.false_eq_true, if_false] at h ⊢
    unfold primElemBody at h ⊢
    cases hp : primBody info obj0 none ety (.ok a) with
    | panic w => rw [hp] at h; cases h
    | stuck w => rw [hp] at h; cases h
    | ok x =>
      rw [hp] at h
      obtain ⟨v, ds⟩ := x
      simp only [] at h ⊢
      injection h with h
      subst h
      exact ⟨_, rfl, .refl _⟩

/-- two runs of a block (full IR from `s1`, pruned IR from `s2`): if the first succeeds so does the second, and both
leave the attribute map alone or store related values under `k` -/
def ActRel (D : List String) (k : String) (s1 s2 : ToSt) (r1 r2 : Outcome ToSt) : Prop :=
  ∀ t1, r1 = .ok t1 → ∃ t2, r2 = .ok t2 ∧
    ((t1.attrs = s1.attrs ∧ t2.attrs = s2.attrs) ∨
     ∃ v v', OffV D v v' ∧ t1.attrs = setKey k v s1.attrs ∧ t2.attrs = setKey k v' s2.attrs)

theorem actRel_same (D : List String) (k : String) (s1 s2 t1 t2 : ToSt) (e1 : t1.attrs = s1.attrs) (e2 : t2.attrs = s2.attrs) :
    ActRel D k s1 s2 (.ok t1) (.ok t2) := by
  intro t h; injection h with h; subst h; exact ⟨t2, rfl, Or.inl ⟨e1, e2⟩⟩

theorem actRel_set (D : List String) (k : String) (s1 s2 t1 t2 : ToSt) (v v' : TfVal) (hv : OffV D v v')
    (e1 : t1.attrs = setKey k v s1.attrs) (e2 : t2.attrs = setKey k v' s2.attrs) :
    ActRel D k s1 s2 (.ok t1) (.ok t2) := by
  intro t h; injection h with h; subst h; exact ⟨t2, rfl, Or.inr ⟨v, v', hv, e1, e2⟩⟩

theorem actRel_panic (D : List String) (k : String) (s1 s2 : ToSt) (w : String) (r : Outcome ToSt) :
    ActRel D k s1 s2 (.panic w) r := by intro t h; cases h
theorem actRel_stuck (D : List String) (k : String) (s1 s2 : ToSt) (w : String) (r : Outcome ToSt) :
    ActRel D k s1 s2 (.stuck w) r := by intro t h; cases h

theorem listOrMapBody_rel (D : List String) (rec rec' : ToRec) (hrec : RecRel D rec rec') (info : FieldInfo)
    (msg : Option MsgInfo) (se : Bool) (obj0 : GoVal) (cur : Option TfVal) (ety : Option TfTy) (src : GoVal) (s1 s2 : ToSt) :
    ActRel D info.nameSnake s1 s2 (listOrMapBody rec info msg se obj0 cur ety src s1)
      (listOrMapBody rec' info msg se obj0 cur ety src s2) := by
  unfold listOrMapBody
  simp only []
  by_cases hr : info.isRepeated = true
  · simp only [hr, if_true]
    split
    · exact actRel_set D _ _ _ _ _ _ _ (.refl _) rfl rfl
    · rename_i elems _
      generalize reuseList cur _ ety = c
      cases elemObjTy (info.kind == Kind.objectList || info.kind == Kind.objectMap) ety with
      | panic w => exact actRel_panic D _ _ _ w _
      | stuck w => exact actRel_stuck D _ _ _ w _
      | ok oty =>
        simp only []
        by_cases hc : curIsElemKind info cur = true
        · simp only [hc, if_true]
          exact actRel_stuck D _ _ _ _ _
        · simp only [hc]
          have hh := copyToElemsList_rel D _ _ (elemBodyOf_rel D rec rec' hrec info msg se obj0 ety oty) elems 0 c.2.1 c.2.1
            s1.diags s2.diags s1.hooks s2.hooks
          generalize copyToElemsList (elemBodyOf rec info msg se obj0 ety oty) elems 0 c.2.1 s1.diags s1.hooks = r1 at hh ⊢
          generalize copyToElemsList (elemBodyOf rec' info msg se obj0 ety oty) elems 0 c.2.1 s2.diags s2.hooks = r2 at hh ⊢
          cases r1 with
          | panic w => exact actRel_panic D _ _ _ w _
          | stuck w => exact actRel_stuck D _ _ _ w _
          | ok x1 =>
            obtain ⟨x2, e2, hl⟩ := hh x1 (ListOff.refl D _) rfl
            subst e2
            obtain ⟨v1, ds1, hs1⟩ := x1
            obtain ⟨v2, ds2, hs2⟩ := x2
            exact actRel_set D _ _ _ _ _ _ _ (.list false _ v1 v2 c.2.2 hl.1 hl.2) rfl rfl
  · simp only [hr]
    generalize reuseMap cur ety = c
    cases src with
    | map o =>
      cases o with
      | none => exact actRel_set D _ _ _ _ _ _ _ (.refl _) rfl rfl
      | some elems =>
        simp only []
        cases elemObjTy (info.kind == Kind.objectList || info.kind == Kind.objectMap) ety with
        | panic w => exact actRel_panic D _ _ _ w _
        | stuck w => exact actRel_stuck D _ _ _ w _
        | ok oty =>
          simp only []
          by_cases hc : curIsElemKind info cur = true
          · simp only [hc, if_true]
            exact actRel_stuck D _ _ _ _ _
          · simp only [hc]
            have hh := copyToElemsMap_rel D _ _ (elemBodyOf_rel D rec rec' hrec info msg se obj0 ety oty) elems c.2.1 c.2.1
              s1.diags s2.diags s1.hooks s2.hooks
            generalize copyToElemsMap (elemBodyOf rec info msg se obj0 ety oty) elems c.2.1 s1.diags s1.hooks = r1 at hh ⊢
            generalize copyToElemsMap (elemBodyOf rec' info msg se obj0 ety oty) elems c.2.1 s2.diags s2.hooks = r2 at hh ⊢
            cases r1 with
            | panic w => exact actRel_panic D _ _ _ w _
            | stuck w => exact actRel_stuck D _ _ _ w _
            | ok x1 =>
              obtain ⟨x2, e2, hl⟩ := hh x1 (MapOff.refl D _) rfl
              subst e2
              obtain ⟨v1, ds1, hs1⟩ := x1
              obtain ⟨v2, ds2, hs2⟩ := x2
              exact actRel_set D _ _ _ _ _ _ _ (.map false _ v1 v2 c.2.2 hl.1 hl.2) rfl rfl
    | _ => exact actRel_set D _ _ _ _ _ _ _ (.refl _) rfl rfl

/-- **congruence of a CopyTo block in its recursive call**: related recursive calls, start states with the same value
under the block's own attribute name -/
theorem copyToFieldWith_rel (D : List String) (rec rec' : ToRec) (hrec : RecRel D rec rec') (info : FieldInfo)
    (msg : Option MsgInfo) (se : Bool) (obj0 : GoVal) (atys : Option (List (String × TfTy))) (s1 s2 : ToSt)
    (hcur : s1.attrs.lookup info.nameSnake = s2.attrs.lookup info.nameSnake) :
    ActRel D info.nameSnake s1 s2 (copyToFieldWith rec info msg se obj0 atys s1)
      (copyToFieldWith rec' info msg se obj0 atys s2) := by
  unfold copyToFieldWith
  simp only [hcur]
  generalize List.lookup info.nameSnake s2.attrs = cur
  cases List.lookup info.nameSnake (atys.getD []) with
  | none => exact actRel_same D _ _ _ _ _ rfl rfl
  | some a =>
    simp only []
    cases info.kind with
    | primitive =>
      simp only []
      cases primBody info (oneOfShadow info obj0) cur (some a) (readField info (oneOfShadow info obj0)) with
      | ok r => obtain ⟨v, ds⟩ := r; exact actRel_set D _ _ _ _ _ v v (.refl _) rfl rfl
      | panic w => exact actRel_panic D _ _ _ w _
      | stuck w => exact actRel_stuck D _ _ _ w _
    | object =>
      simp only []
      cases a with
      | obj oty =>
        simp only []
        have hh := objBody_rel D rec rec' hrec info msg se cur oty (readField info (oneOfShadow info obj0))
          s1.diags s2.diags s1.hooks s2.hooks
        generalize objBody rec info msg se cur oty _ s1.diags s1.hooks = r1 at hh ⊢
        generalize objBody rec' info msg se cur oty _ s2.diags s2.hooks = r2 at hh ⊢
        cases r1 with
        | panic w => exact actRel_panic D _ _ _ w _
        | stuck w => exact actRel_stuck D _ _ _ w _
        | ok x1 =>
          obtain ⟨x2, e2, hv⟩ := hh x1 rfl
          subst e2
          obtain ⟨v1, ds1, hs1⟩ := x1
          obtain ⟨v2, ds2, hs2⟩ := x2
          exact actRel_set D _ _ _ _ _ v1 v2 hv rfl rfl
      | _ => exact actRel_same D _ _ _ _ _ rfl rfl
    | custom =>
      simp only []
      cases readField info obj0 with
      | ok x =>
        simp only []
        cases hookTo info.isRepeated x with
        | some v => exact actRel_set D _ _ _ _ _ v v (.refl _) rfl rfl
        | none => exact actRel_stuck D _ _ _ _ _
      | panic w => exact actRel_panic D _ _ _ w _
      | stuck w => exact actRel_stuck D _ _ _ w _
    | _ =>
      simp only []
      split
      · exact actRel_same D _ _ _ _ _ rfl rfl
      · cases readField info obj0 with
        | ok src => exact listOrMapBody_rel D rec rec' hrec info msg se obj0 cur _ src s1 s2
        | panic w => exact actRel_panic D _ _ _ w _
        | stuck w => exact actRel_stuck D _ _ _ w _

/-- attribute names pairwise distinct -/
def distinctNames : List Field → Bool
  | [] => true
  | f :: r => r.all (fun g => g.info.nameSnake != f.info.nameSnake) && distinctNames r

mutual
/-- side conditions at every depth below a surviving node: the attribute names of the children are pairwise distinct, and
the nested message does not lose its last field (the emitted code branches on "the nested message has no fields") -/
def deepOkF (p : String) : Field → Bool
  | ⟨_, _, _, sub⟩ => ((pruneFs p sub).isEmpty == sub.isEmpty) && distinctNames sub && deepOkFs p sub
def deepOkFs (p : String) : List Field → Bool
  | [] => true
  | f :: fs => (dropped p f.info || deepOkF p f) && deepOkFs p fs
end

theorem AttrsOff.congr_left {D : List String} {A1 A1' A2 : List (String × TfVal)}
    (he : ∀ key, key ∉ D → A1'.lookup key = A1.lookup key) (h : AttrsOff D A1 A2) : AttrsOff D A1' A2 :=
  ⟨fun key hk => by rw [he key hk]; exact h.1 key hk, fun key v v' hk hv hv' => h.2 key v v' hk (by rw [← he key hk]; exact hv) hv'⟩

open PGT.OrderIndep in
mutual
/-- **CopyTo blocks of a pruned field list, excluded field at any depth** -/
theorem copyToFields_deep (D : List String) (p : String) : ∀ (fs : List Field), distinctNames fs = true → deepOkFs p fs = true →
    (∀ x ∈ allDroppedAttrs p fs, x ∈ D) →
    ∀ (obj : GoVal) (atys : Option (List (String × TfTy))) (s1 s2 t1 : ToSt), AttrsOff D s1.attrs s2.attrs →
    (∀ g ∈ fs, s1.attrs.lookup g.info.nameSnake = s2.attrs.lookup g.info.nameSnake) →
    copyToFields fs obj atys s1 = .ok t1 →
    ∃ t2, copyToFields (pruneFs p fs) obj atys s2 = .ok t2 ∧ AttrsOff D t1.attrs t2.attrs
  | [], _, _, _, obj, atys, s1, s2, t1, hs, _, h => by
    simp only [copyToFields] at h
    injection h with h
    subst h
    rw [pruneFs_nil]
    exact ⟨s2, by simp [copyToFields], hs⟩
  | f :: rest, hdn, hok, hD, obj, atys, s1, s2, t1, hs, hl, h => by
    rw [distinctNames, Bool.and_eq_true] at hdn
    rw [deepOkFs, Bool.and_eq_true] at hok
    have hne : ∀ g ∈ rest, g.info.nameSnake ≠ f.info.nameSnake := by
      intro g hg
      have := List.all_eq_true.mp hdn.1 g hg
      simpa using this
    rw [allDroppedAttrs] at hD
    have hDrest : ∀ x ∈ allDroppedAttrs p rest, x ∈ D := fun x hx => hD x (List.mem_append_right _ hx)
    rw [copyToFields_cons] at h
    cases hf : copyToField f obj atys s1 with
    | panic w => rw [hf] at h; cases h
    | stuck w => rw [hf] at h; cases h
    | ok u1 =>
      rw [hf] at h
      simp only [obind] at h
      rw [pruneFs_cons]
      cases hd : dropped p f.info with
      | true =>
        simp only [if_true]
        have hkD : f.info.nameSnake ∈ D := hD _ (List.mem_append_left _ (by simp [hd]))
        refine copyToFields_deep D p rest hdn.2 hok.2 hDrest obj atys u1 s2 t1 ?_ ?_ h
        · refine AttrsOff.congr_left (fun key hk => ?_) hs
          exact copyToField_frame f obj atys s1 u1 hf key (fun e => hk (e ▸ hkD))
        · intro g hg
          rw [copyToField_frame f obj atys s1 u1 hf _ (hne g hg)]
          exact hl g (List.mem_cons_of_mem _ hg)
      | false =>
        simp only [Bool.false_eq_true, if_false]
        rw [copyToFields_cons]
        have hokf : deepOkF p f = true := by
          rcases Bool.or_eq_true _ _ |>.mp hok.1 with h' | h'
          · rw [hd] at h'; cases h'
          · exact h'
        have hDf : ∀ x ∈ allDroppedAttrsF p f, x ∈ D := fun x hx => hD x (List.mem_append_left _ (by simpa [hd] using hx))
        obtain ⟨u2, hu2, hcase⟩ := copyToField_deep D p f hokf hDf obj atys s1 s2 (hl f List.mem_cons_self) u1 hf
        rw [hu2]
        simp only [obind]
        refine copyToFields_deep D p rest hdn.2 hok.2 hDrest obj atys u1 u2 t1 ?_ ?_ h
        · rcases hcase with ⟨e1, e2⟩ | ⟨v, v', hv, e1, e2⟩
          · rw [e1, e2]; exact hs
          · rw [e1, e2]; exact hs.set _ hv
        · intro g hg
          have hgl := hl g (List.mem_cons_of_mem _ hg)
          rcases hcase with ⟨e1, e2⟩ | ⟨v, v', hv, e1, e2⟩
          · rw [e1, e2]; exact hgl
          · rw [e1, e2, lookup_setKey_other _ _ _ (hne g hg), lookup_setKey_other _ _ _ (hne g hg)]; exact hgl
/-- the block of a surviving node against the block of its pruned version -/
theorem copyToField_deep (D : List String) (p : String) : ∀ (f : Field), deepOkF p f = true →
    (∀ x ∈ allDroppedAttrsF p f, x ∈ D) →
    ∀ (obj : GoVal) (atys : Option (List (String × TfTy))) (s1 s2 : ToSt),
    s1.attrs.lookup f.info.nameSnake = s2.attrs.lookup f.info.nameSnake →
    ActRel D f.info.nameSnake s1 s2 (copyToField f obj atys s1) (copyToField (pruneF p f) obj atys s2)
  | ⟨info, mv, msg, sub⟩, hok, hD, obj, atys, s1, s2, hcur => by
    rw [deepOkF, Bool.and_eq_true, Bool.and_eq_true] at hok
    rw [allDroppedAttrsF] at hD
    have hse : (pruneFs p sub).isEmpty = sub.isEmpty := by simpa using hok.1.1
    rw [copyToField_pruneF, copyToField, hse]
    refine copyToFieldWith_rel D _ _ ?_ info msg sub.isEmpty obj atys s1 s2 hcur
    intro o a t1 t2 u1 he hu
    exact copyToFields_deep D p sub hok.1.2 hok.2 hD o a t1 t2 u1 (he ▸ AttrsOff.refl D _) (fun g _ => by rw [he]) hu
end


/-- **`Copy<T>ToTerraform` of the pruned message, excluded field at any depth.** Attribute names pairwise distinct at
every level that is visited, and no nested message loses its last field (`deepOkFs`; both decidable on the IR). Whenever
the converter of `m` succeeds, the converter of `prune p m` succeeds on the same inputs, and the two returned objects
agree except under the attributes of the removed nodes. -/
theorem copyTo_prune_deep (p : String) (m : Msg) (obj : GoVal) (tf : TfVal) (r1 : ToResult)
    (hdn : distinctNames m.fields = true) (hok : deepOkFs p m.fields = true) (h : copyTo m obj tf = .ok r1) :
    ∃ r2, copyTo (prune p m) obj tf = .ok r2 ∧ OffV (allDroppedAttrs p m.fields) r1.tf r2.tf := by
  unfold copyTo at h ⊢
  cases tf with
  | obj u n attrs atys =>
    simp only [] at h ⊢
    cases hf : copyToFields m.fields obj atys { attrs := attrs.getD [] } with
    | panic w => rw [hf] at h; cases h
    | stuck w => rw [hf] at h; cases h
    | ok s1 =>
      rw [hf] at h
      injection h with h
      subst h
      obtain ⟨s2, h2, hoff⟩ := copyToFields_deep (allDroppedAttrs p m.fields) p m.fields hdn hok (fun _ hx => hx) obj atys
        _ _ s1 (AttrsOff.refl _ _) (fun _ _ => rfl) hf
      simp only [prune, h2]
      exact ⟨_, rfl, .obj false false _ _ atys hoff.1 hoff.2⟩
  | prim _ _ _ _ => cases h
  | list _ _ _ _ => cases h
  | map _ _ _ _ => cases h
  | nilv => cases h
  | foreign _ => cases h

/-! ### CopyFrom -/

def ListOffG (D : List String) (es es' : List GoVal) : Prop :=
  es.length = es'.length ∧ ∀ (i : Nat) v v', es[i]? = some v → es'[i]? = some v' → OffG D v v'

def MapOffG (D : List String) (es es' : List (String × GoVal)) : Prop :=
  (∀ key, (es.lookup key).isSome = (es'.lookup key).isSome) ∧
  (∀ key v v', es.lookup key = some v → es'.lookup key = some v' → OffG D v v')

theorem ListOffG.refl (D : List String) (es : List GoVal) : ListOffG D es es :=
  ⟨rfl, fun _ v v' h h' => by rw [h] at h'; injection h' with h'; subst h'; exact .refl v⟩

theorem MapOffG.refl (D : List String) (es : List (String × GoVal)) : MapOffG D es es :=
  ⟨fun _ => rfl, fun _ v v' h h' => by rw [h] at h'; injection h' with h'; subst h'; exact .refl v⟩

theorem ListOffG.set {D : List String} {es es' : List GoVal} (h : ListOffG D es es') (k : Nat) {v v' : GoVal}
    (hv : OffG D v v') : ListOffG D (es.set k v) (es'.set k v') := by
  refine ⟨by simp [h.1], fun i w w' hw hw' => ?_⟩
  simp only [List.getElem?_set] at hw hw'
  by_cases e : k = i
  · subst e
    by_cases hl : k < es.length
    · have hl' : k < es'.length := h.1 ▸ hl
      simp only [hl, hl', if_true] at hw hw'
      injection hw with hw; injection hw' with hw'
      subst hw hw'
      exact hv
    · have hl' : ¬ k < es'.length := h.1 ▸ hl
      simp only [hl, hl', if_true, if_false] at hw hw'
      cases hw
  · simp only [e, if_false] at hw hw'
    exact h.2 i w w' hw hw'

theorem MapOffG.set {D : List String} {es es' : List (String × GoVal)} (h : MapOffG D es es') (k : String) {v v' : GoVal}
    (hv : OffG D v v') : MapOffG D (setKey k v es) (setKey k v' es') := by
  refine ⟨fun key => ?_, fun key w w' hw hw' => ?_⟩
  · by_cases e : key = k
    · subst e; rw [lookup_setKey_same, lookup_setKey_same]; rfl
    · rw [lookup_setKey_other _ _ _ e, lookup_setKey_other _ _ _ e]; exact h.1 key
  · by_cases e : key = k
    · subst e
      rw [lookup_setKey_same] at hw hw'
      injection hw with hw; injection hw' with hw'
      subst hw hw'
      exact hv
    · rw [lookup_setKey_other _ _ _ e] at hw hw'
      exact h.2 key w w' hw hw'

/-- assigning related values to the same Go field of related targets -/
theorem OffG.setField {D : List String} {o o' : GoVal} (h : OffG D o o') (k : String) {y y' : GoVal} (hy : OffG D y y') :
    OffG D (o.setField k y) (o'.setField k y') := by
  have key : ∀ fs fs' : List (String × GoVal),
      (∀ name, name ∉ D → (fs.lookup name).isSome = (fs'.lookup name).isSome) →
      (∀ name v v', name ∉ D → fs.lookup name = some v → fs'.lookup name = some v' → OffG D v v') →
      OffG D (GoVal.struct (setKey k y fs)) (GoVal.struct (setKey k y' fs')) := by
    intro fs fs' hdom hval
    refine .struct _ _ (fun name hn => ?_) (fun name v v' hn hv hv' => ?_)
    · by_cases e : name = k
      · subst e; rw [lookup_setKey_same, lookup_setKey_same]; rfl
      · rw [lookup_setKey_other _ _ _ e, lookup_setKey_other _ _ _ e]; exact hdom name hn
    · by_cases e : name = k
      · subst e
        rw [lookup_setKey_same] at hv hv'
        injection hv with hv; injection hv' with hv'
        subst hv hv'
        exact hy
      · rw [lookup_setKey_other _ _ _ e] at hv hv'
        exact hval name v v' hn hv hv'
  cases h with
  | refl =>
    cases o with
    | struct fs =>
      exact key fs fs (fun _ _ => rfl) (fun _ v v' _ h h' => by rw [h] at h'; injection h' with h'; subst h'; exact .refl v)
    | _ => exact .refl _
  | struct fs fs' hdom hval => exact key fs fs' hdom hval
  | ptr v v' h => exact .ptr v v' h
  | slice es es' hl hv => exact .slice es es' hl hv
  | map es es' hd hv => exact .map es es' hd hv
  | iface w f v v' h => exact .iface w f v v' h

/-- assigning a Go field named in `D` on one side only -/
theorem OffG.setField_left {D : List String} {o o' : GoVal} (h : OffG D o o') (k : String) (hk : k ∈ D) (y : GoVal) :
    OffG D (o.setField k y) o' := by
  have key : ∀ fs fs' : List (String × GoVal),
      (∀ name, name ∉ D → (fs.lookup name).isSome = (fs'.lookup name).isSome) →
      (∀ name v v', name ∉ D → fs.lookup name = some v → fs'.lookup name = some v' → OffG D v v') →
      OffG D (GoVal.struct (setKey k y fs)) (GoVal.struct fs') := by
    intro fs fs' hdom hval
    refine .struct _ _ (fun name hn => ?_) (fun name v v' hn hv hv' => ?_)
    · have e : name ≠ k := fun e => hn (e ▸ hk)
      rw [lookup_setKey_other _ _ _ e]; exact hdom name hn
    · have e : name ≠ k := fun e => hn (e ▸ hk)
      rw [lookup_setKey_other _ _ _ e] at hv
      exact hval name v v' hn hv hv'
  cases h with
  | refl =>
    cases o with
    | struct fs =>
      exact key fs fs (fun _ _ => rfl) (fun _ v v' _ h h' => by rw [h] at h'; injection h' with h'; subst h'; exact .refl v)
    | _ => exact .refl _
  | struct fs fs' hdom hval => exact key fs fs' hdom hval
  | ptr v v' h => exact .ptr v v' h
  | slice es es' hl hv => exact .slice es es' hl hv
  | map es es' hd hv => exact .map es es' hd hv
  | iface w f v v' h => exact .iface w f v v' h

/-- the recursive calls are related: on a fresh struct (whatever the logs), if `rec` succeeds so does `rec'`, and the
structs they fill agree outside `D` -/
def FRecRel (D : List String) (rec rec' : FromRec) : Prop :=
  ∀ as d1 h1 d2 h2 (t1 : FromSt), rec as { obj := .struct [], diags := d1, hooks := h1 } = .ok t1 →
    ∃ t2, rec' as { obj := .struct [], diags := d2, hooks := h2 } = .ok t2 ∧ OffG D t1.obj t2.obj

def OptOffG (D : List String) : Option GoVal → Option GoVal → Prop
  | none, none => True
  | some a, some b => OffG D a b
  | _, _ => False

abbrev FBody := TfVal → List Diag → List HookCall → Outcome (Option GoVal × List Diag × List HookCall)

def FBodyRel (D : List String) (body body' : FBody) : Prop :=
  ∀ e d1 h1 d2 h2 r1, body e d1 h1 = .ok r1 → ∃ r2, body' e d2 h2 = .ok r2 ∧ OptOffG D r1.1 r2.1

theorem fromElemsList_rel (D : List String) (body body' : FBody) (hb : FBodyRel D body body') :
    ∀ (elems : List TfVal) (k : Nat) (acc acc' : List GoVal) (d1 d2 : List Diag) (h1 h2 : List HookCall)
      (r1 : List GoVal × List Diag × List HookCall), ListOffG D acc acc' →
      fromElemsList body elems k acc d1 h1 = .ok r1 →
      ∃ r2, fromElemsList body' elems k acc' d2 h2 = .ok r2 ∧ ListOffG D r1.1 r2.1
  | [], k, acc, acc', d1, d2, h1, h2, r1, hacc, h => by
    simp only [fromElemsList] at h ⊢
    injection h with h
    subst h
    exact ⟨_, rfl, hacc⟩
  | a :: rest, k, acc, acc', d1, d2, h1, h2, r1, hacc, h => by
    simp only [fromElemsList] at h ⊢
    cases hx : body a d1 h1 with
    | panic w => rw [hx] at h; cases h
    | stuck w => rw [hx] at h; cases h
    | ok x1 =>
      obtain ⟨x2, hx2, hv⟩ := hb a d1 h1 d2 h2 x1 hx
      rw [hx] at h
      rw [hx2]
      obtain ⟨v1, ds1, hs1⟩ := x1
      obtain ⟨v2, ds2, hs2⟩ := x2
      cases v1 with
      | none =>
        cases v2 with
        | none =>
          simp only [] at h ⊢
          exact fromElemsList_rel D body body' hb rest (k + 1) _ _ ds1 ds2 hs1 hs2 r1 hacc h
        | some b => exact hv.elim
      | some a1 =>
        cases v2 with
        | none => exact hv.elim
        | some a2 =>
          simp only [] at h ⊢
          exact fromElemsList_rel D body body' hb rest (k + 1) _ _ ds1 ds2 hs1 hs2 r1 (hacc.set k hv) h

theorem fromElemsMap_rel (D : List String) (body body' : FBody) (hb : FBodyRel D body body') :
    ∀ (elems : List (String × TfVal)) (acc acc' : List (String × GoVal)) (d1 d2 : List Diag) (h1 h2 : List HookCall)
      (r1 : List (String × GoVal) × List Diag × List HookCall), MapOffG D acc acc' →
      fromElemsMap body elems acc d1 h1 = .ok r1 →
      ∃ r2, fromElemsMap body' elems acc' d2 h2 = .ok r2 ∧ MapOffG D r1.1 r2.1
  | [], acc, acc', d1, d2, h1, h2, r1, hacc, h => by
    simp only [fromElemsMap] at h ⊢
    injection h with h
    subst h
    exact ⟨_, rfl, hacc⟩
  | (k, a) :: rest, acc, acc', d1, d2, h1, h2, r1, hacc, h => by
    simp only [fromElemsMap] at h ⊢
    cases hx : body a d1 h1 with
    | panic w => rw [hx] at h; cases h
    | stuck w => rw [hx] at h; cases h
    | ok x1 =>
      obtain ⟨x2, hx2, hv⟩ := hb a d1 h1 d2 h2 x1 hx
      rw [hx] at h
      rw [hx2]
      obtain ⟨v1, ds1, hs1⟩ := x1
      obtain ⟨v2, ds2, hs2⟩ := x2
      cases v1 with
      | none =>
        cases v2 with
        | none =>
          simp only [] at h ⊢
          exact fromElemsMap_rel D body body' hb rest _ _ ds1 ds2 hs1 hs2 r1 hacc h
        | some b => exact hv.elim
      | some a1 =>
        cases v2 with
        | none => exact hv.elim
        | some a2 =>
          simp only [] at h ⊢
          exact fromElemsMap_rel D body body' hb rest _ _ ds1 ds2 hs1 hs2 r1 (hacc.set k hv) h

theorem fromElemBody_rel (D : List String) (rec rec' : FromRec) (hrec : FRecRel D rec rec') (ov : List (String × String))
    (info vf : FieldInfo) : FBodyRel D (fromElemBody rec ov info vf) (fromElemBody rec' ov info vf) := by
  intro e d1 h1 d2 h2 r1 h
  unfold fromElemBody at h ⊢
  by_cases c : (e.vkind != vkindOf vf.tf.elemValueType || e.vkind == VKind.unknown) = true
  · simp only [c, if_true] at h ⊢
    injection h with h
    subst h
    exact ⟨_, rfl, trivial⟩
  · simp only [c, Bool.false_eq_true, if_false] at h ⊢
    cases e with
    | prim k u nl p =>
      simp only [] at h ⊢
      by_cases c2 : (info.kind == Kind.primitiveList || info.kind == Kind.primitiveMap) = true
      · simp only [c2, if_true] at h ⊢
        cases hp : primDecode info k u nl p with
        | panic w => rw [hp] at h; cases h
        | stuck w => rw [hp] at h; cases h
        | ok t =>
          rw [hp] at h
          simp only [] at h ⊢
          injection h with h
          subst h
          exact ⟨_, rfl, OffG.refl _⟩
      · simp only [c2, Bool.false_eq_true, if_false] at h
        cases h
    | obj u nl attrs atys =>
      simp only [] at h ⊢
      by_cases c2 : (info.kind == Kind.objectList || info.kind == Kind.objectMap) = true
      · simp only [c2, if_true] at h ⊢
        by_cases c3 : known u nl = true
        · simp only [c3, if_true] at h ⊢
          cases hr : rec attrs { obj := .struct [], diags := d1, hooks := h1 } with
          | panic w => rw [hr] at h; cases h
          | stuck w => rw [hr] at h; cases h
          | ok t1 =>
            obtain ⟨t2, ht2, hoff⟩ := hrec attrs d1 h1 d2 h2 t1 hr
            rw [hr] at h
            rw [ht2]
            simp only [] at h ⊢
            injection h with h
            subst h
            refine ⟨_, rfl, ?_⟩
            show OffG D _ _
            cases info.isNullable
            · exact hoff
            · exact .ptr _ _ hoff
        · simp only [c3, Bool.false_eq_true, if_false] at h ⊢
          injection h with h
          subst h
          exact ⟨_, rfl, OffG.refl _⟩
      · simp only [c2, Bool.false_eq_true, if_false] at h
        cases h
    | list _ _ _ _ => cases h
    | map _ _ _ _ => cases h
    | nilv => cases h
    | foreign _ => cases h

/-- two blocks, as functions of the target: from related targets, if the first succeeds so does the second, with
related targets -/
def FRel (D : List String) (F F' : GoVal → Outcome FromSt) : Prop :=
  ∀ o o' t, OffG D o o' → F o = .ok t → ∃ t', F' o' = .ok t' ∧ OffG D t.obj t'.obj

theorem frel_none (D : List String) (d d' : List Diag) (h h' : List HookCall) :
    FRel D (fun o => .ok { obj := o, diags := d, hooks := h }) (fun o => .ok { obj := o, diags := d', hooks := h' }) := by
  intro o o' t ho e; injection e with e; subst e; exact ⟨_, rfl, ho⟩

theorem frel_set (D : List String) (k : String) (y y' : GoVal) (hy : OffG D y y') (d d' : List Diag) (h h' : List HookCall) :
    FRel D (fun o => .ok { obj := o.setField k y, diags := d, hooks := h })
      (fun o => .ok { obj := o.setField k y', diags := d', hooks := h' }) := by
  intro o o' t ho e; injection e with e; subst e; exact ⟨_, rfl, ho.setField k hy⟩

theorem frel_set2 (D : List String) (k : String) (x x' y y' : GoVal) (hx : OffG D x x') (hy : OffG D y y')
    (d d' : List Diag) (h h' : List HookCall) :
    FRel D (fun o => .ok { obj := (o.setField k x).setField k y, diags := d, hooks := h })
      (fun o => .ok { obj := (o.setField k x').setField k y', diags := d', hooks := h' }) := by
  intro o o' t ho e; injection e with e; subst e; exact ⟨_, rfl, (ho.setField k hx).setField k hy⟩

theorem frel_stuck (D : List String) (m : String) (F' : GoVal → Outcome FromSt) : FRel D (fun _ => .stuck m) F' := by
  intro o o' t _ e; cases e
theorem frel_panic (D : List String) (m : String) (F' : GoVal → Outcome FromSt) : FRel D (fun _ => .panic m) F' := by
  intro o o' t _ e; cases e

macro "offg" : tactic => `(tactic| first
  | exact OffG.refl _ | assumption | exact OffG.ptr _ _ (by assumption)
  | exact OffG.iface _ _ _ _ (OffG.ptr _ _ (by assumption))
  | exact OffG.slice _ _ (by assumption) (by assumption) | exact OffG.map _ _ (by assumption) (by assumption))

macro "frel_crush" : tactic => `(tactic| repeat' (first
  | split | exact frel_none _ _ _ _ _ | exact frel_set _ _ _ _ (by offg) _ _ _ _
  | exact frel_set2 _ _ _ _ _ _ (by offg) (by offg) _ _ _ _
  | exact frel_stuck _ _ _ | exact frel_panic _ _ _))

section blocks
variable (D : List String) (rec rec' : FromRec) (ov : List (String × String))
    (info : FieldInfo) (mv : Option FieldInfo) (msg : Option MsgInfo) (attrs : Option (List (String × TfVal)))
    (ds ds' : List Diag) (hs hs' : List HookCall)

theorem fieldWith_frel_custom (he : info.parentIsOptionalEmbed = false) (hk : info.kind = .custom) :
    FRel D (fun o => copyFromFieldWith rec ov info mv msg attrs { obj := o, diags := ds, hooks := hs })
      (fun o => copyFromFieldWith rec' ov info mv msg attrs { obj := o, diags := ds', hooks := hs' }) := by
  unfold copyFromFieldWith
  simp only [writeField_plain info _ _ he, he, FromSt.diag, hk]
  cases (attrs.getD []).lookup info.nameSnake <;> simp only [Bool.false_eq_true, if_false] <;>
    exact frel_set _ _ _ _ (.refl _) _ _ _ _

theorem fieldWith_frel_prim_plain (he : info.parentIsOptionalEmbed = false) (hk : info.kind = .primitive)
    (ho : info.oneOfName = "") :
    FRel D (fun o => copyFromFieldWith rec ov info mv msg attrs { obj := o, diags := ds, hooks := hs })
      (fun o => copyFromFieldWith rec' ov info mv msg attrs { obj := o, diags := ds', hooks := hs' }) := by
  unfold copyFromFieldWith
  simp only [embedGuard_plain info _ _ he, writeField_plain info _ _ he, he, FromSt.diag, hk]
  simp only [ho, bne_self_eq_false, Bool.false_eq_true, if_false]
  cases (attrs.getD []).lookup info.nameSnake with
  | none => exact frel_none _ _ _ _ _
  | some a =>
    simp only []; cases a <;> simp only [] <;> frel_crush

theorem fieldWith_frel_prim_branch (he : info.parentIsOptionalEmbed = false) (hk : info.kind = .primitive)
    (ho : info.oneOfName ≠ "") :
    FRel D (fun o => copyFromFieldWith rec ov info mv msg attrs { obj := o, diags := ds, hooks := hs })
      (fun o => copyFromFieldWith rec' ov info mv msg attrs { obj := o, diags := ds', hooks := hs' }) := by
  unfold copyFromFieldWith
  simp only [embedGuard_plain info _ _ he, writeField_plain info _ _ he, he, FromSt.diag, hk]
  have hb : (info.oneOfName != "") = true := by simpa using ho
  simp only [hb, if_true]
  cases (attrs.getD []).lookup info.nameSnake with
  | none => exact frel_none _ _ _ _ _
  | some a => simp only []; cases a <;> simp only [] <;> frel_crush

theorem fieldWith_frel_obj_plain (hrec : FRecRel D rec rec') (he : info.parentIsOptionalEmbed = false)
    (hk : info.kind = .object) (ho : info.oneOfName = "") :
    FRel D (fun o => copyFromFieldWith rec ov info mv msg attrs { obj := o, diags := ds, hooks := hs })
      (fun o => copyFromFieldWith rec' ov info mv msg attrs { obj := o, diags := ds', hooks := hs' }) := by
  unfold copyFromFieldWith
  simp only [embedGuard_plain info _ _ he, writeField_plain info _ _ he, he, FromSt.diag, hk]
  simp only [ho, beq_self_eq_true, if_true]
  cases (attrs.getD []).lookup info.nameSnake with
  | none => exact frel_none _ _ _ _ _
  | some a =>
    simp only []
    cases a with
    | obj unk null as atys =>
      simp only []
      cases hr : rec as { obj := .struct [], diags := ds, hooks := hs } with
      | ok t1 =>
        obtain ⟨t2, ht2, hoff⟩ := hrec as ds hs ds' hs' t1 hr
        simp only [ht2]
        frel_crush
      | panic w => simp only []; frel_crush
      | stuck w => simp only []; frel_crush
    | _ => simp only []; frel_crush

theorem fieldWith_frel_obj_branch (hrec : FRecRel D rec rec') (he : info.parentIsOptionalEmbed = false)
    (hk : info.kind = .object) (ho : info.oneOfName ≠ "") :
    FRel D (fun o => copyFromFieldWith rec ov info mv msg attrs { obj := o, diags := ds, hooks := hs })
      (fun o => copyFromFieldWith rec' ov info mv msg attrs { obj := o, diags := ds', hooks := hs' }) := by
  unfold copyFromFieldWith
  simp only [embedGuard_plain info _ _ he, writeField_plain info _ _ he, he, FromSt.diag, hk]
  have hb : (info.oneOfName == "") = false := by simpa using ho
  simp only [hb, Bool.false_eq_true, if_false]
  cases (attrs.getD []).lookup info.nameSnake with
  | none => exact frel_none _ _ _ _ _
  | some a =>
    simp only []
    cases a with
    | obj unk null as atys =>
      simp only []
      cases hem : isEmptyMsg msg with
      | true =>
        simp only [Bool.not_true, Bool.false_eq_true, if_false]
        frel_crush
      | false =>
        simp only [Bool.not_false, if_true]
        cases hr : rec as { obj := .struct [], diags := ds, hooks := hs } with
        | ok t1 =>
          obtain ⟨t2, ht2, hoff⟩ := hrec as ds hs ds' hs' t1 hr
          simp only [ht2]
          frel_crush
        | panic w => simp only []; frel_crush
        | stuck w => simp only []; frel_crush
    | _ => simp only []; frel_crush

theorem fieldWith_frel_primitiveList (hrec : FRecRel D rec rec') (he : info.parentIsOptionalEmbed = false)
    (hk : info.kind = .primitiveList) :
    FRel D (fun o => copyFromFieldWith rec ov info mv msg attrs { obj := o, diags := ds, hooks := hs })
      (fun o => copyFromFieldWith rec' ov info mv msg attrs { obj := o, diags := ds', hooks := hs' }) := by
  unfold copyFromFieldWith
  simp only [embedGuard_plain info _ _ he, writeField_plain info _ _ he, he, FromSt.diag, hk]
  cases (attrs.getD []).lookup info.nameSnake with
  | none => exact frel_none _ _ _ _ _
  | some a =>
    simp only []
    cases a with
    | list unk null elems ety =>
      simp only []
      have hh := fromElemsList_rel D _ _ (fromElemBody_rel D rec rec' hrec ov info info) (elems.getD []) 0
        (List.replicate (elems.getD []).length (zeroElem info)) (List.replicate (elems.getD []).length (zeroElem info))
        ds ds' hs hs'
      generalize fromElemsList (fromElemBody rec ov info info) (elems.getD []) 0 _ ds hs = r1 at hh ⊢
      generalize fromElemsList (fromElemBody rec' ov info info) (elems.getD []) 0 _ ds' hs' = r2 at hh ⊢
      cases r1 with
      | ok x1 =>
        obtain ⟨x2, e2, hlen, hval⟩ := hh x1 (ListOffG.refl D _) rfl
        subst e2
        obtain ⟨l1, d1, g1⟩ := x1
        obtain ⟨l2, d2, g2⟩ := x2
        simp only [] at hlen hval ⊢
        frel_crush
      | panic w => simp only []; frel_crush
      | stuck w => simp only []; frel_crush
    | _ => simp only []; frel_crush

theorem fieldWith_frel_objectList (hrec : FRecRel D rec rec') (he : info.parentIsOptionalEmbed = false)
    (hk : info.kind = .objectList) :
    FRel D (fun o => copyFromFieldWith rec ov info mv msg attrs { obj := o, diags := ds, hooks := hs })
      (fun o => copyFromFieldWith rec' ov info mv msg attrs { obj := o, diags := ds', hooks := hs' }) := by
  unfold copyFromFieldWith
  simp only [embedGuard_plain info _ _ he, writeField_plain info _ _ he, he, FromSt.diag, hk]
  cases (attrs.getD []).lookup info.nameSnake with
  | none => exact frel_none _ _ _ _ _
  | some a =>
    simp only []
    cases a with
    | list unk null elems ety =>
      simp only []
      have hh := fromElemsList_rel D _ _ (fromElemBody_rel D rec rec' hrec ov info info) (elems.getD []) 0
        (List.replicate (elems.getD []).length (zeroElem info)) (List.replicate (elems.getD []).length (zeroElem info))
        ds ds' hs hs'
      generalize fromElemsList (fromElemBody rec ov info info) (elems.getD []) 0 _ ds hs = r1 at hh ⊢
      generalize fromElemsList (fromElemBody rec' ov info info) (elems.getD []) 0 _ ds' hs' = r2 at hh ⊢
      cases r1 with
      | ok x1 =>
        obtain ⟨x2, e2, hlen, hval⟩ := hh x1 (ListOffG.refl D _) rfl
        subst e2
        obtain ⟨l1, d1, g1⟩ := x1
        obtain ⟨l2, d2, g2⟩ := x2
        simp only [] at hlen hval ⊢
        frel_crush
      | panic w => simp only []; frel_crush
      | stuck w => simp only []; frel_crush
    | _ => simp only []; frel_crush

theorem fieldWith_frel_primitiveMap (hrec : FRecRel D rec rec') (he : info.parentIsOptionalEmbed = false)
    (hk : info.kind = .primitiveMap) :
    FRel D (fun o => copyFromFieldWith rec ov info mv msg attrs { obj := o, diags := ds, hooks := hs })
      (fun o => copyFromFieldWith rec' ov info mv msg attrs { obj := o, diags := ds', hooks := hs' }) := by
  unfold copyFromFieldWith
  simp only [embedGuard_plain info _ _ he, writeField_plain info _ _ he, he, FromSt.diag, hk]
  cases (attrs.getD []).lookup info.nameSnake with
  | none => exact frel_none _ _ _ _ _
  | some a =>
    simp only []
    cases a with
    | map unk null elems ety =>
      simp only []
      have hh := fromElemsMap_rel D _ _ (fromElemBody_rel D rec rec' hrec ov info (mv.getD info)) (elems.getD []) [] []
        ds ds' hs hs'
      generalize fromElemsMap (fromElemBody rec ov info (mv.getD info)) (elems.getD []) [] ds hs = r1 at hh ⊢
      generalize fromElemsMap (fromElemBody rec' ov info (mv.getD info)) (elems.getD []) [] ds' hs' = r2 at hh ⊢
      cases r1 with
      | ok x1 =>
        obtain ⟨x2, e2, hdom, hval⟩ := hh x1 (MapOffG.refl D _) rfl
        subst e2
        obtain ⟨l1, d1, g1⟩ := x1
        obtain ⟨l2, d2, g2⟩ := x2
        simp only [] at hdom hval ⊢
        frel_crush
      | panic w => simp only []; frel_crush
      | stuck w => simp only []; frel_crush
    | _ => simp only []; frel_crush

theorem fieldWith_frel_objectMap (hrec : FRecRel D rec rec') (he : info.parentIsOptionalEmbed = false)
    (hk : info.kind = .objectMap) :
    FRel D (fun o => copyFromFieldWith rec ov info mv msg attrs { obj := o, diags := ds, hooks := hs })
      (fun o => copyFromFieldWith rec' ov info mv msg attrs { obj := o, diags := ds', hooks := hs' }) := by
  unfold copyFromFieldWith
  simp only [embedGuard_plain info _ _ he, writeField_plain info _ _ he, he, FromSt.diag, hk]
  cases (attrs.getD []).lookup info.nameSnake with
  | none => exact frel_none _ _ _ _ _
  | some a =>
    simp only []
    cases a with
    | map unk null elems ety =>
      simp only []
      have hh := fromElemsMap_rel D _ _ (fromElemBody_rel D rec rec' hrec ov info (mv.getD info)) (elems.getD []) [] []
        ds ds' hs hs'
      generalize fromElemsMap (fromElemBody rec ov info (mv.getD info)) (elems.getD []) [] ds hs = r1 at hh ⊢
      generalize fromElemsMap (fromElemBody rec' ov info (mv.getD info)) (elems.getD []) [] ds' hs' = r2 at hh ⊢
      cases r1 with
      | ok x1 =>
        obtain ⟨x2, e2, hdom, hval⟩ := hh x1 (MapOffG.refl D _) rfl
        subst e2
        obtain ⟨l1, d1, g1⟩ := x1
        obtain ⟨l2, d2, g2⟩ := x2
        simp only [] at hdom hval ⊢
        frel_crush
      | panic w => simp only []; frel_crush
      | stuck w => simp only []; frel_crush
    | _ => simp only []; frel_crush

/-- **congruence of a CopyFrom block in its recursive call** (field not a child of a nullable embedded message) -/
theorem fieldWith_frel (hrec : FRecRel D rec rec') (he : info.parentIsOptionalEmbed = false) :
    FRel D (fun o => copyFromFieldWith rec ov info mv msg attrs { obj := o, diags := ds, hooks := hs })
      (fun o => copyFromFieldWith rec' ov info mv msg attrs { obj := o, diags := ds', hooks := hs' }) := by
  cases hk : info.kind with
  | custom => exact fieldWith_frel_custom D rec rec' ov info mv msg attrs ds ds' hs hs' he hk
  | primitive =>
    by_cases ho : info.oneOfName = ""
    · exact fieldWith_frel_prim_plain D rec rec' ov info mv msg attrs ds ds' hs hs' he hk ho
    · exact fieldWith_frel_prim_branch D rec rec' ov info mv msg attrs ds ds' hs hs' he hk ho
  | object =>
    by_cases ho : info.oneOfName = ""
    · exact fieldWith_frel_obj_plain D rec rec' ov info mv msg attrs ds ds' hs hs' hrec he hk ho
    · exact fieldWith_frel_obj_branch D rec rec' ov info mv msg attrs ds ds' hs hs' hrec he hk ho
  | primitiveList => exact fieldWith_frel_primitiveList D rec rec' ov info mv msg attrs ds ds' hs hs' hrec he hk
  | objectList => exact fieldWith_frel_objectList D rec rec' ov info mv msg attrs ds ds' hs hs' hrec he hk
  | primitiveMap => exact fieldWith_frel_primitiveMap D rec rec' ov info mv msg attrs ds ds' hs hs' hrec he hk
  | objectMap => exact fieldWith_frel_objectMap D rec rec' ov info mv msg attrs ds ds' hs hs' hrec he hk

end blocks

theorem offG_applyWrites_left (D : List String) (k : String) (hk : k ∈ D) : ∀ (ws : List (String × GoVal)) (o o' : GoVal),
    (∀ w ∈ ws, w.1 = k) → OffG D o o' → OffG D (applyWrites ws o) o'
  | [], _, _, _, h => h
  | w :: ws, o, o', hw, h => by
    simp only [applyWrites, List.foldl]
    refine offG_applyWrites_left D k hk ws _ o' (fun x hx => hw x (List.mem_cons_of_mem _ hx)) ?_
    rw [hw w List.mem_cons_self]
    exact h.setField_left k hk _

open PGT.OrderIndep in
mutual
/-- **CopyFrom blocks of a pruned field list, excluded field at any depth** (no children of nullable embedded messages) -/
theorem copyFromFields_deep (D : List String) (p : String) (ov : List (String × String)) : ∀ (fs : List Field),
    plainFs fs = true → (∀ x ∈ allDroppedGo p fs, x ∈ D) →
    ∀ (attrs : Option (List (String × TfVal))) (s1 s2 t1 : FromSt), OffG D s1.obj s2.obj →
    copyFromFields ov fs attrs s1 = .ok t1 →
    ∃ t2, copyFromFields ov (pruneFs p fs) attrs s2 = .ok t2 ∧ OffG D t1.obj t2.obj
  | [], _, _, attrs, s1, s2, t1, hs, h => by
    simp only [copyFromFields] at h
    injection h with h
    subst h
    rw [pruneFs_nil]
    exact ⟨s2, by simp [copyFromFields], hs⟩
  | f :: rest, hpl, hD, attrs, s1, s2, t1, hs, h => by
    rw [plainFs, Bool.and_eq_true] at hpl
    rw [allDroppedGo] at hD
    have hDrest : ∀ x ∈ allDroppedGo p rest, x ∈ D := fun x hx => hD x (List.mem_append_right _ hx)
    have hef : f.info.parentIsOptionalEmbed = false := by
      obtain ⟨info, mv, msg, sub⟩ := f
      have := hpl.1
      rw [plainF, Bool.and_eq_true] at this
      simpa using this.1
    rw [copyFromFields_cons] at h
    cases hb : blockF ov f attrs s1 with
    | panic w => rw [hb] at h; cases h
    | stuck w => rw [hb] at h; cases h
    | ok u1 =>
      rw [hb] at h
      simp only [obind] at h
      rw [pruneFs_cons]
      cases hd : dropped p f.info with
      | true =>
        simp only [if_true]
        have hkD : wk f.info ∈ D := hD _ (List.mem_append_left _ (by simp [hd]))
        refine copyFromFields_deep D p ov rest hpl.2 hDrest attrs u1 s2 t1 ?_ h
        obtain ⟨a, hpa, ha⟩ := blockF_nf ov f attrs hef
        rw [ha s1] at hb
        cases a with
        | panic w => simp [applyFAct] at hb
        | stuck w => simp [applyFAct] at hb
        | ok r =>
          obtain ⟨ws, dx, hx⟩ := r
          simp only [applyFAct, Outcome.ok.injEq] at hb
          subst hb
          exact offG_applyWrites_left D _ hkD ws _ _ (hpa ws dx hx rfl).1 hs
      | false =>
        simp only [Bool.false_eq_true, if_false]
        rw [copyFromFields_cons]
        have hDf : ∀ x ∈ allDroppedGoF p f, x ∈ D := fun x hx => hD x (List.mem_append_left _ (by simpa [hd] using hx))
        obtain ⟨u2, hu2, hoff⟩ := blockF_deep D p ov f hpl.1 hDf attrs s1 s2 u1 hs hb
        rw [hu2]
        simp only [obind]
        exact copyFromFields_deep D p ov rest hpl.2 hDrest attrs u1 u2 t1 hoff h
/-- one step (`blockF`: the placeholder has no block) of a surviving node against the step of its pruned version -/
theorem blockF_deep (D : List String) (p : String) (ov : List (String × String)) : ∀ (f : Field), plainF f = true →
    (∀ x ∈ allDroppedGoF p f, x ∈ D) →
    ∀ (attrs : Option (List (String × TfVal))) (s1 s2 u1 : FromSt), OffG D s1.obj s2.obj →
    blockF ov f attrs s1 = .ok u1 → ∃ u2, blockF ov (pruneF p f) attrs s2 = .ok u2 ∧ OffG D u1.obj u2.obj
  | ⟨info, mv, msg, sub⟩, hpl, hD, attrs, s1, s2, u1, hs, h => by
    rw [plainF, Bool.and_eq_true] at hpl
    rw [allDroppedGoF] at hD
    have he : info.parentIsOptionalEmbed = false := by simpa using hpl.1
    unfold blockF at h ⊢
    rw [pruneF_info]
    simp only [] at h ⊢
    by_cases hph : info.isPlaceholder = true
    · simp only [hph, if_true] at h ⊢
      injection h with h
      subst h
      exact ⟨s2, rfl, hs⟩
    · simp only [hph, Bool.false_eq_true, if_false] at h ⊢
      rw [copyFromField_pruneF]
      rw [copyFromField] at h
      refine fieldWith_frel D _ _ ov info mv msg attrs s1.diags s2.diags s1.hooks s2.hooks ?_ he s1.obj s2.obj u1 hs h
      intro as d1 h1 d2 h2 t1 ht1
      exact copyFromFields_deep D p ov sub hpl.2 hD as
        { obj := resetOneOfs ((msg.map (·.oneOfNames)).getD []) (.struct []), diags := d1, hooks := h1 }
        { obj := resetOneOfs ((msg.map (·.oneOfNames)).getD []) (.struct []), diags := d2, hooks := h2 }
        t1 (OffG.refl _) ht1
end


/-- **`Copy<T>FromTerraform` of the pruned message, excluded field at any depth** (no children of nullable embedded
messages, as in every IR built from a tree without embedded fields: `built_plain`). Whenever the converter of `m`
succeeds, the converter of `prune p m` succeeds on the same inputs, and the two structs agree except in the Go fields the
blocks of the removed nodes assign. -/
theorem copyFrom_prune_deep (ov : List (String × String)) (p : String) (m : Msg) (tf : TfVal) (obj : GoVal)
    (r1 : FromResult) (hpl : plainFs m.fields = true) (h : copyFrom ov m tf obj = .ok r1) :
    ∃ r2, copyFrom ov (prune p m) tf obj = .ok r2 ∧ OffG (allDroppedGo p m.fields) r1.obj r2.obj := by
  unfold copyFrom at h ⊢
  cases tf with
  | obj u n attrs atys =>
    simp only [] at h ⊢
    cases hf : copyFromFields ov m.fields attrs { obj := resetOneOfs m.info.oneOfNames obj } with
    | panic w => rw [hf] at h; cases h
    | stuck w => rw [hf] at h; cases h
    | ok s1 =>
      rw [hf] at h
      injection h with h
      subst h
      obtain ⟨s2, h2, hoff⟩ := copyFromFields_deep (allDroppedGo p m.fields) p ov m.fields hpl (fun _ hx => hx) attrs
        _ _ s1 (OffG.refl _) hf
      simp only [prune, h2]
      exact ⟨_, rfl, hoff⟩
  | prim _ _ _ _ => cases h
  | list _ _ _ _ => cases h
  | map _ _ _ _ => cases h
  | nilv => cases h
  | foreign _ => cases h

/-- **C11, converters, excluded field at any depth.** `cfg'` = `cfg` plus the path `p` in `exclude_fields`; no embedded
fields in the tree; `p` addresses by path only; the root builds to `m` without the exclusion. Then it builds to
`prune p m` with it, and - attribute names pairwise distinct and no nested message emptied, along the way
(`distinctNames`, `deepOkFs`: decidable on `m`) - both converters of `prune p m` succeed whenever those of `m` do, with
results that agree except under the excluded attribute / in the excluded Go field. -/
theorem exclusion_surgical_deep (cfg : Config) (p : String) (req : Request) (desc : MsgD) (m : Msg)
    (hne : NoEmbed req desc = true)
    (htn : typeFree p (ctxKeys (defaultFuel req) req (rootCtx desc)) = true)
    (hb : buildRoot cfg req desc = .ok (some m)) :
    buildRoot { cfg with excludeFields := p :: cfg.excludeFields } req desc = .ok (some (prune p m)) ∧
    (distinctNames m.fields = true → deepOkFs p m.fields = true → ∀ obj tf r1, copyTo m obj tf = .ok r1 →
      ∃ r2, copyTo (prune p m) obj tf = .ok r2 ∧ OffV (allDroppedAttrs p m.fields) r1.tf r2.tf) ∧
    (∀ ov tf obj r1, copyFrom ov m tf obj = .ok r1 →
      ∃ r2, copyFrom ov (prune p m) tf obj = .ok r2 ∧ OffG (allDroppedGo p m.fields) r1.obj r2.obj) := by
  have hplain : plainFs m.fields = true :=
    (built_plain (viewOf cfg) req (noEmbedReq_spec (noEmbed_split hne).2) (defaultFuel req)).1
      desc true "" m (noEmbedFields_spec (noEmbed_split hne).1) (buildRoot_inv hb)
  exact ⟨exclusion_prunes_root cfg p req desc m hne htn hb,
    fun hdn hok obj tf r1 h => copyTo_prune_deep p m obj tf r1 hdn hok h,
    fun ov tf obj r1 h => copyFrom_prune_deep ov p m tf obj r1 hplain h⟩

/-! ## 9. the statement on concrete trees (`decide`), and the hypotheses are necessary -/

namespace Example
open PGT.Proofs.BuildErrors.Witness

def tsT : SchemaTypeC :=
  { type := "TimeType", valueType := "TimeValue", castToType := "time.Time", castFromType := "time.Time" }
/-- a configuration under which the tree below `A` builds (`C.t` is a timestamp) -/
def cfgT : Config := { timeType := some tsT }
def cfgTs : Config := { timeType := some tsT, sort := true }

def exclude (cfg : Config) (p : String) : Config := { cfg with excludeFields := p :: cfg.excludeFields }

/-- the tree of `PathUnique.Example`: `A.b : B`, `B.s : string`, `B.c : repeated C`, `C.t : Timestamp` -/
abbrev buildA (cfg : Config) := buildMessage (defaultFuel req0) (viewOf cfg) req0 msgA true ""

example : (buildA cfgT).toOption.isSome = true := by decide
example : NoEmbed req0 msgA = true := by decide

/-- the checked statement: the hypotheses hold and the excluded build is the pruned build (independently, by evaluation) -/
def checks (cfg : Config) (req : Request) (root : MsgD) (p : String) : Bool :=
  NoEmbed req root && typeFree p (ctxKeys (defaultFuel req) req (rootCtx root)) &&
  (buildMessage (defaultFuel req) (viewOf cfg) req root true "").toOption.isSome &&
  beqRes (buildMessage (defaultFuel req) (viewOf (exclude cfg p)) req root true "")
    (pruneRes p (buildMessage (defaultFuel req) (viewOf cfg) req root true ""))

/-- one level down -/
example : checks cfgT req0 msgA "A.b" = true := by decide +kernel
/-- two levels down -/
example : checks cfgT req0 msgA "A.b.s" = true := by decide +kernel
/-- a repeated message field two levels down -/
example : checks cfgT req0 msgA "A.b.c" = true := by decide +kernel
/-- inside the list element message (three levels down; `C` loses its only field and gets NO placeholder) -/
example : checks cfgT req0 msgA "A.b.c.t" = true := by decide +kernel
/-- a path that addresses nothing -/
example : checks cfgT req0 msgA "A.b.zz" = true := by decide +kernel
example : checks cfgTs req0 msgA "A.b.s" = true := by decide +kernel

/-- … and through the theorem: -/
example (m : Msg) (h : buildA cfgT = .ok m) : buildA (exclude cfgT "A.b.c.t") = .ok (prune "A.b.c.t" m) :=
  exclusion_prunes_ctx cfgT "A.b.c.t" req0 _ msgA true "" m (by decide) (by decide) (by decide) h

/-- what is removed: the surviving recorded paths, depth first -/
def allPaths : Nat → List Field → List String
  | 0, _ => []
  | n + 1, fs => fs.flatMap fun f => f.info.path :: allPaths n f.sub

example : (buildA cfgT).toOption.map (fun m => allPaths 9 m.fields) = some ["A.b", "A.b.s", "A.b.c", "A.b.c.t"] := by decide
example : (buildA (exclude cfgT "A.b.s")).toOption.map (fun m => allPaths 9 m.fields) = some ["A.b", "A.b.c", "A.b.c.t"] := by
  decide
example : (buildA (exclude cfgT "A.b.c.t")).toOption.map (fun m => allPaths 9 m.fields) = some ["A.b", "A.b.s", "A.b.c"] := by
  decide

/-! ### a richer tree: map of messages, a oneof with two branches, an empty message (placeholder), sorting on -/

def msgL : MsgD := { name := "L", fields := [{ name := "x", type := "int32" }, { name := "a", type := "string" }] }
def msgE : MsgD := { name := "E" }
def msgR : MsgD := { name := "R", oneofs := ["choice"], fields := [
  { name := "z", type := "string" },
  { name := "m", type := "message", typeName := "L", card := .map },
  { name := "o1", type := "string", oneof := some 0 },
  { name := "o2", type := "message", typeName := "L", oneof := some 0 },
  { name := "e", type := "message", typeName := "E" },
  { name := "b", type := "message", typeName := "B" } ] }
def req1 : Request := { file := { name := "y.proto", package := "y", messages := [msgR, msgL, msgE, msgB, msgC] } }

example : (buildMessage (defaultFuel req1) (viewOf cfgTs) req1 msgR true "").toOption.map (fun m => allPaths 9 m.fields) =
    some ["R.b", "R.b.c", "R.b.c.t", "R.b.s", "R.e", "R.e.active", "R.m", "R.m.a", "R.m.x", "R.o1", "R.o2", "R.o2.a",
      "R.o2.x", "R.z"] := by decide

/-- inside the value message of a map -/
example : checks cfgTs req1 msgR "R.m.x" = true := by decide +kernel
/-- the map field itself -/
example : checks cfgTs req1 msgR "R.m" = true := by decide +kernel
/-- one branch of a oneof, both branches one after the other: `oneOfNames` of `R` stays `["Choice"]` -/
example : checks cfgTs req1 msgR "R.o1" = true := by decide +kernel
example : checks (exclude cfgTs "R.o1") req1 msgR "R.o2" = true := by decide +kernel
example : (buildMessage (defaultFuel req1) (viewOf (exclude (exclude cfgTs "R.o1") "R.o2")) req1 msgR true "").toOption.map
    (fun m => m.info.oneOfNames) = some ["Choice"] := by decide
/-- inside a oneof branch -/
example : checks cfgTs req1 msgR "R.o2.a" = true := by decide +kernel
/-- the path of a placeholder: nothing is addressed, nothing is removed (`prune` keeps placeholders) -/
example : checks cfgTs req1 msgR "R.e.active" = true := by decide +kernel
example : checks cfgT req1 msgR "R.b.c.t" = true := by decide +kernel

/-! ### the hypotheses are necessary -/

/-- **path-only addressing is necessary**: `B.s` addresses the occurrence at `A.b.s` through its `Message.field` key; the
node is removed by the exclusion, but no node has the recorded path `B.s` -/
theorem typeName_key_needed :
    NoEmbed req0 msgA = true ∧ typeFree "B.s" (ctxKeys (defaultFuel req0) req0 (rootCtx msgA)) = false ∧
    buildA (exclude cfgT "B.s") ≠ pruneRes "B.s" (buildA cfgT) :=
  ⟨by decide, by decide, beqRes_false (by decide +kernel)⟩

/-- **`NoEmbed` is necessary**: an embedded field has its parent's path. `A2` embeds `B`; the key `A2` addresses the
embedded occurrence (its `Keys.path` is the root's path `A2`), whose spliced children carry the paths `A2.s`, `A2.c`. -/
def msgA2 : MsgD := { name := "A2", fields := [{ name := "e", type := "message", typeName := "B", embed := true }] }
def req2 : Request := { file := { name := "x.proto", package := "x", messages := [msgA2, msgB, msgC] } }

theorem noEmbed_needed :
    NoEmbed req2 msgA2 = false ∧ typeFree "A2" (ctxKeys (defaultFuel req2) req2 (rootCtx msgA2)) = true ∧
    (buildMessage (defaultFuel req2) (viewOf cfgT) req2 msgA2 true "").toOption.map (fun m => allPaths 9 m.fields) =
      some ["A2.s", "A2.c", "A2.c.t"] ∧
    (buildMessage (defaultFuel req2) (viewOf (exclude cfgT "A2")) req2 msgA2 true "").toOption.map
      (fun m => allPaths 9 m.fields) = some [] ∧
    buildMessage (defaultFuel req2) (viewOf (exclude cfgT "A2")) req2 msgA2 true "" ≠
      pruneRes "A2" (buildMessage (defaultFuel req2) (viewOf cfgT) req2 msgA2 true "") :=
  ⟨by decide, by decide, by decide, by decide, beqRes_false (by decide +kernel)⟩

/-- **success of the build without the exclusion is necessary**: without a `time_type` the tree below `A` does not build,
with `A.b.c.t` excluded it does -/
theorem success_needed :
    (buildA {}).toOption.isSome = false ∧ (buildA (exclude {} "A.b.c.t")).toOption.isSome = true :=
  ⟨by decide, by decide⟩

/-- **placeholders must be kept**: for a message without declared fields the recorded path `….active` of the placeholder
addresses no occurrence; `PathUnique.pruneFields` would remove the node, the exclusion does not -/
def msgE0 : MsgD := { name := "E" }
def req3 : Request := { file := { name := "x.proto", package := "x", messages := [msgE0] } }

/-! ### the side conditions of the semantic corollaries on the concrete trees -/

/-- `A.b`: the excluded node is a field of the root IR -/
example : (buildA cfgT).toOption.map (fun m => levelOnly "A.b" m.fields && attrsSeparate "A.b" m.fields) = some true := by
  decide +kernel
/-- `A.b.s`: the excluded node is a field of the node `A.b`; `copyToFields_prune` / `copyFromFields_prune` apply to its
children (the recursive call of the block of `b`) -/
example : (buildA cfgT).toOption.map (fun m => levelOnly "A.b.s" m.fields) = some false := by decide +kernel
example : (buildA cfgT).toOption.map (fun m => m.fields.all fun f =>
    levelOnly "A.b.s" f.sub && attrsSeparate "A.b.s" f.sub && plainFs f.sub) = some true := by decide +kernel
example : (buildA cfgT).toOption.map (fun m => (m.fields.flatMap fun f => droppedAttrs "A.b.s" f.sub,
    m.fields.flatMap fun f => droppedGo "A.b.s" f.sub)) = some (["s"], ["S"]) := by decide +kernel
/-- the side conditions of `copyTo_prune_deep`: fine for `A.b.s`; violated for `A.b.c.t` (`C` loses its last field) -/
example : (buildA cfgT).toOption.map (fun m => deepOkFs "A.b.s" m.fields && distinctNames m.fields) = some true := by
  decide +kernel
example : (buildA cfgT).toOption.map (fun m => deepOkFs "A.b.c.t" m.fields) = some false := by decide +kernel
/-- a oneof branch: its CopyFrom block assigns the holder of the group -/
example : (buildMessage (defaultFuel req1) (viewOf cfgTs) req1 msgR true "").toOption.map (fun m =>
    (levelOnly "R.o1" m.fields && attrsSeparate "R.o1" m.fields, droppedAttrs "R.o1" m.fields, droppedGo "R.o1" m.fields)) =
    some (true, ["o1"], ["Choice"]) := by decide +kernel

/-- the IR of `A` -/
def mA : Msg := match buildA cfgT with | .ok m => m | .error _ => default

/-- **`exclusion_surgical_root` instantiated**: `A` selected, `A.b` excluded -/
example : let cfg : Config := { cfgT with types := ["A"] }
    buildRoot (exclude cfg "A.b") req0 msgA = .ok (some (prune "A.b" mA)) ∧
    schemaOf (prune "A.b" mA) = [] ∧
    (∀ obj tf r1, copyTo mA obj tf = .ok r1 → ∃ r2, copyTo (prune "A.b" mA) obj tf = .ok r2 ∧
        ∃ as1 as2 atys, r1.tf = .obj false false (some as1) atys ∧ r2.tf = .obj false false (some as2) atys ∧
          (∀ key, key ≠ "b" → as2.lookup key = as1.lookup key) ∧ as2.lookup "b" = (targetAttrs tf).lookup "b") := by
  intro cfg
  have hbm : buildMessage (defaultFuel req0) (viewOf cfg) req0 msgA true "" = .ok mA :=
    beqRes_sound _ _ (by decide +kernel)
  have hb : buildRoot cfg req0 msgA = .ok (some mA) := by
    unfold buildRoot
    rw [hbm]
    rfl
  have hD : droppedAttrs "A.b" mA.fields = ["b"] := by decide +kernel
  obtain ⟨h1, h2, _, h4, _⟩ := exclusion_surgical_root cfg "A.b" req0 msgA mA (by decide) (by decide) hb
    (by decide +kernel) (by decide +kernel)
  refine ⟨h1, ?_, ?_⟩
  · rw [h2]; decide +kernel
  · intro obj tf r1 h
    obtain ⟨r2, e, as1, as2, atys, e1, e2, ha, hb'⟩ := h4 obj tf r1 h
    rw [hD] at ha hb'
    exact ⟨r2, e, as1, as2, atys, e1, e2, fun key hk => ha key (by simpa using hk), hb' "b" (by simp)⟩

/-- **`copyTo_prune_deep` / `copyFrom_prune_deep` instantiated**: `A.b.s` excluded, two levels down -/
example (obj : GoVal) (tf : TfVal) (r1 : ToResult) (h : copyTo mA obj tf = .ok r1) :
    ∃ r2, copyTo (prune "A.b.s" mA) obj tf = .ok r2 ∧ OffV ["s"] r1.tf r2.tf := by
  have := copyTo_prune_deep "A.b.s" mA obj tf r1 (by decide +kernel) (by decide +kernel) h
  rwa [show allDroppedAttrs "A.b.s" mA.fields = ["s"] by decide +kernel] at this

example (tf : TfVal) (obj : GoVal) (r1 : FromResult) (h : copyFrom [] mA tf obj = .ok r1) :
    ∃ r2, copyFrom [] (prune "A.b.s" mA) tf obj = .ok r2 ∧ OffG ["S"] r1.obj r2.obj := by
  have := copyFrom_prune_deep [] "A.b.s" mA tf obj r1 (by decide +kernel) h
  rwa [show allDroppedGo "A.b.s" mA.fields = ["S"] by decide +kernel] at this

end Example

/-- the open statement of `PathUnique` is **false** as it stands (placeholder) -/
theorem exclusion_prunes_full_false : ¬ exclusion_prunes_full := by
  intro H
  have h1 : (buildMessage 1 (viewOf {}) Example.req3 Example.msgE0 true "").toOption.map
      (fun m => (pruneFields "E.active" m.fields).length) = some 0 := by decide
  have h2 : (buildMessage 1 (viewOf { ({} : Config) with excludeFields := "E.active" :: ({} : Config).excludeFields })
      Example.req3 Example.msgE0 true "").toOption.map (fun m => m.fields.length) = some 1 := by decide
  cases hb : buildMessage 1 (viewOf {}) Example.req3 Example.msgE0 true "" with
  | error e => rw [hb] at h1; cases h1
  | ok m =>
    have := H {} "E.active" Example.req3 1 Example.msgE0 m (by decide) (by intro k hk; cases hk) hb
    rw [this] at h2
    rw [hb] at h1
    simp only [Except.toOption, Option.map_some, Option.some.injEq] at h1 h2
    omega

end PGT.Proofs.ExclusionPrune

section
open PGT.Proofs.ExclusionPrune
#print axioms pruneFs_sort
#print axioms coreStep_prune1
#print axioms msgStep_prune
#print axioms build_prune
#print axioms exclusion_prunes_ctx
#print axioms exclusion_prunes
#print axioms exclusion_prunes_root
#print axioms exclusion_prunes_pruneFields
#print axioms exclusion_prunes_full_false
#print axioms copyToFields_drop
#print axioms copyFromFields_drop
#print axioms copyToFields_prune
#print axioms copyTo_prune
#print axioms copyFromFields_prune
#print axioms copyFrom_prune
#print axioms schema_excluded_absent
#print axioms schemaOf_prune
#print axioms built_plain
#print axioms exclusion_surgical_root
#print axioms copyToFieldWith_rel
#print axioms fieldWith_frel
#print axioms copyToFields_deep
#print axioms copyFromFields_deep
#print axioms copyTo_prune_deep
#print axioms copyFrom_prune_deep
#print axioms exclusion_surgical_deep
#print axioms Example.typeName_key_needed
#print axioms Example.noEmbed_needed
#print axioms Example.success_needed
end
