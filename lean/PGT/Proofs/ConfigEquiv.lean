import PGT.Model.Config
/-
Generic channel equivalence for the configuration reader (property C16), for `readConfig` / `readFromCLI`
of PGT/Model/Config.lean and the REGENERATED table `Generated.cliTable`.

Everything is proved for an arbitrary table `t` that passes the decidable check `TableOK t` (pairwise distinct Config
fields, pairwise distinct command-line keys, every row names a field its accessor kind can write) and is then
instantiated at `Generated.cliTable` by `cliTable_ok : TableOK Generated.cliTable := by decide`; a regenerated table
with more rows only has to pass that check again.

 1. `readFromCLI_field` (and the record form `readFromCLI_eq`): after `readFromCLI` every row's field holds exactly
    the accessor's result on (cli, key, YAML value); every other slot and the fields no accessor reaches are the input's.
 2. `accessor_precedence`, `cli_wins`, `yaml_stays`: a non-blank command-line value makes the result independent of the
    YAML value; a blank or absent one leaves the YAML value. For booleans "non-blank" is not enough, the value must be
    accepted by `strconv.ParseBool` after lower-casing (otherwise the tool logs and keeps the YAML value).
 3. `channel_string`, `channel_bool`, `channel_slice` (all rows: `channel_equiv_table`): moving an option from the YAML
    record to the command line yields the same `readConfig` result, whatever is left in the YAML field.
    Side conditions (facts about the tool, each shown necessary by an evaluated example below):
      * the command line gives no non-blank value for the key yet (`cliValue cli k = ""`; implied by "does not mention key");
      * string: `Expressible v` = `strings.TrimSpace v = v` and `v ≠ ""` (blanks at either end are trimmed, the empty
        string is read as "absent");
      * list: no element contains `+`, and the joined string is `Expressible` (so the list is neither `[]` nor `[""]`, and
        the first/last element does not start/end with a blank; inner blanks are kept - elements are not trimmed);
        `expressible_renderSlice`: blank-free elements, list neither `[]` nor `[""]`, suffices;
      * bool: none (rendered as `true` / `false`).
-/
open PGT
namespace PGT.ConfigEquiv
def sliceFields : List String := ["Types", "ExcludeFields", "ComputedFields", "RequiredFields", "SensitiveFields"]
def stringFields : List String := ["DefaultPackageName", "TargetPackageName", "DurationCustomType"]
def boolFields : List String := ["Sort", "UseStateForUnknownByDefault"]

theorem sliceField_cases (f : String) :
    f = "Types" ∨ f = "ExcludeFields" ∨ f = "ComputedFields" ∨ f = "RequiredFields" ∨ f = "SensitiveFields" ∨
      f ∉ sliceFields := by
  simp only [sliceFields, List.mem_cons, List.not_mem_nil, or_false]
  by_cases h1 : f = "Types" <;> by_cases h2 : f = "ExcludeFields" <;> by_cases h3 : f = "ComputedFields" <;>
    by_cases h4 : f = "RequiredFields" <;> by_cases h5 : f = "SensitiveFields" <;> simp [h1, h2, h3, h4, h5]

theorem stringField_cases (f : String) :
    f = "DefaultPackageName" ∨ f = "TargetPackageName" ∨ f = "DurationCustomType" ∨ f ∉ stringFields := by
  simp only [stringFields, List.mem_cons, List.not_mem_nil, or_false]
  by_cases h1 : f = "DefaultPackageName" <;> by_cases h2 : f = "TargetPackageName" <;>
    by_cases h3 : f = "DurationCustomType" <;> simp [h1, h2, h3]

theorem boolField_cases (f : String) :
    f = "Sort" ∨ f = "UseStateForUnknownByDefault" ∨ f ∉ boolFields := by
  simp only [boolFields, List.mem_cons, List.not_mem_nil, or_false]
  by_cases h1 : f = "Sort" <;> by_cases h2 : f = "UseStateForUnknownByDefault" <;> simp [h1, h2]

theorem setSlice_of_not_mem {c : Config} {f : String} {v : List String} (h : f ∉ sliceFields) :
    c.setSlice f v = c := by
  simp only [sliceFields, List.mem_cons, List.not_mem_nil, or_false, not_or] at h
  simp [Config.setSlice, h]

theorem getSlice_of_not_mem {c : Config} {f : String} (h : f ∉ sliceFields) :
    c.getSlice f = [] := by
  simp only [sliceFields, List.mem_cons, List.not_mem_nil, or_false, not_or] at h
  simp [Config.getSlice, h]

theorem setString_of_not_mem {c : Config} {f : String} {v : String} (h : f ∉ stringFields) :
    c.setString f v = c := by
  simp only [stringFields, List.mem_cons, List.not_mem_nil, or_false, not_or] at h
  simp [Config.setString, h]

theorem getString_of_not_mem {c : Config} {f : String} (h : f ∉ stringFields) :
    c.getString f = "" := by
  simp only [stringFields, List.mem_cons, List.not_mem_nil, or_false, not_or] at h
  simp [Config.getString, h]

theorem setBool_of_not_mem {c : Config} {f : String} {v : Bool} (h : f ∉ boolFields) :
    c.setBool f v = c := by
  simp only [boolFields, List.mem_cons, List.not_mem_nil, or_false, not_or] at h
  simp [Config.setBool, h]

theorem getBool_of_not_mem {c : Config} {f : String} (h : f ∉ boolFields) :
    c.getBool f = false := by
  simp only [boolFields, List.mem_cons, List.not_mem_nil, or_false, not_or] at h
  simp [Config.getBool, h]

theorem getSlice_setSlice (c : Config) (f g : String) (v : List String) :
    (c.setSlice f v).getSlice g = if g = f ∧ g ∈ sliceFields then v else c.getSlice g := by
  rcases sliceField_cases f with rfl | rfl | rfl | rfl | rfl | h
  all_goals
    first
    | (rw [setSlice_of_not_mem h]; by_cases hg : g = f
       · subst hg; simp [h]
       · simp [hg])
    | (rcases sliceField_cases g with rfl | rfl | rfl | rfl | rfl | h
       all_goals first
         | (rw [getSlice_of_not_mem h, getSlice_of_not_mem h]; simp [h])
         | simp [Config.setSlice, Config.getSlice, sliceFields])

theorem getString_setString (c : Config) (f g : String) (v : String) :
    (c.setString f v).getString g = if g = f ∧ g ∈ stringFields then v else c.getString g := by
  rcases stringField_cases f with rfl | rfl | rfl | h
  all_goals
    first
    | (rw [setString_of_not_mem h]; by_cases hg : g = f
       · subst hg; simp [h]
       · simp [hg])
    | (rcases stringField_cases g with rfl | rfl | rfl | h
       all_goals first
         | (rw [getString_of_not_mem h, getString_of_not_mem h]; simp [h])
         | simp [Config.setString, Config.getString, stringFields])

theorem getBool_setBool (c : Config) (f g : String) (v : Bool) :
    (c.setBool f v).getBool g = if g = f ∧ g ∈ boolFields then v else c.getBool g := by
  rcases boolField_cases f with rfl | rfl | h
  all_goals
    first
    | (rw [setBool_of_not_mem h]; by_cases hg : g = f
       · subst hg; simp [h]
       · simp [hg])
    | (rcases boolField_cases g with rfl | rfl | h
       all_goals first
         | (rw [getBool_of_not_mem h, getBool_of_not_mem h]; simp [h])
         | simp [Config.setBool, Config.getBool, boolFields])

/-- the fields no accessor reaches -/
def rest (c : Config) :=
  (c.suffixes, c.nameOverrides, c.validators, c.planModifiers, c.timeType, c.durationType, c.injectedFields,
    c.importPathOverrides, c.customTypes)

theorem frame_setSlice (c : Config) (f : String) (v : List String) :
    (∀ g, (c.setSlice f v).getString g = c.getString g) ∧ (∀ g, (c.setSlice f v).getBool g = c.getBool g) ∧
      rest (c.setSlice f v) = rest c := by
  rcases sliceField_cases f with rfl | rfl | rfl | rfl | rfl | h
  all_goals first
    | (rw [setSlice_of_not_mem h]; simp)
    | (refine ⟨fun g => ?_, fun g => ?_, ?_⟩ <;> simp [Config.setSlice, Config.getString, Config.getBool, rest])

theorem frame_setString (c : Config) (f : String) (v : String) :
    (∀ g, (c.setString f v).getSlice g = c.getSlice g) ∧ (∀ g, (c.setString f v).getBool g = c.getBool g) ∧
      rest (c.setString f v) = rest c := by
  rcases stringField_cases f with rfl | rfl | rfl | h
  all_goals first
    | (rw [setString_of_not_mem h]; simp)
    | (refine ⟨fun g => ?_, fun g => ?_, ?_⟩ <;> simp [Config.setString, Config.getSlice, Config.getBool, rest])

theorem frame_setBool (c : Config) (f : String) (v : Bool) :
    (∀ g, (c.setBool f v).getSlice g = c.getSlice g) ∧ (∀ g, (c.setBool f v).getString g = c.getString g) ∧
      rest (c.setBool f v) = rest c := by
  rcases boolField_cases f with rfl | rfl | h
  all_goals first
    | (rw [setBool_of_not_mem h]; simp)
    | (refine ⟨fun g => ?_, fun g => ?_, ?_⟩ <;> simp [Config.setBool, Config.getSlice, Config.getString, rest])

/-- a configuration is determined by what the three accessors read and by the remaining fields -/
theorem Config.ext_get {a b : Config} (h1 : ∀ g, a.getSlice g = b.getSlice g) (h2 : ∀ g, a.getString g = b.getString g)
    (h3 : ∀ g, a.getBool g = b.getBool g) (h4 : rest a = rest b) : a = b := by
  have t1 := h1 "Types"; have t2 := h1 "ExcludeFields"; have t3 := h1 "ComputedFields"
  have t4 := h1 "RequiredFields"; have t5 := h1 "SensitiveFields"
  have s1 := h2 "DefaultPackageName"; have s2 := h2 "TargetPackageName"; have s3 := h2 "DurationCustomType"
  have b1 := h3 "Sort"; have b2 := h3 "UseStateForUnknownByDefault"
  cases a; cases b
  simp [Config.getSlice, Config.getString, Config.getBool, rest] at t1 t2 t3 t4 t5 s1 s2 s3 b1 b2 h4
  simp [*]

/-! ## one row -/

theorem applyCliRow_getSlice (cli : List (String × String)) (c : Config) (f k kind g : String) :
    (applyCliRow cli c (f, k, kind)).getSlice g =
      if kind = "slice" ∧ g = f ∧ g ∈ sliceFields then getSliceParam cli k (c.getSlice g) else c.getSlice g := by
  simp only [applyCliRow, beq_iff_eq]
  by_cases h1 : kind = "slice"
  · subst h1; simp only [if_true, true_and, getSlice_setSlice]
    by_cases hg : g = f
    · subst hg; rfl
    · simp [hg]
  · simp only [h1, if_false, false_and]
    split
    · exact (frame_setString _ _ _).1 g
    · split
      · exact (frame_setBool _ _ _).1 g
      · rfl

theorem applyCliRow_getString (cli : List (String × String)) (c : Config) (f k kind g : String) :
    (applyCliRow cli c (f, k, kind)).getString g =
      if kind = "string" ∧ g = f ∧ g ∈ stringFields then getStringParam cli k (c.getString g) else c.getString g := by
  simp only [applyCliRow, beq_iff_eq]
  by_cases h1 : kind = "string"
  · subst h1
    have : ¬ ("string" = "slice") := by decide
    simp only [this, if_false, if_true, true_and, getString_setString]
    by_cases hg : g = f
    · subst hg; rfl
    · simp [hg]
  · simp only [h1, if_false, false_and]
    split
    · exact (frame_setSlice _ _ _).1 g
    · split
      · exact (frame_setBool _ _ _).2.1 g
      · rfl

theorem applyCliRow_getBool (cli : List (String × String)) (c : Config) (f k kind g : String) :
    (applyCliRow cli c (f, k, kind)).getBool g =
      if kind = "bool" ∧ g = f ∧ g ∈ boolFields then getBoolParam cli k (c.getBool g) else c.getBool g := by
  simp only [applyCliRow, beq_iff_eq]
  by_cases h1 : kind = "bool"
  · subst h1
    have h2 : ¬ ("bool" = "slice") := by decide
    have h3 : ¬ ("bool" = "string") := by decide
    simp only [h2, h3, if_false, if_true, true_and, getBool_setBool]
    by_cases hg : g = f
    · subst hg; rfl
    · simp [hg]
  · simp only [h1, if_false, false_and]
    split
    · exact (frame_setSlice _ _ _).2.1 g
    · split
      · exact (frame_setString _ _ _).2.1 g
      · rfl

theorem applyCliRow_rest (cli : List (String × String)) (c : Config) (row : String × String × String) :
    rest (applyCliRow cli c row) = rest c := by
  obtain ⟨f, k, kind⟩ := row
  simp only [applyCliRow]
  split
  · exact (frame_setSlice _ _ _).2.2
  · split
    · exact (frame_setString _ _ _).2.2
    · split
      · exact (frame_setBool _ _ _).2.2
      · rfl

/-! ## any table -/

abbrev Row := String × String × String
def fieldsOf (t : List Row) : List String := t.map (·.1)
def keysOf (t : List Row) : List String := t.map (·.2.1)

/-- a row names a field its accessor kind can write -/
def rowOK (row : Row) : Bool :=
  (row.2.2 == "slice" && sliceFields.contains row.1) || (row.2.2 == "string" && stringFields.contains row.1) ||
    (row.2.2 == "bool" && boolFields.contains row.1)

/-- what the proofs need from the regenerated table: distinct fields, distinct keys, well-kinded rows -/
def TableOK (t : List Row) : Prop := (fieldsOf t).Nodup ∧ (keysOf t).Nodup ∧ ∀ row ∈ t, rowOK row = true

instance (t : List Row) : Decidable (TableOK t) := by unfold TableOK; infer_instance

theorem cliTable_ok : TableOK Generated.cliTable := by decide

section fold
variable {α : Type} (get : Config → String → α) (acc : String → α → α) (kind : String) (valid : String → Prop)
  (cli : List (String × String))

theorem foldl_get_other
    (step_other : ∀ c (row : Row) g, (row.1 ≠ g ∨ row.2.2 ≠ kind) → get (applyCliRow cli c row) g = get c g) :
    ∀ (t : List Row) (c : Config) (g : String), (∀ k, (g, k, kind) ∉ t) →
      get (t.foldl (applyCliRow cli) c) g = get c g
  | [], _, _, _ => rfl
  | row :: t, c, g, h => by
    rw [List.foldl_cons, foldl_get_other step_other t _ g (fun k hk => h k (List.mem_cons_of_mem _ hk))]
    apply step_other
    obtain ⟨f, k, kd⟩ := row
    by_cases h1 : f = g
    · by_cases h2 : kd = kind
      · subst h1 h2; exact absurd List.mem_cons_self (h k)
      · exact Or.inr h2
    · exact Or.inl h1

theorem foldl_get_hit
    (step_other : ∀ c (row : Row) g, (row.1 ≠ g ∨ row.2.2 ≠ kind) → get (applyCliRow cli c row) g = get c g)
    (step_same : ∀ c g k, valid g → get (applyCliRow cli c (g, k, kind)) g = acc k (get c g)) :
    ∀ (t : List Row) (c : Config) (g k : String), (fieldsOf t).Nodup → (g, k, kind) ∈ t → valid g →
      get (t.foldl (applyCliRow cli) c) g = acc k (get c g)
  | [], _, _, _, _, h, _ => by cases h
  | row :: t, c, g, k, hnd, hmem, hv => by
    rw [List.foldl_cons]
    simp only [fieldsOf, List.map_cons, List.nodup_cons] at hnd
    rcases List.mem_cons.1 hmem with rfl | hmem'
    · rw [foldl_get_other get kind cli step_other t _ g]
      · exact step_same c g k hv
      · intro k' hk'
        exact hnd.1 (List.mem_map.2 ⟨_, hk', rfl⟩)
    · rw [foldl_get_hit step_other step_same t _ g k hnd.2 hmem' hv]
      congr 1
      apply step_other
      left
      intro h
      exact hnd.1 (List.mem_map.2 ⟨_, hmem', h.symm⟩)
end fold

theorem rowOK_slice {t : List Row} (h : TableOK t) {f k : String} (hm : (f, k, "slice") ∈ t) : f ∈ sliceFields := by
  have := h.2.2 _ hm
  simpa [rowOK] using this

theorem rowOK_string {t : List Row} (h : TableOK t) {f k : String} (hm : (f, k, "string") ∈ t) : f ∈ stringFields := by
  have := h.2.2 _ hm
  simpa [rowOK] using this

theorem rowOK_bool {t : List Row} (h : TableOK t) {f k : String} (hm : (f, k, "bool") ∈ t) : f ∈ boolFields := by
  have := h.2.2 _ hm
  simpa [rowOK] using this

theorem getSlice_step_other (cli : List (String × String)) (c : Config) (row : Row) (g : String)
    (h : row.1 ≠ g ∨ row.2.2 ≠ "slice") : (applyCliRow cli c row).getSlice g = c.getSlice g := by
  obtain ⟨f, k, kd⟩ := row
  rw [applyCliRow_getSlice]
  rcases h with h | h
  · simp [Ne.symm h]
  · simp at h; simp [h]

theorem getString_step_other (cli : List (String × String)) (c : Config) (row : Row) (g : String)
    (h : row.1 ≠ g ∨ row.2.2 ≠ "string") : (applyCliRow cli c row).getString g = c.getString g := by
  obtain ⟨f, k, kd⟩ := row
  rw [applyCliRow_getString]
  rcases h with h | h
  · simp [Ne.symm h]
  · simp at h; simp [h]

theorem getBool_step_other (cli : List (String × String)) (c : Config) (row : Row) (g : String)
    (h : row.1 ≠ g ∨ row.2.2 ≠ "bool") : (applyCliRow cli c row).getBool g = c.getBool g := by
  obtain ⟨f, k, kd⟩ := row
  rw [applyCliRow_getBool]
  rcases h with h | h
  · simp [Ne.symm h]
  · simp at h; simp [h]

section table
variable {t : List Row} (ok : TableOK t) (cli : List (String × String)) (c : Config)

include ok in
theorem foldl_getSlice {f k : String} (hm : (f, k, "slice") ∈ t) :
    (t.foldl (applyCliRow cli) c).getSlice f = getSliceParam cli k (c.getSlice f) := by
  refine foldl_get_hit Config.getSlice (getSliceParam cli) "slice" (· ∈ sliceFields) cli
    (getSlice_step_other cli) ?_ t c f k ok.1 hm (rowOK_slice ok hm)
  intro c g k hv
  rw [applyCliRow_getSlice]; simp [hv]

include ok in
theorem foldl_getString {f k : String} (hm : (f, k, "string") ∈ t) :
    (t.foldl (applyCliRow cli) c).getString f = getStringParam cli k (c.getString f) := by
  refine foldl_get_hit Config.getString (getStringParam cli) "string" (· ∈ stringFields) cli
    (getString_step_other cli) ?_ t c f k ok.1 hm (rowOK_string ok hm)
  intro c g k hv
  rw [applyCliRow_getString]; simp [hv]

include ok in
theorem foldl_getBool {f k : String} (hm : (f, k, "bool") ∈ t) :
    (t.foldl (applyCliRow cli) c).getBool f = getBoolParam cli k (c.getBool f) := by
  refine foldl_get_hit Config.getBool (getBoolParam cli) "bool" (· ∈ boolFields) cli
    (getBool_step_other cli) ?_ t c f k ok.1 hm (rowOK_bool ok hm)
  intro c g k hv
  rw [applyCliRow_getBool]; simp [hv]

theorem foldl_getSlice_other {g : String} (h : ∀ k, (g, k, "slice") ∉ t) :
    (t.foldl (applyCliRow cli) c).getSlice g = c.getSlice g :=
  foldl_get_other Config.getSlice "slice" cli (getSlice_step_other cli) t c g h

theorem foldl_getString_other {g : String} (h : ∀ k, (g, k, "string") ∉ t) :
    (t.foldl (applyCliRow cli) c).getString g = c.getString g :=
  foldl_get_other Config.getString "string" cli (getString_step_other cli) t c g h

theorem foldl_getBool_other {g : String} (h : ∀ k, (g, k, "bool") ∉ t) :
    (t.foldl (applyCliRow cli) c).getBool g = c.getBool g :=
  foldl_get_other Config.getBool "bool" cli (getBool_step_other cli) t c g h

theorem foldl_rest : ∀ (t : List Row) (c : Config), rest (t.foldl (applyCliRow cli) c) = rest c
  | [], _ => rfl
  | row :: t, c => by rw [List.foldl_cons, foldl_rest t, applyCliRow_rest]

end table

/-! ## 1. `readFromCLI`, field by field -/

/-- After `readFromCLI`, the field of every row of the regenerated table holds exactly what the row's accessor
returns on (command line, key, YAML value); what no row of that kind names is the input's. -/
theorem readFromCLI_field (cli : List (String × String)) (c : Config) :
    (∀ f k, (f, k, "slice") ∈ Generated.cliTable →
      (readFromCLI cli c).getSlice f = getSliceParam cli k (c.getSlice f)) ∧
    (∀ f k, (f, k, "string") ∈ Generated.cliTable →
      (readFromCLI cli c).getString f = getStringParam cli k (c.getString f)) ∧
    (∀ f k, (f, k, "bool") ∈ Generated.cliTable →
      (readFromCLI cli c).getBool f = getBoolParam cli k (c.getBool f)) ∧
    (∀ g, (∀ k, (g, k, "slice") ∉ Generated.cliTable) → (readFromCLI cli c).getSlice g = c.getSlice g) ∧
    (∀ g, (∀ k, (g, k, "string") ∉ Generated.cliTable) → (readFromCLI cli c).getString g = c.getString g) ∧
    (∀ g, (∀ k, (g, k, "bool") ∉ Generated.cliTable) → (readFromCLI cli c).getBool g = c.getBool g) ∧
    rest (readFromCLI cli c) = rest c :=
  ⟨fun _ _ h => foldl_getSlice cliTable_ok cli c h, fun _ _ h => foldl_getString cliTable_ok cli c h,
    fun _ _ h => foldl_getBool cliTable_ok cli c h, fun _ h => foldl_getSlice_other cli c h,
    fun _ h => foldl_getString_other cli c h, fun _ h => foldl_getBool_other cli c h, foldl_rest cli _ c⟩

/-- The same, written out as a record (instantiation of `readFromCLI_field` at the nine rows). -/
theorem readFromCLI_eq (cli : List (String × String)) (c : Config) :
    readFromCLI cli c =
      { c with
        types := getSliceParam cli "types" c.types
        excludeFields := getSliceParam cli "exclude_fields" c.excludeFields
        computedFields := getSliceParam cli "computed_fields" c.computedFields
        requiredFields := getSliceParam cli "required_fields" c.requiredFields
        sensitiveFields := getSliceParam cli "sensitive" c.sensitiveFields
        defaultPackageName := getStringParam cli "default_package_name" c.defaultPackageName
        targetPackageName := getStringParam cli "target_package_name" c.targetPackageName
        durationCustomType := getStringParam cli "custom_duration" c.durationCustomType
        sort := getBoolParam cli "sort" c.sort } := by
  obtain ⟨h1, h2, h3, h4, h5, h6, h7⟩ := readFromCLI_field cli c
  apply Config.ext_get
  · intro g
    rcases sliceField_cases g with rfl | rfl | rfl | rfl | rfl | h
    · rw [h1 _ "types" (by decide)]; simp [Config.getSlice]
    · rw [h1 _ "exclude_fields" (by decide)]; simp [Config.getSlice]
    · rw [h1 _ "computed_fields" (by decide)]; simp [Config.getSlice]
    · rw [h1 _ "required_fields" (by decide)]; simp [Config.getSlice]
    · rw [h1 _ "sensitive" (by decide)]; simp [Config.getSlice]
    · rw [getSlice_of_not_mem h, getSlice_of_not_mem h]
  · intro g
    rcases stringField_cases g with rfl | rfl | rfl | h
    · rw [h2 _ "default_package_name" (by decide)]; simp [Config.getString]
    · rw [h2 _ "target_package_name" (by decide)]; simp [Config.getString]
    · rw [h2 _ "custom_duration" (by decide)]; simp [Config.getString]
    · rw [getString_of_not_mem h, getString_of_not_mem h]
  · intro g
    rcases boolField_cases g with rfl | rfl | h
    · rw [h3 _ "sort" (by decide)]; simp [Config.getBool]
    · rw [h6 _ (by intro k; simp [Generated.cliTable])]; simp [Config.getBool]
    · rw [getBool_of_not_mem h, getBool_of_not_mem h]
  · rw [h7]; simp [rest]

/-! ## the accessors -/

/-- what the accessors see of the command line: `strings.TrimSpace(c.params[name])` -/
def cliValue (cli : List (String × String)) (k : String) : String :=
  String.ofList (trimSpace (paramLookup cli k).toList)

theorem getStringParam_eq (cli : List (String × String)) (k d : String) :
    getStringParam cli k d = if cliValue cli k = "" then d else cliValue cli k := by
  simp [getStringParam, cliValue]

theorem getSliceParam_eq (cli : List (String × String)) (k : String) (d : List String) :
    getSliceParam cli k d =
      if cliValue cli k = "" then d else (splitOnChar '+' (cliValue cli k).toList).map String.ofList := by
  have hd : Generated.paramDelimiter.toList = ['+'] := by decide
  simp only [getSliceParam, getStringParam_eq, hd]
  by_cases h : cliValue cli k = "" <;> simp [h]

theorem parseBool_empty : parseBool "" = none := by decide
theorem asciiLower_empty : asciiLower "" = "" := by decide

theorem getBoolParam_eq (cli : List (String × String)) (k : String) (d : Bool) :
    getBoolParam cli k d = (parseBool (asciiLower (cliValue cli k))).getD d := by
  simp only [getBoolParam, getStringParam_eq]
  by_cases h : cliValue cli k = ""
  · simp [h, asciiLower_empty, parseBool_empty]
  · simp only [h, if_false]
    split
    · rename_i h2
      simp only [beq_iff_eq] at h2
      rw [h2, parseBool_empty]; rfl
    · rfl

/-- the accessors read the command line only through `c.params[name]` -/
theorem accessors_congr {cli1 cli2 : List (String × String)} {k : String}
    (h : paramLookup cli1 k = paramLookup cli2 k) :
    (∀ d, getSliceParam cli1 k d = getSliceParam cli2 k d) ∧ (∀ d, getStringParam cli1 k d = getStringParam cli2 k d) ∧
      (∀ d, getBoolParam cli1 k d = getBoolParam cli2 k d) := by
  have : cliValue cli1 k = cliValue cli2 k := by simp [cliValue, h]
  simp [getSliceParam_eq, getStringParam_eq, getBoolParam_eq, this]

/-! ## two runs that differ in one option -/

theorem inj_of_nodup_map {α β : Type} (f : α → β) :
    ∀ {l : List α}, (l.map f).Nodup → ∀ a ∈ l, ∀ b ∈ l, f a = f b → a = b
  | [], _, _, ha, _, _, _ => by cases ha
  | x :: l, hnd, a, ha, b, hb, hab => by
    simp only [List.map_cons, List.nodup_cons] at hnd
    rcases List.mem_cons.1 ha with rfl | ha' <;> rcases List.mem_cons.1 hb with rfl | hb'
    · rfl
    · exact absurd (List.mem_map.2 ⟨_, hb', hab.symm⟩) hnd.1
    · exact absurd (List.mem_map.2 ⟨_, ha', hab⟩) hnd.1
    · exact inj_of_nodup_map f hnd.2 a ha' b hb' hab

/-- the two configurations agree wherever the three accessors read, except possibly at slot (`kind`, `f`) -/
def Agree (kind f : String) (c1 c2 : Config) : Prop :=
  (∀ g, ¬(kind = "slice" ∧ g = f) → c1.getSlice g = c2.getSlice g) ∧
  (∀ g, ¬(kind = "string" ∧ g = f) → c1.getString g = c2.getString g) ∧
  (∀ g, ¬(kind = "bool" ∧ g = f) → c1.getBool g = c2.getBool g) ∧ rest c1 = rest c2

section congr
variable {t : List Row} (ok : TableOK t) {f k kind : String} (hm : (f, k, kind) ∈ t)
  {cli1 cli2 : List (String × String)} (hcli : ∀ k', k' ≠ k → paramLookup cli1 k' = paramLookup cli2 k')
  {c1 c2 : Config}
include ok hm hcli

theorem foldl_get_congr {α : Type} (get : Config → String → α) (acc1 acc2 : String → α → α) (kd : String)
    (hit1 : ∀ c g k', (g, k', kd) ∈ t → get (t.foldl (applyCliRow cli1) c) g = acc1 k' (get c g))
    (hit2 : ∀ c g k', (g, k', kd) ∈ t → get (t.foldl (applyCliRow cli2) c) g = acc2 k' (get c g))
    (other1 : ∀ c g, (∀ k', (g, k', kd) ∉ t) → get (t.foldl (applyCliRow cli1) c) g = get c g)
    (other2 : ∀ c g, (∀ k', (g, k', kd) ∉ t) → get (t.foldl (applyCliRow cli2) c) g = get c g)
    (hacc : ∀ k' d, paramLookup cli1 k' = paramLookup cli2 k' → acc1 k' d = acc2 k' d)
    (agree : ∀ g, ¬(kind = kd ∧ g = f) → get c1 g = get c2 g)
    (hitf : kind = kd → acc1 k (get c1 f) = acc2 k (get c2 f)) (g : String) :
    get (t.foldl (applyCliRow cli1) c1) g = get (t.foldl (applyCliRow cli2) c2) g := by
  by_cases hex : ∃ k', (g, k', kd) ∈ t
  · obtain ⟨k', hk'⟩ := hex
    rw [hit1 _ _ _ hk', hit2 _ _ _ hk']
    by_cases hgf : g = f
    · subst hgf
      have := inj_of_nodup_map (fun r : Row => r.1) (l := t) ok.1 _ hk' _ hm rfl
      simp only [Prod.mk.injEq, true_and] at this
      obtain ⟨rfl, rfl⟩ := this
      exact hitf rfl
    · rw [agree g (fun h => hgf h.2)]
      apply hacc
      apply hcli
      intro hkk
      subst hkk
      have := inj_of_nodup_map (fun r : Row => r.2.1) (l := t) ok.2.1 _ hk' _ hm rfl
      simp only [Prod.mk.injEq] at this
      exact hgf this.1
  · have hno : ∀ k', (g, k', kd) ∉ t := fun k' h => hex ⟨k', h⟩
    rw [other1 _ _ hno, other2 _ _ hno]
    apply agree
    rintro ⟨rfl, rfl⟩
    exact hno k hm

/-- Two runs of the table whose command lines differ only at key `k` and whose inputs differ only at the slot that
the row of `k` writes end in the same configuration, provided that row's accessor returns the same on both. -/
theorem foldl_congr (hag : Agree kind f c1 c2)
    (hs : kind = "slice" → getSliceParam cli1 k (c1.getSlice f) = getSliceParam cli2 k (c2.getSlice f))
    (hst : kind = "string" → getStringParam cli1 k (c1.getString f) = getStringParam cli2 k (c2.getString f))
    (hb : kind = "bool" → getBoolParam cli1 k (c1.getBool f) = getBoolParam cli2 k (c2.getBool f)) :
    t.foldl (applyCliRow cli1) c1 = t.foldl (applyCliRow cli2) c2 := by
  apply Config.ext_get
  · exact foldl_get_congr ok hm hcli Config.getSlice (getSliceParam cli1) (getSliceParam cli2) "slice"
      (fun c _ _ h => foldl_getSlice ok cli1 c h) (fun c _ _ h => foldl_getSlice ok cli2 c h)
      (fun c _ h => foldl_getSlice_other cli1 c h) (fun c _ h => foldl_getSlice_other cli2 c h)
      (fun _ d h => (accessors_congr h).1 d) hag.1 hs
  · exact foldl_get_congr ok hm hcli Config.getString (getStringParam cli1) (getStringParam cli2) "string"
      (fun c _ _ h => foldl_getString ok cli1 c h) (fun c _ _ h => foldl_getString ok cli2 c h)
      (fun c _ h => foldl_getString_other cli1 c h) (fun c _ h => foldl_getString_other cli2 c h)
      (fun _ d h => (accessors_congr h).2.1 d) hag.2.1 hst
  · exact foldl_get_congr ok hm hcli Config.getBool (getBoolParam cli1) (getBoolParam cli2) "bool"
      (fun c _ _ h => foldl_getBool ok cli1 c h) (fun c _ _ h => foldl_getBool ok cli2 c h)
      (fun c _ h => foldl_getBool_other cli1 c h) (fun c _ h => foldl_getBool_other cli2 c h)
      (fun _ d h => (accessors_congr h).2.2 d) hag.2.2.1 hb
  · rw [foldl_rest, foldl_rest]; exact hag.2.2.2
end congr

/-! ## strings -/

theorem paramLookup_append_same (cli : List (String × String)) (k s : String) :
    paramLookup (cli ++ [(k, s)]) k = s := by
  simp [paramLookup]

theorem paramLookup_append_other (cli : List (String × String)) {k k' : String} (s : String) (h : k' ≠ k) :
    paramLookup (cli ++ [(k, s)]) k' = paramLookup cli k' := by
  have : (k == k') = false := by simpa using Ne.symm h
  simp [paramLookup, this]

theorem paramLookup_not_mentioned {cli : List (String × String)} {k : String} (h : ∀ p ∈ cli, p.1 ≠ k) :
    paramLookup cli k = "" := by
  have : cli.reverse.find? (·.1 == k) = none := by
    simp only [List.find?_eq_none, List.mem_reverse]
    intro p hp; simpa using h p hp
  simp [paramLookup, this]

theorem cliValue_not_mentioned {cli : List (String × String)} {k : String} (h : ∀ p ∈ cli, p.1 ≠ k) :
    cliValue cli k = "" := by
  rw [cliValue, paramLookup_not_mentioned h]; decide

theorem dropWhile_eq_self {p : Char → Bool} : ∀ {s : Str}, (∀ x, s.head? = some x → p x = false) → s.dropWhile p = s
  | [], _ => rfl
  | a :: s, h => by simp [List.dropWhile, h a rfl]

/-- `strings.TrimSpace` leaves alone exactly the strings that neither start nor end with a blank -/
theorem trimSpace_eq_self {s : Str} (hh : ∀ x, s.head? = some x → isGoSpace x = false)
    (hl : ∀ x, s.getLast? = some x → isGoSpace x = false) : trimSpace s = s := by
  unfold trimSpace dropWhileEnd
  rw [dropWhile_eq_self hh, dropWhile_eq_self, List.reverse_reverse]
  intro x hx
  apply hl
  simpa [List.head?_reverse] using hx

theorem trimSpace_eq_self_of_no_space {s : Str} (h : ∀ x ∈ s, isGoSpace x = false) : trimSpace s = s :=
  trimSpace_eq_self (fun x hx => h x (List.mem_of_mem_head? hx)) (fun x hx => h x (List.mem_of_getLast? hx))

theorem splitOnChar_ne_nil' (c : Char) : ∀ s : Str, splitOnChar c s ≠ []
  | [] => by simp [splitOnChar]
  | a :: s => by
    unfold splitOnChar
    split
    · simp
    · split <;> simp

theorem splitOnChar_no_sep' (c : Char) : ∀ {x : Str}, c ∉ x → splitOnChar c x = [x]
  | [], _ => rfl
  | a :: x, h => by
    have h1 : a ≠ c := fun e => h (e ▸ List.mem_cons_self)
    have h2 : c ∉ x := fun e => h (List.mem_cons_of_mem _ e)
    unfold splitOnChar
    rw [splitOnChar_no_sep' c h2]
    simp [h1]

theorem splitOnChar_append_sep (c : Char) (rest : Str) : ∀ {x : Str}, c ∉ x →
    splitOnChar c (x ++ c :: rest) = x :: splitOnChar c rest
  | [], _ => by
    show splitOnChar c (c :: rest) = _
    rw [splitOnChar]
    split
    · rename_i h; exact absurd h (splitOnChar_ne_nil' c rest)
    · rename_i hd tl h; simp [h]
  | a :: x, h => by
    have h1 : a ≠ c := fun e => h (e ▸ List.mem_cons_self)
    have h2 : c ∉ x := fun e => h (List.mem_cons_of_mem _ e)
    show splitOnChar c (a :: (x ++ c :: rest)) = _
    rw [splitOnChar, splitOnChar_append_sep c rest h2]
    simp [h1]

/-- `strings.Split(strings.Join(l, "+"), "+") = l` for a non-empty `l` whose elements contain no `+` -/
theorem splitOnChar_joinWith (c : Char) : ∀ {l : List Str}, l ≠ [] → (∀ x ∈ l, c ∉ x) →
    splitOnChar c (joinWith [c] l) = l
  | [], h, _ => absurd rfl h
  | [x], _, h => by
    show splitOnChar c x = [x]
    exact splitOnChar_no_sep' c (h x List.mem_cons_self)
  | x :: y :: l, _, h => by
    show splitOnChar c (x ++ [c] ++ joinWith [c] (y :: l)) = _
    rw [List.append_assoc, List.singleton_append, splitOnChar_append_sep c _ (h x List.mem_cons_self),
      splitOnChar_joinWith c (by simp) (fun z hz => h z (List.mem_cons_of_mem _ hz))]

/-! ## 2. precedence -/

theorem agree_setSlice (y : Config) (f : String) (d d' : List String) :
    Agree "slice" f (y.setSlice f d) (y.setSlice f d') := by
  refine ⟨fun g hg => ?_, fun g _ => ?_, fun g _ => ?_, ?_⟩
  · have : g ≠ f := fun e => hg ⟨rfl, e⟩
    simp [getSlice_setSlice, this]
  · rw [(frame_setSlice _ _ _).1, (frame_setSlice _ _ _).1]
  · rw [(frame_setSlice _ _ _).2.1, (frame_setSlice _ _ _).2.1]
  · rw [(frame_setSlice _ _ _).2.2, (frame_setSlice _ _ _).2.2]

theorem agree_setString (y : Config) (f : String) (d d' : String) :
    Agree "string" f (y.setString f d) (y.setString f d') := by
  refine ⟨fun g _ => ?_, fun g hg => ?_, fun g _ => ?_, ?_⟩
  · rw [(frame_setString _ _ _).1, (frame_setString _ _ _).1]
  · have : g ≠ f := fun e => hg ⟨rfl, e⟩
    simp [getString_setString, this]
  · rw [(frame_setString _ _ _).2.1, (frame_setString _ _ _).2.1]
  · rw [(frame_setString _ _ _).2.2, (frame_setString _ _ _).2.2]

theorem agree_setBool (y : Config) (f : String) (d d' : Bool) :
    Agree "bool" f (y.setBool f d) (y.setBool f d') := by
  refine ⟨fun g _ => ?_, fun g _ => ?_, fun g hg => ?_, ?_⟩
  · rw [(frame_setBool _ _ _).1, (frame_setBool _ _ _).1]
  · rw [(frame_setBool _ _ _).2.1, (frame_setBool _ _ _).2.1]
  · have : g ≠ f := fun e => hg ⟨rfl, e⟩
    simp [getBool_setBool, this]
  · rw [(frame_setBool _ _ _).2.2, (frame_setBool _ _ _).2.2]

theorem readConfig_ok (y : Config) (cli : List (String × String)) :
    readConfig .ok y cli =
      if (readFromCLI cli y).types.isEmpty then .error .noTypes else .ok (readFromCLI cli y) := by
  simp [readConfig]

theorem readConfig_congr {y1 y2 : Config} {cli1 cli2 : List (String × String)}
    (h : readFromCLI cli1 y1 = readFromCLI cli2 y2) : readConfig .ok y1 cli1 = readConfig .ok y2 cli2 := by
  rw [readConfig_ok, readConfig_ok, h]

/-- accessor level: a non-blank command-line value hides the default; a blank or absent one returns it.
For booleans "non-blank" is not enough: a value `strconv.ParseBool` rejects is logged and the default is kept. -/
theorem accessor_precedence (cli : List (String × String)) (k : String) :
    (cliValue cli k ≠ "" → ∀ d d', getSliceParam cli k d = getSliceParam cli k d') ∧
    (cliValue cli k ≠ "" → ∀ d d', getStringParam cli k d = getStringParam cli k d') ∧
    ((parseBool (asciiLower (cliValue cli k))).isSome → ∀ d d', getBoolParam cli k d = getBoolParam cli k d') ∧
    (cliValue cli k = "" → ∀ d, getSliceParam cli k d = d) ∧
    (cliValue cli k = "" → ∀ d, getStringParam cli k d = d) ∧
    (parseBool (asciiLower (cliValue cli k)) = none → ∀ d, getBoolParam cli k d = d) ∧
    (cliValue cli k = "" → parseBool (asciiLower (cliValue cli k)) = none) := by
  refine ⟨fun h d d' => ?_, fun h d d' => ?_, fun h d d' => ?_, fun h d => ?_, fun h d => ?_, fun h d => ?_, fun h => ?_⟩
  · simp [getSliceParam_eq, h]
  · simp [getStringParam_eq, h]
  · rw [getBoolParam_eq, getBoolParam_eq]
    cases hp : parseBool (asciiLower (cliValue cli k)) with
    | none => rw [hp] at h; cases h
    | some b => rfl
  · simp [getSliceParam_eq, h]
  · simp [getStringParam_eq, h]
  · rw [getBoolParam_eq, h]; rfl
  · rw [h]; decide

/-- The command line wins: with a non-blank value for the key of a row, the whole result of `readFromCLI` (hence of
`readConfig`) is independent of the YAML value of that row's field. -/
theorem cli_wins {f k : String} (cli : List (String × String)) (y : Config) :
    ((f, k, "slice") ∈ Generated.cliTable → cliValue cli k ≠ "" →
      ∀ d d', readFromCLI cli (y.setSlice f d) = readFromCLI cli (y.setSlice f d')) ∧
    ((f, k, "string") ∈ Generated.cliTable → cliValue cli k ≠ "" →
      ∀ d d', readFromCLI cli (y.setString f d) = readFromCLI cli (y.setString f d')) ∧
    ((f, k, "bool") ∈ Generated.cliTable → (parseBool (asciiLower (cliValue cli k))).isSome →
      ∀ d d', readFromCLI cli (y.setBool f d) = readFromCLI cli (y.setBool f d')) := by
  have ap := accessor_precedence cli k
  refine ⟨fun hm h d d' => ?_, fun hm h d d' => ?_, fun hm h d d' => ?_⟩
  · exact foldl_congr cliTable_ok hm (fun _ _ => rfl) (agree_setSlice y f d d') (fun _ => ap.1 h _ _)
      (fun e => absurd e (by decide)) (fun e => absurd e (by decide))
  · exact foldl_congr cliTable_ok hm (fun _ _ => rfl) (agree_setString y f d d') (fun e => absurd e (by decide))
      (fun _ => ap.2.1 h _ _) (fun e => absurd e (by decide))
  · exact foldl_congr cliTable_ok hm (fun _ _ => rfl) (agree_setBool y f d d') (fun e => absurd e (by decide))
      (fun e => absurd e (by decide)) (fun _ => ap.2.2.1 h _ _)

/-- Without a (non-blank, for booleans: parsable) command-line value the YAML value stays. -/
theorem yaml_stays {f k : String} (cli : List (String × String)) (y : Config) :
    ((f, k, "slice") ∈ Generated.cliTable → cliValue cli k = "" → (readFromCLI cli y).getSlice f = y.getSlice f) ∧
    ((f, k, "string") ∈ Generated.cliTable → cliValue cli k = "" → (readFromCLI cli y).getString f = y.getString f) ∧
    ((f, k, "bool") ∈ Generated.cliTable → parseBool (asciiLower (cliValue cli k)) = none →
      (readFromCLI cli y).getBool f = y.getBool f) := by
  have ap := accessor_precedence cli k
  obtain ⟨h1, h2, h3, -⟩ := readFromCLI_field cli y
  exact ⟨fun hm h => by rw [h1 f k hm, ap.2.2.2.1 h], fun hm h => by rw [h2 f k hm, ap.2.2.2.2.1 h],
    fun hm h => by rw [h3 f k hm, ap.2.2.2.2.2.1 h]⟩

/-! ## 3. channel equivalence -/

/-- how a boolean is written on the command line -/
def renderBool (b : Bool) : String := if b then "true" else "false"

/-- how a list is written on the command line: `strings.Join(l, "+")` -/
def renderSlice (l : List String) : String := String.ofList (joinWith ['+'] (l.map String.toList))

/-- a value the command line can carry: `strings.TrimSpace` does not change it and it is not empty
(an empty value is indistinguishable from an absent parameter) -/
def Expressible (v : String) : Prop := trimSpace v.toList = v.toList ∧ v ≠ ""

theorem cliValue_append {cli : List (String × String)} {k v : String} (hv : Expressible v) :
    cliValue (cli ++ [(k, v)]) k = v := by
  rw [cliValue, paramLookup_append_same, hv.1, String.ofList_toList]

theorem getStringParam_append (cli : List (String × String)) (k : String) {v : String} (hv : Expressible v)
    (d : String) : getStringParam (cli ++ [(k, v)]) k d = v := by
  rw [getStringParam_eq, cliValue_append hv]; simp [hv.2]

theorem expressible_renderBool (b : Bool) : Expressible (renderBool b) := by
  cases b <;> exact ⟨by decide, by decide⟩

theorem getBoolParam_append (cli : List (String × String)) (k : String) (b d : Bool) :
    getBoolParam (cli ++ [(k, renderBool b)]) k d = b := by
  rw [getBoolParam_eq, cliValue_append (expressible_renderBool b)]
  cases b <;> cases d <;> decide

theorem getSliceParam_append (cli : List (String × String)) (k : String) {l : List String}
    (hv : Expressible (renderSlice l)) (hplus : ∀ x ∈ l, '+' ∉ x.toList) (d : List String) :
    getSliceParam (cli ++ [(k, renderSlice l)]) k d = l := by
  rw [getSliceParam_eq, cliValue_append hv]
  simp only [hv.2, if_false]
  have hne : l.map String.toList ≠ [] := by
    intro h
    apply hv.2
    simp only [List.map_eq_nil_iff] at h
    subst h; decide
  rw [renderSlice, String.toList_ofList, splitOnChar_joinWith '+' hne]
  · simp [List.map_map, Function.comp_def]
  · intro x hx
    obtain ⟨s, hs, rfl⟩ := List.mem_map.1 hx
    exact hplus s hs

theorem cli_other_keys (cli : List (String × String)) (k s : String) :
    ∀ k', k' ≠ k → paramLookup cli k' = paramLookup (cli ++ [(k, s)]) k' :=
  fun _ h => (paramLookup_append_other cli s h).symm

/-- CHANNEL EQUIVALENCE, string options. Side conditions: the command line does not already give a non-blank value for
the key (else that value wins on the left-hand side too), and `v` is expressible. -/
theorem channel_string {f k : String} (hm : (f, k, "string") ∈ Generated.cliTable) {cli : List (String × String)}
    (hcli : cliValue cli k = "") {v : String} (hv : Expressible v) (y : Config) (d : String) :
    readConfig .ok (y.setString f v) cli = readConfig .ok (y.setString f d) (cli ++ [(k, v)]) := by
  apply readConfig_congr
  refine foldl_congr cliTable_ok hm (cli_other_keys cli k v) (agree_setString y f v d)
    (fun e => absurd e (by decide)) (fun _ => ?_) (fun e => absurd e (by decide))
  rw [getStringParam_append _ _ hv, (accessor_precedence cli k).2.2.2.2.1 hcli, getString_setString]
  simp [rowOK_string cliTable_ok hm]

/-- CHANNEL EQUIVALENCE, boolean options (no side condition on `b`). -/
theorem channel_bool {f k : String} (hm : (f, k, "bool") ∈ Generated.cliTable) {cli : List (String × String)}
    (hcli : cliValue cli k = "") (b : Bool) (y : Config) (d : Bool) :
    readConfig .ok (y.setBool f b) cli = readConfig .ok (y.setBool f d) (cli ++ [(k, renderBool b)]) := by
  apply readConfig_congr
  refine foldl_congr cliTable_ok hm (cli_other_keys cli k _) (agree_setBool y f b d)
    (fun e => absurd e (by decide)) (fun e => absurd e (by decide)) (fun _ => ?_)
  have ap := accessor_precedence cli k
  rw [getBoolParam_append, ap.2.2.2.2.2.1 (ap.2.2.2.2.2.2 hcli), getBool_setBool]
  simp [rowOK_bool cliTable_ok hm]

/-- CHANNEL EQUIVALENCE, list options, `+` as separator. Side conditions: no element contains `+`, and the joined
string is expressible (not empty - so `l` is neither `[]` nor `[""]` - and neither starts nor ends with a blank). -/
theorem channel_slice {f k : String} (hm : (f, k, "slice") ∈ Generated.cliTable) {cli : List (String × String)}
    (hcli : cliValue cli k = "") {l : List String} (hv : Expressible (renderSlice l))
    (hplus : ∀ x ∈ l, '+' ∉ x.toList) (y : Config) (d : List String) :
    readConfig .ok (y.setSlice f l) cli = readConfig .ok (y.setSlice f d) (cli ++ [(k, renderSlice l)]) := by
  apply readConfig_congr
  refine foldl_congr cliTable_ok hm (cli_other_keys cli k _) (agree_setSlice y f l d)
    (fun _ => ?_) (fun e => absurd e (by decide)) (fun e => absurd e (by decide))
  rw [getSliceParam_append _ _ hv hplus, (accessor_precedence cli k).2.2.2.1 hcli, getSlice_setSlice]
  simp [rowOK_slice cliTable_ok hm]

theorem mem_joinWith' {sep : Str} : ∀ {l : List Str} {x : Char}, x ∈ joinWith sep l → x ∈ sep ∨ ∃ p ∈ l, x ∈ p
  | [], _, h => by cases h
  | [p], _, h => Or.inr ⟨p, List.mem_cons_self, h⟩
  | p :: q :: l, x, h => by
    have h' : x ∈ p ++ sep ++ joinWith sep (q :: l) := h
    rcases List.mem_append.1 h' with h1 | h1
    · rcases List.mem_append.1 h1 with h2 | h2
      · exact Or.inr ⟨p, List.mem_cons_self, h2⟩
      · exact Or.inl h2
    · rcases mem_joinWith' h1 with h2 | ⟨r, hr, hx⟩
      · exact Or.inl h2
      · exact Or.inr ⟨r, List.mem_cons_of_mem _ hr, hx⟩

/-- a sufficient condition on the elements: blank-free elements (e.g. type or field names), `l` neither `[]` nor `[""]` -/
theorem expressible_renderSlice {l : List String} (hne : l ≠ []) (hne' : l ≠ [""])
    (hsp : ∀ x ∈ l, ∀ ch ∈ x.toList, isGoSpace ch = false) : Expressible (renderSlice l) := by
  constructor
  · rw [renderSlice, String.toList_ofList]
    apply trimSpace_eq_self_of_no_space
    intro ch hch
    rcases mem_joinWith' hch with h | ⟨p, hp, hx⟩
    · simp only [List.mem_singleton] at h; subst h; decide
    · obtain ⟨s, hs, rfl⟩ := List.mem_map.1 hp
      exact hsp s hs ch hx
  · intro h
    have h2 : joinWith ['+'] (l.map String.toList) = [] := by
      have := congrArg String.toList h
      simpa [renderSlice] using this
    match l, hne, hne' with
    | [x], _, hx =>
      have : x.toList = [] := h2
      apply hx
      rw [← String.ofList_toList (s := x), this]
    | x :: y :: r, _, _ =>
      have : x.toList ++ ['+'] ++ joinWith ['+'] ((y :: r).map String.toList) = [] := h2
      simp at this

/-! ### the side conditions are needed (facts about the tool, by evaluation) -/

/-- a leading or trailing blank is lost on the command line -/
example : getStringParam [("custom_duration", " D")] "custom_duration" "y" = "D" := by decide
/-- an empty string cannot be given on the command line: the YAML value stays -/
example : getStringParam [("custom_duration", "")] "custom_duration" "y" = "y" := by decide
/-- an element containing `+` is split -/
example : getSliceParam [("types", renderSlice ["A+B"])] "types" [] = ["A", "B"] := by decide
/-- the empty list and `[""]` cannot be given on the command line: the YAML value stays -/
example : getSliceParam [("types", renderSlice [])] "types" ["Y"] = ["Y"] := by decide
example : getSliceParam [("types", renderSlice [""])] "types" ["Y"] = ["Y"] := by decide
/-- a blank at either end of the joined string is lost; blanks inside are kept (elements are not trimmed) -/
example : getSliceParam [("types", renderSlice [" A", "B "])] "types" [] = ["A", "B"] := by decide
example : getSliceParam [("types", renderSlice ["A ", " B"])] "types" [] = ["A ", " B"] := by decide
/-- a value the command line already carries wins on both sides, so the equivalence needs `cliValue cli k = ""` -/
example : getStringParam [("custom_duration", "X")] "custom_duration" "D" ≠
    getStringParam ([("custom_duration", "X")] ++ [("custom_duration", "D")]) "custom_duration" "y" := by decide
/-- an unparsable boolean on the command line does not win: the YAML value stays -/
example : getBoolParam [("sort", "yes")] "sort" true = true ∧ getBoolParam [("sort", "yes")] "sort" false = false := by
  decide

/-! ### every row of the regenerated table, written out -/

/-- every row's accessor kind is one of the three, so `channel_slice`, `channel_string`, `channel_bool` cover the table -/
theorem cliTable_kinds : ∀ row ∈ Generated.cliTable, row.2.2 = "slice" ∨ row.2.2 = "string" ∨ row.2.2 = "bool" := by
  decide

/-- a list the command line can carry -/
def SliceExpressible (l : List String) : Prop := Expressible (renderSlice l) ∧ ∀ x ∈ l, '+' ∉ x.toList

/-- The nine dual options, in record notation: moving the option from the YAML record to the command line (appended to
a command line that gives no value for the key), with ANY value `d` left in the YAML field, gives the same
`readConfig` result. -/
theorem channel_equiv_table (cli : List (String × String)) (y : Config) :
    (∀ l d, cliValue cli "types" = "" → SliceExpressible l →
      readConfig .ok { y with types := l } cli =
        readConfig .ok { y with types := d } (cli ++ [("types", renderSlice l)])) ∧
    (∀ l d, cliValue cli "exclude_fields" = "" → SliceExpressible l →
      readConfig .ok { y with excludeFields := l } cli =
        readConfig .ok { y with excludeFields := d } (cli ++ [("exclude_fields", renderSlice l)])) ∧
    (∀ l d, cliValue cli "computed_fields" = "" → SliceExpressible l →
      readConfig .ok { y with computedFields := l } cli =
        readConfig .ok { y with computedFields := d } (cli ++ [("computed_fields", renderSlice l)])) ∧
    (∀ l d, cliValue cli "required_fields" = "" → SliceExpressible l →
      readConfig .ok { y with requiredFields := l } cli =
        readConfig .ok { y with requiredFields := d } (cli ++ [("required_fields", renderSlice l)])) ∧
    (∀ l d, cliValue cli "sensitive" = "" → SliceExpressible l →
      readConfig .ok { y with sensitiveFields := l } cli =
        readConfig .ok { y with sensitiveFields := d } (cli ++ [("sensitive", renderSlice l)])) ∧
    (∀ v d, cliValue cli "default_package_name" = "" → Expressible v →
      readConfig .ok { y with defaultPackageName := v } cli =
        readConfig .ok { y with defaultPackageName := d } (cli ++ [("default_package_name", v)])) ∧
    (∀ v d, cliValue cli "target_package_name" = "" → Expressible v →
      readConfig .ok { y with targetPackageName := v } cli =
        readConfig .ok { y with targetPackageName := d } (cli ++ [("target_package_name", v)])) ∧
    (∀ v d, cliValue cli "custom_duration" = "" → Expressible v →
      readConfig .ok { y with durationCustomType := v } cli =
        readConfig .ok { y with durationCustomType := d } (cli ++ [("custom_duration", v)])) ∧
    (∀ b d, cliValue cli "sort" = "" →
      readConfig .ok { y with sort := b } cli =
        readConfig .ok { y with sort := d } (cli ++ [("sort", renderBool b)])) := by
  refine ⟨fun l d h hl => ?_, fun l d h hl => ?_, fun l d h hl => ?_, fun l d h hl => ?_, fun l d h hl => ?_,
    fun v d h hv => ?_, fun v d h hv => ?_, fun v d h hv => ?_, fun b d h => ?_⟩
  · simpa [Config.setSlice] using channel_slice (f := "Types") (by decide) h hl.1 hl.2 y d
  · simpa [Config.setSlice] using channel_slice (f := "ExcludeFields") (by decide) h hl.1 hl.2 y d
  · simpa [Config.setSlice] using channel_slice (f := "ComputedFields") (by decide) h hl.1 hl.2 y d
  · simpa [Config.setSlice] using channel_slice (f := "RequiredFields") (by decide) h hl.1 hl.2 y d
  · simpa [Config.setSlice] using channel_slice (f := "SensitiveFields") (by decide) h hl.1 hl.2 y d
  · simpa [Config.setString] using channel_string (f := "DefaultPackageName") (by decide) h hv y d
  · simpa [Config.setString] using channel_string (f := "TargetPackageName") (by decide) h hv y d
  · simpa [Config.setString] using channel_string (f := "DurationCustomType") (by decide) h hv y d
  · simpa [Config.setBool] using channel_bool (f := "Sort") (by decide) h b y d

/-- "a cli that does not mention key" is a special case of `cliValue cli k = ""` -/
theorem channel_equiv_not_mentioned {f k : String} {cli : List (String × String)} (hcli : ∀ p ∈ cli, p.1 ≠ k)
    (y : Config) :
    ((f, k, "slice") ∈ Generated.cliTable → ∀ l d, SliceExpressible l →
      readConfig .ok (y.setSlice f l) cli = readConfig .ok (y.setSlice f d) (cli ++ [(k, renderSlice l)])) ∧
    ((f, k, "string") ∈ Generated.cliTable → ∀ v d, Expressible v →
      readConfig .ok (y.setString f v) cli = readConfig .ok (y.setString f d) (cli ++ [(k, v)])) ∧
    ((f, k, "bool") ∈ Generated.cliTable → ∀ b d,
      readConfig .ok (y.setBool f b) cli = readConfig .ok (y.setBool f d) (cli ++ [(k, renderBool b)])) :=
  ⟨fun hm _ d hl => channel_slice hm (cliValue_not_mentioned hcli) hl.1 hl.2 y d,
    fun hm _ d hv => channel_string hm (cliValue_not_mentioned hcli) hv y d,
    fun hm b d => channel_bool hm (cliValue_not_mentioned hcli) b y d⟩

/-- e.g. the README's `types=UserV2+UserSpecV2` -/
example (y : Config) (d : List String) :
    readConfig .ok { y with types := ["UserV2", "UserSpecV2"] } [] =
      readConfig .ok { y with types := d } [("types", "UserV2+UserSpecV2")] := by
  have h := (channel_equiv_table [] y).1 ["UserV2", "UserSpecV2"] d (by decide)
    ⟨expressible_renderSlice (by decide) (by decide) (by decide), by decide⟩
  exact h

end PGT.ConfigEquiv

#print axioms PGT.ConfigEquiv.readFromCLI_field
#print axioms PGT.ConfigEquiv.readFromCLI_eq
#print axioms PGT.ConfigEquiv.accessor_precedence
#print axioms PGT.ConfigEquiv.cli_wins
#print axioms PGT.ConfigEquiv.yaml_stays
#print axioms PGT.ConfigEquiv.channel_string
#print axioms PGT.ConfigEquiv.channel_bool
#print axioms PGT.ConfigEquiv.channel_slice
#print axioms PGT.ConfigEquiv.expressible_renderSlice
#print axioms PGT.ConfigEquiv.channel_equiv_table
#print axioms PGT.ConfigEquiv.channel_equiv_not_mentioned
