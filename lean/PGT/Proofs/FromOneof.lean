import PGT.Proofs.FromFrame
/-
Oneof groups in CopyFrom (C07): a branch block assigns the holder only when its attribute is known and non-null;
every other block leaves the holder alone (frame). Hence: all branch attributes null / unknown ⇒ the holder is nil
whatever the target held; exactly one known ⇒ the holder is that branch's wrapper.
-/
namespace PGT

/-- the holder after a branch block: unchanged, or – only if the branch attribute is known and non-null – this
branch's wrapper -/
theorem fieldWith_branch (rec : FromRec) (ov : List (String × String)) (info : FieldInfo) (mv : Option FieldInfo)
    (msg : Option MsgInfo) (attrs : Option (List (String × TfVal))) (st st' : FromSt)
    (ho : info.oneOfName ≠ "") (hk : info.kind = .primitive ∨ info.kind = .object)
    (hne : info.parentIsOptionalEmbed = false) (hs : IsStruct st.obj)
    (h : copyFromFieldWith rec ov info mv msg attrs st = .ok st') :
    (st'.obj.field? info.oneOfName = st.obj.field? info.oneOfName ∧
      ∀ a, (attrs.getD []).lookup info.nameSnake = some a → a.isKnown = true → a.vkind = vkindOf info.tf.valueType →
        a.vkind = .unknown) ∨
    (∃ a t, (attrs.getD []).lookup info.nameSnake = some a ∧ a.isKnown = true ∧
      st'.obj.field? info.oneOfName = some (.iface (some (lastSegment info.oneOfType, info.name, t)))) := by
  unfold copyFromFieldWith at h
  have hob : (info.oneOfName != "") = true := by simpa using ho
  have hoe : (info.oneOfName == "") = false := by simpa using ho
  have heg : ∀ a o, embedGuard info a o = some o := fun a o => by simp [embedGuard, hne]
  rcases hk with hk | hk
  · simp only [hk, heg] at h
    split at h
    · rename_i hnone
      injection h with h; subst h
      exact Or.inl ⟨rfl, fun a ha => by rw [hnone] at ha; cases ha⟩
    · rename_i a hl
      split at h
      · rename_i hcond
        injection h with h; subst h
        refine Or.inl ⟨rfl, fun a' ha' _ hv => ?_⟩
        rw [hl] at ha'
        injection ha' with ha'
        subst ha'
        simp only [Bool.or_eq_true, bne_iff_ne, ne_eq, beq_iff_eq] at hcond
        rcases hcond with hc | hc
        · exact absurd hv hc
        · exact hc
      · cases a with
        | prim k u n p =>
          simp only [hob, if_true] at h
          split at h
          · cases h
          · cases h
          · rename_i t hd
            split at h
            · rename_i hkn
              injection h with h; subst h
              exact Or.inr ⟨_, t, hl, by simpa [TfVal.isKnown] using hkn, field?_setField_same _ _ _ hs⟩
            · rename_i hkn
              injection h with h; subst h
              refine Or.inl ⟨rfl, fun a' ha' hk' _ => ?_⟩
              rw [hl] at ha'
              injection ha' with ha'
              subst ha'
              simp [TfVal.isKnown] at hk'
              exact absurd hk' hkn
        | list _ _ _ _ => cases h
        | map _ _ _ _ => cases h
        | obj _ _ _ _ => cases h
        | nilv => cases h
        | foreign _ => cases h
  · simp only [hk, heg] at h
    split at h
    · rename_i hnone
      injection h with h; subst h
      exact Or.inl ⟨rfl, fun a ha => by rw [hnone] at ha; cases ha⟩
    · rename_i a hl
      split at h
      · rename_i hcond
        injection h with h; subst h
        refine Or.inl ⟨rfl, fun a' ha' _ hv => ?_⟩
        rw [hl] at ha'
        injection ha' with ha'
        subst ha'
        simp only [Bool.or_eq_true, bne_iff_ne, ne_eq, beq_iff_eq] at hcond
        rcases hcond with hc | hc
        · exact absurd hv hc
        · exact hc
      · cases a with
        | obj u n as atys =>
          simp only [hoe, Bool.false_eq_true, if_false] at h
          split at h
          · rename_i hkn
            split at h
            · cases h
            · cases h
            · rename_i st1 hin
              injection h with h; subst h
              exact Or.inr ⟨_, _, hl, by simpa [TfVal.isKnown] using hkn, field?_setField_same _ _ _ hs⟩
          · rename_i hkn
            injection h with h; subst h
            refine Or.inl ⟨rfl, fun a' ha' hk' _ => ?_⟩
            rw [hl] at ha'
            injection ha' with ha'
            subst ha'
            simp [TfVal.isKnown] at hk'
            exact absurd hk' hkn
        | prim _ _ _ _ => cases h
        | list _ _ _ _ => cases h
        | map _ _ _ _ => cases h
        | nilv => cases h
        | foreign _ => cases h

/-- field `f` is a branch of group `g` (scalar or message branch), or its block cannot touch the Go field `g` -/
def GroupOK (g : String) (f : Field) : Prop :=
  (f.info.oneOfName = g ∧ (f.info.kind = .primitive ∨ f.info.kind = .object) ∧ f.info.parentIsOptionalEmbed = false) ∨
  g ∉ writeKeys f.info

/-- the branch attribute of `f` is known, non-null and of the right Go type -/
def BranchKnown (attrs : Option (List (String × TfVal))) (f : Field) : Prop :=
  ∃ a, (attrs.getD []).lookup f.info.nameSnake = some a ∧ a.isKnown = true ∧ a.vkind = vkindOf f.info.tf.valueType ∧
    a.vkind ≠ .unknown

theorem fromField_holder (ov : List (String × String)) (g : String) (hg : g ≠ "") (f : Field)
    (attrs : Option (List (String × TfVal))) (st st' : FromSt) (hs : IsStruct st.obj) (hok : GroupOK g f)
    (h : copyFromField ov f attrs st = .ok st') :
    IsStruct st'.obj ∧
    ((st'.obj.field? g = st.obj.field? g ∧ ¬ (f.info.oneOfName = g ∧ BranchKnown attrs f)) ∨
     (f.info.oneOfName = g ∧ (∃ a, (attrs.getD []).lookup f.info.nameSnake = some a ∧ a.isKnown = true) ∧
       ∃ t, st'.obj.field? g = some (.iface (some (lastSegment f.info.oneOfType, f.info.name, t))))) := by
  have hfr := fromField_frame ov f attrs st st' hs h
  refine ⟨hfr.1, ?_⟩
  obtain ⟨info, mv, msg, sub⟩ := f
  rcases hok with ⟨ho, hk, hne⟩ | hnot
  · simp only at ho hk hne
    simp only [copyFromField] at h
    have := fieldWith_branch _ ov info mv msg attrs st st' (by rw [ho]; exact hg) hk hne hs h
    rw [ho] at this
    rcases this with ⟨h1, h2⟩ | ⟨a, t, hl, hkn, hset⟩
    · left
      refine ⟨h1, ?_⟩
      rintro ⟨_, a, hl, hkn, hv, hnu⟩
      exact hnu (h2 a hl hkn hv)
    · right
      exact ⟨ho, ⟨a, hl, hkn⟩, t, hset⟩
  · left
    refine ⟨hfr.2 g hnot, ?_⟩
    rintro ⟨ho, _⟩
    apply hnot
    simp only at ho
    simp [writeKeys, ho]

/-- the holder after all field blocks: what it was, unless a branch with a known attribute assigned it – then it is the
wrapper of the *last* such branch -/
theorem fromFields_holder (ov : List (String × String)) (g : String) (hg : g ≠ "") :
    ∀ (fs : List Field) (attrs : Option (List (String × TfVal))) (st st' : FromSt), IsStruct st.obj →
    (∀ f ∈ fs, GroupOK g f) → (∀ f ∈ fs, f.info.isPlaceholder = false) → copyFromFields ov fs attrs st = .ok st' →
    IsStruct st'.obj ∧
    ((st'.obj.field? g = st.obj.field? g ∧ ∀ f ∈ fs, ¬ (f.info.oneOfName = g ∧ BranchKnown attrs f)) ∨
     (∃ f ∈ fs, f.info.oneOfName = g ∧ (∃ a, (attrs.getD []).lookup f.info.nameSnake = some a ∧ a.isKnown = true) ∧
       ∃ t, st'.obj.field? g = some (.iface (some (lastSegment f.info.oneOfType, f.info.name, t)))))
  | [], _, st, st', hs, _, _, h => by
    simp only [copyFromFields] at h
    injection h with h
    subst h
    exact ⟨hs, Or.inl ⟨rfl, by simp⟩⟩
  | f :: rest, attrs, st, st', hs, hok, hph, h => by
    simp only [copyFromFields, hph f (by simp), Bool.false_eq_true, if_false] at h
    cases hf : copyFromField ov f attrs st with
    | ok st1 =>
      rw [hf] at h
      obtain ⟨hs1, h1⟩ := fromField_holder ov g hg f attrs st st1 hs (hok f (by simp)) hf
      obtain ⟨hs2, h2⟩ := fromFields_holder ov g hg rest attrs st1 st' hs1 (fun x hx => hok x (by simp [hx]))
        (fun x hx => hph x (by simp [hx])) h
      refine ⟨hs2, ?_⟩
      rcases h2 with ⟨heq, hnone⟩ | ⟨f2, hf2, ho2, hk2, t2, hset2⟩
      · rcases h1 with ⟨heq1, hn1⟩ | ⟨ho1, hk1, t1, hset1⟩
        · left
          refine ⟨by rw [heq, heq1], ?_⟩
          intro x hx
          simp only [List.mem_cons] at hx
          rcases hx with rfl | hx
          · exact hn1
          · exact hnone x hx
        · right
          exact ⟨f, by simp, ho1, hk1, t1, by rw [heq]; exact hset1⟩
      · right
        exact ⟨f2, by simp [hf2], ho2, hk2, t2, hset2⟩
    | panic w => rw [hf] at h; cases h
    | stuck w => rw [hf] at h; cases h

end PGT
