import PGT.Model.CopyTo
import PGT.Model.Spec
import PGT.Proofs.Store
/-
CopyTo into an empty object for scalar fields held by value (the template `genPrimitive`):
per-field lemma and its lift over a field list by the store laws.
-/
namespace PGT
open PGT.Spec

/-- a scalar field held by value, outside oneofs and nullable embedded messages, whose casts are modelled -/
structure PlainScalar (info : FieldInfo) (k : PrimK) : Prop where
  kind : info.kind = .primitive
  vk : vkindOf info.tf.elemValueType = .prim k
  notPlaceholder : info.isPlaceholder = false
  notNullable : info.isNullable = false
  noOneof : info.oneOfName = ""
  noEmbed : info.parentIsOptionalEmbed = false

/-- the value `s` of the field can be rendered: the cast and the zero test are defined -/
structure Renderable (info : FieldInfo) (s : Sc) (c : Sc) (null : Bool) : Prop where
  cast : info.castTo s = some c
  zero : if info.tf.zeroValue != "" then eqLiteral info.tf.zeroValue c = some null else null = false

theorem primBody_fresh (info : FieldInfo) (k : PrimK) (obj : GoVal) (s c : Sc) (null : Bool)
    (hp : PlainScalar info k) (hr : Renderable info s c null) :
    primBody info obj none (some (.prim k)) (.ok (.sc s)) = .ok (.prim k false null c, []) := by
  have hz := hr.zero
  unfold primBody
  simp only [hp.vk]
  simp only [primFresh, nullOfTy, hp.notPlaceholder, hp.noEmbed, assignPrim, hp.notNullable, hr.cast]
  by_cases hzv : (info.tf.zeroValue != "") = true
  · simp only [hzv, if_true] at hz
    simp [hzv, hz]
  · simp only [hzv] at hz
    simp at hz
    simp [hzv, hz]

end PGT

namespace PGT
open PGT.Spec

/-- the facts under which the field block of a plain scalar field renders its value into a fresh attribute -/
structure PlainOK (f : Field) (obj : GoVal) (atys : Option (List (String × TfTy))) (k : PrimK) (s c : Sc) (null : Bool) : Prop where
  plain : PlainScalar f.info k
  ty : (atys.getD []).lookup f.info.nameSnake = some (.prim k)
  val : (obj.field? f.info.name).getD (zeroGoOf f.info) = .sc s
  ren : Renderable f.info s c null

theorem copyToField_plain (f : Field) (obj : GoVal) (atys : Option (List (String × TfTy))) (st : ToSt)
    (k : PrimK) (s c : Sc) (null : Bool) (h : PlainOK f obj atys k s c null)
    (hcur : st.attrs.lookup f.info.nameSnake = none) :
    copyToField f obj atys st = .ok { st with attrs := setKey f.info.nameSnake (.prim k false null c) st.attrs } := by
  obtain ⟨info, mapVal, msg, sub⟩ := f
  have hp := h.plain
  simp only at hp hcur
  have hty := h.ty
  have hval := h.val
  simp only at hty hval
  unfold copyToField copyToFieldWith
  simp only [hty, hp.kind, hcur]
  have hsh : oneOfShadow info obj = obj := by simp [oneOfShadow, hp.noOneof]
  have hrd : readField info obj = .ok (.sc s) := by simp [readField, hp.noEmbed, hval]
  rw [hsh, hrd, primBody_fresh info k obj s c null hp h.ren]
  simp [ToSt.set]

/-- CopyTo of a message all of whose fields are plain scalars, into an object that holds none of their
attributes yet: every field block succeeds without diagnostics, each attribute holds the rendered value, and
nothing else changes. -/
theorem copyToFields_plain (obj : GoVal) (atys : Option (List (String × TfTy))) :
    ∀ (fs : List Field) (st : ToSt),
      (fs.map (·.info.nameSnake)).Nodup →
      (∀ f ∈ fs, st.attrs.lookup f.info.nameSnake = none) →
      (∀ f ∈ fs, ∃ k s c null, PlainOK f obj atys k s c null) →
      ∃ st', copyToFields fs obj atys st = .ok st' ∧ st'.diags = st.diags ∧ st'.hooks = st.hooks ∧
        (∀ f ∈ fs, ∃ k s c null, PlainOK f obj atys k s c null ∧
            st'.attrs.lookup f.info.nameSnake = some (.prim k false null c)) ∧
        (∀ key, key ∉ fs.map (·.info.nameSnake) → st'.attrs.lookup key = st.attrs.lookup key)
  | [], st, _, _, _ => ⟨st, by simp [copyToFields], rfl, rfl, by simp, by simp⟩
  | f :: rest, st, hnd, hnone, hok => by
    simp only [List.map_cons, List.nodup_cons] at hnd
    obtain ⟨k, s, c, null, hf⟩ := hok f (by simp)
    have hstep := copyToField_plain f obj atys st k s c null hf (hnone f (by simp))
    let st1 : ToSt := { st with attrs := setKey f.info.nameSnake (.prim k false null c) st.attrs }
    have hnone1 : ∀ g ∈ rest, st1.attrs.lookup g.info.nameSnake = none := by
      intro g hg
      have hne : g.info.nameSnake ≠ f.info.nameSnake := by
        intro e
        exact hnd.1 (by rw [← e]; exact List.mem_map_of_mem hg)
      show (setKey _ _ st.attrs).lookup _ = none
      rw [lookup_setKey_other _ _ _ hne]
      exact hnone g (by simp [hg])
    obtain ⟨st', hrun, hd, hh, hall, hframe⟩ :=
      copyToFields_plain obj atys rest st1 hnd.2 hnone1 (fun g hg => hok g (by simp [hg]))
    refine ⟨st', ?_, hd, hh, ?_, ?_⟩
    · simp only [copyToFields, hstep]
      exact hrun
    · intro g hg
      simp at hg
      rcases hg with rfl | hg
      · refine ⟨k, s, c, null, hf, ?_⟩
        rw [hframe _ hnd.1]
        exact lookup_setKey_same _ _ _
      · exact hall g hg
    · intro key hkey
      simp at hkey
      rw [hframe key (by simpa using hkey.2)]
      show (setKey _ _ st.attrs).lookup key = _
      exact lookup_setKey_other _ _ _ hkey.1 _

end PGT
